import RbV.Thm.GenSrcPoaAlign
/-!
# The dynamic-programming phase of `Poa::custom` as translated from the source text = the checked-`i32` mirror (`cStepC`)

**Soft module** (built by `tools/gen_tables.py` after regenerating `Gen/SrcPoaAlign.lean`; a failure is a note, the behavioural tie
decides): the equality is *exact*, tie-breaks of `max` included, so a property-preserving change of a tie-break (seeded C16-H1:
arguments of the inner `max` swapped) falsifies it just like a property-breaking edit of the recurrence (seeded C16-3, C16-4).
`custom_dp_eq_model`: `with_capacity`, `initialize_scores`, the loop over the topological order (`new_row`, per-column
predecessor maximisation, insertion scan, `set`, `max_in_column`) compute row 0, the node rows and the column maxima of
`Model.customTableC` (its `bRow0C` and fold of `cStepC`); no checked operation fails when the mirror's do not.
Not covered: the suffix-clipping tail of `custom` (`custom_for4`, Y clip), `global_banded`, `Traceback::alignment`.
-/
set_option linter.unusedSimpArgs false
set_option linter.unusedVariables false
set_option linter.unnecessarySimpa false
namespace RbV.Thm.GenSrcPoaCustom
open RbV RbV.NW RbV.Rs RbV.Rs.Res RbV.Poa RbV.Poa.Model RbV.Gen.SrcPoaAlign RbV.Thm.GenSrcPoaAlign

theorem for3_fold (sc : Sc) (tb : Rs.Poa.Traceback) (r v j b : Nat) (hj : 1 ≤ j) (rowsM : Nat → BRow) :
    ∀ (prevs : List Nat) (acc res : Cell),
    (∀ p ∈ prevs, p + 1 < 2 ^ 64 ∧ ∀ c, Traceback_get tb (p + 1) c = ok ((rowsM p).get c)) →
    foldlC (predC sc v r b j) acc (prevs.map fun p => (p, rowsM p)) = some res →
    List.foldlM (custom_for3 sc.w sc.gap tb r (v + 1) b j) acc prevs = ok res
  | [], acc, res, _, h => by
    simp only [List.map_nil, foldlC, Option.some.injEq] at h
    simp [h]
  | p :: prevs, acc, res, hp, h => by
    simp only [List.map_cons] at h
    obtain ⟨acc', h1, h2⟩ := foldlC_cons_some h
    obtain ⟨hp1, hp2⟩ := hp p (List.mem_cons_self ..)
    simp only [List.foldlM_cons]
    unfold predC at h1
    simp only at h1
    cases hm : I32.add ((rowsM p).get (j - 1)).score (sc.w r b) with
    | none => rw [hm] at h1; cases h1
    | some ms =>
      rw [hm] at h1
      cases hd : I32.add ((rowsM p).get j).score sc.gap with
      | none => rw [hd] at h1; cases h1
      | some ds =>
        rw [hd] at h1
        simp only [Option.some.injEq] at h1
        have e1 : custom_for3 sc.w sc.gap tb r (v + 1) b j acc p = ok acc' := by
          unfold custom_for3
          simp only [Rs.add_ok hp1, Res.ok_bind, Rs.sub_ok hj, hp2, iadd32_some hm, iadd32_some hd,
            Rs.sub_ok (Nat.le_add_left 1 p), Rs.sub_ok (Nat.le_add_left 1 v), Nat.add_sub_cancel, Res.pure_eq_ok, h1]
        rw [e1]
        simp only [Res.ok_bind]
        exact for3_fold sc tb r v j b hj rowsM prevs acc' res (fun q hq => hp q (List.mem_cons_of_mem _ hq)) h2

/-- one column of the row of node `v` in `Poa::custom` -/
theorem for2_step (sc : Sc) (xp : Int) (query : List Nat) (r0 : BRow) (v r n : Nat) (prevs : List Nat) (rowsM : Nat → BRow)
    (tb0 : Rs.Poa.Traceback) (M0 : List Row) (c0 : Cell) (done pad : List Cell) (k b : Nat)
    (pre : List (Int × Nat)) (mc : Int × Nat) (suf : List (Int × Nat)) (left cand : Cell) (s : Int)
    (hv : v + 1 < 2 ^ 64) (hk : k + 1 < 2 ^ 64) (hlen : v + 1 < M0.length)
    (hr0 : ∃ rr, M0[0]? = some rr ∧ RowRep rr r0)
    (hp : ∀ p ∈ prevs, p ≠ v ∧ p + 1 < 2 ^ 64 ∧ ∃ rr, M0[p + 1]? = some rr ∧ RowRep rr (rowsM p))
    (hdone : done.length = k) (hkn : k + 1 ≤ n)
    (hleft : (c0 :: done)[k]? = some left) (hb : query.getD k 0 = b) (hpre : pre.length = k + 1)
    (hcand : candC sc (cmax mcell ⟨xp, .x 0⟩) query r0 v r (prevs.map fun p => (p, rowsM p)) (k + 1) = some cand)
    (hs : I32.add left.score sc.gap = some s) :
    custom_for2 sc.w sc.gap xp r (v + 1) prevs
        (pre ++ mc :: suf, { tb0 with matrix := M0.set (v + 1) (c0 :: done ++ mcell :: pad, 0, n + 1) }) (k, b) =
      ok (pre ++ (if mc.1 < (cmax cand ⟨s, .i (some v)⟩).score then ((cmax cand ⟨s, .i (some v)⟩).score, v + 1) else mc) :: suf,
          { tb0 with matrix := M0.set (v + 1) (c0 :: done ++ cmax cand ⟨s, .i (some v)⟩ :: pad, 0, n + 1) }) := by
  generalize htb : ({ tb0 with matrix := M0.set (v + 1) (c0 :: done ++ mcell :: pad, 0, n + 1) } : Rs.Poa.Traceback) = tb
  have hmat : tb.matrix = M0.set (v + 1) (c0 :: done ++ mcell :: pad, 0, n + 1) := by rw [← htb]
  have hrow : tb.matrix[v + 1]? = some (c0 :: done ++ mcell :: pad, 0, n + 1) := by
    rw [hmat]; simp [List.getElem?_set, hlen]
  -- reads of the other rows
  have hg0 : ∀ c, Traceback_get tb 0 c = ok (r0.get c) := by
    intro c
    obtain ⟨rr, h1, h2⟩ := hr0
    exact get_eq tb 0 c rr r0 (by rw [hmat, getElem?_set_ne' _ _ _ _ (by omega)]; exact h1) h2
  have hgp : ∀ p ∈ prevs, p + 1 < 2 ^ 64 ∧ ∀ c, Traceback_get tb (p + 1) c = ok ((rowsM p).get c) := by
    intro p hpm
    obtain ⟨h0, h1, rr, h2, h3⟩ := hp p hpm
    exact ⟨h1, fun c => get_eq tb (p + 1) c rr _ (by rw [hmat, getElem?_set_ne' _ _ _ _ (by omega)]; exact h2) h3⟩
  have hgl : Traceback_get tb (v + 1) k = ok left := by
    rw [get_inband tb (v + 1) k _ 0 (n + 1) hrow (by omega) (by omega) (by simp; omega)]
    have : (c0 :: done ++ mcell :: pad)[k]? = some left := by
      show ((c0 :: done) ++ mcell :: pad)[k]? = some left
      rw [List.getElem?_append_left (by simp; omega)]; exact hleft
    simp only [List.getD_eq_getElem?_getD, Nat.sub_zero]
    rw [this]; rfl
  have hsetrow : (c0 :: done ++ mcell :: pad).set (k + 1) (cmax cand ⟨s, .i (some v)⟩) = c0 :: done ++ cmax cand ⟨s, .i (some v)⟩ :: pad := by
    have := set_append_len (c0 :: done) mcell (cmax cand ⟨s, .i (some v)⟩) pad
    simp only [List.length_cons, hdone, List.cons_append] at this
    exact this
  have hset : Traceback_set tb (v + 1) (k + 1) (cmax cand ⟨s, .i (some v)⟩) =
      ok { tb0 with matrix := M0.set (v + 1) (c0 :: done ++ cmax cand ⟨s, .i (some v)⟩ :: pad, 0, n + 1) } := by
    rw [set_eq tb (v + 1) (k + 1) _ _ 0 (n + 1) hrow (by omega) (by omega) (by simp; omega)]
    simp only [Nat.sub_zero, hsetrow, hmat, List.set_set]
    rw [← htb]
  have hmic : (pre ++ mc :: suf)[k + 1]? = some mc := by rw [← hpre]; exact getElem?_append_len pre mc suf
  have hmiclen : k + 1 < (pre ++ mc :: suf).length := lt_of_getElem? hmic
  have hfin : ∀ t28 : Rs.Poa.Traceback, (do
      let t29 ← Rs.idx (pre ++ mc :: suf) (k + 1)
      if decide (t29.fst < (cmax cand ⟨s, .i (some v)⟩).score) = true then do
          let t30 ← Rs.idx (pre ++ mc :: suf) (k + 1)
          let t31 ← Rs.setIdx (pre ++ mc :: suf) (k + 1) ((cmax cand ⟨s, .i (some v)⟩).score, t30.snd)
          let t32 ← Rs.idx t31 (k + 1)
          let t33 ← Rs.setIdx t31 (k + 1) (t32.fst, v + 1)
          let max_in_column ← pure t33
          pure (max_in_column, t28)
        else do
          let max_in_column ← pure (pre ++ mc :: suf)
          pure (max_in_column, t28)) =
      ok (pre ++ (if mc.1 < (cmax cand ⟨s, .i (some v)⟩).score then ((cmax cand ⟨s, .i (some v)⟩).score, v + 1) else mc) :: suf, t28) := by
    intro t28
    simp only [Rs.idx_of_getElem? hmic, Res.ok_bind]
    by_cases hlt : mc.1 < (cmax cand ⟨s, .i (some v)⟩).score
    · have e1 : (pre ++ mc :: suf).set (k + 1) ((cmax cand ⟨s, .i (some v)⟩).score, mc.2) =
          pre ++ ((cmax cand ⟨s, .i (some v)⟩).score, mc.2) :: suf := by rw [← hpre]; exact set_append_len _ _ _ _
      have e2 : (pre ++ ((cmax cand ⟨s, .i (some v)⟩).score, mc.2) :: suf)[k + 1]? = some ((cmax cand ⟨s, .i (some v)⟩).score, mc.2) := by
        rw [← hpre]; exact getElem?_append_len _ _ _
      have e3 : (pre ++ ((cmax cand ⟨s, .i (some v)⟩).score, mc.2) :: suf).set (k + 1) ((cmax cand ⟨s, .i (some v)⟩).score, v + 1) =
          pre ++ ((cmax cand ⟨s, .i (some v)⟩).score, v + 1) :: suf := by rw [← hpre]; exact set_append_len _ _ _ _
      simp only [hlt, decide_true, if_true, Res.ok_bind, Rs.setIdx_ok hmiclen, e1, Rs.idx_of_getElem? e2,
        Rs.setIdx_ok (lt_of_getElem? e2), e3, Res.pure_eq_ok]
    · simp only [hlt, decide_false, Bool.false_eq_true, if_false, Res.ok_bind, Res.pure_eq_ok]
  unfold candC at hcand
  simp only [Nat.add_sub_cancel, hb] at hcand
  unfold custom_for2
  cases prevs with
  | nil =>
    simp only [List.map_nil] at hcand
    cases ha : I32.add (r0.get k).score (sc.w r b) with
    | none => rw [ha] at hcand; cases hcand
    | some sv =>
      rw [ha] at hcand
      simp only [Option.some.injEq] at hcand
      subst hcand
      simp only [Rs.add_ok hk, Res.ok_bind, List.isEmpty_nil, if_true, Rs.sub_ok (Nat.le_add_left 1 k), Nat.add_sub_cancel,
        hg0, iadd32_some ha, Res.pure_eq_ok, hgl, iadd32_some hs, Rs.sub_ok (Nat.le_add_left 1 v), hset]
      exact hfin _
  | cons p ps =>
    simp only [List.map_cons] at hcand
    have hf3 := for3_fold sc tb r v (k + 1) b (by omega) rowsM (p :: ps) _ cand hgp (by simpa using hcand)
    simp only [mcell] at hf3
    simp only [Rs.add_ok hk, Res.ok_bind, List.isEmpty_cons, Bool.false_eq_true, if_false, minScore_eq, hf3,
      Rs.sub_ok (Nat.le_add_left 1 k), Nat.add_sub_cancel, Res.pure_eq_ok, hgl, iadd32_some hs,
      Rs.sub_ok (Nat.le_add_left 1 v), hset]
    exact hfin _

/-- the column loop of the row of node `v` in `Poa::custom`, from column `k + 1` on -/
theorem for2_fold (sc : Sc) (xp : Int) (query : List Nat) (r0 : BRow) (v r n : Nat) (prevs : List Nat) (rowsM : Nat → BRow)
    (tb0 : Rs.Poa.Traceback) (M0 : List Row) (c0 : Cell)
    (hv : v + 1 < 2 ^ 64) (hn : n + 1 < 2 ^ 64) (hlen : v + 1 < M0.length)
    (hr0 : ∃ rr, M0[0]? = some rr ∧ RowRep rr r0)
    (hp : ∀ p ∈ prevs, p ≠ v ∧ p + 1 < 2 ^ 64 ∧ ∃ rr, M0[p + 1]? = some rr ∧ RowRep rr (rowsM p)) :
    ∀ (qs : List Nat) (k : Nat) (done : List Cell) (pre suf : List (Int × Nat)) (left : Cell) (cs : List Cell),
    done.length = k → k + qs.length = n → (∀ i, i < qs.length → query.getD (k + i) 0 = qs.getD i 0) →
    (c0 :: done)[k]? = some left → pre.length = k + 1 → suf.length = qs.length →
    colLoopC (candC sc (cmax mcell ⟨xp, .x 0⟩) query r0 v r (prevs.map fun p => (p, rowsM p))) sc.gap (.i (some v)) left
      (List.range' (k + 1) qs.length) = some cs →
    List.foldlM (custom_for2 sc.w sc.gap xp r (v + 1) prevs)
        (pre ++ suf, { tb0 with matrix := M0.set (v + 1) (c0 :: done ++ List.replicate (qs.length + 1) mcell, 0, n + 1) })
        (Rs.enumFrom k qs) =
      ok (pre ++ colUpdate (v + 1) suf cs,
          { tb0 with matrix := M0.set (v + 1) (c0 :: done ++ cs ++ [mcell], 0, n + 1) })
  | [], k, done, pre, suf, left, cs, hd, hkn, hq, hl, hpre, hsuf, hc => by
    simp only [List.length_nil, List.range'_zero, colLoopC, Option.some.injEq] at hc
    subst hc
    cases suf with
    | nil => simp [Rs.enumFrom, colUpdate]
    | cons a l => simp at hsuf
  | q :: qs, k, done, pre, suf, left, cs, hd, hkn, hq, hl, hpre, hsuf, hc => by
    cases suf with
    | nil => simp at hsuf
    | cons mc suf =>
      simp only [List.length_cons, List.range'_succ, colLoopC] at hc
      cases hcand : candC sc (cmax mcell ⟨xp, .x 0⟩) query r0 v r (prevs.map fun p => (p, rowsM p)) (k + 1) with
      | none => rw [hcand] at hc; cases hc
      | some cand =>
        rw [hcand] at hc
        simp only at hc
        cases hs : I32.add left.score sc.gap with
        | none => rw [hs] at hc; cases hc
        | some s =>
          rw [hs] at hc
          simp only at hc
          cases hrest : colLoopC (candC sc (cmax mcell ⟨xp, .x 0⟩) query r0 v r (prevs.map fun p => (p, rowsM p))) sc.gap
              (.i (some v)) (cmax cand ⟨s, .i (some v)⟩) (List.range' (k + 1 + 1) qs.length) with
          | none => rw [hrest] at hc; cases hc
          | some rest =>
            rw [hrest] at hc
            simp only [Option.some.injEq] at hc
            subst hc
            have hb : query.getD k 0 = q := by simpa using hq 0 (by simp)
            simp only [List.length_cons] at hkn hsuf
            have step := for2_step sc xp query r0 v r n prevs rowsM tb0 M0 c0 done (List.replicate (qs.length + 1) mcell) k q
              pre mc suf left cand s hv (by omega) hlen hr0 hp hd (by omega) hl hb hpre hcand hs
            simp only [Rs.enumFrom, List.foldlM_cons, List.length_cons, List.replicate_succ (n := qs.length + 1)]
            rw [step]
            simp only [Res.ok_bind]
            have ih := for2_fold sc xp query r0 v r n prevs rowsM tb0 M0 c0 hv hn hlen hr0 hp qs (k + 1)
              (done ++ [cmax cand ⟨s, .i (some v)⟩])
              (pre ++ [if mc.1 < (cmax cand ⟨s, .i (some v)⟩).score then ((cmax cand ⟨s, .i (some v)⟩).score, v + 1) else mc])
              suf (cmax cand ⟨s, .i (some v)⟩) rest (by simp [hd]) (by omega)
              (fun i hi => by
                have := hq (i + 1) (by simp; omega)
                simpa [Nat.add_assoc, Nat.add_comm 1 i] using this)
              (by
                show ((c0 :: done) ++ [cmax cand ⟨s, .i (some v)⟩])[k + 1]? = _
                have := getElem?_append_len (c0 :: done) (cmax cand ⟨s, .i (some v)⟩) []
                simpa [hd] using this)
              (by simp [hpre]) (by omega) hrest
            simp only [List.append_assoc, List.singleton_append, List.cons_append, List.nil_append] at ih ⊢
            rw [ih]
            simp [colUpdate]

/-- the state of the main loop of `custom`: the Rust matrix represents row 0 and the model's rows; rows of nodes not yet
visited (`todo`) are still as `with_capacity` left them -/
structure MInv (M : List Row) (r0 : BRow) (rows : Array BRow) (n : Nat) (todo : List Nat) : Prop where
  len : M.length = rows.size + 1
  r0 : ∃ rr, M[0]? = some rr ∧ RowRep rr r0
  rows : ∀ v, v < rows.size → ∃ rr, M[v + 1]? = some rr ∧ RowRep rr (rows.getD v (emptyRow n))
  fresh : ∀ v ∈ todo, M[v + 1]? = some ([], 0, n + 1)

/-- one node of the main loop of `Poa::custom` (`custom_for1`) = `cStepC` of the checked-`i32` mirror -/
theorem for1_step (sc : Sc) (xp : Int) (labels : List Nat) (es : WEdges) (query : List Nat) (r0 : BRow)
    (st st' : CState) (v : Nat) (tb : Rs.Poa.Traceback) (todo : List Nat)
    (hm : labels.length + 1 < 2 ^ 64) (hn : query.length + 1 < 2 ^ 64)
    (hsz : st.rows.size = labels.length) (hv : v < labels.length)
    (hpreds : ∀ p ∈ inN es v, p < labels.length ∧ p ≠ v)
    (hmic : st.maxcol.length = query.length + 1)
    (hinv : MInv tb.matrix r0 st.rows query.length (v :: todo)) (hnd : v ∉ todo)
    (h : cStepC sc xp labels es query r0 st v = some st') :
    ∃ tb', custom_for1 sc.w ⟨labels, es⟩ sc.gap xp query query.length (st.maxcol, tb) v = ok (st'.maxcol, tb') ∧
      tb'.rows = tb.rows ∧ tb'.cols = tb.cols ∧ tb'.last = v ∧ st'.rows.size = labels.length ∧
      st'.maxcol.length = query.length + 1 ∧ MInv tb'.matrix r0 st'.rows query.length todo := by
  unfold cStepC at h
  simp only at h
  cases hrow : cNodeRowC sc xp query r0 v (labels.getD v 0)
      ((inN es v).map fun p => (p, st.rows.getD p (emptyRow query.length))) with
  | none => rw [hrow] at h; cases h
  | some row =>
    rw [hrow] at h
    simp only [Option.some.injEq] at h
    subst h
    unfold cNodeRowC at hrow
    cases hc0 : edgeCellC sc xp v with
    | none => rw [hc0] at hrow; cases hrow
    | some c0 =>
      rw [hc0] at hrow
      simp only at hrow
      cases hcands : mapC (candC sc (cmax mcell ⟨xp, .x 0⟩) query r0 v (labels.getD v 0)
          ((inN es v).map fun p => (p, st.rows.getD p (emptyRow query.length)))) (List.range' 1 query.length) with
      | none => rw [hcands] at hrow; cases hrow
      | some cands =>
        rw [hcands] at hrow
        simp only at hrow
        cases hcells : insScanC sc.gap (.i (some v)) c0 cands with
        | none => rw [hcells] at hrow; cases hrow
        | some cells =>
          rw [hcells] at hrow
          simp only [Option.some.injEq] at hrow
          subst hrow
          have hloop := colLoopC_of _ sc.gap (.i (some v)) _ c0 cands cells hcands hcells
          have hclen : cells.length = query.length := by
            rw [insScanC_length _ _ _ _ _ hcells, mapC_length hcands]; simp
          obtain ⟨m0, rest, hmc⟩ : ∃ m0 rest, st.maxcol = m0 :: rest := by
            cases hq : st.maxcol with
            | nil => rw [hq] at hmic; simp at hmic
            | cons a l => exact ⟨a, l, rfl⟩
          have hrest : rest.length = query.length := by rw [hmc] at hmic; simpa using hmic
          have hfresh := hinv.fresh v (List.mem_cons_self ..)
          have hlen : v + 1 < tb.matrix.length := lt_of_getElem? hfresh
          -- new_row
          have hnr := new_row_eq { tb with last := v } (v + 1) (query.length + 1) sc.gap xp 0 (query.length + 1) 0 (query.length + 1)
            hfresh c0 (by
              unfold edgeCellC at hc0
              simp only [if_true]
              cases hg : I32.mul sc.gap (I32.ofUsize (v + 1)) with
              | none => rw [hg] at hc0; cases hc0
              | some g => rw [hg] at hc0; simpa using hc0)
          have hfold := for2_fold sc xp query r0 v (labels.getD v 0) query.length (inN es v)
            (fun p => st.rows.getD p (emptyRow query.length)) { tb with last := v } tb.matrix c0 (by omega) hn hlen hinv.r0
            (fun p hp => by
              obtain ⟨h1, h2⟩ := hpreds p hp
              exact ⟨h2, by omega, hinv.rows p (by omega)⟩)
            query 0 [] [m0] rest c0 cells rfl (by simp) (fun i _ => by simp) rfl rfl hrest hloop
          refine ⟨{ tb with last := v, matrix := tb.matrix.set (v + 1) (c0 :: cells ++ [mcell], 0, query.length + 1) }, ?_, rfl, rfl, rfl,
            by simp [hsz], by simp [hmc, colUpdate_length, hrest], ?_⟩
          · unfold custom_for1
            have hw : Rs.Poa.nodeWeight ⟨labels, es⟩ v = ok (labels.getD v 0) := by
              unfold Rs.Poa.nodeWeight
              rw [Rs.idx_ok hv]; simp [List.getD, List.getElem?_eq_getElem hv]
            simp only [hw, Res.ok_bind, Rs.add_ok (show v + 1 < 2 ^ 64 by omega), Rs.add_ok hn, Rs.Poa.neighborsIn]
            rw [hnr]
            simp only [Res.ok_bind, enumerate_eq, hmc]
            simp only [List.nil_append, List.singleton_append, List.cons_append] at hfold
            rw [hfold]
            simp [List.set_set]
          · have hvs : v < st.rows.size := by omega
            refine ⟨by simp [hinv.len], ?_, ?_, ?_⟩
            · obtain ⟨rr, h1, h2⟩ := hinv.r0
              exact ⟨rr, by simp only; rw [getElem?_set_ne' _ _ _ _ (by omega)]; exact h1, h2⟩
            · intro u hu
              simp only [Array.size_setIfInBounds] at hu
              by_cases huv : u = v
              · subst huv
                refine ⟨_, by simp only; exact set_get_self hfresh, ?_⟩
                have : (st.rows.setIfInBounds u { cells := c0 :: cells, start := 0, stop := query.length + 1 }).getD u
                    (emptyRow query.length) = { cells := c0 :: cells, start := 0, stop := query.length + 1 } := by
                  simp [Array.getD, hvs]
                rw [this]
                refine ⟨rfl, rfl, by simp, fun _ => by simp [hclen], fun k => ?_⟩
                show ((c0 :: cells) ++ [mcell]).getD k mcell = (c0 :: cells).getD k mcell
                exact getD_append_default _ _ _
              · obtain ⟨rr, h1, h2⟩ := hinv.rows u hu
                refine ⟨rr, by simp only; rw [getElem?_set_ne' _ _ _ _ (by omega)]; exact h1, ?_⟩
                have : (st.rows.setIfInBounds v { cells := c0 :: cells, start := 0, stop := query.length + 1 }).getD u
                    (emptyRow query.length) = st.rows.getD u (emptyRow query.length) := by
                  simp [Array.getD, hu, Array.getElem_setIfInBounds, Ne.symm huv]
                rw [this]; exact h2
            · intro u hu
              have huv : u ≠ v := fun hh => hnd (hh ▸ hu)
              simp only
              rw [getElem?_set_ne' _ _ _ _ (by omega)]
              exact hinv.fresh u (List.mem_cons_of_mem _ hu)

/-- the main loop of `Poa::custom` over the topological order = the fold of `cStepC` -/
theorem for1_fold (sc : Sc) (xp : Int) (labels : List Nat) (es : WEdges) (query : List Nat) (r0 : BRow)
    (hm : labels.length + 1 < 2 ^ 64) (hn : query.length + 1 < 2 ^ 64)
    (hpreds : ∀ v, ∀ p ∈ inN es v, p < labels.length ∧ p ≠ v) :
    ∀ (order : List Nat) (st st' : CState) (tb : Rs.Poa.Traceback), order.Nodup → (∀ v ∈ order, v < labels.length) →
    st.rows.size = labels.length → st.maxcol.length = query.length + 1 → MInv tb.matrix r0 st.rows query.length order →
    foldlC (cStepC sc xp labels es query r0) st order = some st' →
    ∃ tb', List.foldlM (custom_for1 sc.w ⟨labels, es⟩ sc.gap xp query query.length) (st.maxcol, tb) order = ok (st'.maxcol, tb') ∧
      tb'.rows = tb.rows ∧ tb'.cols = tb.cols ∧ tb'.last = order.getLastD tb.last ∧ st'.rows.size = labels.length ∧
      MInv tb'.matrix r0 st'.rows query.length []
  | [], st, st', tb, _, _, hsz, _, hinv, h => by
    simp only [foldlC, Option.some.injEq] at h
    subst h
    exact ⟨tb, rfl, rfl, rfl, rfl, hsz, hinv⟩
  | v :: order, st, st', tb, hnd, hlt, hsz, hmic, hinv, h => by
    obtain ⟨st1, h1, h2⟩ := foldlC_cons_some h
    rw [List.nodup_cons] at hnd
    obtain ⟨tb1, e1, er, ec, el, hsz1, hmic1, hinv1⟩ := for1_step sc xp labels es query r0 st st1 v tb order hm hn hsz
      (hlt v (List.mem_cons_self ..)) (hpreds v) hmic hinv hnd.1 h1
    obtain ⟨tb', e2, er2, ec2, el2, hsz2, hinv2⟩ := for1_fold sc xp labels es query r0 hm hn hpreds order st1 st' tb1 hnd.2
      (fun u hu => hlt u (List.mem_cons_of_mem _ hu)) hsz1 hmic1 hinv1 h2
    refine ⟨tb', ?_, by rw [er2, er], by rw [ec2, ec], ?_, hsz2, hinv2⟩
    · simp only [List.foldlM_cons, e1, Res.ok_bind]; exact e2
    · rw [el2, el]; cases order <;> simp [List.getLastD]

/-- **the dynamic-programming phase of the translated `Poa::custom`** (`with_capacity`, `initialize_scores`, the loop over the
topological order with `new_row`, the predecessor maximisation, the insertion scan, `set`, `max_in_column`) computes the
rows and the column maxima of the checked-`i32` mirror: whenever the mirror's row 0 and fold of `cStepC` are `some`, the
translated code does not panic and its matrix represents them (`MInv`). -/
theorem custom_dp_eq_model (sc : Sc) (xp yp : Int) (labels : List Nat) (es : WEdges) (query : List Nat) (r0 : BRow) (st : CState)
    (hm : labels.length + 1 < 2 ^ 64) (hn : query.length + 1 < 2 ^ 64)
    (hpreds : ∀ v, ∀ p ∈ inN es v, p < labels.length ∧ p ≠ v)
    (hnd : (topo labels.length es).Nodup) (hlt : ∀ v ∈ topo labels.length es, v < labels.length)
    (h0 : bRow0C sc.gap yp query.length = some r0)
    (h : foldlC (cStepC sc xp labels es query r0)
      { rows := Array.replicate labels.length (emptyRow query.length), maxcol := List.replicate (query.length + 1) ((0 : Int), 0) }
      (topo labels.length es) = some st) :
    ∃ tb, (do
        let tb ← Traceback_with_capacity labels.length query.length
        let tb ← Traceback_initialize_scores tb sc.gap yp
        List.foldlM (custom_for1 sc.w ⟨labels, es⟩ sc.gap xp query query.length)
          (List.replicate (query.length + 1) ((0 : Int), 0), tb) (Rs.Poa.topoOrder ⟨labels, es⟩)) = ok (st.maxcol, tb) ∧
      tb.rows = labels.length ∧ tb.cols = query.length ∧ tb.last = (topo labels.length es).getLastD 0 ∧
      st.rows.size = labels.length ∧ MInv tb.matrix r0 st.rows query.length [] := by
  obtain ⟨hs0, hs1, hs2⟩ := bRow0C_shape h0
  have hinit := init_eq labels.length query.length sc.gap yp r0 h0 hn hm
  have hinv : MInv ((r0.cells, 0, query.length + 1) :: List.replicate labels.length (([] : List Cell), 0, query.length + 1)) r0
      (Array.replicate labels.length (emptyRow query.length)) query.length (topo labels.length es) := by
    refine ⟨by simp, ⟨_, rfl, ⟨hs0.symm, hs1.symm, Iff.rfl, fun _ => by simp only; omega, fun _ => rfl⟩⟩, ?_, ?_⟩
    · intro v hv
      simp only [Array.size_replicate] at hv
      refine ⟨([], 0, query.length + 1), by simp [List.getElem?_replicate, hv], ?_⟩
      have : (Array.replicate labels.length (emptyRow query.length)).getD v (emptyRow query.length) = emptyRow query.length := by
        simp [Array.getD, hv]
      rw [this]
      exact ⟨rfl, rfl, Iff.rfl, fun hh => absurd rfl hh, fun _ => rfl⟩
    · intro v hv
      simp [List.getElem?_replicate, hlt v hv]
  obtain ⟨tb', e, er, ec, el, hsz, hinv'⟩ := for1_fold sc xp labels es query r0 hm hn hpreds (topo labels.length es) _ st
    { rows := labels.length, cols := query.length, last := 0,
      matrix := (r0.cells, 0, query.length + 1) :: List.replicate labels.length ([], 0, query.length + 1) }
    hnd hlt (by simp) (by simp) hinv h
  refine ⟨tb', ?_, er, ec, el, hsz, hinv'⟩
  have hb : ∀ (f : Rs.Poa.Traceback → Res ((List (Int × Nat)) × Rs.Poa.Traceback)),
      (do let tb ← Traceback_with_capacity labels.length query.length
          let tb ← Traceback_initialize_scores tb sc.gap yp
          f tb) = (do let tb ← (do let tb ← Traceback_with_capacity labels.length query.length
                                   Traceback_initialize_scores tb sc.gap yp)
                      f tb) := by intro f; simp only [bind_assoc]
  rw [hb, hinit]
  exact e

end RbV.Thm.GenSrcPoaCustom
