import RbV.Gen.SrcLcp
import RbV.Model.Kasai
import RbV.Thm.GenSrcBasic
/-!
# The translated text of `suffix_array::lcp` (Kasai et al.) equals the mirror model `Kasai.kasai`

`RbV/Gen/SrcLcp.lean` is regenerated from `src/data_structures/suffix_array.rs` by `tools/rs2lean_gensa.py` (dialect
"gensa") on every `./check C03`.  The suffix array is read at the slice instance (`Deref<Target = Vec<usize>>`), the LCP
container `SmallInts<i8, isize>` as the vector of its `isize` values (`from_elem(v, n)` = `n` copies, `set(i, v)` = write
with bounds check; `lcp_container_source_exact` of Thm/C03.lean says that the translated container reads back like one).

* `for1_spec`   — the first loop builds the **inverse permutation**: `rank[pos[i]] = i` for a duplicate-free `pos`.
* `while1_eq`   — the `while` loop is the model's `extend` (no overflow of `pred + l`, `p + l`; fuel `n + 1` suffices).
* `for2_sorted`, `lcp_source_exact` — model-free: on a sorted suffix permutation the main loop writes `lcpOf p` at `rank[p]`
  for every carried `l ≤ lcpOf p`; result `= lcpRef` (hard obligation).
* the step-by-step equality with the mirror model `Kasai.kasaiGo` (`for2_eq`, `lcp_eq_model`: any permutation starting with
  `n - 1`, sorted or not) is the **soft** module `Thm/GenSrcLcpModel.lean`.
Hypotheses = what keeps the code from panicking: `pos` is a permutation of the positions whose first entry is `n - 1`
(`rank[p] ≥ 1` for the positions the loop visits), `n ≥ 1` (`take(n - 1)`), `n + 1 < 2^63`.
-/
set_option linter.unusedSimpArgs false
set_option linter.unusedVariables false

namespace RbV.Thm.GenSrcLcp
open RbV RbV.Rs RbV.Gen RbV.Thm.GenSrc RbV.Kasai

theorem p63 : (2 : Nat) ^ 63 < 2 ^ 64 := by decide

theorem extend_le (t : List Nat) (p pred : Nat) : ∀ (f l : Nat), l ≤ t.length → extend t p pred f l ≤ t.length := by
  intro f
  induction f with
  | zero => intro l h; simpa [extend] using h
  | succ f ih =>
    intro l h
    simp only [extend]
    split
    · rename_i hc; exact ih (l + 1) (by omega)
    · exact h

theorem extend_comm (t : List Nat) (p pred : Nat) : ∀ (f l : Nat), extend t p pred f l = extend t pred p f l := by
  intro f
  induction f with
  | zero => intro l; rfl
  | succ f ih =>
    intro l
    simp only [extend]
    rw [ih (l + 1)]
    have : (pred + l < t.length ∧ p + l < t.length ∧ t.getD (p + l) 0 = t.getD (pred + l) 0) ↔
        (p + l < t.length ∧ pred + l < t.length ∧ t.getD (pred + l) 0 = t.getD (p + l) 0) := by
      constructor <;> (intro h; exact ⟨h.2.1, h.1, h.2.2.symm⟩)
    simp only [this]

/-- the `while` loop = the model's `extend` (one more unit of fuel: the translated loop needs a call to see the exit) -/
theorem while1_eq (t : List Nat) (p pred : Nat) (hsz : t.length + t.length < 2 ^ 64) (hp : p ≤ t.length)
    (hpred : pred ≤ t.length) :
    ∀ (f l : Nat), l ≤ t.length → t.length ≤ p + l + f →
      SrcLcp.lcp_while1 t t.length p pred (f + 1) l = Res.ok (extend t p pred f l) := by
  intro f
  induction f with
  | zero =>
    intro l hl hf
    have e1 : Rs.add 64 pred l = Res.ok (pred + l) := Rs.add_ok (by omega)
    have e1' : Rs.add 64 l pred = Res.ok (pred + l) := by rw [Nat.add_comm]; exact Rs.add_ok (by omega)
    have e2 : Rs.add 64 p l = Res.ok (p + l) := Rs.add_ok (by omega)
    have e2' : Rs.add 64 l p = Res.ok (p + l) := by rw [Nat.add_comm]; exact Rs.add_ok (by omega)
    have hc : ¬ p + l < t.length := by omega
    have hc' : ¬ t.length > p + l := by omega
    by_cases h1 : pred + l < t.length <;>
      simp [SrcLcp.lcp_while1, extend, e1, e1', e2, e2', hc, hc', h1]
  | succ f ih =>
    intro l hl hf
    have e1 : Rs.add 64 pred l = Res.ok (pred + l) := Rs.add_ok (by omega)
    have e1' : Rs.add 64 l pred = Res.ok (pred + l) := by rw [Nat.add_comm]; exact Rs.add_ok (by omega)
    have e2 : Rs.add 64 p l = Res.ok (p + l) := Rs.add_ok (by omega)
    have e2' : Rs.add 64 l p = Res.ok (p + l) := by rw [Nat.add_comm]; exact Rs.add_ok (by omega)
    have e3 : Rs.add 64 l 1 = Res.ok (l + 1) := Rs.add_ok (by omega)
    have e3' : Rs.add 64 1 l = Res.ok (l + 1) := by rw [Nat.add_comm]; exact Rs.add_ok (by omega)
    by_cases h1 : pred + l < t.length
    · by_cases h2 : p + l < t.length
      · have e4 : Rs.idx t (p + l) = Res.ok (t.getD (p + l) 0) := idx_getD t _ 0 h2
        have e5 : Rs.idx t (pred + l) = Res.ok (t.getD (pred + l) 0) := idx_getD t _ 0 h1
        by_cases h3 : t.getD (p + l) 0 = t.getD (pred + l) 0
        · have h3' : t.getD (pred + l) 0 = t.getD (p + l) 0 := h3.symm
          have := ih (l + 1) (by omega) (by omega)
          rw [SrcLcp.lcp_while1, extend]
          simp [-List.getD_eq_getElem?_getD, e1, e1', e2, e2', e3, e3', e4, e5, h1, h2, h3, this]
        · have h3' : ¬ t.getD (pred + l) 0 = t.getD (p + l) 0 := fun e => h3 e.symm
          rw [SrcLcp.lcp_while1, extend]
          simp [-List.getD_eq_getElem?_getD, e1, e1', e2, e2', e3, e3', e4, e5, h1, h2, h3, h3']
      · rw [SrcLcp.lcp_while1, extend]
        simp [-List.getD_eq_getElem?_getD, e1, e1', e2, e2', e3, e3', h1, h2]
    · rw [SrcLcp.lcp_while1, extend]
      simp [-List.getD_eq_getElem?_getD, e1, e1', e2, e2', e3, e3', h1]

open RbV RbV.Rs RbV.Gen RbV.Thm.GenSrc RbV.Kasai

/-- first loop: `rank[*p] = r` for every `(r, p)` of `pos.iter().enumerate()` -/
theorem for1_spec : ∀ (xs : List Nat) (k : Nat) (rank : List Nat), (∀ x ∈ xs, x < rank.length) →
    ∃ rank', SrcLcp.lcp_for1 (xs.zipIdx k) rank = Res.ok rank' ∧ rank'.length = rank.length ∧
      (∀ p, p ∉ xs → rank'[p]? = rank[p]?) ∧
      (xs.Nodup → ∀ i (h : i < xs.length), rank'[xs[i]]? = some (k + i)) := by
  intro xs
  induction xs with
  | nil => intro k rank _; exact ⟨rank, by simp [SrcLcp.lcp_for1], rfl, fun _ _ => rfl, fun _ i h => by simp at h⟩
  | cons x xs ih =>
    intro k rank hx
    have hxl : x < rank.length := hx x (by simp)
    obtain ⟨rank', h1, h2, h3, h4⟩ := ih (k + 1) (rank.set x k) (by
      intro y hy; rw [List.length_set]; exact hx y (List.mem_cons_of_mem _ hy))
    refine ⟨rank', ?_, by rw [h2, List.length_set], ?_, ?_⟩
    · simp [List.zipIdx_cons, SrcLcp.lcp_for1, Rs.setIdx_ok hxl, h1]
    · intro p hp
      have hpx : p ≠ x := fun e => hp (by simp [e])
      have hpxs : p ∉ xs := fun e => hp (List.mem_cons_of_mem _ e)
      rw [h3 p hpxs, List.getElem?_set_ne (fun e => hpx e.symm)]
    · intro hnd i hi
      have hnd' := List.nodup_cons.mp hnd
      cases i with
      | zero =>
        simp only [List.getElem_cons_zero, Nat.add_zero]
        rw [h3 x hnd'.1, List.getElem?_set_self hxl]
      | succ i =>
        simp only [List.getElem_cons_succ]
        rw [h4 hnd'.2 i (by simpa using hi)]
        congr 1; omega

theorem toSigned_small {l : Nat} (h : l < 2 ^ 63) : Rs.toSigned 64 l = (l : Int) := Rs.toSigned_of_lt (by simpa using h)

theorem lcp_length_mismatch_panics (t sa : List Nat) (h : t.length ≠ sa.length) : SrcLcp.lcp t sa = Res.panic := by
  have e3 : Rs.assert (t.length == sa.length) = Res.panic := by simp [Rs.assert, h]
  unfold SrcLcp.lcp
  simp [e3]

/-! ### model-free: on a **sorted** suffix permutation the loop writes the true LCP values whatever `l ≤ lcpOf p` it carries

`for2_sorted` relates the translated loop started with `l` to the model started with any `l₀`, both `≤ lcpOf p`: the `while`
extends either to `lcpOf p`, which is what gets written; the value carried on only has to stay `≤ lcpOf (p + 1)` — true for
`lcpOf p − 1` (Kasai's inequality) and for `0` (a rewrite that restarts every extension from `l = 0`).  `lcp_source_exact`
is proved from it, not from `lcp_eq_model`. -/

theorem extend_lcpOf (t sa : List Nat) (p l : Nat) (hp : p < t.length) (hl : l ≤ lcpOf t sa p) :
    extend t p (sa.getD (sa.idxOf p - 1) 0) t.length l = lcpOf t sa p := by
  rw [extend_eq t p _ t.length l (by omega)]
  unfold lcpOf at hl ⊢
  have := cpl_add _ _ l hl
  rw [List.drop_drop, List.drop_drop] at this
  omega

theorem for2_sorted (t sa : List Nat) (h : Sorted t sa) (hn : 0 < t.length) (hsz : t.length + 1 < 2 ^ 63) :
    ∀ (d p l l₀ : Nat) (lcp : List Int), p + d = t.length - 1 →
      (d = 0 ∨ (l ≤ lcpOf t sa p ∧ l₀ ≤ lcpOf t sa p)) → l ≤ t.length → lcp.length = t.length + 1 →
      ∃ l', SrcLcp.lcp_for2 t sa t.length ((List.range' p d).map (fun p => (sa.idxOf p, p))) (l, lcp) =
        Res.ok (l', kasaiGo t sa (List.range' p d) l₀ lcp) := by
  intro d
  have q := p63
  have hlen := h.length
  induction d with
  | zero => intro p l l₀ lcp _ _ _ _; exact ⟨l, by simp [SrcLcp.lcp_for2, kasaiGo]⟩
  | succ d ih =>
    intro p l l₀ lcp hpd hl hln hlcp
    obtain ⟨hl1, hl2⟩ : l ≤ lcpOf t sa p ∧ l₀ ≤ lcpOf t sa p := by
      rcases hl with h0 | h0
      · omega
      · exact h0
    have hpn : p < t.length := by omega
    have rp := h.rank_lt p hpn
    rw [hlen] at rp
    have rpos : 0 < sa.idxOf p := by
      apply Nat.pos_of_ne_zero
      intro hz
      have e1 := h.getD_rank p hpn
      have e2 := h.getD_rank (t.length - 1) (by omega)
      rw [h.rank_last hn] at e2
      rw [hz, e2] at e1
      omega
    have hpred : sa.getD (sa.idxOf p - 1) 0 < t.length := h.getD_lt _ (by omega)
    have hL : lcpOf t sa p ≤ t.length := by
      have := extend_le t p (sa.getD (sa.idxOf p - 1) 0) t.length l hln
      rw [extend_lcpOf t sa p l hpn hl1] at this; exact this
    have e1 : Rs.sub (sa.idxOf p) 1 = Res.ok (sa.idxOf p - 1) := Rs.sub_ok rpos
    have e2 : Rs.idx sa (sa.idxOf p - 1) = Res.ok (sa.getD (sa.idxOf p - 1) 0) := idx_getD sa _ 0 (by omega)
    have e3 := while1_eq t p (sa.getD (sa.idxOf p - 1) 0) (by omega) (by omega) (by omega) t.length l hln (by omega)
    have e3' := while1_eq t (sa.getD (sa.idxOf p - 1) 0) p (by omega) (by omega) (by omega) t.length l hln (by omega)
    rw [extend_comm] at e3'
    rw [extend_lcpOf t sa p l hpn hl1] at e3 e3'
    have e4 : Rs.toSigned 64 (lcpOf t sa p) = (lcpOf t sa p : Int) := toSigned_small (by omega)
    have e5 : Rs.setIdx lcp (sa.idxOf p) (lcpOf t sa p : Int) = Res.ok (lcp.set (sa.idxOf p) (lcpOf t sa p : Int)) :=
      Rs.setIdx_ok (by omega)
    have hnext : d = 0 ∨ lcpOf t sa p - 1 ≤ lcpOf t sa (p + 1) := by
      by_cases hd : d = 0
      · exact Or.inl hd
      · exact Or.inr (kasai_ineq t sa h p (by omega) rpos)
    have hlen' : (lcp.set (sa.idxOf p) (lcpOf t sa p : Int)).length = t.length + 1 := by rw [List.length_set]; exact hlcp
    -- the value carried on: `lcpOf p − 1` (pinned text) or `0` (restart) — both stay below the next true value
    obtain ⟨lA, hA⟩ := ih (p + 1) (lcpOf t sa p - 1) (lcpOf t sa p - 1) (lcp.set (sa.idxOf p) (lcpOf t sa p : Int))
      (by omega) (by rcases hnext with h0 | h0; exact Or.inl h0; exact Or.inr ⟨h0, h0⟩) (by omega) hlen'
    obtain ⟨lB, hB⟩ := ih (p + 1) 0 (lcpOf t sa p - 1) (lcp.set (sa.idxOf p) (lcpOf t sa p : Int))
      (by omega) (by rcases hnext with h0 | h0; exact Or.inl h0; exact Or.inr ⟨Nat.zero_le _, h0⟩) (by omega) hlen'
    have hmodel : kasaiGo t sa (List.range' p (d + 1)) l₀ lcp =
        kasaiGo t sa (List.range' (p + 1) d) (lcpOf t sa p - 1) (lcp.set (sa.idxOf p) (lcpOf t sa p : Int)) := by
      rw [List.range'_succ]
      simp only [kasaiGo]
      rw [extend_lcpOf t sa p l₀ hpn hl2]
    rw [hmodel, List.range'_succ, List.map_cons, SrcLcp.lcp_for2]
    by_cases h0 : lcpOf t sa p > 0
    · have e6 : Rs.sub (lcpOf t sa p) 1 = Res.ok (lcpOf t sa p - 1) := Rs.sub_ok (by omega)
      have h0' : 0 < lcpOf t sa p := h0
      have h0'' : lcpOf t sa p ≠ 0 := by omega
      first
      | (refine ⟨lA, ?_⟩
         simp [-List.getD_eq_getElem?_getD, e1, e2, e3, e3', e4, e5, e6, h0, h0', h0'', hA]
         done)
      | (refine ⟨lB, ?_⟩
         simp [-List.getD_eq_getElem?_getD, e1, e2, e3, e3', e4, e5, e6, h0, h0', h0'', hB])
    · have h00 : lcpOf t sa p = 0 := by omega
      rw [h00] at e3 e3' e4 e5 hA hB ⊢
      have e5' : Rs.setIdx lcp (sa.idxOf p) 0 = Res.ok (lcp.set (sa.idxOf p) 0) := by simpa using e5
      have hB' : SrcLcp.lcp_for2 t sa t.length ((List.range' (p + 1) d).map (fun p => (sa.idxOf p, p)))
          (0, lcp.set (sa.idxOf p) 0) = Res.ok (lB, kasaiGo t sa (List.range' (p + 1) d) (0 - 1) (lcp.set (sa.idxOf p) 0)) := by
        simpa using hB
      refine ⟨lB, ?_⟩
      simp [-List.getD_eq_getElem?_getD, e1, e2, e3, e3', e4, e5', hB']

/-- **the translated `lcp`, run on a sorted suffix permutation that starts with `n - 1`, returns the LCP array** — proved
from the loop invariant `l ≤ lcpOf p` on the true LCP values (`for2_sorted`), not through the equality with `kasaiGo` -/
theorem lcp_source_exact (t sa : List Nat) (h : Sorted t sa) (hn : 0 < t.length) (hsz : t.length + 1 < 2 ^ 63) :
    SrcLcp.lcp t sa = Res.ok (lcpRef t sa) := by
  have q := p63
  have hperm := h.perm
  have hlen : sa.length = t.length := h.length
  have hnd : sa.Nodup := h.nodup
  have hmem : ∀ x, x ∈ sa ↔ x < t.length := by intro x; rw [hperm.mem_iff, List.mem_range]
  obtain ⟨rank, h1, h2, _, h4⟩ := for1_spec sa 0 (List.replicate t.length 0) (by
    intro x hx; rw [List.length_replicate]; exact (hmem x).mp hx)
  have h4' := h4 hnd
  rw [List.length_replicate] at h2
  have hrank : ∀ p, p < t.length → rank[p]? = some (sa.idxOf p) := by
    intro p hp
    have hi : sa.idxOf p < sa.length := List.idxOf_lt_length_iff.mpr ((hmem p).mpr hp)
    have := h4' (sa.idxOf p) hi
    rw [List.getElem_idxOf hi] at this
    simpa using this
  have hsrc : rank.zipIdx.take (t.length - 1) = (List.range (t.length - 1)).map (fun p => (sa.idxOf p, p)) := by
    apply List.ext_getElem?
    intro i
    by_cases hi : i < t.length - 1
    · rw [List.getElem?_take_of_lt hi]
      simp [hrank i (by omega), hi]
    · rw [List.getElem?_take_eq_none (by omega), List.getElem?_eq_none (by simp; omega)]
  obtain ⟨l', h5⟩ := for2_sorted t sa h hn hsz (t.length - 1) 0 0 0 (List.replicate (t.length + 1) (-1)) (by omega)
    (by by_cases hd : t.length - 1 = 0
        · exact Or.inl hd
        · exact Or.inr ⟨Nat.zero_le _, Nat.zero_le _⟩) (by omega) (by simp)
  have hk : kasaiGo t sa (List.range' 0 (t.length - 1)) 0 (List.replicate (t.length + 1) (-1)) = lcpRef t sa := by
    rw [← kasai_eq_lcpRef t sa h hn]; unfold kasai; rw [List.range_eq_range']
  rw [hk, ← List.range_eq_range'] at h5
  have e1 : Rs.add 64 t.length 1 = Res.ok (t.length + 1) := Rs.add_ok (by omega)
  have e1' : Rs.add 64 1 t.length = Res.ok (t.length + 1) := by rw [Nat.add_comm]; exact Rs.add_ok (by omega)
  have e2 : Rs.sub t.length 1 = Res.ok (t.length - 1) := Rs.sub_ok (by omega)
  have e3 : Rs.assert (t.length == sa.length) = Res.ok () := Rs.assert_ok (by simp [hlen])
  have e3' : Rs.assert (sa.length == t.length) = Res.ok () := Rs.assert_ok (by simp [hlen])
  unfold SrcLcp.lcp
  simp [e1, e1', e2, e3, e3', h1, hsrc, h5]

end RbV.Thm.GenSrcLcp
