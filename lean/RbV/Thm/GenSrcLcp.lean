import RbV.Gen.SrcLcp
import RbV.Model.Kasai
import RbV.Thm.GenSrcBasic
/-!
# The translated text of `suffix_array::lcp` (Kasai et al.) equals the mirror model `Kasai.kasai`

`RbV/Gen/SrcLcp.lean` is regenerated from `src/data_structures/suffix_array.rs` by `tools/rs2lean_gensa.py` (dialect
"gensa") on every `./check C03`.  The suffix array is read at the slice instance (`Deref<Target = Vec<usize>>`), the LCP
container `SmallInts<i8, isize>` as the vector of its `isize` values (`from_elem(v, n)` = `n` copies, `set(i, v)` = write
with bounds check; `lcp_container_source_exact` of Thm/C03.lean says that the translated container reads back like one).

* `for1_spec`   — the first loop builds the **inverse permutation**: `rank[pos[i]] = i` for a duplicate-free `pos`.
* `while1_eq`   — the `while` loop is the model's `extend` (no overflow of `pred + l`, `p + l`; fuel `n + 1` suffices).
* `for2_eq`     — the main loop is `kasaiGo` (`r - 1` does not underflow, `pos[r - 1]`, `lcp.set(r, …)` in range,
                  `l as isize` exact).
* `lcp_eq_model`, `lcp_source_exact` (with `Kasai.kasai_eq_lcpRef`: = `lcpRef` on every sorted suffix permutation).
Hypotheses = what keeps the code from panicking: `pos` is a permutation of the positions whose first entry is `n - 1`
(`rank[p] ≥ 1` for the positions the loop visits), `n ≥ 1` (`take(n - 1)`), `n + 1 < 2^63`.
-/
set_option linter.unusedSimpArgs false
set_option linter.unusedVariables false

namespace RbV.Thm.GenSrcLcp
open RbV RbV.Rs RbV.Gen RbV.Thm.GenSrc RbV.Kasai

theorem p63 : (2 : Nat) ^ 63 < 2 ^ 64 := by decide

theorem extend_le (t : List Nat) (p pred : Nat) : ∀ (f l : Nat), l ≤ t.length → extend t p pred f l ≤ t.length := by
  intro f
  induction f with
  | zero => intro l h; simpa [extend] using h
  | succ f ih =>
    intro l h
    simp only [extend]
    split
    · rename_i hc; exact ih (l + 1) (by omega)
    · exact h

theorem extend_comm (t : List Nat) (p pred : Nat) : ∀ (f l : Nat), extend t p pred f l = extend t pred p f l := by
  intro f
  induction f with
  | zero => intro l; rfl
  | succ f ih =>
    intro l
    simp only [extend]
    rw [ih (l + 1)]
    have : (pred + l < t.length ∧ p + l < t.length ∧ t.getD (p + l) 0 = t.getD (pred + l) 0) ↔
        (p + l < t.length ∧ pred + l < t.length ∧ t.getD (pred + l) 0 = t.getD (p + l) 0) := by
      constructor <;> (intro h; exact ⟨h.2.1, h.1, h.2.2.symm⟩)
    simp only [this]

/-- the `while` loop = the model's `extend` (one more unit of fuel: the translated loop needs a call to see the exit) -/
theorem while1_eq (t : List Nat) (p pred : Nat) (hsz : t.length + t.length < 2 ^ 64) (hp : p ≤ t.length)
    (hpred : pred ≤ t.length) :
    ∀ (f l : Nat), l ≤ t.length → t.length ≤ p + l + f →
      SrcLcp.lcp_while1 t t.length p pred (f + 1) l = Res.ok (extend t p pred f l) := by
  intro f
  induction f with
  | zero =>
    intro l hl hf
    have e1 : Rs.add 64 pred l = Res.ok (pred + l) := Rs.add_ok (by omega)
    have e1' : Rs.add 64 l pred = Res.ok (pred + l) := by rw [Nat.add_comm]; exact Rs.add_ok (by omega)
    have e2 : Rs.add 64 p l = Res.ok (p + l) := Rs.add_ok (by omega)
    have e2' : Rs.add 64 l p = Res.ok (p + l) := by rw [Nat.add_comm]; exact Rs.add_ok (by omega)
    have hc : ¬ p + l < t.length := by omega
    have hc' : ¬ t.length > p + l := by omega
    by_cases h1 : pred + l < t.length <;>
      simp [SrcLcp.lcp_while1, extend, e1, e1', e2, e2', hc, hc', h1]
  | succ f ih =>
    intro l hl hf
    have e1 : Rs.add 64 pred l = Res.ok (pred + l) := Rs.add_ok (by omega)
    have e1' : Rs.add 64 l pred = Res.ok (pred + l) := by rw [Nat.add_comm]; exact Rs.add_ok (by omega)
    have e2 : Rs.add 64 p l = Res.ok (p + l) := Rs.add_ok (by omega)
    have e2' : Rs.add 64 l p = Res.ok (p + l) := by rw [Nat.add_comm]; exact Rs.add_ok (by omega)
    have e3 : Rs.add 64 l 1 = Res.ok (l + 1) := Rs.add_ok (by omega)
    have e3' : Rs.add 64 1 l = Res.ok (l + 1) := by rw [Nat.add_comm]; exact Rs.add_ok (by omega)
    by_cases h1 : pred + l < t.length
    · by_cases h2 : p + l < t.length
      · have e4 : Rs.idx t (p + l) = Res.ok (t.getD (p + l) 0) := idx_getD t _ 0 h2
        have e5 : Rs.idx t (pred + l) = Res.ok (t.getD (pred + l) 0) := idx_getD t _ 0 h1
        by_cases h3 : t.getD (p + l) 0 = t.getD (pred + l) 0
        · have h3' : t.getD (pred + l) 0 = t.getD (p + l) 0 := h3.symm
          have := ih (l + 1) (by omega) (by omega)
          rw [SrcLcp.lcp_while1, extend]
          simp [-List.getD_eq_getElem?_getD, e1, e1', e2, e2', e3, e3', e4, e5, h1, h2, h3, this]
        · have h3' : ¬ t.getD (pred + l) 0 = t.getD (p + l) 0 := fun e => h3 e.symm
          rw [SrcLcp.lcp_while1, extend]
          simp [-List.getD_eq_getElem?_getD, e1, e1', e2, e2', e3, e3', e4, e5, h1, h2, h3, h3']
      · rw [SrcLcp.lcp_while1, extend]
        simp [-List.getD_eq_getElem?_getD, e1, e1', e2, e2', e3, e3', h1, h2]
    · rw [SrcLcp.lcp_while1, extend]
      simp [-List.getD_eq_getElem?_getD, e1, e1', e2, e2', e3, e3', h1]

open RbV RbV.Rs RbV.Gen RbV.Thm.GenSrc RbV.Kasai

/-- first loop: `rank[*p] = r` for every `(r, p)` of `pos.iter().enumerate()` -/
theorem for1_spec : ∀ (xs : List Nat) (k : Nat) (rank : List Nat), (∀ x ∈ xs, x < rank.length) →
    ∃ rank', SrcLcp.lcp_for1 (xs.zipIdx k) rank = Res.ok rank' ∧ rank'.length = rank.length ∧
      (∀ p, p ∉ xs → rank'[p]? = rank[p]?) ∧
      (xs.Nodup → ∀ i (h : i < xs.length), rank'[xs[i]]? = some (k + i)) := by
  intro xs
  induction xs with
  | nil => intro k rank _; exact ⟨rank, by simp [SrcLcp.lcp_for1], rfl, fun _ _ => rfl, fun _ i h => by simp at h⟩
  | cons x xs ih =>
    intro k rank hx
    have hxl : x < rank.length := hx x (by simp)
    obtain ⟨rank', h1, h2, h3, h4⟩ := ih (k + 1) (rank.set x k) (by
      intro y hy; rw [List.length_set]; exact hx y (List.mem_cons_of_mem _ hy))
    refine ⟨rank', ?_, by rw [h2, List.length_set], ?_, ?_⟩
    · simp [List.zipIdx_cons, SrcLcp.lcp_for1, Rs.setIdx_ok hxl, h1]
    · intro p hp
      have hpx : p ≠ x := fun e => hp (by simp [e])
      have hpxs : p ∉ xs := fun e => hp (List.mem_cons_of_mem _ e)
      rw [h3 p hpxs, List.getElem?_set_ne (fun e => hpx e.symm)]
    · intro hnd i hi
      have hnd' := List.nodup_cons.mp hnd
      cases i with
      | zero =>
        simp only [List.getElem_cons_zero, Nat.add_zero]
        rw [h3 x hnd'.1, List.getElem?_set_self hxl]
      | succ i =>
        simp only [List.getElem_cons_succ]
        rw [h4 hnd'.2 i (by simpa using hi)]
        congr 1; omega

/-- hypotheses on one iteration of the main loop: `rank[p] ≥ 1` (no underflow of `r - 1`), the predecessor is a position -/
def IterOk (t sa : List Nat) (p : Nat) : Prop :=
  p < t.length ∧ 1 ≤ sa.idxOf p ∧ sa.idxOf p < t.length ∧ sa.getD (sa.idxOf p - 1) 0 < t.length

theorem toSigned_small {l : Nat} (h : l < 2 ^ 63) : Rs.toSigned 64 l = (l : Int) := Rs.toSigned_of_lt (by simpa using h)

/-- main loop = the model's `kasaiGo` -/
theorem for2_eq (t sa : List Nat) (hlen : sa.length = t.length) (hsz : t.length + 1 < 2 ^ 63) :
    ∀ (ps : List Nat) (l : Nat) (lcp : List Int), (∀ p ∈ ps, IterOk t sa p) → l ≤ t.length → lcp.length = t.length + 1 →
      ∃ l', SrcLcp.lcp_for2 t sa t.length (ps.map (fun p => (sa.idxOf p, p))) (l, lcp) =
        Res.ok (l', kasaiGo t sa ps l lcp) := by
  intro ps
  have q := p63
  induction ps with
  | nil => intro l lcp _ _ _; exact ⟨l, by simp [SrcLcp.lcp_for2, kasaiGo]⟩
  | cons p ps ih =>
    intro l lcp hps hl hlcp
    obtain ⟨hp, hr1, hrn, hpred⟩ := hps p (by simp)
    have e1 : Rs.sub (sa.idxOf p) 1 = Res.ok (sa.idxOf p - 1) := Rs.sub_ok hr1
    have e2 : Rs.idx sa (sa.idxOf p - 1) = Res.ok (sa.getD (sa.idxOf p - 1) 0) := idx_getD sa _ 0 (by omega)
    have e3 := while1_eq t p (sa.getD (sa.idxOf p - 1) 0) (by omega) (by omega) (by omega) t.length l hl (by omega)
    -- (kept although the helper's parameters are now ordered by declaration: the roles of `p` and `pred` are symmetric)
    have e3' := while1_eq t (sa.getD (sa.idxOf p - 1) 0) p (by omega) (by omega) (by omega) t.length l hl (by omega)
    rw [extend_comm] at e3'
    have hle := extend_le t p (sa.getD (sa.idxOf p - 1) 0) t.length l hl
    generalize hE : extend t p (sa.getD (sa.idxOf p - 1) 0) t.length l = l' at e3 e3' hle
    have e4 : Rs.toSigned 64 l' = (l' : Int) := toSigned_small (by omega)
    have e5 : Rs.setIdx lcp (sa.idxOf p) (l' : Int) = Res.ok (lcp.set (sa.idxOf p) (l' : Int)) := Rs.setIdx_ok (by omega)
    obtain ⟨l'', h⟩ := ih (l' - 1) (lcp.set (sa.idxOf p) (l' : Int)) (fun x hx => hps x (List.mem_cons_of_mem _ hx))
      (by omega) (by rw [List.length_set]; exact hlcp)
    refine ⟨l'', ?_⟩
    by_cases h0 : l' > 0
    · have e6 : Rs.sub l' 1 = Res.ok (l' - 1) := Rs.sub_ok (by omega)
      have h0' : 0 < l' := h0
      have h0'' : l' ≠ 0 := by omega
      simp [-List.getD_eq_getElem?_getD, SrcLcp.lcp_for2, kasaiGo, e1, e2, e3, e3', e4, e5, e6, h0, h0', h0'', h, hE]
    · have h00 : l' = 0 := by omega
      subst h00
      have h' : SrcLcp.lcp_for2 t sa t.length (ps.map (fun p => (sa.idxOf p, p))) (0, lcp.set (sa.idxOf p) 0) =
          Res.ok (l'', kasaiGo t sa ps 0 (lcp.set (sa.idxOf p) 0)) := by simpa using h
      have e5' : Rs.setIdx lcp (sa.idxOf p) 0 = Res.ok (lcp.set (sa.idxOf p) 0) := by simpa using e5
      simp [-List.getD_eq_getElem?_getD, SrcLcp.lcp_for2, kasaiGo, e1, e2, e3, e3', e4, e5', hE, h']

/-- **translated `lcp` = mirror model `Kasai.kasai`** for every permutation `sa` of the positions of a non-empty text that
starts with `n - 1` (what keeps `rank[p] - 1` from underflowing); `n + 1 < 2^63` (`l as isize`). -/
theorem lcp_eq_model (t sa : List Nat) (hperm : sa.Perm (List.range t.length)) (hhead : sa.head? = some (t.length - 1))
    (hn : 0 < t.length) (hsz : t.length + 1 < 2 ^ 63) :
    SrcLcp.lcp t sa = Res.ok (kasai t sa) := by
  have q := p63
  have hlen : sa.length = t.length := by simpa using hperm.length_eq
  have hnd : sa.Nodup := (hperm.nodup_iff).mpr List.nodup_range
  have hmem : ∀ x, x ∈ sa ↔ x < t.length := by intro x; rw [hperm.mem_iff, List.mem_range]
  obtain ⟨rank, h1, h2, _, h4⟩ := for1_spec sa 0 (List.replicate t.length 0) (by
    intro x hx; rw [List.length_replicate]; exact (hmem x).mp hx)
  have h4' := h4 hnd
  rw [List.length_replicate] at h2
  -- the rank vector is the inverse permutation
  have hrank : ∀ p, p < t.length → rank[p]? = some (sa.idxOf p) := by
    intro p hp
    have hi : sa.idxOf p < sa.length := List.idxOf_lt_length_iff.mpr ((hmem p).mpr hp)
    have := h4' (sa.idxOf p) hi
    rw [List.getElem_idxOf hi] at this
    simpa using this
  have hsrc : rank.zipIdx.take (t.length - 1) = (List.range (t.length - 1)).map (fun p => (sa.idxOf p, p)) := by
    apply List.ext_getElem?
    intro i
    by_cases hi : i < t.length - 1
    · rw [List.getElem?_take_of_lt hi]
      simp [hrank i (by omega), hi]
    · rw [List.getElem?_take_eq_none (by omega), List.getElem?_eq_none (by simp; omega)]
  -- every iteration is safe
  have hhead0 : sa.idxOf (t.length - 1) = 0 := by
    cases sa with
    | nil => simp at hhead
    | cons a l => simp at hhead; subst hhead; simp
  have hiter : ∀ p ∈ List.range (t.length - 1), IterOk t sa p := by
    intro p hp
    rw [List.mem_range] at hp
    have hi : sa.idxOf p < sa.length := List.idxOf_lt_length_iff.mpr ((hmem p).mpr (by omega))
    refine ⟨by omega, ?_, by omega, ?_⟩
    · apply Nat.pos_of_ne_zero
      intro hz
      have e1 : sa[sa.idxOf p]'hi = p := List.getElem_idxOf hi
      have hi0 : sa.idxOf (t.length - 1) < sa.length := by omega
      have e2 : sa[sa.idxOf (t.length - 1)]'hi0 = t.length - 1 := List.getElem_idxOf hi0
      simp only [hz, hhead0] at e1 e2
      omega
    · have hj : sa.idxOf p - 1 < sa.length := by omega
      rw [getD_of_lt sa _ 0 hj]
      exact (hmem _).mp (List.getElem_mem hj)
  obtain ⟨l', h5⟩ := for2_eq t sa hlen hsz (List.range (t.length - 1)) 0 (List.replicate (t.length + 1) (-1)) hiter
    (by omega) (by simp)
  have e1 : Rs.add 64 t.length 1 = Res.ok (t.length + 1) := Rs.add_ok (by omega)
  have e1' : Rs.add 64 1 t.length = Res.ok (t.length + 1) := by rw [Nat.add_comm]; exact Rs.add_ok (by omega)
  have e2 : Rs.sub t.length 1 = Res.ok (t.length - 1) := Rs.sub_ok (by omega)
  have e3 : Rs.assert (t.length == sa.length) = Res.ok () := Rs.assert_ok (by simp [hlen])
  have e3' : Rs.assert (sa.length == t.length) = Res.ok () := Rs.assert_ok (by simp [hlen])
  unfold SrcLcp.lcp kasai
  simp [e1, e1', e2, e3, e3', h1, hsrc, h5]

theorem lcp_length_mismatch_panics (t sa : List Nat) (h : t.length ≠ sa.length) : SrcLcp.lcp t sa = Res.panic := by
  have e3 : Rs.assert (t.length == sa.length) = Res.panic := by simp [Rs.assert, h]
  unfold SrcLcp.lcp
  simp [e3]

/-- **the translated `lcp`, run on a sorted suffix permutation that starts with `n - 1`, returns the LCP array** -/
theorem lcp_source_exact (t sa : List Nat) (h : Sorted t sa) (hn : 0 < t.length) (hsz : t.length + 1 < 2 ^ 63) :
    SrcLcp.lcp t sa = Res.ok (lcpRef t sa) := by
  rw [lcp_eq_model t sa h.perm h.head hn hsz, kasai_eq_lcpRef t sa h hn]

end RbV.Thm.GenSrcLcp
