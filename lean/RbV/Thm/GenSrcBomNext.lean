import RbV.Gen.SrcBomNext
import RbV.Model.Bom
import RbV.Lemmas.BomOracle
/-!
# The translated text of `BOM::delta`, `BOM::find_all`, `bom::Matches::next` equals the mirror model `Bom.findAll`

`RbV/Gen/SrcBomNext.lean` is regenerated from `src/pattern_matching/bom.rs` on every `./check C08`.  The constructor
`BOM::new` is **not** translated (`while let`, `VecMap` insertion): the theorems are about the search over the table
`Bom.build p` of the mirror model (which the harness compares with the real table, tag `bom-table-same`).  A `VecMap` is
represented by its entries, `get(k).copied()` = `Rs.vecMapGet` = the model's `Bom.lookup`.  The model's `scanS`/`searchS`
(panics explicit) are followed step by step; `G window` is the model's list from a window position.
-/
set_option linter.unusedSimpArgs false

namespace RbV.Thm.GenSrcBomNext
open RbV RbV.Rs RbV.Gen.SrcBomNext

theorem vecMapGet_eq_lookup : ∀ (l : List (Nat × Nat)) (a : Nat), Rs.vecMapGet l a = Bom.lookup l a := by
  intro l a
  induction l with
  | nil => rfl
  | cons e l ih => obtain ⟨b, q⟩ := e; simp [Rs.vecMapGet, Bom.lookup, ih]

/-- **`BOM::delta` as written = the model's `delta`**, for every table, state and symbol (no panic: the index is guarded) -/
theorem delta_eq_model (T : Bom.Table) (q a : Nat) : delta T q a = Res.ok (Bom.delta T q a) := by
  by_cases h : q < T.length
  · have e1 : Rs.idx T q = Res.ok T[q] := Rs.idx_ok h
    have h' : ¬ q ≥ T.length := by omega
    have h'' : ¬ T.length ≤ q := by omega
    simp [delta, Bom.delta, e1, h, h', h'', List.getElem?_eq_getElem h, vecMapGet_eq_lookup]
  · have h' : q ≥ T.length := by omega
    have h'' : T.length ≤ q := by omega
    simp [delta, Bom.delta, h, h', h'', List.getElem?_eq_none h'']

/-- the translated inner `while j <= self.bom.m` loop follows the model's `scanS` (one more unit of fuel for the last test) -/
theorem while2_eq (T : Bom.Table) (t : List Nat) (window m : Nat) (hw : window + 1 < 2 ^ 64) :
    ∀ (fuel j : Nat) (q : Option Nat) (r : Option Nat × Nat), Bom.scanS T t window m fuel j q = some r →
      next_while2 m T t window (fuel + 1) (q, j) = Res.ok r := by
  intro fuel
  induction fuel with
  | zero =>
    intro j q r h
    by_cases hj : j ≤ m
    · cases q with
      | none => simp [Bom.scanS, hj] at h; subst h; simp [next_while2, hj]
      | some q_ => simp [Bom.scanS, hj] at h
    · simp [Bom.scanS, hj] at h; subst h; simp [next_while2, hj]
  | succ fuel ih =>
    intro j q r h
    by_cases hj : j ≤ m
    · cases q with
      | none => simp [Bom.scanS, hj] at h; subst h; rw [next_while2.eq_def]; simp [hj]
      | some q_ =>
        by_cases hwj : window < j
        · simp [Bom.scanS, hj, hwj] at h
        · cases hc : t[window - j]? with
          | none => simp [Bom.scanS, hj, hwj, hc] at h
          | some c =>
            simp [Bom.scanS, hj, hwj, hc] at h
            have e1 : Rs.sub window j = Res.ok (window - j) := Rs.sub_ok (by omega)
            have e2 : Rs.idx t (window - j) = Res.ok c := Rs.idx_of_getElem? hc
            have e3 : Rs.add 64 j 1 = Res.ok (j + 1) := Rs.add_ok (by omega)
            have e3' : Rs.add 64 1 j = Res.ok (j + 1) := by rw [Nat.add_comm]; exact Rs.add_ok (by omega)
            have := ih (j + 1) _ r h
            rw [next_while2.eq_def]
            simp [hj, e1, e2, e3, e3', delta_eq_model, this]
    · simp [Bom.scanS, hj] at h; subst h; rw [next_while2.eq_def]; simp [hj]

section
variable (p t : List Nat) (hp : 0 < p.length)
include hp

/-- the model's `search` over the built table does not depend on its fuel once it is sufficient -/
theorem search_irrel (f1 f2 window : Nat) (hw : p.length ≤ window) (h1 : t.length + 1 ≤ window + f1)
    (h2 : t.length + 1 ≤ window + f2) :
    Bom.search (Bom.build p) p.length t f1 window = Bom.search (Bom.build p) p.length t f2 window := by
  have hC := (Bom.completeB_iff _ _).mp (Bom.build_complete p)
  have hM := Bom.monotoneB_sound _ _ (Bom.build_monotone p)
  obtain ⟨m1, s1⟩ := Bom.search_spec p t (Bom.build p) hp hC hM f1 window hw h1
  obtain ⟨m2, s2⟩ := Bom.search_spec p t (Bom.build p) hp hC hM f2 window hw h2
  exact sorted_eq_of_mem_iff _ _ s1 s2 (fun s => by rw [m1, m2])

/-- the model's list from window position `window` -/
def G (p t : List Nat) (window : Nat) : List Nat := Bom.search (Bom.build p) p.length t (t.length + 1) window

omit hp in
theorem G_end (window : Nat) (h : t.length < window) : G p t window = [] := by
  have : ¬ window ≤ t.length := by omega
  simp [G, Bom.search, this]

/-- the backward scan of the model at a window -/
def sb (p t : List Nat) (window : Nat) : Option Nat × Nat :=
  Bom.scanBack (Bom.build p) (((t.take window).reverse).take p.length) 0 0

theorem G_step (window : Nat) (hw : p.length ≤ window) (hn : window ≤ t.length) :
    G p t window = if (sb p t window).1.isSome then (window - p.length) :: G p t (window + (p.length + 1 - (sb p t window).2))
      else G p t (window + (p.length + 1 - (sb p t window).2)) := by
  have hir := search_irrel p t hp t.length (t.length + 1) (window + (p.length + 1 - (sb p t window).2))
    (by omega) (by omega) (by omega)
  have h0 : G p t window = if (sb p t window).1.isSome
      then (window - p.length) :: Bom.search (Bom.build p) p.length t t.length (window + (p.length + 1 - (sb p t window).2))
      else Bom.search (Bom.build p) p.length t t.length (window + (p.length + 1 - (sb p t window).2)) := by
    simp only [G, Bom.search, hn, if_true]
    rfl
  rw [h0, hir]
  rfl

end

/-- the translated outer `while self.window <= self.text.len()` loop -/
theorem while1_eq (p t : List Nat) (hp : 0 < p.length) (h64 : t.length + p.length + 2 < 2 ^ 64) :
    ∀ fuel window, p.length ≤ window → t.length + 1 - window < fuel →
      ∃ w' r, next_while1 t p.length (Bom.build p) fuel window = Res.ok (w', r) ∧
        ((r = none ∧ G p t window = []) ∨
         (∃ v, r = some (some v) ∧ window < w' ∧ p.length ≤ w' ∧ G p t window = v :: G p t w')) := by
  intro fuel
  induction fuel with
  | zero => intro window _ h; omega
  | succ fuel ih =>
    intro window hw hf
    by_cases hn : window ≤ t.length
    · have hs := Bom.scanS_eq (Bom.build p) t window p.length hw hn (p.length + 1) 0 0 (by omega) (by omega)
      simp only [List.drop_zero, Nat.zero_add] at hs
      have hle : (sb p t window).2 ≤ p.length := by
        have := Bom.scanBack_le (Bom.build p) (((t.take window).reverse).take p.length) 0 0
        rw [Bom.back_length t window p.length hw hn] at this
        simpa [sb] using this
      have hwh := while2_eq (Bom.build p) t window p.length (by omega) (p.length + 1) 1 (some 0) _ hs
      have hG := G_step p t hp window hw hn
      change next_while2 p.length (Bom.build p) t window (p.length + 1 + 1) (some 0, 1)
        = Res.ok ((sb p t window).1, (sb p t window).2 + 1) at hwh
      generalize hsb : sb p t window = s at hwh hG hle
      obtain ⟨sq, sr⟩ := s
      simp only at hwh hG hle
      have e1 : Rs.sub window p.length = Res.ok (window - p.length) := Rs.sub_ok hw
      have e2 : Rs.add 64 p.length 2 = Res.ok (p.length + 2) := Rs.add_ok (by omega)
      have e2' : Rs.add 64 2 p.length = Res.ok (p.length + 2) := by rw [Nat.add_comm]; exact Rs.add_ok (by omega)
      have e3 : Rs.sub (p.length + 2) (sr + 1) = Res.ok (p.length + 1 - sr) := by
        rw [Rs.sub_ok (by omega)]; congr 1; omega
      have e4 : Rs.add 64 window (p.length + 1 - sr) = Res.ok (window + (p.length + 1 - sr)) := Rs.add_ok (by omega)
      cases hq : sq.isSome with
      | true =>
        refine ⟨window + (p.length + 1 - sr), some (some (window - p.length)), ?_,
          Or.inr ⟨_, rfl, by omega, by omega, by rw [hG]; simp [hq]⟩⟩
        rw [next_while1]
        simp [hn, hwh, e1, e2, e2', e3, e4, hq]
      | false =>
        obtain ⟨w', r, h1, h2⟩ := ih (window + (p.length + 1 - sr)) (by omega) (by omega)
        have hG' : G p t window = G p t (window + (p.length + 1 - sr)) := by rw [hG]; simp [hq]
        refine ⟨w', r, ?_, ?_⟩
        · rw [next_while1]
          simp [hn, hwh, e1, e2, e2', e3, e4, hq, h1]
        · rcases h2 with ⟨h2, h3⟩ | ⟨v, h2, h3, h4, h5⟩
          · exact Or.inl ⟨h2, by rw [hG', h3]⟩
          · exact Or.inr ⟨v, h2, by omega, h4, by rw [hG', h5]⟩
    · refine ⟨window, none, ?_, Or.inl ⟨rfl, G_end p t window (by omega)⟩⟩
      rw [next_while1]
      simp [hn]

/-- the translated `next` as a step function on the only mutable field `window`, over the model's table for `p` -/
def nextS (p t : List Nat) (window : Nat) : Res (Nat × Option Nat) := next p.length (Bom.build p) t window

/-- **`bom::Matches::next` as written**: one call from window position `window ≥ m` -/
theorem next_eq_model (p t : List Nat) (hp : 0 < p.length) (h64 : t.length + p.length + 2 < 2 ^ 64) (window : Nat)
    (hw : p.length ≤ window) :
    ∃ w' r, nextS p t window = Res.ok (w', r) ∧
      ((r = none ∧ G p t window = []) ∨
       (∃ v, r = some v ∧ window < w' ∧ p.length ≤ w' ∧ G p t window = v :: G p t w')) := by
  obtain ⟨w', r, h1, h2⟩ := while1_eq p t hp h64 (t.length - window + 2) window hw (by omega)
  rcases h2 with ⟨h2, h3⟩ | ⟨v, h2, h3, h4, h5⟩
  · subst h2
    exact ⟨w', none, by simp [nextS, next, h1], Or.inl ⟨rfl, h3⟩⟩
  · subst h2
    exact ⟨w', some v, by simp [nextS, next, h1], Or.inr ⟨v, rfl, h3, h4, h5⟩⟩

theorem drain_eq (p t : List Nat) (hp : 0 < p.length) (h64 : t.length + p.length + 2 < 2 ^ 64) :
    ∀ fuel window, p.length ≤ window → t.length + 1 - window < fuel →
      Rs.drain (nextS p t) fuel window = Res.ok (G p t window) := by
  intro fuel
  induction fuel with
  | zero => intro window _ h; omega
  | succ fuel ih =>
    intro window hw hf
    obtain ⟨w', r, h1, h2⟩ := next_eq_model p t hp h64 window hw
    rcases h2 with ⟨h2, h3⟩ | ⟨v, h2, h3, h4, h5⟩
    · subst h2; rw [h3]; exact Rs.drain_none _ _ _ _ h1
    · subst h2; rw [h5]
      by_cases hlt : window ≤ t.length
      · exact Rs.drain_some _ _ _ _ _ _ h1 (ih w' h4 (by omega))
      · rw [G_end p t window (by omega)] at h5; simp at h5

/-- **`BOM::find_all` as written**: the first window ends at position `m` -/
theorem findAll_init (m : Nat) (t : List Nat) : findAll m t = Res.ok (t, m) := by
  simp [findAll]

/-- translated `find_all` and `next` (until `None`) over the table of the mirror model -/
def findAllSrc (p t : List Nat) : Res (List Nat) := do
  let (text, window) ← findAll p.length t
  Rs.drain (fun window => next p.length (Bom.build p) text window) (t.length + 2) window

/-- **BOM search on the translated source text** = the occurrences (over the model's table) -/
theorem findAllSrc_eq_model (p t : List Nat) (hp : 0 < p.length) (h64 : t.length + p.length + 2 < 2 ^ 64) :
    findAllSrc p t = Res.ok (occurrences p t) := by
  have hd := drain_eq p t hp h64 (t.length + 2) p.length (Nat.le_refl _) (by omega)
  have hG : G p t p.length = occurrences p t := Bom.findAll_eq_occurrences p t hp
  simp only [findAllSrc, findAll_init, Res.ok_bind]
  rw [← hG]
  exact hd

end RbV.Thm.GenSrcBomNext
