import RbV.Gen.SrcHorspoolNext
import RbV.Model.Horspool
import RbV.Thm.GenSrcHorspoolNew
/-!
# The translated text of `Horspool::find_all`, `horspool::Matches::next` equals the mirror model `Horspool.findAll`

`RbV/Gen/SrcHorspoolNext.lean` is regenerated from `src/pattern_matching/horspool.rs` on every `./check C08`.  The source
has two nested loops (`loop { while … { last += shift[text[last]] } … }`), the mirror model `Horspool.go` is the same walk
written as one loop; `G last` below is the model's list from window end `last` (fuel-independent, `go_irrel`).  The
translated loops take fuel `n - last + 1`; it suffices because every table entry is at least 1 (`Horspool.shift_bounds`).
-/
set_option linter.unusedSimpArgs false

namespace RbV.Thm.GenSrcHorspoolNext
open RbV RbV.Rs RbV.Gen.SrcHorspoolNext RbV.Thm.GenSrc

/-- the table the constructor stores (`horspool_new_source_eq_model`) -/
def stab (p : List Nat) : List Nat := tab 256 (Horspool.shiftTab p)

theorem getElem?_none_of_le {l : List Nat} {i : Nat} (h : l.length ≤ i) : l[i]? = none :=
  List.getElem?_eq_none h

/-- the model's walk does not depend on its fuel once the fuel covers the rest of the text -/
theorem go_irrel (p t : List Nat) (hp : 0 < p.length) : ∀ (f1 f2 last : Nat), t.length ≤ last + f1 → t.length ≤ last + f2 →
    Horspool.go p t (Horspool.shiftTab p) f1 last = Horspool.go p t (Horspool.shiftTab p) f2 last := by
  intro f1
  induction f1 with
  | zero =>
    intro f2 last h1 _
    have hn : t[last]? = none := getElem?_none_of_le (by omega)
    cases f2 <;> simp [Horspool.go, hn]
  | succ f1 ih =>
    intro f2 last h1 h2
    cases f2 with
    | zero =>
      have hn : t[last]? = none := getElem?_none_of_le (by omega)
      simp [Horspool.go, hn]
    | succ f2 =>
      simp only [Horspool.go]
      cases hc : t[last]? with
      | none => rfl
      | some c =>
        have hb := Horspool.shift_bounds p hp c
        have := ih f2 (last + Horspool.shiftTab p c) (by omega) (by omega)
        simp only [this]

/-- the model's list from window end `last` -/
def G (p t : List Nat) (last : Nat) : List Nat := Horspool.go p t (Horspool.shiftTab p) t.length last

theorem G_none (p t : List Nat) (last : Nat) (h : t.length ≤ last) : G p t last = [] := by
  have hn : t[last]? = none := getElem?_none_of_le h
  unfold G
  cases t.length <;> simp [Horspool.go, hn]

theorem G_some (p t : List Nat) (hp : 0 < p.length) (last c : Nat) (hc : t[last]? = some c) :
    G p t last =
      if p[p.length - 1]? = some c ∧
        (t.drop (last + 1 - p.length)).take (p.length - 1) = p.take (p.length - 1)
      then (last + 1 - p.length) :: G p t (last + Horspool.shiftTab p c) else G p t (last + Horspool.shiftTab p c) := by
  have hlt : last < t.length := (List.getElem?_eq_some_iff.mp hc).1
  have hb := Horspool.shift_bounds p hp c
  unfold G
  obtain ⟨f, hf⟩ : ∃ f, t.length = f + 1 := ⟨t.length - 1, by omega⟩
  have h1 : Horspool.go p t (Horspool.shiftTab p) t.length last
      = Horspool.go p t (Horspool.shiftTab p) (f + 1) last := by rw [hf]
  rw [h1]
  simp only [Horspool.go, hc]
  rw [go_irrel p t hp f t.length (last + Horspool.shiftTab p c) (by omega) (by omega)]

/-- the inner `while self.last < self.n && self.text[self.last] != self.pattern_last` loop -/
theorem while_eq (p t : List Nat) (hp : 0 < p.length) (hb : ∀ c ∈ t, c < 256) (h64 : t.length + p.length < 2 ^ 64)
    (pl : Nat) (hpl : p[p.length - 1]? = some pl) :
    ∀ fuel last, t.length - last < fuel →
      ∃ last', next_while2 t.length t pl (stab p) fuel last = Res.ok last' ∧ last ≤ last' ∧ G p t last = G p t last' ∧
        (t.length ≤ last' ∨ t[last']? = some pl) := by
  intro fuel
  induction fuel with
  | zero => intro last h; omega
  | succ fuel ih =>
    intro last hf
    by_cases hlt : last < t.length
    · have e1 : Rs.idx t last = Res.ok t[last] := Rs.idx_ok hlt
      have hc : t[last]? = some t[last] := List.getElem?_eq_getElem hlt
      by_cases hne : t[last] = pl
      · refine ⟨last, ?_, Nat.le_refl _, rfl, Or.inr (by rw [hc, hne])⟩
        rw [next_while2]
        simp [hlt, e1, hne]
      · have hc256 : t[last] < 256 := hb _ (List.getElem_mem hlt)
        have hsb := Horspool.shift_bounds p hp t[last]
        have e2 : Rs.idx (stab p) t[last] = Res.ok (Horspool.shiftTab p t[last]) := idx_tab 256 _ _ hc256
        have e3 : Rs.add 64 last (Horspool.shiftTab p t[last]) = Res.ok (last + Horspool.shiftTab p t[last]) :=
          Rs.add_ok (by omega)
        obtain ⟨last', h1, h2, h3, h4⟩ := ih (last + Horspool.shiftTab p t[last]) (by omega)
        refine ⟨last', ?_, by omega, ?_, h4⟩
        · rw [next_while2]
          simp [hlt, e1, e2, e3, hne, h1]
        · rw [G_some p t hp last _ hc, ← h3]
          have : ¬ p[p.length - 1]? = some t[last] := by
            rw [hpl]; intro h; exact hne (Option.some.inj h).symm
          simp [this]
    · refine ⟨last, ?_, Nat.le_refl _, rfl, Or.inl (by omega)⟩
      rw [next_while2]
      simp [hlt]

/-- the outer `loop`: either the text is exhausted (`None`, the model's list is empty) or the next match of the model is
returned and the model continues from the new `last` -/
theorem loop_eq (p t : List Nat) (hp : 0 < p.length) (hb : ∀ c ∈ t, c < 256) (hbp : ∀ c ∈ p, c < 256)
    (h64 : t.length + p.length < 2 ^ 64) (pl : Nat) (hpl : p[p.length - 1]? = some pl) :
    ∀ fuel last, p.length - 1 ≤ last → t.length - last < fuel →
      ∃ last' r, next_loop1 t.length t pl (stab p) p.length p fuel last = Res.ok (last', r) ∧
        ((r = none ∧ G p t last = []) ∨ (∃ i, r = some i ∧ last < last' ∧ G p t last = i :: G p t last')) := by
  have hpl256 : pl < 256 := hbp pl (List.mem_of_getElem? hpl)
  intro fuel
  induction fuel with
  | zero => intro last _ h; omega
  | succ fuel ih =>
    intro last hl hf
    obtain ⟨l1, w1, w2, w3, w4⟩ := while_eq p t hp hb h64 pl hpl (t.length - last + 1) last (by omega)
    by_cases hge : t.length ≤ l1
    · refine ⟨l1, none, ?_, Or.inl ⟨rfl, by rw [w3]; exact G_none p t l1 hge⟩⟩
      rw [next_loop1]
      simp [w1, hge]
    · have hc : t[l1]? = some pl := by
        rcases w4 with h | h
        · omega
        · exact h
      have hsb := Horspool.shift_bounds p hp pl
      have e1 : Rs.add 64 l1 1 = Res.ok (l1 + 1) := Rs.add_ok (by omega)
      have e1' : Rs.add 64 1 l1 = Res.ok (l1 + 1) := by rw [Nat.add_comm]; exact Rs.add_ok (by omega)
      have e2 : Rs.sub (l1 + 1) p.length = Res.ok (l1 + 1 - p.length) := Rs.sub_ok (by omega)
      have e3 : Rs.idx (stab p) pl = Res.ok (Horspool.shiftTab p pl) := idx_tab 256 _ _ hpl256
      have e4 : Rs.add 64 l1 (Horspool.shiftTab p pl) = Res.ok (l1 + Horspool.shiftTab p pl) := Rs.add_ok (by omega)
      have e5 : Rs.slice t (l1 + 1 - p.length) l1
          = Res.ok ((t.drop (l1 + 1 - p.length)).take (p.length - 1)) := by
        rw [Rs.slice_ok (by omega) (by omega)]
        congr 2; omega
      have e6 : Rs.sub p.length 1 = Res.ok (p.length - 1) := Rs.sub_ok (by omega)
      have e7 : Rs.slice p 0 (p.length - 1) = Res.ok (p.take (p.length - 1)) := by
        rw [Rs.slice_ok (by omega) (by omega)]; simp
      have hG := G_some p t hp l1 pl hc
      by_cases heq : (t.drop (l1 + 1 - p.length)).take (p.length - 1) = p.take (p.length - 1)
      · refine ⟨l1 + Horspool.shiftTab p pl, some (l1 + 1 - p.length), ?_, Or.inr ⟨_, rfl, by omega, ?_⟩⟩
        · rw [next_loop1]
          simp [w1, hge, e1, e1', e2, e3, e4, e5, e6, e7, heq]
        · rw [w3, hG]; simp [hpl, heq]
      · obtain ⟨last', r, h1, h2⟩ := ih (l1 + Horspool.shiftTab p pl) (by omega) (by omega)
        have hG' : G p t last = G p t (l1 + Horspool.shiftTab p pl) := by rw [w3, hG]; simp [heq]
        refine ⟨last', r, ?_, ?_⟩
        · rw [next_loop1]
          simp [w1, hge, e1, e1', e2, e3, e4, e5, e6, e7, heq, h1]
        · rcases h2 with ⟨h2, h3⟩ | ⟨i, h2, h3, h4⟩
          · exact Or.inl ⟨h2, by rw [hG', h3]⟩
          · exact Or.inr ⟨i, h2, by omega, by rw [hG', h4]⟩

/-- the translated `next` as a step function on the only mutable field `last`, for the matcher built from `p` on `t` -/
def nextS (p t : List Nat) (pl : Nat) (last : Nat) : Res (Nat × Option Nat) :=
  next (stab p) p.length p t t.length last pl

/-- **`horspool::Matches::next` as written**: one call from window end `last` -/
theorem next_eq_model (p t : List Nat) (hp : 0 < p.length) (hb : ∀ c ∈ t, c < 256) (hbp : ∀ c ∈ p, c < 256)
    (h64 : t.length + p.length < 2 ^ 64) (pl : Nat) (hpl : p[p.length - 1]? = some pl) (last : Nat)
    (hl : p.length - 1 ≤ last) :
    ∃ last' r, nextS p t pl last = Res.ok (last', r) ∧
      ((r = none ∧ G p t last = []) ∨ (∃ i, r = some i ∧ last < last' ∧ G p t last = i :: G p t last')) := by
  obtain ⟨last', r, h1, h2⟩ := loop_eq p t hp hb hbp h64 pl hpl (t.length - last + 1) last hl (by omega)
  exact ⟨last', r, by simp [nextS, next, h1], h2⟩

theorem drain_eq (p t : List Nat) (hp : 0 < p.length) (hb : ∀ c ∈ t, c < 256) (hbp : ∀ c ∈ p, c < 256)
    (h64 : t.length + p.length < 2 ^ 64) (pl : Nat) (hpl : p[p.length - 1]? = some pl) :
    ∀ fuel last, p.length - 1 ≤ last → t.length - last < fuel →
      Rs.drain (nextS p t pl) fuel last = Res.ok (G p t last) := by
  intro fuel
  induction fuel with
  | zero => intro last _ h; omega
  | succ fuel ih =>
    intro last hl hf
    obtain ⟨last', r, h1, h2⟩ := next_eq_model p t hp hb hbp h64 pl hpl last hl
    rcases h2 with ⟨h2, h3⟩ | ⟨i, h2, h3, h4⟩
    · subst h2; rw [h3]; exact Rs.drain_none _ _ _ _ h1
    · subst h2; rw [h4]
      by_cases hlt : last < t.length
      · exact Rs.drain_some _ _ _ _ _ _ h1 (ih last' (by omega) (by omega))
      · rw [G_none p t last (by omega)] at h4; simp at h4

/-- **`Horspool::find_all` as written**: the initial state `(text, n, last, pattern_last)` -/
theorem findAll_init (p t : List Nat) (hp : 0 < p.length) :
    findAll p.length p t = Res.ok (t, t.length, p.length - 1, p[p.length - 1]'(by omega)) := by
  have e1 : Rs.sub p.length 1 = Res.ok (p.length - 1) := Rs.sub_ok (by omega)
  have e2 : Rs.idx p (p.length - 1) = Res.ok (p[p.length - 1]'(by omega)) := Rs.idx_ok (by omega)
  simp [findAll, e1, e2]

/-- the translated functions put together as a caller does: `Horspool::new(p).find_all(t).collect()` -/
def findAllSrc (p t : List Nat) : Res (List Nat) := do
  let (m, shift, pattern) ← RbV.Gen.SrcHorspoolNew.new p
  let (text, n, last, pattern_last) ← findAll m pattern t
  Rs.drain (fun last => next shift m pattern text n last pattern_last) (t.length + 1) last

/-- **Horspool end to end, on the translated source text** -/
theorem findAllSrc_eq_model (p t : List Nat) (hp : 0 < p.length) (hb : ∀ c ∈ t, c < 256) (hbp : ∀ c ∈ p, c < 256)
    (h64 : t.length + p.length < 2 ^ 64) : findAllSrc p t = Res.ok (Horspool.findAll p t) := by
  have hpl : p[p.length - 1]? = some (p[p.length - 1]'(by omega)) := List.getElem?_eq_getElem (by omega)
  have := drain_eq p t hp hb hbp h64 _ hpl (t.length + 1) (p.length - 1) (Nat.le_refl _) (by omega)
  simp only [findAllSrc, GenSrcHorspoolNew.new_eq_model p hp hbp, findAll_init p t hp, Res.ok_bind]
  exact this

end RbV.Thm.GenSrcHorspoolNext
