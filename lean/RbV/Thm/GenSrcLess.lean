import RbV.Gen.SrcLess
import RbV.Thm.GenSrcOcc
import RbV.Thm.GenSrcPrescan
import RbV.Model.InvBWT
import RbV.Model.LFMapping
/-!
# The translated text of `bwt::less` equals the mirror model `OccM.lessModel`

`RbV/Gen/SrcLess.lean` is regenerated from `src/data_structures/bwt.rs` by `tools/rs2lean.py` on every `./check C04`.
`alphabet.max_symbol()` is an abstract function of the opaque alphabet (`maxSymbol`); `.expect(..)` panics on `None`.
The call `prescan(&mut less[..], 0, |a, b| a + b)` is the translated `utils::prescan` (`RbV/Gen/SrcPrescan.lean`) with
the closure read as `+` on `Nat` (translation spec, `LESS_REWRITES`).  Hypotheses = what keeps the Rust code from
panicking: non-empty alphabet, every BWT symbol below the table size `max_symbol + 2`, `n < 2^64` (`less[c] += 1`).
-/
-- the simp sets name every fact a harmless rewrite of the Rust text may need; on the pinned text some are unused
set_option linter.unusedSimpArgs false

namespace RbV.Thm.GenSrcLess
open RbV RbV.Rs RbV.Gen.SrcLess RbV.Thm.GenSrc RbV.OccM RbV.Thm.GenSrcOcc RbV.InvBWT

variable {Alph : Type} (maxSymbol : Alph → Option Nat)

/-- one round of `for &c in bwt.iter() { less[c as usize] += 1; }` is the model's `bump` -/
theorem step_eq (acc : List Nat) (c i : Nat) (hc : c < acc.length) (hb : ∀ v ∈ acc, v ≤ i) (hi : i + 1 < 2 ^ 64) :
    less_for1 maxSymbol acc c = Res.ok (bump acc c) := by
  have hle : acc[c] ≤ i := hb _ (List.getElem_mem hc)
  have e1 : Rs.idx acc c = Res.ok acc[c] := Rs.idx_ok hc
  have e2 : Rs.add 64 acc[c] 1 = Res.ok (acc[c] + 1) := Rs.add_ok (by omega)
  have e2' : Rs.add 64 1 acc[c] = Res.ok (acc[c] + 1) := by rw [Nat.add_comm]; exact Rs.add_ok (by omega)
  have e3 : ∀ v, Rs.setIdx acc c v = Res.ok (acc.set c v) := fun v => Rs.setIdx_ok hc
  rw [bump_eq_set acc c hc]
  simp [less_for1, e1, e2, e2', e3]

/-- the counting loop is the model's `foldl bump` -/
theorem count_loop_eq (m : Nat) : ∀ (xs acc : List Nat) (i : Nat),
    acc.length = m → (∀ x ∈ xs, x < m) → (∀ v ∈ acc, v ≤ i) → i + xs.length < 2 ^ 64 →
    xs.foldlM (less_for1 maxSymbol) acc = Res.ok (xs.foldl bump acc) := by
  intro xs
  induction xs with
  | nil => intro acc i _ _ _ _; rfl
  | cons x xs ih =>
    intro acc i hlen hx hb hi
    have hxm : x < acc.length := by rw [hlen]; exact hx x (by simp)
    simp only [List.length_cons] at hi
    rw [List.foldlM_cons, step_eq maxSymbol acc x i hxm hb (by omega), Res.ok_bind, List.foldl_cons]
    apply ih (bump acc x) (i + 1) (by rw [length_bump]; exact hlen) (fun y hy => hx y (List.mem_cons_of_mem _ hy))
    · intro v hv
      rw [bump_eq_set acc x hxm] at hv
      rcases List.mem_or_eq_of_mem_set hv with h | h
      · exact Nat.le_succ_of_le (hb v h)
      · have := hb _ (List.getElem_mem hxm); omega
    · omega

/-- **`less()` as written in the source = the mirror model `lessModel`** with table size `max_symbol + 2` -/
theorem less_eq_model (bwt : List Nat) (alphabet : Alph) (ms : Nat)
    (hms : maxSymbol alphabet = some ms) (hms' : ms + 2 < 2 ^ 64) (hn : bwt.length < 2 ^ 64)
    (hsym : ∀ x ∈ bwt, x < ms + 2) :
    less maxSymbol bwt alphabet = Res.ok (lessModel bwt (ms + 2)) := by
  have e1 : Rs.add 64 ms 2 = Res.ok (ms + 2) := Rs.add_ok hms'
  have e1' : Rs.add 64 2 ms = Res.ok (ms + 2) := by rw [Nat.add_comm]; exact Rs.add_ok (by omega)
  have e2 := count_loop_eq maxSymbol (ms + 2) bwt (List.replicate (ms + 2) 0) 0 (by simp) hsym (by simp) (by omega)
  have e3 := GenSrcPrescan.prescan_eq_model (bwt.foldl bump (List.replicate (ms + 2) 0)) 0
  simp [less, hms, e1, e1', e2, e3, lessModel, countArr]

/-! ### `bwtfind`, `invert_bwt`

`less(bwt, alphabet)` / `bwtfind(bwt, &alphabet)` are calls of the translated functions of this file, `Alphabet::new(bwt)`
is abstract (`alphNew`).  What keeps `bwtfind[less[c as usize]] = r` in bounds is the meaning of the `less` array
(`less[c]` + the number of earlier `c`s is a row of the BWT), so the loop lemma carries the invariant
`less[c] = lessRef bwt c + #c seen so far`. -/

theorem length_prescanGo (l : List Nat) : ∀ s, (prescanGo s l).length = l.length := by
  induction l with
  | nil => intro s; rfl
  | cons v l ih => intro s; simp [prescanGo, ih]

theorem length_lessModel (bwt : List Nat) (m : Nat) : (lessModel bwt m).length = m := by
  unfold lessModel; rw [length_prescanGo, length_countArr]

theorem less_add_count_le (bwt : List Nat) (c : Nat) : lessRef bwt c + bwt.count c ≤ bwt.length :=
  LF.less_add_count_le bwt c

/-- the slot written for the symbol at position `pre.length` is a row of the BWT -/
theorem slot_lt (pre cs : List Nat) (c : Nat) :
    lessRef (pre ++ c :: cs) c + pre.count c < (pre ++ c :: cs).length := by
  have := less_add_count_le (pre ++ c :: cs) c
  simp only [List.count_append, List.count_cons_self] at this
  omega

/-- one round of `for (r, &c) in bwt.iter().enumerate()` -/
theorem bwtfind_step (bf ls : List Nat) (c r v : Nat) (hv : ls[c]? = some v) (hvb : v < bf.length) (hv64 : v + 1 < 2 ^ 64) :
    bwtfind_for1 maxSymbol (bf, ls) (c, r) = Res.ok (bf.set (ls.getD c 0) r, bump ls c) := by
  have hc : c < ls.length := (List.getElem?_eq_some_iff.mp hv).1
  have hg : ls.getD c 0 = v := by rw [List.getD_eq_getElem?_getD, hv]; rfl
  have hget : ls[c] = v := (List.getElem?_eq_some_iff.mp hv).2
  have e1 : Rs.idx ls c = Res.ok v := Rs.idx_of_getElem? hv
  have e2 : ∀ x, Rs.setIdx bf v x = Res.ok (bf.set v x) := fun x => Rs.setIdx_ok hvb
  have e3 : Rs.add 64 v 1 = Res.ok (v + 1) := Rs.add_ok hv64
  have e3' : Rs.add 64 1 v = Res.ok (v + 1) := by rw [Nat.add_comm]; exact Rs.add_ok (by omega)
  have e4 : ∀ x, Rs.setIdx ls c x = Res.ok (ls.set c x) := fun x => Rs.setIdx_ok hc
  rw [bump_eq_set ls c hc, hg, hget]
  simp [bwtfind_for1, e1, e2, e3, e3', e4]

/-- the translated loop of `bwtfind` computes the model's `bwtfindGo` (and the bumped `less` array) -/
theorem bwtfind_loop_eq (bwt : List Nat) (m : Nat) (hsym : ∀ x ∈ bwt, x < m) (hn : bwt.length < 2 ^ 64) :
    ∀ (cs pre ls bf : List Nat), bwt = pre ++ cs →
      (∀ c, c < m → ls[c]? = some (lessRef bwt c + pre.count c)) → bf.length = bwt.length →
      (cs.zipIdx pre.length).foldlM (bwtfind_for1 maxSymbol) (bf, ls)
        = Res.ok (bwtfindGo cs pre.length ls bf, cs.foldl bump ls) := by
  intro cs
  induction cs with
  | nil => intro pre ls bf _ _ _; rfl
  | cons c cs ih =>
    intro pre ls bf hb hls hbf
    have hcm : c < m := hsym c (by rw [hb]; simp)
    have hslot : lessRef bwt c + pre.count c < bwt.length := by
      have := slot_lt pre cs c
      rw [← hb] at this; exact this
    rw [List.zipIdx_cons, List.foldlM_cons,
      bwtfind_step maxSymbol bf ls c pre.length _ (hls c hcm) (by rw [hbf]; exact hslot) (by omega), Res.ok_bind]
    have hl : (pre ++ [c]).length = pre.length + 1 := by simp
    rw [← hl]
    simp only [bwtfindGo, List.foldl_cons]
    rw [← hl]
    apply ih (pre ++ [c]) _ _ (by rw [hb]; simp)
    · intro c' hc'
      rw [bump, List.getElem?_modify, hls c' hc', List.count_append]
      by_cases h : c = c'
      · subst h; simp; omega
      · have h' : ¬ (c == c') = true := by simpa using h
        simp [h, h']
    · simpa using hbf

/-- **`bwtfind` as written in the source = the mirror model `bwtfindModel`** (table size `max_symbol + 2`) -/
theorem bwtfind_eq_model (bwt : List Nat) (alphabet : Alph) (ms : Nat)
    (hms : maxSymbol alphabet = some ms) (hms' : ms + 2 < 2 ^ 64) (hn : bwt.length < 2 ^ 64)
    (hsym : ∀ x ∈ bwt, x < ms + 2) :
    bwtfind maxSymbol bwt alphabet = Res.ok (bwtfindModel bwt (ms + 2)) := by
  have e1 := less_eq_model maxSymbol bwt alphabet ms hms hms' hn hsym
  have e2 := bwtfind_loop_eq maxSymbol bwt (ms + 2) hsym hn bwt [] (lessModel bwt (ms + 2))
    (List.replicate bwt.length 0) (by simp) (fun c hc => by simpa using less_eq bwt (ms + 2) c hc) (by simp)
  simp only [List.length_nil] at e2
  simp [bwtfind, e1, e2, bwtfindModel]

/-- every entry of the table built by `bwtfindGo` is a row number -/
theorem bwtfindGo_lt (N : Nat) : ∀ (cs : List Nat) (r : Nat) (ls bf : List Nat),
    r + cs.length ≤ N → (∀ v ∈ bf, v < N) → ∀ v ∈ bwtfindGo cs r ls bf, v < N := by
  intro cs
  induction cs with
  | nil => intro r ls bf _ h; exact h
  | cons c cs ih =>
    intro r ls bf hr h
    simp only [List.length_cons] at hr
    simp only [bwtfindGo]
    apply ih (r + 1) _ _ (by omega)
    intro v hv
    rcases List.mem_or_eq_of_mem_set hv with h' | h'
    · exact h v h'
    · omega

theorem length_bwtfindGo : ∀ (cs : List Nat) (r : Nat) (ls bf : List Nat), (bwtfindGo cs r ls bf).length = bf.length := by
  intro cs
  induction cs with
  | nil => intro r ls bf; rfl
  | cons c cs ih => intro r ls bf; simp [bwtfindGo, ih]

variable (alphNew : List Nat → Alph)

/-- the translated loop of `invert_bwt` follows `bwtfind` and collects the model's `invertGo` -/
theorem invert_loop_eq (bwt bf : List Nat) (hbf : bf.length = bwt.length) (hlt : ∀ v ∈ bf, v < bwt.length) :
    ∀ (k s r : Nat) (acc : List Nat), r < bwt.length →
      ∃ r', (List.range' s k).foldlM (invert_bwt_for1 maxSymbol alphNew bf bwt) (r, acc)
        = Res.ok (r', acc ++ invertGo bwt bf k r) := by
  intro k
  induction k with
  | zero => intro s r acc _; exact ⟨r, by simp [invertGo]⟩
  | succ k ih =>
    intro s r acc hr
    have hr' : r < bf.length := by rw [hbf]; exact hr
    have hnext : bf.getD r 0 < bwt.length := by
      rw [getD_of_lt bf r 0 hr']; exact hlt _ (List.getElem_mem hr')
    have e1 : Rs.idx bf r = Res.ok (bf.getD r 0) := idx_getD bf r 0 hr'
    have e2 : Rs.idx bwt (bf.getD r 0) = Res.ok (bwt.getD (bf.getD r 0) 0) := idx_getD bwt _ 0 hnext
    have hstep : invert_bwt_for1 maxSymbol alphNew bf bwt (r, acc) s
        = Res.ok (bf.getD r 0, acc ++ [bwt.getD (bf.getD r 0) 0]) := by
      simp [-List.getD_eq_getElem?_getD, invert_bwt_for1, e1, e2]
    obtain ⟨r', h'⟩ := ih (s + 1) (bf.getD r 0) (acc ++ [bwt.getD (bf.getD r 0) 0]) hnext
    refine ⟨r', ?_⟩
    rw [List.range'_succ, List.foldlM_cons, hstep, Res.ok_bind, h']
    simp [invertGo]

/-- **`invert_bwt` as written in the source = the mirror model `invertModel`**, for a non-empty BWT (on the empty one
`bwtfind[0]` panics) whose symbols lie below `max_symbol(Alphabet::new(bwt)) + 2` -/
theorem invert_bwt_eq_model (bwt : List Nat) (ms : Nat)
    (hms : maxSymbol (alphNew bwt) = some ms) (hms' : ms + 2 < 2 ^ 64) (hpos : 0 < bwt.length)
    (hn : bwt.length < 2 ^ 64) (hsym : ∀ x ∈ bwt, x < ms + 2) :
    invert_bwt maxSymbol alphNew bwt = Res.ok (invertModel bwt (ms + 2)) := by
  have e1 := bwtfind_eq_model maxSymbol bwt (alphNew bwt) ms hms hms' hn hsym
  have hlen : (bwtfindModel bwt (ms + 2)).length = bwt.length := by
    unfold bwtfindModel; rw [length_bwtfindGo]; simp
  have hlt : ∀ v ∈ bwtfindModel bwt (ms + 2), v < bwt.length := by
    unfold bwtfindModel
    apply bwtfindGo_lt bwt.length bwt 0 _ _ (by omega)
    intro v hv
    rw [List.mem_replicate] at hv
    omega
  have h0 : (bwtfindModel bwt (ms + 2)).getD 0 0 < bwt.length := by
    rw [getD_of_lt _ 0 0 (by omega)]; exact hlt _ (List.getElem_mem (by omega))
  have e2 : Rs.idx (bwtfindModel bwt (ms + 2)) 0 = Res.ok ((bwtfindModel bwt (ms + 2)).getD 0 0) :=
    idx_getD _ 0 0 (by omega)
  obtain ⟨r', e3⟩ := invert_loop_eq maxSymbol alphNew bwt (bwtfindModel bwt (ms + 2)) hlen hlt bwt.length 0
    ((bwtfindModel bwt (ms + 2)).getD 0 0) [] h0
  simp [-List.getD_eq_getElem?_getD, invert_bwt, e1, e2, e3, invertModel]

end RbV.Thm.GenSrcLess
