import RbV.Gen.SrcLess
import RbV.Thm.GenSrcOcc
import RbV.Thm.GenSrcPrescan
/-!
# The translated text of `bwt::less` equals the mirror model `OccM.lessModel`

`RbV/Gen/SrcLess.lean` is regenerated from `src/data_structures/bwt.rs` by `tools/rs2lean.py` on every `./check C04`.
`alphabet.max_symbol()` is an abstract function of the opaque alphabet (`maxSymbol`); `.expect(..)` panics on `None`.
The call `prescan(&mut less[..], 0, |a, b| a + b)` is the translated `utils::prescan` (`RbV/Gen/SrcPrescan.lean`) with
the closure read as `+` on `Nat` (translation spec, `LESS_REWRITES`).  Hypotheses = what keeps the Rust code from
panicking: non-empty alphabet, every BWT symbol below the table size `max_symbol + 2`, `n < 2^64` (`less[c] += 1`).
-/
-- the simp sets name every fact a harmless rewrite of the Rust text may need; on the pinned text some are unused
set_option linter.unusedSimpArgs false

namespace RbV.Thm.GenSrcLess
open RbV RbV.Rs RbV.Gen.SrcLess RbV.Thm.GenSrc RbV.OccM RbV.Thm.GenSrcOcc

variable {Alph : Type} (maxSymbol : Alph → Option Nat)

/-- one round of `for &c in bwt.iter() { less[c as usize] += 1; }` is the model's `bump` -/
theorem step_eq (acc : List Nat) (c i : Nat) (hc : c < acc.length) (hb : ∀ v ∈ acc, v ≤ i) (hi : i + 1 < 2 ^ 64) :
    less_for1 maxSymbol acc c = Res.ok (bump acc c) := by
  have hle : acc[c] ≤ i := hb _ (List.getElem_mem hc)
  have e1 : Rs.idx acc c = Res.ok acc[c] := Rs.idx_ok hc
  have e2 : Rs.add 64 acc[c] 1 = Res.ok (acc[c] + 1) := Rs.add_ok (by omega)
  have e2' : Rs.add 64 1 acc[c] = Res.ok (acc[c] + 1) := by rw [Nat.add_comm]; exact Rs.add_ok (by omega)
  have e3 : ∀ v, Rs.setIdx acc c v = Res.ok (acc.set c v) := fun v => Rs.setIdx_ok hc
  rw [bump_eq_set acc c hc]
  simp [less_for1, e1, e2, e2', e3]

/-- the counting loop is the model's `foldl bump` -/
theorem count_loop_eq (m : Nat) : ∀ (xs acc : List Nat) (i : Nat),
    acc.length = m → (∀ x ∈ xs, x < m) → (∀ v ∈ acc, v ≤ i) → i + xs.length < 2 ^ 64 →
    xs.foldlM (less_for1 maxSymbol) acc = Res.ok (xs.foldl bump acc) := by
  intro xs
  induction xs with
  | nil => intro acc i _ _ _ _; rfl
  | cons x xs ih =>
    intro acc i hlen hx hb hi
    have hxm : x < acc.length := by rw [hlen]; exact hx x (by simp)
    simp only [List.length_cons] at hi
    rw [List.foldlM_cons, step_eq maxSymbol acc x i hxm hb (by omega), Res.ok_bind, List.foldl_cons]
    apply ih (bump acc x) (i + 1) (by rw [length_bump]; exact hlen) (fun y hy => hx y (List.mem_cons_of_mem _ hy))
    · intro v hv
      rw [bump_eq_set acc x hxm] at hv
      rcases List.mem_or_eq_of_mem_set hv with h | h
      · exact Nat.le_succ_of_le (hb v h)
      · have := hb _ (List.getElem_mem hxm); omega
    · omega

/-- **`less()` as written in the source = the mirror model `lessModel`** with table size `max_symbol + 2` -/
theorem less_eq_model (bwt : List Nat) (alphabet : Alph) (ms : Nat)
    (hms : maxSymbol alphabet = some ms) (hms' : ms + 2 < 2 ^ 64) (hn : bwt.length < 2 ^ 64)
    (hsym : ∀ x ∈ bwt, x < ms + 2) :
    less maxSymbol bwt alphabet = Res.ok (lessModel bwt (ms + 2)) := by
  have e1 : Rs.add 64 ms 2 = Res.ok (ms + 2) := Rs.add_ok hms'
  have e1' : Rs.add 64 2 ms = Res.ok (ms + 2) := by rw [Nat.add_comm]; exact Rs.add_ok (by omega)
  have e2 := count_loop_eq maxSymbol (ms + 2) bwt (List.replicate (ms + 2) 0) 0 (by simp) hsym (by simp) (by omega)
  have e3 := GenSrcPrescan.prescan_eq_model (bwt.foldl bump (List.replicate (ms + 2) 0)) 0
  simp [less, hms, e1, e1', e2, e3, lessModel, countArr]

end RbV.Thm.GenSrcLess
