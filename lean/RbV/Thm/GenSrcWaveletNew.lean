import RbV.Gen.SrcWavelet
import RbV.Model.Wavelet
import RbV.Thm.GenSrcBasic
/-!
# The translated text of `build_partlevel` and `WaveletMatrix::new` equals the mirror model `buildLevels`

`RbV/Gen/SrcWavelet.lean` is regenerated from `src/data_structures/wavelet_matrix.rs` on every `./check C17`.
`bv::BitVec<u8>` is an abstract type there, written through `BitVec::new_fill(false, n)` and `bits.set_bit(p, b)`; the
theorems instantiate it with `List Bool` and **assume the contract of the bv crate**: `new_fill(b, n)` is `n` copies of `b`
(`bvNewFill`), `set_bit(p, b)` replaces position `p` and panics when `p` is out of range (`bvSetBit`).
`RankSelect::new(curr_bits, 1)` is an abstract function `rsNew` that may panic; the theorems take `rsNew bits 1 = ok (mk bits)`
as hypothesis (discharged in `Thm/C17.lean` by the translated constructor of `Gen/SrcRankSelect.lean`).
`&mut` arguments of `build_partlevel` are returned: `(next_zeros, next_ones, bits)`.
-/
set_option linter.unusedSimpArgs false

namespace RbV.Thm.GenSrcWaveletNew
open RbV RbV.Rs RbV.Thm.GenSrc
open RbV.Model.Wavelet (Level bitOf buildLevels)

/-- contract of `bv::BitsMut::set_bit` on a `BitVec<u8>`: position out of range panics -/
def bvSetBit (bits : List Bool) (p : Nat) (b : Bool) : Res (List Bool) :=
  if p < bits.length then Res.ok (bits.set p b) else Res.panic

/-- contract of `BitVec::new_fill(b, n)` -/
def bvNewFill (b : Bool) (n : Nat) : List Bool := List.replicate n b

variable {ρ : Type} (rank0 rank1 : ρ → Nat → Res (Option Nat))

theorem set_mid (pre : List Bool) (x y : Bool) (suf : List Bool) :
    (pre ++ x :: suf).set pre.length y = (pre ++ [y]) ++ suf := by
  rw [List.set_append_right _ _ (Nat.le_refl _)]
  simp

/-- the loop of `build_partlevel`: the bits of `vals` are written from position `|pre|` on, the values are distributed
(stably) over `next_ones` / `next_zeros`; no `set_bit`, table index, shift or addition panics -/
theorem partlevel_fold (table : List Nat) (shift : Nat) (hs : shift < 8) :
    ∀ (vals : List Nat) (pre suf : List Bool) (no nz : List Nat), (∀ v ∈ vals, v < table.length) →
    vals.length ≤ suf.length → pre.length + vals.length < 2 ^ 64 →
    vals.foldlM (Gen.SrcWavelet.buildPartlevel_for1 rank0 rank1 bvSetBit table shift) (nz, no, pre ++ suf, pre.length)
      = Res.ok (nz ++ vals.filter (fun v => !bitOf (fun v => table.getD v 0) shift v),
          no ++ vals.filter (fun v => bitOf (fun v => table.getD v 0) shift v),
          pre ++ vals.map (bitOf (fun v => table.getD v 0) shift) ++ suf.drop vals.length,
          pre.length + vals.length) := by
  intro vals
  induction vals with
  | nil => intro pre suf no nz _ _ _; simp
  | cons v vals ih =>
    intro pre suf no nz hv hlen hp
    simp only [List.length_cons] at hlen hp
    obtain ⟨x, suf', rfl⟩ : ∃ x suf', suf = x :: suf' := by
      cases suf with
      | nil => simp at hlen
      | cons x s => exact ⟨x, s, rfl⟩
    simp only [List.length_cons] at hlen
    have hvl : v < table.length := hv v (List.mem_cons_self ..)
    have e1 : Rs.idx table v = Res.ok (table.getD v 0) := idx_getD _ _ _ hvl
    have e2 : ∀ y, Rs.shr 8 y shift = Res.ok (y >>> shift) := fun y => Rs.shr_ok hs
    have hbit : ((table.getD v 0 >>> shift &&& 1) == 1) = bitOf (fun v => table.getD v 0) shift v := rfl
    have hbit' : ((1 &&& table.getD v 0 >>> shift) == 1) = bitOf (fun v => table.getD v 0) shift v := by
      rw [Nat.and_comm]; rfl
    have e3 : ∀ y, bvSetBit (pre ++ x :: suf') pre.length y = Res.ok ((pre ++ [y]) ++ suf') := by
      intro y
      unfold bvSetBit
      rw [if_pos (by simp), set_mid]
    have e4 : Rs.add 64 pre.length 1 = Res.ok (pre.length + 1) := Rs.add_ok (by omega)
    have e4' : Rs.add 64 1 pre.length = Res.ok (pre.length + 1) := by rw [Rs.add_ok (by omega), Nat.add_comm]
    have hl : pre.length + 1 = (pre ++ [bitOf (fun v => table.getD v 0) shift v]).length := by simp
    rw [List.foldlM_cons]
    have hih := ih (pre ++ [bitOf (fun v => table.getD v 0) shift v]) suf'
    rw [← hl] at hih
    cases hb : bitOf (fun v => table.getD v 0) shift v with
    | true =>
      rw [hb] at hih
      simp only [Gen.SrcWavelet.buildPartlevel_for1, e1, e2, hbit, hbit', hb, e3, e4, e4', Res.ok_bind, Res.pure_eq_ok,
        if_true, ite_true, if_false, ite_false, Bool.false_eq_true, Bool.not_true, Bool.not_false, bne_iff_ne, ne_eq]
      rw [hih (no ++ [v]) nz (fun w hw => hv w (List.mem_cons_of_mem _ hw)) (by omega) (by omega)]
      simp [hb, Nat.add_assoc, Nat.add_comm 1, -List.getD_eq_getElem?_getD]
    | false =>
      rw [hb] at hih
      simp only [Gen.SrcWavelet.buildPartlevel_for1, e1, e2, hbit, hbit', hb, e3, e4, e4', Res.ok_bind, Res.pure_eq_ok,
        if_true, ite_true, if_false, ite_false, Bool.false_eq_true, Bool.not_true, Bool.not_false, bne_iff_ne, ne_eq]
      rw [hih no (nz ++ [v]) (fun w hw => hv w (List.mem_cons_of_mem _ hw)) (by omega) (by omega)]
      simp [hb, Nat.add_assoc, Nat.add_comm 1, -List.getD_eq_getElem?_getD]

/-- **`build_partlevel`, as written**: returns `(next_zeros, next_ones, bits)` -/
theorem buildPartlevel_eq_model (table : List Nat) (shift : Nat) (hs : shift < 8) (vals : List Nat)
    (pre suf : List Bool) (nz no : List Nat) (hv : ∀ v ∈ vals, v < table.length) (hlen : vals.length ≤ suf.length)
    (hp : pre.length + vals.length < 2 ^ 64) :
    Gen.SrcWavelet.buildPartlevel rank0 rank1 bvSetBit table vals shift nz no (pre ++ suf) pre.length
      = Res.ok (nz ++ vals.filter (fun v => !bitOf (fun v => table.getD v 0) shift v),
          no ++ vals.filter (fun v => bitOf (fun v => table.getD v 0) shift v),
          pre ++ vals.map (bitOf (fun v => table.getD v 0) shift) ++ suf.drop vals.length) := by
  have h := partlevel_fold rank0 rank1 table shift hs vals pre suf no nz hv hlen hp
  simp only [Gen.SrcWavelet.buildPartlevel, h, Res.ok_bind, Res.pure_eq_ok]

/-! ### `WaveletMatrix::new` -/

theorem filter_split_length (f : Nat → Bool) (l : List Nat) :
    (l.filter (fun v => !f v)).length + (l.filter (fun v => f v)).length = l.length := by
  induction l with
  | nil => rfl
  | cons x xs ih =>
    cases h : f x <;> simp [List.filter_cons, h] <;> omega

variable (rsNew : List Bool → Nat → Res ρ) (mk : List Bool → ρ)

/-- one round of the level loop of `new`: the two `build_partlevel` calls write the level's bits for `curr_zeros` followed
by `curr_ones` into a fresh `width`-bit vector and split both (stably) into the next `curr_zeros` / `curr_ones` -/
theorem level_step (table : List Nat) (W H : Nat) (hH : H ≤ 8) (hW : W < 2 ^ 63)
    (hrs : ∀ bits : List Bool, bits.length = W → rsNew bits 1 = Res.ok (mk bits))
    (m level : Nat) (hlv : level + (m + 1) = H) (cz co : List Nat) (lvls : List ρ) (zs : List Nat)
    (hlen : cz.length + co.length = W) (hv : ∀ v ∈ cz ++ co, v < table.length) :
    Gen.SrcWavelet.new_for1 rank0 rank1 bvSetBit bvNewFill rsNew W H table (cz, co, zs, lvls) level
      = Res.ok ((cz ++ co).filter (fun v => !bitOf (fun v => table.getD v 0) m v),
          (cz ++ co).filter (fun v => bitOf (fun v => table.getD v 0) m v),
          zs ++ [((cz ++ co).filter (fun v => !bitOf (fun v => table.getD v 0) m v)).length],
          lvls ++ [mk ((cz ++ co).map (bitOf (fun v => table.getD v 0) m))]) := by
  have e1 : Rs.sub H level = Res.ok (H - level) := Rs.sub_ok (by omega)
  have e2 : Rs.sub (H - level) 1 = Res.ok (H - level - 1) := Rs.sub_ok (by omega)
  have hsh : Rs.cast 8 (H - level - 1) = m := by
    have : H - level - 1 = m := by omega
    rw [this]
    exact Nat.mod_eq_of_lt (by omega)
  have e1' : Rs.add 64 level 1 = Res.ok (level + 1) := Rs.add_ok (by omega)
  have e2' : Rs.sub H (level + 1) = Res.ok (H - (level + 1)) := Rs.sub_ok (by omega)
  have hsh' : Rs.cast 8 (H - (level + 1)) = m := by
    have : H - (level + 1) = m := by omega
    rw [this]
    exact Nat.mod_eq_of_lt (by omega)
  have h1 := buildPartlevel_eq_model rank0 rank1 table m (by omega) cz [] (List.replicate W false) [] []
    (fun v h => hv v (List.mem_append_left _ h)) (by simp; omega) (by simp; omega)
  simp only [List.nil_append, List.length_nil] at h1
  have h2 := buildPartlevel_eq_model rank0 rank1 table m (by omega) co
    (cz.map (bitOf (fun v => table.getD v 0) m)) ((List.replicate W false).drop cz.length)
    (cz.filter (fun v => !bitOf (fun v => table.getD v 0) m v)) (cz.filter (fun v => bitOf (fun v => table.getD v 0) m v))
    (fun v h => hv v (List.mem_append_right _ h)) (by simp; omega) (by simp; omega)
  rw [List.length_map] at h2
  have hdrop : ((List.replicate W false).drop cz.length).drop co.length = [] := by
    apply List.drop_eq_nil_of_le
    simp; omega
  rw [hdrop, List.append_nil, ← List.map_append, ← List.filter_append, ← List.filter_append] at h2
  have h3 := hrs ((cz ++ co).map (bitOf (fun v => table.getD v 0) m)) (by simp; omega)
  simp only [Gen.SrcWavelet.new_for1, bvNewFill, e1, e2, hsh, e1', e2', hsh', h1, h2, h3, Res.ok_bind, Res.pure_eq_ok] at h1 ⊢

/-- the level loop of `new` over the remaining `m` levels: lock-step with the model's `buildLevels` -/
theorem levels_fold (table : List Nat) (W H : Nat) (hH : H ≤ 8) (hW : W < 2 ^ 63)
    (hrs : ∀ bits : List Bool, bits.length = W → rsNew bits 1 = Res.ok (mk bits)) :
    ∀ (m level : Nat) (cz co : List Nat) (lvls : List ρ) (zs : List Nat), level + m = H → cz.length + co.length = W →
    (∀ v ∈ cz ++ co, v < table.length) →
    ∃ cz' co', (List.range' level m).foldlM
        (Gen.SrcWavelet.new_for1 rank0 rank1 bvSetBit bvNewFill rsNew W H table) (cz, co, zs, lvls)
      = Res.ok (cz', co', zs ++ (buildLevels (fun v => table.getD v 0) m (cz ++ co)).map (·.zeros),
          lvls ++ (buildLevels (fun v => table.getD v 0) m (cz ++ co)).map (fun lv => mk lv.bits)) := by
  intro m
  induction m with
  | zero =>
    intro level cz co lvls zs _ _ _
    exact ⟨cz, co, by simp [buildLevels]⟩
  | succ m ih =>
    intro level cz co lvls zs hlv hlen hv
    have hstep := level_step rank0 rank1 rsNew mk table W H hH hW hrs m level hlv cz co lvls zs hlen hv
    have hsplit := filter_split_length (bitOf (fun v => table.getD v 0) m) (cz ++ co)
    obtain ⟨cz', co', hih⟩ := ih (level + 1)
      ((cz ++ co).filter (fun v => !bitOf (fun v => table.getD v 0) m v))
      ((cz ++ co).filter (fun v => bitOf (fun v => table.getD v 0) m v))
      (lvls ++ [mk ((cz ++ co).map (bitOf (fun v => table.getD v 0) m))])
      (zs ++ [((cz ++ co).filter (fun v => !bitOf (fun v => table.getD v 0) m v)).length])
      (by omega) (by rw [hsplit, List.length_append]; exact hlen)
      (by
        intro v h
        rw [List.mem_append] at h
        rcases h with h | h
        · exact hv v (List.mem_filter.mp h).1
        · exact hv v (List.mem_filter.mp h).1)
    refine ⟨cz', co', ?_⟩
    rw [List.range'_succ, List.foldlM_cons, hstep]
    simp only [Res.ok_bind]
    rw [hih]
    simp only [buildLevels, List.map_cons, List.append_assoc, List.singleton_append]

/-- **`WaveletMatrix::new`, as written, builds the model's levels**: `(width, height, zeros, levels)` with `height = 3`, the
zero counts and (through `rsNew`) the bit vectors of `Wavelet.build` — for every text whose symbols index the code
table; no `set_bit`, index, shift or arithmetic operation panics -/
theorem new_eq_model (table : List Nat) (text : List Nat) (hW : text.length < 2 ^ 63)
    (hrs : ∀ bits : List Bool, bits.length = text.length → rsNew bits 1 = Res.ok (mk bits))
    (hv : ∀ v ∈ text, v < table.length) :
    Gen.SrcWavelet.new rank0 rank1 bvSetBit bvNewFill rsNew table text
      = Res.ok (text.length, 3, (Model.Wavelet.build (fun v => table.getD v 0) text).map (·.zeros),
          (Model.Wavelet.build (fun v => table.getD v 0) text).map (fun lv => mk lv.bits)) := by
  obtain ⟨cz', co', h⟩ := levels_fold rank0 rank1 rsNew mk table text.length 3 (by omega) hW hrs 3 0 text [] [] []
    (by omega) (by simp) (by simpa using hv)
  simp only [List.append_nil, List.nil_append] at h
  simp only [Gen.SrcWavelet.new, Nat.sub_zero, h, Res.ok_bind, Res.pure_eq_ok, Model.Wavelet.build]

end RbV.Thm.GenSrcWaveletNew
