import RbV.Thm.GenSrcRankSelect
import RbV.Lemmas.RankSelectSorted
/-!
# The translated text of `RankSelect::{select_x, select_1, select_0, new}` equals the mirror model

`RbV/Gen/SrcRankSelect.lean` is regenerated from `src/data_structures/rank_select.rs` on every `./check C17`.
`select_x` has two nested `for` loops with a `return` in the inner one: the translation makes them helpers by recursion
on the remaining items (`selectX_for1` over the blocks of the superblock, `selectX_for2` over the bits of a block) that
return `some v` when the function returned `v` from inside the loop.  The closure parameters `is_match` / `count_all` are
abstract functions (`ClosuresOk` is what the body assumes of them; `select_1` / `select_0` pass closures that satisfy
it), `superblocks.binary_search(..)` is the abstract function `bs` with the documented contract `BSearchOk`
(`Lemmas/RankSelectSorted.lean`), `self.bits.block_len()` the abstract `bl` with the bv contract `⌈len / 8⌉`.
-/
set_option linter.unusedSimpArgs false

namespace RbV.Thm.GenSrcSelect
open RbV RbV.Rs RbV.Thm.GenSrc
open RbV.Model.RankSelect (SbRank SbState getBlock scanBits selectBlocks Scan searchIdx)
open RbV.Thm.GenSrcRankSelect (blockByte CeilOk blockByte_lt countOnes_block countZeros_block)
open RbV.Lemmas.RankSelectModel (blkCount cnt cnt_le)
open RbV.Lemmas.RankSelectSorted (BSearchOk)

variable (bl : List Bool → Nat) (cd8 : Nat → Nat) (bs : List SbRank → SbRank → Nat)
variable (isMatch : Nat → Bool) (countAll : Nat → Nat)

/-- what the body of `select_x` assumes of its closure parameters, for the polarity `b`: `is_match(block & (1 << i))` tests
bit `i` of the block against `b`, `count_all(block)` is the per-block count the superblock table was built with -/
structure ClosuresOk (b : Bool) (bits : List Bool) (isMatch : Nat → Bool) (countAll : Nat → Nat) : Prop where
  is : ∀ B i, i < 8 → isMatch (blockByte bits B &&& (1 <<< i)) = decide ((getBlock bits B).getD i false = b)
  cnt : ∀ B, countAll (blockByte bits B) = blkCount b (getBlock bits B)

theorem blkCount_le (b : Bool) (bits : List Bool) (B : Nat) : blkCount b (getBlock bits B) ≤ 8 := by
  unfold blkCount
  split
  · exact RbV.Thm.GenSrcRankSelect.countOnes_le bits B
  · exact RbV.Thm.GenSrcRankSelect.countZeros_le bits B

/-- `bit <<= 1` on the `u8` mask `1 << i` -/
theorem shl_bit (i : Nat) (hi : i < 8) : Rs.shl 8 ((1 <<< i) % 256) 1 = Res.ok ((1 <<< (i + 1)) % 256) := by
  have : i = 0 ∨ i = 1 ∨ i = 2 ∨ i = 3 ∨ i = 4 ∨ i = 5 ∨ i = 6 ∨ i = 7 := by omega
  rcases this with rfl | rfl | rfl | rfl | rfl | rfl | rfl | rfl <;> decide

theorem bit_small (i : Nat) (hi : i < 8) : (1 <<< i) % 256 = 1 <<< i := by
  have : i = 0 ∨ i = 1 ∨ i = 2 ∨ i = 3 ∨ i = 4 ∨ i = 5 ∨ i = 6 ∨ i = 7 := by omega
  rcases this with rfl | rfl | rfl | rfl | rfl | rfl | rfl | rfl <;> decide

theorem scan_notFound_le (blk : List Bool) (b : Bool) (j : Nat) : ∀ fuel i rank r,
    scanBits blk b j fuel i rank = .notFound r → r ≤ rank + fuel := by
  intro fuel
  induction fuel with
  | zero => intro i rank r h; simp only [scanBits] at h; cases h; omega
  | succ fuel ih =>
    intro i rank r h
    have hx : (if blk.getD i false = b then 1 else 0) ≤ 1 := by split <;> omega
    rw [scanBits] at h
    generalize (if blk.getD i false = b then 1 else 0) = x at h hx
    by_cases hj : rank + x = j
    · simp only [hj, if_true] at h; cases h
    · simp only [hj, if_false] at h
      have := ih _ _ _ h
      omega

/-- the bit loop of `select_x` (`for i in 0..max_bit`): lock-step with the model's `scanBits` -/
theorem for2_eq (b : Bool) (bits : List Bool) (hcl : ClosuresOk b bits isMatch countAll) (B j : Nat)
    (hB : B * 8 + 8 < 2 ^ 64) : ∀ (fuel i rank : Nat), i + fuel ≤ 8 → rank + fuel < 2 ^ 64 →
    (∀ pos, scanBits (getBlock bits B) b j fuel i rank = .found pos →
      ∃ st, Gen.SrcRankSelect.selectX_for2 (σ := SbRank) blockByte List.length bl cd8 SbRank.first SbRank.some SbRank.val
          bs isMatch countAll (blockByte bits B) j B (List.range' i fuel) (rank, (1 <<< i) % 256)
        = Res.ok (some (some (B * 8 + pos)), st)) ∧
    (∀ r, scanBits (getBlock bits B) b j fuel i rank = .notFound r →
      Gen.SrcRankSelect.selectX_for2 (σ := SbRank) blockByte List.length bl cd8 SbRank.first SbRank.some SbRank.val
          bs isMatch countAll (blockByte bits B) j B (List.range' i fuel) (rank, (1 <<< i) % 256)
        = Res.ok (none, (r, (1 <<< (i + fuel)) % 256))) := by
  intro fuel
  induction fuel with
  | zero =>
    intro i rank _ _
    refine ⟨?_, ?_⟩
    · intro pos h; simp only [scanBits] at h; cases h
    · intro r h
      simp only [scanBits] at h
      cases h
      simp only [List.range'_zero, Gen.SrcRankSelect.selectX_for2, Res.pure_eq_ok, Nat.add_zero]
  | succ fuel ih =>
    intro i rank hi hr
    have hi8 : i < 8 := by omega
    have hbit := bit_small i hi8
    have his := hcl.is B i hi8
    have his' : isMatch ((1 <<< i) &&& blockByte bits B) = decide ((getBlock bits B).getD i false = b) := by
      rw [Nat.and_comm]; exact his
    have hx : (if (getBlock bits B).getD i false = b then 1 else 0) ≤ 1 := by split <;> omega
    generalize hxd : (if (getBlock bits B).getD i false = b then 1 else 0) = x at hx
    have e1 : Rs.add 64 rank x = Res.ok (rank + x) := Rs.add_ok (by omega)
    have e1' : Rs.add 64 x rank = Res.ok (rank + x) := by rw [Rs.add_ok (by omega), Nat.add_comm]
    have e2 : Rs.mul 64 B 8 = Res.ok (B * 8) := Rs.mul_ok (by omega)
    have e2' : Rs.mul 64 8 B = Res.ok (B * 8) := by rw [Rs.mul_ok (by omega), Nat.mul_comm]
    have e3 : Rs.add 64 (B * 8) i = Res.ok (B * 8 + i) := Rs.add_ok (by omega)
    have e3' : Rs.add 64 i (B * 8) = Res.ok (B * 8 + i) := by rw [Rs.add_ok (by omega), Nat.add_comm]
    have e4 := shl_bit i hi8
    rw [hbit] at e4
    have hsc : scanBits (getBlock bits B) b j (fuel + 1) i rank
        = if rank + x = j then .found i else scanBits (getBlock bits B) b j fuel (i + 1) (rank + x) := by
      rw [scanBits, hxd]
    have hsrc : ∀ (rest : List Nat),
        Gen.SrcRankSelect.selectX_for2 (σ := SbRank) blockByte List.length bl cd8 SbRank.first SbRank.some SbRank.val
          bs isMatch countAll (blockByte bits B) j B (i :: rest) (rank, 1 <<< i)
        = if rank + x = j then Res.ok (some (some (B * 8 + i)), (rank + x, 1 <<< i))
          else Gen.SrcRankSelect.selectX_for2 (σ := SbRank) blockByte List.length bl cd8 SbRank.first SbRank.some
            SbRank.val bs isMatch countAll (blockByte bits B) j B rest (rank + x, (1 <<< (i + 1)) % 256) := by
      intro rest
      by_cases hj : rank + x = j
      · have hj' : (rank + x == j) = true := by simp [hj]
        have hj'' : (j == rank + x) = true := by simp [hj]
        simp only [Gen.SrcRankSelect.selectX_for2, his, his', decide_eq_true_eq, hxd, e1, e1', e2, e2', e3, e3', hj, hj', hj'',
          Res.ok_bind, Res.pure_eq_ok, if_true, ite_true, beq_self_eq_true]
      · have hj' : (rank + x == j) = false := by simp [hj]
        have hj'' : (j == rank + x) = false := by simp [hj]; omega
        have hj3 : (rank + x != j) = true := by simp [hj]
        simp only [Gen.SrcRankSelect.selectX_for2, his, his', decide_eq_true_eq, hxd, e1, e1', e2, e2', e3, e3', e4, hj, hj', hj'',
          hj3, Res.ok_bind, Res.pure_eq_ok, if_false, ite_false, Bool.false_eq_true, if_true, ite_true]
    rw [List.range'_succ, hbit, hsrc, hsc]
    have hih := ih (i + 1) (rank + x) (by omega) (by omega)
    by_cases hj : rank + x = j
    · simp only [hj, if_true]
      refine ⟨fun pos h => ?_, fun r h => by cases h⟩
      cases h
      exact ⟨_, rfl⟩
    · simp only [hj, if_false]
      have e5 : i + (fuel + 1) = i + 1 + fuel := by omega
      rw [e5]
      exact hih

/-- the block loop of `select_x` (`for block in first_block..min(..)`): lock-step with the model's `selectBlocks`; the
second component is the final value of `rank`, which nothing reads -/
theorem for1_eq (b : Bool) (bits : List Bool) (hcl : ClosuresOk b bits isMatch countAll) (j : Nat)
    (hlen : bits.length < 2 ^ 60) : ∀ (L : List Nat) (rank : Nat), (∀ B ∈ L, B * 8 < bits.length) →
    rank + 16 * L.length + 16 < 2 ^ 64 →
    ∃ r', Gen.SrcRankSelect.selectX_for1 (σ := SbRank) blockByte List.length bl cd8 SbRank.first SbRank.some SbRank.val
        bs isMatch countAll bits j L rank
      = Res.ok ((selectBlocks bits.length (getBlock bits) b j L rank).map some, r') := by
  intro L
  induction L with
  | nil =>
    intro rank _ _
    exact ⟨rank, by simp only [Gen.SrcRankSelect.selectX_for1, Res.pure_eq_ok,
      RbV.Lemmas.RankSelectModel.selectBlocks_nil, Option.map_none]⟩
  | cons B L ih =>
    intro rank hL hr
    simp only [List.length_cons] at hr
    have hB : B * 8 < bits.length := hL B (List.mem_cons_self ..)
    have hp := blkCount_le b bits B
    have e0 := hcl.cnt B
    have e1 : Rs.add 64 rank (blkCount b (getBlock bits B)) = Res.ok (rank + blkCount b (getBlock bits B)) :=
      Rs.add_ok (by omega)
    have e1' : Rs.add 64 (blkCount b (getBlock bits B)) rank = Res.ok (rank + blkCount b (getBlock bits B)) := by
      rw [Rs.add_ok (by omega), Nat.add_comm]
    have e2 : Rs.mul 64 B 8 = Res.ok (B * 8) := Rs.mul_ok (by omega)
    have e2' : Rs.mul 64 8 B = Res.ok (B * 8) := by rw [Rs.mul_ok (by omega), Nat.mul_comm]
    have e3 : Rs.sub bits.length (B * 8) = Res.ok (bits.length - B * 8) := Rs.sub_ok (by omega)
    have hmin : min (bits.length - B * 8) 8 = min 8 (bits.length - B * 8) := Nat.min_comm _ _
    have h1 : (1 <<< 0) % 256 = 1 := by decide
    rw [RbV.Lemmas.RankSelectModel.selectBlocks_cons]
    by_cases hc : rank + blkCount b (getBlock bits B) ≥ j
    · have hc' : j ≤ rank + blkCount b (getBlock bits B) := hc
      obtain ⟨hf, hnf⟩ := for2_eq bl cd8 bs isMatch countAll b bits hcl B j (by omega)
        (min 8 (bits.length - B * 8)) 0 rank (by omega) (by omega)
      rw [h1] at hf hnf
      cases hs : scanBits (getBlock bits B) b j (min 8 (bits.length - B * 8)) 0 rank with
      | found pos =>
        obtain ⟨st, hst⟩ := hf pos hs
        refine ⟨st.1, ?_⟩
        simp only [Gen.SrcRankSelect.selectX_for1, e0, e1, e1', e2, e2', e3, hmin, hc, hc', decide_true, decide_false,
          if_true, ite_true, Nat.sub_zero, hst, Res.ok_bind, Res.pure_eq_ok, ge_iff_le, Option.map_some]
      | notFound r =>
        have hst := hnf r hs
        have hle := scan_notFound_le _ _ _ _ _ _ _ hs
        have e4 : Rs.add 64 r (blkCount b (getBlock bits B)) = Res.ok (r + blkCount b (getBlock bits B)) :=
          Rs.add_ok (by omega)
        have e4' : Rs.add 64 (blkCount b (getBlock bits B)) r = Res.ok (r + blkCount b (getBlock bits B)) := by
          rw [Rs.add_ok (by omega), Nat.add_comm]
        obtain ⟨r', hr'⟩ := ih (r + blkCount b (getBlock bits B)) (fun B' hB' => hL B' (List.mem_cons_of_mem _ hB'))
          (by omega)
        refine ⟨r', ?_⟩
        simp only [Gen.SrcRankSelect.selectX_for1, e0, e1, e1', e2, e2', e3, hmin, hc, hc', decide_true, decide_false,
          if_true, ite_true, Nat.sub_zero, hst, e4, e4', hr', Res.ok_bind, Res.pure_eq_ok, ge_iff_le]
    · have hc' : ¬ j ≤ rank + blkCount b (getBlock bits B) := hc
      have hc2 : rank + blkCount b (getBlock bits B) < j := by omega
      obtain ⟨r', hr'⟩ := ih (rank + blkCount b (getBlock bits B)) (fun B' hB' => hL B' (List.mem_cons_of_mem _ hB'))
        (by omega)
      refine ⟨r', ?_⟩
      simp only [Gen.SrcRankSelect.selectX_for1, e0, e1, e1', hc, hc', hc2, decide_true, decide_false, if_false, ite_false,
        hr', Res.ok_bind, Res.pure_eq_ok, ge_iff_le, Bool.false_eq_true, if_true, ite_true, Bool.not_true, Bool.not_false]

/-! ### `select_x`, `select_1`, `select_0` -/
open RbV.Model.RankSelect (superblocks)
open RbV.Spec.RankSelect (selectRef rankRef)

/-- **`RankSelect::select_x`, as written, is the model's `selectX`** on the table `fn superblocks` builds for the polarity
`b`, for every non-empty bit vector of fewer than 2^60 bits, every `k ≥ 1` (with `32·k` a `usize`) and every `j`:
the binary search (any function with the documented contract), the block scan and the bit scan with its early `return`
follow the model step by step; no index, subtraction or `u64` addition panics. -/
theorem selectX_eq_model (b : Bool) (bits : List Bool) (k : Nat) (hk : 1 ≤ k) (hks : k * 32 < 2 ^ 64) (hn : bits ≠ [])
    (hlen : bits.length < 2 ^ 60) (hbl : bl bits = (bits.length + 7) / 8) (hbs : BSearchOk SbRank.lt bs)
    (hcl : ClosuresOk b bits isMatch countAll) (sbs1 sbs0 : List SbRank) (j : Nat) :
    Gen.SrcRankSelect.selectX (σ := SbRank) blockByte List.length bl cd8 SbRank.first SbRank.some SbRank.val bs isMatch
        countAll bits.length bits sbs1 sbs0 (k * 32) k j (superblocks b bits.length (k * 32) (getBlock bits))
      = Res.ok (Model.RankSelect.selectX bits.length (k * 32) (getBlock bits)
          (superblocks b bits.length (k * 32) (getBlock bits)) b j) := by
  by_cases hj0 : j = 0
  · subst hj0
    simp [Gen.SrcRankSelect.selectX, Model.RankSelect.selectX]
  have hnpos : 0 < bits.length := List.length_pos_iff.mpr hn
  -- beyond the number of bits the answer is `None` (only used when the text tests `j > n` up front)
  have hbeyond : bits.length < j → Model.RankSelect.selectX bits.length (k * 32) (getBlock bits)
      (superblocks b bits.length (k * 32) (getBlock bits)) b j = none := by
    intro h
    rw [RbV.Lemmas.RankSelectModel.select_correct b bits k hk hn j,
      RbV.Lemmas.RankSelectModel.selectRef_none_iff]
    right
    exact Nat.lt_of_le_of_lt List.count_le_length h
  have hsi := RbV.Lemmas.RankSelectSorted.bsearch_eq_searchIdx b bits k hk bs hbs j
  have hL := RbV.Lemmas.RankSelectModel.lt_superblocks_length b bits k hk
  have hV := RbV.Lemmas.RankSelectModel.superblocks_val' b bits k hk
  generalize superblocks b bits.length (k * 32) (getBlock bits) = sbs at hsi hL hV hbeyond ⊢
  have hsb : searchIdx sbs (.first j) - 1 < sbs.length := by
    have h0 : 0 < sbs.length := (hL 0).mpr (by omega)
    have : searchIdx sbs (.first j) ≤ sbs.length := RbV.Lemmas.RankSelectModel.length_takeWhile_le _ _
    omega
  have hmodel : Model.RankSelect.selectX bits.length (k * 32) (getBlock bits) sbs b j
      = selectBlocks bits.length (getBlock bits) b j
          (List.range' ((searchIdx sbs (.first j) - 1) * (k * 32) / 8)
            (min ((searchIdx sbs (.first j) - 1) * (k * 32) / 8 + k * 32 / 8) ((bits.length + 7) / 8)
              - (searchIdx sbs (.first j) - 1) * (k * 32) / 8))
          (sbs.getD (searchIdx sbs (.first j) - 1) (.first 0)).val := by
    unfold Model.RankSelect.selectX
    simp only [hj0, if_false]
  generalize hsbeq : searchIdx sbs (.first j) - 1 = sb at hsb hmodel
  have hsbn := (hL sb).mp hsb
  have hval := hV sb hsbn
  have hvle := cnt_le b bits (sb * (k * 32))
  have e1 : Rs.idx sbs sb = Res.ok (sbs.getD sb (.first 0)) := idx_getD _ _ _ hsb
  have e2 : Rs.mul 64 sb (k * 32) = Res.ok (sb * (k * 32)) := Rs.mul_ok (by omega)
  have e2' : Rs.mul 64 (k * 32) sb = Res.ok (sb * (k * 32)) := by rw [Rs.mul_ok (by rw [Nat.mul_comm]; omega), Nat.mul_comm]
  have e3 : Rs.add 64 (sb * (k * 32) / 8) (k * 32 / 8) = Res.ok (sb * (k * 32) / 8 + k * 32 / 8) := Rs.add_ok (by omega)
  have e3' : Rs.add 64 (k * 32 / 8) (sb * (k * 32) / 8) = Res.ok (sb * (k * 32) / 8 + k * 32 / 8) := by
    rw [Rs.add_ok (by omega), Nat.add_comm]
  have hmin : min ((bits.length + 7) / 8) (sb * (k * 32) / 8 + k * 32 / 8)
      = min (sb * (k * 32) / 8 + k * 32 / 8) ((bits.length + 7) / 8) := Nat.min_comm _ _
  obtain ⟨r', hr'⟩ := for1_eq bl cd8 bs isMatch countAll b bits hcl j hlen
    (List.range' (sb * (k * 32) / 8) (min (sb * (k * 32) / 8 + k * 32 / 8) ((bits.length + 7) / 8) - sb * (k * 32) / 8))
    (sbs.getD sb (.first 0)).val
    (by
      intro B hB
      rw [List.mem_range'_1] at hB
      omega)
    (by rw [List.length_range', hval]; omega)
  have hj0' : (j == 0) = false := by simp [hj0]
  have hj0'' : (0 == j) = false := by simp; omega
  have hj1 : (j != 0) = true := by simp [hj0]
  by_cases hjn : bits.length < j
  · -- `j > n`: whether the text answers `None` up front or scans, the result is the model's
    have hjn' : decide (j > bits.length) = true := by simp; omega
    have hjn'' : decide (bits.length < j) = true := by simp; omega
    have hjn3 : decide (j ≤ bits.length) = false := by simp; omega
    have hjn4 : decide (bits.length ≥ j) = false := by simp; omega
    have hb := hbeyond hjn
    simp only [Gen.SrcRankSelect.selectX, hj0', hj0'', hj1, hjn', hjn'', hjn3, hjn4, hsi, hsbeq, e1, e2, e2', e3, e3', hbl, hmin, hr',
      Res.ok_bind, Res.pure_eq_ok, if_false, ite_false, Bool.false_eq_true, if_true, ite_true, Bool.or_true, Bool.or_false,
      Bool.true_or, Bool.false_or, Bool.not_true, Bool.not_false, Bool.and_true, Bool.and_false, gt_iff_lt, ge_iff_le]
    first
      | (rw [hmodel]
         cases hsel : selectBlocks bits.length (getBlock bits) b j
            (List.range' (sb * (k * 32) / 8)
              (min (sb * (k * 32) / 8 + k * 32 / 8) ((bits.length + 7) / 8) - sb * (k * 32) / 8))
            (sbs.getD sb (.first 0)).val <;> rfl)
      | exact congrArg Res.ok hb.symm
  · have hjn' : decide (j > bits.length) = false := by simp; omega
    have hjn'' : decide (bits.length < j) = false := by simp; omega
    have hjn3 : decide (j ≤ bits.length) = true := by simp; omega
    have hjn4 : decide (bits.length ≥ j) = true := by simp; omega
    simp only [Gen.SrcRankSelect.selectX, hj0', hj0'', hj1, hjn', hjn'', hjn3, hjn4, hsi, hsbeq, e1, e2, e2', e3, e3', hbl, hmin, hr',
      Res.ok_bind, Res.pure_eq_ok, if_false, ite_false, Bool.false_eq_true, if_true, ite_true, Bool.or_true, Bool.or_false,
      Bool.true_or, Bool.false_or, Bool.not_true, Bool.not_false, Bool.and_true, Bool.and_false, gt_iff_lt, ge_iff_le]
    rw [hmodel]
    cases hsel : selectBlocks bits.length (getBlock bits) b j
      (List.range' (sb * (k * 32) / 8)
        (min (sb * (k * 32) / 8 + k * 32 / 8) ((bits.length + 7) / 8) - sb * (k * 32) / 8))
      (sbs.getD sb (.first 0)).val <;> rfl

/-- the closures `select_1` passes: `|bit| bit != 0`, `|block| block.count_ones()` -/
theorem closures_1 (bits : List Bool) : ClosuresOk true bits (fun bit => bit != 0) (fun block => Rs.countOnes block) where
  is := by
    intro B i hi
    show ((RbV.Lemmas.Bytes8.byteOf (getBlock bits B) &&& (1 <<< i)) != 0) = _
    rw [RbV.Lemmas.Bytes8.bit_test _ i hi]
    cases (getBlock bits B).getD i false <;> rfl
  cnt := fun B => countOnes_block bits B

/-- the closures `select_0` passes: `|bit| bit == 0`, `|block| block.count_zeros()` -/
theorem closures_0 (bits : List Bool) : ClosuresOk false bits (fun bit => bit == 0) (fun block => Rs.countZeros 8 block) where
  is := by
    intro B i hi
    have h := RbV.Lemmas.Bytes8.bit_test (getBlock bits B) i hi
    show ((RbV.Lemmas.Bytes8.byteOf (getBlock bits B) &&& (1 <<< i)) == 0) = _
    have h2 : ((RbV.Lemmas.Bytes8.byteOf (getBlock bits B) &&& (1 <<< i)) == 0)
        = !((RbV.Lemmas.Bytes8.byteOf (getBlock bits B) &&& (1 <<< i)) != 0) := by
      simp [bne]
    rw [h2, h]
    cases (getBlock bits B).getD i false <;> rfl
  cnt := fun B => countZeros_block bits B

/-- **`RankSelect::select_1`, as written, is the model's `selectX` with polarity 1** (on the 1-table of `fn superblocks`) -/
theorem select1_eq_model (bits : List Bool) (k : Nat) (hk : 1 ≤ k) (hks : k * 32 < 2 ^ 64) (hn : bits ≠ [])
    (hlen : bits.length < 2 ^ 60) (hbl : bl bits = (bits.length + 7) / 8) (hbs : BSearchOk SbRank.lt bs)
    (sbs0 : List SbRank) (j : Nat) :
    Gen.SrcRankSelect.select1 (σ := SbRank) blockByte List.length bl cd8 SbRank.first SbRank.some SbRank.val bs
        bits.length bits (superblocks true bits.length (k * 32) (getBlock bits)) sbs0 (k * 32) k j
      = Res.ok (Model.RankSelect.selectX bits.length (k * 32) (getBlock bits)
          (superblocks true bits.length (k * 32) (getBlock bits)) true j) := by
  have h := selectX_eq_model bl cd8 bs _ _ true bits k hk hks hn hlen hbl hbs (closures_1 bits)
    (superblocks true bits.length (k * 32) (getBlock bits)) sbs0 j
  simp only [Gen.SrcRankSelect.select1, h, Res.ok_bind, Res.pure_eq_ok]

/-- **`RankSelect::select_0`, as written, is the model's `selectX` with polarity 0** (on the 0-table of `fn superblocks`) -/
theorem select0_eq_model (bits : List Bool) (k : Nat) (hk : 1 ≤ k) (hks : k * 32 < 2 ^ 64) (hn : bits ≠ [])
    (hlen : bits.length < 2 ^ 60) (hbl : bl bits = (bits.length + 7) / 8) (hbs : BSearchOk SbRank.lt bs)
    (sbs1 : List SbRank) (j : Nat) :
    Gen.SrcRankSelect.select0 (σ := SbRank) blockByte List.length bl cd8 SbRank.first SbRank.some SbRank.val bs
        bits.length bits sbs1 (superblocks false bits.length (k * 32) (getBlock bits)) (k * 32) k j
      = Res.ok (Model.RankSelect.selectX bits.length (k * 32) (getBlock bits)
          (superblocks false bits.length (k * 32) (getBlock bits)) false j) := by
  have h := selectX_eq_model bl cd8 bs _ _ false bits k hk hks hn hlen hbl hbs (closures_0 bits) sbs1
    (superblocks false bits.length (k * 32) (getBlock bits)) j
  simp only [Gen.SrcRankSelect.select0, h, Res.ok_bind, Res.pure_eq_ok]

/-! ### the constructor -/

/-- **`RankSelect::new`, as written, builds the model's structure**: `(n, bits, superblocks_1, superblocks_0, s, k)` with
`n = bits.len()`, `s = 32·k` and the two tables of the translated `fn superblocks` (= the model's, `superblocks_eq_model`) -/
theorem new_eq_model (bits : List Bool) (k : Nat) (hk : 1 ≤ k) (hks : k * 32 < 2 ^ 64) (hlen : bits.length < 2 ^ 60)
    (hcd : CeilOk cd8 bits.length) :
    Gen.SrcRankSelect.new (σ := SbRank) blockByte List.length bl cd8 SbRank.first SbRank.some SbRank.val bits k
      = Res.ok (bits.length, bits, superblocks true bits.length (k * 32) (getBlock bits),
          superblocks false bits.length (k * 32) (getBlock bits), k * 32, k) := by
  have e1 : Rs.mul 64 k 32 = Res.ok (k * 32) := Rs.mul_ok hks
  have e1' : Rs.mul 64 32 k = Res.ok (k * 32) := by rw [Rs.mul_ok (by omega), Nat.mul_comm]
  have e2 := RbV.Thm.GenSrcRankSelect.superblocks_eq_model bl cd8 true bits (k * 32) (by omega) hlen hcd
  have e3 := RbV.Thm.GenSrcRankSelect.superblocks_eq_model bl cd8 false bits (k * 32) (by omega) hlen hcd
  simp only [Gen.SrcRankSelect.new, e1, e1', e2, e3, Res.ok_bind, Res.pure_eq_ok]

end RbV.Thm.GenSrcSelect
