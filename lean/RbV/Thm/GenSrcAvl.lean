import RbV.Gen.SrcAvl
import RbV.Model.AvlG
/-!
# The source text of the AVL interval tree = the mirror model: `update_height`, `update_max`, rotations, `repair`

`Gen/SrcAvl.lean` is regenerated from `avl_interval_tree.rs` on every `./check C07` (dialect "avl" of
`tools/rs2lean_genavl.py`): a recursive Lean `structure Node` generated from `struct Node` and the functions of
`impl Node` as functions that return the new node.  `toTree` reads such a node as the mirror model's `Avl.Tree`
(`Option<Box<Node>>` ↦ `Tree`, heights `i64` ↦ `Nat`).  The Rust rotations swap the payloads of two nodes in place and
re-hang three subtrees; the model builds the rotated tree directly.  The equalities below are stated on the abstract
tree: **same shape and same payload, `max` and `height` at every position**.

Proof style (docs/notes/GEN.md): each function is unfolded once, the checked `i64` operations are discharged by named
range facts, the result is first brought into the explicit form `mkN` (a node whose `height` / `max` were just
recomputed from its children), and `toTree_mkN` maps that form to the model's `Avl.mk`.
-/
set_option linter.unusedSimpArgs false
set_option linter.unusedVariables false
namespace RbV.GenSrcAvl
open RbV RbV.Rs RbV.Rs.Res RbV.Ivl RbV.Avl RbV.Gen
open RbV.Gen.SrcAvl (Node IntervalTree IntervalTreeIterator IntervalTreeIteratorMut EntryMut updateHeight updateMax swapIntervalData nodeNew nodeInsert nodeInsert_goLeft treeInsert treeDefault treeFind treeFindMut iterNext iterNext_loop1 iterMutNext iterMutNext_loop1)

/-- the payload of a node as an entry of the specification -/
def entryOf (n : Node) : Ivl.Entry := ⟨n.interval.1, n.interval.2, n.value⟩

mutual
/-- a node of the translated structure read as a tree of the mirror model -/
def toTree : Node → Tree
  | ⟨iv, v, mx, h, l, r⟩ => .node (toTreeO l) ⟨iv.1, iv.2, v⟩ mx h.toNat (toTreeO r)
/-- `Option<Box<Node>>` read as a tree -/
def toTreeO : Option Node → Tree
  | none => .nil
  | some n => toTree n
end

@[simp] theorem toTreeO_none : toTreeO none = .nil := by simp [toTreeO]
@[simp] theorem toTreeO_some (n : Node) : toTreeO (some n) = toTree n := by simp [toTreeO]
theorem toTree_eq (n : Node) :
    toTree n = .node (toTreeO n.left) (entryOf n) n.max n.height.toNat (toTreeO n.right) := by
  cases n; simp [toTree, entryOf]

/-- `o.as_ref().map_or(0, |n| n.height)` -/
@[reducible] def hOf (o : Option Node) : Int := Option.elim o 0 (fun n => n.height)
/-- the stored height is a non-negative number `≤ B` -/
def HR (B : Int) (o : Option Node) : Prop := 0 ≤ hOf o ∧ hOf o ≤ B

@[simp] theorem hOf_none : hOf none = 0 := rfl
@[simp] theorem hOf_some (n : Node) : hOf (some n) = n.height := rfl

/-- discharges `HR B o` for an explicit `o` from range facts in the context -/
macro "hr_tac" : tactic =>
  `(tactic| (refine ⟨?_, ?_⟩ <;> first | omega | (simp only [hOf_some, hOf_none]; omega)))

/-- what `update_max` leaves in `self.max` -/
def mOf (e : Int) (l r : Option Node) : Int :=
  let m := match l with
    | none => e
    | some n => if e < n.max then n.max else e
  match r with
  | none => m
  | some n => if m < n.max then n.max else m

/-- a node whose `height` and `max` have just been recomputed (`update_height(); update_max()`) -/
def mkN (l : Option Node) (iv : Int × Int) (v : Int) (r : Option Node) : Node :=
  ⟨iv, v, mOf iv.2 l r, 1 + max (hOf l) (hOf r), l, r⟩

@[simp] theorem mkN_left (l : Option Node) (iv : Int × Int) (v : Int) (r : Option Node) : (mkN l iv v r).left = l := rfl
@[simp] theorem mkN_right (l : Option Node) (iv : Int × Int) (v : Int) (r : Option Node) : (mkN l iv v r).right = r := rfl
@[simp] theorem mkN_interval (l : Option Node) (iv : Int × Int) (v : Int) (r : Option Node) :
    (mkN l iv v r).interval = iv := rfl
@[simp] theorem mkN_value (l : Option Node) (iv : Int × Int) (v : Int) (r : Option Node) : (mkN l iv v r).value = v := rfl

theorem ht_toTreeO (o : Option Node) : ht (toTreeO o) = (hOf o).toNat := by
  cases o with
  | none => simp [hOf, ht]
  | some n => cases n; simp [toTree, hOf, ht]

theorem updMax_toTreeO (l r : Option Node) (e : Ivl.Entry) : updMax (toTreeO l) e (toTreeO r) = mOf e.hi l r := by
  cases l with
  | none => cases r with
    | none => simp [updMax, mOf]
    | some b => cases b; simp [updMax, mOf, toTree]
  | some a => cases r with
    | none => cases a; simp [updMax, mOf, toTree]
    | some b => cases a; cases b; simp [updMax, mOf, toTree]

theorem toTree_mkN (l : Option Node) (iv : Int × Int) (v : Int) (r : Option Node) (hl : 0 ≤ hOf l) (hr : 0 ≤ hOf r) :
    toTree (mkN l iv v r) = Avl.mk (toTreeO l) ⟨iv.1, iv.2, v⟩ (toTreeO r) := by
  simp only [mkN, toTree, Avl.mk, updHeight, ht_toTreeO, updMax_toTreeO]
  congr 1
  omega

theorem hOf_mkN (l : Option Node) (iv : Int × Int) (v : Int) (r : Option Node) :
    hOf (some (mkN l iv v r)) = 1 + max (hOf l) (hOf r) := rfl

theorem inS64 {k : Int} (h1 : -(2 ^ 63 : Int) ≤ k) (h2 : k < 2 ^ 63) : InS 64 k := by
  unfold InS; constructor <;> simp <;> omega

/-! ## `update_height`, `update_max` -/

theorem updateHeight_eq (n : Node) (B : Int) (hB : B + 1 < 2 ^ 63) (hl : HR B n.left) (hr : HR B n.right) :
    updateHeight n = ok { n with height := 1 + max (hOf n.left) (hOf n.right) } := by
  obtain ⟨l1, l2⟩ := hl
  obtain ⟨r1, r2⟩ := hr
  simp only [hOf] at l1 l2 r1 r2 ⊢
  simp only [updateHeight]
  -- whatever the operand order of the checked addition: it stays in range, and the sum is `1 + max …`
  rw [Rs.iadd_ok (inS64 (by omega) (by omega))]
  first
    | rfl
    | (simp only [Res.ok_bind, Res.pure_eq_ok, pure_bind]
       first
         | done
         | rfl
         | (congr 2; omega))

theorem updateMax_eq (n : Node) : updateMax n = ok { n with max := mOf n.interval.2 n.left n.right } := by
  obtain ⟨iv, v, mx, h, l, r⟩ := n
  cases l with
  | none => cases r with
    | none => simp [updateMax, mOf]
    | some b => simp only [updateMax, mOf]; split <;> simp_all <;> omega
  | some a => cases r with
    | none => simp only [updateMax, mOf]; split <;> simp_all <;> omega
    | some b => simp only [updateMax, mOf]; split <;> split <;> simp_all <;> omega

/-- `update_height(); update_max()` in explicit form -/
theorem updates_eq (n : Node) (B : Int) (hB : B + 1 < 2 ^ 63) (hl : HR B n.left) (hr : HR B n.right) :
    (updateHeight n >>= updateMax) = ok (mkN n.left n.interval n.value n.right) := by
  rw [updateHeight_eq n B hB hl hr]
  simp [updateMax_eq, mkN]

/-- rewrites the `update_height()` / `update_max()` calls of a rotation into explicit form, innermost first; the stored
heights of the subtrees are `≤ B`, those of freshly built nodes `≤ B + 1` -/
macro "upd_steps" B:term : tactic =>
  `(tactic| repeat (first
    | rw [updateHeight_eq _ ($B + 1) (by omega) (by hr_tac) (by hr_tac)]
    | simp only [Res.ok_bind, updateMax_eq]))

/-! ## rotations: the in-place version (payload swap, three subtrees re-hung) in explicit form -/

theorem rotateLeft_eq (n r : Node) (B : Int) (hB : B + 2 < 2 ^ 63) (hr : n.right = some r)
    (h1 : HR B n.left) (h2 : HR B r.left) (h3 : HR B r.right) :
    SrcAvl.rotateLeft n = ok (mkN (some (mkN n.left n.interval n.value r.left)) r.interval r.value r.right) := by
  obtain ⟨iv, v, mx, h, l, rr⟩ := n
  obtain ⟨riv, rv, rmx, rh, rl, rrr⟩ := r
  simp only at hr h1 h2 h3
  subst hr
  obtain ⟨a1, a2⟩ := h1
  obtain ⟨b1, b2⟩ := h2
  obtain ⟨c1, c2⟩ := h3
  simp only [SrcAvl.rotateLeft, Rs.expect, swapIntervalData, pure_bind, Res.pure_eq_ok, Res.ok_bind]
  upd_steps B
  simp only [mkN, hOf_some, hOf_none]

theorem rotateLeft_none (n : Node) (hr : n.right = none) : SrcAvl.rotateLeft n = panic := by
  obtain ⟨iv, v, mx, h, l, rr⟩ := n
  simp only at hr
  subst hr
  simp [SrcAvl.rotateLeft, Rs.expect]

theorem rotateRight_eq (n l : Node) (B : Int) (hB : B + 2 < 2 ^ 63) (hl : n.left = some l)
    (h1 : HR B l.left) (h2 : HR B l.right) (h3 : HR B n.right) :
    SrcAvl.rotateRight n = ok (mkN l.left l.interval l.value (some (mkN l.right n.interval n.value n.right))) := by
  obtain ⟨iv, v, mx, h, ll, r⟩ := n
  obtain ⟨liv, lv, lmx, lh, l1, l2⟩ := l
  simp only at hl h1 h2 h3
  subst hl
  obtain ⟨a1, a2⟩ := h1
  obtain ⟨b1, b2⟩ := h2
  obtain ⟨c1, c2⟩ := h3
  simp only [SrcAvl.rotateRight, Rs.expect, swapIntervalData, pure_bind, Res.pure_eq_ok, Res.ok_bind]
  upd_steps B
  simp only [mkN, hOf_some, hOf_none]

theorem rotateRight_none (n : Node) (hl : n.left = none) : SrcAvl.rotateRight n = panic := by
  obtain ⟨iv, v, mx, h, ll, r⟩ := n
  simp only at hl
  subst hl
  simp [SrcAvl.rotateRight, Rs.expect]

/-- **`rotate_left` as written in the source = the model's rotation**, on the abstract tree: when the three subtrees
carry stored heights in `[0, B]` (`B + 2 < 2^63`) the in-place rotation does not panic and yields exactly the tree the
mirror model builds by re-linking (same shape, same payload / `max` / `height` at every position); without a right child
it panics (`unwrap()` on `None`), where the model's `rotateLeftP` is `none` -/
theorem rotateLeft_eq_model (n : Node) (B : Int) (hB : B + 2 < 2 ^ 63) (h1 : HR B n.left)
    (h2 : ∀ r, n.right = some r → HR B r.left ∧ HR B r.right) :
    match rotateLeftP (toTree n) with
    | some t => ∃ n', SrcAvl.rotateLeft n = ok n' ∧ toTree n' = t ∧ t = Avl.rotateLeft (toTree n)
    | none => SrcAvl.rotateLeft n = panic := by
  cases hr : n.right with
  | none =>
    have : rotateLeftP (toTree n) = none := by rw [toTree_eq, hr]; simp [rotateLeftP]
    rw [this]
    exact rotateLeft_none n hr
  | some r =>
    obtain ⟨g2, g3⟩ := h2 r hr
    have e := rotateLeft_eq n r B hB hr h1 g2 g3
    have : rotateLeftP (toTree n) = some (Avl.rotateLeft (toTree n)) := by
      rw [toTree_eq n, hr, toTreeO_some, toTree_eq r]; simp [rotateLeftP, Avl.rotateLeft]
    rw [this]
    refine ⟨_, e, ?_, rfl⟩
    rw [toTree_mkN _ _ _ _ (by simp only [hOf_mkN]; have := h1.1; have := g2.1; omega) g3.1, toTreeO_some,
      toTree_mkN _ _ _ _ h1.1 g2.1, toTree_eq n, hr, toTreeO_some, toTree_eq r]
    simp [Avl.rotateLeft, entryOf]

theorem rotateRight_eq_model (n : Node) (B : Int) (hB : B + 2 < 2 ^ 63) (h3 : HR B n.right)
    (h2 : ∀ l, n.left = some l → HR B l.left ∧ HR B l.right) :
    match rotateRightP (toTree n) with
    | some t => ∃ n', SrcAvl.rotateRight n = ok n' ∧ toTree n' = t ∧ t = Avl.rotateRight (toTree n)
    | none => SrcAvl.rotateRight n = panic := by
  cases hl : n.left with
  | none =>
    have : rotateRightP (toTree n) = none := by rw [toTree_eq, hl]; simp [rotateRightP]
    rw [this]
    exact rotateRight_none n hl
  | some l =>
    obtain ⟨g1, g2⟩ := h2 l hl
    have e := rotateRight_eq n l B hB hl g1 g2 h3
    have : rotateRightP (toTree n) = some (Avl.rotateRight (toTree n)) := by
      rw [toTree_eq n, hl, toTreeO_some, toTree_eq l]; simp [rotateRightP, Avl.rotateRight]
    rw [this]
    refine ⟨_, e, ?_, rfl⟩
    rw [toTree_mkN _ _ _ _ g1.1 (by simp only [hOf_mkN]; have := h3.1; have := g2.1; omega), toTreeO_some,
      toTree_mkN _ _ _ _ g2.1 h3.1, toTree_eq n, hl, toTreeO_some, toTree_eq l]
    simp [Avl.rotateRight, entryOf]

end RbV.GenSrcAvl
