import RbV.Thm.GenSrcProbs
/-!
# C15 — **soft** module: the translated text equals the hand-written real-number model branch by branch

Built by `tools/gen_tables.py` after regenerating (`soft_modules`); a failure is a note ("use-site shape changed"), never a
broken obligation: a property-preserving rewrite (another switch point or the exact exponential in `ln_1m_exp`, an early
exit of `ln_add_exp` for operands more than 37 apart) makes these equalities false while the property-level theorems of
`GenSrcProbs.lean` are re-proved.  On the pinned text they hold, which is what lets `Thm/C15.lean` speak of one algorithm.
-/
set_option linter.unusedSimpArgs false
set_option linter.unusedVariables false
namespace RbV.Thm.GenSrcProbsModel
open RbV RbV.Rs RbV.C15 RbV.Gen.SrcProbs RbV.Thm.GenSrcProbs Real

theorem ln_add_exp_eq_model (E : ℝ → ℝ) (hE : PosOn E) (a b : LP) :
    ln_add_exp (xrOps E) (emb a) (emb b) = emb (lnAddExp E a b) := by
  cases a with
  | none => cases b <;> simp [ln_add_exp, ln_zero, lnAddExp]
  | some x =>
    cases b with
    | none => simp [ln_add_exp, ln_zero, lnAddExp]
    | some y =>
      rcases lt_or_ge x y with h | h
      · have hE1 : (-1 : ℝ) < E (x - y) := by have := hE (x - y) (by linarith); linarith
        simp [ln_add_exp, ln_zero, lnAddExp, h, ln1p_fin hE1, max_eq_right h.le, min_eq_left h.le]
      · have hE1 : (-1 : ℝ) < E (y - x) := by have := hE (y - x) (by linarith); linarith
        simp [ln_add_exp, ln_zero, lnAddExp, not_lt.mpr h, ln1p_fin hE1, max_eq_left h, min_eq_right h]

/-- both branches, with the switch literal of the text (`Gen.Scales.ln1mExpSwitch` extracts the same literal) -/
theorem ln_1m_exp_eq_model (E : ℝ → ℝ) (δ : ℝ) (h : ApproxExp E δ) (hδ : δ ≤ 1 / 2) (x : ℝ) (hx : x ≤ 0) :
    ln_1m_exp (xrOps E) (XR.fin x) = Res.ok (emb (ln1mExp E x)) := by
  have hsw : decR ⟨(-693), 3⟩ = -0.693 := by rw [decR_eq]; norm_num
  unfold ln1mExp
  by_cases hlt : x < -0.693
  · have h1 : E x < 1 := approx_lt_one h hδ (by linarith)
    simp [ln_1m_exp, Rs.assert, decR_zero, hx, hsw, hlt, ln1p_fin (show (-1 : ℝ) < -E x by linarith)]
  · rcases eq_or_lt_of_le hx with h0 | h0
    · subst h0; simp [ln_1m_exp, Rs.assert, decR_zero, hsw]; norm_num
    · have hpos : 0 < -(exp x - 1) := by have := exp_lt_exp.mpr h0; rw [exp_zero] at this; linarith
      have hpos' : 0 < 1 - exp x := by linarith
      simp [ln_1m_exp, Rs.assert, decR_zero, hx, hsw, hlt, h0.ne, ln_fin_pos hpos, ln_fin_pos hpos']

theorem ln_one_minus_exp_eq_model (E : ℝ → ℝ) (δ : ℝ) (h : ApproxExp E δ) (hδ : δ ≤ 1 / 2) (a : LP) (ha : lin a ≤ 1) :
    ln_one_minus_exp (xrOps E) (emb a) = Res.ok (emb (lnOneMinusExp E a)) := by
  cases a with
  | none => simp [ln_one_minus_exp, ln_1m_exp, Rs.assert, XR.le, XR.lt, lnOneMinusExp]
  | some x =>
    have hx : x ≤ 0 := by
      by_contra hc
      have : 1 < exp x := by have := exp_lt_exp.mpr (not_le.mp hc); rwa [exp_zero] at this
      simp only [lin] at ha; linarith
    simp [ln_one_minus_exp, lnOneMinusExp, ln_1m_exp_eq_model E δ h hδ x hx]

theorem ln_sub_exp_eq_model (E : ℝ → ℝ) (δ : ℝ) (h : ApproxExp E δ) (hδ : δ ≤ 1 / 2) (a b : LP) (hab : lin b ≤ lin a) :
    ln_sub_exp (xrOps E) (emb a) (emb b) = Res.ok (emb (lnSubExp E a b)) := by
  cases b with
  | none => cases a <;> simp [ln_sub_exp, ln_zero, lnSubExp]
  | some y =>
    cases a with
    | none => simp only [lin] at hab; exact absurd hab (not_le.mpr (exp_pos y))
    | some x =>
      have hyx : y ≤ x := exp_le_exp.mp hab
      have h1 := ln_one_minus_exp_eq_model E δ h hδ (some (y - x)) (by simp [lin]; linarith)
      simp only [emb_some, lnOneMinusExp] at h1
      by_cases he : x = y
      · subst he; simp [ln_sub_exp, ln_zero, lnSubExp, Rs.assert]
      · simp [ln_sub_exp, ln_zero, lnSubExp, Rs.assert, hyx, he, h1, add_fin_emb]

theorem iterScan_eq_model (E : ℝ → ℝ) (hE : PosOn E) : ∀ (ps : List LP) (s : LP),
    Rs.iterScan (scan_ln_add_exp (xrOps E)) (emb s) (ps.map emb) = (lnCumsumFrom E s ps).map emb
  | [], _ => rfl
  | p :: ps, s => by
    simp [Rs.iterScan, scan_ln_add_exp, ln_add_exp_eq_model E hE, lnCumsumFrom, iterScan_eq_model E hE ps]

theorem ln_cumsum_exp_eq_model (E : ℝ → ℝ) (hE : PosOn E) (l : List LP) :
    ln_cumsum_exp (xrOps E) (l.map emb) = (lnCumsumExp E l).map emb := by
  simpa [ln_cumsum_exp, ln_zero, lnCumsumExp] using iterScan_eq_model E hE l none

end RbV.Thm.GenSrcProbsModel
