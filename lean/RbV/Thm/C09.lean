import RbV.Ref.EditDist
import RbV.Lemmas.UkkonenEq
import RbV.Lemmas.EdTextbook
import RbV.Lemmas.MyersStep
import RbV.Lemmas.MyersBlock
import RbV.Lemmas.MyersLongAll
import RbV.Lemmas.MyersLongBand
import RbV.Thm.GenSrcHamming
import RbV.Thm.GenSrcUkkonen
import RbV.Thm.GenSrcMyersSimple
import RbV.Thm.GenSrcMyersLong
import RbV.Thm.GenSrcMyersLongStep
import RbV.Lemmas.HitsClamp
import RbV.Thm.GenSrcMyersLongNew
import RbV.Thm.GenSrcMyersLongMatches
import RbV.Thm.GenSrcMyersSimpleBest
/-!
# C09 — approximate matchers and distance functions equal the edit-distance definition

The oracle of the driver is `EditDist.hits w p t k` / `firstMin (lastRow w p t)` / `edFast` / `hamming`.
The theorems below say, for every cost function `w` (substitution/match cost; insertion and deletion cost 1),
every pattern, text and threshold:

* `ed` (the textbook recursion) is the minimum cost over *all* alignments (`ed_optimal`);
* entry `j` of the Sellers column `lastRow` is the minimum of `ed w p t[s..j+1]` over all start positions `s`
  (`col_spec`), so it is *the* value a matcher has to report for end position `j`;
* the expected `find_all_end` output lists exactly the pairs `(j, d)` with `d ≤ k` that minimum, in text order
  (`hits_spec`, `hits_ascending`); `distance`/`find_best_end` = the minimum over all end positions, first position
  on ties (`best_spec`);
* the DP evaluator used for `levenshtein` equals `ed` (`edFast_eq`); `hamming` is defined exactly for equal lengths.

Helper lemmas and proofs: `RbV/Ref/EditDist.lean`.
-/
namespace RbV.Thm.C09
open RbV.EditDist

-- `IsMinEdAt w p t j d` (RbV/Ref/EditDist.lean): `d ≤ ed w p t[s..j+1]` for every start `s ≤ j+1`, with equality for one.

/-- the recursion `ed` is the optimum over all alignments: no alignment is cheaper, and one attains it -/
theorem ed_optimal (w : Nat → Nat → Nat) (p s : List Nat) :
    (∀ ops v, wcost w p s ops = some v → ed w p s ≤ v) ∧ (∃ ops, wcost w p s ops = some (ed w p s)) :=
  ⟨fun ops v h => ed_le_wcost w ops p s v h, ed_attained w p s⟩

/-- base cases of the recursion: against the empty string the distance is the length -/
theorem ed_base (w : Nat → Nat → Nat) (p s : List Nat) : ed w p [] = p.length ∧ ed w [] s = s.length :=
  ⟨ed_nil_right w p, ed_nil_left w s⟩

/-- the three-way minimum that defines `ed` is the textbook recursion: a pair of equivalent symbols (cost 0) is
skipped, a non-equivalent pair costs 1 + the minimum over substitution, insertion, deletion -/
theorem ed_textbook (eqv : Nat → Nat → Bool) (a b : Nat) (p s : List Nat) :
    ed (unitW eqv) (a :: p) (b :: s) =
      if eqv a b then ed (unitW eqv) p s
      else 1 + min (ed (unitW eqv) p s) (min (ed (unitW eqv) p (b :: s)) (ed (unitW eqv) (a :: p) s)) := by
  by_cases h : eqv a b
  · simp only [h, if_true]; exact ed_match _ a b p s (by simp [unitW, h])
  · simp only [h]; exact ed_mismatch _ a b p s (by simp [unitW, h])

/-- a labelled alignment (Match only over equivalent symbols, Subst only over non-equivalent ones) with `v`
non-match operations bounds the unit-cost distance -/
theorem ed_le_labelled (eqv : Nat → Nat → Bool) (ops : List Op) (p s : List Nat) (v : Nat)
    (h : acost eqv p s ops = some v) : ed (unitW eqv) p s ≤ v :=
  ed_le_acost eqv ops p s v h

/-- the distance does not change when both strings are reversed -/
theorem ed_reverse_eq (w : Nat → Nat → Nat) (p s : List Nat) : ed w p.reverse s.reverse = ed w p s :=
  ed_reverse w p s

/-- the column has one entry per text position -/
theorem lastRow_len (w : Nat → Nat → Nat) (p t : List Nat) : (lastRow w p t).length = t.length :=
  lastRow_length w p t

/-- **Sellers**: entry `j` of the column is the minimum over all start positions -/
theorem col_spec (w : Nat → Nat → Nat) (p t : List Nat) (j d : Nat)
    (hd : (lastRow w p t)[j]? = some d) : IsMinEdAt w p t j d :=
  ⟨fun s hs => col_le w p t j d hd s hs, col_attained w p t j d hd⟩

/-- the minimum is unique, hence `col_spec` determines the column -/
theorem isMinEdAt_unique (w : Nat → Nat → Nat) (p t : List Nat) (j d d' : Nat)
    (h : IsMinEdAt w p t j d) (h' : IsMinEdAt w p t j d') : d = d' := by
  obtain ⟨s, hs, e⟩ := h.2
  obtain ⟨s', hs', e'⟩ := h'.2
  have a := h.1 s' hs'
  have b := h'.1 s hs
  omega

/-- expected `find_all_end(text, k)`: exactly the pairs (end position, d) with d ≤ k the minimum edit distance
between the pattern and any text substring ending there -/
theorem hits_spec (w : Nat → Nat → Nat) (p t : List Nat) (k j d : Nat) :
    (j, d) ∈ hits w p t k ↔ j < t.length ∧ d ≤ k ∧ IsMinEdAt w p t j d := by
  unfold hits
  rw [mem_hitsFrom]
  simp only [Nat.zero_le, Nat.sub_zero, true_and]
  constructor
  · rintro ⟨h1, h2⟩
    have hj : j < t.length := by
      have := lastRow_length w p t
      have := (List.getElem?_eq_some_iff.mp h1).1
      omega
    exact ⟨hj, h2, col_spec w p t j d h1⟩
  · rintro ⟨hj, hk, hmin⟩
    have hlt : j < (lastRow w p t).length := by rw [lastRow_length]; exact hj
    have hget : (lastRow w p t)[j]? = some ((lastRow w p t)[j]) := List.getElem?_eq_getElem hlt
    have := isMinEdAt_unique w p t j _ _ (col_spec w p t j _ hget) hmin
    rw [this] at hget
    exact ⟨hget, hk⟩

/-- … in text order -/
theorem hits_ascending (w : Nat → Nat → Nat) (p t : List Nat) (k : Nat) :
    (hits w p t k).Pairwise (fun a b => a.1 < b.1) :=
  hitsFrom_sorted k _ 0

/-- expected `find_best_end` = `(j, d)`, expected `distance` = `d`: `d` is the minimum edit distance at `j`, no end
position has a smaller one, and every earlier end position has a strictly larger one (first position on ties) -/
theorem best_spec (w : Nat → Nat → Nat) (p t : List Nat) (j d : Nat)
    (h : firstMin 0 (lastRow w p t) = some (j, d)) :
    j < t.length ∧ IsMinEdAt w p t j d ∧
    (∀ i x, IsMinEdAt w p t i x → i < t.length → d ≤ x) ∧
    (∀ i x, IsMinEdAt w p t i x → i < j → d < x) := by
  obtain ⟨_, h2, h3, h4⟩ := firstMin_spec _ 0 j d h
  simp only [Nat.sub_zero] at h2 h4
  have hj : j < t.length := by
    have := lastRow_length w p t
    have := (List.getElem?_eq_some_iff.mp h2).1
    omega
  refine ⟨hj, col_spec w p t j d h2, ?_, ?_⟩
  · intro i x hx hi
    have hlt : i < (lastRow w p t).length := by rw [lastRow_length]; exact hi
    have hget : (lastRow w p t)[i]? = some ((lastRow w p t)[i]) := List.getElem?_eq_getElem hlt
    have := isMinEdAt_unique w p t i _ _ (col_spec w p t i _ hget) hx
    rw [this] at hget
    exact h3 i x hget
  · intro i x hx hi
    have hlt : i < (lastRow w p t).length := by rw [lastRow_length]; omega
    have hget : (lastRow w p t)[i]? = some ((lastRow w p t)[i]) := List.getElem?_eq_getElem hlt
    have := isMinEdAt_unique w p t i _ _ (col_spec w p t i _ hget) hx
    rw [this] at hget
    exact h4 i x hget hi

/-- `firstMin` answers for every non-empty text -/
theorem best_exists (w : Nat → Nat → Nat) (p t : List Nat) (h : t ≠ []) :
    ∃ j d, firstMin 0 (lastRow w p t) = some (j, d) := by
  have hl := lastRow_length w p t
  cases hr : lastRow w p t with
  | nil => rw [hr] at hl; cases t <;> simp_all
  | cons x r =>
    simp only [firstMin]
    cases firstMin 1 r with
    | none => exact ⟨0, x, rfl⟩
    | some jd =>
      obtain ⟨j', d'⟩ := jd
      by_cases hle : x ≤ d'
      · exact ⟨0, x, by simp [hle]⟩
      · exact ⟨j', d', by simp [hle]⟩

/-- the dynamic programme used as the expected value of `levenshtein` / `simd::levenshtein` /
`bounded_levenshtein` equals the recursion -/
theorem edFast_correct (w : Nat → Nat → Nat) (p s : List Nat) : edFast w p s = ed w p s :=
  edFast_eq w p s

/-- the expected Hamming distance is defined exactly for strings of equal length -/
theorem hamming_defined_iff (a b : List Nat) : (hamming a b).isSome ↔ a.length = b.length := by
  induction a generalizing b with
  | nil => cases b <;> simp [hamming]
  | cons x a ih =>
    cases b with
    | nil => simp [hamming]
    | cons y b => simp [hamming, ih]

/-- … and counts the positions at which the strings differ -/
theorem hamming_count (a b : List Nat) (d : Nat) (h : hamming a b = some d) :
    d = ((a.zip b).filter (fun x => x.1 != x.2)).length := by
  induction a generalizing b d with
  | nil => cases b <;> simp_all [hamming]
  | cons x a ih =>
    cases b with
    | nil => simp [hamming] at h
    | cons y b =>
      simp only [hamming] at h
      cases h' : hamming a b with
      | none => simp [h'] at h
      | some u =>
        simp only [h', Option.map_some, Option.some.injEq] at h
        have := ih b u h'
        simp only [List.zip_cons_cons, List.filter_cons]
        by_cases hxy : x = y
        · simp only [hxy, if_true, bne_self_eq_false, Bool.false_eq_true, if_false] at h ⊢; omega
        · have hb : (x != y) = true := by simp [hxy]
          simp only [hxy, if_false, hb, if_true, List.length_cons] at h ⊢; omega

/-- **[B] Ukkonen**: the mirror model of `ukkonen.rs` (two alternating buffers, only cells `0..=lastk` of a column
are written, `lastk` grows by at most one per text symbol and is cut back while the cell exceeds `k`, a pair is
reported when `lastk = m`) reports exactly the expected pairs — for every cost function (insertion/deletion 1),
pattern, text and `k`.  The invariant (`Model.Ukkonen.Inv`): cells up to `lastk` are exact, the true values above
`lastk` exceed `k`, and anything a buffer still holds above `lastk` is at least `k`. -/
theorem ukkonen_eq (w : Nat → Nat → Nat) (p t : List Nat) (k : Nat) :
    RbV.Model.Ukkonen.findAllEnd w p t k = hits w p t k :=
  RbV.Model.Ukkonen.findAllEnd_eq_hits w p t k

/-- **[C] Myers' bit-vector step** (`Myers::_step`, single word of any width `w`): if `pv`/`mv` encode the vertical
differences of a Sellers column `C` (rows 0..m, `m ≤ w`) and `dist = C m`, then after the step — `xh` by the addition
trick `((eq & pv) + pv) ^ pv | eq` with wrap-around, `ph`/`mh`, the update of `dist` from bit `m-1`, the shifts and the
new `pv`/`mv` — they encode the next column `nextC C eq` and `dist` is its last entry. -/
theorem myers_step {w : Nat} (m : Nat) (hm1 : 1 ≤ m) (hm : m ≤ w) (C : Nat → Int) (eq : BitVec w)
    (s : RbV.Model.MyersSimple.St w) (enc : RbV.Model.MyersSimple.Enc m C s.pv s.mv) (hd : (s.dist : Int) = C m)
    (hnn : 0 ≤ RbV.Model.MyersSimple.nextC C eq.getLsbD m) :
    RbV.Model.MyersSimple.Enc m (RbV.Model.MyersSimple.nextC C eq.getLsbD)
      (RbV.Model.MyersSimple.step m eq s).pv (RbV.Model.MyersSimple.step m eq s).mv ∧
    ((RbV.Model.MyersSimple.step m eq s).dist : Int) = RbV.Model.MyersSimple.nextC C eq.getLsbD m :=
  RbV.Model.MyersSimple.step_enc m hm1 hm C eq s enc hd hnn

/-- **[C] Myers, single word, end to end**: for a pattern of 1 … w symbols the mirror model of
`Myers<T>::find_all_end` (w-bit words, `peq` masks built from the symbol equivalence, `State::init`, `_step` per text
symbol, report when `dist ≤ k`) returns exactly the expected pairs — every width, equivalence (ambiguity map,
wildcards), pattern, text and k.  (The block-based version `long::Myers` has no mirror model.) -/
theorem myers_simple_eq (w : Nat) (eqv : Nat → Nat → Bool) (p t : List Nat) (k : Nat)
    (hm1 : 1 ≤ p.length) (hw : p.length ≤ w) :
    RbV.Model.MyersSimple.findAllEnd w eqv p t k = hits (unitW eqv) p t k :=
  RbV.Model.MyersSimple.findAllEnd_eq_hits w eqv p t k hm1 hw

/-- **[C] block step** (`long.rs: advance_block`): if a block's `pv`/`mv` encode the vertical differences of the local
column `D` (rows `0..n` of the block, `n = bnd+1 ≤ w`), `dist = D n`, and `hin ∈ {−1,0,1}` is the horizontal difference
at the block's upper edge (`b0 − D 0`), then after `advance_block` (forcing `eq` bit 0 when `hin < 0`, the addition
trick, shifting `hin` into `ph`/`mh`) the block encodes the next column on its rows, `dist` is the new last entry and
the returned `hout` is the horizontal difference at the lower edge — i.e. exactly the carry the next block needs. -/
theorem myers_block_step {w : Nat} (bnd : Nat) (hn : bnd + 1 ≤ w) (D : Nat → Int) (eq : BitVec w)
    (s : RbV.Model.MyersSimple.St w) (b0 hin : Int) (hh : -1 ≤ hin ∧ hin ≤ 1) (hb : b0 - D 0 = hin)
    (enc : RbV.Model.MyersLong.EncB (bnd + 1) D s.pv s.mv) (hd : (s.dist : Int) = D (bnd + 1))
    (hnn : 0 ≤ RbV.Model.MyersLong.nextCB D eq.getLsbD b0 (bnd + 1)) :
    RbV.Model.MyersLong.EncB (bnd + 1) (RbV.Model.MyersLong.nextCB D eq.getLsbD b0)
      (RbV.Model.MyersLong.advanceBlock bnd eq hin s).1.pv (RbV.Model.MyersLong.advanceBlock bnd eq hin s).1.mv ∧
    ((RbV.Model.MyersLong.advanceBlock bnd eq hin s).1.dist : Int) =
      RbV.Model.MyersLong.nextCB D eq.getLsbD b0 (bnd + 1) ∧
    (RbV.Model.MyersLong.advanceBlock bnd eq hin s).2 =
      RbV.Model.MyersLong.nextCB D eq.getLsbD b0 (bnd + 1) - D (bnd + 1) :=
  RbV.Model.MyersLong.advanceBlock_enc bnd hn D eq s b0 hin hh hb enc hd hnn

/-- **[C] block-based Myers, all blocks active**: for `k ≥ |p|` `States::new` activates every block and
`States::step` never adds or drops one; the chain of `advance_block` calls with the carry handed from block to block
(`Model.MyersLong.advanceAll_enc`, built on `myers_block_step`) computes the next Sellers column on all rows.
(Superseded by `myers_long_eq`; kept because it isolates the carry chain from the band logic.) -/
theorem myers_long_allblocks (w : Nat) (eqv : Nat → Nat → Bool) (p t : List Nat) (k : Nat)
    (hw : 1 ≤ w) (hp : 1 ≤ p.length) (hk : p.length ≤ k) :
    RbV.Model.MyersLong.findAllEnd w eqv p t k = hits (unitW eqv) p t k :=
  RbV.Model.MyersLong.findAllEnd_eq_hits_allActive w eqv p t k hw hp hk

/-- **[C] block-based Myers, end to end**: the mirror model of `long::Myers<T>::find_all_end` — pattern cut into
blocks of `w` symbols (last block partial or full), `advance_block` with the carry between blocks, and the band logic
of `States::{new, add_state, step, known_dist}` (only `max(1, ⌈min(k,m)/w⌉)` blocks at the start; the next block is
switched on when `last_dist − carry ≤ k` and the next row matches or the carry is negative, initialised as the steepest
continuation; trailing blocks are switched off while their last row is `≥ k + w`; a distance is known only when all
blocks are computed) — returns exactly the expected pairs, for **every** word width, pattern length, equivalence
(ambiguity map, wildcards), text and `k`.
Invariant (`Model.MyersLong.Band`): the active blocks encode a pseudo-column `P` with `P ≥ C` (the true Sellers
column) on their rows and `P r = C r` wherever `C r ≤ k`; every row below the active blocks has `C r > k`. -/
theorem myers_long_eq (w : Nat) (eqv : Nat → Nat → Bool) (p t : List Nat) (k : Nat)
    (hw : 1 ≤ w) (hp : 1 ≤ p.length) :
    RbV.Model.MyersLong.findAllEnd w eqv p t k = hits (unitW eqv) p t k :=
  RbV.Model.MyersLong.findAllEnd_eq_hits w eqv p t k hw hp

-- non-vacuity: concrete instances
example : RbV.Model.MyersLong.findAllEnd 2 eqSym [1, 2, 1, 1, 3] [1, 2, 1, 3, 1, 1, 3, 2] 5 =
    hits (unitW eqSym) [1, 2, 1, 1, 3] [1, 2, 1, 3, 1, 1, 3, 2] 5 := by decide
example : RbV.Model.MyersSimple.findAllEnd 8 eqSym [1, 2, 1] [1, 2, 1, 3, 1, 1] 1 = [(1, 1), (2, 0), (3, 1), (4, 1), (5, 1)] := by decide
example : RbV.Model.Ukkonen.findAllEnd (unitW eqSym) [1, 2, 1] [1, 2, 1, 3, 1, 1] 1 = [(1, 1), (2, 0), (3, 1), (4, 1), (5, 1)] := by decide
example : ed (unitW eqSym) [1, 2, 3] [1, 3] = 1 := by rw [← edFast_eq]; decide
example : lastRow (unitW eqSym) [1, 2, 1] [1, 2, 1, 3, 1, 1] = [2, 1, 0, 1, 1, 1] := by decide
example : hits (unitW eqSym) [1, 2, 1] [1, 2, 1, 3, 1, 1] 0 = [(2, 0)] := by decide
example : (lastRow (unitW eqSym) [1, 2, 1] [1, 2, 1, 3])[2]? = some 0 := by decide
example : firstMin 0 (lastRow (unitW eqSym) [1, 2] [2, 1, 2, 1, 2]) = some (2, 0) := by decide
example : wcost (unitW eqSym) [1, 2, 3] [1, 3] [.diag, .ins, .diag] = some 1 := by decide
example : acost eqSym [1, 2, 3] [1, 3] [.mat, .ins, .mat] = some 1 := by decide
example : hamming [1, 2, 3] [1, 0, 0] = some 2 := by decide
example : edFast (unitW eqSym) [1, 2, 3, 4] [2, 3, 4, 4] = 2 := by decide

/-! ## Function bodies translated from the source text (genpm; docs/notes/GEN.md, "Translated function bodies")

`RbV/Gen/Src*.lean` are regenerated from the Rust text by `tools/rs2lean.py` on every `./check C09`; the theorems below are
re-proved against the regenerated definitions (proofs: `RbV/Thm/GenSrc*.lean`).  `Rs.Res.ok v` = the translated function
returns `v` without panicking and without running out of loop fuel. -/

/-- **`distance::hamming` of `alignment/distance.rs`, as written, is the reference `hamming`**: defined (no panic, the
`u64` counter never overflows) exactly for strings of equal length, where it returns the reference's value; for strings
of different length the `assert_eq!` panics, where the reference is `none`. -/
theorem hamming_source_eq_reference (a b : List Nat) (h64 : a.length < 2 ^ 64) :
    RbV.Gen.SrcHamming.hamming a b = match hamming a b with
      | some d => RbV.Rs.Res.ok d
      | none => RbV.Rs.Res.panic :=
  RbV.Thm.GenSrcHamming.hamming_eq_model a b h64

/-- generated code = specification: for strings of equal length the translated `hamming` returns, without panic, the number
of positions at which they differ -/
theorem hamming_source_counts (a b : List Nat) (h64 : a.length < 2 ^ 64) (hl : a.length = b.length) :
    RbV.Gen.SrcHamming.hamming a b = RbV.Rs.Res.ok ((a.zip b).filter (fun x => x.1 != x.2)).length := by
  have hs := (hamming_defined_iff a b).mpr hl
  obtain ⟨d, hd⟩ := Option.isSome_iff_exists.mp hs
  rw [hamming_source_eq_reference a b h64, hd, hamming_count a b d hd]

example : RbV.Gen.SrcHamming.hamming [1, 2, 3] [1, 0, 0] = RbV.Rs.Res.ok 2 := by decide
example : RbV.Gen.SrcHamming.hamming [1, 2, 3] [1, 0] = RbV.Rs.Res.panic := by decide

/-! ### Ukkonen's cut-off DP, translated from the source text (genukk)

`RbV/Gen/SrcUkkonen.lean` = `Ukkonen::find_all_end` + `ukkonen::Matches::next` of `pattern_matching/ukkonen.rs`, regenerated
on every `./check C09`.  The two DP columns `D: [Vec<usize>; 2]` are a list `D` of two lists, the cost closure is the
abstract function `cost` (a `u32`: `cost a b < 2^32`).  `findAllSrc cost D p t k` = `find_all_end(p, t, k)` on a matcher
object whose buffers currently hold `D`, then `next` until `None` (`Rs.drain`). -/

/-- **one call of `ukkonen::Matches::next`, as written, equals the mirror model**: on every state the model can be in
(`WF`: two columns of `m + 1` cells bounded by `B`, `B + 2^32 ≤ 2^64`; `Dof i s` = the two buffers with the current
column chosen by the parity of the text position `i`) the call does not panic and does not run out of loop fuel; it
returns `None` exactly when the text is exhausted and the model's `run` has no further pair, and otherwise `Some(v)` with
`v` the model's next pair, in a state that again represents the model's state (`StepSpec`). -/
theorem ukkonen_next_source_eq_model (cost : Nat → Nat → Nat) (hcost : ∀ a b, cost a b < 2 ^ 32) (p : List Nat)
    (k B : Nat) (hB : B + 2 ^ 32 ≤ 2 ^ 64) (hmB : p.length ≤ B) (rest : List Nat) (i : Nat) (s : RbV.Model.Ukkonen.St)
    (wf : RbV.Thm.GenSrcUkkonen.WF p.length B s) (h64 : i + rest.length < 2 ^ 64) :
    ∃ r' tx' o, RbV.Thm.GenSrcUkkonen.nextR cost p k (RbV.Thm.GenSrcUkkonen.Dof i s, s.lastk) (rest, i) = RbV.Rs.Res.ok (r', tx', o) ∧
      RbV.Thm.GenSrcScanD.StepSpec (RbV.Model.Ukkonen.step cost p k) (RbV.Thm.GenSrcUkkonen.WF p.length B)
        (fun i s => (RbV.Thm.GenSrcUkkonen.Dof i s, s.lastk)) rest i s r' tx' (o.map some) :=
  RbV.Thm.GenSrcUkkonen.next_eq_model cost hcost p k B hB hmB rest i s wf h64

/-- **`find_all_end` resets the matcher**: whatever the two buffers of the `Ukkonen` object held (any two lists — e.g. the
columns a previous search left behind), the translated `find_all_end` returns the buffers `[k'+1; m+1]`, `0..=m` and
`lastk = min(k', m)`: the initial state of the mirror model for the threshold `k'` it stores (`k` itself for the pinned
text; `min k m` is accepted too, see `ukkonen_source_exact`). -/
theorem ukkonen_find_all_end_source_resets (D : List (List Nat)) (hD : D.length = 2) (p t : List Nat) (k : Nat)
    (hk : k + 1 < 2 ^ 64) (hm : p.length + 1 < 2 ^ 64) :
    ∃ k', (k' = k ∨ k' = min k p.length) ∧
      RbV.Gen.SrcUkkonen.findAllEnd D p t k = RbV.Rs.Res.ok
        (RbV.Thm.GenSrcUkkonen.Dof 0 (RbV.Model.Ukkonen.init p.length k'),
          (p, (t, 0), (RbV.Model.Ukkonen.init p.length k').lastk, p.length, k')) :=
  RbV.Thm.GenSrcUkkonen.findAllEnd_init D hD p t k hk hm

/-- **Ukkonen, as written in the source, is exact — also on a reused matcher object**: for every `u32`-valued cost
function, every previous content `D` of the two column buffers, every pattern, text and threshold (`k`, `|p|` below
`2^64 − 2^32`, `|t| < 2^64`), `find_all_end(p, t, k)` followed by `next` until `None` never panics and yields exactly the
pairs `(end, d)`, `d ≤ k`, of the Sellers column (`hits_spec`).  No mirror model is left between the text and the
specification (`ukkonen_eq` is the proof device). -/
theorem ukkonen_source_exact (cost : Nat → Nat → Nat) (hcost : ∀ a b, cost a b < 2 ^ 32) (D : List (List Nat))
    (hD : D.length = 2) (p t : List Nat) (k : Nat) (hk : k + 2 ^ 32 < 2 ^ 64) (hm : p.length + 2 ^ 32 < 2 ^ 64)
    (h64 : t.length < 2 ^ 64) :
    RbV.Thm.GenSrcUkkonen.findAllSrc cost D p t k = RbV.Rs.Res.ok (hits cost p t k) := by
  obtain ⟨k', hk', h⟩ := RbV.Thm.GenSrcUkkonen.findAllSrc_eq_model cost hcost D hD p t k hk hm h64
  rw [h, ukkonen_eq]
  rcases hk' with rfl | rfl
  · rfl
  · rw [hits_clamp]

/-- the result does not depend on what an earlier search left in the matcher (history clause of the property) -/
theorem ukkonen_source_history_independent (cost : Nat → Nat → Nat) (hcost : ∀ a b, cost a b < 2 ^ 32)
    (D D' : List (List Nat)) (hD : D.length = 2) (hD' : D'.length = 2) (p t : List Nat) (k : Nat)
    (hk : k + 2 ^ 32 < 2 ^ 64) (hm : p.length + 2 ^ 32 < 2 ^ 64) (h64 : t.length < 2 ^ 64) :
    RbV.Thm.GenSrcUkkonen.findAllSrc cost D p t k = RbV.Thm.GenSrcUkkonen.findAllSrc cost D' p t k := by
  rw [ukkonen_source_exact cost hcost D hD p t k hk hm h64, ukkonen_source_exact cost hcost D' hD' p t k hk hm h64]

-- non-vacuity: the translated code, run on a fresh object and on one whose buffers hold small stale values (the state
-- seeded defects C09-1 / C09-6 fail on: pattern AACCAAA, k = 1, after a search in CAACC the text CACAAAA has no hit)
example : RbV.Thm.GenSrcUkkonen.findAllSrc (unitW eqSym) [[], []] [1, 2, 1] [1, 2, 1, 3, 1, 1] 1
    = RbV.Rs.Res.ok [(1, 1), (2, 0), (3, 1), (4, 1), (5, 1)] := by decide
example : RbV.Thm.GenSrcUkkonen.findAllSrc (unitW eqSym) [[0, 1, 1, 1, 2, 3, 4, 5], [0, 0, 1, 2, 1, 2, 3, 4]]
    [1, 1, 2, 2, 1, 1, 1] [2, 1, 2, 1, 1, 1, 1] 1 = RbV.Rs.Res.ok [] := by decide
example : hits (unitW eqSym) [1, 1, 2, 2, 1, 1, 1] [2, 1, 2, 1, 1, 1, 1] 1 = [] := by decide

/-! ### The single-word Myers matcher, translated from the source text (genukk)

`RbV/Gen/SrcMyersState.lean`, `SrcMyersSimple.lean`, `SrcMyersMatches.lean` = `State::init`, `State::known_dist`,
`Myers::_step`, `Myers::step`, `Myers::initial_state`, `Matches::new`, `Matches::next` of `pattern_matching/myers/{myers_impl,
simple}.rs`, regenerated on every `./check C09`.  The generic word type `T: BitVec` is a `Nat` below `2^w` with the width `w` a
parameter of every generated function, `T::DistType` a `Nat` below `2^wd`; a model state `s : St w` (`BitVec w`) is represented
by `(s.pv.toNat, s.mv.toNat, s.dist)`.  Not translated: the constructor `new_ambig` (`HashMap`, closures) — that it stores
`peq[a]` = the model's mask of symbol `a`, `bound = 1 << (m-1)` and `m` is read off by the mirror model and sampled. -/

/-- **`Myers::_step`, as written, is the model's bit-vector step — for every word width** `w ≥ 2` (in particular `u8`, `u16`,
`u32`, `u64`, `u128`) and `DistType` width `wd`: when `peq[a]` holds the word `eq` and `bound = 1 << (m-1)`, the translated
function maps the representation of a state `s` to that of `MyersSimple.step m eq s` without panicking, on every state
where the `dist` update (through `as i8`, sign extension to `usize`, `wrapping_add`, `from_usize(..).unwrap()`) neither
goes below zero nor leaves `DistType` (side conditions `hlo`, `hwd`; they hold on every state a search reaches, see
`myers_find_all_end_source_exact`). -/
theorem myers_step_source_eq_model (w wd m : Nat) (hw : 1 < w) (peqT : List Nat) (a : Nat) (eq : BitVec w)
    (s : RbV.Model.MyersSimple.St w) (hpeq : RbV.Rs.idx peqT a = RbV.Rs.Res.ok eq.toNat)
    (hlo : ((s.pv &&& RbV.Model.MyersSimple.xhOf eq s.pv).getLsbD (m - 1)).toNat ≤
      s.dist + ((s.mv ||| ~~~(RbV.Model.MyersSimple.xhOf eq s.pv ||| s.pv)).getLsbD (m - 1)).toNat)
    (hhi : s.dist + 1 < 2 ^ 64) (hwd : (RbV.Model.MyersSimple.step m eq s).dist < 2 ^ wd) :
    RbV.Gen.SrcMyersSimple.step_ (w := w) (wd := wd) (peq := peqT) (bound := 2 ^ (m - 1)) (pv := s.pv.toNat)
        (mv := s.mv.toNat) (dist := s.dist) (a := a) =
      RbV.Rs.Res.ok ((RbV.Model.MyersSimple.step m eq s).pv.toNat, (RbV.Model.MyersSimple.step m eq s).mv.toNat,
        (RbV.Model.MyersSimple.step m eq s).dist) :=
  RbV.Thm.GenSrcMyersSimple.step__eq_model w wd m hw peqT a eq s hpeq hlo hhi hwd

/-- the four word types rust-bio instantiates (`impl_bitvec!(u8|u16|u32|u64, u8)`): one statement for all of them -/
theorem myers_step_source_eq_model_std_widths (w : Nat) (hw : w = 8 ∨ w = 16 ∨ w = 32 ∨ w = 64) (m : Nat) (peqT : List Nat)
    (a : Nat) (eq : BitVec w) (s : RbV.Model.MyersSimple.St w) (hpeq : RbV.Rs.idx peqT a = RbV.Rs.Res.ok eq.toNat)
    (hlo : ((s.pv &&& RbV.Model.MyersSimple.xhOf eq s.pv).getLsbD (m - 1)).toNat ≤
      s.dist + ((s.mv ||| ~~~(RbV.Model.MyersSimple.xhOf eq s.pv ||| s.pv)).getLsbD (m - 1)).toNat)
    (hwd : (RbV.Model.MyersSimple.step m eq s).dist < 2 ^ 8) (hd : s.dist < 2 ^ 8) :
    RbV.Gen.SrcMyersSimple.step_ (w := w) (wd := 8) (peq := peqT) (bound := 2 ^ (m - 1)) (pv := s.pv.toNat)
        (mv := s.mv.toNat) (dist := s.dist) (a := a) =
      RbV.Rs.Res.ok ((RbV.Model.MyersSimple.step m eq s).pv.toNat, (RbV.Model.MyersSimple.step m eq s).mv.toNat,
        (RbV.Model.MyersSimple.step m eq s).dist) :=
  myers_step_source_eq_model w 8 m (by omega) peqT a eq s hpeq hlo (by omega) hwd

/-- **one call of `myers::Matches::next`, as written, equals the mirror model**: on every state a search can reach
(`InvS`: the state after some text prefix) the call does not panic; `None` exactly when the text is exhausted and the
model's `run` has no further pair, otherwise `Some((i, d))` = the model's next pair (`StepSpec`). -/
theorem myers_next_source_eq_model (w wd : Nat) (eqv : Nat → Nat → Bool) (p : List Nat) (k : Nat) (hw1 : 1 < w)
    (hm1 : 1 ≤ p.length) (hw : p.length ≤ w) (hwd : p.length < 2 ^ wd) (h64p : p.length + 1 < 2 ^ 64) (rest : List Nat)
    (i : Nat) (s : RbV.Model.MyersSimple.St w) (inv : RbV.Thm.GenSrcMyersMatches.InvS w eqv p s)
    (hb : ∀ c ∈ rest, c < 256) (h64 : i + rest.length < 2 ^ 64) :
    ∃ r' tx' o, RbV.Thm.GenSrcMyersMatches.nextR w wd eqv p k (RbV.Thm.GenSrcMyersSimple.rep s) (rest, i) = RbV.Rs.Res.ok (r', tx', o) ∧
      RbV.Thm.GenSrcScanD.StepSpec (RbV.Thm.GenSrcMyersMatches.stepO w eqv p k) (RbV.Thm.GenSrcMyersMatches.InvS w eqv p)
        (fun _ s => RbV.Thm.GenSrcMyersSimple.rep s) rest i s r' tx' (o.map some) :=
  RbV.Thm.GenSrcMyersMatches.next_eq_model w wd eqv p k hw1 hm1 hw hwd h64p rest i s inv hb h64

/-- **the single-word Myers search, as written in the source, is exact**: `Matches::new` (what `find_all_end` calls) then
`next` until `None`, run on the tables the constructor stores for the pattern (`peqTab`, `bound = 1 << (m-1)`, `m`), never
panics and yields exactly the pairs `(end, d)`, `d ≤ k`, of the Sellers column — for every word width `w ≥ 2`, `DistType`
width with `|p| < 2^wd`, pattern of `1..w` symbols, symbol equivalence (ambiguity map, wildcards), byte text and `k`. -/
theorem myers_find_all_end_source_exact (w wd : Nat) (eqv : Nat → Nat → Bool) (p t : List Nat) (k : Nat) (hw1 : 1 < w)
    (hm1 : 1 ≤ p.length) (hw : p.length ≤ w) (hwd : p.length < 2 ^ wd) (h64p : p.length + 1 < 2 ^ 64)
    (hb : ∀ c ∈ t, c < 256) (h64 : t.length < 2 ^ 64) :
    RbV.Thm.GenSrcMyersMatches.findAllSrc w wd (RbV.Thm.GenSrcMyersSimple.peqTab w eqv p) (2 ^ (p.length - 1)) p.length t k
      = RbV.Rs.Res.ok (hits (unitW eqv) p t k) := by
  rw [RbV.Thm.GenSrcMyersMatches.findAllSrc_eq_model w wd eqv p t k hw1 hm1 hw hwd h64p hb h64, myers_simple_eq w eqv p t k hm1 hw]

-- non-vacuity: the translated `_step` on a `u8` state (pattern of 3 symbols, bound = 0b100), and a whole search
example : RbV.Gen.SrcMyersSimple.step_ (w := 8) (wd := 8) (peq := [0, 0b101, 0b010, 0]) (bound := 0b100) (pv := 255) (mv := 0)
    (dist := 3) (a := 1) = RbV.Rs.Res.ok (254, 0, 2) := by decide
example : RbV.Gen.SrcMyersSimple.step_ (w := 8) (wd := 8) (peq := [0, 0b101, 0b010, 0]) (bound := 0b100) (pv := 255) (mv := 0)
    (dist := 3) (a := 3) = RbV.Rs.Res.ok (255, 0, 3) := by decide
-- outside the side condition `hlo` (a state no search reaches: `dist = 0` with a decreasing last row) the Rust code panics
example : RbV.Gen.SrcMyersSimple.step_ (w := 8) (wd := 8) (peq := [0, 0b101, 0b010, 0]) (bound := 0b100) (pv := 255) (mv := 0)
    (dist := 0) (a := 1) = RbV.Rs.Res.panic := by decide
example : RbV.Thm.GenSrcMyersMatches.findAllSrc 8 8 [0, 0b101, 0b010, 0] 0b100 3 [1, 2, 1, 3, 1, 1] 1
    = RbV.Rs.Res.ok [(1, 1), (2, 0), (3, 1), (4, 1), (5, 1)] := by decide
example : RbV.Thm.GenSrcMyersMatches.findAllSrc 16 8 [0, 0b101, 0b010, 0] 0b100 3 [1, 2, 1, 3, 1, 1] 1
    = RbV.Rs.Res.ok (hits (unitW eqSym) [1, 2, 1] [1, 2, 1, 3, 1, 1] 1) := by decide

/-! ### The block step of the block-based Myers matcher, translated from the source text (genukk)

`RbV/Gen/SrcMyersLong.lean` = `advance_block`, `States::add_state`, `States::step` of `pattern_matching/myers/long.rs`
(`States::new`, `known_dist`, the constructor `new_ambig` and the glue `Myers::step` / `initial_state` are not translated: they
stay tied by the mirror model `Model/MyersLong.lean`, `myers_long_eq`, and the correspondence run). -/

/-- **`advance_block`, as written, is the model's block step — for every word width** `w ≥ 2`: when `p.peq[a]` holds the
word `eq` and `p.bound = 1 << bnd`, the translated function maps the representation `(pv, mv, dist)` of a block `s` and the
`i8` pattern of the incoming horizontal difference `hin ∈ {−1, 0, 1}` to the representation of
`MyersLong.advanceBlock bnd eq hin s` and the `i8` pattern of the outgoing difference, without panicking — on every block
where `dist.wrapping_add(hout as usize)` does not wrap (`hlo`; by `myers_block_step` this holds whenever the block
encodes a column with non-negative entries). -/
theorem myers_long_advance_block_source_eq_model (w bnd : Nat) (hw : 1 < w) (peqT : List Nat) (a : Nat) (eq : BitVec w)
    (s : RbV.Model.MyersSimple.St w) (hin : Int) (hh : -1 ≤ hin ∧ hin ≤ 1)
    (hpeq : RbV.Rs.idx peqT a = RbV.Rs.Res.ok eq.toNat)
    (hlo : ((s.pv &&& RbV.Model.MyersSimple.xhOf (if hin < 0 then eq ||| 1#w else eq) s.pv).getLsbD bnd).toNat ≤
      s.dist + ((s.mv ||| ~~~(RbV.Model.MyersSimple.xhOf (if hin < 0 then eq ||| 1#w else eq) s.pv ||| s.pv)).getLsbD bnd).toNat)
    (hhi : s.dist + 1 < 2 ^ 64) :
    RbV.Gen.SrcMyersLong.advanceBlock (w := w) (pv := s.pv.toNat) (mv := s.mv.toNat) (dist := s.dist) (peq := peqT)
        (bound := 2 ^ bnd) (a := a) (hin := RbV.Rs.ofInt 8 hin) =
      RbV.Rs.Res.ok ((RbV.Model.MyersLong.advanceBlock bnd eq hin s).1.pv.toNat,
        (RbV.Model.MyersLong.advanceBlock bnd eq hin s).1.mv.toNat, (RbV.Model.MyersLong.advanceBlock bnd eq hin s).1.dist,
        RbV.Rs.ofInt 8 (RbV.Model.MyersLong.advanceBlock bnd eq hin s).2) :=
  RbV.Thm.GenSrcMyersLong.advanceBlock_eq_model w bnd hw peqT a eq s hin hh hpeq hlo hhi

-- non-vacuity: a `u8` block of 3 rows (bound = 0b100), incoming difference −1 (255) resp. +1
example : RbV.Gen.SrcMyersLong.advanceBlock (w := 8) (pv := 255) (mv := 0) (dist := 3) (peq := [0, 0b101, 0b010, 0])
    (bound := 0b100) (a := 2) (hin := 255) = RbV.Rs.Res.ok (255, 0, 2, 255) := by decide
example : RbV.Gen.SrcMyersLong.advanceBlock (w := 8) (pv := 255) (mv := 0) (dist := 3) (peq := [0, 0b101, 0b010, 0])
    (bound := 0b100) (a := 3) (hin := 1) = RbV.Rs.Res.ok (254, 0, 3, 0) := by decide

/-- **`States::add_state(offset)`, as written**: appends `State::init(prev_dist + delta + offset)` to the active blocks, where
`prev_dist` is the distance of the last active block (0 for none) and `delta` the number of pattern rows of the new block
(`last_m` for a partial last block, else the word size); `offset ∈ {−1, 0, 1}` as an `i8` pattern; no wrap-around when the
sum is a non-negative `usize`. -/
theorem myers_long_add_state_source_eq_model (w : Nat) (L : List (RbV.Model.MyersSimple.St w)) (mb lm : Nat) (o : Int)
    (ho : -1 ≤ o ∧ o ≤ 1)
    (hnn : 0 ≤ (RbV.Thm.GenSrcMyersLongStep.lastDist L : Int) + (if L.length = mb ∧ lm > 0 then lm else w : Nat) + o)
    (hlt : RbV.Thm.GenSrcMyersLongStep.lastDist L + (if L.length = mb ∧ lm > 0 then lm else w) + 1 < 2 ^ 64) :
    RbV.Gen.SrcMyersLong.addState (w := w) (states := RbV.Thm.GenSrcMyersLongStep.repS L) (max_block := mb) (last_m := lm)
        (offset := RbV.Rs.ofInt 8 o) =
      RbV.Rs.Res.ok (RbV.Thm.GenSrcMyersLongStep.repS (L ++ [⟨BitVec.allOnes w, 0#w,
        ((RbV.Thm.GenSrcMyersLongStep.lastDist L : Int) + (if L.length = mb ∧ lm > 0 then lm else w : Nat) + o).toNat⟩])) :=
  RbV.Thm.GenSrcMyersLongStep.addState_eq_model w L mb lm o ho hnn hlt

/-- **`States::step`, as written, is the model's `stepStates` — for every word width**: the carry chain
`for (state, block_peq) in self.states.iter_mut().zip(peq) { carry = advance_block(..) }` (= `advanceAll`), the lazy
activation test `(last_dist as isize - carry as isize) as usize <= max_dist && last_block < self.max_block &&
(peq[last_block + 1].peq[a] & 1 == 1 || carry < 0)` with `add_state(-carry)` + `advance_block` on the new block, and
otherwise the deactivation loop `while last_block > 0 && states[last_block].dist >= max_dist.saturating_add(w)` +
`truncate` (= `cutRev`).  `repS` / `peqL` are the active blocks and the per-block tables as the code holds them.
The hypotheses are side conditions, not restrictions of the algorithm: no `dist` update wraps (`ChainOk`, `hfresh`), the
distances stay below `2^63` so that the `isize` round trip of the activation test is exact (`hd`), the value
`last_dist − carry` of the previous column is not negative (`hnn`), and the blocks have the lengths `States::new` assumes
(`hblk`, `hlm`).  They are derived from the `Band` invariant behind `myers_long_eq` in
`myers_long_step_side_conditions_from_band` below (genlong), which gives the end-to-end `myers_long_find_all_end_source_exact`. -/
theorem myers_long_step_source_eq_model (w : Nat) (eqv : Nat → Nat → Bool) (blks : List (List Nat)) (k a lm : Nat)
    (sts : List (RbV.Model.MyersSimple.St w)) (hw : 1 < w) (hwlt : w < 2 ^ 62) (hlm : lm ≤ w) (ha : a < 256) (hne : sts ≠ [])
    (hlen : sts.length ≤ blks.length) (hbl : blks.length < 2 ^ 63)
    (hblk : ∀ i blk, blks[i]? = some blk → blk.length = (if i = blks.length - 1 ∧ lm > 0 then lm else w))
    (hchain : RbV.Thm.GenSrcMyersLongStep.ChainOk eqv a blks sts 0)
    (hd : ∀ s ∈ (RbV.Model.MyersLong.advanceAll eqv a blks sts 0).1, s.dist + 1 < 2 ^ 63)
    (hnn : 0 ≤ (RbV.Thm.GenSrcMyersLongStep.lastDist (RbV.Model.MyersLong.advanceAll eqv a blks sts 0).1 : Int) -
      (RbV.Model.MyersLong.advanceAll eqv a blks sts 0).2)
    (hfresh : ∀ blk, blks[sts.length]? = some blk →
      RbV.Thm.GenSrcMyersLongStep.BlockOk eqv a blk
        (RbV.Thm.GenSrcMyersLongStep.freshBlock w (RbV.Model.MyersLong.advanceAll eqv a blks sts 0).1 blk.length
          (RbV.Model.MyersLong.advanceAll eqv a blks sts 0).2)
        (RbV.Model.MyersLong.advanceAll eqv a blks sts 0).2) :
    RbV.Gen.SrcMyersLong.step (w := w) (states := RbV.Thm.GenSrcMyersLongStep.repS sts) (max_block := blks.length - 1)
        (last_m := lm) (a := a) (peq := RbV.Thm.GenSrcMyersLongStep.peqL w eqv blks) (max_dist := k) =
      RbV.Rs.Res.ok (RbV.Thm.GenSrcMyersLongStep.repS (RbV.Model.MyersLong.stepStates eqv blks k a sts)) :=
  RbV.Thm.GenSrcMyersLongStep.step_eq_model w eqv blks k a lm sts hw hwlt hlm ha hne hlen hbl hblk hchain hd hnn hfresh

-- non-vacuity: pattern 1 2 3 4 5 6 in blocks of 4 bits, k = 1.  After the text 1 2 3 one block is active
-- (`pv = 9, mv = 4, dist = 1`); the symbol 4 switches the second block on (all hypotheses checked on this input):
example : RbV.Gen.SrcMyersLong.step (w := 4) (states := [(9, 4, 1)]) (max_block := 1) (last_m := 2) (a := 4)
    (peq := RbV.Thm.GenSrcMyersLongStep.peqL 4 eqSym [[1, 2, 3, 4], [5, 6]]) (max_dist := 1) =
    RbV.Rs.Res.ok [(3, 12, 0), (15, 0, 2)] := by
  have h := myers_long_step_source_eq_model 4 eqSym [[1, 2, 3, 4], [5, 6]] 1 4 2 [⟨9#4, 4#4, 1⟩] (by decide) (by decide)
    (by decide) (by decide) (by decide) (by decide) (by decide)
    (by intro i blk h; rcases i with _ | _ | i <;> simp at h <;> subst h <;> rfl)
    (by simp only [RbV.Thm.GenSrcMyersLongStep.ChainOk, RbV.Thm.GenSrcMyersLongStep.BlockOk]; decide)
    (by decide) (by decide)
    (by intro blk h; simp at h; subst h; simp only [RbV.Thm.GenSrcMyersLongStep.BlockOk]; decide)
  rw [show RbV.Thm.GenSrcMyersLongStep.repS [(⟨9#4, 4#4, 1⟩ : RbV.Model.MyersSimple.St 4)] = [(9, 4, 1)] from by decide] at h
  exact h.trans (by decide)
-- … and the deactivation: two active blocks, the last row reaches k + w = 5, the second block is switched off
example : RbV.Gen.SrcMyersLong.step (w := 4) (states := [(15, 0, 4), (0, 0, 4)]) (max_block := 1) (last_m := 2) (a := 9)
    (peq := RbV.Thm.GenSrcMyersLongStep.peqL 4 eqSym [[1, 2, 3, 4], [5, 6]]) (max_dist := 1) =
    RbV.Rs.Res.ok [(15, 0, 4)] := by decide

/-! ### The block-based Myers matcher end to end on the translated source text (genlong)

`RbV/Gen/SrcMyersHelpers.lean` (`ceil_div`), `RbV/Gen/SrcMyersLongNew.lean` (`States::new`, `States::known_dist`, the glue
`long::Myers::step` / `initial_state`) and `RbV/Gen/SrcMyersLongMatches.lean` (`Matches::new`, `Matches::next`, `distance`,
`find_all_end`, `find_best_end` of the macro `impl_myers!`, read at the instance of long.rs) are regenerated by
`tools/rs2lean_genlong.py` on every `./check C09`.  Proofs: `Thm/GenSrcMyersLongNew.lean`, `Thm/GenSrcMyersLongMatches.lean`,
`Lemmas/MyersBest.lean`. -/

/-- **`States::new(m, max_dist)`, as written**: `max(1, ⌈min(max_dist, m) / w⌉)` blocks `State::init(rows covered so far)` —
the model's `initStates` —, `max_block = ⌈m/w⌉ − 1`, `last_m = m % w`; no panic (`ceil_div`, `- 1`, `%`, `add_state(0)`). -/
theorem myers_long_new_source_eq_model (w : Nat) (p : List Nat) (k : Nat) (hw : 2 ≤ w) (hp : 1 ≤ p.length)
    (h64 : p.length + w + 1 < 2 ^ 64) :
    RbV.Gen.SrcMyersLongNew.new (w := w) (m := p.length) (max_dist := k) =
      RbV.Rs.Res.ok (RbV.Thm.GenSrcMyersLongStep.repS
        (RbV.Model.MyersLong.initStates w (RbV.Model.MyersLong.blocksOf w p) p.length k),
        (RbV.Model.MyersLong.blocksOf w p).length - 1, p.length % w) :=
  RbV.Thm.GenSrcMyersLongNew.new_eq_model w p k hw hp h64

/-- the blocks of the model are laid out as `States::new` / `add_state` assume -/
theorem myers_long_blocks_shape (w : Nat) (hw : 2 ≤ w) (p : List Nat) (hp : 1 ≤ p.length) :
    (RbV.Model.MyersLong.blocksOf w p).length = (p.length + w - 1) / w ∧ 1 ≤ (RbV.Model.MyersLong.blocksOf w p).length ∧
    (RbV.Model.MyersLong.blocksOf w p).length ≤ p.length ∧
    (∀ i blk, (RbV.Model.MyersLong.blocksOf w p)[i]? = some blk →
      blk.length = (if i = (RbV.Model.MyersLong.blocksOf w p).length - 1 ∧ p.length % w > 0 then p.length % w else w)) :=
  RbV.Thm.GenSrcMyersLongNew.blocks_shape w hw p hp

/-- **`States::known_dist()`, as written** = the model's `knownDist` -/
theorem myers_long_known_dist_source_eq_model (w nb : Nat) (sts : List (RbV.Model.MyersSimple.St w)) (hnb : 1 ≤ nb)
    (hlen : sts.length ≤ nb) :
    RbV.Gen.SrcMyersLongNew.knownDist (w := w) (states := RbV.Thm.GenSrcMyersLongStep.repS sts) (max_block := nb - 1) =
      RbV.Rs.Res.ok (RbV.Model.MyersLong.knownDist nb sts) :=
  RbV.Thm.GenSrcMyersLongNew.knownDist_eq_model w nb sts hnb hlen

/-- **every side condition of `myers_long_step_source_eq_model` follows from the band invariant**: in a state `sts` with
`Band … P u sts` (the state of a search after the text prefix `u`, `myers_long_eq`) no `dist` update of the carry chain or of
the freshly activated block wraps, all distances stay below `2^63`, `last_dist − carry ≥ 0`. -/
theorem myers_long_step_side_conditions_from_band {w : Nat} (eqv : Nat → Nat → Bool) (p : List Nat) (k : Nat) (hw : 2 ≤ w)
    (hp : 1 ≤ p.length) (h63 : p.length + w + 2 < 2 ^ 63) (P : Nat → Int) (u : List Nat)
    (sts : List (RbV.Model.MyersSimple.St w)) (a : Nat)
    (b : RbV.Model.MyersLong.Band eqv p k (RbV.Model.MyersLong.blocksOf w p) P u sts) :
    sts ≠ [] ∧ sts.length ≤ (RbV.Model.MyersLong.blocksOf w p).length ∧ (RbV.Model.MyersLong.blocksOf w p).length < 2 ^ 63 ∧
    RbV.Thm.GenSrcMyersLongStep.ChainOk eqv a (RbV.Model.MyersLong.blocksOf w p) sts 0 ∧
    (∀ s ∈ (RbV.Model.MyersLong.advanceAll eqv a (RbV.Model.MyersLong.blocksOf w p) sts 0).1, s.dist + 1 < 2 ^ 63) ∧
    0 ≤ (RbV.Thm.GenSrcMyersLongStep.lastDist (RbV.Model.MyersLong.advanceAll eqv a (RbV.Model.MyersLong.blocksOf w p) sts 0).1 : Int) -
      (RbV.Model.MyersLong.advanceAll eqv a (RbV.Model.MyersLong.blocksOf w p) sts 0).2 ∧
    (∀ blk, (RbV.Model.MyersLong.blocksOf w p)[sts.length]? = some blk →
      RbV.Thm.GenSrcMyersLongStep.BlockOk eqv a blk
        (RbV.Thm.GenSrcMyersLongStep.freshBlock w (RbV.Model.MyersLong.advanceAll eqv a (RbV.Model.MyersLong.blocksOf w p) sts 0).1
          blk.length (RbV.Model.MyersLong.advanceAll eqv a (RbV.Model.MyersLong.blocksOf w p) sts 0).2)
        (RbV.Model.MyersLong.advanceAll eqv a (RbV.Model.MyersLong.blocksOf w p) sts 0).2) :=
  RbV.Thm.GenSrcMyersLongNew.side_conditions eqv p k hw hp h63 P u sts a b

/-- **the translated `long::Myers::step` (glue → `States::step`) on every state of a search** = `stepStates` -/
theorem myers_long_step_source_on_band {w : Nat} (eqv : Nat → Nat → Bool) (p : List Nat) (k : Nat) (hw : 2 ≤ w)
    (hw62 : w < 2 ^ 62) (hp : 1 ≤ p.length) (h63 : p.length + w + 2 < 2 ^ 63) (P : Nat → Int) (u : List Nat)
    (sts : List (RbV.Model.MyersSimple.St w)) (a : Nat) (ha : a < 256)
    (b : RbV.Model.MyersLong.Band eqv p k (RbV.Model.MyersLong.blocksOf w p) P u sts) :
    RbV.Gen.SrcMyersLongNew.step (w := w) (peq := RbV.Thm.GenSrcMyersLongStep.peqL w eqv (RbV.Model.MyersLong.blocksOf w p))
        (states := RbV.Thm.GenSrcMyersLongStep.repS sts) (max_block := (RbV.Model.MyersLong.blocksOf w p).length - 1)
        (last_m := p.length % w) (a := a) (max_dist := k) =
      RbV.Rs.Res.ok (RbV.Thm.GenSrcMyersLongStep.repS (RbV.Model.MyersLong.stepStates eqv (RbV.Model.MyersLong.blocksOf w p) k a sts),
        (RbV.Model.MyersLong.blocksOf w p).length - 1, p.length % w) :=
  RbV.Thm.GenSrcMyersLongNew.step_band eqv p k hw hw62 hp h63 P u sts a ha b

/-- **one call of `Matches::next` of the block-based matcher, as written**, on any state a search reaches (`InvL`: the band
invariant): no panic; `None` exactly when the text is exhausted and the model lists no further pair, else the model's next pair. -/
theorem myers_long_next_source_eq_model (w : Nat) (eqv : Nat → Nat → Bool) (p : List Nat) (k : Nat) (hw : 2 ≤ w)
    (hw62 : w < 2 ^ 62) (hp : 1 ≤ p.length) (h63 : p.length + w + 2 < 2 ^ 63) (rest : List Nat) (i : Nat)
    (s : List (RbV.Model.MyersSimple.St w)) (inv : RbV.Thm.GenSrcMyersLongMatches.InvL w eqv p k s)
    (hb : ∀ c ∈ rest, c < 256) (h64 : i + rest.length < 2 ^ 64) :
    ∃ r' tx' o, RbV.Thm.GenSrcMyersLongMatches.nextR w eqv p k (RbV.Thm.GenSrcMyersLongMatches.repL w p s) (rest, i) =
        RbV.Rs.Res.ok (r', tx', o) ∧
      RbV.Thm.GenSrcScanD.StepSpec (RbV.Thm.GenSrcMyersLongMatches.stepO w eqv p k) (RbV.Thm.GenSrcMyersLongMatches.InvL w eqv p k)
        (fun _ s => RbV.Thm.GenSrcMyersLongMatches.repL w p s) rest i s r' tx' (o.map some) :=
  RbV.Thm.GenSrcMyersLongMatches.next_eq_model w eqv p k hw hw62 hp h63 rest i s inv hb h64

/-- **the block-based Myers search, as written in the source, is exact** — for every word width `w ≥ 2`: `Matches::new` (what
`find_all_end` calls; `States::new`) then `next` until `None` (`long::Myers::step` → `States::step` → `advance_block`,
`add_state`; `known_dist`), run on the per-block tables the constructor stores (`peqL`: one `Peq` per chunk of `w` pattern
symbols) never panics, never runs out of loop fuel and yields exactly `hits (unitW eqv) p t k` — every pattern length ≥ 1
(any number of blocks), equivalence, byte text and `k` (`k = usize::MAX` included: `saturating_add`). -/
theorem myers_long_find_all_end_source_exact_every_width (w : Nat) (eqv : Nat → Nat → Bool) (p t : List Nat) (k : Nat)
    (hw : 2 ≤ w) (hw62 : w < 2 ^ 62) (hp : 1 ≤ p.length) (h63 : p.length + w + 2 < 2 ^ 63) (hb : ∀ c ∈ t, c < 256)
    (h64 : t.length < 2 ^ 64) :
    RbV.Thm.GenSrcMyersLongMatches.findAllSrc w (RbV.Thm.GenSrcMyersLongStep.peqL w eqv (RbV.Model.MyersLong.blocksOf w p))
      p.length t k = RbV.Rs.Res.ok (hits (unitW eqv) p t k) :=
  RbV.Thm.GenSrcMyersLongMatches.findAllSrc_eq_hits w eqv p t k hw hw62 hp h63 hb h64

/-- … at the four word types rust-bio instantiates (`u8`, `u16`, `u32`, `u64`), pattern length below `2^62` -/
theorem myers_long_find_all_end_source_exact (w : Nat) (hw : w = 8 ∨ w = 16 ∨ w = 32 ∨ w = 64) (eqv : Nat → Nat → Bool)
    (p t : List Nat) (k : Nat) (hp : 1 ≤ p.length) (hp62 : p.length < 2 ^ 62) (hb : ∀ c ∈ t, c < 256) (h64 : t.length < 2 ^ 64) :
    RbV.Thm.GenSrcMyersLongMatches.findAllSrc w (RbV.Thm.GenSrcMyersLongStep.peqL w eqv (RbV.Model.MyersLong.blocksOf w p))
      p.length t k = RbV.Rs.Res.ok (hits (unitW eqv) p t k) :=
  myers_long_find_all_end_source_exact_every_width w eqv p t k (by omega) (by omega) hp (by omega) hb h64

/-- **`long::Myers::distance`, as written** (`max_dist = usize::MAX`, running minimum of `known_dist()`): the minimum of the last
row of the Sellers matrix — the `d` of `best_spec` — for every non-empty text; `usize::MAX` for the empty text -/
theorem myers_long_distance_source_exact (w : Nat) (eqv : Nat → Nat → Bool) (p t : List Nat) (hw : 2 ≤ w) (hw62 : w < 2 ^ 62)
    (hp : 1 ≤ p.length) (h63 : p.length + w + 2 < 2 ^ 63) (hb : ∀ c ∈ t, c < 256) :
    RbV.Gen.SrcMyersLongMatches.distance (w := w)
        (peq := RbV.Thm.GenSrcMyersLongStep.peqL w eqv (RbV.Model.MyersLong.blocksOf w p)) (m := p.length) (text := t) =
      RbV.Rs.Res.ok (((firstMin 0 (lastRow (unitW eqv) p t)).map (·.2)).getD (2 ^ 64 - 1)) :=
  RbV.Thm.GenSrcMyersLongMatches.distance_eq_spec w eqv p t hw hw62 hp h63 hb

/-- **`long::Myers::find_best_end`, as written** (`find_all_end(text, usize::MAX).min_by_key(|&(_, dist)| dist).unwrap()`): the
pair `(j, d)` of `best_spec` (minimum over the end positions, first on ties); the empty text panics (`unwrap` of `None`) -/
theorem myers_long_find_best_end_source_exact (w : Nat) (eqv : Nat → Nat → Bool) (p t : List Nat) (hw : 2 ≤ w)
    (hw62 : w < 2 ^ 62) (hp : 1 ≤ p.length) (h63 : p.length + w + 2 < 2 ^ 63) (hb : ∀ c ∈ t, c < 256) (h64 : t.length < 2 ^ 64) :
    RbV.Gen.SrcMyersLongMatches.findBestEnd (w := w)
        (peq := RbV.Thm.GenSrcMyersLongStep.peqL w eqv (RbV.Model.MyersLong.blocksOf w p)) (m := p.length) (text := t) =
      RbV.Rs.expect (firstMin 0 (lastRow (unitW eqv) p t)) :=
  RbV.Thm.GenSrcMyersLongMatches.findBestEnd_eq_spec w eqv p t hw hw62 hp h63 hb h64

-- non-vacuity: pattern 1 2 3 4 5 6 in blocks of 4 bits (two blocks, the second one partial), k = 1: the translated search on
-- the constructor's tables, evaluated; the theorem instantiated at `w = 8` with a three-block pattern
example : RbV.Gen.SrcMyersLongNew.new (w := 4) (m := 6) (max_dist := 1) = RbV.Rs.Res.ok ([(15, 0, 4)], 1, 2) := by decide
example : RbV.Gen.SrcMyersLongNew.new (w := 4) (m := 6) (max_dist := 5) = RbV.Rs.Res.ok ([(15, 0, 4), (15, 0, 6)], 1, 2) := by decide
example : RbV.Thm.GenSrcMyersLongMatches.findAllSrc 4 (RbV.Thm.GenSrcMyersLongStep.peqL 4 eqSym [[1, 2, 3, 4], [5, 6]]) 6
    [1, 2, 3, 4, 5, 6, 9, 1, 2, 3, 4, 6] 1 = RbV.Rs.Res.ok (hits (unitW eqSym) [1, 2, 3, 4, 5, 6] [1, 2, 3, 4, 5, 6, 9, 1, 2, 3, 4, 6] 1) := by decide
example : RbV.Gen.SrcMyersLongMatches.findBestEnd (w := 4) (peq := RbV.Thm.GenSrcMyersLongStep.peqL 4 eqSym [[1, 2, 3, 4], [5, 6]])
    (m := 6) (text := [9, 1, 2, 3, 4, 6, 1, 2, 3, 4, 6]) = RbV.Rs.expect (firstMin 0 (lastRow (unitW eqSym) [1, 2, 3, 4, 5, 6] [9, 1, 2, 3, 4, 6, 1, 2, 3, 4, 6])) := by decide
example : RbV.Gen.SrcMyersLongMatches.findBestEnd (w := 4) (peq := RbV.Thm.GenSrcMyersLongStep.peqL 4 eqSym [[1, 2, 3, 4], [5, 6]])
    (m := 6) (text := []) = RbV.Rs.Res.panic := by decide
example : RbV.Gen.SrcMyersLongMatches.distance (w := 4) (peq := RbV.Thm.GenSrcMyersLongStep.peqL 4 eqSym [[1, 2, 3, 4], [5, 6]])
    (m := 6) (text := [9, 1, 2, 3, 4, 6, 1]) = RbV.Rs.Res.ok 1 := by decide
example : ∃ l, RbV.Thm.GenSrcMyersLongMatches.findAllSrc 8
    (RbV.Thm.GenSrcMyersLongStep.peqL 8 eqSym (RbV.Model.MyersLong.blocksOf 8 (List.range 20))) 20 [3, 4, 5] 18 = RbV.Rs.Res.ok l :=
  ⟨_, myers_long_find_all_end_source_exact 8 (Or.inl rfl) eqSym (List.range 20) [3, 4, 5] 18 (by decide) (by decide) (by decide) (by decide)⟩

/-! ### `distance` / `find_best_end` of the single-word matcher on the translated source text (genlong)

`RbV/Gen/SrcMyersSimpleBest.lean`: the same text of `impl_myers!` read at the instance of simple.rs. -/

/-- **`Myers::distance`, as written** (single word; `max_dist = DistType::MAX`): the `d` of `best_spec` for every non-empty text
(`DistType::MAX` for the empty one) — every word width `w ≥ 2`, `DistType` width with `|p| < 2^wd` -/
theorem myers_distance_source_exact (w wd : Nat) (eqv : Nat → Nat → Bool) (p t : List Nat) (hw1 : 1 < w) (hm1 : 1 ≤ p.length)
    (hw : p.length ≤ w) (hwd : p.length < 2 ^ wd) (h64p : p.length + 1 < 2 ^ 64) (hb : ∀ c ∈ t, c < 256) :
    RbV.Gen.SrcMyersSimpleBest.distance (w := w) (wd := wd) (peq := RbV.Thm.GenSrcMyersSimple.peqTab w eqv p)
        (bound := 2 ^ (p.length - 1)) (m := p.length) (text := t) =
      RbV.Rs.Res.ok (((firstMin 0 (lastRow (unitW eqv) p t)).map (·.2)).getD (RbV.Rs.maxVal wd)) :=
  RbV.Thm.GenSrcMyersSimpleBest.distance_eq_spec w wd eqv p t hw1 hm1 hw hwd h64p hb

/-- **`Myers::find_best_end`, as written** (single word): the pair `(j, d)` of `best_spec` — minimum over the end positions,
first on ties (`Iterator::min_by_key`); the empty text panics (`unwrap` of `None`) -/
theorem myers_find_best_end_source_exact (w wd : Nat) (eqv : Nat → Nat → Bool) (p t : List Nat) (hw1 : 1 < w)
    (hm1 : 1 ≤ p.length) (hw : p.length ≤ w) (hwd : p.length < 2 ^ wd) (h64p : p.length + 1 < 2 ^ 64)
    (hb : ∀ c ∈ t, c < 256) (h64 : t.length < 2 ^ 64) :
    RbV.Gen.SrcMyersSimpleBest.findBestEnd (w := w) (wd := wd) (peq := RbV.Thm.GenSrcMyersSimple.peqTab w eqv p)
        (bound := 2 ^ (p.length - 1)) (m := p.length) (text := t) =
      RbV.Rs.expect (firstMin 0 (lastRow (unitW eqv) p t)) :=
  RbV.Thm.GenSrcMyersSimpleBest.findBestEnd_eq_spec w wd eqv p t hw1 hm1 hw hwd h64p hb h64

example : RbV.Gen.SrcMyersSimpleBest.findBestEnd (w := 8) (wd := 8) (peq := [0, 0b101, 0b010, 0]) (bound := 0b100) (m := 3)
    (text := [3, 1, 3, 1, 2, 1, 1, 2, 1]) = RbV.Rs.Res.ok (5, 0) := by decide
example : RbV.Gen.SrcMyersSimpleBest.distance (w := 8) (wd := 8) (peq := [0, 0b101, 0b010, 0]) (bound := 0b100) (m := 3)
    (text := [3, 1, 3, 1, 3]) = RbV.Rs.Res.ok 1 := by decide
example : RbV.Gen.SrcMyersSimpleBest.distance (w := 8) (wd := 8) (peq := [0, 0b101, 0b010, 0]) (bound := 0b100) (m := 3)
    (text := []) = RbV.Rs.Res.ok 255 := by decide

/-! The constructors (`new` / `new_ambig` of simple.rs and long.rs, `MyersBuilder`) are translated as well (`Gen/SrcMyersSimpleNew.lean`,
`Gen/SrcMyersLongCtor.lean`, `Gen/SrcMyersBuilder.lean`); their theorems (`myers_new_source_eq_model`, …) are word-level and
shape-dependent (a property-preserving change of the wildcard masks above the pattern bits falsifies them: seeded C09-H2), so they
live in the **soft** module `Thm/GenSrcMyersNewSoft.lean` (built by `tools/gen_tables.py`, failure = note). -/

end RbV.Thm.C09
