import RbV.Gen.SrcKmerMatches
import RbV.Model.KmerHash
import RbV.Lemmas.KmerHash
import RbV.Thm.GenSrcLcskpp
/-!
# C19 — the text of `hash_kmers`, `find_kmer_matches_seq{1,2}_hashed`, `find_kmer_matches` (translated on every
`./check C19`: `RbV/Gen/SrcKmerMatches.lean`) equals the mirror models, hence the reference `kmerMatches`

`std::collections::HashMap` enters through `Rs.HMap` (`RsSemGensparse.lean`: `entry(k).or_default().push(v)`, `get(k)` on an
association list — the iteration order of the map is never observed by these functions); the final `sort_unstable()` is an
abstract function with the contract `Rs.SortOk` on the derived order of `(u32, u32)`.  Hypothesis: both sequences are
shorter than 2³² (positions are stored as `u32`: `i as u32` must not truncate).
-/
set_option linter.unusedSimpArgs false
set_option linter.unusedVariables false
namespace RbV.Thm.GenSrcKmerMatches
open RbV RbV.Rs RbV.QGram RbV.Model.KmerHash RbV.Lemmas.KmerHash
open RbV.Thm.GenSrcLcskpp (ole_NN)

theorem get_eq (m : HMap) (key : List Nat) : Rs.HMap.get m key = hmGet key m := by
  induction m with
  | nil => rfl
  | cons p r ih => obtain ⟨a, v⟩ := p; simp only [Rs.HMap.get, hmGet, ih]

theorem entryPush_eq (m : HMap) (key : List Nat) (i : Nat) : Rs.HMap.entryPush m key i = entryPush key i m := by
  induction m with
  | nil => rfl
  | cons p r ih => obtain ⟨a, v⟩ := p; simp only [Rs.HMap.entryPush, entryPush, ih]

theorem ole_pair (a b : Nat × Nat) : (ROrd.le a b : Bool) = pairLe a b := by
  rw [ole_NN]; rfl

theorem pairLe_antisymm (a b : Nat × Nat) (h1 : pairLe a b = true) (h2 : pairLe b a = true) : a = b := by
  simp only [pairLe, Bool.or_eq_true, Bool.and_eq_true, decide_eq_true_eq, beq_iff_eq] at h1 h2
  apply Prod.ext <;> omega

/-- the final sort: any `sort_unstable` meeting the contract returns the merge-sorted vector -/
theorem sortM_eq (sortM : List (Nat × Nat) → List (Nat × Nat)) (hsort : SortOk sortM) (l : List (Nat × Nat)) :
    sortM l = l.mergeSort pairLe := by
  obtain ⟨hp, hs⟩ := hsort l
  refine List.Perm.eq_of_pairwise (le := fun a b => pairLe a b = true) (fun a b _ _ => pairLe_antisymm a b) ?_
    (List.pairwise_mergeSort pairLe_trans pairLe_total l) (hp.trans (List.mergeSort_perm _ _).symm)
  exact hs.imp (fun {a b} h => by rw [← ole_pair]; exact h)

theorem foldlM_eq_foldl {σ α : Type} (f : σ → α → Res σ) (g : σ → α → σ) (P : α → Prop)
    (h : ∀ s a, P a → f s a = Res.ok (g s a)) :
    ∀ (l : List α) (s : σ), (∀ a ∈ l, P a) → List.foldlM f s l = Res.ok (List.foldl g s l) := by
  intro l
  induction l with
  | nil => intro s _; rfl
  | cons a t ih =>
    intro s hl
    rw [List.foldlM_cons, h s a (hl a (by simp)), Res.ok_bind, List.foldl_cons]
    exact ih _ (fun b hb => hl b (by simp [hb]))

theorem slice_window (seq : List Nat) (k i : Nat) (h : i + k ≤ seq.length) :
    Rs.slice seq i (i + k) = Res.ok (window k seq i) := by
  rw [Rs.slice_ok (by omega) h, Nat.add_sub_cancel_left]; rfl

/-- **`hash_kmers` as written in the source = the model's map** -/
theorem hashKmers_eq_model (sortM : List (Nat × Nat) → List (Nat × Nat)) (seq : List Nat) (k : Nat) (hlen : seq.length < 2 ^ 32) :
    Gen.SrcKmerMatches.hashKmers sortM seq k = Res.ok (hashKmers seq k) := by
  have e1 : Rs.add 64 seq.length 1 = Res.ok (seq.length + 1) := Rs.add_ok (by omega)
  have e1' : Rs.add 64 1 seq.length = Res.ok (seq.length + 1) := by rw [Rs.add_ok (by omega), Nat.add_comm]
  have hstep : ∀ (s : HMap) (i : Nat), i < seq.length + 1 - k →
      Gen.SrcKmerMatches.hashKmers_for1 sortM k seq s i = Res.ok (entryPush (window k seq i) i s) := by
    intro s i hi
    have e2 : Rs.add 64 i k = Res.ok (i + k) := Rs.add_ok (by omega)
    have e2' : Rs.add 64 k i = Res.ok (i + k) := by rw [Rs.add_ok (by omega), Nat.add_comm]
    have e3 := slice_window seq k i (by omega)
    have e4 : Rs.cast 32 i = i := Nat.mod_eq_of_lt (by omega)
    simp [Gen.SrcKmerMatches.hashKmers_for1, e2, e2', e3, e4, entryPush_eq]
  have hf := foldlM_eq_foldl (Gen.SrcKmerMatches.hashKmers_for1 sortM k seq) (fun s i => entryPush (window k seq i) i s)
    (fun i => i < seq.length + 1 - k) hstep (List.range (seq.length + 1 - k)) [] (fun a ha => List.mem_range.mp ha)
  simp only [Gen.SrcKmerMatches.hashKmers, e1, e1', Res.ok_bind, Rs.satSub, Nat.sub_zero, ← List.range_eq_range', Rs.HMap.empty]
  rw [hf]; rfl

theorem push_fold1 (sortM : List (Nat × Nat) → List (Nat × Nat)) (i : Nat) (hi : i < 2 ^ 32) :
    ∀ (l : List Nat) (acc : List (Nat × Nat)),
      List.foldlM (Gen.SrcKmerMatches.seq1Hashed_for2 sortM i) acc l = Res.ok (acc ++ l.map (fun pos1 => (pos1, i))) := by
  have e4 : Rs.cast 32 i = i := Nat.mod_eq_of_lt hi
  intro l
  induction l with
  | nil => intro acc; simp
  | cons a t ih => intro acc; rw [List.foldlM_cons]; simp [Gen.SrcKmerMatches.seq1Hashed_for2, e4, ih]

theorem push_fold2 (sortM : List (Nat × Nat) → List (Nat × Nat)) (i : Nat) (hi : i < 2 ^ 32) :
    ∀ (l : List Nat) (acc : List (Nat × Nat)),
      List.foldlM (Gen.SrcKmerMatches.seq2Hashed_for2 sortM i) acc l = Res.ok (acc ++ l.map (fun pos1 => (i, pos1))) := by
  have e4 : Rs.cast 32 i = i := Nat.mod_eq_of_lt hi
  intro l
  induction l with
  | nil => intro acc; simp
  | cons a t ih => intro acc; rw [List.foldlM_cons]; simp [Gen.SrcKmerMatches.seq2Hashed_for2, e4, ih]

/-- **`find_kmer_matches_seq1_hashed` as written in the source = the model**, for every map -/
theorem seq1Hashed_eq_model (sortM : List (Nat × Nat) → List (Nat × Nat)) (hsort : SortOk sortM) (m : HMap) (seq2 : List Nat) (k : Nat)
    (hlen : seq2.length < 2 ^ 32) :
    Gen.SrcKmerMatches.seq1Hashed sortM m seq2 k = Res.ok (seq1Hashed m seq2 k) := by
  have e1 : Rs.add 64 seq2.length 1 = Res.ok (seq2.length + 1) := Rs.add_ok (by omega)
  have e1' : Rs.add 64 1 seq2.length = Res.ok (seq2.length + 1) := by rw [Rs.add_ok (by omega), Nat.add_comm]
  have hstep : ∀ (s : List (Nat × Nat)) (i : Nat), i < seq2.length + 1 - k →
      Gen.SrcKmerMatches.seq1Hashed_for1 sortM m seq2 k s i = Res.ok (match hmGet (window k seq2 i) m with
        | some matches1 => s ++ matches1.map (fun pos1 => (pos1, i))
        | none => s) := by
    intro s i hi
    have e2 : Rs.add 64 i k = Res.ok (i + k) := Rs.add_ok (by omega)
    have e2' : Rs.add 64 k i = Res.ok (i + k) := by rw [Rs.add_ok (by omega), Nat.add_comm]
    have e3 := slice_window seq2 k i (by omega)
    simp only [Gen.SrcKmerMatches.seq1Hashed_for1, e2, e2', e3, Res.ok_bind, get_eq]
    cases hmGet (window k seq2 i) m with
    | none => rfl
    | some v => simp [push_fold1 sortM i (by omega)]
  have hf := foldlM_eq_foldl (Gen.SrcKmerMatches.seq1Hashed_for1 sortM m seq2 k) _
    (fun i => i < seq2.length + 1 - k) hstep (List.range (seq2.length + 1 - k)) [] (fun a ha => List.mem_range.mp ha)
  simp only [Gen.SrcKmerMatches.seq1Hashed, e1, e1', Res.ok_bind, Rs.satSub, Nat.sub_zero, ← List.range_eq_range']
  rw [hf]
  simp only [Res.ok_bind, Res.pure_eq_ok, sortM_eq sortM hsort]
  rfl

/-- **`find_kmer_matches_seq2_hashed` as written in the source = the model**, for every map -/
theorem seq2Hashed_eq_model (sortM : List (Nat × Nat) → List (Nat × Nat)) (hsort : SortOk sortM) (seq1 : List Nat) (m : HMap) (k : Nat)
    (hlen : seq1.length < 2 ^ 32) :
    Gen.SrcKmerMatches.seq2Hashed sortM seq1 m k = Res.ok (seq2Hashed seq1 m k) := by
  have e1 : Rs.add 64 seq1.length 1 = Res.ok (seq1.length + 1) := Rs.add_ok (by omega)
  have e1' : Rs.add 64 1 seq1.length = Res.ok (seq1.length + 1) := by rw [Rs.add_ok (by omega), Nat.add_comm]
  have hstep : ∀ (s : List (Nat × Nat)) (i : Nat), i < seq1.length + 1 - k →
      Gen.SrcKmerMatches.seq2Hashed_for1 sortM seq1 m k s i = Res.ok (match hmGet (window k seq1 i) m with
        | some matches1 => s ++ matches1.map (fun pos1 => (i, pos1))
        | none => s) := by
    intro s i hi
    have e2 : Rs.add 64 i k = Res.ok (i + k) := Rs.add_ok (by omega)
    have e2' : Rs.add 64 k i = Res.ok (i + k) := by rw [Rs.add_ok (by omega), Nat.add_comm]
    have e3 := slice_window seq1 k i (by omega)
    simp only [Gen.SrcKmerMatches.seq2Hashed_for1, e2, e2', e3, Res.ok_bind, get_eq]
    cases hmGet (window k seq1 i) m with
    | none => rfl
    | some v => simp [push_fold2 sortM i (by omega)]
  have hf := foldlM_eq_foldl (Gen.SrcKmerMatches.seq2Hashed_for1 sortM seq1 m k) _
    (fun i => i < seq1.length + 1 - k) hstep (List.range (seq1.length + 1 - k)) [] (fun a ha => List.mem_range.mp ha)
  simp only [Gen.SrcKmerMatches.seq2Hashed, e1, e1', Res.ok_bind, Rs.satSub, Nat.sub_zero, ← List.range_eq_range']
  rw [hf]
  simp only [Res.ok_bind, Res.pure_eq_ok, sortM_eq sortM hsort]
  rfl

/-- **`find_kmer_matches` as written in the source = the model** (the translated function calls the translated `hash_kmers`
and the translated matcher of the branch it takes) -/
theorem findKmerMatches_eq_model (sortM : List (Nat × Nat) → List (Nat × Nat)) (hsort : SortOk sortM) (x y : List Nat) (k : Nat)
    (hx : x.length < 2 ^ 32) (hy : y.length < 2 ^ 32) :
    Gen.SrcKmerMatches.findKmerMatches sortM x y k = Res.ok (findKmerMatches x y k) := by
  unfold Gen.SrcKmerMatches.findKmerMatches findKmerMatches
  by_cases h : x.length < y.length
  · simp [h, hashKmers_eq_model sortM x k hx, seq1Hashed_eq_model sortM hsort _ y k hy]
  · simp [h, hashKmers_eq_model sortM y k hy, seq2Hashed_eq_model sortM hsort x _ k hx]

/-- a `sort_unstable` on pairs meeting `SortOk` -/
def stdSortM (l : List (Nat × Nat)) : List (Nat × Nat) := l.mergeSort pairLe

theorem stdSortM_ok : SortOk stdSortM := by
  intro l
  refine ⟨List.mergeSort_perm _ _, ?_⟩
  exact (List.pairwise_mergeSort pairLe_trans pairLe_total l).imp (fun {a b} h => by rw [ole_pair]; exact h)

end RbV.Thm.GenSrcKmerMatches
