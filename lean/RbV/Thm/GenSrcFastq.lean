import RbV.Gen.SrcFastq
import RbV.Thm.GenSrcFasta
import RbV.Lemmas.FastqBlankFirst
/-!
# The translated `bio::io::fastq` writer, reader, `Record::check` and `Records` iterator (`RbV/Gen/SrcFastq.lean`) against the
mirror models (C11)

Instantiation of the abstract operations as in `Thm/GenSrcFasta.lean` (`writeAllOp`, `readLineOp c sched`, `trimEndU`).
The header split `splitn(2, <pattern>)` of `Reader::read` is the generated predicate `read_pat1`; the mirror is run with the
text functions `srcTxt` (= `Txt.unicode` with the header split of the *source*), and `srcTxt_agrees` shows that on the
property's domain — the first white-space character of the trimmed header, if any, is a blank: ids without white space —
this is the split of the list models.  Nothing else about the pattern is used, so a pattern that differs only on ids with
white space (seeded C11-H1: blank or tab) re-proves.
-/
set_option linter.unusedSimpArgs false
set_option linter.unusedVariables false
namespace RbV.Thm.GenSrcFastq
open RbV RbV.Rs RbV.Fastx RbV.BufLines
open RbV.Thm.GenSrcFasta (writeAllOp readLineOp invalidData startsWithByte_eq strFrom_one readLineStr_some_valid readLineStr_le)
open RbV.Gen.SrcFastq (Error Record)

/-! ## Writer -/

/-- **`Writer::write`** appends exactly the model writer's bytes `@id[ desc]\nseq\n+\nqual\n` -/
theorem write_eq_model (w id : Bytes) (desc : Option Bytes) (seq qual : Bytes) :
    Gen.SrcFastq.write writeAllOp w id desc seq qual =
      Res.ok (.ok (), w ++ writeFastqRec { id := id, desc := desc, seq := seq, qual := qual }) := by
  cases desc <;> simp [Gen.SrcFastq.write, writeFastqRec]

/-- **`Writer::write_record`** = `write` on the record's accessors (`seq()` / `qual()` trim the end: the identity on records as
the reader builds them) -/
theorem writeRecord_eq_model (tr : Bytes → Bytes) (w : Bytes) (r : FqRec) (hs : tr r.seq = r.seq) (hq : tr r.qual = r.qual) :
    Gen.SrcFastq.writeRecord writeAllOp tr w r.id r.desc r.seq r.qual = Res.ok (.ok (), w ++ writeFastqRec r) := by
  cases r with
  | mk i d sq q =>
    have h := write_eq_model w i d sq q
    simp only at hs hq
    cases d <;>
      simp [Gen.SrcFastq.writeRecord, Gen.SrcFastq.recordId, Gen.SrcFastq.recordDesc, Gen.SrcFastq.recordSeq,
        Gen.SrcFastq.recordQual, hs, hq] at h ⊢ <;>
      simp [h]

/-- **constructors**: `Reader::from_bufread` (empty line buffer), `Reader::records`, `Writer::from_bufwriter` -/
theorem ctors_eq {ρ ω : Type} (b : ρ) (l : Bytes) (w : ω) :
    Gen.SrcFastq.readerFromBufread b = Res.ok (b, []) ∧
    Gen.SrcFastq.readerRecords b l = Res.ok (b, l) ∧
    Gen.SrcFastq.writerFromBufwriter w = Res.ok w := by
  simp [Gen.SrcFastq.readerFromBufread, Gen.SrcFastq.readerRecords, Gen.SrcFastq.writerFromBufwriter]

/-! ## `Record::check` -/

/-- **`Record::check`** on a record whose sequence and qualities do not end in white space (what the reader produces:
concatenations of end-trimmed lines; `tr` = any `trim_end` that is the identity there) = the model's `check` -/
theorem check_eq_model (tr : Bytes → Bytes) (r : FqRec) (hs : tr r.seq = r.seq) (hq : tr r.qual = r.qual) :
    Gen.SrcFastq.recordCheck tr r.id r.desc r.seq r.qual =
      Res.ok (if r.id.isEmpty then .error "Expecting id for FastQ record."
              else if !(r.seq.all (· < 128)) then .error "Non-ascii character found in sequence."
              else if !(r.qual.all (· < 128)) then .error "Non-ascii character found in qualities."
              else if r.seq.length != r.qual.length then .error "Unequal length of sequence an qualities."
              else .ok ()) := by
  have e1 : Rs.isAscii r.seq = r.seq.all (· < 128) := by simp [Rs.isAscii]
  have e2 : Rs.isAscii r.qual = r.qual.all (· < 128) := by simp [Rs.isAscii]
  have h4' : (r.qual.length = r.seq.length) = (r.seq.length = r.qual.length) := propext eq_comm
  by_cases h1 : r.id = [] <;> by_cases h4 : r.seq.length = r.qual.length <;>
    cases h2 : r.seq.all (· < 128) <;> cases h3 : r.qual.all (· < 128) <;>
    simp_all [Gen.SrcFastq.recordCheck, Gen.SrcFastq.recordId, Gen.SrcFastq.recordSeq, Gen.SrcFastq.recordQual]

/-- … hence `check()` succeeds exactly when the model's `FqRec.check` holds -/
theorem check_ok_iff (tr : Bytes → Bytes) (r : FqRec) (hs : tr r.seq = r.seq) (hq : tr r.qual = r.qual) :
    Gen.SrcFastq.recordCheck tr r.id r.desc r.seq r.qual = Res.ok (.ok ()) ↔ r.check = true := by
  rw [check_eq_model tr r hs hq]
  unfold FqRec.check
  by_cases h1 : r.id = [] <;> by_cases h4 : r.seq.length = r.qual.length <;>
    cases h2 : r.seq.all (· < 128) <;> cases h3 : r.qual.all (· < 128) <;> simp_all

/-! ## Reader -/

/-- the header split of the source: `splitn(2, <pattern>)` with the pattern found in the text -/
def srcTxt : Txt :=
  { trim := trimEndU, faHdr := faHeaderU,
    fqHdr := fun l => Rs.splitn2 Gen.SrcFastq.read_pat1 (trimEndU l.tail), trim_nil := rfl }

/-- what the proofs use of the pattern: it matches the blank and nothing that is not white space -/
theorem pat_spec : Gen.SrcFastq.read_pat1 32 = true ∧ ∀ b, isWs b = false → Gen.SrcFastq.read_pat1 b = false := by
  refine ⟨by simp [Gen.SrcFastq.read_pat1], ?_⟩
  intro b hb
  simp only [isWs, Bool.or_eq_false_iff, beq_eq_false_iff_ne] at hb
  simp [Gen.SrcFastq.read_pat1]
  omega

theorem splitn2_blankFirst (s : Bytes) (h : blankFirst s = true) :
    Rs.splitn2 Gen.SrcFastq.read_pat1 s = Fastx.splitn2 (· == 32) s := by
  induction s with
  | nil => rfl
  | cons b r ih =>
    unfold blankFirst at h
    by_cases hw : isWs b = true
    · simp only [hw, if_true, beq_iff_eq] at h
      subst h
      simp [Rs.splitn2, Fastx.splitn2, pat_spec.1]
    · have hw' : isWs b = false := by simpa using hw
      simp only [hw', Bool.false_eq_true, if_false] at h
      have hp := pat_spec.2 b hw'
      have hb : (b == 32) = false := by
        simp only [isWs, Bool.or_eq_false_iff, beq_eq_false_iff_ne] at hw'
        simp; omega
      have := ih h
      simp only [Rs.splitn2, Fastx.splitn2, Prod.mk.injEq] at this ⊢
      simp [hp, hb, this.1, this.2]

/-- on lines in the domain (no lead byte of a non-ASCII white-space character; first white space of the trimmed header a
blank) the source's text functions are those of the list models -/
theorem srcTxt_agrees (l : Bytes) (h : NoUws l) (hb : blankFirst (trimEnd l.tail) = true) : srcTxt.AgreesOn l := by
  refine ⟨trimEndU_eq l h, faHeaderU_eq l h, ?_⟩
  show Rs.splitn2 Gen.SrcFastq.read_pat1 (trimEndU l.tail) = fqHeader l
  rw [trimEndU_eq _ h.tail, splitn2_blankFirst _ hb]
  rfl

/-- the first `read_line` of a round of the sequence loop, then the loop -/
def seqFrom (c : Nat) (sched : Nat → Nat) (T : Txt) (id : Bytes) (desc : Option Bytes) (qual : Bytes) (gas : Nat) (rd : St)
    (seq : Bytes) (n : Nat) :
    Res (Flow (Except Error Unit × St × Bytes × Bytes × Option Bytes × Bytes × Bytes) (St × Bytes × Bytes × Nat)) :=
  match readLineStr c sched rd with
  | (none, rd') => Res.ok (.ret (.error (Error.ReadError invalidData), rd', [], id, desc, seq, qual))
  | (some l, rd') => Gen.SrcFastq.read_loop1 (readLineOp c sched) T.trim id desc qual gas rd' l seq n

def SeqPost (id : Bytes) (desc : Option Bytes) (qual : Bytes) (m : Option (Bytes × Nat) × St)
    (x : Res (Flow (Except Error Unit × St × Bytes × Bytes × Option Bytes × Bytes × Bytes) (St × Bytes × Bytes × Nat))) : Prop :=
  match m with
  | (none, rd') => ∃ sq, x = Res.ok (.ret (.error (Error.ReadError invalidData), rd', [], id, desc, sq, qual))
  | (some (seq', n'), rd') => ∃ lb, x = Res.ok (.next (rd', lb, seq', n'))

/-- the sequence-line loop (`while !line.is_empty() && !line.starts_with('+')`) = `fqSeqLoop`; fuel: more than the
pending bytes; the line counter (an `i32`) does not overflow while fewer than 2^31 bytes are pending -/
theorem seq_eq (T : Txt) (c : Nat) (sched : Nat → Nat) (id : Bytes) (desc : Option Bytes) (qual : Bytes)
    (rd : St) (seq : Bytes) (n : Nat) :
    ∀ gas : Nat, rd.pending.length < gas → n + rd.pending.length < 2 ^ 31 →
      SeqPost id desc qual (fqSeqLoop T c sched rd seq n) (seqFrom c sched T id desc qual gas rd seq n) := by
  fun_induction fqSeqLoop T c sched rd seq n with
  | case1 rd seq n rd' h =>
    intro gas hg hn
    simp [SeqPost, seqFrom, h]
  | case2 rd seq n l rd' h hc2 =>
    intro gas hg hn
    obtain ⟨g, rfl⟩ : ∃ g, gas = g + 1 := ⟨gas - 1, by omega⟩
    have hc : (!l.isEmpty && !startsWith l 43) = false := by
      cases h1 : l.isEmpty <;> cases h2 : startsWith l 43 <;> simp [h1, h2] at hc2 ⊢
    have hc' : (!startsWith l 43 && !l.isEmpty) = false := by rw [Bool.and_comm]; exact hc
    simp [SeqPost, seqFrom, h, Gen.SrcFastq.read_loop1, startsWithByte_eq, hc, hc']
  | case3 rd seq n l rd' h hc3 ih =>
    intro gas hg hn
    obtain ⟨g, rfl⟩ : ∃ g, gas = g + 1 := ⟨gas - 1, by omega⟩
    have hc3c : l.isEmpty = false ∧ startsWith l 43 = false := by simpa using hc3
    have hc : (!l.isEmpty && !startsWith l 43) = true := by simp [hc3c.1, hc3c.2]
    have hc' : (!startsWith l 43 && !l.isEmpty) = true := by rw [Bool.and_comm]; exact hc
    have hp := readLineStr_progress c sched rd
    rw [h] at hp
    have hlt : rd'.pending.length < rd.pending.length := by
      rcases hp with hp | hp
      · simp only [Option.some.injEq] at hp
        simp [hp] at hc3c
      · exact hp
    have e1 : Rs.add 31 n 1 = Res.ok (n + 1) := Rs.add_ok (by omega)
    have e1' : Rs.add 31 1 n = Res.ok (n + 1) := by rw [Nat.add_comm] at *; exact Rs.add_ok (by omega)
    have := ih g (by omega) (by omega)
    unfold seqFrom at this ⊢
    simp only [h]
    cases hq : readLineStr c sched rd' with
    | mk o rd2 =>
      rw [hq] at this
      cases o with
      | none =>
        simpa [Gen.SrcFastq.read_loop1, readLineOp, hq, startsWithByte_eq, hc, hc', hc3c.1, hc3c.2] using this
      | some l2 =>
        simpa [Gen.SrcFastq.read_loop1, readLineOp, hq, startsWithByte_eq, hc, hc', hc3c.1, hc3c.2, e1, e1'] using this

def QualPost (id : Bytes) (desc : Option Bytes) (seq : Bytes) (m : Option Bytes × St)
    (x : Res (Flow (Except Error Unit × St × Bytes × Bytes × Option Bytes × Bytes × Bytes) (St × Bytes × Bytes))) : Prop :=
  match m with
  | (none, rd') => ∃ q, x = Res.ok (.ret (.error (Error.ReadError invalidData), rd', [], id, desc, seq, q))
  | (some q, rd') => ∃ lb, x = Res.ok (.next (rd', lb, q))

/-- the quality-line loop (`for _ in 0..lines_read`) = `fqQualLoop` -/
theorem qual_eq (T : Txt) (c : Nat) (sched : Nat → Nat) (id : Bytes) (desc : Option Bytes) (seq : Bytes) :
    ∀ (n : Nat) (xs : List Nat) (rd : St) (lb q : Bytes), xs.length = n →
      QualPost id desc seq (fqQualLoop T c sched n rd q)
        (Gen.SrcFastq.read_for1 (readLineOp c sched) T.trim id desc seq xs rd lb q) := by
  intro n
  induction n with
  | zero =>
    intro xs rd lb q hx
    have : xs = [] := List.length_eq_zero_iff.mp hx
    subst this
    simp [QualPost, fqQualLoop, Gen.SrcFastq.read_for1]
  | succ n ih =>
    intro xs rd lb q hx
    cases xs with
    | nil => cases hx
    | cons x xs =>
      simp only [List.length_cons, Nat.add_right_cancel_iff] at hx
      simp only [fqQualLoop]
      cases hq : readLineStr c sched rd with
      | mk o rd' =>
        cases o with
        | none => simp [QualPost, Gen.SrcFastq.read_for1, readLineOp, hq, Except.mapError]
        | some l =>
          have := ih xs rd' (([] : Bytes) ++ l) (q ++ T.trim l) hx
          simpa [Gen.SrcFastq.read_for1, readLineOp, hq, Except.mapError] using this

/-- outcome of the translated `Reader::read` against the mirror `fqReadS`: same result, same `BufReader` state; the record is
the mirror's on `Ok` (empty at end of input), unspecified next to an error; `line_buffer` is scratch (cleared before use) -/
def ReadPost (m : FqOut × St) (x : Res (Except Error Unit × St × Bytes × Bytes × Option Bytes × Bytes × Bytes)) : Prop :=
  match m.1 with
  | .eof => ∃ lb, x = Res.ok (.ok (), m.2, lb, [], none, [], [])
  | .item (.ok r) => ∃ lb, x = Res.ok (.ok (), m.2, lb, r.id, r.desc, r.seq, r.qual)
  | .item .missingAt => ∃ lb i d s q, x = Res.ok (.error Error.MissingAt, m.2, lb, i, d, s, q)
  | .item .incomplete => ∃ lb i d s q, x = Res.ok (.error Error.IncompleteRecord, m.2, lb, i, d, s, q)
  | .utf8 => ∃ lb i d s q, x = Res.ok (.error (Error.ReadError invalidData), m.2, lb, i, d, s, q)

theorem splitnItems_head (p : Bytes × Option Bytes) : (Rs.splitnItems p).head? = some p.1 := rfl
theorem splitnItems_snd (p : Bytes × Option Bytes) : ((Rs.splitnItems p).drop 1).head? = p.2 := by
  cases p with | mk a b => cases b <;> rfl
theorem splitnItems_snd' (p : Bytes × Option Bytes) : (Rs.splitnItems p)[1]? = p.2 := by
  cases p with | mk a b => cases b <;> rfl

/-- `Reader::read` against `fqReadS T` for every `T` whose `trim_end` is the operation passed to the translated code and
whose FASTQ header split is the split found in the source -/
theorem read_eq_model_gen (T : Txt) (hH : ∀ l, T.fqHdr l = Rs.splitn2 Gen.SrcFastq.read_pat1 (T.trim l.tail))
    (c : Nat) (sched : Nat → Nat) (rd : St) (lb0 id0 : Bytes) (desc0 : Option Bytes) (seq0 qual0 : Bytes)
    (fuel : Nat) (hf : rd.pending.length < fuel) (h31 : rd.pending.length < 2 ^ 31) :
    ReadPost (fqReadS T c sched rd)
      (Gen.SrcFastq.read (readLineOp c sched) T.trim rd lb0 id0 desc0 seq0 qual0 fuel) := by
  unfold fqReadS
  cases hq : readLineStr c sched rd with
  | mk o rd1 =>
    have hle := readLineStr_le c sched rd
    rw [hq] at hle
    simp only at hle
    cases o with
    | none => simp [ReadPost, Gen.SrcFastq.read, Gen.SrcFastq.recordClear, readLineOp, hq]
    | some l =>
      have hvl := readLineStr_some_valid hq
      by_cases hle' : l.isEmpty = true
      · have : l = [] := by simpa using hle'
        subst this
        simp [ReadPost, Gen.SrcFastq.read, Gen.SrcFastq.recordClear, readLineOp, hq]
      · have hne : l.isEmpty = false := by simpa using hle'
        by_cases hst : startsWith l 64 = true
        · have e1 := strFrom_one l 64 (by decide) hvl hst
          -- the translated function from the header on, with the header fields named
          have hsrc : Gen.SrcFastq.read (readLineOp c sched) T.trim rd lb0 id0 desc0 seq0 qual0 fuel =
              (do
                let t ← seqFrom c sched T (T.fqHdr l).1 (T.fqHdr l).2 [] fuel rd1 [] 0
                match t with
                | .ret v => pure v
                | .next (reader, line_buffer, seq, lines_read) => do
                  let t' ← Gen.SrcFastq.read_for1 (readLineOp c sched) T.trim (T.fqHdr l).1 (T.fqHdr l).2 seq
                              (List.range' 0 lines_read) reader line_buffer []
                  match t' with
                  | .ret v => pure v
                  | .next (reader, line_buffer, qual) =>
                    if qual.isEmpty then
                      pure ((Except.error Error.IncompleteRecord : Except Error Unit), reader, line_buffer, (T.fqHdr l).1,
                        (T.fqHdr l).2, seq, qual)
                    else
                      pure ((Except.ok () : Except Error Unit), reader, line_buffer, (T.fqHdr l).1, (T.fqHdr l).2, seq, qual)) := by
            rw [hH l]
            unfold seqFrom
            cases hq2 : readLineStr c sched rd1 with
            | mk o2 rd1' =>
              cases o2 <;>
                simp [Gen.SrcFastq.read, Gen.SrcFastq.recordClear, readLineOp, hq, hq2, hne, startsWithByte_eq, hst, e1,
                  splitnItems_head, splitnItems_snd, splitnItems_snd'] <;>
                first
                  | rfl
                  | (congr 1; funext t; rcases t with v | ⟨a, b, c2, d⟩
                     · rfl
                     · dsimp only; congr 1; funext t'; rcases t' with v | ⟨a', b', c'⟩ <;> rfl)
          rw [hsrc]
          simp only [hne, hst, Bool.not_true, Bool.false_eq_true, if_false]
          have hs := seq_eq T c sched (T.fqHdr l).1 (T.fqHdr l).2 [] rd1 [] 0 fuel (by omega) (by omega)
          cases hq1 : fqSeqLoop T c sched rd1 [] 0 with
          | mk o1 rd2 =>
            rw [hq1] at hs
            cases o1 with
            | none =>
              obtain ⟨sq, hs⟩ := hs
              simp [ReadPost, hs]
            | some p =>
              obtain ⟨sq, n⟩ := p
              obtain ⟨lb, hs⟩ := hs
              have hqq := qual_eq T c sched (T.fqHdr l).1 (T.fqHdr l).2 sq n (List.range' 0 n) rd2 lb [] (by simp)
              dsimp only
              cases hq3 : fqQualLoop T c sched n rd2 [] with
              | mk o3 rd3 =>
                rw [hq3] at hqq
                cases o3 with
                | none =>
                  obtain ⟨q, hqq⟩ := hqq
                  simp [ReadPost, hs, hqq]
                | some q =>
                  obtain ⟨lb2, hqq⟩ := hqq
                  by_cases hqe : q.isEmpty = true
                  · have hqn : q = [] := by simpa using hqe
                    simp [ReadPost, hs, hqq, hqe, hqn]
                  · have hqe' : q.isEmpty = false := by simpa using hqe
                    have hqn : q ≠ [] := by intro hh; simp [hh] at hqe'
                    simp [ReadPost, hs, hqq, hqe', hqn]
        · have hst' : startsWith l 64 = false := by simpa using hst
          simp [ReadPost, Gen.SrcFastq.read, Gen.SrcFastq.recordClear, readLineOp, hq, hne, startsWithByte_eq, hst']

/-- **`Reader::read`** = the stateful mirror `fqReadS` run with the source's header split (`srcTxt`), for every reader state,
capacity and schedule; fuel: more than the pending bytes; fewer than 2^31 bytes pending (the `i32` line counter) -/
theorem read_eq_model (c : Nat) (sched : Nat → Nat) (rd : St) (lb0 id0 : Bytes) (desc0 : Option Bytes) (seq0 qual0 : Bytes)
    (fuel : Nat) (hf : rd.pending.length < fuel) (h31 : rd.pending.length < 2 ^ 31) :
    ReadPost (fqReadS srcTxt c sched rd)
      (Gen.SrcFastq.read (readLineOp c sched) trimEndU rd lb0 id0 desc0 seq0 qual0 fuel) :=
  read_eq_model_gen srcTxt (fun _ => rfl) c sched rd lb0 id0 desc0 seq0 qual0 fuel hf h31


/-! ## `Records::next` and the drained iterator -/

theorem fqSeqLoop_le (T : Txt) (c : Nat) (sched : Nat → Nat) (rd : St) (seq : Bytes) (n : Nat) :
    (fqSeqLoop T c sched rd seq n).2.pending.length ≤ rd.pending.length := by
  fun_induction fqSeqLoop T c sched rd seq n with
  | case1 rd seq n rd' h => have := readLineStr_le c sched rd; rw [h] at this; exact this
  | case2 rd seq n l rd' h hc2 => have := readLineStr_le c sched rd; rw [h] at this; exact this
  | case3 rd seq n l rd' h hc3 ih =>
    have := readLineStr_le c sched rd
    rw [h] at this
    simp only at this
    omega

theorem fqQualLoop_le (T : Txt) (c : Nat) (sched : Nat → Nat) :
    ∀ (n : Nat) (rd : St) (q : Bytes), (fqQualLoop T c sched n rd q).2.pending.length ≤ rd.pending.length := by
  intro n
  induction n with
  | zero => intro rd q; simp [fqQualLoop]
  | succ n ih =>
    intro rd q
    simp only [fqQualLoop]
    have := readLineStr_le c sched rd
    cases hq : readLineStr c sched rd with
    | mk o rd' =>
      rw [hq] at this
      simp only at this
      cases o with
      | none => exact this
      | some l =>
        have h2 := ih rd' (q ++ T.trim l)
        simp only at h2 ⊢
        omega

/-- `read` never un-reads -/
theorem fqReadS_le (T : Txt) (c : Nat) (sched : Nat → Nat) (rd : St) :
    (fqReadS T c sched rd).2.pending.length ≤ rd.pending.length := by
  unfold fqReadS
  have h1 := readLineStr_le c sched rd
  cases hq : readLineStr c sched rd with
  | mk o rd1 =>
    rw [hq] at h1
    simp only at h1
    cases o with
    | none => exact h1
    | some l =>
      dsimp only
      split
      · exact h1
      · split
        · exact h1
        · have h2 := fqSeqLoop_le T c sched rd1 [] 0
          cases hq1 : fqSeqLoop T c sched rd1 [] 0 with
          | mk o1 rd2 =>
            rw [hq1] at h2
            simp only at h2
            cases o1 with
            | none => dsimp only; omega
            | some p =>
              obtain ⟨sq, n⟩ := p
              dsimp only
              have h3 := fqQualLoop_le T c sched n rd2 []
              cases hq3 : fqQualLoop T c sched n rd2 [] with
              | mk o3 rd3 =>
                rw [hq3] at h3
                simp only at h3
                cases o3 with
                | none => dsimp only; omega
                | some q => dsimp only; split <;> (dsimp only; omega)

/-- a record the mirror's `read` returns has non-empty qualities (an empty quality string is `IncompleteRecord`) -/
theorem fqReadS_ok_qual_ne (T : Txt) (c : Nat) (sched : Nat → Nat) (rd : St) (r : FqRec)
    (h : (fqReadS T c sched rd).1 = .item (.ok r)) : r.qual ≠ [] := by
  unfold fqReadS at h
  cases hq : readLineStr c sched rd with
  | mk o rd1 =>
    rw [hq] at h
    cases o with
    | none => simp at h
    | some l =>
      dsimp only at h
      split at h
      · simp at h
      · split at h
        · simp at h
        · cases hq1 : fqSeqLoop T c sched rd1 [] 0 with
          | mk o1 rd2 =>
            rw [hq1] at h
            cases o1 with
            | none => simp at h
            | some p =>
              obtain ⟨sq, n⟩ := p
              dsimp only at h
              cases hq3 : fqQualLoop T c sched n rd2 [] with
              | mk o3 rd3 =>
                rw [hq3] at h
                cases o3 with
                | none => simp at h
                | some q =>
                  dsimp only at h
                  split at h
                  · simp at h
                  · rename_i hne
                    simp only [FqOut.item.injEq, FqItem.ok.injEq] at h
                    subst h
                    simpa using hne

/-- the `Record` of the generated file for a model record -/
@[reducible] def toRec (r : FqRec) : Record := ⟨r.id, r.desc, r.seq, r.qual⟩

/-- what `Records::next` hands out for an item of the mirror -/
def ofItem : SItem FqItem → Except Error Record
  | .item (.ok r) => .ok (toRec r)
  | .item .missingAt => .error Error.MissingAt
  | .item .incomplete => .error Error.IncompleteRecord
  | .utf8 => .error (Error.ReadError invalidData)

/-- what `next` returns for an outcome of the mirror's `read` -/
def ofOut : FqOut → Option (Except Error Record)
  | .eof => none
  | .item i => some (ofItem (.item i))
  | .utf8 => some (ofItem .utf8)

/-- **`Records::next`** = one `read` of the mirror: `None` at end of input, otherwise `Some` of the record or of the error
(the iteration goes on after an error) -/
theorem next_eq_model (c : Nat) (sched : Nat → Nat) (rd : St) (lb : Bytes)
    (fuel : Nat) (hf : rd.pending.length < fuel) (h31 : rd.pending.length < 2 ^ 31) :
    ∃ lb', Gen.SrcFastq.next (readLineOp c sched) trimEndU rd lb fuel =
      Res.ok (ofOut (fqReadS srcTxt c sched rd).1, (fqReadS srcTxt c sched rd).2, lb') := by
  have h := read_eq_model c sched rd lb [] none [] [] fuel hf h31
  cases hq : fqReadS srcTxt c sched rd with
  | mk o rd' =>
    rw [hq] at h
    cases o with
    | eof =>
      obtain ⟨lb', h'⟩ := h
      have h'' : Gen.SrcFastq.read (readLineOp c sched) trimEndU rd lb [] none [] [] fuel = _ := h'
      exact ⟨lb', by simp [Gen.SrcFastq.next, Gen.SrcFastq.recordNew, Gen.SrcFastq.recordIsEmpty, h'', ofOut]⟩
    | utf8 =>
      obtain ⟨lb', i, d, s, q, h'⟩ := h
      have h'' : Gen.SrcFastq.read (readLineOp c sched) trimEndU rd lb [] none [] [] fuel = _ := h'
      exact ⟨lb', by simp [Gen.SrcFastq.next, Gen.SrcFastq.recordNew, h'', ofOut, ofItem]⟩
    | item it =>
      cases it with
      | missingAt =>
        obtain ⟨lb', i, d, s, q, h'⟩ := h
        have h'' : Gen.SrcFastq.read (readLineOp c sched) trimEndU rd lb [] none [] [] fuel = _ := h'
        exact ⟨lb', by simp [Gen.SrcFastq.next, Gen.SrcFastq.recordNew, h'', ofOut, ofItem]⟩
      | incomplete =>
        obtain ⟨lb', i, d, s, q, h'⟩ := h
        have h'' : Gen.SrcFastq.read (readLineOp c sched) trimEndU rd lb [] none [] [] fuel = _ := h'
        exact ⟨lb', by simp [Gen.SrcFastq.next, Gen.SrcFastq.recordNew, h'', ofOut, ofItem]⟩
      | ok r =>
        obtain ⟨lb', h'⟩ := h
        have h'' : Gen.SrcFastq.read (readLineOp c sched) trimEndU rd lb [] none [] [] fuel = _ := h'
        -- a record the mirror returns as an item has non-empty qualities
        have hqn : r.qual ≠ [] := fqReadS_ok_qual_ne srcTxt c sched rd r (by rw [hq])
        refine ⟨lb', ?_⟩
        simp [Gen.SrcFastq.next, Gen.SrcFastq.recordNew, Gen.SrcFastq.recordIsEmpty, h'', ofOut, ofItem, hqn]

/-- the translated iterator as a state transformer (`Rs.drain`): state = (`BufReader`, scratch line buffer) -/
def srcNext (c : Nat) (sched : Nat → Nat) (fuel : Nat) (s : St × Bytes) : Res ((St × Bytes) × Option (Except Error Record)) := do
  let (o, rd, lb) ← Gen.SrcFastq.next (readLineOp c sched) trimEndU s.1 s.2 fuel
  pure ((rd, lb), o)

/-- **`Records` drained** = the mirror's `fqDrain` (run with the source's header split) -/
theorem drain_eq_model (c : Nat) (sched : Nat → Nat) (fuel : Nat) :
    ∀ (m n : Nat) (rd : St) (lb : Bytes) (k : Nat), rd.pending.length < fuel → rd.pending.length < 2 ^ 31 →
      fqNextCalls srcTxt c sched m rd = some k → k ≤ n →
      Rs.drain (srcNext c sched fuel) n (rd, lb) = Res.ok ((fqDrain srcTxt c sched m rd).1.map ofItem) := by
  intro m
  induction m with
  | zero => intro n rd lb k hf h31 hk; simp [fqNextCalls] at hk
  | succ m ih =>
    intro n rd lb k hf h31 hk hkn
    obtain ⟨lb', hn⟩ := next_eq_model c sched rd lb fuel hf h31
    have hle := fqReadS_le srcTxt c sched rd
    simp only [fqNextCalls] at hk
    simp only [fqDrain]
    cases hq : fqReadS srcTxt c sched rd with
    | mk o rd' =>
      rw [hq] at hn hk hle
      simp only at hle
      cases o with
      | eof =>
        obtain ⟨n', rfl⟩ : ∃ n', n = n' + 1 := ⟨n - 1, by simp only [Option.some.injEq] at hk; omega⟩
        simp [Rs.drain, srcNext, hn, ofOut]
      | item it =>
        simp only [Option.map_eq_some_iff] at hk
        obtain ⟨k', hk', rfl⟩ := hk
        obtain ⟨n', rfl⟩ : ∃ n', n = n' + 1 := ⟨n - 1, by omega⟩
        have := ih n' rd' lb' k' (by omega) (by omega) hk' (by omega)
        simp [Rs.drain, srcNext, hn, ofOut, this]
      | utf8 =>
        simp only [Option.map_eq_some_iff] at hk
        obtain ⟨k', hk', rfl⟩ := hk
        obtain ⟨n', rfl⟩ : ∃ n', n = n' + 1 := ⟨n - 1, by omega⟩
        have := ih n' rd' lb' k' (by omega) (by omega) hk' (by omega)
        simp [Rs.drain, srcNext, hn, ofOut, this]

end RbV.Thm.GenSrcFastq
