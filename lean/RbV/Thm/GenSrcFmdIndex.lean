import RbV.Thm.GenSrcFmdAllSmems
import RbV.Lemmas.SmemsFmd
/-!
# The translated FMD-index code on an FMD index: no panic, and exactly the supermaximal matches (C06)

`GenSrcFmdSmems.smems_eq_model` / `GenSrcFmdAllSmems.all_smems_eq_model` hold for every family of operations that the
translated extension functions compute on a closed set of *safe* intervals.  Here the set is instantiated for `less` /
`occ` functions with the three facts every FM-index provides (`IdxFacts`: values `≤ n`, `occ` monotone in the row) —
`Safe n d iv`: bounds non-zero, size `≤ n`, and head-room for `d` more extensions (every extension adds at most `11·n`
to a bound, `2·n` to the other, one to `match_size`) — and the operations are the **translated functions themselves**
(`srcOps`, made total by an arbitrary value where they panic; on safe intervals they do not).  With the lock-step theorem
`sim_smems` (`RbV/Lemmas/SmemsSim.lean`, any operations that implement the string-level ones) this gives
`smems_source_correct` / `all_smems_source_correct`.  The size hypothesis `(13·n + 2)·(|pattern| + 2) < 2^64` keeps the
crude head-room argument inside `usize` (the true values are far smaller: every bound stays `≤ n`).
-/
set_option linter.unusedSimpArgs false
set_option linter.unusedVariables false

namespace RbV.Thm.GenSrcFmdIndex
open RbV RbV.Rs RbV.Gen RbV.FMDModel RbV.SmemModel RbV.Thm.GenSrcFmdExt RbV.Thm.GenSrcFmdSmems
  RbV.Thm.GenSrcFmdAllSmems

/-- what the arithmetic needs of `less` / `occ` -/
structure IdxFacts (lessF : Nat → Nat) (occF : Nat → Nat → Nat) (n : Nat) : Prop where
  occ_le : ∀ r b, occF r b ≤ n
  occ_mono : ∀ r r' b, r ≤ r' → occF r b ≤ occF r' b
  less_le : ∀ a, lessF a ≤ n

theorem sum_map_le (f : Nat → Nat) (N : Nat) (h : ∀ b, f b ≤ N) : ∀ ord : List Nat, (ord.map f).sum ≤ ord.length * N
  | [] => by simp
  | b :: rest => by
    have := sum_map_le f N h rest
    have hb := h b
    simp only [List.map_cons, List.sum_cons, List.length_cons, Nat.succ_mul]
    omega

theorem extLoop_bounds (occF : Nat → Nat → Nat) (iv : Bi) (a N : Nat) (hN : ∀ r b, occF r b ≤ N) :
    ∀ (ord : List Nat) (l s o : Nat), s ≤ N →
      l ≤ (extLoop occF iv a ord (l, s, o)).1 ∧ (extLoop occF iv a ord (l, s, o)).1 ≤ l + s + ord.length * N ∧
        (extLoop occF iv a ord (l, s, o)).2.1 ≤ N := by
  intro ord
  induction ord with
  | nil => intro l s o hs; simp [extLoop]; omega
  | cons b rest ih =>
    intro l s o hs
    have hs' : occF (iv.lower + iv.size - 1) b - (if iv.lower = 0 then 0 else occF (iv.lower - 1) b) ≤ N := by
      have := hN (iv.lower + iv.size - 1) b; omega
    simp only [extLoop, List.length_cons, Nat.succ_mul]
    split
    · simp only; omega
    · have := ih (l + s) _ (if iv.lower = 0 then 0 else occF (iv.lower - 1) b) hs'
      omega

/-- head-room consumed by one extension -/
def M (n : Nat) : Nat := 13 * n + 2

/-- `iv` has non-zero bounds, size `≤ n` and head-room `H` below `2^64 - 1` -/
def SH (n H : Nat) (iv : Bi) : Prop :=
  1 ≤ iv.lower ∧ 1 ≤ iv.lowerRev ∧ iv.size ≤ n ∧ iv.lower + H < 2 ^ 64 ∧ iv.lowerRev + H < 2 ^ 64 ∧
    iv.matchSize + H < 2 ^ 64

/-- safe for `d` more extensions -/
def Safe (n d : Nat) (iv : Bi) : Prop := SH n (M n * d) iv

section step
variable {lessF : Nat → Nat} {occF : Nat → Nat → Nat} {n : Nat} (hI : IdxFacts lessF occF n)

theorem order_length : order.length = 11 := rfl

include hI in
theorem occMono (iv : Bi) (ord : List Nat) : OccMono occF iv ord := by
  intro b _
  split
  · omega
  · exact hI.occ_mono _ _ _ (by omega)

include hI in
theorem sOf_le (iv : Bi) (b : Nat) : sOf occF iv b ≤ n := by
  unfold sOf; have := hI.occ_le (iv.lower + iv.size - 1) b; omega

include hI in
/-- one `backward_ext` from an interval with head-room `H + M n` -/
theorem bwd_step (iv : Bi) (a H : Nat) (hs : SH n (H + M n) iv) :
    ∃ r, SrcFmdExt.backward_ext lessF occF (toT iv) a = Res.ok r ∧
      (0 < iv.size → ofT r = backwardExt lessF occF iv a) ∧ (iv.size = 0 → (ofT r).size = 0) ∧
      (ofT r).size ≤ n ∧ (1 ≤ lessF a → SH n H (ofT r)) := by
  obtain ⟨h1, h2, h3, h4, h5, h6⟩ := hs
  unfold M at h4 h5 h6
  have hle := hI.less_le a
  have hsum := sum_map_le (sOf occF iv) n (sOf_le hI iv) order
  rw [order_length] at hsum
  by_cases hpos : 0 < iv.size
  · have heq := backward_ext_eq_model lessF occF iv a n hpos (by omega) (occMono hI iv order) hI.occ_le (by omega)
      (by omega) (by omega)
    have hb := extLoop_bounds occF iv a n hI.occ_le order iv.lowerRev 0 0 (by omega)
    have ho := extLoop_o_le occF iv a n hI.occ_le order (iv.lowerRev, 0, 0) (by simp)
    rw [order_length] at hb
    refine ⟨_, heq, fun _ => by simp, fun h => by omega, ?_, ?_⟩
    · simp only [ofT_toT, backwardExt]; exact hb.2.2
    · intro hl
      simp only [ofT_toT, backwardExt, SH]
      refine ⟨by omega, by omega, hb.2.2, by omega, by omega, by omega⟩
  · have h0 : iv.size = 0 := by omega
    have hd := backward_ext_dead lessF occF iv a n (2 ^ 64 - 1 - H) h0 h1 (by omega) h2 (by omega) (by omega) hI.occ_le
      (by omega) (by omega)
    unfold DeadOk at hd
    split at hd
    · rename_i r hr
      obtain ⟨d1, d2, d3, d4, d5, d6⟩ := hd
      refine ⟨r, hr, fun h => by omega, fun _ => d1, by simp only [ofT]; omega, ?_⟩
      intro hl
      simp only [SH, ofT]
      have := d4 trivial
      have := d2 hl
      refine ⟨by omega, by omega, by omega, by omega, by omega, by omega⟩
    · exact absurd hd id

include hI in
/-- one `forward_ext` from an interval with head-room `H + M n` -/
theorem fwd_step (iv : Bi) (a H : Nat) (hs : SH n (H + M n) iv) :
    ∃ r, SrcFmdExt.forward_ext lessF occF dnaCompl (toT iv) a = Res.ok r ∧
      (0 < iv.size → ofT r = forwardExt lessF occF iv a) ∧ (iv.size = 0 → (ofT r).size = 0) ∧
      (ofT r).size ≤ n ∧ (1 ≤ lessF (dnaCompl a) → SH n H (ofT r)) := by
  obtain ⟨h1, h2, h3, h4, h5, h6⟩ := hs
  unfold M at h4 h5 h6
  have hle := hI.less_le (dnaCompl a)
  have hsum := sum_map_le (sOf occF (swapped iv)) n (sOf_le hI (swapped iv)) order
  rw [order_length] at hsum
  by_cases hpos : 0 < iv.size
  · have heq := forward_ext_eq_model lessF occF iv a n hpos (by omega) (occMono hI (swapped iv) order) hI.occ_le
      (by simp only [swapped] at hsum ⊢; omega) (by omega) (by omega)
    have hb := extLoop_bounds occF (swapped iv) (dnaCompl a) n hI.occ_le order iv.lower 0 0 (by omega)
    have ho := extLoop_o_le occF (swapped iv) (dnaCompl a) n hI.occ_le order (iv.lower, 0, 0) (by simp)
    rw [order_length] at hb
    refine ⟨_, heq, fun _ => by simp, fun h => by omega, ?_, ?_⟩
    · simp only [ofT_toT, forwardExt, backwardExt, swapped]; exact hb.2.2
    · intro hl
      simp only [ofT_toT, forwardExt, backwardExt, swapped, SH]
      simp only [swapped] at hb ho
      refine ⟨by omega, by omega, hb.2.2, by omega, by omega, by omega⟩
  · have h0 : iv.size = 0 := by omega
    have hd := forward_ext_dead lessF occF iv a n (2 ^ 64 - 1 - H) h0 h1 (by omega) h2 (by omega) (by omega) hI.occ_le
      (by omega) (by omega)
    unfold DeadOk at hd
    split at hd
    · rename_i r hr
      obtain ⟨d1, d2, d3, d4, d5, d6⟩ := hd
      refine ⟨r, hr, fun h => by omega, fun _ => d1, by simp only [ofT]; omega, ?_⟩
      intro hl
      simp only [SH, ofT]
      have := d2 trivial
      have := d4 hl
      refine ⟨by omega, by omega, by omega, by omega, by omega, by omega⟩
    · exact absurd hd id

end step

/-! ### the translated functions as (total) operations; they are safe -/

/-- the value of a translated call, an arbitrary interval where it panics -/
def totB (x : Res BiT) (d : Bi) : Bi :=
  match x with
  | .ok r => ofT r
  | _ => d

/-- **the operations the translated code performs** -/
def srcOps (lessF : Nat → Nat) (occF : Nat → Nat → Nat) : Ops Bi where
  size := fun iv => iv.size
  initWith := fun _ a => totB (SrcFmdExt.init_interval_with lessF dnaCompl a) ⟨0, 0, 0, 0⟩
  fwd := fun iv a => totB (SrcFmdExt.forward_ext lessF occF dnaCompl (toT iv) a) iv
  bwd := fun iv a => totB (SrcFmdExt.backward_ext lessF occF (toT iv) a) iv

/-- what the pattern symbols satisfy on an FMD index (DNA symbols: below 255, the sentinel is smaller) -/
def SymOk (lessF : Nat → Nat) (a : Nat) : Prop :=
  1 ≤ lessF a ∧ 1 ≤ lessF (dnaCompl a) ∧ a < 255 ∧ lessF a ≤ lessF (a + 1)

section safe
variable {lessF : Nat → Nat} {occF : Nat → Nat → Nat} {n : Nat} (hI : IdxFacts lessF occF n) {pat : List Nat}
  (hsym : ∀ a ∈ pat, SymOk lessF a) (hsz : M n * (pat.length + 2) < 2 ^ 64)

theorem init_src (a : Nat) (ha : SymOk lessF a) :
    SrcFmdExt.init_interval_with lessF dnaCompl a = Res.ok (toT (initIntervalWith lessF a)) ∧
      (srcOps lessF occF).initWith 0 a = initIntervalWith lessF a := by
  have h := init_interval_with_eq_model lessF a ha.2.2.1 ha.2.2.2
  exact ⟨h, by simp [srcOps, totB, h]⟩

include hI hsym hsz in
theorem safeOps : SafeOps lessF occF (srcOps lessF occF) (Safe n) pat := by
  have hM : M n ≤ M n * (pat.length + 2) := Nat.le_mul_of_pos_right _ (by omega)
  have hn : n < 2 ^ 61 := by unfold M at hM hsz; omega
  refine ⟨fun _ => rfl, ?_, ?_, ?_, ?_, ?_⟩
  · intro d iv h
    unfold Safe SH at h ⊢
    rw [Nat.mul_succ] at h
    omega
  · intro d iv h
    unfold Safe SH at h
    omega
  · intro i hi
    have ha := hsym _ (getD_mem' pat i hi)
    obtain ⟨h1, h2⟩ := init_src (occF := occF) (pat.getD i 0) ha
    have h2' : (srcOps lessF occF).initWith i (pat.getD i 0) = initIntervalWith lessF (pat.getD i 0) := h2
    rw [h2']
    refine ⟨h1, ?_⟩
    have e : M n * (pat.length + 2) = M n * pat.length + 2 * M n := by rw [Nat.mul_add]; omega
    have l1 := hI.less_le (pat.getD i 0)
    have l2 := hI.less_le (dnaCompl (pat.getD i 0))
    have l3 := hI.less_le (pat.getD i 0 + 1)
    unfold Safe SH initIntervalWith
    unfold M at e hsz ⊢
    simp only
    refine ⟨ha.1, ha.2.1, by omega, by omega, by omega, by omega⟩
  · intro d iv a h ha
    unfold Safe at h
    rw [Nat.mul_succ] at h
    obtain ⟨r, hr, _, _, _, hs⟩ := fwd_step hI iv a (M n * d) h
    have e : (srcOps lessF occF).fwd iv a = ofT r := by simp [srcOps, totB, hr]
    rw [e]
    exact ⟨by simpa using hr, hs (hsym a ha).2.1⟩
  · intro d iv a h ha
    unfold Safe at h
    rw [Nat.mul_succ] at h
    obtain ⟨r, hr, _, _, hsize, hs⟩ := bwd_step hI iv a (M n * d) h
    have e : (srcOps lessF occF).bwd iv a = ofT r := by simp [srcOps, totB, hr]
    rw [e]
    refine ⟨by simpa using hr, by omega, fun hap => hs (hsym a hap).1⟩

end safe

/-! ### on an FMD index the translated operations implement the string-level ones -/

open RbV.FMDSym RbV.LF RbV.BSModel

section fmd
variable (seqs : List (List Nat)) (sa pat : List Nat)
  (hne : seqs ≠ []) (hseqs : ∀ s ∈ seqs, ∀ c ∈ s, isDna c = true)
  (hchk : sortedAllB (fmdText seqs) sa = true) (hpat : ∀ c ∈ pat, isDna c = true)

/-- `less` / `occ` of the index -/
abbrev lessI := lessRef (bwtOf (fmdText seqs) sa)
abbrev occI := occRef (bwtOf (fmdText seqs) sa)

theorem bwt_length : (bwtOf (fmdText seqs) sa).length = sa.length := by simp [bwtOf]

theorem idxFacts : IdxFacts (lessI seqs sa) (occI seqs sa) sa.length := by
  refine ⟨?_, ?_, ?_⟩
  · intro r b
    unfold occI occRef
    have h1 : ((bwtOf (fmdText seqs) sa).take (r + 1)).count b ≤ ((bwtOf (fmdText seqs) sa).take (r + 1)).length :=
      List.count_le_length
    have h2 : ((bwtOf (fmdText seqs) sa).take (r + 1)).length ≤ (bwtOf (fmdText seqs) sa).length := by
      rw [List.length_take]; exact Nat.min_le_right _ _
    rw [bwt_length] at h2
    omega
  · intro r r' b h
    unfold occI occRef
    apply List.Sublist.count_le
    have : (bwtOf (fmdText seqs) sa).take (r + 1) = ((bwtOf (fmdText seqs) sa).take (r' + 1)).take (r + 1) := by
      rw [List.take_take, Nat.min_eq_left (by omega)]
    rw [this]
    exact List.take_sublist _ _
  · intro a
    unfold lessI lessRef
    have := List.countP_le_length (p := fun x => decide (x < a)) (l := bwtOf (fmdText seqs) sa)
    rw [bwt_length] at this
    exact this

theorem dna_lt (a : Nat) (h : isDna a = true) : a < 255 := by
  simp only [isDna, List.contains_iff_mem, List.mem_cons, List.not_mem_nil, or_false] at h
  omega

include hne hchk in
theorem symOk (a : Nat) (ha : isDna a = true) : SymOk (lessI seqs sa) a := by
  have hperm : sa.Perm (List.range (fmdText seqs).length) := by
    simp only [sortedAllB, Bool.and_eq_true] at hchk
    exact List.isPerm_iff.mp hchk.1
  refine ⟨?_, ?_, dna_lt a ha, ?_⟩
  · have := less_pos seqs sa hne hperm a ha; unfold lessI; omega
  · have := less_pos seqs sa hne hperm _ (isDna_compl _ ha); unfold lessI; omega
  · unfold lessI; rw [lessRef_succ]; omega

/-- the candidate relation: `GFmd`, and `match_size` is the length of the substring -/
def GSrc (x : Bi) (b e : Nat) : Prop := GFmd (fmdText seqs) sa pat x b e ∧ x.matchSize = e - b

/-- an empty interval that can still be extended without overflow -/
def ESrc (x : Bi) : Prop := EFmd x ∧ x.lower ≤ sa.length ∧ x.lowerRev ≤ sa.length ∧ x.matchSize = 1

include hne hseqs hchk hpat in
theorem simHyp_src (hsz : M sa.length * (pat.length + 2) < 2 ^ 64) :
    SimHyp (srcOps (lessI seqs sa) (occI seqs sa)) (cnt (fmdText seqs) pat) pat.length pat (GSrc seqs sa pat)
      (ESrc sa) := by
  have hI := idxFacts seqs sa
  have hB := simHyp_fmd seqs sa pat hne hseqs hchk hpat
  have hM : M sa.length ≤ M sa.length * (pat.length + 2) := Nat.le_mul_of_pos_right _ (by omega)
  have hM2 : M sa.length * (pat.length + 2) = M sa.length * pat.length + 2 * M sa.length := by rw [Nat.mul_add]; omega
  have hlen : pat.length ≤ M sa.length * pat.length := Nat.le_mul_of_pos_left _ (by unfold M; omega)
  have hM1 : 1 ≤ M sa.length := by unfold M; omega
  have hA2 : 2 * (13 * sa.length + 2) < 2 ^ 64 := by
    have : 2 * M sa.length < 2 ^ 64 := by omega
    unfold M at this; exact this
  have hC : pat.length + 1 < 2 ^ 64 := by omega
  clear hM hM2 hlen hM1
  have hperm : sa.Perm (List.range (fmdText seqs).length) := by
    simp only [sortedAllB, Bool.and_eq_true] at hchk
    exact List.isPerm_iff.mp hchk.1
  refine ⟨fun x b e h => h.1.1, ?_, ?_, ?_, ?_⟩
  · intro i hi
    have ha := hpat _ (RbV.FMDModel.getD_mem pat i hi)
    obtain ⟨_, h2⟩ := init_src (occF := occI seqs sa) (pat.getD i 0) (symOk seqs sa hne hchk _ ha)
    have h2' : (srcOps (lessI seqs sa) (occI seqs sa)).initWith i (pat.getD i 0) =
        initIntervalWith (lessI seqs sa) (pat.getD i 0) := h2
    rw [h2']
    obtain ⟨g, e⟩ := hB.init i hi
    refine ⟨⟨g, by simp [initIntervalWith]⟩, fun h0 => ⟨e h0, ?_, ?_, rfl⟩⟩
    · exact hI.less_le _
    · exact hI.less_le _
  · intro x b e hg h0 hbe hem
    have hpos : 0 < x.size := by rw [hg.1.1]; omega
    obtain ⟨hiv1, hiv2⟩ := hg.1.2 h0
    have hb1 := hiv1.2.1
    have hb2 := hiv2.2.1
    have hsum := sum_map_le (sOf (occI seqs sa) (swapped x)) sa.length (sOf_le hI (swapped x)) order
    rw [order_length] at hsum
    have hle := hI.less_le (dnaCompl (pat.getD e 0))
    have hms := hg.2
    have heq := forward_ext_eq_model (lessI seqs sa) (occI seqs sa) x (pat.getD e 0) sa.length hpos
      (by omega) (occMono hI (swapped x) order) hI.occ_le
      (by simp only [swapped] at hsum ⊢; omega) (by omega)
      (by omega)
    have e1 : (srcOps (lessI seqs sa) (occI seqs sa)).fwd x (pat.getD e 0) =
        forwardExt (lessI seqs sa) (occI seqs sa) x (pat.getD e 0) := by simp [-List.getD_eq_getElem?_getD, srcOps, totB, heq]
    rw [e1]
    refine ⟨hB.fwd x b e hg.1 h0 hbe hem, ?_⟩
    simp only [forwardExt, backwardExt, swapped]
    omega
  · intro x b e hg h0 hb hbe hem
    have hpos : 0 < x.size := by rw [hg.1.1]; omega
    obtain ⟨hiv1, hiv2⟩ := hg.1.2 h0
    have hb1 := hiv1.2.1
    have hb2 := hiv2.2.1
    have hsum := sum_map_le (sOf (occI seqs sa) x) sa.length (sOf_le hI x) order
    rw [order_length] at hsum
    have hle := hI.less_le (pat.getD (b - 1) 0)
    have hms := hg.2
    have heq := backward_ext_eq_model (lessI seqs sa) (occI seqs sa) x (pat.getD (b - 1) 0) sa.length hpos
      (by omega) (occMono hI x order) hI.occ_le
      (by omega) (by omega)
      (by omega)
    have e1 : (srcOps (lessI seqs sa) (occI seqs sa)).bwd x (pat.getD (b - 1) 0) =
        backwardExt (lessI seqs sa) (occI seqs sa) x (pat.getD (b - 1) 0) := by simp [-List.getD_eq_getElem?_getD, srcOps, totB, heq]
    rw [e1]
    refine ⟨hB.bwd x b e hg.1 h0 hb hbe hem, ?_⟩
    simp only [backwardExt]
    omega
  · intro x hx a
    obtain ⟨⟨h0, hl, hr⟩, hlB, hrB, hms⟩ := hx
    have hs : SH sa.length (0 + M sa.length) x := by
      unfold SH M; refine ⟨by omega, by omega, by omega, by omega, by omega, by omega⟩
    obtain ⟨r1, hr1, _, hz1, _, _⟩ := fwd_step hI x a 0 hs
    obtain ⟨r2, hr2, _, hz2, _, _⟩ := bwd_step hI x a 0 hs
    constructor
    · show (totB (SrcFmdExt.forward_ext _ _ dnaCompl (toT x) a) x).size = 0
      rw [hr1]; exact hz1 h0
    · show (totB (SrcFmdExt.backward_ext _ _ (toT x) a) x).size = 0
      rw [hr2]; exact hz2 h0

/-! ### correctness of the translated sweep -/

/-- what the harness prints for a translated match -/
def obsT (t : HitT) : SmemObs := ⟨t.2.1, t.2.2, t.1.1, t.1.1 + t.1.2.2.1, t.1.2.1, t.1.2.1 + t.1.2.2.1⟩

theorem obsT_hitT (h : Hit Bi) : obsT (hitT h) = hitObs h := rfl

theorem map_obsT (hs : List (Hit Bi)) : (hs.map hitT).map obsT = hs.map hitObs := by
  rw [List.map_map]; rfl

include hne hseqs hchk hpat in
/-- the sweep over the translated operations satisfies the property, and its matches lie inside the pattern -/
theorem smems_src_prop (hsz : M sa.length * (pat.length + 2) < 2 ^ 64) (i l : Nat) (hi : i < pat.length) (hl : 1 ≤ l) :
    SmemsProp (fmdText seqs) sa pat i l
        ((SmemModel.smems (srcOps (lessI seqs sa) (occI seqs sa)) pat i l).map hitObs) ∧
      ∀ h ∈ SmemModel.smems (srcOps (lessI seqs sa) (occI seqs sa)) pat i l, h.pos + h.len ≤ pat.length := by
  have hS := simHyp_src seqs sa pat hne hseqs hchk hpat hsz
  have hsim := sim_smems (countLaws_cnt (fmdText seqs) pat) hS rfl i l hi
  have heq : (SmemModel.smems (srcOps (lessI seqs sa) (occI seqs sa)) pat i l).map (fun h => (h.pos, h.len)) =
      smemsStr (fmdText seqs) pat i l := by
    unfold smemsStr
    exact hsim.map_eq _ _ (fun a b hab => by rw [hab.1, hab.2.1])
  refine ⟨⟨?_, ?_⟩, ?_⟩
  · intro b len
    rw [← mem_smemsRef, ← smemsStr_correct _ pat i l hi hl, ← heq]
    simp only [List.mem_map, hitObs, Prod.mk.injEq]
    constructor
    · rintro ⟨o, ⟨h, hh, rfl⟩, rfl, rfl⟩; exact ⟨h, hh, rfl, rfl⟩
    · rintro ⟨h, hh, rfl, rfl⟩; exact ⟨_, ⟨h, hh, rfl⟩, rfl, rfl⟩
  · intro o ho
    obtain ⟨h, hh, rfl⟩ := List.mem_map.mp ho
    obtain ⟨k, hk, hpos, hlen, hg⟩ := hsim.mem_left h hh
    have habs := (smems_abs_correct (countLaws_cnt (fmdText seqs) pat) pat rfl hi l hl k).mp hk
    rw [habs.1] at hg
    simp only at hg
    rw [← hpos, ← hlen] at hg
    apply intervalsOk_of_G seqs sa pat hchk h hg.1
    rw [hpos, hlen]
    exact (absSmem_iff_smem _ _ _ _).mp habs.2.2.1
  · intro h hh
    obtain ⟨k, hk, hpos, hlen, _⟩ := hsim.mem_left h hh
    have habs := (smems_abs_correct (countLaws_cnt (fmdText seqs) pat) pat rfl hi l hl k).mp hk
    have := habs.2.2.1.2.1
    omega

include hne hseqs hchk hpat in
theorem allSmems_src_prop (hsz : M sa.length * (pat.length + 2) < 2 ^ 64) (l : Nat) (hl : 1 ≤ l) :
    AllSmemsProp (fmdText seqs) sa pat l
      ((SmemModel.allSmems (srcOps (lessI seqs sa) (occI seqs sa)) pat l).map hitObs) := by
  have hS := simHyp_src seqs sa pat hne hseqs hchk hpat hsz
  have hsim := sim_allSmems (countLaws_cnt (fmdText seqs) pat) hS rfl l
  have heq : (SmemModel.allSmems (srcOps (lessI seqs sa) (occI seqs sa)) pat l).map (fun h => (h.pos, h.len)) =
      allSmemsStr (fmdText seqs) pat l := by
    unfold allSmemsStr
    exact hsim.map_eq _ _ (fun a b hab => by rw [hab.1, hab.2.1])
  constructor
  · intro b len
    rw [← mem_allSmemsMin, ← allSmemsStr_correct _ pat l hl, ← heq]
    simp only [List.mem_map, hitObs, Prod.mk.injEq]
    constructor
    · rintro ⟨o, ⟨h, hh, rfl⟩, rfl, rfl⟩; exact ⟨h, hh, rfl, rfl⟩
    · rintro ⟨h, hh, rfl, rfl⟩; exact ⟨_, ⟨h, hh, rfl⟩, rfl, rfl⟩
  · intro o ho
    obtain ⟨h, hh, rfl⟩ := List.mem_map.mp ho
    obtain ⟨k, hk, hpos, hlen, hg⟩ := hsim.mem_left h hh
    have habs := (allSmems_abs_correct (countLaws_cnt (fmdText seqs) pat) pat rfl l hl k).mp hk
    rw [habs.1] at hg
    simp only at hg
    rw [← hpos, ← hlen] at hg
    apply intervalsOk_of_G seqs sa pat hchk h hg.1
    rw [hpos, hlen]
    exact (absSmem_iff_smem _ _ _ _).mp habs.2.1

theorem smemsProp_perm {T sa p : List Nat} {i l : Nat} {r1 r2 : List SmemObs} (h : r1.Perm r2)
    (hp : SmemsProp T sa p i l r2) : SmemsProp T sa p i l r1 := by
  refine ⟨fun b len => ?_, fun o ho => hp.2 o (h.mem_iff.mp ho)⟩
  rw [← hp.1 b len]
  constructor
  · rintro ⟨o, ho, h1⟩; exact ⟨o, h.mem_iff.mp ho, h1⟩
  · rintro ⟨o, ho, h1⟩; exact ⟨o, h.mem_iff.mpr ho, h1⟩

theorem allSmemsProp_perm {T sa p : List Nat} {l : Nat} {r1 r2 : List SmemObs} (h : r1.Perm r2)
    (hp : AllSmemsProp T sa p l r2) : AllSmemsProp T sa p l r1 := by
  refine ⟨fun b len => ?_, fun o ho => hp.2 o (h.mem_iff.mp ho)⟩
  rw [← hp.1 b len]
  constructor
  · rintro ⟨o, ho, h1⟩; exact ⟨o, h.mem_iff.mp ho, h1⟩
  · rintro ⟨o, ho, h1⟩; exact ⟨o, h.mem_iff.mpr ho, h1⟩

include hne hseqs hchk hpat in
/-- when `pattern[i]` does not occur, the sweep over the translated operations reports nothing (`l ≥ 1`) -/
theorem smems_src_dead (hsz : M sa.length * (pat.length + 2) < 2 ^ 64) (i l : Nat) (hi : i < pat.length) (hl : 1 ≤ l)
    (hz : ((srcOps (lessI seqs sa) (occI seqs sa)).initWith i (pat.getD i 0)).size = 0) :
    SmemModel.smems (srcOps (lessI seqs sa) (occI seqs sa)) pat i l = [] := by
  have hS := simHyp_src seqs sa pat hne hseqs hchk hpat hsz
  have hsim := sim_smems (countLaws_cnt (fmdText seqs) pat) hS rfl i l hi
  have h0 : cnt (fmdText seqs) pat i (i + 1) = 0 := by
    rw [← hS.size_eq _ _ _ (hS.init i hi).1]; exact hz
  rw [smems_dead (countLaws_cnt (fmdText seqs) pat) pat rfl hi l hl h0] at hsim
  generalize SmemModel.smems (srcOps (lessI seqs sa) (occI seqs sa)) pat i l = ms at hsim
  cases hsim
  rfl

include hne hseqs hchk hpat in
/-- the translated `smems` over `less` / `occ` of the index: no panic, the model's matches over `srcOps` in some order
(`l ≥ 1`: on the dead start only "nothing is reported" is used) -/
theorem smems_src_eq (hsz : M sa.length * (pat.length + 2) < 2 ^ 64) (i l : Nat) (hi : i < pat.length) (hl : 1 ≤ l) :
    ∃ res, SrcFmdSmems.smems (lessI seqs sa) (occI seqs sa) dnaCompl pat i l = Res.ok res ∧
      res.Perm ((SmemModel.smems (srcOps (lessI seqs sa) (occI seqs sa)) pat i l).map hitT) := by
  have hL : pat.length + 1 < 2 ^ 63 := by
    have h1 : pat.length + 2 ≤ M sa.length * (pat.length + 2) := Nat.le_mul_of_pos_left _ (by unfold M; omega)
    have h2 : 2 * (pat.length + 2) ≤ M sa.length * (pat.length + 2) := Nat.mul_le_mul_right _ (by unfold M; omega)
    omega
  exact smems_eq_model_of (safeOps (idxFacts seqs sa) (fun a ha => symOk seqs sa hne hchk a (hpat a ha)) hsz) i l hi hL
    (smems_src_dead seqs sa pat hne hseqs hchk hpat hsz i l hi hl)

include hne hseqs hchk hpat in
/-- **the translated `smems` returns exactly the supermaximal matches** (on every index whose array passes
`sortedAllB`; `Thm/C06.lean` restates it for `checkSA`) -/
theorem smems_source_correct (hsz : M sa.length * (pat.length + 2) < 2 ^ 64) (i l : Nat) (hi : i < pat.length)
    (hl : 1 ≤ l) :
    ∃ res, SrcFmdSmems.smems (lessI seqs sa) (occI seqs sa) dnaCompl pat i l = Res.ok res ∧
      SmemsProp (fmdText seqs) sa pat i l (res.map obsT) := by
  obtain ⟨res, hres, hperm⟩ := smems_src_eq seqs sa pat hne hseqs hchk hpat hsz i l hi hl
  refine ⟨res, hres, smemsProp_perm (hperm.map obsT) ?_⟩
  rw [map_obsT]
  exact (smems_src_prop seqs sa pat hne hseqs hchk hpat hsz i l hi hl).1

include hne hseqs hchk hpat in
/-- **the translated `all_smems` returns exactly the supermaximal matches of length `≥ l`** -/
theorem all_smems_source_correct (hsz : M sa.length * (pat.length + 2) < 2 ^ 64) (l : Nat) (hl : 1 ≤ l) :
    ∃ res, SrcFmdAllSmems.all_smems (lessI seqs sa) (occI seqs sa) dnaCompl pat l = Res.ok res ∧
      res.Perm ((SmemModel.allSmems (srcOps (lessI seqs sa) (occI seqs sa)) pat l).map hitT) ∧
      AllSmemsProp (fmdText seqs) sa pat l (res.map obsT) := by
  have hL : pat.length + 1 < 2 ^ 63 := by
    have h2 : 2 * (pat.length + 2) ≤ M sa.length * (pat.length + 2) := Nat.mul_le_mul_right _ (by unfold M; omega)
    omega
  have hok : SmemsOk (lessI seqs sa) (occI seqs sa) (srcOps (lessI seqs sa) (occI seqs sa)) pat l := by
    intro i hi
    obtain ⟨res, hres, hperm⟩ := smems_src_eq seqs sa pat hne hseqs hchk hpat hsz i l hi hl
    refine ⟨res, hres, hperm, fun h hh => ?_⟩
    have := (smems_src_prop seqs sa pat hne hseqs hchk hpat hsz i l hi hl).2 h hh
    have := two63_lt
    omega
  obtain ⟨res, hres, hperm⟩ := all_smems_eq_model (lessI seqs sa) (occI seqs sa) _ pat l hok hL
  refine ⟨res, hres, hperm, allSmemsProp_perm (hperm.map obsT) ?_⟩
  rw [map_obsT]
  exact allSmems_src_prop seqs sa pat hne hseqs hchk hpat hsz l hl

end fmd

end RbV.Thm.GenSrcFmdIndex
