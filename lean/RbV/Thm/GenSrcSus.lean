import RbV.Gen.SrcSus
import RbV.Model.Sus
import RbV.Thm.GenSrcBasic
/-!
# The translated text of `suffix_array::shortest_unique_substrings` equals the mirror model `Sus.susModel`

`RbV/Gen/SrcSus.lean` is regenerated from `src/data_structures/suffix_array.rs` by `tools/rs2lean_fm.py` (dialect "fmd") on
every `./check C03`.  The suffix array is read at the slice instance of `SuffixArray` (`get(i)` = `pos[i]?`), the LCP
array as the vector of its values (`Int`s; the container theorem `lcp_container_source_exact` says that the translated
`SmallInts` reads back like one).  Hypotheses = what keeps the code from panicking: the LCP array has `n + 1` entries,
the entries of `pos` are `≤ n`, and — the interesting one — `max(lcp[i], lcp[i+1])` is **not negative** for every row
(`… as usize` of `-1` is `usize::MAX`, and `1 + usize::MAX` overflows): true for every LCP array of a text with `n ≥ 2`,
false for the one-symbol text `$` (see docs/notes/C03.md).
-/
set_option linter.unusedSimpArgs false
set_option linter.unusedVariables false

namespace RbV.Thm.GenSrcSus
open RbV RbV.Rs RbV.Gen RbV.Thm.GenSrc RbV.Sus RbV.Kasai

theorem p63 : (2 : Nat) ^ 63 < 2 ^ 64 := by decide
theorem p62 : (2 : Nat) ^ 62 < 2 ^ 63 := by decide

theorem ofSigned_nonneg {k : Int} (h0 : 0 ≤ k) (h1 : k < 2 ^ 63) : Rs.ofSigned 64 k = k.toNat := by
  have e : k = ((k.toNat : Nat) : Int) := by omega
  have := p63
  rw [e, Rs.ofSigned_natCast (by omega)]
  omega

/-- hypotheses of the loop for row `i` -/
def RowOk (pos : List Nat) (lcp : List Int) (i : Nat) : Prop :=
  pos.getD i 0 ≤ pos.length ∧ 0 ≤ max (lcp.getD i 0) (lcp.getD (i + 1) 0) ∧ max (lcp.getD i 0) (lcp.getD (i + 1) 0) < 2 ^ 62

theorem for1_eq (pos : List Nat) (lcp : List Int) (hlen : lcp.length = pos.length + 1) (hn : pos.length + 1 < 2 ^ 63) :
    ∀ (is : List Nat) (sus : List (Option Nat)), (∀ i ∈ is, i < pos.length ∧ RowOk pos lcp i) → sus.length = pos.length →
      SrcSus.sus_for1 lcp pos pos.length is sus = Res.ok (is.foldl (susStep pos.length pos lcp) sus) := by
  intro is
  induction is with
  | nil => intro sus _ _; simp [SrcSus.sus_for1]
  | cons i rest ih =>
    intro sus hi hs
    obtain ⟨hin, hp, h0, h1⟩ := hi i (by simp)
    have e1 : lcp[i]? = some (lcp.getD i 0) := by
      rw [List.getD_eq_getElem?_getD, List.getElem?_eq_getElem (by omega)]; rfl
    have q63 := p63
    have q62 := p62
    have e2 : Rs.add 64 i 1 = Res.ok (i + 1) := Rs.add_ok (by omega)
    have e2' : Rs.add 64 1 i = Res.ok (i + 1) := by rw [Nat.add_comm i]; exact Rs.add_ok (by omega)
    have e3 : (lcp[i + 1]?).getD 0 = lcp.getD (i + 1) 0 := by rw [List.getD_eq_getElem?_getD]
    have e4 := ofSigned_nonneg h0 (by omega)
    have e5 : Rs.add 64 1 (max (lcp.getD i 0) (lcp.getD (i + 1) 0)).toNat =
        Res.ok (1 + (max (lcp.getD i 0) (lcp.getD (i + 1) 0)).toNat) := Rs.add_ok (by omega)
    have e5' : Rs.add 64 (max (lcp.getD i 0) (lcp.getD (i + 1) 0)).toNat 1 =
        Res.ok (1 + (max (lcp.getD i 0) (lcp.getD (i + 1) 0)).toNat) := by
      rw [Nat.add_comm 1]; exact Rs.add_ok (by omega)
    have e6 : pos[i]? = some (pos.getD i 0) := by
      rw [List.getD_eq_getElem?_getD, List.getElem?_eq_getElem hin]; rfl
    have e7 : Rs.sub pos.length (pos.getD i 0) = Res.ok (pos.length - pos.getD i 0) := Rs.sub_ok hp
    have emax : max (lcp.getD (i + 1) 0) (lcp.getD i 0) = max (lcp.getD i 0) (lcp.getD (i + 1) 0) := Int.max_comm _ _
    have hrest := ih
    by_cases hc : pos.length - pos.getD i 0 ≥ 1 + (max (lcp.getD i 0) (lcp.getD (i + 1) 0)).toNat
    · have e8 : Rs.setIdx sus (pos.getD i 0) (some (1 + (max (lcp.getD i 0) (lcp.getD (i + 1) 0)).toNat)) =
          Res.ok (sus.set (pos.getD i 0) (some (1 + (max (lcp.getD i 0) (lcp.getD (i + 1) 0)).toNat))) := by
        unfold Rs.setIdx; rw [if_pos (by omega)]
      have := hrest (sus.set (pos.getD i 0) (some (1 + (max (lcp.getD i 0) (lcp.getD (i + 1) 0)).toNat)))
        (fun x hx => hi x (List.mem_cons_of_mem _ hx)) (by simpa using hs)
      simp [-List.getD_eq_getElem?_getD, SrcSus.sus_for1, Rs.expect, e1, e2, e2', e3, emax, e4, e5, e5', e6, e7, e8, hc,
        susStep, this]
    · have := hrest sus (fun x hx => hi x (List.mem_cons_of_mem _ hx)) hs
      simp [-List.getD_eq_getElem?_getD, SrcSus.sus_for1, Rs.expect, e1, e2, e2', e3, emax, e4, e5, e5', e6, e7, hc,
        susStep, this]

/-- **translated `shortest_unique_substrings` = mirror model** -/
theorem sus_eq_model (pos : List Nat) (lcp : List Int) (hlen : lcp.length = pos.length + 1)
    (hn : pos.length + 1 < 2 ^ 63) (hrow : ∀ i, i < pos.length → RowOk pos lcp i) :
    SrcSus.sus pos lcp = Res.ok (susModel pos lcp) := by
  have h := for1_eq pos lcp hlen hn (List.range pos.length) (List.replicate pos.length none)
    (fun i hi => ⟨List.mem_range.mp hi, hrow i (List.mem_range.mp hi)⟩) (by simp)
  simp [SrcSus.sus, susModel, ← List.range_eq_range', h]

/-! ### on the LCP array of a sorted suffix array (`n ≥ 2`) the hypotheses hold -/

theorem lcpRef_mem_bounds (t sa : List Nat) : ∀ x ∈ lcpRef t sa, -1 ≤ x ∧ x ≤ (t.length : Int) := by
  intro x hx
  unfold lcpRef at hx
  simp only [List.cons_append, List.mem_cons, List.mem_append, List.mem_map, List.mem_range, List.not_mem_nil,
    or_false] at hx
  rcases hx with rfl | ⟨r, _, rfl⟩ | rfl
  · omega
  · have := cpl_le_left (t.drop (sa.getD r 0)) (t.drop (sa.getD (r + 1) 0))
    have h2 : (t.drop (sa.getD r 0)).length ≤ t.length := by rw [List.length_drop]; omega
    omega
  · omega

theorem lcpRef_getD_bounds (t sa : List Nat) (i : Nat) :
    -1 ≤ (lcpRef t sa).getD i 0 ∧ (lcpRef t sa).getD i 0 ≤ (t.length : Int) := by
  rw [List.getD_eq_getElem?_getD]
  by_cases hi : i < (lcpRef t sa).length
  · rw [List.getElem?_eq_getElem hi]
    exact lcpRef_mem_bounds t sa _ (List.getElem_mem hi)
  · rw [List.getElem?_eq_none (by omega)]
    simp

/-- **the translated `shortest_unique_substrings`, run on a sorted suffix array and its LCP array, returns the length
of the shortest unique substring at every position** (`susRef`; `n ≥ 2`) -/
theorem sus_source_exact (t sa : List Nat) (h : Sorted t sa) (hn : 2 ≤ t.length) (hsz : t.length + 1 < 2 ^ 62) :
    SrcSus.sus sa (lcpRef t sa) = Res.ok ((List.range t.length).map (susRef t)) := by
  have hlen := h.length
  have hsa : sa ≠ [] := by intro e; rw [e] at hlen; simp at hlen; omega
  have q := p62
  rw [← susModel_eq t sa h hn]
  apply sus_eq_model sa (lcpRef t sa) (length_lcpRef t sa hsa) (by omega)
  intro i hi
  refine ⟨?_, ?_, ?_⟩
  · have hm : sa.getD i 0 ∈ sa := by
      rw [List.getD_eq_getElem?_getD, List.getElem?_eq_getElem hi]; exact List.getElem_mem hi
    have := (h.perm.mem_iff).mp hm
    rw [List.mem_range] at this
    omega
  · by_cases h1 : 1 ≤ i
    · have hin := lcpRef_inner t sa (i - 1) (by omega)
      have e : i - 1 + 1 = i := by omega
      rw [e] at hin
      have : (lcpRef t sa).getD i 0 = (cpl (t.drop (sa.getD (i - 1) 0)) (t.drop (sa.getD i 0)) : Int) := by
        rw [List.getD_eq_getElem?_getD, hin]; rfl
      omega
    · have hin := lcpRef_inner t sa i (by omega)
      have : (lcpRef t sa).getD (i + 1) 0 = (cpl (t.drop (sa.getD i 0)) (t.drop (sa.getD (i + 1) 0)) : Int) := by
        rw [List.getD_eq_getElem?_getD, hin]; rfl
      omega
  · have b1 := (lcpRef_getD_bounds t sa i).2
    have b2 := (lcpRef_getD_bounds t sa (i + 1)).2
    omega

end RbV.Thm.GenSrcSus
