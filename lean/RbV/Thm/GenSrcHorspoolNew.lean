import RbV.Gen.SrcHorspoolNew
import RbV.Model.Horspool
import RbV.Thm.GenSrcBasic
/-!
# The translated text of `Horspool::new` equals the mirror model `Horspool.shiftTab`

`RbV/Gen/SrcHorspoolNew.lean` is regenerated from `src/pattern_matching/horspool.rs` by `tools/rs2lean.py` on every
`./check C08`.  The generated function fills a 256-entry vector (`vec![m; 256]`, `shift[a as usize] = m - 1 - j` with both
subtractions checked, `pattern[..m - 1]` a checked sub-slice) in a fold over `zipIdx` (= `.iter().enumerate()`); the
model builds the table as a function by recursion over `p.take (m - 1)` with a running index.  Bridge: the vector is
`tab 256 f` for the model's `f`; symbols are bytes.  For the empty pattern `m - 1` underflows: the translated function
panics (so does the Rust code with overflow checks; without them the slice `pattern[..usize::MAX]` panics).
-/
-- the simp sets name every fact a harmless rewrite of the Rust text may need; on the pinned text some are unused
set_option linter.unusedSimpArgs false

namespace RbV.Thm.GenSrcHorspoolNew
open RbV RbV.Rs RbV.Gen.SrcHorspoolNew RbV.Thm.GenSrc

/-- the translated `for` loop is the model's `shiftLoop` (started at index `j`) -/
theorem for_eq (m : Nat) : ∀ (q : List Nat) (j : Nat) (f : Nat → Nat), (∀ c ∈ q, c < 256) → j + q.length ≤ m - 1 →
    (q.zipIdx j).foldlM (new_for1 m) (tab 256 f) = Res.ok (tab 256 (Horspool.shiftLoop m q j f)) := by
  intro q
  induction q with
  | nil => intro j f _ _; simp [Horspool.shiftLoop]
  | cons a q ih =>
    intro j f hb hlen
    simp only [List.length_cons] at hlen
    have ha : a < 256 := hb a (by simp)
    have e1 : Rs.sub m 1 = Res.ok (m - 1) := Rs.sub_ok (by omega)
    have e2 : Rs.sub (m - 1) j = Res.ok (m - 1 - j) := Rs.sub_ok (by omega)
    have e3 : Rs.setIdx (tab 256 f) a (m - 1 - j) = Res.ok (tab 256 (fun x => if x = a then m - 1 - j else f x)) :=
      setIdx_tab _ _ _ _ ha
    have hstep : new_for1 m (tab 256 f) (a, j) = Res.ok (tab 256 (fun x => if x = a then m - 1 - j else f x)) := by
      simp [new_for1, e1, e2, e3]
    rw [List.zipIdx_cons, List.foldlM_cons, hstep, Res.ok_bind, Horspool.shiftLoop]
    exact ih (j + 1) _ (fun c hc => hb c (by simp [hc])) (by omega)

/-- **`Horspool::new` as written in the source = the model's shift table**, for every non-empty pattern of bytes: the
translated constructor never panics and returns `(m, shift, pattern)` with `shift` the model's `shiftTab` as a 256-entry
vector. -/
theorem new_eq_model (p : List Nat) (hp : 0 < p.length) (hb : ∀ c ∈ p, c < 256) :
    new p = Res.ok (p.length, tab 256 (Horspool.shiftTab p), p) := by
  have e1 : Rs.sub p.length 1 = Res.ok (p.length - 1) := Rs.sub_ok (by omega)
  have e2 : Rs.slice p 0 (p.length - 1) = Res.ok (p.take (p.length - 1)) := by
    rw [Rs.slice_ok (by omega) (by omega)]
    simp
  have h := for_eq p.length (p.take (p.length - 1)) 0 (fun _ => p.length)
    (fun c hc => hb c (List.mem_of_mem_take hc)) (by simp)
  simp [new, e1, e2, tab_const, h, Horspool.shiftTab, -List.reduceReplicate]

/-- the empty pattern: `m - 1` underflows, the constructor panics -/
theorem new_nil_panics : new [] = Res.panic := by
  rfl

end RbV.Thm.GenSrcHorspoolNew
