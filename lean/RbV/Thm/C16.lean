import RbV.Ref.NW
import RbV.Ref.PoaCheck
import RbV.Ref.PoaAccept
import RbV.Lemmas.NWIdentity
import RbV.Lemmas.PoaChain
import RbV.Lemmas.PoaGrow
import RbV.Lemmas.PoaAcyclic
import RbV.Lemmas.PoaHistory
import RbV.Lemmas.PoaBound
import RbV.Lemmas.PoaConsensus
import RbV.Lemmas.PoaBandedFull
import RbV.Lemmas.PoaModes
import RbV.Lemmas.PoaGrowAll
import RbV.Lemmas.PoaChainLink
import RbV.Lemmas.PoaCustomGlobal
import RbV.Thm.GenLimits
import RbV.Model.PoaI32
import RbV.Lemmas.PoaI32
import RbV.Thm.GenSrcPoaAdd
import RbV.Thm.GenSrcPoaAlign
import RbV.Thm.GenSrcPoaScore
import RbV.Thm.GenSrcPoaConsensus
import RbV.Thm.GenSrcPoaHistory
/-!
# C16 — partial-order alignment: exact on linear graphs, graph stays a growing DAG

Property theorems behind the oracles of `RbV/Drv/C16.lean` (helper lemmas live in `RbV/Ref`, `RbV/Lemmas`).
`x` is the reference the graph was built from, `y` the query; `score sc x y ops = some v` says that the
operation list `ops` is a global alignment of the two (consumes exactly both) and scores `v` under
substitution scores `sc.w` and per-symbol gap score `sc.gap`.
-/
namespace RbV.Thm.C16
open RbV RbV.NW RbV.Poa

/-- the number the driver compares the reported score with is the Needleman–Wunsch optimum: no global
alignment scores more, and some global alignment attains it (all sequences, all scoring functions) -/
theorem nwFast_is_optimum (sc : Sc) (x y : List Nat) :
    (∀ ops v, score sc x y ops = some v → v ≤ nwFast sc x y) ∧
    (∃ ops, score sc x y ops = some (nwFast sc x y)) := by
  rw [nwFast_eq]
  exact ⟨fun ops v h => nw_upper sc ops x y v h, nw_attained sc x y⟩

/-- the acceptance function for a `global` alignment against a linear graph says exactly: the reported
operations read as a valid global alignment of query and reference, its recomputed score is the reported
score, and no alignment whatsoever scores more -/
theorem acceptGlobal_iff (sc : Sc) (x y : List Nat) (pops : List POp) (s : Int) :
    acceptGlobal sc x y pops s = true ↔
      ∃ ops, toMoves 0 pops = some ops ∧ score sc x y ops = some s ∧
        ∀ ops' v, score sc x y ops' = some v → v ≤ s := by
  unfold acceptGlobal
  constructor
  · intro h
    cases hm : toMoves 0 pops with
    | none => simp [hm] at h
    | some ops =>
      simp [hm] at h
      obtain ⟨h1, h2⟩ := h
      refine ⟨ops, rfl, h1, ?_⟩
      intro ops' v hv
      rw [h2]
      exact (nwFast_is_optimum sc x y).1 ops' v hv
  · rintro ⟨ops, hm, hs, hopt⟩
    simp only [hm, hs, beq_self_eq_true, Bool.true_and, beq_iff_eq]
    obtain ⟨o2, ho2⟩ := (nwFast_is_optimum sc x y).2
    have h1 := hopt o2 _ ho2
    have h2 := (nwFast_is_optimum sc x y).1 ops s hs
    omega

/-- a banded run that reports the same number as an accepted global run reports the optimum -/
theorem banded_equal_is_optimum (sc : Sc) (x y : List Nat) (pops : List POp) (s b : Int)
    (h : acceptGlobal sc x y pops s = true) (hb : b = s) : b = nwBest sc x y := by
  unfold acceptGlobal at h
  cases hm : toMoves 0 pops with
  | none => simp [hm] at h
  | some ops =>
    simp [hm] at h
    rw [hb, h.2, nwFast_eq]

/-- Kahn elimination decides acyclicity of a well-formed edge list (no directed cycle, self-loops included) -/
theorem isAcyclic_decides (n : Nat) (es : Edges) (wf : wellFormedB n es = true) :
    isAcyclic n es = true ↔ ∀ v, ¬ Reach es v v :=
  isAcyclic_iff n es ((wellFormedB_iff n es).mp wf)

/-- an accepted graph has a topological numbering-free certificate: no node reaches itself; in particular
no edge `u → u` and no pair `u → v → u` -/
theorem isAcyclic_no_two_cycle (n : Nat) (es : Edges) (wf : wellFormedB n es = true)
    (h : isAcyclic n es = true) (u v : Nat) (h1 : (u, v) ∈ es) : (v, u) ∉ es := by
  intro h2
  exact (isAcyclic_decides n es wf).mp h u (Reach.cons h1 (Reach.step h2))

/-- the consensus check decides "spelled by a walk of the graph": some sequence of valid nodes,
consecutive ones joined by edges, whose labels read the word -/
theorem spelledB_decides (labels : List Nat) (es : Edges) (word : List Nat) :
    spelledB labels es word = true ↔
      ∃ p : List Nat, IsWalk es p ∧ (∀ v ∈ p, v < labels.length) ∧ p.map (fun v => labels.getD v 0) = word :=
  spelledB_iff labels es word

/-- the growth check decides: labels of the old nodes unchanged, every old edge still present, and with
at least its old (total) weight -/
theorem extendsB_decides (oldL : List Nat) (oldE : List (Nat × Nat × Int)) (newL : List Nat)
    (newE : List (Nat × Nat × Int)) :
    extendsB oldL oldE newL newE = true ↔
      (newL.take oldL.length = oldL ∧ (∀ e ∈ plain oldE, e ∈ plain newE) ∧
        ∀ e ∈ plain oldE, weight oldE e.1 e.2 ≤ weight newE e.1 e.2) :=
  extendsB_iff oldL oldE newL newE

/-- side condition of the identity clause: if equal symbols score `M`, no pair scores more, and
`2·gap < M`, the all-match alignment of a sequence with itself is the *unique* optimum — every other
global alignment scores strictly less.  (Hence an optimal aligner must return all-match, and re-adding
the reference cannot create nodes.)  Without the side condition (match score 0, gap 0) ties exist. -/
theorem identity_is_unique_optimum (sc : Sc) (M : Int) (hle : ∀ a b, sc.w a b ≤ M) (hd : ∀ a, sc.w a a = M)
    (hg : 2 * sc.gap < M) (x : List Nat) :
    ∃ s, score sc x x (List.replicate x.length Op.mat) = some s ∧ nwBest sc x x = s ∧
      ∀ ops v, score sc x x ops = some v → ops ≠ List.replicate x.length Op.mat → v < s := by
  refine ⟨tot M x, score_identity sc M hd x, ?_, fun ops v h hne => identity_unique sc M hle hg x ops v h hne⟩
  have h1 := nw_upper sc _ x x _ (score_identity sc M hd x)
  obtain ⟨o, ho⟩ := nw_attained sc x x
  by_cases hne : o = List.replicate x.length Op.mat
  · rw [hne, score_identity sc M hd x] at ho
    simp at ho; omega
  · have := identity_unique sc M hle hg x o _ ho hne
    omega

/-- refinement of the mirror model: the recurrence of `Poa::custom` in global mode (prefix-wise rows, first
column `(node+1)·gap`, first node without the delete-after-insertions candidate, Rust tie-breaking), run over
the chain graph built from `x`, ends in a cell whose score is the optimum — for all scoring functions,
references and queries.  The driver evaluates `chainScore` next to the observed score (`drift-chain-score`). -/
theorem chain_dp_is_optimum (sc : Sc) (x y : List Nat) : Poa.Model.chainScore sc x y = nwBest sc x y :=
  Poa.Model.chainScore_eq_nwBest sc x y

/-- the mirror model of `Poa::add_alignment` only grows the graph — for every graph, every operation list
(any alignment mode, valid or not) and every query: old labels kept, every edge kept, no total edge weight
decreased, and at most one new node per operation that consumes a query symbol.  By induction over a history
this is the "growing" half of the graph clause for all histories of the model; the driver compares the
model's result with the real dump after every `add_to_graph` (`drift-add`). -/
theorem model_add_only_grows (g : Poa.Model.G) (ops : List POp) (seq : List Nat) :
    Extends g.labels g.es (Poa.Model.addAlignment g ops seq).labels (Poa.Model.addAlignment g ops seq).es ∧
    (Poa.Model.addAlignment g ops seq).labels.length ≤ g.labels.length + Poa.Model.consuming ops :=
  Poa.Model.addAlignment_grows g ops seq

/-- … and along the identity alignment `Match(None), Match(0,1), Match(1,2), …` (the unique optimum under
`identity_is_unique_optimum`) re-adding the reference creates no node, whatever the edge weights are -/
theorem model_identity_readdition_keeps_nodes (x : List Nat) (es : Poa.Model.WEdges)
    (hhead : x.getD ((Poa.Model.topo x.length es).headD 0) 0 = x.getD 0 0) :
    (Poa.Model.addAlignment { labels := x, es := es } (Poa.Model.idOps x.length) x).labels = x :=
  Poa.Model.addAlignment_identity_labels x es hhead

/-- **the model's align-and-add keeps the graph a DAG** (DESIGN [C], full statement for `global`): for every
graph with at least one node, end points in range and no directed cycle, every scoring and every query, the
graph after `global(q)` + `add_to_graph()` of the model again has at least one node, end points in range and
no directed cycle.  Proof: `topo` visits every node of a DAG after its predecessors (`topo_spec`), every cell
of the DP table points to the same row, to the row of a predecessor, to row 0 or down the first column
(`dpRows_tableOK`), so the traceback names nodes in strictly increasing topological rank (`traceLoop_bodyB`),
and `add_alignment` along such a list has a rank function again (`addAlignment_rankOK`). -/
theorem model_align_add_preserves_acyclic (sc : Sc) (g : Poa.Model.G) (q : List Nat)
    (hne : g.labels ≠ [])
    (hwf : ∀ e ∈ g.es, e.1 < g.labels.length ∧ e.2.1 < g.labels.length)
    (hac : ∀ v, ¬ Reach (plain g.es) v v) :
    (Poa.Model.alignAdd sc g q).labels ≠ [] ∧
    (∀ e ∈ (Poa.Model.alignAdd sc g q).es,
      e.1 < (Poa.Model.alignAdd sc g q).labels.length ∧ e.2.1 < (Poa.Model.alignAdd sc g q).labels.length) ∧
    ∀ v, ¬ Reach (plain (Poa.Model.alignAdd sc g q).es) v v :=
  let h := Poa.Model.alignAdd_dag sc g q ⟨hne, hwf, hac⟩
  ⟨h.ne, h.wf, h.acyclic⟩

/-- the same for the traceback started in *any* cell with *any* fuel (so the statement does not depend on the
loop bound of the model, nor on which row `last` is) -/
theorem model_traceback_add_preserves_acyclic (sc : Sc) (g : Poa.Model.G) (q : List Nat) (f i j : Nat)
    (hne : g.labels ≠ [])
    (hwf : ∀ e ∈ g.es, e.1 < g.labels.length ∧ e.2.1 < g.labels.length)
    (hac : ∀ v, ¬ Reach (plain g.es) v v) :
    ∀ v, ¬ Reach (plain (Poa.Model.addAlignment g
      (Poa.Model.traceLoop (Poa.Model.dpRows sc g.labels g.es q) f i j []) q).es) v v :=
  (Poa.Model.traceback_add_dag sc g q ⟨hne, hwf, hac⟩ f i j).acyclic

/-- **"after any series of additions"**, for the model, unconditionally: start from the chain built from a
non-empty reference `x` (`Poa::from_string`) and apply any number of align-and-add steps, each with its own
scoring and query — the graph has its edge end points in range and no directed cycle. -/
theorem model_history_acyclic (x : List Nat) (hx : x ≠ []) (steps : List (Sc × List Nat)) :
    (∀ e ∈ (Poa.Model.history x steps).es,
      e.1 < (Poa.Model.history x steps).labels.length ∧ e.2.1 < (Poa.Model.history x steps).labels.length) ∧
    ∀ v, ¬ Reach (plain (Poa.Model.history x steps).es) v v :=
  let h := Poa.Model.history_dag x hx steps
  ⟨h.wf, h.acyclic⟩

/-- **"the graph only grows", along histories**: between any two points of any history of the model the
labels of the existing nodes are kept, every edge stays and no total edge weight decreases
(`model_add_only_grows` composed over the steps). -/
theorem model_history_only_grows (x : List Nat) (steps more : List (Sc × List Nat)) :
    Extends (Poa.Model.history x steps).labels (Poa.Model.history x steps).es
      (Poa.Model.history x (steps ++ more)).labels (Poa.Model.history x (steps ++ more)).es :=
  (Poa.Model.history_grows x steps more).extends

/-- **node growth ≤ |query| per addition**, for the model's own alignment: the traceback on a DAG emits at most
`|q|` operations that consume a query symbol (each moves one column to the left; column 0 of a computed row
holds `Del(None)`; every row is computed because `topo` visits every node), and `add_alignment` creates at
most one node per such operation. -/
theorem model_align_add_node_growth (sc : Sc) (g : Poa.Model.G) (q : List Nat)
    (hne : g.labels ≠ [])
    (hwf : ∀ e ∈ g.es, e.1 < g.labels.length ∧ e.2.1 < g.labels.length)
    (hac : ∀ v, ¬ Reach (plain g.es) v v) :
    (Poa.Model.alignAdd sc g q).labels.length ≤ g.labels.length + q.length :=
  Poa.Model.alignAdd_node_growth sc g q ⟨hne, hwf, hac⟩

/-- … hence after any history the node count is at most `|x|` plus the total length of the queries -/
theorem model_history_node_count (x : List Nat) (hx : x ≠ []) (steps : List (Sc × List Nat)) :
    (Poa.Model.history x steps).labels.length ≤ x.length + (steps.map fun s => s.2.length).sum :=
  Poa.Model.history_node_count x hx steps

/-- **the consensus of the model is non-empty and spelled by a path** — for every graph with at least one
node, end points in range and no directed cycle, whatever the edge weights (model of the repaired
`Aligner::consensus`, commit 8b80f4b: the unrepaired one indexed out of bounds on edgeless graphs).  In
particular `consensus` never returns `none` (= never panics) on such a graph. -/
theorem consensus_is_path (labels : List Nat) (es : Poa.Model.WEdges)
    (hne : labels ≠ [])
    (hwf : ∀ e ∈ es, e.1 < labels.length ∧ e.2.1 < labels.length)
    (hac : ∀ v, ¬ Reach (plain es) v v) :
    ∃ w, Poa.Model.consensus labels es = some w ∧ w ≠ [] ∧
      ∃ p : List Nat, IsWalk (plain es) p ∧ (∀ v ∈ p, v < labels.length) ∧ p.map (fun v => labels.getD v 0) = w :=
  Poa.Model.consensus_path labels es ⟨hne, hwf, hac⟩

/-- … in particular after any history of the model -/
theorem model_history_consensus_is_path (x : List Nat) (hx : x ≠ []) (steps : List (Sc × List Nat)) :
    ∃ w, Poa.Model.consensus (Poa.Model.history x steps).labels (Poa.Model.history x steps).es = some w ∧ w ≠ [] ∧
      Spelled (Poa.Model.history x steps).labels (plain (Poa.Model.history x steps).es) w :=
  Poa.Model.consensus_path _ _ (Poa.Model.history_dag x hx steps)

/-- **banded clause, for the model**: `global_banded` (mirror model `bandedScore`, which the driver compares
with every score the real `global_banded` reports, any bandwidth) with default (`MIN_SCORE`) clip penalties
reports the score of `global` as soon as the bandwidth is at least the query length — on every non-empty
well-formed DAG, not only on linear graphs, and without needing `bandwidth ≥ #nodes` (the band is centred on
a column `≤ |query|`).  Side conditions: `gap ≤ 0` (what `Scoring::new` asserts) and no path of gaps reaches
down to `MIN_SCORE` (`MIN_SCORE < (#nodes + |query| + 1)·gap`), because `global_banded` starts its
per-column maximum from a `MIN_SCORE` cell.  Proved row by row: every row of the banded table starts in
column 0, covers all columns and holds the cells — scores and operations — of the global table. -/
theorem model_banded_full_band_equals_global (sc : Sc) (labels : List Nat) (es : Poa.Model.WEdges)
    (query : List Nat) (bw : Nat)
    (hne : labels ≠ [])
    (hwf : ∀ e ∈ es, e.1 < labels.length ∧ e.2.1 < labels.length)
    (hac : ∀ v, ¬ Reach (plain es) v v)
    (hbw : query.length ≤ bw) (hgap : sc.gap ≤ 0)
    (hmin : Poa.Model.minScore < ((labels.length + query.length + 1 : Nat) : Int) * sc.gap) :
    Poa.Model.bandedScore sc Poa.Model.minScore Poa.Model.minScore labels es query bw =
      (Poa.Model.globalAlign sc labels es query).1 :=
  Poa.Model.bandedScore_full sc labels es query bw ⟨hne, hwf, hac⟩ hbw hgap hmin

/-- **score clause for the general DP of the model**: on the graph built from one non-empty sequence `x`
(`chainG x` = `Poa::from_string`) the score `global` reports in the model — `topo`, the per-predecessor
recurrence over the whole graph, Rust tie-breaks — is the Needleman–Wunsch optimum.  (`topo` of the chain is
`0, 1, …`, each node's only predecessor is the one before it, so `dpRows` computes the rows of `chainRows`;
then `chain_dp_is_optimum`.) -/
theorem model_global_on_linear_graph_is_optimum (sc : Sc) (x q : List Nat) (hx : x ≠ []) :
    (Poa.Model.globalAlign sc x (Poa.Model.chainG x).es q).1 = nwBest sc x q := by
  rw [Poa.Model.chainG_es, Poa.Model.globalAlign_chain sc x q hx]
  exact Poa.Model.chainScore_eq_nwBest sc x q

/-- **banded clause on linear graphs, for the model**: with default clip penalties and a bandwidth of at least
the query length the banded model reports the Needleman–Wunsch optimum (side conditions as in
`model_banded_full_band_equals_global`) -/
theorem model_banded_on_linear_graph_is_optimum (sc : Sc) (x q : List Nat) (bw : Nat) (hx : x ≠ [])
    (hbw : q.length ≤ bw) (hgap : sc.gap ≤ 0)
    (hmin : Poa.Model.minScore < ((x.length + q.length + 1 : Nat) : Int) * sc.gap) :
    Poa.Model.bandedScore sc Poa.Model.minScore Poa.Model.minScore x (Poa.Model.chainG x).es q bw = nwBest sc x q := by
  have hd := Poa.Model.chainG_dag x hx
  rw [Poa.Model.bandedScore_full sc x (Poa.Model.chainG x).es q bw hd hbw hgap hmin]
  exact model_global_on_linear_graph_is_optimum sc x q hx

/-- **the faithful model of `Aligner::global`** (`custom` with the four clip penalties at `MIN_SCORE`, every
`MIN_SCORE` start cell and clip candidate kept — the model whose score and operation list the driver compares
with the real `global` on every step) **reports the score of the clip-free model** on every non-empty
well-formed DAG, provided no score comes near `MIN_SCORE`: `gap ≤ 0`, substitution scores `≤ W` (`0 ≤ W`),
`MIN_SCORE < (#nodes + |q| + 1)·gap − |q|·W`.  (Every clip candidate loses: prefix clips against the lower
bound `(v+1+j)·gap` of a cell, suffix clips because `column maximum + MIN_SCORE ≤ |q|·W + MIN_SCORE`.) -/
theorem model_faithful_global_equals_clipfree (sc : Sc) (labels : List Nat) (es : Poa.Model.WEdges)
    (q : List Nat) (W : Int)
    (hne : labels ≠ [])
    (hwf : ∀ e ∈ es, e.1 < labels.length ∧ e.2.1 < labels.length)
    (hac : ∀ v, ¬ Reach (plain es) v v)
    (hgap : sc.gap ≤ 0) (hW : 0 ≤ W) (hw : ∀ a b, sc.w a b ≤ W)
    (hmin : Poa.Model.minScore < ((labels.length + q.length + 1 : Nat) : Int) * sc.gap - (q.length : Int) * W) :
    (Poa.Model.customAlign sc Poa.Model.minScore Poa.Model.minScore Poa.Model.minScore Poa.Model.minScore labels es q).1 =
      (Poa.Model.globalAlign sc labels es q).1 :=
  Poa.Model.customScore_minclips sc labels es q W ⟨hne, hwf, hac⟩ hgap hW hw hmin

/-- … hence **the score clause for the faithful model**: on the graph built from one non-empty sequence the
faithful `global` reports the Needleman–Wunsch optimum (same side conditions) -/
theorem model_faithful_global_on_linear_graph_is_optimum (sc : Sc) (x q : List Nat) (W : Int) (hx : x ≠ [])
    (hgap : sc.gap ≤ 0) (hW : 0 ≤ W) (hw : ∀ a b, sc.w a b ≤ W)
    (hmin : Poa.Model.minScore < ((x.length + q.length + 1 : Nat) : Int) * sc.gap - (q.length : Int) * W) :
    (Poa.Model.customAlign sc Poa.Model.minScore Poa.Model.minScore Poa.Model.minScore Poa.Model.minScore
      x (Poa.Model.chainG x).es q).1 = nwBest sc x q := by
  rw [Poa.Model.customScore_minclips sc x (Poa.Model.chainG x).es q W (Poa.Model.chainG_dag x hx) hgap hW hw hmin]
  exact model_global_on_linear_graph_is_optimum sc x q hx

/-- **every alignment mode keeps the graph a DAG** (DESIGN [C], full statement).  `stepAdd sc cl g mode q` is
`add_to_graph()` after `global` / `semiglobal` / `local` / `custom` (configured clip penalties `cl`) /
`global_banded(bw)` (any bandwidth, narrow bands with their out-of-band cells included) in the *faithful*
models `customTable` / `bandedTable` (every `MIN_SCORE` start cell, prefix and suffix clip cells, the three
out-of-band answers of `Traceback::get`; the driver compares their score and operation list with the real
output on every step of every mode: 0 differences).  For every non-empty well-formed DAG, scoring, clip
penalties, mode and query the result is a non-empty well-formed DAG.  Proof: both tables are *local*
(`customTable_opsOK`, `bandedTable_opsOK`: a cell points into its own row, to the row of a predecessor, to
row 0, down the first column, or — suffix clips — out of the last row, behind which nothing is named), so
the traceback names nodes in strictly increasing topological rank (`traceF_bodyB`). -/
theorem model_every_mode_add_preserves_acyclic (sc : Sc) (cl : Poa.Model.Clips) (g : Poa.Model.G)
    (mode : Poa.Model.Mode) (q : List Nat)
    (hne : g.labels ≠ [])
    (hwf : ∀ e ∈ g.es, e.1 < g.labels.length ∧ e.2.1 < g.labels.length)
    (hac : ∀ v, ¬ Reach (plain g.es) v v) :
    (Poa.Model.stepAdd sc cl g mode q).labels ≠ [] ∧
    (∀ e ∈ (Poa.Model.stepAdd sc cl g mode q).es,
      e.1 < (Poa.Model.stepAdd sc cl g mode q).labels.length ∧
      e.2.1 < (Poa.Model.stepAdd sc cl g mode q).labels.length) ∧
    ∀ v, ¬ Reach (plain (Poa.Model.stepAdd sc cl g mode q).es) v v :=
  let h := Poa.Model.stepAdd_dag sc cl g mode q ⟨hne, hwf, hac⟩
  ⟨h.ne, h.wf, h.acyclic⟩

/-- **"after any series of additions", every mode**: from the chain of a non-empty reference, any list of
steps (scoring, configured clip penalties, mode, query): end points in range, no directed cycle -/
theorem model_history_all_modes_acyclic (x : List Nat) (hx : x ≠ []) (steps : List Poa.Model.HStep) :
    (∀ e ∈ (Poa.Model.historyM x steps).es,
      e.1 < (Poa.Model.historyM x steps).labels.length ∧ e.2.1 < (Poa.Model.historyM x steps).labels.length) ∧
    ∀ v, ¬ Reach (plain (Poa.Model.historyM x steps).es) v v :=
  let h := Poa.Model.historyM_dag x hx steps
  ⟨h.wf, h.acyclic⟩

/-- … the graph only grows along such a history … -/
theorem model_history_all_modes_only_grows (x : List Nat) (steps more : List Poa.Model.HStep) :
    Extends (Poa.Model.historyM x steps).labels (Poa.Model.historyM x steps).es
      (Poa.Model.historyM x (steps ++ more)).labels (Poa.Model.historyM x (steps ++ more)).es :=
  (Poa.Model.historyM_grows x steps more).extends

/-- … **node growth ≤ |query| per addition in every mode** — for every graph (no acyclicity needed), scoring,
clip penalties, mode and query: the traceback over the table of `custom`/`global_banded` emits at most `|q|`
operations that consume a query symbol (such an operation moves one column to the left, column 0 holds
none, a `Yclip` never jumps to the right), and `add_alignment` creates at most one node per such operation -/
theorem model_every_mode_node_growth (sc : Sc) (cl : Poa.Model.Clips) (g : Poa.Model.G) (mode : Poa.Model.Mode)
    (q : List Nat) :
    (Poa.Model.stepAdd sc cl g mode q).labels.length ≤ g.labels.length + q.length :=
  Poa.Model.stepAdd_node_growth sc cl g mode q

theorem model_history_all_modes_node_count (x : List Nat) (steps : List Poa.Model.HStep) :
    (Poa.Model.historyM x steps).labels.length ≤ x.length + (steps.map fun s => s.2.2.2.length).sum :=
  Poa.Model.historyM_node_count x steps

/-- … and its consensus is always a non-empty word spelled by a path -/
theorem model_history_all_modes_consensus_is_path (x : List Nat) (hx : x ≠ []) (steps : List Poa.Model.HStep) :
    ∃ w, Poa.Model.consensus (Poa.Model.historyM x steps).labels (Poa.Model.historyM x steps).es = some w ∧ w ≠ [] ∧
      Spelled (Poa.Model.historyM x steps).labels (plain (Poa.Model.historyM x steps).es) w :=
  Poa.Model.consensus_path _ _ (Poa.Model.historyM_dag x hx steps)

/-- the general lemma behind both: `add_alignment` along *any* operation list that names nodes in increasing
rank (`bodyB`: each `Match(Some((_, p)))` lies above the rank bound of `prev`, with room for the nodes created
in between; the inserted prefix `Ins(None)…` stays below the head) keeps the graph acyclic, `rk` being any rank
function increasing along the old edges.  (The former `…_partial`: its hypothesis is now discharged for the
operation lists of every mode of the model, see above; it is still what the driver's certificate
`acyclicCert` evaluates on the operation lists of the *real* code.) -/
theorem model_add_preserves_acyclic_of_ranked_ops (g : Poa.Model.G) (rk : Nat → Nat) (ops : List POp) (seq : List Nat)
    (hrk : ∀ e ∈ g.es, e.1 < g.labels.length ∧ e.2.1 < g.labels.length ∧ rk e.1 < rk e.2.1)
    (hhead : (Poa.Model.topo g.labels.length g.es).headD 0 < g.labels.length)
    (hbody : Poa.Model.bodyB rk g.labels.length ((Poa.Model.topo g.labels.length g.es).headD 0)
      (rk ((Poa.Model.topo g.labels.length g.es).headD 0)) false ops = true) :
    ∀ v, ¬ Reach (plain (Poa.Model.addAlignment g ops seq).es) v v :=
  Poa.Model.addAlignment_acyclic_of_bodyB g rk ops seq hrk hhead hbody

/-- the executable certificate (`topo` position scaled by `|ops|+1` as rank function) implies that the
model's updated graph has no cycle -/
theorem model_acyclic_certificate (g : Poa.Model.G) (ops : List POp) (seq : List Nat)
    (h : Poa.Model.acyclicCert g ops = true) : ∀ v, ¬ Reach (plain (Poa.Model.addAlignment g ops seq).es) v v :=
  Poa.Model.acyclic_of_cert g ops seq h

/-! ## Non-vacuity: the hypotheses are met by concrete non-trivial inputs -/

def exSc : Sc := { w := fun a b => if a = b then 1 else -1, gap := -1 }

-- GATTACA vs GCATGCU (the example of the repo's test): optimum 0, attained by an alignment with gaps
example : nwFast exSc [71, 65, 84, 84, 65, 67, 65] [71, 67, 65, 84, 71, 67, 85] = 0 := by decide
example : score exSc [65, 67, 71] [65, 71] [.mat, .del, .mat] = some 1 := by decide
example : acceptGlobal exSc [65, 67, 71] [65, 71] [.m none, .d (some (0, 2)), .m (some (1, 2))] 1 = true := by decide
example : acceptGlobal exSc [65, 67, 71] [65, 71] [.m none, .m (some (0, 1)), .d (some (1, 3))] 1 = false := by decide
example : Poa.Model.chainScore exSc [71, 65, 84, 84, 65, 67, 65] [71, 67, 65, 84, 71, 67, 85] = 0 := by decide
example : (Poa.Model.addAlignment { labels := [65, 67, 71], es := [(0, 1, 2), (1, 2, 2)] } (Poa.Model.idOps 3) [65, 67, 71]).es
    = [(0, 1, 3), (1, 2, 3)] := by decide
example : (Poa.Model.addAlignment { labels := [65, 67, 71], es := [(0, 1, 1), (1, 2, 1)] }
    [.m none, .i (some 0), .m (some (0, 1)), .d (some (1, 3))] [65, 84, 71]).labels = [65, 67, 71, 84, 71] := by decide
-- AAA + BBBBBAAA (test_edge_cases 4): five leading `Ins(None)`, then the edge into the old head
example : Poa.Model.acyclicCert { labels := [65, 65, 65], es := [(0, 1, 1), (1, 2, 1)] }
    [.i none, .i none, .i none, .i none, .i none, .m none, .m (some (0, 1)), .m (some (1, 2))] = true := by decide
-- naming nodes against the order is refused
example : Poa.Model.acyclicCert { labels := [65, 65, 65], es := [(0, 1, 1), (1, 2, 1)] }
    [.m none, .m (some (1, 2)), .m (some (0, 1))] = false := by decide
-- one history step on the chain ACG with the query ATG: a branch node is created, the result is a DAG
example : (Poa.Model.history [65, 67, 71] [(exSc, [65, 84, 71])]).labels = [65, 67, 71, 84] := by decide
example : plain (Poa.Model.history [65, 67, 71] [(exSc, [65, 84, 71])]).es = [(0, 1), (1, 2), (0, 3), (3, 2)] := by decide
-- consensus of a bubble graph: the heavier branch; of a single node: that node (no panic any more)
example : Poa.Model.consensus [65, 67, 71, 84] [(0, 1, 2), (1, 2, 2), (0, 3, 1), (3, 2, 1)] = some [65, 67, 71] := by decide
example : Poa.Model.consensus [65] [] = some [65] := by decide
example : (Poa.Model.history [65, 67, 71] [(exSc, [65, 84, 71]), (exSc, [65, 84, 71])]).labels.length ≤ 3 + (3 + 3) := by decide
-- banded model: full band = global score; a band of width 1 on a query with 3 leading extra symbols loses
example : Poa.Model.bandedScore exSc Poa.Model.minScore Poa.Model.minScore [65, 67, 71] [(0, 1, 1), (1, 2, 1)] [65, 84, 71] 3 = 1 := by decide
example : (Poa.Model.globalAlign exSc [65, 67, 71] [(0, 1, 1), (1, 2, 1)] [65, 84, 71]).1 = 1 := by decide
example : Poa.Model.minScore < ((3 + 3 + 1 : Nat) : Int) * exSc.gap := by decide
-- faithful models: local alignment of TT against ACGTT clips the prefix; a narrow band gives a junk list; both additions keep a DAG
example : (Poa.Model.customAlign exSc 0 0 0 0 [65, 67, 71, 84, 84] [(0, 1, 1), (1, 2, 1), (2, 3, 1), (3, 4, 1)] [84, 84]).1 = 2 := by decide
example : (Poa.Model.historyM [65, 67, 71, 84, 84] [(exSc, ⟨0, 0, 0, 0⟩, .local, [84, 84]), (exSc, ⟨0, 0, 0, 0⟩, .banded 1, [71, 71, 71, 84])]).labels.length = 8 := by decide
-- the side conditions of the faithful-global theorem hold for +1/−1/−1 and lengths 3, 3
example : Poa.Model.minScore < ((3 + 3 + 1 : Nat) : Int) * exSc.gap - (3 : Int) * 1 := by decide
example : (Poa.Model.customAlign exSc Poa.Model.minScore Poa.Model.minScore Poa.Model.minScore Poa.Model.minScore
    [65, 67, 71] [(0, 1, 1), (1, 2, 1)] [65, 84, 71]).1 = 1 := by decide
-- a DAG with a bubble is accepted, a 3-cycle is not
example : isAcyclic 4 [(0, 1), (1, 2), (0, 3), (3, 2)] = true := by decide
example : isAcyclic 3 [(0, 1), (1, 2), (2, 0)] = false := by decide
example : spelledB [65, 67, 71, 84] [(0, 1), (1, 2), (0, 3), (3, 2)] [65, 84, 71] = true := by decide
example : spelledB [65, 67, 71, 84] [(0, 1), (1, 2), (0, 3), (3, 2)] [65, 71] = false := by decide
example : extendsB [65, 67] [(0, 1, 1)] [65, 67, 71] [(0, 1, 2), (1, 2, 1)] = true := by decide
example : extendsB [65, 67] [(0, 1, 2)] [65, 67, 71] [(0, 1, 1), (1, 2, 1)] = false := by decide
-- the side condition of the identity clause holds for +1/−1/−1
example : ∃ s, score exSc [65, 67] [65, 67] [.mat, .mat] = some s ∧ nwBest exSc [65, 67] [65, 67] = s ∧
    ∀ ops v, score exSc [65, 67] [65, 67] ops = some v → ops ≠ [.mat, .mat] → v < s :=
  identity_is_unique_optimum exSc 1 (by intro a b; simp [exSc]; split <;> omega) (by simp [exSc]) (by simp [exSc]) [65, 67]

/-! ### `i32`: the fixed-width arithmetic of `Poa::custom` and `Poa::global_banded` (`RbV/Model/PoaI32.lean`)

The Rust code computes every score in `i32` (the harness is built with `overflow-checks`: an overflow is a panic).
`Poa.Model.customTableC` / `bandedRowsC` are the mirrors with every `+` and `*` of the Rust text checked.  Inside the
parametric envelope `PoaEnv` — `B ≥ 1` bounds `|score(r, q)|` over node labels × query symbols and `|gap_open|`,
`gap_open ≤ 0`, the four clip penalties anywhere in `[MIN_SCORE, 0]`, `n·B < 2³¹`, `m·B < 2³¹` (`m` nodes, `n` query symbols),
`2·B ≤ 2³¹ + MIN_SCORE` — **no checked operation fails and the tables are exactly those of the unbounded mirrors**, on every
well-formed acyclic graph (what `model_history_all_modes_acyclic` gives for every history), in every mode and for every
bandwidth.  Proof (`Lemmas/PoaI32.lean`): every cell of column `j` lies in `[MIN_SCORE − B, j·B]` (row 0 in `[MIN_SCORE, 0]`,
out-of-band answers are `MIN_SCORE`), `max_in_column`, `max_in_row` in `[0, n·B]`; induction over the topological order.
All other theorems of this file about `customTable` / `bandedRows` therefore hold for the `i32` computation. -/

/-- `topo` lists only nodes of the graph (well-formed acyclic graph) -/
theorem topo_lt (n : Nat) (es : Poa.Model.WEdges) (wf : ∀ e ∈ es, e.1 < n ∧ e.2.1 < n)
    (hac : Acyclic (plain es)) : ∀ v ∈ Poa.Model.topo n es, v < n := by
  obtain ⟨vis, h1, _, h3, _⟩ := Poa.Model.topo_spec n es wf hac
  intro v hv
  rw [h1, List.mem_reverse] at hv
  exact (h3 v).mp hv

/-- **`Poa::custom` (all modes) in `i32`: no overflow inside `PoaEnv`; the checked mirror is the unbounded mirror.** -/
theorem poa_i32_no_overflow (sc : Sc) (xp xs yp ys : Int) (labels : List Nat) (es : Poa.Model.WEdges) (query : List Nat)
    (B : Int) (henv : Poa.Model.PoaEnv sc xp xs yp ys labels query B)
    (wf : ∀ e ∈ es, e.1 < labels.length ∧ e.2.1 < labels.length) (hac : Acyclic (plain es)) :
    Poa.Model.customTableC sc xp xs yp ys labels es query =
      some (Poa.Model.customTable sc xp xs yp ys labels es query) :=
  Poa.Model.I32P.customTableC_eq henv es (topo_lt labels.length es wf hac)

/-- **`Poa::global_banded` in `i32`, any bandwidth: no overflow inside `PoaEnv`; the rows are the unbounded mirror's.** -/
theorem poa_banded_i32_no_overflow (sc : Sc) (xp xs yp ys : Int) (labels : List Nat) (es : Poa.Model.WEdges)
    (query : List Nat) (bw : Nat) (B : Int) (henv : Poa.Model.PoaEnv sc xp xs yp ys labels query B)
    (wf : ∀ e ∈ es, e.1 < labels.length ∧ e.2.1 < labels.length) (hac : Acyclic (plain es)) :
    Poa.Model.bandedRowsC sc xp yp labels es query bw =
      some (Poa.Model.bRow0 sc.gap yp query.length, Poa.Model.bandedRows sc xp yp labels es query bw) :=
  Poa.Model.I32P.bandedRowsC_eq henv es bw (topo_lt labels.length es wf hac)

/-- the envelope of the C16 tie (|scores| ≤ 1024 — `SANE` of the harness —, at most 2 000 000 nodes and query symbols;
the tie runs with ≤ 25 + growth) is an instance -/
theorem poa_fixed_envelope_is_instance (sc : Sc) (xp xs yp ys : Int) (labels query : List Nat)
    (hw : ∀ r ∈ labels, ∀ q ∈ query, -1024 ≤ sc.w r q ∧ sc.w r q ≤ 1024) (hgap : -1024 ≤ sc.gap ∧ sc.gap ≤ 0)
    (hxp : Poa.Model.minScore ≤ xp ∧ xp ≤ 0) (hxs : Poa.Model.minScore ≤ xs ∧ xs ≤ 0)
    (hyp : Poa.Model.minScore ≤ yp ∧ yp ≤ 0) (hys : Poa.Model.minScore ≤ ys ∧ ys ≤ 0)
    (hm : labels.length ≤ 2000000) (hn : query.length ≤ 2000000) : Poa.Model.PoaEnv sc xp xs yp ys labels query 1024 := by
  have h2 : 2 * (1024 : Int) ≤ 2147483648 + Poa.Model.minScore := by decide
  exact ⟨by omega, fun r hr q hq => (hw r hr q hq).1, fun r hr q hq => (hw r hr q hq).2, hgap, hxp, hxs, hyp, hys,
    by omega, by omega, h2⟩

-- non-vacuity: graph A→C→G plus the edge A→G, query ACG with scores of magnitude 4·10⁸: inside `PoaEnv`; the `i32` table's
-- score; outside: two matches of 2·10⁹ overflow
def scBigPoa : Sc := ⟨fun a b => if a = b then 400000000 else -400000000, -400000000⟩
example : Poa.Model.PoaEnv scBigPoa Poa.Model.minScore (-7) 0 Poa.Model.minScore [65, 67, 71] [65, 67, 71] 400000000 :=
  ⟨by decide, by decide, by decide, by decide, by decide, by decide, by decide, by decide, by decide, by decide, by decide⟩
example : (Poa.Model.customTableC scBigPoa Poa.Model.minScore (-7) 0 Poa.Model.minScore [65, 67, 71]
    [(0, 1, 1), (1, 2, 1), (0, 2, 1)] [65, 67, 71]).map (·.score) = some 1200000000 := by decide +kernel
example : (Poa.Model.customTableC ⟨fun _ _ => 2000000000, -1⟩ 0 0 0 0 [65, 67] [(0, 1, 1)] [65, 67]).isNone = true := by
  decide +kernel

/-! ### Source-extracted obligations (DESIGN §8): `MIN_SCORE` of `poa.rs`

`RbV/Gen/Limits.lean` is regenerated from the source text of the tree under test on every `./check C16`
(tools/gen_tables.py) before `lake build`; the mirror models (`Poa.Model.minScore`) and the driver are defined by the
extracted constant, and the statements below are re-proved over whatever was extracted. -/

/-- the `MIN_SCORE` the POA mirror models and the driver use **is** the constant extracted from `poa.rs` -/
theorem poa_min_score_is_source_constant : Poa.Model.minScore = RbV.Gen.Limits.minScorePoa := rfl

/-- `poa.rs` keeps its own copy of `MIN_SCORE` ("see alignment/pairwise/mod.rs"): the two copies agree -/
theorem poa_min_score_eq_pairwise : Poa.Model.minScore = RbV.Gen.Limits.minScorePairwise :=
  GenLimits.min_score_pairwise_eq_poa.symm

/-- out-of-band / impossible cells carry `MIN_SCORE` and one gap or clip penalty is added to them: two sentinels still
fit `i32`, and the sentinel is negative -/
theorem poa_min_score_no_i32_overflow :
    -(2 ^ 31 : Int) ≤ Poa.Model.minScore + Poa.Model.minScore ∧ Poa.Model.minScore < 0 :=
  ⟨GenLimits.two_min_scores_no_i32_overflow.2.2, by
    have h := GenLimits.min_score_range.2
    rw [GenLimits.min_score_pairwise_eq_poa] at h
    exact h⟩

/-! ### Translated function bodies (docs/notes/GEN.md, "Dialect poa"): `Gen/SrcPoaAdd.lean`, `Gen/SrcPoaAlign.lean`

The text of `Poa::add_alignment` and of the `Traceback` table is translated to Lean on every `./check C16`
(`tools/rs2lean_genpoa.py`; petgraph read through the contracts of `Basic/RsSemGenpoa.lean`) and the statements below are
re-proved over whatever was regenerated.  The exact (tie-breaks included) equality of the DP phase of `Poa::custom` with the
checked-`i32` mirror is the *soft* module `Thm/GenSrcPoaCustom.lean`. -/

/-- **`Poa::add_alignment` as translated from the source text refines the mirror model**: for every graph, operation list
(valid or not) and sequence, whenever the translated function returns (no panic: index out of bounds, `add_edge` between
missing nodes, `unwrap` of the head of an empty graph, `i32` / `usize` overflow) it returns `Model.addAlignment` — head taken
from the topological walk, matching nodes reused, edge weights incremented, nodes appended for mismatches / insertions -/
theorem poa_add_alignment_source_eq_model (g : Poa.Model.G) (aln : Rs.Poa.Alignment) (seq : List Nat) (g' : Poa.Model.G)
    (h : RbV.Gen.SrcPoaAdd.add_alignment g aln seq = Rs.Res.ok g') :
    g' = Poa.Model.addAlignment g aln.operations seq :=
  RbV.Thm.GenSrcPoaAdd.add_alignment_eq_model g aln seq g' h

/-- **… hence the graph stays a growing DAG under the translated addition, in every mode** — `_partial`: the operation list
is the one the faithful *model* of the chosen mode reports (`stepOps`: `custom` with the mode's clip penalties / `global_banded`);
the tie of `Traceback::alignment` / `Poa::custom` to these lists is the soft module + the correspondence run, and "the
translated addition does not panic on such a list" is not proved.  For every non-empty well-formed DAG, scoring, clip
penalties, mode, query: if the translated `add_alignment` returns `g'`, then `g'` is a non-empty well-formed DAG, extends
`g` (no label / edge removed, no total weight decreased) and has at most `|query|` more nodes. -/
theorem poa_history_source_acyclic_only_grows_partial (sc : Sc) (cl : Poa.Model.Clips) (g : Poa.Model.G)
    (mode : Poa.Model.Mode) (q : List Nat) (score : Int) (g' : Poa.Model.G)
    (hne : g.labels ≠ [])
    (hwf : ∀ e ∈ g.es, e.1 < g.labels.length ∧ e.2.1 < g.labels.length)
    (hac : ∀ v, ¬ Reach (plain g.es) v v)
    (h : RbV.Gen.SrcPoaAdd.add_alignment g ⟨score, Poa.Model.stepOps sc cl g mode q⟩ q = Rs.Res.ok g') :
    g'.labels ≠ [] ∧ (∀ e ∈ g'.es, e.1 < g'.labels.length ∧ e.2.1 < g'.labels.length) ∧
    (∀ v, ¬ Reach (plain g'.es) v v) ∧ Extends g.labels g.es g'.labels g'.es ∧
    g'.labels.length ≤ g.labels.length + q.length := by
  have e : g' = Poa.Model.stepAdd sc cl g mode q := RbV.Thm.GenSrcPoaAdd.add_alignment_eq_model g _ q g' h
  subst e
  have hd := Poa.Model.stepAdd_dag sc cl g mode q ⟨hne, hwf, hac⟩
  exact ⟨hd.ne, hd.wf, hd.acyclic, (Poa.Model.stepAdd_grows sc cl g mode q).extends,
    Poa.Model.stepAdd_node_growth sc cl g mode q⟩

/-- **the translated `Poa::custom` reports the score of the checked-`i32` mirror** (hard, tie-robust: stated on scores, so
a property-preserving change of a `max` tie-break — seeded C16-H1 — re-proves).  For every scoring, clip penalties (=
every mode: `global` / `semiglobal` / `local` / `custom` differ only in the penalties), query and non-empty well-formed DAG
(sizes below `2^64 − 1`): whenever `Model.customTableC` is `some t` (no `i32` overflow — `poa_i32_no_overflow` inside
`PoaEnv`), the translated `custom` does not panic, `last` / `cols` are the mirror's, and `get(last + 1, cols).score`
— the score `Traceback::alignment` reports — is `t.score`.  Covers `with_capacity`, `initialize_scores`, the DP over the
topological order, X and Y suffix clipping.  (Operation-list equality: soft module / correspondence run.) -/
theorem poa_custom_source_score_eq_model (sc : Sc) (xp xs yp ys : Int) (g : Poa.Model.G) (query : List Nat)
    (t : Poa.Model.BTable)
    (hne : g.labels ≠ []) (hwf : ∀ e ∈ g.es, e.1 < g.labels.length ∧ e.2.1 < g.labels.length)
    (hac : ∀ v, ¬ Reach (plain g.es) v v)
    (hm : g.labels.length + 1 < 2 ^ 64) (hn : query.length + 1 < 2 ^ 64)
    (h : Poa.Model.customTableC sc xp xs yp ys g.labels g.es query = some t) :
    ∃ tb, RbV.Gen.SrcPoaAlign.custom sc.w g sc.gap xp xs yp ys query = Rs.Res.ok tb ∧ tb.last = t.last ∧ tb.cols = t.n ∧
      (∃ c, RbV.Gen.SrcPoaAlign.Traceback_get tb (tb.last + 1) tb.cols = Rs.Res.ok c ∧ c.score = t.score) ∧
      ∀ a, RbV.Gen.SrcPoaAlign.Traceback_alignment tb = Rs.Res.ok a → a.score = t.score := by
  obtain ⟨tb, e, el, ec, _, _, _, c, hc, hs⟩ := RbV.Thm.GenSrcPoaScore.custom_score_eq_model sc xp xs yp ys g.labels g.es query t
    (RbV.Thm.GenSrcPoaScore.graphOK_of_dag g ⟨hne, hwf, hac⟩) hm hn h
  refine ⟨tb, e, el, ec, ⟨c, hc, hs⟩, ?_⟩
  intro a ha
  obtain ⟨c', hc', ha'⟩ := RbV.Thm.GenSrcPoaScore.alignment_score tb a ha
  rw [hc] at hc'
  cases hc'
  rw [ha', hs]

/-- **score clause at source level**: the translated `Poa::custom` with the four clip penalties at `MIN_SCORE` — what
`Aligner::global` runs (the wrapper that overrides the penalties is not translated) — on the graph built from one
non-empty sequence `x` reports the **Needleman–Wunsch optimum** `nwBest sc x q`, inside the `i32` envelope `PoaEnv` and
under the sentinel condition of `model_faithful_global_on_linear_graph_is_optimum`.  (That the operation list is a valid
alignment is not proved at source level: `acceptGlobal` checks it on every sampled case.) -/
theorem poa_global_source_exact_linear (sc : Sc) (x q : List Nat) (B W : Int) (hx : x ≠ [])
    (henv : Poa.Model.PoaEnv sc Poa.Model.minScore Poa.Model.minScore Poa.Model.minScore Poa.Model.minScore x q B)
    (hW : 0 ≤ W) (hw : ∀ a b, sc.w a b ≤ W)
    (hmin : Poa.Model.minScore < ((x.length + q.length + 1 : Nat) : Int) * sc.gap - (q.length : Int) * W)
    (hm : x.length + 1 < 2 ^ 64) (hn : q.length + 1 < 2 ^ 64) :
    ∃ tb, RbV.Gen.SrcPoaAlign.custom sc.w (Poa.Model.chainG x) sc.gap Poa.Model.minScore Poa.Model.minScore
        Poa.Model.minScore Poa.Model.minScore q = Rs.Res.ok tb ∧
      (∃ c, RbV.Gen.SrcPoaAlign.Traceback_get tb (tb.last + 1) tb.cols = Rs.Res.ok c ∧ c.score = nwBest sc x q) ∧
      ∀ a, RbV.Gen.SrcPoaAlign.Traceback_alignment tb = Rs.Res.ok a → a.score = nwBest sc x q := by
  have hd := Poa.Model.chainG_dag x hx
  have hC := poa_i32_no_overflow sc _ _ _ _ x (Poa.Model.chainG x).es q B henv hd.wf hd.acyclic
  have hopt := model_faithful_global_on_linear_graph_is_optimum sc x q W hx henv.gap.2 hW hw hmin
  obtain ⟨tb, e, _, _, hget, hal⟩ := poa_custom_source_score_eq_model sc _ _ _ _ (Poa.Model.chainG x) q _ hd.ne hd.wf hd.acyclic
    hm hn hC
  have hsc : (Poa.Model.customTable sc Poa.Model.minScore Poa.Model.minScore Poa.Model.minScore Poa.Model.minScore x
      (Poa.Model.chainG x).es q).score = nwBest sc x q := hopt
  exact ⟨tb, e, by rw [← hsc]; exact hget, fun a ha => by rw [← hsc]; exact hal a ha⟩

/-- **`Aligner::consensus` as translated returns a non-empty word spelled by a path** (hard, tie-robust: any arg-max
choice).  On every non-empty well-formed DAG with fewer than `usize::MAX` nodes, whatever the edge weights: whenever the
translated function returns `w` (the only panics left are `i32` overflows of the weight sums — every index is in range, the
`unwrap` of `max_by_key` succeeds, the walk back ends within the fuel `node_count() + 2`), `w ≠ []` and `w` is `Spelled` by
a walk of valid nodes.  Nothing is assumed about which of several equally heavy predecessors / end nodes is taken: only
that one round of the maximisation keeps `best` or stores the neighbour (`for2_next`) and that the end node is an index of
the table (`pick_lt`) — seeded C16-H2 (older node wins, `.rev()` before `max_by_key`) re-proves untouched. -/
theorem poa_consensus_source_is_path (g : Poa.Model.G)
    (hne : g.labels ≠ []) (hwf : ∀ e ∈ g.es, e.1 < g.labels.length ∧ e.2.1 < g.labels.length)
    (hac : ∀ v, ¬ Reach (plain g.es) v v) (hsz : g.labels.length < 2 ^ 64 - 1) (w : List Nat)
    (h : RbV.Gen.SrcPoaConsensus.consensus g = Rs.Res.ok w) : w ≠ [] ∧ Spelled g.labels (plain g.es) w :=
  RbV.Thm.GenSrcPoaConsensus.consensus_is_path g ⟨hne, hwf, hac⟩ hsz w h

example : RbV.Gen.SrcPoaConsensus.consensus { labels := [65, 67, 71, 84], es := [(0, 1, 2), (1, 2, 2), (0, 3, 1), (3, 2, 1)] } =
    Rs.Res.ok [65, 67, 71] := by decide +kernel

/-- **the operation list of the translated `Traceback::alignment` is the traceback over the table's own cells**, and that
table is *local* for whatever the `max`es kept (hard, tie-independent): whenever the translated `alignment` returns, its
operations are `Model.traceF` over `getP` (= the translated `get`, totalised); and for every non-empty well-formed DAG,
scoring, clip penalties and non-empty query with `customTableC = some t`, the table the translated `custom` returns
satisfies `Model.OpsOK` (a cell points into its own row, to the row of a predecessor, to row 0, down column 0, or —
suffix clips — out of the last row). -/
theorem poa_alignment_source_is_traceback_of_local_table (sc : Sc) (xp xs yp ys : Int) (g : Poa.Model.G) (query : List Nat)
    (t : Poa.Model.BTable)
    (hne : g.labels ≠ []) (hwf : ∀ e ∈ g.es, e.1 < g.labels.length ∧ e.2.1 < g.labels.length)
    (hac : ∀ v, ¬ Reach (plain g.es) v v)
    (hm : g.labels.length + 1 < 2 ^ 64) (hn : query.length + 1 < 2 ^ 64) (hq : 0 < query.length)
    (h : Poa.Model.customTableC sc xp xs yp ys g.labels g.es query = some t) :
    ∃ tb, RbV.Gen.SrcPoaAlign.custom sc.w g sc.gap xp xs yp ys query = Rs.Res.ok tb ∧
      Poa.Model.OpsOK g.es t.last (RbV.Thm.GenSrcPoaHistory.opAtS tb.matrix) ∧
      ∀ a, RbV.Gen.SrcPoaAlign.Traceback_alignment tb = Rs.Res.ok a →
        a.operations = Poa.Model.traceF (RbV.Thm.GenSrcPoaHistory.opAtS tb.matrix) ((tb.rows + 3) * (tb.cols + 3))
          (tb.last + 1) tb.cols [] := by
  obtain ⟨tb, e, _, _, _, _, hO, _⟩ := RbV.Thm.GenSrcPoaScore.custom_score_eq_model sc xp xs yp ys g.labels g.es query t
    (RbV.Thm.GenSrcPoaScore.graphOK_of_dag g ⟨hne, hwf, hac⟩) hm hn h
  exact ⟨tb, e, RbV.Thm.GenSrcPoaHistory.opsOK_of_oinv g.es t.last tb.matrix (hO hq),
    fun a ha => RbV.Thm.GenSrcPoaHistory.alignment_partial tb a ha⟩

/-- **after any history of translated alignments and additions the graph is a DAG that only grew** (hard, tie-independent;
supersedes `…_partial`).  A step = translated `Poa::custom` (any clip penalties: `global` / `semiglobal` / `local` /
`custom`) → translated `Traceback::alignment` → translated `Poa::add_alignment`.  From any non-empty well-formed DAG `g0`
(e.g. `chainG x`), for every list of steps with `HistOK` (on exactly the graphs that occur: non-empty query, sizes below
`2^64 − 1`, `customTableC ≠ none` = no `i32` overflow): whenever the history returns `g`, then `g` is a non-empty
well-formed DAG and extends `g0` (no label / edge removed, no total weight decreased).  Still missing: that the history
*does* return (no panic of `alignment` / `add_alignment` on these lists: column tracking for `seq[i]`, weight `+ 1`
overflow), `global_banded` steps.  Node growth: at most `|query|` nodes per step (`ColsOK` of the source table:
column 0 holds nothing query-consuming, a `Yclip` never jumps to the right). -/
theorem poa_history_source_acyclic_only_grows (g0 g : Poa.Model.G) (steps : List RbV.Thm.GenSrcPoaHistory.HS)
    (hne : g0.labels ≠ []) (hwf : ∀ e ∈ g0.es, e.1 < g0.labels.length ∧ e.2.1 < g0.labels.length)
    (hac : ∀ v, ¬ Reach (plain g0.es) v v)
    (hok : RbV.Thm.GenSrcPoaHistory.HistOK g0 steps)
    (h : RbV.Thm.GenSrcPoaHistory.srcHistory g0 steps = Rs.Res.ok g) :
    g.labels ≠ [] ∧ (∀ e ∈ g.es, e.1 < g.labels.length ∧ e.2.1 < g.labels.length) ∧
    (∀ v, ¬ Reach (plain g.es) v v) ∧ Extends g0.labels g0.es g.labels g.es ∧
    g.labels.length ≤ g0.labels.length + (steps.map fun s => s.2.2.length).sum := by
  obtain ⟨hd, hg, hn⟩ := RbV.Thm.GenSrcPoaHistory.history_dag steps g0 g ⟨hne, hwf, hac⟩ hok h
  exact ⟨hd.ne, hd.wf, hd.acyclic, hg.extends, hn⟩

-- non-vacuity: a two-step history of translated steps (global, then local) from the chain `ACG` returns
example : (match RbV.Thm.GenSrcPoaHistory.srcHistory (Poa.Model.chainG [65, 67, 71])
      [(exSc, (Poa.Model.minScore, Poa.Model.minScore, Poa.Model.minScore, Poa.Model.minScore), [65, 84, 71]),
       (exSc, (0, 0, 0, 0), [84, 71, 71])] with
    | .ok g => decide (4 ≤ g.labels.length)
    | _ => false) = true := by decide +kernel

/-- **totality of the translated `Poa::add_alignment` on valid operation lists** (hard): non-empty graph whose topological head
is a node, sequence shorter than `2^64`, operation list valid for sequence and graph (`SeqOK`: every consumed position
`seq[i]` exists — `Yclip(_, r)` continues at `r` —, every named node exists), fewer than `2^31 − 1` operations and every edge
weight with room for that many `+ 1`s (the explicit size hypothesis): the translated function **returns**, and returns
`Model.addAlignment`.  Missing for "no panic on traceback-produced lists": that `Model.traceF` over the (local, column-monotone)
source table only emits `SeqOK` lists — needs "`Yclip(_, d)` stored in column `j` has `d = j`" and "`Match(Some((_, p)))` has
`p <` node count" threaded through `OInv` —, and that `Traceback::alignment` ends within its fuel (a termination argument). -/
theorem poa_add_alignment_source_total_on_valid_lists (g : Poa.Model.G) (aln : Rs.Poa.Alignment) (seq : List Nat)
    (hh : ∃ hd, (Poa.Model.topo g.labels.length g.es).head? = some hd ∧ hd < g.labels.length) (hn : seq.length < 2 ^ 64)
    (hK : (aln.operations.length : Int) < 2147483647)
    (hw : ∀ e ∈ g.es, -2147483648 ≤ e.2.2 ∧ e.2.2 + (aln.operations.length : Int) ≤ 2147483647)
    (hs : RbV.Thm.GenSrcPoaAdd.SeqOK seq.length g.labels.length 0 aln.operations) :
    RbV.Gen.SrcPoaAdd.add_alignment g aln seq = Rs.Res.ok (Poa.Model.addAlignment g aln.operations seq) :=
  RbV.Thm.GenSrcPoaAdd.add_alignment_total g aln seq hh hn hK hw hs

example : RbV.Thm.GenSrcPoaAdd.SeqOK 3 3 0 [.m none, .m (some (0, 1)), .m (some (1, 2))] :=
  ⟨by decide, by decide, by decide, by decide, by decide, trivial⟩

/-- **the translated `add_alignment` does not panic on traceback-produced lists** (hard, tie-independent): non-empty well-formed
DAG, any scoring / clip penalties (= any `custom`-based mode), non-empty query, sizes below `2^64 − 1`, `customTableC ≠ none`.
For the table `tb` the translated `custom` returns and *any* list the translated `Traceback::alignment` returns from it, the
translated `add_alignment` **returns** `Model.addAlignment` — provided the edge weights have room for one `+ 1` per operation (the
explicit size hypothesis).  Column tracking (`traceF_seqOK`): a consuming operation emitted in column `j` consumes `seq[j − 1]`
because column 0 holds nothing consuming, a `Yclip(c, d)` stored in column `j` has `c ≤ j` and `d = j`, and a
`Match(Some((_, p)))` only occurs in an existing row (`tb.matrix.length = node_count + 1`).  So
`poa_add_alignment_source_total_on_valid_lists` applies to every step of a history; what is still open for "the step returns" is only
that `Traceback::alignment` ends within the fuel of the translation spec (a termination argument). -/
theorem poa_add_alignment_source_total_on_tracebacks (sc : Sc) (xp xs yp ys : Int) (g : Poa.Model.G) (q : List Nat)
    (t : Poa.Model.BTable) (tb : Rs.Poa.Traceback) (aln : Rs.Poa.Alignment)
    (hne : g.labels ≠ []) (hwf : ∀ e ∈ g.es, e.1 < g.labels.length ∧ e.2.1 < g.labels.length)
    (hac : ∀ v, ¬ Reach (plain g.es) v v)
    (hm : g.labels.length + 1 < 2 ^ 64) (hn : q.length + 1 < 2 ^ 64) (hq : 0 < q.length)
    (hC : Poa.Model.customTableC sc xp xs yp ys g.labels g.es q = some t)
    (hcu : RbV.Gen.SrcPoaAlign.custom sc.w g sc.gap xp xs yp ys q = Rs.Res.ok tb)
    (hal : RbV.Gen.SrcPoaAlign.Traceback_alignment tb = Rs.Res.ok aln)
    (hK : (aln.operations.length : Int) < 2147483647)
    (hw : ∀ e ∈ g.es, -2147483648 ≤ e.2.2 ∧ e.2.2 + (aln.operations.length : Int) ≤ 2147483647) :
    RbV.Gen.SrcPoaAdd.add_alignment g aln q = Rs.Res.ok (Poa.Model.addAlignment g aln.operations q) :=
  RbV.Thm.GenSrcPoaHistory.step_add_total sc xp xs yp ys g q t tb aln ⟨hne, hwf, hac⟩ hm hn hq hC hcu hal hK hw

/-- **`Traceback::get` as translated = `BRow.get` of the mirror** on every row that represents a model row (`RowRep`: same
band, cells equal up to the `MIN_SCORE` padding `new_row` allocates), with its three out-of-band answers -/
theorem poa_traceback_get_source_eq_model (tb : Rs.Poa.Traceback) (i j : Nat) (rr : List Poa.Model.Cell × Nat × Nat)
    (br : Poa.Model.BRow) (h : tb.matrix[i]? = some rr) (hr : RbV.Thm.GenSrcPoaAlign.RowRep rr br) :
    RbV.Gen.SrcPoaAlign.Traceback_get tb i j = Rs.Res.ok (br.get j) :=
  RbV.Thm.GenSrcPoaAlign.get_eq tb i j rr br h hr

/-- **`with_capacity` + `initialize_scores` as translated = row 0 of the checked-`i32` mirror** (`bRow0C`): no checked
operation fails when the mirror's do not; `m + 1` rows, all but row 0 empty with the band `[0, n + 1)` -/
theorem poa_traceback_init_source_eq_model (m n : Nat) (gap yclip : Int) (r0 : Poa.Model.BRow)
    (h : Poa.Model.bRow0C gap yclip n = some r0) (hn : n + 1 < 2 ^ 64) (hm : m + 1 < 2 ^ 64) :
    (do let tb ← RbV.Gen.SrcPoaAlign.Traceback_with_capacity m n
        RbV.Gen.SrcPoaAlign.Traceback_initialize_scores tb gap yclip) =
      Rs.Res.ok { rows := m, cols := n, last := 0, matrix := (r0.cells, 0, n + 1) :: List.replicate m ([], 0, n + 1) } :=
  RbV.Thm.GenSrcPoaAlign.init_eq m n gap yclip r0 h hn hm

/-- **`new_row` and `set` as translated**: a fresh row becomes `first cell :: size × MIN_SCORE` with the band `[start, end)`
(first cell = `max(Del(None) (row as i32)·gap, Xclip(0))` at the edge — `edgeCellC` of the mirror —, `MIN_SCORE` otherwise);
`set` inside `[start, stop]` overwrites position `j - start` -/
theorem poa_traceback_new_row_set_source_eq_model (tb : Rs.Poa.Traceback) (row size : Nat) (gap xclip : Int)
    (start end_ s0 e0 : Nat) (h : tb.matrix[row]? = some ([], s0, e0)) (c0 : Poa.Model.Cell)
    (hc : (if start = 0 then (I32.mul gap (I32.ofUsize row)).map
        (fun g => Poa.Model.cmax ⟨g, .d none⟩ ⟨xclip, .x 0⟩) else some Poa.Model.mcell) = some c0) :
    RbV.Gen.SrcPoaAlign.Traceback_new_row tb row size gap xclip start end_ =
      Rs.Res.ok { tb with matrix := tb.matrix.set row (c0 :: List.replicate size Poa.Model.mcell, start, end_) } ∧
    ∀ (i j : Nat) (cell : Poa.Model.Cell) (cs : List Poa.Model.Cell) (s e : Nat), tb.matrix[i]? = some (cs, s, e) →
      s ≤ j → j ≤ e → j - s < cs.length →
      RbV.Gen.SrcPoaAlign.Traceback_set tb i j cell = Rs.Res.ok { tb with matrix := tb.matrix.set i (cs.set (j - s) cell, s, e) } :=
  ⟨RbV.Thm.GenSrcPoaAlign.new_row_eq tb row size gap xclip start end_ s0 e0 h c0 hc,
   fun i j cell cs s e h1 h2 h3 h4 => RbV.Thm.GenSrcPoaAlign.set_eq tb i j cell cs s e h1 h2 h3 h4⟩

-- non-vacuity of `poa_global_source_exact_linear`: its envelope and sentinel hypotheses hold for a concrete scheme
example : Poa.Model.PoaEnv exSc Poa.Model.minScore Poa.Model.minScore Poa.Model.minScore Poa.Model.minScore [65, 67, 71] [65, 84, 71] 1 :=
  ⟨by decide, by decide, by decide, by decide, by decide, by decide, by decide, by decide, by decide, by decide, by decide⟩
example : Poa.Model.minScore < ((3 + 3 + 1 : Nat) : Int) * exSc.gap - (3 : Int) * 1 ∧ ∀ a b, exSc.w a b ≤ 1 :=
  ⟨by decide, fun a b => by unfold exSc; simp only; split <;> omega⟩
-- non-vacuity: the translated functions run (no panic) on a concrete DAG; the addition creates the mismatch node
example : (match RbV.Gen.SrcPoaAdd.add_alignment { labels := [65, 67, 71], es := [(0, 1, 1), (1, 2, 1)] }
      ⟨1, [.m none, .m (some (0, 1)), .m (some (1, 2))]⟩ [65, 84, 71] with
    | .ok g => some (g.labels, g.es)
    | _ => none) = some ([65, 67, 71, 84], [(0, 1, 1), (1, 2, 1), (0, 3, 1), (3, 2, 1)]) := by decide
example : (match (RbV.Gen.SrcPoaAlign.custom exSc.w { labels := [65, 67, 71], es := [(0, 1, 1), (1, 2, 1)] } exSc.gap
      Poa.Model.minScore Poa.Model.minScore Poa.Model.minScore Poa.Model.minScore [65, 84, 71]) >>=
      RbV.Gen.SrcPoaAlign.Traceback_alignment with
    | .ok a => some (a.score, a.operations)
    | _ => none) = some (1, [.m none, .m (some (0, 1)), .m (some (1, 2))]) := by decide +kernel

end RbV.Thm.C16
