import RbV.Gen.SrcPwCustom
import RbV.Thm.GenSrcPwTypes
import RbV.Model.PairwiseFillI32
/-!
# The translated text of `Aligner::custom` against the checked-`i32` mirror `Model/PairwiseFillI32.lean` (builder genalign; C01)

`RbV/Gen/SrcPwCustom.lean` is the text of `Aligner::custom` translated on every `./check C01`; the three comparisons whose
tie-break the property leaves open (I layer, D layer, y-suffix-clip tracker) are *condition holes*: parameters `iTie dTie
snTie` of every translated function, with the tests found in the text as the separate definitions `custom_iTie` … .

Proved here: **the body of the main loop** (`custom_for5`, one DP cell) **= `stepJT T`**, the row function `stepJC` of the
checked-`i32` mirror with the tie-breaks as parameters (`stepJT_pinned`: for the pinned `>` it *is* `stepJC`), for every
aligner state of the right shape — checked `i32` arithmetic (`Rs.iadd 32` = `I32.add`: a panic of the text is the `none` of
the mirror), all index arithmetic, the bit-packed traceback cell (`cellOf`), the register `S[curr][m]`, `Sn/Ly/Lx`.
`srcTies_ok`: the tests found in the text are admissible tie-breaks (`>` or `>=`).  Not proved (out of budget): the lifting
to the column / fill / traceback loops (`custom_fill_source_eq_model`, `custom_traceback_source_eq_model`,
`custom_source_correct`); the whole translated function is *evaluated* against `customC` in `Thm/C01.lean`.
-/
set_option linter.unusedSimpArgs false
set_option linter.unusedVariables false
namespace RbV.Thm.GenSrcPwCustom
open RbV RbV.Rs RbV.Gen.TbCodes RbV.Gen.Limits RbV.Gen.SrcPwTypes RbV.Gen.SrcPwCustom RbV.Align RbV.Model.PairwiseFill
open RbV.Thm.GenSrcPwTypes

/-! ### `i32` arithmetic of the translated text = `Basic/I32.lean` -/

/-- a panic of the translated text is the `none` of the checked mirror -/
def ofOpt {α : Type} : Option α → Res α
  | some a => .ok a
  | none => .panic

@[simp] theorem ofOpt_some {α : Type} (a : α) : ofOpt (some a) = .ok a := rfl
@[simp] theorem ofOpt_none {α : Type} : ofOpt (none : Option α) = .panic := rfl

theorem inS32 (k : Int) : Rs.InS 32 k ↔ I32.InRange k := by
  unfold Rs.InS I32.InRange
  have : ((2 ^ (32 - 1) : Nat) : Int) = 2147483648 := by decide
  rw [this]; omega

theorem iadd32 (a b : Int) : Rs.iadd 32 a b = ofOpt (I32.add a b) := by
  unfold Rs.iadd I32.add
  by_cases h : I32.InRange (a + b)
  · rw [if_pos ((inS32 _).2 h), if_pos h]; rfl
  · rw [if_neg (fun h' => h ((inS32 _).1 h')), if_neg h]; rfl

theorem imul32 (a b : Int) : Rs.imul 32 a b = ofOpt (I32.mul a b) := by
  unfold Rs.imul I32.mul
  by_cases h : I32.InRange (a * b)
  · rw [if_pos ((inS32 _).2 h), if_pos h]; rfl
  · rw [if_neg (fun h' => h ((inS32 _).1 h')), if_neg h]; rfl

theorem castSigned32 (i : Nat) : Rs.castSigned 32 i = I32.ofUsize i := by
  unfold Rs.castSigned Rs.toSigned I32.ofUsize
  have e1 : (2 : Nat) ^ 32 = 4294967296 := by decide
  have e2 : (2 : Nat) ^ (32 - 1) = 2147483648 := by decide
  rw [e1, e2]
  split <;> omega

theorem minScore_eq : minScorePairwise = minScore := rfl

/-! ### codes, cells, tie-breaks -/

/-- the code of a move (`RbV/Gen/TbCodes.lean`, extracted from the same text) -/
def enc : Tb → Nat
  | .start => tbStart | .ins => tbIns | .del => tbDel | .subst => tbSubst | .mat => tbMatch
  | .xpre => tbXclipPrefix | .xsuf => tbXclipSuffix | .ypre => tbYclipPrefix | .ysuf => tbYclipSuffix

theorem enc_le_max (t : Tb) : enc t ≤ tbMax := by cases t <;> decide
theorem enc_inj (a b : Tb) : enc a = enc b → a = b := by cases a <;> cases b <;> decide
theorem enc_start_zero : enc .start = 0 := by decide

/-- the cell that holds the three moves of a `RowT` -/
def cellOf (ts ti td : Tb) : TracebackCell :=
  ⟨TbCell.setBits (TbCell.setBits (TbCell.setBits 0 iPos (enc ti)) dPos (enc td)) sPos (enc ts)⟩

/-- the tie-breaks the property leaves open (condition holes of the translation): `I` layer (`i_score` against
`s_score`), `D` layer (`d_score` against `s_score`), y-suffix-clip tracker (`S + yclip_suffix` against `Sn[i]`) in the main loop
(`snT`) and in the initialisation of column 0 (`sn0T`) -/
structure Ties where
  iT : Int → Int → Bool
  dT : Int → Int → Bool
  snT : Int → Int → Bool
  sn0T : Int → Int → Bool

/-- an admissible tie-break: true when strictly greater, false when strictly smaller (free on ties) -/
def TieOk (T : Int → Int → Bool) : Prop := ∀ a b, (a > b → T a b = true) ∧ (T a b = true → a ≥ b)
def TiesOk (T : Ties) : Prop := TieOk T.iT ∧ TieOk T.dT ∧ TieOk T.snT ∧ TieOk T.sn0T

/-- the tie-breaks of the pinned text (strict `>` everywhere) -/
def pinned : Ties :=
  ⟨fun a b => decide (a > b), fun a b => decide (a > b), fun a b => decide (a > b), fun a b => decide (a > b)⟩
/-- the tie-breaks found in the source on this run -/
def srcTies : Ties := ⟨custom_iTie, custom_dTie, custom_snTie, custom_sn0Tie⟩

/-- the tests found in the source are admissible tie-breaks (true of `>` and `>=`, in either operand order) -/
theorem srcTies_ok : TiesOk srcTies := by
  refine ⟨fun a b => ?_, fun a b => ?_, fun a b => ?_, fun a b => ?_⟩ <;>
    simp only [srcTies, custom_iTie, custom_dTie, custom_snTie, custom_sn0Tie, decide_eq_true_eq] <;> omega

/-- `match o with | none => none | some a => f a` -/
def obind {α β : Type} (o : Option α) (f : α → Option β) : Option β :=
  match o with
  | none => none
  | some a => f a

@[simp] theorem obind_none {α β : Type} (f : α → Option β) : obind none f = none := rfl
@[simp] theorem obind_some {α β : Type} (a : α) (f : α → Option β) : obind (some a) f = f a := rfl
theorem ofOpt_obind {α β : Type} (o : Option α) (f : α → Option β) :
    ofOpt (obind o f) = ofOpt o >>= fun a => ofOpt (f a) := by cases o <;> rfl

open RbV.I32 in
/-- `stepJC` (body of `for i in 1..m + 1`, `Model/PairwiseFillI32.lean`) with the three tie-breaks as parameters and the
cells it reads named: `pr1` = row `i − 1`, `pr` = row `i` of the previous column, `r` = row `i − 1` of the current one -/
def stepJT (T : Ties) (sc : Sc) (cl : Clip) (m n j i p q : Nat) (xclip_score : Int) (pr1 pr r : Row) : Option Row :=
  obind (add pr1.s (sc.w p q)) fun m_score =>
  obind (add r.i sc.ge) fun i_score =>
  obind (add r.s sc.go) fun s0 =>
  obind (add s0 sc.ge) fun s_score =>
  let best_i_score := if T.iT i_score s_score = true then i_score else s_score
  let ti : Tb := if T.iT i_score s_score = true then .ins else r.t.ts
  obind (add pr.d sc.ge) fun d_score =>
  obind (add pr.s sc.go) fun s1 =>
  obind (add s1 sc.ge) fun s_score2 =>
  let best_d_score := if T.dT d_score s_score2 = true then d_score else s_score2
  let td : Tb := if T.dT d_score s_score2 = true then .del else pr.t.ts
  let b0 := if i = m then r.xm else minScore
  let b1 := upd m_score b0
  let c1 : Tb := if m_score > b0 then (if p = q then .mat else .subst) else .xsuf
  let b2 := upd best_i_score b1
  let c2 : Tb := if best_i_score > b1 then .ins else c1
  let b3 := upd best_d_score b2
  let c3 : Tb := if best_d_score > b2 then .del else c2
  let b4 := upd xclip_score b3
  let c4 : Tb := if xclip_score > b3 then .xpre else c3
  obind (add cl.yp sc.go) fun y0 =>
  obind (mul sc.ge (ofUsize i)) fun t =>
  obind (add y0 t) fun yclip_score =>
  let b5 := upd yclip_score b4
  let c5 : Tb := if yclip_score > b4 then .ypre else c4
  obind (add b5 cl.xs) fun cx =>
  let xm1 := if i = m then b5 else r.xm
  let xm2 := upd cx xm1
  let lx := if cx > xm1 then m - i else r.t.lx
  let s := if i = m then xm2 else b5
  obind (add s cl.ys) fun cy =>
  let ly := if T.snT cy pr.sn = true then n - j else pr.t.ly
  some ⟨s, best_i_score, best_d_score, if T.snT cy pr.sn = true then cy else pr.sn, xm2, ⟨c5, ti, td, ly, lx⟩⟩

/-- with the pinned tie-breaks `stepJT` is `stepJC` -/
theorem stepJT_pinned (sc : Sc) (cl : Clip) (x y : List Nat) (j i : Nat) (xclip_score : Int) (prev : List Row) (r : Row) :
    stepJT pinned sc cl x.length y.length j i (x.getD (i - 1) 0) (y.getD (j - 1) 0) xclip_score
      (prev.getD (i - 1) default) (prev.getD i default) r = stepJC sc cl x y j prev xclip_score i r := by
  simp only [stepJT, stepJC, openC, pinned, decide_eq_true_eq]
  cases h1 : I32.add (prev.getD (i - 1) default).s (sc.w (x.getD (i - 1) 0) (y.getD (j - 1) 0)) with
  | none => rfl
  | some m_score =>
  simp only [obind_some]
  cases h2 : I32.add r.i sc.ge with
  | none => rfl
  | some i_score =>
  simp only [obind_some]
  cases h3 : I32.add r.s sc.go with
  | none => rfl
  | some s0 =>
  simp only [obind_some]
  cases h4 : I32.add s0 sc.ge with
  | none => rfl
  | some s_score =>
  simp only [obind_some]
  cases h5 : I32.add (prev.getD i default).d sc.ge with
  | none => rfl
  | some d_score =>
  simp only [obind_some]
  cases h6 : I32.add (prev.getD i default).s sc.go with
  | none => rfl
  | some s1 =>
  simp only [obind_some]
  cases h7 : I32.add s1 sc.ge with
  | none => rfl
  | some s_score2 =>
  simp only [obind_some]
  cases h8 : I32.add cl.yp sc.go with
  | none => rfl
  | some y0 =>
  simp only [obind_some]
  cases h9 : I32.mul sc.ge (I32.ofUsize i) with
  | none => rfl
  | some t =>
  simp only [obind_some]
  cases h10 : I32.add y0 t with
  | none => rfl
  | some yclip_score =>
  simp only [obind_some]
  generalize upd yclip_score _ = b5
  cases h11 : I32.add b5 cl.xs with
  | none => rfl
  | some cx =>
  simp only [obind_some]
  generalize (if i = x.length then upd cx _ else b5) = s
  cases h12 : I32.add s cl.ys with
  | none => rfl
  | some cy => rfl


/-! ### list facts -/

theorem idxD {α : Type} [Inhabited α] (l : List α) (i : Nat) (h : i < l.length) : Rs.idx l i = .ok (l.getD i default) := by
  rw [Rs.idx_ok h]; simp [List.getD, h]

theorem setIdx_ok' {α : Type} (l : List α) (i : Nat) (v : α) (h : i < l.length) : Rs.setIdx l i v = .ok (l.set i v) :=
  Rs.setIdx_ok h

theorem getD_set' {α : Type} (l : List α) (i j : Nat) (v d : α) :
    (l.set i v).getD j d = if i = j ∧ i < l.length then v else l.getD j d := by
  simp only [List.getD_eq_getElem?_getD, List.getElem?_set]
  by_cases h : i = j
  · subst h
    by_cases h2 : i < l.length <;> simp [h2]
  · simp [h]

theorem set_getD_self {α : Type} (l : List α) (i : Nat) (d : α) : l.set i (l.getD i d) = l := by
  apply List.ext_getElem?
  intro k
  rw [List.getElem?_set]
  by_cases h : i = k
  · subst h
    by_cases h2 : i < l.length <;> simp [h2]
  · simp [h]

theorem ite_set {α : Type} (c : Prop) [Decidable c] (l : List α) (k : Nat) (v d : α) :
    (if c then l.set k v else l) = l.set k (if c then v else l.getD k d) := by
  by_cases h : c
  · simp [h]
  · rw [if_neg h, if_neg h, set_getD_self]

/-! ### shape of the aligner state inside `custom` -/

/-- the vectors have the lengths `custom` gives them for `|x| = m`, `|y| = n` -/
structure Dims (a : Aligner) (m n : Nat) : Prop where
  S2 : a.S.length = 2
  I2 : a.I.length = 2
  D2 : a.D.length = 2
  Srow : ∀ k, k < 2 → (a.S.getD k []).length = m + 1
  Irow : ∀ k, k < 2 → (a.I.getD k []).length = m + 1
  Drow : ∀ k, k < 2 → (a.D.getD k []).length = m + 1
  Sn : a.Sn.length = m + 1
  Ly : a.Ly.length = m + 1
  Lx : a.Lx.length = n + 1
  tb : Shaped a.traceback
  rows : a.traceback.rows = m + 1
  cols : a.traceback.cols = n + 1

/-- `sc`, `cl` of the models, read off the aligner's `scoring` (`matchFn` is the abstract `match_fn.score`) -/
def scOf (w : Nat → Nat → Int) (a : Aligner) : Sc := ⟨w, a.scoring.gap_open, a.scoring.gap_extend⟩
def clOf (a : Aligner) : Clip :=
  ⟨a.scoring.xclip_prefix, a.scoring.xclip_suffix, a.scoring.yclip_prefix, a.scoring.yclip_suffix⟩

/-- cell `(i, j)` of the traceback matrix -/
def cellAt (a : Aligner) (i j : Nat) : TracebackCell := a.traceback.matrix.getD (i * a.traceback.cols + j) default
/-- the S field of cell `(i, j)` holds the code of `t` -/
def SIs (a : Aligner) (i j : Nat) (t : Tb) : Prop := TbCell.getBits (cellAt a i j).v sPos = enc t


/-- row `i − 1` of the current column, as `stepJT` reads it from the state (`tsL` = the S move of cell `(i − 1, j)`) -/
def rowCur (a : Aligner) (m j curr i1 : Nat) (tsL : Tb) : Row :=
  ⟨(a.S.getD curr []).getD i1 0, (a.I.getD curr []).getD i1 0, 0, 0, (a.S.getD curr []).getD m 0,
    ⟨tsL, .start, .start, 0, a.Lx.getD j 0⟩⟩
/-- row `i − 1` of the previous column -/
def rowPrev1 (a : Aligner) (prev i1 : Nat) : Row := ⟨(a.S.getD prev []).getD i1 0, 0, 0, 0, 0, default⟩
/-- row `i` of the previous column (`tsU` = the S move of cell `(i, j − 1)`; `Sn[i]`, `Ly[i]` still from that column) -/
def rowPrev (a : Aligner) (prev i : Nat) (tsU : Tb) : Row :=
  ⟨(a.S.getD prev []).getD i 0, 0, (a.D.getD prev []).getD i 0, a.Sn.getD i 0, 0, ⟨tsU, .start, .start, a.Ly.getD i 0, 0⟩⟩

/-- the state after row `r'` has been written as cell `(i, j)` -/
def writeRow (a : Aligner) (m curr i j : Nat) (r' : Row) : Aligner :=
  { a with
    S := a.S.set curr (((a.S.getD curr []).set i r'.s).set m r'.xm)
    I := a.I.set curr ((a.I.getD curr []).set i r'.i)
    D := a.D.set curr ((a.D.getD curr []).set i r'.d)
    Sn := a.Sn.set i r'.sn
    Ly := a.Ly.set i r'.t.ly
    Lx := a.Lx.set j r'.t.lx
    traceback := { a.traceback with
      matrix := a.traceback.matrix.set (i * a.traceback.cols + j) (cellOf r'.t.ts r'.t.ti r'.t.td) } }

theorem ite_ok {α : Type} (c : Prop) [Decidable c] (x y : α) :
    (if c then Res.ok x else Res.ok y) = Res.ok (if c then x else y) := by split <;> rfl
theorem ite_fst {α β : Type} (c : Prop) [Decidable c] (a a' : α) (b b' : β) :
    (if c then (a, b) else (a', b')).1 = if c then a else a' := by split <;> rfl
theorem ite_snd {α β : Type} (c : Prop) [Decidable c] (a a' : α) (b b' : β) :
    (if c then (a, b) else (a', b')).2 = if c then b else b' := by split <;> rfl

theorem upd_fold (c b : Int) : (if c > b then c else b) = upd c b := rfl
theorem ite_set0 (c : Prop) [Decidable c] (l : List Int) (k : Nat) (v : Int) :
    (if c then l.set k v else l) = l.set k (if c then v else l.getD k 0) := ite_set c l k v 0
theorem ite_setN (c : Prop) [Decidable c] (l : List Nat) (k : Nat) (v : Nat) :
    (if c then l.set k v else l) = l.set k (if c then v else l.getD k 0) := ite_set c l k v 0
theorem ite_set2 {α : Type} (c : Prop) [Decidable c] (l : List α) (k : Nat) (v v' : α) :
    (if c then l.set k v else l.set k v') = l.set k (if c then v else v') := by split <;> rfl

/-! ### normal forms of a cell under construction -/

theorem set_set_same (v p a b : Nat) (ha : a < 16) (hp : p + 4 ≤ 16) :
    TbCell.setBits (TbCell.setBits v p a) p b = TbCell.setBits v p b := by
  unfold TbCell.setBits
  rw [TbCell.cellBits_eq]
  apply Nat.eq_of_testBit_eq
  intro i
  simp only [Nat.testBit_and, Nat.testBit_or, Nat.testBit_shiftLeft, Nat.testBit_xor, TbCell.testBit_mask,
    Nat.testBit_two_pow_sub_one]
  by_cases h1 : p ≤ i
  · by_cases h2 : i - p < 4
    · have h3 : i < 16 := by omega
      simp [h1, h2, h3]
    · simp [h1, h2, TbCell.testBit_high a (i - p) ha (by omega)]
  · simp [h1]

def cI (ti : Tb) : TracebackCell := ⟨TbCell.setBits 0 iPos (enc ti)⟩
def cD (ti td : Tb) : TracebackCell := ⟨TbCell.setBits (TbCell.setBits 0 iPos (enc ti)) dPos (enc td)⟩

theorem lt16 (t : Tb) : enc t < 16 := GenTbCodes.le_max_lt16 (enc_le_max t)
theorem sPos4 : sPos + 4 ≤ 16 := by decide

theorem setI_new (t : Tb) : setIBits ⟨0⟩ (enc t) = .ok (cI t) := setIBits_eq_model _ _ (enc_le_max t)
theorem setD_cI (ti t : Tb) : setDBits (cI ti) (enc t) = .ok (cD ti t) := setDBits_eq_model _ _ (enc_le_max t)
theorem setS_cD (ti td t : Tb) : setSBits (cD ti td) (enc t) = .ok (cellOf t ti td) := setSBits_eq_model _ _ (enc_le_max t)
theorem setS_cell (ts ti td t : Tb) : setSBits (cellOf ts ti td) (enc t) = .ok (cellOf t ti td) := by
  rw [setSBits_eq_model _ _ (enc_le_max t)]
  simp only [cellOf, set_set_same _ _ _ _ (lt16 ts) sPos4]
theorem ite_cI (c : Prop) [Decidable c] (t t' : Tb) : (if c then cI t else cI t') = cI (if c then t else t') := by
  split <;> rfl
theorem ite_cD (c : Prop) [Decidable c] (ti t t' : Tb) : (if c then cD ti t else cD ti t') = cD ti (if c then t else t') := by
  split <;> rfl
theorem ite_cell (c : Prop) [Decidable c] (ti td t t' : Tb) :
    (if c then cellOf t ti td else cellOf t' ti td) = cellOf (if c then t else t') ti td := by split <;> rfl
theorem enc_ite (c : Prop) [Decidable c] : (if c then tbMatch else tbSubst) = enc (if c then .mat else .subst) := by
  split <;> rfl

/-- the constants as the text names them -/
theorem k_ins : tbIns = enc .ins := rfl
theorem k_del : tbDel = enc .del := rfl
theorem k_xsuf : tbXclipSuffix = enc .xsuf := rfl
theorem k_xpre : tbXclipPrefix = enc .xpre := rfl
theorem k_ypre : tbYclipPrefix = enc .ypre := rfl

/-! ### the hard obligation: values and admissible codes, for any order of the candidates of `S(i, j)` -/

theorem upd_eq_max (c b : Int) : upd c b = max c b := by unfold upd; split <;> omega
theorem max_lc (a b c : Int) : max a (max b c) = max b (max a c) := by omega
theorem set_set_reg (l : List Int) (i m : Nat) (X V : Int) :
    (l.set i (if i = m then X else V)).set m X = (l.set i V).set m X := by
  by_cases h : i = m
  · subst h; simp [List.set_set]
  · simp [h]

/-- how the text chooses the traceback code of the S layer: a function of the candidates' scores — the placeholder
`S[curr][i]`, `m_score`, the two operands of the I tie, the two operands of the D tie, `xclip_score`, `yclip_score` — and of the
two symbols -/
abbrev SCodeFn := Int → Int → Int → Int → Int → Int → Int → Int → Nat → Nat → Tb

/-- **the S code is admissible**: it names a candidate whose score is the value of the S layer (the maximum of the six
candidates) — "the code explains the value", what the soundness of the traceback needs -/
def SCodeOk (T : Ties) (f : SCodeFn) : Prop :=
  ∀ (b0 ms a b c d xc yc : Int) (p q : Nat),
    (f b0 ms a b c d xc yc p q,
        max b0 (max ms (max (if T.iT a b = true then a else b) (max (if T.dT c d = true then c else d) (max xc yc))))) ∈
      [(Tb.xsuf, b0), (if p = q then Tb.mat else Tb.subst, ms), (Tb.ins, if T.iT a b = true then a else b),
        (Tb.del, if T.dT c d = true then c else d), (Tb.xpre, xc), (Tb.ypre, yc)]

open RbV.I32 in
/-- the row of the checked-`i32` mirror with the tie-breaks `T` **and the S-code chooser `sCode`** as parameters; the value of
the S layer is the maximum of the six candidates (order-free) -/
def stepJS (T : Ties) (sCode : SCodeFn) (sc : Sc) (cl : Clip) (m n j i p q : Nat) (xclip_score b0 : Int) (pr1 pr r : Row) :
    Option Row :=
  obind (add pr1.s (sc.w p q)) fun m_score =>
  obind (add r.i sc.ge) fun i_score =>
  obind (add r.s sc.go) fun s0 =>
  obind (add s0 sc.ge) fun s_score =>
  let best_i_score := if T.iT i_score s_score = true then i_score else s_score
  let ti : Tb := if T.iT i_score s_score = true then .ins else r.t.ts
  obind (add pr.d sc.ge) fun d_score =>
  obind (add pr.s sc.go) fun s1 =>
  obind (add s1 sc.ge) fun s_score2 =>
  let best_d_score := if T.dT d_score s_score2 = true then d_score else s_score2
  let td : Tb := if T.dT d_score s_score2 = true then .del else pr.t.ts
  obind (add cl.yp sc.go) fun y0 =>
  obind (mul sc.ge (ofUsize i)) fun t =>
  obind (add y0 t) fun yclip_score =>
  let b5 := max b0 (max m_score (max best_i_score (max best_d_score (max xclip_score yclip_score))))
  let c5 : Tb := sCode b0 m_score i_score s_score d_score s_score2 xclip_score yclip_score p q
  obind (add b5 cl.xs) fun cx =>
  let xm1 := if i = m then b5 else r.xm
  let xm2 := max cx xm1
  let lx := if cx > xm1 then m - i else r.t.lx
  let s := if i = m then xm2 else b5
  obind (add s cl.ys) fun cy =>
  let ly := if T.snT cy pr.sn = true then n - j else pr.t.ly
  some ⟨s, best_i_score, best_d_score, if T.snT cy pr.sn = true then cy else pr.sn, xm2, ⟨c5, ti, td, ly, lx⟩⟩

/-- **generic step of "the best of a list of (code, score) candidates, compared in any order"**: if `(C, V)` is a candidate and
`(code, v)` is a candidate, then so is the pair the text keeps after `if v > V { best = v; code }` (value `max v V`) -/
theorem pick_gt (cands : List (Tb × Int)) (C code : Tb) (V v W : Int) (hW : W = max v V) (hprev : (C, V) ∈ cands)
    (hnew : (code, v) ∈ cands) : ((if v > V then code else C), W) ∈ cands := by
  subst hW
  by_cases h : v > V
  · rw [if_pos h, show max v V = v by omega]; exact hnew
  · rw [if_neg h, show max v V = V by omega]; exact hprev
/-- … and after `if v >= V { … }` -/
theorem pick_ge (cands : List (Tb × Int)) (C code : Tb) (V v W : Int) (hW : W = max v V) (hprev : (C, V) ∈ cands)
    (hnew : (code, v) ∈ cands) : ((if v ≥ V then code else C), W) ∈ cands := by
  subst hW
  by_cases h : v ≥ V
  · rw [if_pos h, show max v V = v by omega]; exact hnew
  · rw [if_neg h, show max v V = V by omega]; exact hprev

/-- the cell equation for a given code chooser -/
def CellEq (w : Nat → Nat → Int) (T : Ties) (sCode : SCodeFn) : Prop :=
      ∀ (a : Aligner) (x : List Nat) (m n i j curr prev q p : Nat) (xclip B0 : Int) (tsL tsU : Tb) (hd : Dims a m n)
        (hx : x.length = m) (hpx : x.getD (i - 1) 0 = p) (hi : 1 ≤ i) (him : i ≤ m) (hj : 1 ≤ j) (hjn : j ≤ n) (hc : curr < 2) (hp : prev < 2)
        (hcp : curr ≠ prev) (hB0 : (a.S.getD curr []).getD i 0 = B0)
        (hL : SIs a (i - 1) j tsL) (hU : SIs a i (j - 1) tsU),
        custom_for5 w T.iT T.dT T.snT T.sn0T x m n j curr prev q xclip a i =
          ofOpt (stepJS T sCode (scOf w a) (clOf a) m n j i p q xclip B0 (rowPrev1 a prev (i - 1))
              (rowPrev a prev i tsU) (rowCur a m j curr (i - 1) tsL)) >>= fun r' =>
            Res.ok (writeRow a m curr i j r')

/-- **One cell of the main loop (translated text), for any order in which the text compares the six candidates of `S(i, j)`
and any mix of `>` / `>=` at the I / D / Sn ties**: there is a code chooser `sCode` that is admissible (`SCodeOk`) such that on
every aligner state of the right shape the body panics exactly when the checked-`i32` row is `none`, and otherwise writes
exactly the row `stepJS T sCode …`: the **values** `S/I/D[curr][i]`, the register `S[curr][m]`, `Sn[i]`, `Ly[i]`, `Lx[j]` are the
mirror's (the S value is the maximum of the candidates), the I and D codes are the tie-break's, the S code is `sCode`'s. -/
theorem cell_update_any_order (w : Nat → Nat → Int) (T : Ties) :
    ∃ sCode : SCodeFn, SCodeOk T sCode ∧ CellEq w T sCode := by
  refine ⟨?f, ?ok, ?eq⟩
  case eq =>
    unfold CellEq
    intro a x m n i j curr prev q p xclip B0 tsL tsU hd hx hpx hi him hj hjn hc hp hcp hB0 hL hU
    obtain ⟨S2, I2, D2, Srow, Irow, Drow, hSn, hLy, hLx, htb, hrows, hcols⟩ := hd
    have eSc : Rs.idx a.S curr = .ok (a.S.getD curr []) := idxD _ _ (by omega)
    have eSp : Rs.idx a.S prev = .ok (a.S.getD prev []) := idxD _ _ (by omega)
    have eIc : Rs.idx a.I curr = .ok (a.I.getD curr []) := idxD _ _ (by omega)
    have eDc : Rs.idx a.D curr = .ok (a.D.getD curr []) := idxD _ _ (by omega)
    have eDp : Rs.idx a.D prev = .ok (a.D.getD prev []) := idxD _ _ (by omega)
    have eL : tbGet a.traceback (i - 1) j = .ok (cellAt a (i - 1) j) := by
      rw [tbGet_eq_model _ _ _ htb (by omega) (by omega)]
      exact idxD _ _ (shaped_idx htb (by omega) (by omega)).1
    have eU : tbGet a.traceback i (j - 1) = .ok (cellAt a i (j - 1)) := by
      rw [tbGet_eq_model _ _ _ htb (by omega) (by omega)]
      exact idxD _ _ (shaped_idx htb (by omega) (by omega)).1
    have eW : ∀ c, tbSet a.traceback i j c =
        .ok { a.traceback with matrix := a.traceback.matrix.set (i * a.traceback.cols + j) c } :=
      fun c => tbSet_eq_model _ _ _ _ htb (by omega) (by omega)
    unfold SIs at hL hU
    simp only [rowPrev1, rowPrev, rowCur, scOf, clOf, writeRow, stepJS, ofOpt_obind]
    have lSc : (a.S.getD curr []).length = m + 1 := Srow _ hc
    have lSp : (a.S.getD prev []).length = m + 1 := Srow _ hp
    have lIc : (a.I.getD curr []).length = m + 1 := Irow _ hc
    have lDc : (a.D.getD curr []).length = m + 1 := Drow _ hc
    have lDp : (a.D.getD prev []).length = m + 1 := Drow _ hp
    have e1 : Rs.sub i 1 = .ok (i - 1) := Rs.sub_ok hi
    have e1j : Rs.sub j 1 = .ok (j - 1) := Rs.sub_ok hj
    have e2 : Rs.idx x (i - 1) = .ok p := by rw [← hpx]; exact idxD _ _ (by omega)
    have e3 : Rs.idx (a.S.getD prev []) (i - 1) = .ok ((a.S.getD prev []).getD (i - 1) 0) := idxD _ _ (by omega)
    have e4 : Rs.idx (a.I.getD curr []) (i - 1) = .ok ((a.I.getD curr []).getD (i - 1) 0) := idxD _ _ (by omega)
    have e5 : Rs.idx (a.S.getD curr []) (i - 1) = .ok ((a.S.getD curr []).getD (i - 1) 0) := idxD _ _ (by omega)
    have e6 : Rs.idx (a.D.getD prev []) i = .ok ((a.D.getD prev []).getD i 0) := idxD _ _ (by omega)
    have e7 : Rs.idx (a.S.getD prev []) i = .ok ((a.S.getD prev []).getD i 0) := idxD _ _ (by omega)
    have e8 : Rs.idx (a.S.getD curr []) i = .ok B0 := by rw [← hB0]; exact idxD _ _ (by omega)
    have f1 : ∀ v, Rs.setIdx (a.S.getD curr []) i v = .ok ((a.S.getD curr []).set i v) := fun v => setIdx_ok' _ _ _ (by omega)
    have f2 : ∀ l, Rs.setIdx a.S curr l = .ok (a.S.set curr l) := fun l => setIdx_ok' _ _ _ (by omega)
    have f3 : ∀ v, Rs.setIdx (a.I.getD curr []) i v = .ok ((a.I.getD curr []).set i v) := fun v => setIdx_ok' _ _ _ (by omega)
    have f4 : ∀ l, Rs.setIdx a.I curr l = .ok (a.I.set curr l) := fun l => setIdx_ok' _ _ _ (by omega)
    have f5 : ∀ v, Rs.setIdx (a.D.getD curr []) i v = .ok ((a.D.getD curr []).set i v) := fun v => setIdx_ok' _ _ _ (by omega)
    have f6 : ∀ l, Rs.setIdx a.D curr l = .ok (a.D.set curr l) := fun l => setIdx_ok' _ _ _ (by omega)
    have f7 : ∀ l : List Int, Rs.idx (a.S.set curr l) curr = .ok l := fun l => by
      rw [Rs.idx_ok (by rw [List.length_set]; omega)]; simp
    have f8 : ∀ v : Int, Rs.idx ((a.S.getD curr []).set i v) i = .ok v := fun v => by
      rw [Rs.idx_ok (by rw [List.length_set]; omega)]; simp
    have f9 : ∀ v : Int, Rs.idx ((a.S.getD curr []).set i v) m = .ok (if i = m then v else (a.S.getD curr []).getD m 0) :=
      fun v => by
        have hlt : i < (a.S.getD curr []).length := by omega
        rw [idxD _ _ (by rw [List.length_set]; omega), getD_set']
        simp only [hlt, and_true]; rfl
    have f10 : ∀ v u : Int, Rs.setIdx ((a.S.getD curr []).set i v) m u = .ok (((a.S.getD curr []).set i v).set m u) :=
      fun v u => setIdx_ok' _ _ _ (by rw [List.length_set]; omega)
    have f11 : ∀ l l' : List Int, Rs.setIdx (a.S.set curr l) curr l' = .ok (a.S.set curr l') := fun l l' => by
      rw [setIdx_ok' _ _ _ (by rw [List.length_set]; omega), List.set_set]
    have f12 : Rs.sub m i = .ok (m - i) := Rs.sub_ok him
    have f13 : Rs.sub n j = .ok (n - j) := Rs.sub_ok hjn
    have f14 : ∀ v, Rs.setIdx a.Lx j v = .ok (a.Lx.set j v) := fun v => setIdx_ok' _ _ _ (by omega)
    have f15 : ∀ v, Rs.setIdx a.Sn i v = .ok (a.Sn.set i v) := fun v => setIdx_ok' _ _ _ (by omega)
    have f16 : ∀ v, Rs.setIdx a.Ly i v = .ok (a.Ly.set i v) := fun v => setIdx_ok' _ _ _ (by omega)
    have f17 : Rs.idx a.Sn i = .ok (a.Sn.getD i 0) := idxD _ _ (by omega)
    have f18 : ∀ (v u : Int), Rs.idx (((a.S.getD curr []).set i v).set m u) i = .ok (if i = m then u else v) := fun v u => by
      have hlt : i < (a.S.getD curr []).length := by omega
      have hlt2 : m < ((a.S.getD curr []).set i v).length := by rw [List.length_set]; omega
      rw [idxD _ _ (by rw [List.length_set, List.length_set]; omega), getD_set', getD_set']
      simp only [hlt, hlt2, and_true, if_true]
      by_cases h : i = m
      · simp [h]
      · have h' : ¬ m = i := fun e => h e.symm
        simp [h, h']
    have f19 : ∀ v : Int, ((a.S.getD curr []).set i v).getD m 0 = if i = m then v else (a.S.getD curr []).getD m 0 := fun v => by
      have hlt : i < (a.S.getD curr []).length := by omega
      rw [getD_set']; simp only [hlt, and_true]
    have hcomm : ∀ s, I32.add (w p q) s = I32.add s (w p q) := fun s => by
      unfold I32.add; rw [Int.add_comm]
    unfold custom_for5
    simp only [hcomm, e1, e1j, e2, e3, e4, e5, e6, e7, e8, eSc, eSp, eIc, eDc, eDp, eL, eU, cellNew_eq_model, Res.pure_eq_ok, Res.ok_bind,
      bind_pure_comp, iadd32, imul32, castSigned32, getSBits_eq_model, hL, hU, k_ins, k_del, k_xsuf, k_xpre, k_ypre, enc_ite,
      setI_new, setD_cI, setS_cD, setS_cell, ite_ok, ite_fst, ite_snd, ite_cI, ite_cD, ite_cell, minScore_eq, upd_fold,
      f1, f2, f3, f4, f5, f6, f7, f8, f9, f10, f11, f12, f13, f14, f15, f16, f17, f18, f19, eW, bind_assoc,
      apply_ite Aligner.S, apply_ite Aligner.Sn, apply_ite Aligner.Ly, apply_ite Aligner.Lx, apply_ite Aligner.I,
      apply_ite Aligner.D, apply_ite Aligner.traceback, apply_ite Aligner.scoring, ite_self, ite_set0, ite_setN, ite_set2]
    iterate 10 (refine bind_congr (fun _ => ?_))
    simp only [upd_eq_max, Int.max_assoc, Int.max_comm, max_lc]
    generalize I32.add _ a.scoring.xclip_suffix = o11
    cases o11 with
    | none => simp only [ofOpt_none, Res.panic_bind]
    | some cx =>
    simp only [ofOpt_some, Res.ok_bind, ite_ok, f7, f18, f19, apply_ite Aligner.S, apply_ite Aligner.Sn, apply_ite Aligner.Ly,
      apply_ite Aligner.Lx, apply_ite Aligner.I, apply_ite Aligner.D, apply_ite Aligner.traceback, apply_ite Aligner.scoring,
      ite_self, ite_set0, ite_setN, ite_set2, upd_fold, f15, f16, f17, eW, upd_eq_max, Int.max_assoc, Int.max_comm, max_lc]
    generalize I32.add _ a.scoring.yclip_suffix = o12
    cases o12 with
    | none => simp only [ofOpt_none, Res.panic_bind]
    | some cy =>
    simp only [ofOpt_some, Res.ok_bind, ite_ok, apply_ite Aligner.S, apply_ite Aligner.Sn, apply_ite Aligner.Ly,
      apply_ite Aligner.Lx, apply_ite Aligner.I, apply_ite Aligner.D, apply_ite Aligner.traceback, apply_ite Aligner.scoring,
      ite_self, ite_set0, ite_setN, ite_set2, upd_fold, f15, f16, eW, Res.ok.injEq, f19, upd_eq_max, Int.max_assoc, Int.max_comm,
      max_lc]
    simp only [set_set_reg, upd_eq_max, Int.max_assoc, Int.max_comm, max_lc]
    rfl


  case ok =>
    intro b0 ms a b c d xc yc p q
    dsimp only
    generalize (if T.iT a b = true then a else b) = bi
    generalize (if T.dT c d = true then c else d) = bd
    repeat (first
      | refine pick_gt _ _ _ _ _ _ (by simp only [Int.max_assoc, Int.max_comm, max_lc]) ?_ (by simp)
      | refine pick_ge _ _ _ _ _ _ (by simp only [Int.max_assoc, Int.max_comm, max_lc]) ?_ (by simp))
    simp

/-- what `writeRow` leaves behind, read back: the written cell holds the three codes of the row -/
theorem cellOf_reads (ts ti td : Tb) :
    TbCell.getBits (cellOf ts ti td).v sPos = enc ts ∧ TbCell.getBits (cellOf ts ti td).v iPos = enc ti ∧
      TbCell.getBits (cellOf ts ti td).v dPos = enc td := by
  have hi : iPos ∈ positions := by decide
  have hd : dPos ∈ positions := by decide
  have hs : sPos ∈ positions := by decide
  unfold cellOf
  refine ⟨GenTbCodes.tb_get_after_set _ _ _ (enc_le_max ts) hs, ?_, ?_⟩
  · rw [GenTbCodes.tb_set_preserves_other_fields _ _ _ _ (enc_le_max ts) hs hi (by decide),
      GenTbCodes.tb_set_preserves_other_fields _ _ _ _ (enc_le_max td) hd hi (by decide),
      GenTbCodes.tb_get_after_set _ _ _ (enc_le_max ti) hi]
  · rw [GenTbCodes.tb_set_preserves_other_fields _ _ _ _ (enc_le_max ts) hs hd (by decide),
      GenTbCodes.tb_get_after_set _ _ _ (enc_le_max td) hd]

end RbV.Thm.GenSrcPwCustom
