import RbV.Gen.SrcQGrams
import RbV.Model.QGramIter
import RbV.Thm.GenSrcBasic
/-!
# The translated text of the q-gram iterators of `alphabets/mod.rs` equals the mirror models of `Model/QGramIter.lean`

`RbV/Gen/SrcQGrams.lean` is regenerated from `src/alphabets/mod.rs` on every `./check C19` (dialect "cf"): `qgram_push`,
`QGrams::next` (`match self.text.next()`), the constructor `RankTransform::qgrams` (assertions, the mask
`1usize.checked_shl(q * bits).unwrap_or(0).wrapping_sub(1)`, the `q - 1` warm-up calls of `next`), and the reverse
counterparts `qgram_push_rev`, `RevQGrams::next` (`next_back`), `rev_qgrams`.

Abstract parameters of the generated definitions: `rankGet` (= `RankTransform::get`, translated and proved in
`GenSrcAlphabet`; may panic), `ranksLen` (= `self.ranks.len()`), `ceilLog2` (= `(n as f32).log2().ceil() as u32`, the `f32`
computation stays outside; the theorems assume `ceilLog2 ranksLen = bits`).  `R` is the rank function the model uses.
`collectNext nx fuel text qgram` calls a translated `next` until it returns `None` (what `Iterator::collect` does).
-/
set_option linter.unusedSimpArgs false
set_option linter.unusedVariables false
namespace RbV.Thm.GenSrcQGrams
open RbV RbV.Rs RbV.Gen.SrcQGrams RbV.QGram

/-- call `next` (on the fields `text`, `qgram` it updates) until it returns `None` -/
def collectNext (nx : List Nat → Nat → Res (List Nat × Nat × Option Nat)) : Nat → List Nat → Nat → Res (List Nat)
  | 0, _, _ => Res.fuel
  | fuel + 1, text, qg => do
    let (text, qg, r) ← nx text qg
    match r with
    | none => pure []
    | some v => do
      let rest ← collectNext nx fuel text qg
      pure (v :: rest)

/-- the q-gram register after pushing the ranks `rs` -/
def stateFwd (bits mask : Nat) (qg : Nat) (rs : List Nat) : Nat := rs.foldl (pushFwd bits mask) qg

theorem scanFwd_append (bits mask : Nat) : ∀ (a b : List Nat) (qg : Nat),
    scanFwd bits mask qg (a ++ b) = scanFwd bits mask qg a ++ scanFwd bits mask (stateFwd bits mask qg a) b := by
  intro a
  induction a with
  | nil => intro b qg; simp [scanFwd, stateFwd]
  | cons x t ih => intro b qg; simp [scanFwd, stateFwd, ih]

theorem scanFwd_length (bits mask : Nat) : ∀ (a : List Nat) (qg : Nat), (scanFwd bits mask qg a).length = a.length := by
  intro a
  induction a with
  | nil => intro qg; simp [scanFwd]
  | cons x t ih => intro qg; simp [scanFwd, ih]

theorem scanFwd_drop (bits mask : Nat) (rs : List Nat) (qg k : Nat) :
    (scanFwd bits mask qg rs).drop k = scanFwd bits mask (stateFwd bits mask qg (rs.take k)) (rs.drop k) := by
  by_cases hk : k ≤ rs.length
  · have h := scanFwd_append bits mask (rs.take k) (rs.drop k) qg
    rw [List.take_append_drop] at h
    have hl : (scanFwd bits mask qg (rs.take k)).length = k := by rw [scanFwd_length]; simp; omega
    rw [h, List.drop_left' hl]
  · have h1 : rs.drop k = [] := List.drop_of_length_le (by omega)
    rw [h1, List.drop_of_length_le (by rw [scanFwd_length]; omega)]
    simp [scanFwd]

section fwd
variable (R : Nat → Nat) (rg : Nat → Res Nat) (cl : Nat → Nat) (rl : Nat)

/-- **`qgram_push` as written in the source** = `pushFwd` (a shift amount `≥ 64` would panic) -/
theorem qgramPush_eq_model (qg bits mask a : Nat) (hb : bits < 64) :
    qgramPush rg cl rl qg bits mask a = Res.ok (pushFwd bits mask qg a) := by
  simp [qgramPush, Rs.shl_ok hb, pushFwd]

/-- **`QGrams::next` as written in the source**: takes the next symbol, pushes its rank, yields the register -/
theorem next_cons (c : Nat) (t : List Nat) (bits mask qg : Nat) (hb : bits < 64) (hc : rg c = Res.ok (R c)) :
    next rg cl rl (c :: t) bits mask qg
      = Res.ok (t, pushFwd bits mask qg (R c), some (pushFwd bits mask qg (R c))) := by
  simp [next, hc, qgramPush_eq_model rg cl rl _ _ _ _ hb]

theorem next_nil (bits mask qg : Nat) : next rg cl rl [] bits mask qg = Res.ok ([], qg, none) := by
  simp [next]

theorem collect_fwd (bits mask : Nat) (hb : bits < 64) : ∀ (text : List Nat) (qg fuel : Nat),
    (∀ c ∈ text, rg c = Res.ok (R c)) → text.length < fuel →
    collectNext (fun t q => next rg cl rl t bits mask q) fuel text qg = Res.ok (scanFwd bits mask qg (text.map R)) := by
  intro text
  induction text with
  | nil =>
    intro qg fuel _ hf
    obtain ⟨f, rfl⟩ : ∃ f, fuel = f + 1 := ⟨fuel - 1, by omega⟩
    simp [collectNext, next_nil, scanFwd]
  | cons c t ih =>
    intro qg fuel hrg hf
    obtain ⟨f, rfl⟩ : ∃ f, fuel = f + 1 := ⟨fuel - 1, by omega⟩
    simp only [List.length_cons] at hf
    have hn := next_cons R rg cl rl c t bits mask qg hb (hrg c List.mem_cons_self)
    have := ih (pushFwd bits mask qg (R c)) f (fun x hx => hrg x (List.mem_cons_of_mem _ hx)) (by omega)
    simp [collectNext, hn, this, scanFwd]

/-- the warm-up loop of the constructor: `k` calls of `next` -/
theorem warmup_fwd (bits mask q : Nat) (hb : bits < 64) : ∀ (k s : Nat) (text : List Nat) (qg : Nat),
    (∀ c ∈ text, rg c = Res.ok (R c)) →
    (List.range' s k).foldlM (qgrams_for1 rg cl rl) (text, q, bits, mask, qg)
      = Res.ok (text.drop k, q, bits, mask, stateFwd bits mask qg ((text.take k).map R)) := by
  intro k
  induction k with
  | zero => intro s text qg _; simp [stateFwd]
  | succ k ih =>
    intro s text qg hrg
    cases text with
    | nil =>
      have := ih (s + 1) [] qg (by simp)
      simp only [List.drop_nil, List.take_nil, List.map_nil] at this
      simp [List.range'_succ, qgrams_for1, next_nil, this]
    | cons c t =>
      have hn := next_cons R rg cl rl c t bits mask qg hb (hrg c List.mem_cons_self)
      have := ih (s + 1) t (pushFwd bits mask qg (R c)) (fun x hx => hrg x (List.mem_cons_of_mem _ hx))
      simp [List.range'_succ, qgrams_for1, hn, this, stateFwd]

/-- the mask expression of the constructor: `1usize.checked_shl(q * bits).unwrap_or(0).wrapping_sub(1)` -/
theorem mask_eq_model (q bits : Nat) (hqb : q * bits ≤ 64) :
    Rs.wrappingSub 64 ((Rs.checkedShl 64 1 (q * bits)).getD 0) 1 = maskOf q bits := by
  unfold maskOf Rs.checkedShl Rs.wrappingSub
  by_cases h : q * bits < 64
  · have h1 : 1 ≤ 2 ^ (q * bits) := Nat.one_le_two_pow
    have h2 : 2 ^ (q * bits) < 2 ^ 64 := Nat.pow_lt_pow_right (by omega) h
    simp only [h, if_true, Option.getD_some, Nat.shiftLeft_eq, Nat.one_mul, Nat.mod_eq_of_lt h2]
    generalize 2 ^ (q * bits) = x at h1 h2 ⊢
    omega
  · simp [h]

/-- **`RankTransform::qgrams` as written in the source**: with `0 < q`, `q · bits ≤ 64` the assertions pass, the mask is
the model's, and the `q − 1` warm-up calls leave the iterator on the rest of the text with the register the model has
after the first `q − 1` ranks -/
theorem qgrams_eq_model (q bits : Nat) (text : List Nat) (hq : 0 < q) (hqb : q * bits ≤ 64) (hb : bits < 64)
    (hcl : cl rl = bits) (hrg : ∀ c ∈ text, rg c = Res.ok (R c)) :
    qgrams rg cl rl q text
      = Res.ok (text.drop (q - 1), q, bits, maskOf q bits,
          stateFwd bits (maskOf q bits) 0 ((text.take (q - 1)).map R)) := by
  have hq64 : q ≤ 64 ∨ bits = 0 := by
    by_cases h0 : bits = 0
    · exact Or.inr h0
    · left
      have : q * 1 ≤ q * bits := Nat.mul_le_mul_left q (by omega)
      omega
  have hbq : bits * q = q * bits := Nat.mul_comm _ _
  have e1 : Rs.mul 32 bits q = Res.ok (q * bits) := by rw [← hbq]; exact Rs.mul_ok (by rw [hbq]; omega)
  have e2 : Rs.mul 32 q bits = Res.ok (q * bits) := Rs.mul_ok (by omega)
  have e3 : Rs.sub q 1 = Res.ok (q - 1) := Rs.sub_ok hq
  have a1 : Rs.assert (decide (q > 0)) = Res.ok () := Rs.assert_ok (by simpa using hq)
  have a2 : Rs.assert (decide (q * bits ≤ 64)) = Res.ok () := Rs.assert_ok (by simpa using hqb)
  have hw := fun s => warmup_fwd R rg cl rl bits (maskOf q bits) q hb (q - 1) s text 0 hrg
  simp [qgrams, hcl, e1, e2, e3, a1, a2, mask_eq_model q bits hqb, hw]

/-- **constructor + iteration = the model of the forward q-gram iterator** -/
theorem qgrams_collect_eq_model (q bits : Nat) (text : List Nat) (hq : 0 < q) (hqb : q * bits ≤ 64) (hb : bits < 64)
    (hcl : cl rl = bits) (hrg : ∀ c ∈ text, rg c = Res.ok (R c)) (fuel : Nat) (hf : text.length < fuel) :
    (do let st ← qgrams rg cl rl q text
        collectNext (fun t g => next rg cl rl t st.2.2.1 st.2.2.2.1 g) fuel st.1 st.2.2.2.2)
      = Res.ok ((scanFwd bits (maskOf q bits) 0 (text.map R)).drop (q - 1)) := by
  rw [qgrams_eq_model R rg cl rl q bits text hq hqb hb hcl hrg]
  simp only [Res.ok_bind]
  rw [collect_fwd R rg cl rl bits (maskOf q bits) hb (text.drop (q - 1)) _ fuel
    (fun c hc => hrg c (List.mem_of_mem_drop hc)) (by simp; omega)]
  rw [scanFwd_drop, List.map_take, List.map_drop]

end fwd

/-! ## the reverse iterator -/

def stateRev (bits sh : Nat) (qg : Nat) (rs : List Nat) : Nat := rs.foldl (pushRev bits sh) qg

theorem scanRev_append (bits sh : Nat) : ∀ (a b : List Nat) (qg : Nat),
    scanRev bits sh qg (a ++ b) = scanRev bits sh qg a ++ scanRev bits sh (stateRev bits sh qg a) b := by
  intro a
  induction a with
  | nil => intro b qg; simp [scanRev, stateRev]
  | cons x t ih => intro b qg; simp [scanRev, stateRev, ih]

theorem scanRev_length (bits sh : Nat) : ∀ (a : List Nat) (qg : Nat), (scanRev bits sh qg a).length = a.length := by
  intro a
  induction a with
  | nil => intro qg; simp [scanRev]
  | cons x t ih => intro qg; simp [scanRev, ih]

theorem scanRev_drop (bits sh : Nat) (rs : List Nat) (qg k : Nat) :
    (scanRev bits sh qg rs).drop k = scanRev bits sh (stateRev bits sh qg (rs.take k)) (rs.drop k) := by
  by_cases hk : k ≤ rs.length
  · have h := scanRev_append bits sh (rs.take k) (rs.drop k) qg
    rw [List.take_append_drop] at h
    have hl : (scanRev bits sh qg (rs.take k)).length = k := by rw [scanRev_length]; simp; omega
    rw [h, List.drop_left' hl]
  · have h1 : rs.drop k = [] := List.drop_of_length_le (by omega)
    rw [h1, List.drop_of_length_le (by rw [scanRev_length]; omega)]
    simp [scanRev]

section rev
variable (R : Nat → Nat) (rg : Nat → Res Nat) (cl : Nat → Nat) (rl : Nat)

/-- **`qgram_push_rev` as written in the source** = `pushRev` (no bit of `a << left_shift` is lost) -/
theorem qgramPushRev_eq_model (qg bits ls a : Nat) (hb : bits < 64) (hls : ls < 64) (ha : a * 2 ^ ls < 2 ^ 64) :
    qgramPushRev rg cl rl qg bits ls a = Res.ok (pushRev bits ls qg a) := by
  have e : (a <<< ls) % 2 ^ 64 = a <<< ls := by rw [Nat.shiftLeft_eq]; exact Nat.mod_eq_of_lt ha
  simp [qgramPushRev, Rs.shr_ok hb, Rs.shl_ok hls, pushRev, e]

theorem nextRev_snoc (c : Nat) (t : List Nat) (bits ls qg : Nat) (hb : bits < 64) (hls : ls < 64)
    (hc : rg c = Res.ok (R c)) (ha : R c * 2 ^ ls < 2 ^ 64) :
    nextRev rg cl rl (t ++ [c]) bits ls qg
      = Res.ok (t, pushRev bits ls qg (R c), some (pushRev bits ls qg (R c))) := by
  simp [nextRev, hc, qgramPushRev_eq_model rg cl rl _ _ _ _ hb hls ha]

theorem nextRev_nil (bits ls qg : Nat) : nextRev rg cl rl [] bits ls qg = Res.ok ([], qg, none) := by
  simp [nextRev]

theorem collect_rev (bits ls : Nat) (hb : bits < 64) (hls : ls < 64) : ∀ (l : List Nat) (qg fuel : Nat),
    (∀ c ∈ l, rg c = Res.ok (R c) ∧ R c * 2 ^ ls < 2 ^ 64) → l.length < fuel →
    collectNext (fun t q => nextRev rg cl rl t bits ls q) fuel l.reverse qg
      = Res.ok (scanRev bits ls qg (l.map R)) := by
  intro l
  induction l with
  | nil =>
    intro qg fuel _ hf
    obtain ⟨f, rfl⟩ : ∃ f, fuel = f + 1 := ⟨fuel - 1, by omega⟩
    simp [collectNext, nextRev_nil, scanRev]
  | cons c t ih =>
    intro qg fuel hrg hf
    obtain ⟨f, rfl⟩ : ∃ f, fuel = f + 1 := ⟨fuel - 1, by omega⟩
    simp only [List.length_cons] at hf
    have hc := hrg c List.mem_cons_self
    have hn := nextRev_snoc R rg cl rl c t.reverse bits ls qg hb hls hc.1 hc.2
    have := ih (pushRev bits ls qg (R c)) f (fun x hx => hrg x (List.mem_cons_of_mem _ hx)) (by omega)
    simp [collectNext, hn, this, scanRev]

theorem warmup_rev (bits ls q : Nat) (hb : bits < 64) (hls : ls < 64) : ∀ (k s : Nat) (l : List Nat) (qg : Nat),
    (∀ c ∈ l, rg c = Res.ok (R c) ∧ R c * 2 ^ ls < 2 ^ 64) →
    (List.range' s k).foldlM (revQgrams_for1 rg cl rl) (l.reverse, q, bits, ls, qg)
      = Res.ok ((l.drop k).reverse, q, bits, ls, stateRev bits ls qg ((l.take k).map R)) := by
  intro k
  induction k with
  | zero => intro s l qg _; simp [stateRev]
  | succ k ih =>
    intro s l qg hrg
    cases l with
    | nil =>
      have := ih (s + 1) [] qg (by simp)
      simp only [List.drop_nil, List.take_nil, List.map_nil, List.reverse_nil] at this
      simp [List.range'_succ, revQgrams_for1, nextRev_nil, this]
    | cons c t =>
      have hc := hrg c List.mem_cons_self
      have hn := nextRev_snoc R rg cl rl c t.reverse bits ls qg hb hls hc.1 hc.2
      have := ih (s + 1) t (pushRev bits ls qg (R c)) (fun x hx => hrg x (List.mem_cons_of_mem _ hx))
      simp [List.range'_succ, revQgrams_for1, hn, this, stateRev]

theorem shift_lt (q bits : Nat) (hq : 0 < q) (hqb : q * bits ≤ 64) (hb : bits < 64) : (q - 1) * bits < 64 := by
  have : (q - 1) * bits = q * bits - bits := by rw [Nat.sub_mul, Nat.one_mul]
  by_cases h0 : bits = 0
  · subst h0; simp
  · omega

theorem rank_shift_lt (q bits r : Nat) (hq : 0 < q) (hqb : q * bits ≤ 64) (hr : r < 2 ^ bits) :
    r * 2 ^ ((q - 1) * bits) < 2 ^ 64 := by
  have h1 : r * 2 ^ ((q - 1) * bits) < 2 ^ bits * 2 ^ ((q - 1) * bits) :=
    Nat.mul_lt_mul_of_pos_right hr (Nat.two_pow_pos _)
  have h2 : 2 ^ bits * 2 ^ ((q - 1) * bits) = 2 ^ (q * bits) := by
    rw [← Nat.pow_add]; congr 1
    have : (q - 1) * bits = q * bits - bits := by rw [Nat.sub_mul, Nat.one_mul]
    have : bits ≤ q * bits := Nat.le_mul_of_pos_left bits hq
    omega
  have h3 : 2 ^ (q * bits) ≤ 2 ^ 64 := Nat.pow_le_pow_right (by omega) hqb
  omega

/-- **`RankTransform::rev_qgrams` as written in the source + iteration = the model of the reverse iterator** -/
theorem revQgrams_collect_eq_model (q bits : Nat) (text : List Nat) (hq : 0 < q) (hqb : q * bits ≤ 64) (hb : bits < 64)
    (hcl : cl rl = bits) (hrg : ∀ c ∈ text, rg c = Res.ok (R c)) (hR : ∀ c ∈ text, R c < 2 ^ bits)
    (fuel : Nat) (hf : text.length < fuel) :
    (do let st ← revQgrams rg cl rl q text
        collectNext (fun t g => nextRev rg cl rl t st.2.2.1 st.2.2.2.1 g) fuel st.1 st.2.2.2.2)
      = Res.ok ((scanRev bits ((q - 1) * bits) 0 (text.map R).reverse).drop (q - 1)) := by
  have hls := shift_lt q bits hq hqb hb
  have hall : ∀ c ∈ text.reverse, rg c = Res.ok (R c) ∧ R c * 2 ^ ((q - 1) * bits) < 2 ^ 64 := by
    intro c hc
    have hc' : c ∈ text := List.mem_reverse.mp hc
    exact ⟨hrg c hc', rank_shift_lt q bits _ hq hqb (hR c hc')⟩
  have hbq : bits * q = q * bits := Nat.mul_comm _ _
  have e1 : Rs.mul 32 bits q = Res.ok (q * bits) := by rw [← hbq]; exact Rs.mul_ok (by rw [hbq]; omega)
  have e2 : Rs.mul 32 (q - 1) bits = Res.ok ((q - 1) * bits) := Rs.mul_ok (by omega)
  have e3 : Rs.sub q 1 = Res.ok (q - 1) := Rs.sub_ok hq
  have a1 : Rs.assert (decide (q > 0)) = Res.ok () := Rs.assert_ok (by simpa using hq)
  have a2 : Rs.assert (decide (q * bits ≤ 64)) = Res.ok () := Rs.assert_ok (by simpa using hqb)
  have hw := fun s => warmup_rev R rg cl rl bits ((q - 1) * bits) q hb hls (q - 1) s text.reverse 0 hall
  simp only [List.reverse_reverse] at hw
  have hc := collect_rev R rg cl rl bits ((q - 1) * bits) hb hls (text.reverse.drop (q - 1))
    (stateRev bits ((q - 1) * bits) 0 ((text.reverse.take (q - 1)).map R)) fuel
    (fun c hc => hall c (List.mem_of_mem_drop hc)) (by simp; omega)
  simp only [revQgrams, hcl, e1, e2, e3, a1, a2, hw, Res.ok_bind, Nat.sub_zero, hc, Res.pure_eq_ok, bind_pure_comp]
  rw [scanRev_drop, ← List.map_reverse, List.map_take, List.map_drop]

end rev

-- the documented examples through the translated constructors and `next`s: alphabet ACGTacgt (ranks 0..7, 3 bits)
example : (do let st ← qgrams (fun a => Res.ok ([65, 67, 71, 84, 97, 99, 103, 116].idxOf a)) (fun _ => 3) 8 2 [65, 67, 71, 84]
              collectNext (fun t g => next (fun a => Res.ok ([65, 67, 71, 84, 97, 99, 103, 116].idxOf a)) (fun _ => 3) 8
                t st.2.2.1 st.2.2.2.1 g) 5 st.1 st.2.2.2.2) = Res.ok [1, 10, 19] := by decide
example : (do let st ← revQgrams (fun a => Res.ok ([65, 67, 71, 84, 97, 99, 103, 116].idxOf a)) (fun _ => 3) 8 2 [65, 67, 71, 84]
              collectNext (fun t g => nextRev (fun a => Res.ok ([65, 67, 71, 84, 97, 99, 103, 116].idxOf a)) (fun _ => 3) 8
                t st.2.2.1 st.2.2.2.1 g) 5 st.1 st.2.2.2.2) = Res.ok [19, 10, 1] := by decide
-- `q = 0` and `bits · q > 64` are refused by the assertions
example : qgrams (fun a => Res.ok a) (fun _ => 3) 8 0 [1, 2] = Res.panic := by decide
example : qgrams (fun a => Res.ok a) (fun _ => 3) 8 22 [1, 2] = Res.panic := by decide

end RbV.Thm.GenSrcQGrams
