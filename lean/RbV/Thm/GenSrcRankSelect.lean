import RbV.Gen.SrcRankSelect
import RbV.Model.RankSelect
import RbV.Lemmas.Bytes8
import RbV.Lemmas.RankSelectModel
import RbV.Thm.GenSrcBasic
/-!
# The translated text of `rank_select::{superblocks, RankSelect::rank_1, rank_0}` equals the mirror model

`RbV/Gen/SrcRankSelect.lean` is regenerated from `src/data_structures/rank_select.rs` by `tools/rs2lean.py` on every
`./check C17`.  The bit vector (`bv::BitVec<u8>`, an external crate) is an abstract type observed through `get_block`
and `len`; the theorems instantiate it with a `List Bool` and **assume the contract of the bv crate**: `len()` is the
number of bits and `get_block(b)` is the byte whose bit `k` is bit `8b + k` of the vector, zero beyond the end
(`blockByte`).  `u8::count_ones` / `count_zeros` are `Rs.countOnes` / `Rs.countZeros 8` (`Basic/RsSemBits.lean`).
`(bits.len() as f64 / 8.0).ceil() as usize` is the abstract function `ceilDiv8` with the contract `⌈x / 8⌉` (`CeilOk`; the
`f64` arithmetic is exact below 2^53).  `SuperblockRank` is the model's `SbRank`.
-/
set_option linter.unusedSimpArgs false

namespace RbV.Thm.GenSrcRankSelect
open RbV RbV.Rs RbV.Thm.GenSrc
open RbV.Model.RankSelect (SbRank SbState getBlock)
open RbV.Lemmas.Bytes8 (byteOf popcount8 rankMask)

/-- contract of `bv::BitVec<u8>::get_block`: the byte of block `b` -/
def blockByte (bits : List Bool) (b : Nat) : Nat := byteOf (getBlock bits b)

/-- contract of `(x as f64 / 8.0).ceil() as usize` for the lengths that occur -/
def CeilOk (cd8 : Nat → Nat) (n : Nat) : Prop := cd8 n = (n + 7) / 8

theorem blockByte_lt (bits : List Bool) (b : Nat) : blockByte bits b < 256 :=
  RbV.Lemmas.Bytes8.byteOf_lt _ (RbV.Lemmas.RankSelectModel.getBlock_length_le bits b)

/-- `u8::count_ones` on a byte is the 8-position count of `Lemmas/Bytes8` -/
theorem countOnes_eq_popcount8 (x : Nat) (hx : x < 256) : Rs.countOnes x = popcount8 x := by
  unfold Rs.countOnes popcount8
  have h64 : List.range 64 = List.range 8 ++ List.range' 8 56 := by decide
  rw [h64, List.filter_append]
  have : (List.range' 8 56).filter (fun i => x.testBit i) = [] := by
    rw [List.filter_eq_nil_iff]
    intro i hi
    rw [List.mem_range'_1] at hi
    have : x < 2 ^ i := Nat.lt_of_lt_of_le hx (by
      have : 2 ^ 8 ≤ 2 ^ i := Nat.pow_le_pow_right (by omega) hi.1
      simpa using this)
    simp [Nat.testBit_lt_two_pow this]
  rw [this, List.append_nil]

theorem countOnes_block (bits : List Bool) (b : Nat) :
    Rs.countOnes (blockByte bits b) = Model.RankSelect.countOnes (getBlock bits b) := by
  rw [countOnes_eq_popcount8 _ (blockByte_lt bits b)]
  exact RbV.Lemmas.Bytes8.popcount8_byteOf _ (RbV.Lemmas.RankSelectModel.getBlock_length_le bits b)

theorem countZeros_block (bits : List Bool) (b : Nat) :
    Rs.countZeros 8 (blockByte bits b) = Model.RankSelect.countZeros (getBlock bits b) := by
  unfold Rs.countZeros
  rw [countOnes_block]; rfl

theorem countOnes_le (bits : List Bool) (b : Nat) : Model.RankSelect.countOnes (getBlock bits b) ≤ 8 := by
  unfold Model.RankSelect.countOnes
  exact Nat.le_trans List.count_le_length (RbV.Lemmas.RankSelectModel.getBlock_length_le bits b)

/-- `(get_block(b) & (((2u16 << j) - 1) as u8)).count_ones()`: the ones among the low `j + 1` bits of the block -/
theorem masked_count (bits : List Bool) (b j : Nat) (hj : j < 8) :
    Rs.shl 16 2 j = Res.ok (2 <<< j) ∧ Rs.sub (2 <<< j) 1 = Res.ok (2 <<< j - 1) ∧
    Rs.countOnes (blockByte bits b &&& Rs.cast 8 (2 <<< j - 1))
      = Model.RankSelect.countOnes ((getBlock bits b).take (j + 1)) := by
  have hc : Rs.cast 8 (2 <<< j - 1) = rankMask j := rfl
  have hlt : blockByte bits b &&& rankMask j < 256 := Nat.lt_of_le_of_lt Nat.and_le_left (blockByte_lt bits b)
  refine ⟨?_, ?_, ?_⟩
  · have : j = 0 ∨ j = 1 ∨ j = 2 ∨ j = 3 ∨ j = 4 ∨ j = 5 ∨ j = 6 ∨ j = 7 := by omega
    rcases this with rfl | rfl | rfl | rfl | rfl | rfl | rfl | rfl <;> decide
  · have : j = 0 ∨ j = 1 ∨ j = 2 ∨ j = 3 ∨ j = 4 ∨ j = 5 ∨ j = 6 ∨ j = 7 := by omega
    rcases this with rfl | rfl | rfl | rfl | rfl | rfl | rfl | rfl <;> decide
  · rw [hc, countOnes_eq_popcount8 _ hlt]
    exact RbV.Lemmas.Bytes8.popcount8_masked _ j (RbV.Lemmas.RankSelectModel.getBlock_length_le bits b) hj

/-! ### rank_1, rank_0 -/

-- `block_len` and the `f64` ceiling are not used by these functions: any instance
variable (bl : List Bool → Nat) (cd8 : Nat → Nat)

/-- the block loop of `rank_1` -/
theorem rank1_fold (bits : List Bool) (bb : Nat) : ∀ (L : List Nat) (r : Nat), r + 8 * L.length < 2 ^ 64 →
    L.foldlM (Gen.SrcRankSelect.rank1_for1 (σ := SbRank) blockByte List.length bl
        cd8 SbRank.first SbRank.some SbRank.val bits bb) r
      = Res.ok (L.foldl (fun r blk => r + Model.RankSelect.countOnes (getBlock bits blk)) r) := by
  intro L
  induction L with
  | nil => intro r _; rfl
  | cons a L ih =>
    intro r hr
    have hle := countOnes_le bits a
    simp only [List.length_cons] at hr
    have e1 : Rs.add 64 r (Model.RankSelect.countOnes (getBlock bits a))
        = Res.ok (r + Model.RankSelect.countOnes (getBlock bits a)) := Rs.add_ok (by omega)
    rw [List.foldlM_cons, List.foldl_cons]
    simp only [Gen.SrcRankSelect.rank1_for1, countOnes_block, e1, Res.ok_bind, Res.pure_eq_ok]
    exact ih _ (by omega)

/-- **`RankSelect::rank_1`, as written, is the model's `rank1`** for every bit vector, superblock size `s > 0`, superblock
table covering `i` and every `i` (beyond the end: `None`).  `hbound` excludes `u64` overflow of the running rank. -/
theorem rank1_eq_model (bits : List Bool) (n s k : Nat) (sbs1 sbs0 : List SbRank) (i : Nat) (hs : 0 < s)
    (hsb : i < n → i / s < sbs1.length)
    (hbound : i < n → (sbs1.getD (i / s) (.first 0)).val + i + 8 < 2 ^ 64) :
    Gen.SrcRankSelect.rank1 (σ := SbRank) blockByte List.length bl
        cd8 SbRank.first SbRank.some SbRank.val n bits sbs1 sbs0 s k i
      = Res.ok (Model.RankSelect.rank1 n s (getBlock bits) sbs1 i) := by
  by_cases hi : i ≥ n
  · have hi2 : ¬ i < n := by omega
    simp only [Gen.SrcRankSelect.rank1, Model.RankSelect.rank1, hi, hi2, decide_true, decide_false, if_true, ite_true,
      if_false, ite_false, Res.ok_bind, Res.pure_eq_ok, Bool.false_eq_true, ge_iff_le]
  · have hi' : i < n := by omega
    have hi3 : ¬ n ≤ i := by omega
    have hbound := hbound hi'
    have e1 : Rs.div i s = Res.ok (i / s) := Rs.div_ok hs
    have e2 : Rs.idx sbs1 (i / s) = Res.ok (sbs1.getD (i / s) (.first 0)) := idx_getD _ _ _ (hsb hi')
    obtain ⟨e3, e4, e5⟩ := masked_count bits (i / 8) (i % 8) (Nat.mod_lt _ (by omega))
    have hle : Model.RankSelect.countOnes ((getBlock bits (i / 8)).take (i % 8 + 1)) ≤ 8 := by
      unfold Model.RankSelect.countOnes
      refine Nat.le_trans List.count_le_length ?_
      rw [List.length_take]
      have := RbV.Lemmas.RankSelectModel.getBlock_length_le bits (i / 8)
      omega
    have e6 : ∀ c, c ≤ 8 → Rs.add 64 (sbs1.getD (i / s) (.first 0)).val c
        = Res.ok ((sbs1.getD (i / s) (.first 0)).val + c) := fun c hc => Rs.add_ok (by omega)
    have hmul : i / s * s ≤ i := Nat.div_mul_le_self i s
    have e7 : Rs.mul 64 (i / s) s = Res.ok (i / s * s) := Rs.mul_ok (by omega)
    have h7 : i &&& 7 = i % 8 := Nat.and_two_pow_sub_one_eq_mod i 3
    have h7' : 7 &&& i = i % 8 := by rw [Nat.and_comm]; exact h7
    have h8 : i >>> 3 = i / 8 := Nat.shiftRight_eq_div_pow i 3
    have e9 : Rs.shr 64 i 3 = Res.ok (i / 8) := by rw [Rs.shr_ok (by omega), h8]
    have e7' : Rs.mul 64 s (i / s) = Res.ok (i / s * s) := by rw [Rs.mul_ok (by rw [Nat.mul_comm]; omega), Nat.mul_comm]
    have e8 := rank1_fold bl cd8 bits (i / 8) (List.range' (i / s * s / 8) (i / 8 - i / s * s / 8))
      ((sbs1.getD (i / s) (.first 0)).val + Model.RankSelect.countOnes ((getBlock bits (i / 8)).take (i % 8 + 1)))
      (by rw [List.length_range']; omega)
    simp only [Gen.SrcRankSelect.rank1, Model.RankSelect.rank1, hi, hi', hi3, decide_true, decide_false, if_true, ite_true,
      if_false, ite_false, e1, e2, e3, e4, e5, e6 _ hle, e7, e7', e8, e9, h7, h7', Res.ok_bind, Res.pure_eq_ok, Bool.false_eq_true,
      ge_iff_le]

/-- **`RankSelect::rank_0`, as written** (`self.rank_1(i).map(|r| (i + 1) - r)`) **is the model's `rank0`**; needs
`rank_1(i) ≤ i + 1` (true for every table built by `superblocks`) so that the subtraction does not underflow -/
theorem rank0_eq_model (bits : List Bool) (n s k : Nat) (sbs1 sbs0 : List SbRank) (i : Nat) (hs : 0 < s)
    (hsb : i < n → i / s < sbs1.length)
    (hbound : i < n → (sbs1.getD (i / s) (.first 0)).val + i + 8 < 2 ^ 64)
    (hle : ∀ r, Model.RankSelect.rank1 n s (getBlock bits) sbs1 i = some r → r ≤ i + 1) :
    Gen.SrcRankSelect.rank0 (σ := SbRank) blockByte List.length bl
        cd8 SbRank.first SbRank.some SbRank.val n bits sbs1 sbs0 s k i
      = Res.ok (Model.RankSelect.rank0 n s (getBlock bits) sbs1 i) := by
  have e1 := rank1_eq_model bl cd8 bits n s k sbs1 sbs0 i hs hsb hbound
  unfold Gen.SrcRankSelect.rank0 Model.RankSelect.rank0
  rw [e1]
  cases h : Model.RankSelect.rank1 n s (getBlock bits) sbs1 i with
  | none => simp only [Res.ok_bind, Res.pure_eq_ok, Option.map_none]
  | some r =>
    have hin : i < n := by
      apply Classical.byContradiction
      intro hge
      have hge' : i ≥ n := by omega
      simp [Model.RankSelect.rank1, hge'] at h
    have hb := hbound hin
    have e2 : Rs.add 64 i 1 = Res.ok (i + 1) := Rs.add_ok (by omega)
    have e3 : Rs.sub (i + 1) r = Res.ok (i + 1 - r) := Rs.sub_ok (hle r h)
    simp only [e2, e3, Res.ok_bind, Res.pure_eq_ok, Option.map_some]

/-! ### superblocks -/

theorem countZeros_le (bits : List Bool) (b : Nat) : Model.RankSelect.countZeros (getBlock bits b) ≤ 8 := by
  unfold Model.RankSelect.countZeros; omega

/-- the block loop of `fn superblocks`: the translated body folded over `lo, lo+1, …` is the model's `sbStep` fold
(`rank` grows by at most 8 per block and `i` by exactly 8, so neither `u64`/`usize` addition overflows) -/
theorem superblocks_fold (t : Bool) (s : Nat) (hs : 0 < s) (bits : List Bool) : ∀ (m lo : Nat) (st : SbState),
    st.rank + 8 * m < 2 ^ 64 → st.i + 8 * m < 2 ^ 64 →
    (List.range' lo m).foldlM (Gen.SrcRankSelect.superblocks_for1 (σ := SbRank) blockByte List.length
        bl cd8 SbRank.first SbRank.some SbRank.val bits s t)
        (st.out, st.last, st.rank, st.i)
      = Res.ok (((List.range' lo m).foldl (Model.RankSelect.sbStep t s (getBlock bits)) st).out,
          ((List.range' lo m).foldl (Model.RankSelect.sbStep t s (getBlock bits)) st).last,
          ((List.range' lo m).foldl (Model.RankSelect.sbStep t s (getBlock bits)) st).rank,
          ((List.range' lo m).foldl (Model.RankSelect.sbStep t s (getBlock bits)) st).i) := by
  intro m
  induction m with
  | zero => intro lo st _ _; rfl
  | succ m ih =>
    intro lo st hr hi
    have e1 : Rs.rem st.i s = Res.ok (st.i % s) := Rs.rem_ok hs
    have h1 := countOnes_le bits lo
    have h0 := countZeros_le bits lo
    have e2 : ∀ c, c ≤ 8 → Rs.add 64 st.rank c = Res.ok (st.rank + c) := fun c hc => Rs.add_ok (by omega)
    have e3 : Rs.add 64 st.i 8 = Res.ok (st.i + 8) := Rs.add_ok (by omega)
    have hc : (if t then Model.RankSelect.countOnes (getBlock bits lo) else Model.RankSelect.countZeros (getBlock bits lo)) ≤ 8 := by
      split <;> assumption
    rw [List.range'_succ, List.foldlM_cons, List.foldl_cons]
    by_cases hz : st.i % s = 0
    · have hz' : (st.i % s == 0) = true := by simp [hz]
      simp only [Gen.SrcRankSelect.superblocks_for1, e1, hz, hz', countOnes_block, countZeros_block, e2 _ hc, e3,
        Res.ok_bind, Res.pure_eq_ok, if_true, ite_true, if_false, ite_false, Bool.false_eq_true, beq_self_eq_true,
        bne_iff_ne, beq_iff_eq, ne_eq, ite_not]
      have := ih (lo + 1) (Model.RankSelect.sbStep t s (getBlock bits) st lo)
        (by simp only [Model.RankSelect.sbStep, hz, if_true]; omega)
        (by simp only [Model.RankSelect.sbStep, hz, if_true]; omega)
      simp only [Model.RankSelect.sbStep, hz, if_true, ne_eq, ite_not] at this ⊢
      exact this
    · have hz' : (st.i % s == 0) = false := by simp [hz]
      simp only [Gen.SrcRankSelect.superblocks_for1, e1, hz, hz', countOnes_block, countZeros_block, e2 _ hc, e3,
        Res.ok_bind, Res.pure_eq_ok, if_false, ite_false, Bool.false_eq_true]
      have := ih (lo + 1) (Model.RankSelect.sbStep t s (getBlock bits) st lo)
        (by simp only [Model.RankSelect.sbStep, hz, if_false]; omega)
        (by simp only [Model.RankSelect.sbStep, hz, if_false]; omega)
      simp only [Model.RankSelect.sbStep, hz, if_false] at this ⊢
      exact this

/-- **`fn superblocks`, as written, is the model's `superblocks`** for every bit vector of fewer than 2^60 bits and every
superblock size `s > 0` (with `s = 0` the capacity computation `n / s` panics) -/
theorem superblocks_eq_model (t : Bool) (bits : List Bool) (s : Nat) (hs : 0 < s) (hn : bits.length < 2 ^ 60)
    (hcd : CeilOk cd8 bits.length) :
    Gen.SrcRankSelect.superblocks (σ := SbRank) blockByte List.length bl cd8
        SbRank.first SbRank.some SbRank.val t bits.length s bits
      = Res.ok (Model.RankSelect.superblocks t bits.length s (getBlock bits)) := by
  have e1 : Rs.div bits.length s = Res.ok (bits.length / s) := Rs.div_ok hs
  have hdiv : bits.length / s ≤ bits.length := Nat.div_le_self _ _
  have e2 : Rs.add 64 (bits.length / s) 1 = Res.ok (bits.length / s + 1) := Rs.add_ok (by omega)
  have e3 := superblocks_fold bl cd8 t s hs bits ((bits.length + 7) / 8) 0 {} (by simp only; omega) (by simp only; omega)
  unfold CeilOk at hcd
  simp only [Gen.SrcRankSelect.superblocks, Model.RankSelect.superblocks, e1, e2, hcd, Nat.sub_zero, Res.ok_bind,
    Res.pure_eq_ok, List.range_eq_range']
  exact (by
    have h := e3
    simp only [Res.ok_bind, Res.pure_eq_ok] at h
    rw [h]
    simp only [Res.ok_bind, Res.pure_eq_ok])

/-! ### generated code = specification -/
open RbV.Spec.RankSelect (rank rankRef)

/-- the translated `rank_1` / `rank_0` on the table the model's `superblocks` builds are the declarative ranks -/
theorem rank_on_superblocks (bits : List Bool) (k : Nat) (hk : 1 ≤ k) (hn : bits.length < 2 ^ 60)
    (sbs0 : List SbRank) (i : Nat) :
    Gen.SrcRankSelect.rank1 (σ := SbRank) blockByte List.length bl cd8 SbRank.first SbRank.some SbRank.val
        bits.length bits (Model.RankSelect.superblocks true bits.length (k * 32) (getBlock bits)) sbs0 (k * 32) k i
      = Res.ok (rankRef true bits i) ∧
    Gen.SrcRankSelect.rank0 (σ := SbRank) blockByte List.length bl cd8 SbRank.first SbRank.some SbRank.val
        bits.length bits (Model.RankSelect.superblocks true bits.length (k * 32) (getBlock bits)) sbs0 (k * 32) k i
      = Res.ok (rankRef false bits i) := by
  have hs : 0 < k * 32 := by omega
  have hsb : i < bits.length → i / (k * 32)
      < (Model.RankSelect.superblocks true bits.length (k * 32) (getBlock bits)).length := by
    intro h
    rw [RbV.Lemmas.RankSelectModel.lt_superblocks_length true bits k hk]
    exact Nat.lt_of_le_of_lt (Nat.div_mul_le_self i (k * 32)) h
  have hbound : i < bits.length → ((Model.RankSelect.superblocks true bits.length (k * 32) (getBlock bits)).getD
      (i / (k * 32)) (.first 0)).val + i + 8 < 2 ^ 64 := by
    intro h
    have hm : i / (k * 32) * (k * 32) < bits.length := Nat.lt_of_le_of_lt (Nat.div_mul_le_self i (k * 32)) h
    rw [RbV.Lemmas.RankSelectModel.superblocks_val true bits k hk _ hm]
    have h1 : (bits.take (i / (k * 32) * (k * 32))).count true ≤ (bits.take (i / (k * 32) * (k * 32))).length :=
      List.count_le_length
    rw [List.length_take] at h1
    omega
  have hr := RbV.Lemmas.RankSelectModel.rank1_correct bits k hk i
  have hr0 := RbV.Lemmas.RankSelectModel.rank0_correct bits k hk i
  refine ⟨?_, ?_⟩
  · rw [rank1_eq_model bl cd8 bits _ _ k _ sbs0 i hs hsb hbound, hr]
  · rw [rank0_eq_model bl cd8 bits _ _ k _ sbs0 i hs hsb hbound ?_, hr0]
    intro r h
    rw [hr] at h
    unfold rankRef at h
    split at h
    · have h' := Option.some.inj h
      rw [← h']
      unfold rank
      have h1 : (bits.take (i + 1)).count true ≤ (bits.take (i + 1)).length := List.count_le_length
      rw [List.length_take] at h1
      omega
    · cases h

/-- **`rank_1` / `rank_0` exact**: build the superblock table with the translated `fn superblocks` (`s = 32·k`, as
`RankSelect::new(bits, k)` does), then the translated `rank_1(i)` / `rank_0(i)` on it return the number of 1-bits / 0-bits
among positions `0..=i` of the bit vector — `None` exactly beyond the end — for every bit vector of fewer than 2^60 bits,
every `k ≥ 1` and every `i`; nothing panics. -/
theorem rank_source_exact (bits : List Bool) (k : Nat) (hk : 1 ≤ k) (hn : bits.length < 2 ^ 60)
    (hcd : CeilOk cd8 bits.length) (sbs0 : List SbRank) (i : Nat) :
    ∃ sbs1, Gen.SrcRankSelect.superblocks (σ := SbRank) blockByte List.length bl cd8
          SbRank.first SbRank.some SbRank.val true bits.length (k * 32) bits = Res.ok sbs1 ∧
      Gen.SrcRankSelect.rank1 (σ := SbRank) blockByte List.length bl cd8 SbRank.first SbRank.some SbRank.val
          bits.length bits sbs1 sbs0 (k * 32) k i = Res.ok (rankRef true bits i) ∧
      Gen.SrcRankSelect.rank0 (σ := SbRank) blockByte List.length bl cd8 SbRank.first SbRank.some SbRank.val
          bits.length bits sbs1 sbs0 (k * 32) k i = Res.ok (rankRef false bits i) :=
  ⟨_, superblocks_eq_model bl cd8 true bits (k * 32) (by omega) hn hcd, rank_on_superblocks bl cd8 bits k hk hn sbs0 i⟩

end RbV.Thm.GenSrcRankSelect
