import RbV.Gen.SrcSaisLms
import RbV.Gen.SrcTransform
import RbV.Thm.GenSrcSaisLms
import RbV.Thm.GenSrcSaisCalcPosSafe
import RbV.Thm.GenSrcSaisBuckets
import RbV.Thm.GenSrcPosTypes
import RbV.Lemmas.SaisMain
import RbV.Lemmas.SaisWidth
/-!
# `Sais::construct`: the translated pieces tied into one fuelled recursion, equal to the mirror model `Sais.construct`

`constructSrc` is the only hand-written glue: the recursion knot.  At fuel `f + 1` it is the *translated* `construct`
(`Gen.SrcSaisLms.construct`: translated `PosTypes::new`, then `calc_lms_pos`, then `calc_pos`) whose abstract callees are
instantiated with the translated `calc_lms_pos` / `calc_pos` (on the translated bucket functions and `PosTypes` predicates),
and the `construct` passed to the translated `sort_lms_suffixes` is `constructSrc f`; fuel `0` is `Res.fuel`.  `castS w` is
`num_traits::cast::<usize, uW>` for the width `w` the dispatch of `calc_lms_pos` selects, `castU` the cast of a symbol to
`usize`.

`constructSrc_eq_model`: for every text SA-IS accepts (`Sais.Valid`) with `t.length ≤ fuel`, `t.length ≤ |reduced_text_pos| <
2^62`: no panic, the fuel suffices, and the six fields are those of the model's `Sais.construct fuel t s`.
-/
set_option linter.unusedSimpArgs false
set_option linter.unusedVariables false

namespace RbV.Thm.GenSrcSaisConstruct
open RbV RbV.Rs RbV.Gen RbV.Thm.GenSrc RbV.Sais

abbrev Fields := List Nat × List Nat × List Nat × VecMap × List Nat × List Nat

/-- translated `calc_pos` with the translated callees -/
def calcPosK (castU : Nat → Option Nat) (pos lms : List Nat) (bsz : VecMap) (bst be t : List Nat) (ty : List Bool) :
    Res (List Nat × VecMap × List Nat × List Nat) :=
  SrcSaisCalcPos.calc_pos castU (SrcPosTypes.is_l_pos ty) (SrcPosTypes.is_s_pos ty) (SrcPosTypes.is_lms_pos ty)
    (SrcSaisBuckets.init_bucket_start castU) SrcSaisBuckets.init_bucket_end pos lms bsz bst be t ty

/-- **the recursion knot** (hand-written; everything it calls is translated) -/
def constructSrc (castU : Nat → Option Nat) (castS : Nat → Nat → Option Nat) :
    Nat → List Nat → List Nat → List Nat → VecMap → List Nat → List Nat → List Nat → Res Fields
  | 0 => fun _ _ _ _ _ _ _ => Res.fuel
  | f + 1 => fun pos lms rtp bsz bst be t =>
    SrcSaisLms.construct
      (fun pos lms rtp bsz bst be t ty =>
        SrcSaisLms.calc_lms_pos (SrcPosTypes.is_l_pos ty) (SrcPosTypes.is_s_pos ty) (SrcPosTypes.is_lms_pos ty)
          (calcPosK castU)
          (fun w pos lms rtp bsz bst be t ty cnt =>
            SrcSaisLms.sort_lms_suffixes (SrcPosTypes.is_l_pos ty) (SrcPosTypes.is_s_pos ty) (SrcPosTypes.is_lms_pos ty)
              (castS w) (constructSrc castU castS f) pos lms rtp bsz bst be t ty cnt)
          pos lms rtp bsz bst be t ty)
      (calcPosK castU) pos lms rtp bsz bst be t

/-- translated `calc_pos` on any arrangement of the LMS positions of a valid text = the model's `calcPos` -/
theorem calcPosK_eq (castU : Nat → Option Nat) (hcU : ∀ c, castU c = some c) (t : List Nat) (hv : Valid t)
    (hsz : t.length < 2 ^ 64) (s : St) (bsz : VecMap) (hl : LmsList t s.lmsPos) :
    ∃ m, calcPosK castU s.pos s.lmsPos bsz s.bStart s.bEnd t (tyOf t) =
      Res.ok ((calcPos t (tyOf t) s).pos, m, (calcPos t (tyOf t) s).bStart, (calcPos t (tyOf t) s).bEnd) := by
  obtain ⟨m, h1, _⟩ := GenSrcSaisBuckets.init_bucket_start_spec castU bsz s.bStart t (fun c _ => hcU c) hsz
  exact ⟨m, GenSrcSaisCalcPos.calc_pos_eq_model castU _ _ _ _ _ s.pos s.lmsPos bsz s.bStart s.bEnd t (tyOf t) m
    (fun c _ => hcU c)
    (fun q hq => GenSrcPosTypes.is_l_pos_eq_model _ q hq) (fun q hq => GenSrcPosTypes.is_s_pos_eq_model _ q hq)
    h1 (fun be => GenSrcSaisBuckets.init_bucket_end_valid be t hv)
    (GenSrcSaisCalcPos.safeRun_of_valid t hv hsz s.lmsPos hl)⟩

/-- after `calc_pos` slot 0 holds the final position (the only one with symbol 0) -/
theorem calcPosRun_head (t : List Nat) (hv : Valid t) (h2 : 2 ≤ t.length) (lms : List Nat) (hl : LmsList t lms) :
    (calcPosRun t (tyOf t) lms).pos.getD 0 0 = t.length - 1 := by
  have hR : IndRel t (fun x y => sym t x ≤ sym t y) := ⟨fun _ _ _ _ h => by omega, fun _ _ _ _ h _ _ => by omega⟩
  have hd := induced_sort t hv h2 (fun x y => sym t x ≤ sym t y) (fun x y => sym t x ≤ sym t y) hR
    (fun _ _ _ _ h _ _ _ => by omega) hR (fun _ _ _ _ h _ _ _ => by omega) (fun _ _ _ _ _ _ h => h) lms hl
    (List.pairwise_of_forall (fun _ _ h => by omega))
  have hperm := sdone_perm hd
  have hmem : t.length - 1 ∈ (calcPosRun t (tyOf t) lms).pos := hperm.mem_iff.mpr (List.mem_range.mpr (by omega))
  obtain ⟨j, hj, he⟩ := exists_getD_of_mem _ _ hmem
  rw [hd.len] at hj
  have h0 : sym t ((calcPosRun t (tyOf t) lms).pos.getD 0 0) = 0 := by
    by_cases hj0 : j = 0
    · subst hj0; rw [he]; exact sym_last_zero hv
    · have := hd.sorted 0 j (by omega) hj
      rw [he, sym_last_zero hv] at this
      omega
  exact eq_last_of_sym_zero hv _ (hd.lt 0 (by omega)) h0

theorem lt_pow_widthOf (cnt x : Nat) (hc : cnt < 2 ^ 64) (hx : x < cnt) : x < 2 ^ GenSrcSaisLms.widthOf cnt := by
  have e8 : (2 : Nat) ^ 8 = 256 := by decide
  have e16 : (2 : Nat) ^ 16 = 65536 := by decide
  have e32 : (2 : Nat) ^ 32 = 4294967296 := by decide
  unfold GenSrcSaisLms.widthOf
  split
  · rw [e8]; omega
  · split
    · rw [e16]; omega
    · split
      · rw [e32]; omega
      · omega

/-- **`constructSrc fuel` = the mirror model `Sais.construct fuel`** on every text SA-IS accepts -/
theorem constructSrc_eq_model (castU : Nat → Option Nat) (castS : Nat → Nat → Option Nat)
    (hcU : ∀ c, castU c = some c) (hcS : ∀ w x, x < 2 ^ w → castS w x = some x) :
    ∀ (f : Nat) (t : List Nat) (s : St) (bsz : VecMap), Valid t → t.length ≤ f → t.length ≤ s.redPos.length →
      s.redPos.length < 2 ^ 62 →
      ∃ bsz', constructSrc castU castS f s.pos s.lmsPos s.redPos bsz s.bStart s.bEnd t =
        Res.ok ((construct f t s).pos, (construct f t s).lmsPos, (construct f t s).redPos, bsz',
          (construct f t s).bStart, (construct f t s).bEnd) := by
  intro f
  induction f with
  | zero => intro t s _ hv hf; have := hv.pos; omega
  | succ f ih =>
    intro t s bsz hv hf hs hsz
    have q62 : (2 : Nat) ^ 62 < 2 ^ 63 := by decide
    have q63 : (2 : Nat) ^ 63 < 2 ^ 64 := by decide
    have hne : t ≠ [] := by intro e; have := hv.pos; rw [e] at this; simp at this
    have hA : SrcPosTypes.new t = Res.ok (tyOf t) := GenSrcPosTypes.new_eq_model t hne (by omega)
    have hLms : ∀ q, q < (tyOf t).length → SrcPosTypes.is_lms_pos (tyOf t) q = Res.ok (isLms (tyOf t) q) :=
      fun q hq => GenSrcPosTypes.is_lms_pos_eq_model _ q hq
    have hLms' : ∀ q, q < t.length → SrcPosTypes.is_lms_pos (tyOf t) q = Res.ok (isLms (tyOf t) q) :=
      fun q hq => hLms q (by rw [length_tyOf]; exact hq)
    -- model-level facts about this level
    have hl3 := (calcLmsPos_sorted f (construct_sorted f) t hv hf s hs).1
    have hc := collect_spec (tyOf t) s.redPos t.length hs
    have hmodel : construct (f + 1) t s = calcPos t (tyOf t) (calcLmsPos (construct f) t (tyOf t) s) := rfl
    have hcl : calcLmsPos (construct f) t (tyOf t) s =
        sortLmsSuffixes (construct f) t (tyOf t)
          (forUp t.length (collectStep (tyOf t)) ([], s.redPos, 0)).1.length
          (calcPos t (tyOf t) { s with lmsPos := (forUp t.length (collectStep (tyOf t)) ([], s.redPos, 0)).1,
                                        redPos := (forUp t.length (collectStep (tyOf t)) ([], s.redPos, 0)).2.1 }) := rfl
    rw [hmodel]
    rw [hcl] at hl3 ⊢
    simp only [constructSrc, SrcSaisLms.construct, hA, Res.ok_bind]
    rw [GenSrcSaisLms.calc_lms_pos_eq_model _ _ _ _ _ (tyOf t) hLms s.pos s.lmsPos s.redPos bsz s.bStart s.bEnd t
      (length_tyOf t) hs (by omega)]
    simp only [] at hc
    generalize forUp t.length (collectStep (tyOf t)) ([], s.redPos, 0) = c at hc hl3 ⊢
    obtain ⟨c1, c2, c3⟩ := c
    obtain ⟨h1, _, h3, h4, _⟩ := hc
    simp only [] at h1 h3 h4 hl3 ⊢
    subst h1
    have hred : RedPosOk t c2 := fun q hq => h4 q (lt_of_isLms q hq) hq
    have hmlt := length_lmsBelow_lt (tyOf t) t.length hv.pos
    -- first `calc_pos`
    obtain ⟨m1, hC⟩ := calcPosK_eq castU hcU t hv (by omega)
      { s with lmsPos := lmsBelow (tyOf t) t.length, redPos := c2 } bsz (lmsList_lmsBelow t)
    generalize hsB : calcPos t (tyOf t) { s with lmsPos := lmsBelow (tyOf t) t.length, redPos := c2 } = sB at hC hl3 ⊢
    have hpos : sB.pos = pos1 t := by rw [← hsB]; rfl
    have hrp' : sB.redPos = c2 := by rw [← hsB]; rfl
    have hlp : sB.lmsPos = lmsBelow (tyOf t) t.length := by rw [← hsB]; rfl
    have hperm : sB.pos.Perm (List.range t.length) := by
      rw [hpos]; exact calcPos_perm t hv _ (lmsList_lmsBelow t)
    have hmem : ∀ p, p ∈ sB.pos ↔ p < t.length := by intro p; rw [hperm.mem_iff, List.mem_range]
    -- `sort_lms_suffixes`
    obtain ⟨m2, hD⟩ := GenSrcSaisLms.sort_lms_suffixes_eq_model (SrcPosTypes.is_l_pos (tyOf t)) (SrcPosTypes.is_s_pos (tyOf t))
      (SrcPosTypes.is_lms_pos (tyOf t)) (castS (GenSrcSaisLms.widthOf (lmsBelow (tyOf t) t.length).length))
      (constructSrc castU castS f) t (tyOf t) (lmsBelow (tyOf t) t.length).length (construct f) sB m1
      (length_tyOf t) (by omega) (fun p hp => sym_ne_last hv p hp) hLms'
      (fun x hx => hcS _ x (lt_pow_widthOf _ x (by omega) hx)) (by omega)
      (hperm.nodup_iff.mpr List.nodup_range) (fun p hp => (hmem p).mp hp)
      (by have := hperm.length_eq; rw [List.length_range] at this; have := hv.pos; omega)
      (by
        intro hm
        have h2 : 2 ≤ t.length := by omega
        have hh : sB.pos.getD 0 0 = t.length - 1 := by rw [hpos]; exact calcPosRun_head t hv h2 _ (lmsList_lmsBelow t)
        rw [hh, hrp', h3]
        refine ⟨by omega, ?_⟩
        rw [h4 (t.length - 1) (by omega) (isLms_last hv h2)]
        exact rho_lt (tyOf t) (t.length - 1) t.length (by omega) (isLms_last hv h2))
      (by
        intro p hp hl
        have hpn := (hmem p).mp hp
        rw [hrp', h3]
        refine ⟨by omega, ?_⟩
        rw [h4 p hpn hl]
        exact rho_lt (tyOf t) p t.length hpn hl)
      (by
        have := (hperm.filter (isLms (tyOf t))).length_eq
        rw [this]; exact Nat.le_refl _)
      (by
        intro hm hlab
        have h2 : 2 ≤ t.length := by omega
        have hredv : (naming t (tyOf t) (lmsBelow (tyOf t) t.length).length sB).red = red1 t c2 := by
          have := (Sais.naming_eq t (tyOf t) (lmsBelow (tyOf t) t.length).length sB).2
          rw [hpos, hrp'] at this
          exact this
        rw [hredv]
        have hvr := valid_red1 t hv h2 c2 hred hm
        have hlr := length_red1 t c2
        have := ih (red1 t c2) sB m1 hvr (by omega) (by rw [hrp', h3]; omega) (by rw [hrp', h3]; exact hsz)
        exact this)
      (by
        intro hm hlab p hp
        have h2 : 2 ≤ t.length := by omega
        have hredv : (naming t (tyOf t) (lmsBelow (tyOf t) t.length).length sB).red = red1 t c2 := by
          have := (Sais.naming_eq t (tyOf t) (lmsBelow (tyOf t) t.length).length sB).2
          rw [hpos, hrp'] at this
          exact this
        rw [hredv] at hp
        have hvr := valid_red1 t hv h2 c2 hred hm
        have hlr := length_red1 t c2
        have hsr := construct_sorted f (red1 t c2) sB hvr (by omega) (by rw [hrp', h3]; omega)
        have := hsr.1.mem_iff.mp hp
        rw [List.mem_range, hlr] at this
        rw [hlp]; exact this)
    rw [hlp] at hD
    generalize hs3 : sortLmsSuffixes (construct f) t (tyOf t) (lmsBelow (tyOf t) t.length).length sB = s3 at hD hl3 ⊢
    -- second `calc_pos`
    obtain ⟨m3, hE⟩ := calcPosK_eq castU hcU t hv (by omega) s3 m2 hl3
    refine ⟨m3, ?_⟩
    have hC' : calcPosK castU s.pos (lmsBelow (tyOf t) t.length) bsz s.bStart s.bEnd t (tyOf t) =
        Res.ok (sB.pos, m1, sB.bStart, sB.bEnd) := hC
    rw [hC']
    simp only [Res.ok_bind]
    rw [← hrp', hD]
    simp only [Res.ok_bind]
    rw [hE]
    rfl

/-! ### the two public entry points: glue (hand-written, five statements each) around the translated pieces

`suffix_array(text)`: `Alphabet::new(text)`, `sentinel_count(text)`, `Sais::new(n)` (empty vectors, `reduced_text_pos = vec![0; n]`,
empty `VecMap`), `sais.construct(&transform_text::<uN>(text, &alphabet, sentinel_count))` at the width the `match` selects,
`sais.pos`.  The `match` is not rendered: `castT` stands for the `cast::<usize, uN>` of the arm taken (its contract is what
`sais_transform_width_fits` proves of the extracted guards). -/

def suffixArraySrc (castT castU : Nat → Option Nat) (castS : Nat → Nat → Option Nat) (text : List Nat) : Res (List Nat) := do
  let alphabet ← SrcAlphabet.alphabetNew text
  let sc ← SrcTransform.sentinel_count text
  let tt ← SrcTransform.transform_text castT text alphabet sc
  let r ← constructSrc castU castS tt.length [] [] (List.replicate text.length 0) VecMap.empty [] [] tt
  pure r.1

/-- `suffix_array_int(text)`: `Sais::new(text.len())`, `sais.construct(&text)`, `sais.pos` -/
def suffixArrayIntSrc (castU : Nat → Option Nat) (castS : Nat → Nat → Option Nat) (text : List Nat) : Res (List Nat) := do
  let r ← constructSrc castU castS text.length [] [] (List.replicate text.length 0) VecMap.empty [] [] text
  pure r.1

/-- the knot started from `Sais::new(n)` returns the sorted suffix permutation of every text SA-IS accepts -/
theorem constructSrc_sorted (castU : Nat → Option Nat) (castS : Nat → Nat → Option Nat)
    (hcU : ∀ c, castU c = some c) (hcS : ∀ w x, x < 2 ^ w → castS w x = some x)
    (t : List Nat) (n : Nat) (hv : Valid t) (hn : t.length ≤ n) (hsz : n < 2 ^ 62) :
    ∃ r : Fields, constructSrc castU castS t.length [] [] (List.replicate n 0) VecMap.empty [] [] t = Res.ok r ∧
      SuffixSorted t r.1 := by
  obtain ⟨b, h⟩ := constructSrc_eq_model castU castS hcU hcS t.length t (St.new n) VecMap.empty hv (Nat.le_refl _)
    (by simp [St.new]; exact hn) (by simp [St.new]; exact hsz)
  exact ⟨_, h, construct_sorted t.length t (St.new n) hv (Nat.le_refl _) (by simp [St.new]; exact hn)⟩

end RbV.Thm.GenSrcSaisConstruct
