import RbV.Lemmas.C14
/-!
# C14 — HMM decoding and likelihoods equal their definitions over all state paths

Objects (see `RbV/Spec/Hmm.lean`, `RbV/Model/Hmm.lean`): weights are natural-number numerators over a common
denominator; `paths S T` = all state paths, `joint m obs π` = initial · ∏ transition · ∏ emission · end,
`likelihood` = Σ over all paths, `viterbiVal` = max over all paths.  The mirror models `viterbi`, `forward`,
`backward`, `backwardLit` follow `src/stats/hmm/mod.rs`; `viterbiE` additionally applies the end weights
(the Rust `viterbi` does not — finding C14-viterbi-ignores-end).

All theorems hold for every model (any number of states ≥ 1, arbitrary weights: zeros, ties,
sub-stochastic rows) and every non-empty observation sequence — no size bound.
The driver (`RbV/Drv/C14.lean`) uses `viterbiE`, `forward`, `joint` as oracles.
-/
namespace RbV.Thm.C14
open RbV.Hmm

/-- `paths` is exactly the set of state sequences of the right length over the states `0 … S-1` -/
theorem paths_exact (S T : Nat) (π : List Nat) : π ∈ paths S T ↔ π.length = T ∧ ∀ s ∈ π, s < S :=
  mem_paths

/-- **Viterbi (with end weights), full statement**: the traced path is a state path, its joint weight is the
reported value, and no state path has a larger joint weight. -/
theorem viterbi_max (m : Hmm) (obs : List Nat) (hS : 0 < m.S) (h : obs ≠ []) :
    (viterbiE m obs).1 ∈ paths m.S obs.length ∧
    joint m obs (viterbiE m obs).1 = (viterbiE m obs).2 ∧
    ∀ π ∈ paths m.S obs.length, joint m obs π ≤ (viterbiE m obs).2 :=
  viterbiE_spec m hS obs h

/-- … hence the reported value is the maximum over all state paths -/
theorem viterbi_value_eq_max (m : Hmm) (obs : List Nat) (hS : 0 < m.S) (h : obs ≠ []) :
    (viterbiE m obs).2 = viterbiVal m obs := by
  obtain ⟨hp, hj, hub⟩ := viterbiE_spec m hS obs h
  apply Nat.le_antisymm
  · rw [← hj]; exact le_maxL_of_mem (List.mem_map.mpr ⟨_, hp, rfl⟩)
  · apply maxL_le
    intro a ha
    obtain ⟨π, hπ, rfl⟩ := List.mem_map.mp ha
    exact hub π hπ

/-- the "zero-aware maximum" of `viterbi_matrices` (comparator closure `cmpZ` under `Iterator::max_by`) picks an
index below `n` whose product `previous value · transition` is maximal — although the comparator is not a
consistent order on the products (a zero previous value loses against a non-zero one whose transition is zero) -/
theorem zero_aware_max (c t : Nat → Nat) (n : Nat) (hn : 0 < n) :
    selZ c t n < n ∧ ∀ k, k < n → c k * t k ≤ c (selZ c t n) * t (selZ c t n) :=
  isArgmax_selZ c t n hn

/-- any selector with that property gives a correct Viterbi algorithm (so a different valid tie-break in the
code keeps the property) -/
theorem viterbi_max_any_selector (sel : Sel) (hsel : IsArgmax sel) (m : Hmm) (obs : List Nat) (hS : 0 < m.S)
    (h : obs ≠ []) :
    (viterbiWith sel m obs).1 ∈ paths m.S obs.length ∧
    joint m obs (viterbiWith sel m obs).1 = (viterbiWith sel m obs).2 ∧
    ∀ π ∈ paths m.S obs.length, joint m obs π ≤ (viterbiWith sel m obs).2 :=
  viterbiWith_spec hsel m hS obs h

/-- **the code mirror** (`viterbi_matrices` + `viterbi_traceback`, which never look at the end weights) is
Viterbi for the model *without* end term: path and value are optimal for `joint m.noEnd`. -/
theorem viterbi_code_max (m : Hmm) (obs : List Nat) (hS : 0 < m.S) (h : obs ≠ []) :
    (viterbi m obs).1 ∈ paths m.S obs.length ∧
    joint m.noEnd obs (viterbi m obs).1 = (viterbi m obs).2 ∧
    ∀ π ∈ paths m.S obs.length, joint m.noEnd obs π ≤ (viterbi m obs).2 := by
  rw [viterbi_eq_viterbiWith_noEnd]
  exact viterbiWith_spec isArgmax_selZ m.noEnd hS obs h

/-- for a model without explicit end probabilities the code mirror satisfies the property -/
theorem viterbi_code_max_of_no_end (m : Hmm) (obs : List Nat) (hS : 0 < m.S) (h : obs ≠ [])
    (hfin : m.fin = fun _ => 1) :
    (viterbi m obs).1 ∈ paths m.S obs.length ∧
    joint m obs (viterbi m obs).1 = (viterbi m obs).2 ∧
    ∀ π ∈ paths m.S obs.length, joint m obs π ≤ (viterbi m obs).2 := by
  have : m.noEnd = m := by cases m; simp only [Hmm.noEnd] at *; simp [hfin]
  have := this ▸ viterbi_code_max m obs hS h
  exact this

/-- **forward** = Σ over all state paths of the joint weight -/
theorem forward_sum (m : Hmm) (obs : List Nat) (h : obs ≠ []) : forward m obs = likelihood m obs :=
  forward_eq_likelihood m obs h

/-- **backward** = Σ over all state paths of the joint weight -/
theorem backward_sum (m : Hmm) (obs : List Nat) (h : obs ≠ []) : backward m obs = likelihood m obs :=
  backward_eq_likelihood m obs h

/-- the **literal loop** of `hmm::backward` (index tests `i == 0` with the `len > 1` test inside, `i == len-1`, else;
so in particular the special cases T = 1 and T = 2) computes the same value, for every length -/
theorem backward_loop_sum (m : Hmm) (obs : List Nat) (h : obs ≠ []) : backwardLit m obs = likelihood m obs := by
  rw [backwardLit_eq_backward]; exact backward_eq_likelihood m obs h

/-- forward and backward return the same likelihood -/
theorem forward_eq_backward (m : Hmm) (obs : List Nat) (h : obs ≠ []) : forward m obs = backward m obs := by
  rw [forward_sum m obs h, backward_sum m obs h]

/-- the likelihood is never smaller than the Viterbi value -/
theorem viterbi_le_likelihood (m : Hmm) (obs : List Nat) (hS : 0 < m.S) (h : obs ≠ []) :
    (viterbiE m obs).2 ≤ forward m obs := by
  obtain ⟨hp, hj, _⟩ := viterbiE_spec m hS obs h
  rw [forward_sum m obs h, ← hj]
  exact le_sum_of_mem (List.mem_map.mpr ⟨_, hp, rfl⟩)

/-- impossible observations (every path has joint weight 0) get likelihood 0 and Viterbi value 0 -/
theorem impossible_zero (m : Hmm) (obs : List Nat) (hS : 0 < m.S) (h : obs ≠ [])
    (himp : ∀ π ∈ paths m.S obs.length, joint m obs π = 0) :
    forward m obs = 0 ∧ backward m obs = 0 ∧ (viterbiE m obs).2 = 0 := by
  have hl : likelihood m obs = 0 := by
    unfold likelihood
    rw [sum_map_congr _ _ (fun _ => 0) himp, sum_map_zero]
  refine ⟨by rw [forward_sum m obs h, hl], by rw [backward_sum m obs h, hl], ?_⟩
  have := viterbi_le_likelihood m obs hS h
  rw [forward_sum m obs h, hl] at this
  omega

/-! ### non-vacuity and the recorded defect -/

/-- a 2-state model over denominator 10 with zeros and a tie -/
def exModel : Hmm :=
  { S := 2
    init := fun s => [5, 5].getD s 0
    trans := fun a b => ([[5, 5], [0, 10]].getD a []).getD b 0
    emit := fun s o => ([[2, 8], [8, 2]].getD s []).getD o 0
    fin := fun s => [1, 3].getD s 0 }

example : (viterbiE exModel [1, 0, 0]).1 = [0, 1, 1] ∧ (viterbiE exModel [1, 0, 0]).2 = 384000 := by decide
example : viterbiVal exModel [1, 0, 0] = 384000 ∧ likelihood exModel [1, 0, 0] = 628000 := by decide
example : forward exModel [1, 0, 0] = 628000 ∧ backward exModel [1, 0, 0] = 628000 := by decide
example : (viterbi exModel [1, 0, 0]).2 = 128000 := by decide
example : backwardLit exModel [1] = 70 ∧ backwardLit exModel [1, 0] = 7600 ∧ backwardLit exModel [1, 0, 0] = 628000 := by decide

/-- hypothesis of `viterbi_code_max_of_no_end` is satisfiable: a model without end vector -/
example : exModel.noEnd.fin = fun _ => 1 := rfl
example : (viterbi exModel.noEnd [1, 0, 0]).1 = [0, 1, 1] ∧ viterbiVal exModel.noEnd [1, 0, 0] = (viterbi exModel.noEnd [1, 0, 0]).2 := by
  decide

/-- hypothesis of `impossible_zero` is satisfiable: symbol 1 is never emitted -/
def impModel : Hmm :=
  { S := 2, init := fun _ => 1, trans := fun _ _ => 1, emit := fun _ o => if o = 0 then 2 else 0, fin := fun _ => 1 }
example : ∀ π ∈ paths impModel.S [0, 1].length, joint impModel [0, 1] π = 0 := by decide
example : forward impModel [0, 1] = 0 ∧ (viterbi impModel [0, 1]).2 = 0 ∧ forward impModel [0, 0] = 16 := by decide

/-- the zero-aware comparator differs from the plain arg-max only in which zero-weight predecessor it names -/
example : selZ (fun k => [0, 3, 0].getD k 0) (fun k => [5, 0, 7].getD k 0) 3 = 1 ∧
          selLast (fun k => [0, 3, 0].getD k 0) (fun k => [5, 0, 7].getD k 0) 3 = 2 := by decide

/-- one state, everything certain except the end probability 1/10 (DESIGN §10): the Rust `viterbi` (mirror
`viterbi`) reports 10⁴/10⁴ = 1 for two observations although the only path has joint probability
10⁴/10⁵ = 0.1 = the likelihood: the reported value is not the joint probability of the returned path and
exceeds the likelihood. -/
def oneState : Hmm := { S := 1, init := fun _ => 10, trans := fun _ _ => 10, emit := fun _ _ => 10, fin := fun _ => 1 }

theorem viterbi_code_ignores_end :
    (viterbi oneState [0, 0]).1 = [0, 0] ∧
    -- reported value 10⁴ over 10⁴, joint weight of that path 10⁴ over 10⁵, likelihood 10⁴ over 10⁵
    (viterbi oneState [0, 0]).2 = 10 ^ 4 ∧ joint oneState [0, 0] [0, 0] = 10 ^ 4 ∧ forward oneState [0, 0] = 10 ^ 4 ∧
    -- as fractions: reported · 10⁴⁺¹ > likelihood · 10⁴
    forward oneState [0, 0] * 10 ^ 4 < (viterbi oneState [0, 0]).2 * 10 ^ 5 := by decide

end RbV.Thm.C14
