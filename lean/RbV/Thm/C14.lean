import RbV.Lemmas.C14
import RbV.Lemmas.HmmRat
import RbV.Thm.GenSrcHmmViterbi
import RbV.Thm.GenSrcHmmForward
import RbV.Thm.GenSrcHmmBackward
/-!
# C14 — HMM decoding and likelihoods equal their definitions over all state paths

Objects (see `RbV/Spec/Hmm.lean`, `RbV/Model/Hmm.lean`): weights are natural-number numerators over a common
denominator; `paths S T` = all state paths, `joint m obs π` = initial · ∏ transition · ∏ emission · end,
`likelihood` = Σ over all paths, `viterbiVal` = max over all paths.  The mirror models `viterbi`, `forward`,
`backward`, `backwardLit` follow `src/stats/hmm/mod.rs`.  `viterbi` is the code as it stands after the repair
of C14-viterbi-ignores-end (/repo 29abcf2): `viterbi_matrices` (no end weights, zero-aware comparator), then
the end weights on the last column iff `has_end_state()`, then `viterbi_traceback` (last maximum wins).
`viterbiWith sel pick` is the same recursion for any predecessor selector and any arg-max of the last column;
`viterbiE` (plain arg-max, last maximum) is the oracle of the driver (`RbV/Drv/C14.lean`), which also uses
`forward` and `joint`.

All theorems hold for every model (any number of states ≥ 1, arbitrary weights: zeros, ties, sub-stochastic
rows, with or without end vector) and every non-empty observation sequence — no size bound.  Theorems about the
code mirror `viterbi` assume `Hmm.WF`: a model that does not declare an end state has end weight 1 (true of
every model the constructors `with_float` / `with_prob` / `discrete_emission::Model::new` build; vacuous for a
model with `has_end_state()`).
-/
namespace RbV.Thm.C14
open RbV.Hmm

/-- `paths` is exactly the set of state sequences of the right length over the states `0 … S-1` -/
theorem paths_exact (S T : Nat) (π : List Nat) : π ∈ paths S T ↔ π.length = T ∧ ∀ s ∈ π, s < S :=
  mem_paths

/-- **Viterbi (with end weights), full statement**: the traced path is a state path, its joint weight is the
reported value, and no state path has a larger joint weight. -/
theorem viterbi_max (m : Hmm) (obs : List Nat) (hS : 0 < m.S) (h : obs ≠ []) :
    (viterbiE m obs).1 ∈ paths m.S obs.length ∧
    joint m obs (viterbiE m obs).1 = (viterbiE m obs).2 ∧
    ∀ π ∈ paths m.S obs.length, joint m obs π ≤ (viterbiE m obs).2 :=
  viterbiE_spec m hS obs h

/-- … hence the reported value is the maximum over all state paths -/
theorem viterbi_value_eq_max (m : Hmm) (obs : List Nat) (hS : 0 < m.S) (h : obs ≠ []) :
    (viterbiE m obs).2 = viterbiVal m obs := by
  obtain ⟨hp, hj, hub⟩ := viterbiE_spec m hS obs h
  apply Nat.le_antisymm
  · rw [← hj]; exact le_maxL_of_mem (List.mem_map.mpr ⟨_, hp, rfl⟩)
  · apply maxL_le
    intro a ha
    obtain ⟨π, hπ, rfl⟩ := List.mem_map.mp ha
    exact hub π hπ

/-- the "zero-aware maximum" of `viterbi_matrices` (comparator closure `cmpZ` under `Iterator::max_by`) picks an
index below `n` whose product `previous value · transition` is maximal — although the comparator is not a
consistent order on the products (a zero previous value loses against a non-zero one whose transition is zero) -/
theorem zero_aware_max (c t : Nat → Nat) (n : Nat) (hn : 0 < n) :
    selZ c t n < n ∧ ∀ k, k < n → c k * t k ≤ c (selZ c t n) * t (selZ c t n) :=
  isArgmax_selZ c t n hn

/-- any predecessor selector with that property and any arg-max of the last column give a correct Viterbi
algorithm (so a different valid tie-break anywhere in the code keeps the property) -/
theorem viterbi_max_any_selector (sel : Sel) (hsel : IsArgmax sel) (pick : Pick) (hpick : IsPick pick) (m : Hmm)
    (obs : List Nat) (hS : 0 < m.S) (h : obs ≠ []) :
    (viterbiWith sel pick m obs).1 ∈ paths m.S obs.length ∧
    joint m obs (viterbiWith sel pick m obs).1 = (viterbiWith sel pick m obs).2 ∧
    ∀ π ∈ paths m.S obs.length, joint m obs π ≤ (viterbiWith sel pick m obs).2 :=
  viterbiWith_spec hsel hpick m hS obs h

/-- **tie-breaks do not matter**: two runs with different valid tie-breaks (among predecessors: `sel`, in the
last column: `pick` — e.g. "last maximum wins" of `max_by` / `max_by_key` versus "first maximum wins") may
return different paths, but both paths have the same joint weight, which both runs report, and it is the
maximum over all state paths. -/
theorem viterbi_tiebreak_irrelevant (sel sel' : Sel) (hsel : IsArgmax sel) (hsel' : IsArgmax sel')
    (pick pick' : Pick) (hpick : IsPick pick) (hpick' : IsPick pick') (m : Hmm) (obs : List Nat) (hS : 0 < m.S)
    (h : obs ≠ []) :
    joint m obs (viterbiWith sel pick m obs).1 = joint m obs (viterbiWith sel' pick' m obs).1 ∧
    (viterbiWith sel pick m obs).2 = (viterbiWith sel' pick' m obs).2 ∧
    (viterbiWith sel pick m obs).2 = viterbiVal m obs := by
  obtain ⟨hp, hj, hub⟩ := viterbiWith_spec hsel hpick m hS obs h
  obtain ⟨hp', hj', hub'⟩ := viterbiWith_spec hsel' hpick' m hS obs h
  have h1 := hub' _ hp
  have h2 := hub _ hp'
  refine ⟨by omega, by omega, ?_⟩
  apply Nat.le_antisymm
  · rw [← hj]; exact le_maxL_of_mem (List.mem_map.mpr ⟨_, hp, rfl⟩)
  · apply maxL_le
    intro a ha
    obtain ⟨π, hπ, rfl⟩ := List.mem_map.mp ha
    exact hub π hπ

/-- `max_by_key` ("last maximum wins", the code) and "first maximum wins" are both valid arg-max choices -/
theorem last_and_first_maximum_valid : IsPick argmaxLast ∧ IsPick argmaxFirst :=
  ⟨isPick_argmaxLast, isPick_argmaxFirst⟩

/-- **the end term is added after the matrix is complete** (`hmm::viterbi`, the repaired statement): running the
literal `viterbi_traceback` on the matrices of `viterbi_matrices` whose *last value column* was multiplied by the
end weights equals the traceback that weights the last column by the end weights before its arg-max.  The
back-pointer columns are untouched, i.e. they were chosen without the end term; that this is still optimal
(`viterbi_code_max`) rests on the end term depending on the last state only. -/
theorem viterbi_end_after_matrix (m : Hmm) (hS : 0 < m.S) (col : List Nat) (mats : List (List Nat × List Nat)) :
    traceback m.S (addEnd m col mats).1 (addEnd m col mats).2 = tracebackW argmaxLast m.S m.fin col mats ∧
    (addEnd m col mats).2.map (·.2) = mats.map (·.2) :=
  ⟨traceback_addEnd m hS mats col, addEnd_ptrs m mats col⟩

/-- **the code mirror** (`viterbi_matrices` with the zero-aware comparator; end weights on the last column iff
`has_end_state()`; `viterbi_traceback`) satisfies the property for **every** model, with or without end vector:
the returned path is a state path, its joint weight is the reported value, no state path has a larger one. -/
theorem viterbi_code_max (m : Hmm) (obs : List Nat) (hS : 0 < m.S) (hwf : m.WF) (h : obs ≠ []) :
    (viterbi m obs).1 ∈ paths m.S obs.length ∧
    joint m obs (viterbi m obs).1 = (viterbi m obs).2 ∧
    ∀ π ∈ paths m.S obs.length, joint m obs π ≤ (viterbi m obs).2 :=
  viterbi_spec m hS hwf obs h

/-- … hence the value the code mirror reports is the maximum over all state paths, and it is the value of the
driver's oracle `viterbiE` -/
theorem viterbi_code_value_eq_max (m : Hmm) (obs : List Nat) (hS : 0 < m.S) (hwf : m.WF) (h : obs ≠ []) :
    (viterbi m obs).2 = viterbiVal m obs ∧ (viterbi m obs).2 = (viterbiE m obs).2 := by
  obtain ⟨hp, hj, hub⟩ := viterbi_spec m hS hwf obs h
  have hv : (viterbi m obs).2 = viterbiVal m obs := by
    apply Nat.le_antisymm
    · rw [← hj]; exact le_maxL_of_mem (List.mem_map.mpr ⟨_, hp, rfl⟩)
    · apply maxL_le
      intro a ha
      obtain ⟨π, hπ, rfl⟩ := List.mem_map.mp ha
      exact hub π hπ
  exact ⟨hv, by rw [hv, viterbi_value_eq_max m obs hS h]⟩

/-- the code mirror against any other valid pair of tie-breaks (e.g. the harmless rewrite "first maximum wins" in
`viterbi_traceback`, or a plain arg-max instead of the zero-aware comparator): possibly another path, same joint
weight, same reported value -/
theorem viterbi_code_tiebreak (sel : Sel) (hsel : IsArgmax sel) (pick : Pick) (hpick : IsPick pick) (m : Hmm)
    (obs : List Nat) (hS : 0 < m.S) (hwf : m.WF) (h : obs ≠ []) :
    joint m obs (viterbi m obs).1 = joint m obs (viterbiWith sel pick m obs).1 ∧
    (viterbi m obs).2 = (viterbiWith sel pick m obs).2 := by
  obtain ⟨hp, hj, hub⟩ := viterbi_spec m hS hwf obs h
  obtain ⟨hp', hj', hub'⟩ := viterbiWith_spec hsel hpick m hS obs h
  have h1 := hub' _ hp
  have h2 := hub _ hp'
  exact ⟨by omega, by omega⟩

/-- **forward** = Σ over all state paths of the joint weight -/
theorem forward_sum (m : Hmm) (obs : List Nat) (h : obs ≠ []) : forward m obs = likelihood m obs :=
  forward_eq_likelihood m obs h

/-- **backward** = Σ over all state paths of the joint weight -/
theorem backward_sum (m : Hmm) (obs : List Nat) (h : obs ≠ []) : backward m obs = likelihood m obs :=
  backward_eq_likelihood m obs h

/-- the **literal loop** of `hmm::backward` (index tests `i == 0` with the `len > 1` test inside, `i == len-1`, else;
so in particular the special cases T = 1 and T = 2) computes the same value, for every length -/
theorem backward_loop_sum (m : Hmm) (obs : List Nat) (h : obs ≠ []) : backwardLit m obs = likelihood m obs := by
  rw [backwardLit_eq_backward]; exact backward_eq_likelihood m obs h

/-- forward and backward return the same likelihood -/
theorem forward_eq_backward (m : Hmm) (obs : List Nat) (h : obs ≠ []) : forward m obs = backward m obs := by
  rw [forward_sum m obs h, backward_sum m obs h]

/-- the likelihood is never smaller than the Viterbi value (code mirror, every model) -/
theorem viterbi_le_likelihood (m : Hmm) (obs : List Nat) (hS : 0 < m.S) (hwf : m.WF) (h : obs ≠ []) :
    (viterbi m obs).2 ≤ forward m obs ∧ (viterbiE m obs).2 ≤ forward m obs := by
  obtain ⟨hp, hj, _⟩ := viterbi_spec m hS hwf obs h
  have h1 : (viterbi m obs).2 ≤ forward m obs := by
    rw [forward_sum m obs h, ← hj]
    exact le_sum_of_mem (List.mem_map.mpr ⟨_, hp, rfl⟩)
  exact ⟨h1, by rw [← (viterbi_code_value_eq_max m obs hS hwf h).2]; exact h1⟩

/-- impossible observations (every path has joint weight 0) get likelihood 0 and Viterbi value 0 -/
theorem impossible_zero (m : Hmm) (obs : List Nat) (hS : 0 < m.S) (hwf : m.WF) (h : obs ≠ [])
    (himp : ∀ π ∈ paths m.S obs.length, joint m obs π = 0) :
    forward m obs = 0 ∧ backward m obs = 0 ∧ (viterbi m obs).2 = 0 := by
  have hl : likelihood m obs = 0 := by
    unfold likelihood
    rw [sum_map_congr _ _ (fun _ => 0) himp, sum_map_zero]
  refine ⟨by rw [forward_sum m obs h, hl], by rw [backward_sum m obs h, hl], ?_⟩
  have := (viterbi_le_likelihood m obs hS hwf h).1
  rw [forward_sum m obs h, hl] at this
  omega

/-! ### the source text of `src/stats/hmm/mod.rs` (translated on every run: `RbV/Gen/SrcHmm*.lean`)

`LogProb` is an abstract type in the translation (`Rs.LogOps P`: `ln_zero`, `ln_one`, `+` on logs, `ln_sum_exp`, `ln_add_exp`,
`is_zero`, comparison), the accessors of `trait Model` are abstract parameters (`Rs.HmmOps P O`), `Array2` is a list of rows.
The theorems instantiate `P` with exact numerators (`Rs.natOps z`: product, sum, `compare`; `z` = the irrelevant fill value of
`Array2::zeros`) and the accessors with a specification-level model (`Rs.hmmOps m`).  `Res.ok` = no panic (no index out of
bounds, no `usize` overflow, no `unwrap` of `None`).  What stays untied is exactly the `f64` arithmetic behind the `LogProb`
operations (C15). -/

/-- **`hmm::forward` as written = the mirror model**: table of forward columns and the likelihood `forward m obs` -/
theorem forward_source_eq_model (z : Nat) (m : Hmm) (obs : List Nat) (h : obs ≠ []) :
    RbV.Gen.SrcHmmForward.forward (RbV.Rs.natOps z) (RbV.Rs.hmmOps m) obs
      = RbV.Rs.Res.ok ((List.range obs.length).map (RbV.Thm.GenSrcHmmForward.fcol m obs), forward m obs) :=
  RbV.Thm.GenSrcHmmForward.forward_eq_model z m obs h

/-- … hence the translated `forward` returns the sum of the joint weight over all state paths -/
theorem forward_source_is_sum_over_paths (z : Nat) (m : Hmm) (obs : List Nat) (h : obs ≠ []) :
    ∃ tbl, RbV.Gen.SrcHmmForward.forward (RbV.Rs.natOps z) (RbV.Rs.hmmOps m) obs
      = RbV.Rs.Res.ok (tbl, ((paths m.S obs.length).map (joint m obs)).sum) :=
  ⟨_, by rw [forward_source_eq_model z m obs h, forward_sum m obs h]; rfl⟩

/-- **`hmm::backward` as written = the mirror model**: table of backward rows and the likelihood `backward m obs`
(`obs.length < 2^64` as for every slice: the loop computes `i + 1` in `usize`) -/
theorem backward_source_eq_model (z : Nat) (m : Hmm) (obs : List Nat) (h : obs ≠ []) (h64 : obs.length < 2 ^ 64) :
    RbV.Gen.SrcHmmBackward.backward (RbV.Rs.natOps z) (RbV.Rs.hmmOps m) obs
      = RbV.Rs.Res.ok ((List.range obs.length).map (RbV.Thm.GenSrcHmmBackward.brow m obs), backward m obs) :=
  RbV.Thm.GenSrcHmmBackward.backward_eq_model z m obs h h64

/-- … hence the translated `backward` returns the sum of the joint weight over all state paths -/
theorem backward_source_is_sum_over_paths (z : Nat) (m : Hmm) (obs : List Nat) (h : obs ≠ []) (h64 : obs.length < 2 ^ 64) :
    ∃ tbl, RbV.Gen.SrcHmmBackward.backward (RbV.Rs.natOps z) (RbV.Rs.hmmOps m) obs
      = RbV.Rs.Res.ok (tbl, ((paths m.S obs.length).map (joint m obs)).sum) :=
  ⟨_, by rw [backward_source_eq_model z m obs h h64, backward_sum m obs h]; rfl⟩

/-- the translated `forward` and `backward` return the same likelihood -/
theorem forward_source_eq_backward_source (z : Nat) (m : Hmm) (obs : List Nat) (h : obs ≠ []) (h64 : obs.length < 2 ^ 64) :
    ∃ t1 t2 v, RbV.Gen.SrcHmmForward.forward (RbV.Rs.natOps z) (RbV.Rs.hmmOps m) obs = RbV.Rs.Res.ok (t1, v) ∧
      RbV.Gen.SrcHmmBackward.backward (RbV.Rs.natOps z) (RbV.Rs.hmmOps m) obs = RbV.Rs.Res.ok (t2, v) :=
  ⟨_, _, _, forward_source_eq_model z m obs h, by rw [backward_source_eq_model z m obs h h64, forward_eq_backward m obs h]⟩

/-! ### from cleared numerators to probabilities (genleft; `RbV/Lemmas/HmmRat.lean`, core `Rat`)

`q : HmmQ` is a model of exact rational *probabilities*, `jointQ q obs π` the product of the probabilities along a path,
`likelihoodQ q obs` its sum over all state paths = P(observations).  `Scaled m q dI dT dE dF`: the numerator model `m` the
theorems above run the translated code on is `q` with the denominators cleared (`ofNumerators m …` is such a `q` for every
`m` and non-zero denominators; for a model without end probabilities take `dF = 1`, `fin = 1`).  Every state path has the
same number of factors of each kind, so the value the translated code returns is the probability times the constant
`scale dI dT dE dF T = dI · dE · (dT·dE)^(T-1) · dF`. -/

/-- **the translated `forward`, read over exact rationals**: it returns (without panic) the numerator `v` with
`v = P(observations) · scale`, i.e. `P(observations) = v / scale` — the sum over all state paths of the product of the
*probabilities* `k/d`, not of cleared numerators -/
theorem forward_source_rat (z : Nat) (m : Hmm) (q : HmmQ) (dI dT dE dF : Nat) (hsc : Scaled m q dI dT dE dF)
    (hI : dI ≠ 0) (hT : dT ≠ 0) (hE : dE ≠ 0) (hF : dF ≠ 0) (obs : List Nat) (h : obs ≠ []) :
    ∃ tbl v, RbV.Gen.SrcHmmForward.forward (RbV.Rs.natOps z) (RbV.Rs.hmmOps m) obs = RbV.Rs.Res.ok (tbl, v) ∧
      likelihoodQ q obs * (scale dI dT dE dF obs.length : Rat) = (v : Rat) ∧
      likelihoodQ q obs = (v : Rat) / (scale dI dT dE dF obs.length : Rat) := by
  obtain ⟨tbl, ht⟩ := forward_source_is_sum_over_paths z m obs h
  have hl := likelihood_scaled m q dI dT dE dF hsc obs
  exact ⟨tbl, _, ht, hl, eq_div_of_mul_eq (natCast_ne_zero (scale_ne_zero dI dT dE dF obs.length hI hT hE hF)) hl⟩

/-- the same for the translated `backward` -/
theorem backward_source_rat (z : Nat) (m : Hmm) (q : HmmQ) (dI dT dE dF : Nat) (hsc : Scaled m q dI dT dE dF)
    (hI : dI ≠ 0) (hT : dT ≠ 0) (hE : dE ≠ 0) (hF : dF ≠ 0) (obs : List Nat) (h : obs ≠ []) (h64 : obs.length < 2 ^ 64) :
    ∃ tbl v, RbV.Gen.SrcHmmBackward.backward (RbV.Rs.natOps z) (RbV.Rs.hmmOps m) obs = RbV.Rs.Res.ok (tbl, v) ∧
      likelihoodQ q obs = (v : Rat) / (scale dI dT dE dF obs.length : Rat) := by
  obtain ⟨tbl, ht⟩ := backward_source_is_sum_over_paths z m obs h h64
  have hl := likelihood_scaled m q dI dT dE dF hsc obs
  exact ⟨tbl, _, ht, eq_div_of_mul_eq (natCast_ne_zero (scale_ne_zero dI dT dE dF obs.length hI hT hE hF)) hl⟩

/-- **`hmm::viterbi` as written = the mirror model, modulo tie-breaking** (the property does not fix which of several optimal
paths is returned): the translated `viterbi_matrices` + end-term loop + `viterbi_traceback` return, without panic, the value
the mirror model `viterbi m obs` reports and a state path whose joint weight is that value -/
theorem viterbi_source_eq_model (z : Nat) (m : Hmm) (obs : List Nat) (hS : 0 < m.S) (hwf : m.WF) (h : obs ≠ []) :
    ∃ π, RbV.Gen.SrcHmmViterbi.viterbi (RbV.Rs.natOps z) (RbV.Rs.hmmOps m) obs = RbV.Rs.Res.ok (π, (viterbi m obs).2) ∧
      π ∈ paths m.S obs.length ∧ joint m obs π = (viterbi m obs).2 :=
  RbV.Thm.GenSrcHmmViterbi.viterbi_eq_model z m hS hwf obs h

/-- … hence the translated `viterbi` returns a path that attains the maximum of the joint weight over all state paths, and
that maximum -/
theorem viterbi_source_is_max_over_paths (z : Nat) (m : Hmm) (obs : List Nat) (hS : 0 < m.S) (hwf : m.WF) (h : obs ≠ []) :
    ∃ π v, RbV.Gen.SrcHmmViterbi.viterbi (RbV.Rs.natOps z) (RbV.Rs.hmmOps m) obs = RbV.Rs.Res.ok (π, v) ∧
      π ∈ paths m.S obs.length ∧ joint m obs π = v ∧ (∀ ρ ∈ paths m.S obs.length, joint m obs ρ ≤ v) ∧
      v = viterbiVal m obs := by
  obtain ⟨π, v, hv, hp, hj, hub⟩ := RbV.Thm.GenSrcHmmViterbi.viterbi_optimal z m hS hwf obs h
  refine ⟨π, v, hv, hp, hj, hub, ?_⟩
  apply Nat.le_antisymm
  · rw [← hj]; exact le_maxL_of_mem (List.mem_map.mpr ⟨_, hp, rfl⟩)
  · apply maxL_le
    intro a ha
    obtain ⟨ρ, hρ, rfl⟩ := List.mem_map.mp ha
    exact hub ρ hρ

/-- **the translated `viterbi`, read over exact rationals**: the returned path maximises the *probability* `jointQ` over all
state paths, and the returned numerator is that probability times `scale` -/
theorem viterbi_source_rat (z : Nat) (m : Hmm) (q : HmmQ) (dI dT dE dF : Nat) (hsc : Scaled m q dI dT dE dF)
    (hI : dI ≠ 0) (hT : dT ≠ 0) (hE : dE ≠ 0) (hF : dF ≠ 0) (obs : List Nat) (hS : 0 < m.S) (hwf : m.WF) (h : obs ≠ []) :
    ∃ π v, RbV.Gen.SrcHmmViterbi.viterbi (RbV.Rs.natOps z) (RbV.Rs.hmmOps m) obs = RbV.Rs.Res.ok (π, v) ∧
      π ∈ paths q.S obs.length ∧ jointQ q obs π = (v : Rat) / (scale dI dT dE dF obs.length : Rat) ∧
      ∀ ρ ∈ paths q.S obs.length, jointQ q obs ρ ≤ jointQ q obs π := by
  obtain ⟨π, v, hv, hp, hj, hub, _⟩ := viterbi_source_is_max_over_paths z m obs hS hwf h
  refine ⟨π, v, hv, by rw [hsc.S]; exact hp, ?_, fun ρ hρ => ?_⟩
  · apply eq_div_of_mul_eq (natCast_ne_zero (scale_ne_zero dI dT dE dF obs.length hI hT hE hF))
    rw [joint_scaled m q dI dT dE dF hsc, hj]
  · rw [hsc.S] at hρ
    exact jointQ_le_of_joint_le m q dI dT dE dF hsc hI hT hE hF obs π ρ (by rw [hj]; exact hub ρ hρ)

/-- the zero-aware comparator closure of `viterbi_matrices`, as written, refines the score `previous value · transition`
(what makes `max_by` return a maximising predecessor in any scan order) -/
theorem viterbi_comparator_source_refines_score (z : Nat) (m : Hmm) (i c : Nat) (x y : Nat × Nat) :
    (RbV.Gen.SrcHmmViterbi.viterbi_matrices_cmp1 (RbV.Rs.natOps z) (RbV.Rs.hmmOps m) i c x y = .gt →
        y.2 * m.trans y.1 c ≤ x.2 * m.trans x.1 c) ∧
    (RbV.Gen.SrcHmmViterbi.viterbi_matrices_cmp1 (RbV.Rs.natOps z) (RbV.Rs.hmmOps m) i c x y ≠ .gt →
        x.2 * m.trans x.1 c ≤ y.2 * m.trans y.1 c) :=
  RbV.Thm.GenSrcHmmViterbi.cmp1_spec z m i c x y

/-! ### non-vacuity -/

/-- a 2-state model over denominator 10 with zeros, a tie and an end vector -/
def exModel : Hmm :=
  { S := 2
    init := fun s => [5, 5].getD s 0
    trans := fun a b => ([[5, 5], [0, 10]].getD a []).getD b 0
    emit := fun s o => ([[2, 8], [8, 2]].getD s []).getD o 0
    fin := fun s => [1, 3].getD s 0
    hasEnd := true }

/-- both kinds of model are well-formed (hypothesis `WF` of the code-mirror theorems is satisfiable) -/
example : exModel.WF := by intro h; cases h
example : exModel.noEnd.WF := fun _ _ _ => rfl

example : (viterbiE exModel [1, 0, 0]).1 = [0, 1, 1] ∧ (viterbiE exModel [1, 0, 0]).2 = 384000 := by decide
example : viterbiVal exModel [1, 0, 0] = 384000 ∧ likelihood exModel [1, 0, 0] = 628000 := by decide
example : forward exModel [1, 0, 0] = 628000 ∧ backward exModel [1, 0, 0] = 628000 := by decide
/-- the code mirror on the model with end vector (reports the joint weight *with* the end term) and on the
same model without end vector -/
example : viterbi exModel [1, 0, 0] = ([0, 1, 1], 384000) ∧ viterbi exModel.noEnd [1, 0, 0] = ([0, 1, 1], 128000) := by
  decide
example : viterbiVal exModel.noEnd [1, 0, 0] = (viterbi exModel.noEnd [1, 0, 0]).2 := by decide
example : backwardLit exModel [1] = 70 ∧ backwardLit exModel [1, 0] = 7600 ∧ backwardLit exModel [1, 0, 0] = 628000 := by decide

/-- the end term changes the arg-max: without it the best path ends in state 0, with it in state 1; the
back-pointers are the same in both runs (they never see the end term) -/
def flipModel : Hmm :=
  { S := 2
    init := fun _ => 5
    trans := fun _ _ => 5
    emit := fun s o => ([[6, 4], [4, 6]].getD s []).getD o 0
    fin := fun s => [1, 9].getD s 0
    hasEnd := true }
example : viterbi flipModel [0, 0] = ([0, 1], 5400) ∧ viterbi flipModel.noEnd [0, 0] = ([0, 0], 900) ∧
    joint flipModel [0, 0] [0, 0] = 900 ∧ viterbiVal flipModel [0, 0] = 5400 := by decide
example : (addEnd flipModel (col0 flipModel 0) (matFrom selZ flipModel (col0 flipModel 0) [0])).2.map (·.2)
    = (matFrom selZ flipModel (col0 flipModel 0) [0]).map (·.2) := by decide

/-- two valid tie-breaks, two different optimal paths, one value (hypotheses of `viterbi_tiebreak_irrelevant`) -/
def tieModel : Hmm :=
  { S := 2, init := fun _ => 1, trans := fun _ _ => 1, emit := fun _ _ => 1, fin := fun _ => 1, hasEnd := false }
example : viterbiWith selZ argmaxLast tieModel [0, 0] = ([1, 1], 1) ∧
    viterbiWith selLast argmaxFirst tieModel [0, 0] = ([1, 0], 1) ∧ viterbi tieModel [0, 0] = ([1, 1], 1) := by decide
example : tieModel.WF := fun _ _ _ => rfl

/-- hypothesis of `impossible_zero` is satisfiable: symbol 1 is never emitted -/
def impModel : Hmm :=
  { S := 2, init := fun _ => 1, trans := fun _ _ => 1, emit := fun _ o => if o = 0 then 2 else 0, fin := fun _ => 1,
    hasEnd := false }
example : impModel.WF := fun _ _ _ => rfl
example : ∀ π ∈ paths impModel.S [0, 1].length, joint impModel [0, 1] π = 0 := by decide
example : forward impModel [0, 1] = 0 ∧ (viterbi impModel [0, 1]).2 = 0 ∧ forward impModel [0, 0] = 16 := by decide

/-- the zero-aware comparator differs from the plain arg-max only in which zero-weight predecessor it names -/
example : selZ (fun k => [0, 3, 0].getD k 0) (fun k => [5, 0, 7].getD k 0) 3 = 1 ∧
          selLast (fun k => [0, 3, 0].getD k 0) (fun k => [5, 0, 7].getD k 0) 3 = 2 := by decide

/-- regression witness of the repaired defect C14-viterbi-ignores-end (DESIGN §10: one state, everything certain
except the end probability 1/10, two observations): the code mirror now reports 10⁴/10⁵ = 0.1 = the joint
probability of the only path = the likelihood (before /repo 29abcf2 the code reported 1.0). -/
def oneState : Hmm :=
  { S := 1, init := fun _ => 10, trans := fun _ _ => 10, emit := fun _ _ => 10, fin := fun _ => 1, hasEnd := true }
example : viterbi oneState [0, 0] = ([0, 0], 10 ^ 4) ∧ joint oneState [0, 0] [0, 0] = 10 ^ 4 ∧
    forward oneState [0, 0] = 10 ^ 4 := by decide

/-- probabilities instead of numerators, on the regression witness: all weights 10/10 = 1 except the end probability 1/10,
two observations: `scale = 10·10·(10·10)·10 = 10⁵`, the translated `forward` returns 10⁴, so P(observations) = 10⁴/10⁵ = 1/10
(and the sum over paths of the products of the probabilities, computed directly over `Rat`, is 1/10) -/
example : ∃ tbl v, RbV.Gen.SrcHmmForward.forward (RbV.Rs.natOps 7) (RbV.Rs.hmmOps oneState) [0, 0] = RbV.Rs.Res.ok (tbl, v) ∧
    likelihoodQ (ofNumerators oneState 10 10 10 10) [0, 0] = (v : Rat) / (scale 10 10 10 10 2 : Rat) :=
  let ⟨tbl, v, h, _, h2⟩ := forward_source_rat 7 oneState _ 10 10 10 10
    (ofNumerators_scaled oneState 10 10 10 10 (by decide) (by decide) (by decide) (by decide))
    (by decide) (by decide) (by decide) (by decide) [0, 0] (by decide)
  ⟨tbl, v, h, h2⟩
example : scale 10 10 10 10 2 = 10 ^ 5 ∧ likelihoodQ (ofNumerators oneState 10 10 10 10) [0, 0] = 1 / 10 ∧
    ((10 ^ 4 : Nat) : Rat) / ((10 ^ 5 : Nat) : Rat) = 1 / 10 := by decide +kernel

/-- `WF` cannot be dropped: a model that carries end weights but does not declare them (only constructible with
the raw `discrete_emission_opt_end::Model::new(…, end, false)`) is decoded without them -/
def undeclared : Hmm := { oneState with fin := fun _ => 3, hasEnd := false }
example : ¬ undeclared.WF ∧ (viterbi undeclared [0, 0]).2 = 10 ^ 4 ∧ joint undeclared [0, 0] [0, 0] = 3 * 10 ^ 4 := by
  refine ⟨fun h => absurd (h rfl 0 (by decide)) (by decide), by decide, by decide⟩

/-- the translated functions run on the example models (values as the mirror models above; `7` = fill value) -/
example : RbV.Gen.SrcHmmForward.forward (RbV.Rs.natOps 7) (RbV.Rs.hmmOps exModel) [1, 0, 0]
    = RbV.Rs.Res.ok ([[40, 10], [400, 2400], [4000, 208000]], 628000) := by decide
example : RbV.Gen.SrcHmmBackward.backward (RbV.Rs.natOps 7) (RbV.Rs.hmmOps exModel) [1, 0, 0]
    = RbV.Rs.Res.ok ([[1, 3], [130, 240], [10900, 19200]], 628000) := by decide
example : RbV.Gen.SrcHmmBackward.backward (RbV.Rs.natOps 0) (RbV.Rs.hmmOps exModel) [1]
    = RbV.Rs.Res.ok ([[1, 3]], 70) := by decide
example : RbV.Gen.SrcHmmViterbi.viterbi (RbV.Rs.natOps 0) (RbV.Rs.hmmOps exModel) [1, 0, 0]
    = RbV.Rs.Res.ok ([0, 1, 1], 384000) := by decide
example : RbV.Gen.SrcHmmViterbi.viterbi (RbV.Rs.natOps 0) (RbV.Rs.hmmOps flipModel) [0, 0] = RbV.Rs.Res.ok ([0, 1], 5400) ∧
    RbV.Gen.SrcHmmViterbi.viterbi (RbV.Rs.natOps 0) (RbV.Rs.hmmOps flipModel.noEnd) [0, 0] = RbV.Rs.Res.ok ([0, 0], 900) := by
  decide
/-- the empty observation sequence: `forward` panics (`observations.len() - 1`), `viterbi` panics (`unwrap` of the empty
`max_by_key` is never reached: the loop body does not run) — the theorems assume `obs ≠ []` -/
example : RbV.Gen.SrcHmmForward.forward (RbV.Rs.natOps 0) (RbV.Rs.hmmOps exModel) [] = RbV.Rs.Res.panic := by decide
example : RbV.Gen.SrcHmmViterbi.viterbi (RbV.Rs.natOps 0) (RbV.Rs.hmmOps exModel) [] = RbV.Rs.Res.ok ([], 0) := by decide

end RbV.Thm.C14
