import RbV.Thm.GenSrcPwCustom
/-!
# SOFT module (not imported by any `Thm/Cxx.lean`; built by `tools/gen_tables.py` after regeneration, a failure is a note)

The *exact* equality of the translated main-loop cell of `Aligner::custom` with `stepJT T` / `stepJC` **including the traceback
code of the S layer** — i.e. including the order in which the six candidates of `S(i, j)` are compared.  The property does not
determine that order (seeded C01-H4 changes it: prefix clips first); the hard obligation is
`Thm/GenSrcPwCustom.lean` `cell_update_any_order` (values + admissible code for any order).  This module keeps the exact tie to
the mirror the driver runs, for the pinned order.
-/
set_option linter.unusedSimpArgs false
set_option linter.unusedVariables false
namespace RbV.Thm.GenSrcPwCustomExact
open RbV RbV.Rs RbV.Gen.TbCodes RbV.Gen.Limits RbV.Gen.SrcPwTypes RbV.Gen.SrcPwCustom RbV.Align RbV.Model.PairwiseFill
open RbV.Thm.GenSrcPwTypes RbV.Thm.GenSrcPwCustom

/-- **One cell of the main loop** (the body of `for i in 1..m + 1`, translated text, with the three tie-breaks `T` as
parameters) **= `stepJT T`** (for the pinned tie-breaks: `stepJC` of the checked-`i32` mirror): on every aligner state
with vectors of the right lengths (`Dims`), for `1 ≤ i ≤ m`, `1 ≤ j ≤ n`, `curr ≠ prev` both `< 2`, with `S[curr][i]`
reset to `MIN_SCORE` (unless `i = m`: the x-suffix register) and the S fields of the two neighbour cells holding valid
codes: the body panics exactly when the mirror's row is `none` (an `i32` overflow), and otherwise writes exactly the
mirror's row `r'` — `S/I/D[curr][i]`, the register `S[curr][m]`, `Sn[i]`, `Ly[i]`, `Lx[j]`, cell `(i, j)` — and nothing else. -/
theorem cell_update_aux (w : Nat → Nat → Int) (T : Ties) (a : Aligner) (x : List Nat) (m n i j curr prev q : Nat) (xclip : Int)
    (tsL tsU : Tb) (hd : Dims a m n) (hx : x.length = m) (hi : 1 ≤ i) (him : i ≤ m) (hj : 1 ≤ j) (hjn : j ≤ n)
    (hc : curr < 2) (hp : prev < 2) (hcp : curr ≠ prev)
    (hreset : i ≠ m → (a.S.getD curr []).getD i 0 = minScore)
    (hL : SIs a (i - 1) j tsL) (hU : SIs a i (j - 1) tsU) :
    custom_for5 w T.iT T.dT T.snT T.sn0T x m n j curr prev q xclip a i =
      ofOpt (stepJT T (scOf w a) (clOf a) m n j i (x.getD (i - 1) 0) q xclip (rowPrev1 a prev (i - 1))
          (rowPrev a prev i tsU) (rowCur a m j curr (i - 1) tsL)) >>= fun r' => Res.ok (writeRow a m curr i j r') := by
  obtain ⟨S2, I2, D2, Srow, Irow, Drow, hSn, hLy, hLx, htb, hrows, hcols⟩ := hd
  have eSc : Rs.idx a.S curr = .ok (a.S.getD curr []) := idxD _ _ (by omega)
  have eSp : Rs.idx a.S prev = .ok (a.S.getD prev []) := idxD _ _ (by omega)
  have eIc : Rs.idx a.I curr = .ok (a.I.getD curr []) := idxD _ _ (by omega)
  have eDc : Rs.idx a.D curr = .ok (a.D.getD curr []) := idxD _ _ (by omega)
  have eDp : Rs.idx a.D prev = .ok (a.D.getD prev []) := idxD _ _ (by omega)
  have eL : tbGet a.traceback (i - 1) j = .ok (cellAt a (i - 1) j) := by
    rw [tbGet_eq_model _ _ _ htb (by omega) (by omega)]
    exact idxD _ _ (shaped_idx htb (by omega) (by omega)).1
  have eU : tbGet a.traceback i (j - 1) = .ok (cellAt a i (j - 1)) := by
    rw [tbGet_eq_model _ _ _ htb (by omega) (by omega)]
    exact idxD _ _ (shaped_idx htb (by omega) (by omega)).1
  have eW : ∀ c, tbSet a.traceback i j c =
      .ok { a.traceback with matrix := a.traceback.matrix.set (i * a.traceback.cols + j) c } :=
    fun c => tbSet_eq_model _ _ _ _ htb (by omega) (by omega)
  unfold SIs at hL hU
  simp only [rowPrev1, rowPrev, rowCur, scOf, clOf, writeRow, stepJT, ofOpt_obind]
  have lSc : (a.S.getD curr []).length = m + 1 := Srow _ hc
  have lSp : (a.S.getD prev []).length = m + 1 := Srow _ hp
  have lIc : (a.I.getD curr []).length = m + 1 := Irow _ hc
  have lDc : (a.D.getD curr []).length = m + 1 := Drow _ hc
  have lDp : (a.D.getD prev []).length = m + 1 := Drow _ hp
  have e1 : Rs.sub i 1 = .ok (i - 1) := Rs.sub_ok hi
  have e1j : Rs.sub j 1 = .ok (j - 1) := Rs.sub_ok hj
  have e2 : Rs.idx x (i - 1) = .ok (x.getD (i - 1) 0) := idxD _ _ (by omega)
  have e3 : Rs.idx (a.S.getD prev []) (i - 1) = .ok ((a.S.getD prev []).getD (i - 1) 0) := idxD _ _ (by omega)
  have e4 : Rs.idx (a.I.getD curr []) (i - 1) = .ok ((a.I.getD curr []).getD (i - 1) 0) := idxD _ _ (by omega)
  have e5 : Rs.idx (a.S.getD curr []) (i - 1) = .ok ((a.S.getD curr []).getD (i - 1) 0) := idxD _ _ (by omega)
  have e6 : Rs.idx (a.D.getD prev []) i = .ok ((a.D.getD prev []).getD i 0) := idxD _ _ (by omega)
  have e7 : Rs.idx (a.S.getD prev []) i = .ok ((a.S.getD prev []).getD i 0) := idxD _ _ (by omega)
  have e8 : Rs.idx (a.S.getD curr []) i = .ok ((a.S.getD curr []).getD i 0) := idxD _ _ (by omega)
  have f1 : ∀ v, Rs.setIdx (a.S.getD curr []) i v = .ok ((a.S.getD curr []).set i v) := fun v => setIdx_ok' _ _ _ (by omega)
  have f2 : ∀ l, Rs.setIdx a.S curr l = .ok (a.S.set curr l) := fun l => setIdx_ok' _ _ _ (by omega)
  have f3 : ∀ v, Rs.setIdx (a.I.getD curr []) i v = .ok ((a.I.getD curr []).set i v) := fun v => setIdx_ok' _ _ _ (by omega)
  have f4 : ∀ l, Rs.setIdx a.I curr l = .ok (a.I.set curr l) := fun l => setIdx_ok' _ _ _ (by omega)
  have f5 : ∀ v, Rs.setIdx (a.D.getD curr []) i v = .ok ((a.D.getD curr []).set i v) := fun v => setIdx_ok' _ _ _ (by omega)
  have f6 : ∀ l, Rs.setIdx a.D curr l = .ok (a.D.set curr l) := fun l => setIdx_ok' _ _ _ (by omega)
  have f7 : ∀ l : List Int, Rs.idx (a.S.set curr l) curr = .ok l := fun l => by
    rw [Rs.idx_ok (by rw [List.length_set]; omega)]; simp
  have f8 : ∀ v : Int, Rs.idx ((a.S.getD curr []).set i v) i = .ok v := fun v => by
    rw [Rs.idx_ok (by rw [List.length_set]; omega)]; simp
  have f9 : ∀ v : Int, Rs.idx ((a.S.getD curr []).set i v) m = .ok (if i = m then v else (a.S.getD curr []).getD m 0) :=
    fun v => by
      have hlt : i < (a.S.getD curr []).length := by omega
      rw [idxD _ _ (by rw [List.length_set]; omega), getD_set']
      simp only [hlt, and_true]; rfl
  have f10 : ∀ v u : Int, Rs.setIdx ((a.S.getD curr []).set i v) m u = .ok (((a.S.getD curr []).set i v).set m u) :=
    fun v u => setIdx_ok' _ _ _ (by rw [List.length_set]; omega)
  have f11 : ∀ l l' : List Int, Rs.setIdx (a.S.set curr l) curr l' = .ok (a.S.set curr l') := fun l l' => by
    rw [setIdx_ok' _ _ _ (by rw [List.length_set]; omega), List.set_set]
  have f12 : Rs.sub m i = .ok (m - i) := Rs.sub_ok him
  have f13 : Rs.sub n j = .ok (n - j) := Rs.sub_ok hjn
  have f14 : ∀ v, Rs.setIdx a.Lx j v = .ok (a.Lx.set j v) := fun v => setIdx_ok' _ _ _ (by omega)
  have f15 : ∀ v, Rs.setIdx a.Sn i v = .ok (a.Sn.set i v) := fun v => setIdx_ok' _ _ _ (by omega)
  have f16 : ∀ v, Rs.setIdx a.Ly i v = .ok (a.Ly.set i v) := fun v => setIdx_ok' _ _ _ (by omega)
  have f17 : Rs.idx a.Sn i = .ok (a.Sn.getD i 0) := idxD _ _ (by omega)
  have f18 : ∀ (v u : Int), Rs.idx (((a.S.getD curr []).set i v).set m u) i = .ok (if i = m then u else v) := fun v u => by
    have hlt : i < (a.S.getD curr []).length := by omega
    have hlt2 : m < ((a.S.getD curr []).set i v).length := by rw [List.length_set]; omega
    rw [idxD _ _ (by rw [List.length_set, List.length_set]; omega), getD_set', getD_set']
    simp only [hlt, hlt2, and_true, if_true]
    by_cases h : i = m
    · simp [h]
    · have h' : ¬ m = i := fun e => h e.symm
      simp [h, h']
  have f19 : ∀ v : Int, ((a.S.getD curr []).set i v).getD m 0 = if i = m then v else (a.S.getD curr []).getD m 0 := fun v => by
    have hlt : i < (a.S.getD curr []).length := by omega
    rw [getD_set']; simp only [hlt, and_true]
  have hb0 : (a.S.getD curr []).getD i 0 = if i = m then (a.S.getD curr []).getD m 0 else minScore := by
    by_cases h : i = m
    · rw [if_pos h, h]
    · rw [if_neg h]; exact hreset h
  have hcomm : ∀ s, I32.add (w (x.getD (i - 1) 0) q) s = I32.add s (w (x.getD (i - 1) 0) q) := fun s => by
    unfold I32.add; rw [Int.add_comm]
  unfold custom_for5
  simp only [hcomm, e1, e1j, e2, e3, e4, e5, e6, e7, e8, eSc, eSp, eIc, eDc, eDp, eL, eU, cellNew_eq_model, Res.pure_eq_ok, Res.ok_bind,
    bind_pure_comp, iadd32, imul32, castSigned32, getSBits_eq_model, hL, hU, k_ins, k_del, k_xsuf, k_xpre, k_ypre, enc_ite,
    setI_new, setD_cI, setS_cD, setS_cell, ite_ok, ite_fst, ite_snd, ite_cI, ite_cD, ite_cell, minScore_eq, upd_fold,
    f1, f2, f3, f4, f5, f6, f7, f8, f9, f10, f11, f12, f13, f14, f15, f16, f17, f18, f19, eW, bind_assoc,
    apply_ite Aligner.S, apply_ite Aligner.Sn, apply_ite Aligner.Ly, apply_ite Aligner.Lx, apply_ite Aligner.I,
    apply_ite Aligner.D, apply_ite Aligner.traceback, apply_ite Aligner.scoring, ite_self, ite_set0, ite_setN, ite_set2]
  rw [hb0]
  iterate 10 (refine bind_congr (fun _ => ?_))
  generalize I32.add _ a.scoring.xclip_suffix = o11
  cases o11 with
  | none => simp only [ofOpt_none, Res.panic_bind]
  | some cx =>
  simp only [ofOpt_some, Res.ok_bind, ite_ok, f7, f18, f19, apply_ite Aligner.S, apply_ite Aligner.Sn, apply_ite Aligner.Ly,
    apply_ite Aligner.Lx, apply_ite Aligner.I, apply_ite Aligner.D, apply_ite Aligner.traceback, apply_ite Aligner.scoring,
    ite_self, ite_set0, ite_setN, ite_set2, upd_fold, f15, f16, f17, eW]
  generalize I32.add _ a.scoring.yclip_suffix = o12
  cases o12 with
  | none => simp only [ofOpt_none, Res.panic_bind]
  | some cy =>
  simp only [ofOpt_some, Res.ok_bind, ite_ok, apply_ite Aligner.S, apply_ite Aligner.Sn, apply_ite Aligner.Ly,
    apply_ite Aligner.Lx, apply_ite Aligner.I, apply_ite Aligner.D, apply_ite Aligner.traceback, apply_ite Aligner.scoring,
    ite_self, ite_set0, ite_setN, ite_set2, upd_fold, f15, f16, eW, Res.ok.injEq, f19]
  by_cases h : i = m
  · subst h; simp [List.set_set]
  · simp only [if_neg h]; try rfl

/-- `cell_update_aux` at the indices the outer loop uses (`curr = j % 2`, `prev = 1 - curr`) -/
theorem cell_update_mod_ties (w : Nat → Nat → Int) (T : Ties) (a : Aligner) (x : List Nat) (m n i j q : Nat) (xclip : Int)
    (tsL tsU : Tb) (hd : Dims a m n) (hx : x.length = m) (hi : 1 ≤ i) (him : i ≤ m) (hj : 1 ≤ j) (hjn : j ≤ n)
    (hreset : i ≠ m → (a.S.getD (j % 2) []).getD i 0 = minScore)
    (hL : SIs a (i - 1) j tsL) (hU : SIs a i (j - 1) tsU) :
    custom_for5 w T.iT T.dT T.snT T.sn0T x m n j (j % 2) (1 - j % 2) q xclip a i =
      ofOpt (stepJT T (scOf w a) (clOf a) m n j i (x.getD (i - 1) 0) q xclip (rowPrev1 a (1 - j % 2) (i - 1))
          (rowPrev a (1 - j % 2) i tsU) (rowCur a m j (j % 2) (i - 1) tsL)) >>= fun r' =>
        Res.ok (writeRow a m (j % 2) i j r') :=
  cell_update_aux w T a x m n i j (j % 2) (1 - j % 2) q xclip tsL tsU hd hx hi him hj hjn (by omega) (by omega) (by omega)
    hreset hL hU


/-- for the pinned tie-breaks the row is `stepJC` of the checked-`i32` mirror itself -/
theorem cell_update_source_eq_model (w : Nat → Nat → Int) (T : Ties) (hT : T = pinned)
    (a : Aligner) (x y : List Nat) (i j : Nat) (xclip : Int) (prev : List Row)
    (r : Row) (hd : Dims a x.length y.length) (hi : 1 ≤ i) (him : i ≤ x.length)
    (hj : 1 ≤ j) (hjn : j ≤ y.length) (hreset : i ≠ x.length → (a.S.getD (j % 2) []).getD i 0 = minScore)
    (hL : SIs a (i - 1) j r.t.ts) (hU : SIs a i (j - 1) (prev.getD i default).t.ts)
    (hr : rowCur a x.length j (j % 2) (i - 1) r.t.ts = r)
    (hp1 : rowPrev1 a (1 - j % 2) (i - 1) = prev.getD (i - 1) default)
    (hp : rowPrev a (1 - j % 2) i (prev.getD i default).t.ts = prev.getD i default) :
    custom_for5 w T.iT T.dT T.snT T.sn0T x x.length y.length j (j % 2) (1 - j % 2) (y.getD (j - 1) 0) xclip a i =
      ofOpt (stepJC (scOf w a) (clOf a) x y j prev xclip i r) >>= fun r' => Res.ok (writeRow a x.length (j % 2) i j r') := by
  subst hT
  rw [cell_update_mod_ties w pinned a x x.length y.length i j (y.getD (j - 1) 0) xclip r.t.ts
    (prev.getD i default).t.ts hd rfl hi him hj hjn hreset hL hU, hr, hp1, hp, stepJT_pinned]

end RbV.Thm.GenSrcPwCustomExact
