import RbV.Gen.SrcOrf
import RbV.Model.OrfScanP
import RbV.Lemmas.OrfScanP
import RbV.Thm.GenSrcBasic
/-!
# The translated text of `orf::Matches::next` equals the ORF mirror model

`RbV/Gen/SrcOrf.lean` is regenerated from `src/seq_analysis/orf.rs` by `tools/rs2lean.py` (dialect "cf",
`tools/rs2lean_cf.py`) on every `./check C20`: `next` (early return when `found` holds something, the `for (index, nuc) in
self.seq.by_ref()` loop as the recursive helper `next_for1` on the remaining `(index, symbol)` pairs, the flush loop
`next_for2` with its `break`), and the **length test of the flush loop as a separate definition `next_lenTest`** that
`next`, `next_for1`, `next_for2` take as a parameter `lenTest`.

The state of the iterator is `(state.start_pos : [Vec<usize>; 3], state.codon, state.found, seq)`; a model state `st`
(`Model/OrfScan.lean`) corresponds to `start_pos = [st.p0, st.p1, st.p2]` (`sp3 st`), `codon = st.codon`; `found` is the
queue of frames emitted but not yet yielded.  Proof: `for2_eq` (the flush loop pushes `takeWhile (P index)` of the pending
starts), `for1_cons_aux` (one round of `next_for1` = `stepP P` + `emitted P`, by cases on window length / start codon /
pending list empty / stop codon, every checked operation shown to succeed under the invariant `PB`: pending starts are
`≥ 2` and `< index`), `next_nil_cons` (a call of `next` with an empty queue either yields the first emitted frame or
continues with the next symbol; the never-read initial value of `offset` is irrelevant), `collect_eq` (calling `next`
until it returns `None` yields the queue followed by everything the model emits).

`TestIs T P minLen B`: the test `T` the loop calls returns `P index start_pos` on all arguments that occur.  The equality
theorem holds for **every** such pair; `lenTest_spec` shows that the test found in the source text is inside the freedom
the property leaves (`LenTestOk`).  A source change that only moves the test inside that freedom (seeded change C20-H1:
`index + 3 - start_pos >= min_len`) is re-proved; a test outside it (C20-1: `index - start_pos > min_len`) breaks
`lenTest_spec`.
-/
-- the simp sets name every fact a harmless rewrite of the Rust text may need; on the pinned text some are unused
set_option linter.unusedSimpArgs false
set_option linter.unusedVariables false

namespace RbV.Thm.GenSrcOrf
open RbV RbV.Rs RbV.Gen.SrcOrf RbV.Model.OrfScan RbV.Lemmas.OrfScanP

/-- `state.start_pos` of a model state -/
def sp3 (st : State) : List (List Nat) := [st.p0, st.p1, st.p2]

theorem idx_sp3 (st : State) (off : Nat) (h : off < 3) : Rs.idx (sp3 st) off = Res.ok (st.get off) := by
  rcases (by omega : off = 0 ∨ off = 1 ∨ off = 2) with rfl | rfl | rfl <;> simp [sp3, Rs.idx, State.get]

theorem setIdx_sp3 (st : State) (off : Nat) (l : List Nat) (h : off < 3) :
    Rs.setIdx (sp3 st) off l = Res.ok (sp3 (st.set off l)) := by
  rcases (by omega : off = 0 ∨ off = 1 ∨ off = 2) with rfl | rfl | rfl <;> simp [sp3, Rs.setIdx, State.set]

theorem sp3_with_codon (st : State) (c : List Nat) : sp3 { st with codon := c } = sp3 st := rfl
theorem sp3_with_out (st : State) (o : List (Nat × Nat × Nat)) : sp3 { st with out := o } = sp3 st := rfl

theorem sp3_set_get (st : State) (off : Nat) (h : off < 3) : sp3 (st.set off (st.get off)) = sp3 st := by
  rcases (by omega : off = 0 ∨ off = 1 ∨ off = 2) with rfl | rfl | rfl <;> simp [sp3, State.set, State.get]

theorem sp3_set_set (st : State) (off : Nat) (a b : List Nat) (h : off < 3) :
    sp3 ((st.set off a).set off b) = sp3 (st.set off b) := by
  rcases (by omega : off = 0 ∨ off = 1 ∨ off = 2) with rfl | rfl | rfl <;> simp [sp3, State.set]

theorem sp3_set_with_codon (st : State) (w : List Nat) (off : Nat) (l : List Nat) :
    sp3 (({ st with codon := w } : State).set off l) = sp3 (st.set off l) := by
  unfold State.set; split <;> (try split) <;> rfl

/-- `v.len() > 0`, `v.len() != 0`, `v.len() >= 1` are `!v.is_empty()` -/
theorem len_pos_eq {α : Type} (l : List α) : decide (l.length > 0) = !l.isEmpty := by cases l <;> simp
theorem len_ne_zero_eq {α : Type} (l : List α) : (l.length != 0) = !l.isEmpty := by cases l <;> simp
theorem len_ge_one_eq {α : Type} (l : List α) : decide (l.length ≥ 1) = !l.isEmpty := by cases l <;> simp
theorem len_eq_zero_eq {α : Type} (l : List α) : (l.length == 0) = l.isEmpty := by cases l <;> simp

/-- the test `T` the translated loop calls computes `P` wherever the loop calls it -/
def TestIs (T : Nat → Nat → Nat → Res Bool) (P : Nat → Nat → Bool) (minLen B : Nat) : Prop :=
  ∀ i s, i < B → 2 ≤ s → s ≤ i → T i s minLen = Res.ok (P i s)

theorem for2_eq (T : Nat → Nat → Nat → Res Bool) (P : Nat → Nat → Bool) (minLen B : Nat) (hT : TestIs T P minLen B)
    (n off : Nat) (hn : n < B) (hn64 : n + 1 < 2 ^ 64) (hoff : off < 3) :
    ∀ (l : List Nat) (acc : List (Nat × Nat × Nat)), (∀ s ∈ l, 2 ≤ s ∧ s ≤ n) →
      next_for2 T n minLen off l acc = Res.ok (acc ++ (l.takeWhile (P n)).map (fun s => (s - 2, n + 1, off))) := by
  intro l
  induction l with
  | nil => intro acc _; simp [next_for2]
  | cons s t ih =>
    intro acc hb
    have hs := hb s List.mem_cons_self
    have e1 : T n s minLen = Res.ok (P n s) := hT n s hn hs.1 hs.2
    have e2 : Rs.sub s 2 = Res.ok (s - 2) := Rs.sub_ok hs.1
    have e3 : Rs.add 64 n 1 = Res.ok (n + 1) := Rs.add_ok hn64
    have e4 : Rs.cast 8 off = off := by unfold Rs.cast; omega
    rw [next_for2]
    cases hp : P n s
    · simp [e1, hp]
    · simp [e1, e2, e3, e4, hp, ih (acc ++ [(s - 2, n + 1, off)]) (fun x hx => hb x (List.mem_cons_of_mem _ hx))]

theorem for1_cons_aux (T : Nat → Nat → Nat → Res Bool) (P : Nat → Nat → Bool) (starts stops : List (List Nat))
    (minLen B : Nat) (hT : TestIs T P minLen B) (h3s : ∀ c ∈ starts, c.length = 3)
    (st : State) (n c o : Nat) (items : List (Nat × Nat)) (hpb : PB n st) (hn : n < B) (hn64 : n + 1 < 2 ^ 64) :
    next_for1 T starts stops minLen ((n, c) :: items) (st.codon, o, sp3 st, []) =
      if !(emitted P starts stops st n c).isEmpty then
        Res.ok (some (emitted P starts stops st n c).head?, items,
          ((stepP P starts stops st n c).codon, (n + 1) % 3, sp3 (stepP P starts stops st n c),
            (emitted P starts stops st n c).drop 1))
      else next_for1 T starts stops minLen items
          ((stepP P starts stops st n c).codon, (n + 1) % 3, sp3 (stepP P starts stops st n c),
            emitted P starts stops st n c) := by
  have hoff : (n + 1) % 3 < 3 := Nat.mod_lt _ (by omega)
  have e1 : Rs.add 64 n 1 = Res.ok (n + 1) := Rs.add_ok hn64
  have ei : ∀ s : State, Rs.idx (sp3 s) ((n + 1) % 3) = Res.ok (s.get ((n + 1) % 3)) := fun s => idx_sp3 s _ hoff
  have es : ∀ (s : State) l, Rs.setIdx (sp3 s) ((n + 1) % 3) l = Res.ok (sp3 (s.set ((n + 1) % 3) l)) :=
    fun s l => setIdx_sp3 s _ l hoff
  have egs : ∀ (s : State) l, (s.set ((n + 1) % 3) l).get ((n + 1) % 3) = l :=
    fun s l => Lemmas.OrfScan.get_set_same s _ l hoff
  have ess : ∀ (s : State) a b, sp3 ((s.set ((n + 1) % 3) a).set ((n + 1) % 3) b) = sp3 (s.set ((n + 1) % 3) b) :=
    fun s a b => sp3_set_set s _ a b hoff
  have esg : sp3 (st.set ((n + 1) % 3) (st.get ((n + 1) % 3))) = sp3 st := sp3_set_get st _ hoff
  -- the inner loop on the pending starts of this frame
  have hpn := pendingNow_bounds h3s hpb c
  have ef : next_for2 T n minLen ((n + 1) % 3) (pendingNow starts st n c) []
      = Res.ok (((pendingNow starts st n c).takeWhile (P n)).map (fun s => (s - 2, n + 1, (n + 1) % 3))) := by
    rw [for2_eq T P minLen B hT n _ hn hn64 hoff _ [] hpn]; simp
  have hcod : (stepP P starts stops st n c).codon = window st c := stepP_codon P starts stops st n c
  rw [next_for1, hcod]
  by_cases h3 : st.codon.length ≥ 3 <;> cases hc : starts.contains (window st c) <;>
    cases he : (pendingNow starts st n c).isEmpty <;> cases hs : stops.contains (window st c)
  all_goals
    have hfl : flushes starts stops st n c = (!(pendingNow starts st n c).isEmpty && stops.contains (window st c)) := rfl
    simp only [he, hs, Bool.not_true, Bool.not_false, Bool.and_true, Bool.and_false, Bool.false_and, Bool.true_and] at hfl
    have hem : emitted P starts stops st n c = if flushes starts stops st n c then
        ((pendingNow starts st n c).takeWhile (P n)).map (fun s => (s - 2, n + 1, (n + 1) % 3)) else [] := rfl
    rw [hfl] at hem
    simp only [if_true, Bool.false_eq_true, if_false] at hem
    have hw : (if st.codon.length ≥ 3 then st.codon.drop 1 else st.codon) ++ [c] = window st c := rfl
    simp only [h3, if_true, if_false] at hw
    -- the window never holds more than three symbols: `len == 3`, `len > 2` are the same test as `len >= 3`
    have hl3 := hpb.win3
    have h3e : (st.codon.length == 3) = decide (st.codon.length ≥ 3) := by
      by_cases h : st.codon.length = 3
      · simp [h]
      · have : ¬ st.codon.length ≥ 3 := by omega
        simp [h, this]
    have h3g : decide (st.codon.length > 2) = decide (st.codon.length ≥ 3) := by
      by_cases h : st.codon.length > 2
      · have : st.codon.length ≥ 3 := by omega
        simp [h, this]
      · have : ¬ st.codon.length ≥ 3 := by omega
        simp [h, this]
    have hpn' : (if starts.contains (window st c) then st.get ((n + 1) % 3) ++ [n] else st.get ((n + 1) % 3))
        = pendingNow starts st n c := rfl
    simp only [hc, if_true, Bool.false_eq_true, if_false] at hpn'
    have esg' : starts.contains (window st c) = false →
        sp3 (st.set ((n + 1) % 3) (pendingNow starts st n c)) = sp3 st := by
      intro h; unfold pendingNow; rw [h]; simpa using esg
    have esg2 : starts.contains (window st c) = false → pendingNow starts st n c = [] →
        sp3 (st.set ((n + 1) % 3) []) = sp3 st := fun h1 h2 => h2 ▸ esg' h1
    have hne := he
    simp only [List.isEmpty_iff, List.isEmpty_eq_false_iff] at hne
    first
      | (exfalso; rw [hne] at hpn'; simp at hpn'; done)     -- a start codon was just pushed: the list is not empty
      | (rw [stepP_def, hfl]
         simp [len_pos_eq, len_ne_zero_eq, len_ge_one_eq, len_eq_zero_eq, esg', esg2, hne, sp3_set_with_codon, h3e, h3g, h3, hw, hc, hpn', he, hs, e1, ei, es, egs, ess, esg, ef, hem,
           sp3_with_out, sp3_with_codon, -List.drop_one, -List.contains_eq_mem])

/-- `enumerate()` of the rest of the sequence: (index, symbol) pairs from index `n` on -/
def enumFrom (n : Nat) : List Nat → List (Nat × Nat)
  | [] => []
  | c :: r => (n, c) :: enumFrom (n + 1) r

theorem next_pop (T : Nat → Nat → Nat → Res Bool) (starts stops : List (List Nat)) (minLen : Nat)
    (sp : List (List Nat)) (codon : List Nat) (e : Nat × Nat × Nat) (q : List (Nat × Nat × Nat))
    (items : List (Nat × Nat)) :
    next T starts stops minLen sp codon (e :: q) items = Res.ok (sp, codon, q, items, some e) := by
  simp [next]

theorem next_nil_nil (T : Nat → Nat → Nat → Res Bool) (starts stops : List (List Nat)) (minLen : Nat)
    (sp : List (List Nat)) (codon : List Nat) :
    next T starts stops minLen sp codon [] [] = Res.ok (sp, codon, [], [], none) := by
  simp [next, next_for1]

/-- the initial value of `offset` is never read -/
theorem for1_offset_irrel (T : Nat → Nat → Nat → Res Bool) (starts stops : List (List Nat)) (minLen : Nat)
    (x : Nat × Nat) (items : List (Nat × Nat)) (codon : List Nat) (o1 o2 : Nat) (sp : List (List Nat))
    (found : List (Nat × Nat × Nat)) :
    next_for1 T starts stops minLen (x :: items) (codon, o1, sp, found)
      = next_for1 T starts stops minLen (x :: items) (codon, o2, sp, found) := by
  obtain ⟨i, c⟩ := x
  rw [next_for1, next_for1]

theorem next_nil_cons (T : Nat → Nat → Nat → Res Bool) (P : Nat → Nat → Bool) (starts stops : List (List Nat))
    (minLen B : Nat) (hT : TestIs T P minLen B) (h3s : ∀ c ∈ starts, c.length = 3)
    (st : State) (n c : Nat) (items : List (Nat × Nat)) (hpb : PB n st) (hn : n < B) (hn64 : n + 1 < 2 ^ 64) :
    next T starts stops minLen (sp3 st) st.codon [] ((n, c) :: items) =
      match emitted P starts stops st n c with
      | [] => next T starts stops minLen (sp3 (stepP P starts stops st n c)) (stepP P starts stops st n c).codon [] items
      | e :: em => Res.ok (sp3 (stepP P starts stops st n c), (stepP P starts stops st n c).codon, em, items, some e) := by
  have h := for1_cons_aux T P starts stops minLen B hT h3s st n c 0 items hpb hn hn64
  cases hem : emitted P starts stops st n c with
  | nil =>
    rw [hem] at h
    simp only [List.isEmpty_nil, Bool.not_true, Bool.false_eq_true, if_false] at h
    cases items with
    | nil =>
      rw [next_for1] at h
      simp [next, h]
      simp [next_for1]
    | cons x xs =>
      rw [for1_offset_irrel T starts stops minLen x xs _ ((n + 1) % 3) 0] at h
      simp [next, h]
  | cons e em =>
    rw [hem] at h
    simp [next, h]

/-- what `Iterator::collect` does with the translated `next`: call it until it returns `None` -/
def collect (T : Nat → Nat → Nat → Res Bool) (starts stops : List (List Nat)) (minLen : Nat) :
    Nat → List (List Nat) → List Nat → List (Nat × Nat × Nat) → List (Nat × Nat) → Res (List (Nat × Nat × Nat))
  | 0, _, _, _, _ => Res.fuel
  | fuel + 1, sp, codon, found, seq => do
    let (sp, codon, found, seq, r) ← next T starts stops minLen sp codon found seq
    match r with
    | none => pure []
    | some o => do
      let rest ← collect T starts stops minLen fuel sp codon found seq
      pure (o :: rest)

theorem collect_eq (T : Nat → Nat → Nat → Res Bool) (P : Nat → Nat → Bool) (starts stops : List (List Nat))
    (minLen B : Nat) (hT : TestIs T P minLen B) (h3s : ∀ c ∈ starts, c.length = 3) (hB : B + 1 < 2 ^ 64) :
    ∀ (rest : List Nat) (st : State) (n : Nat) (q : List (Nat × Nat × Nat)) (fuel : Nat),
      PB n st → n + rest.length ≤ B → q.length + (emitsP P starts stops st n rest).length < fuel →
      collect T starts stops minLen fuel (sp3 st) st.codon q (enumFrom n rest)
        = Res.ok (q ++ emitsP P starts stops st n rest) := by
  intro rest
  induction rest with
  | nil =>
    intro st n q
    induction q with
    | nil =>
      intro fuel _ _ hf
      obtain ⟨f, rfl⟩ : ∃ f, fuel = f + 1 := ⟨fuel - 1, by omega⟩
      simp [collect, enumFrom, next_nil_nil, emitsP]
    | cons e q ihq =>
      intro fuel hpb hB' hf
      obtain ⟨f, rfl⟩ : ∃ f, fuel = f + 1 := ⟨fuel - 1, by omega⟩
      simp only [List.length_cons] at hf
      have := ihq f hpb hB' (by omega)
      simp [collect, next_pop, this]
  | cons c rest ih =>
    intro st n q
    induction q with
    | nil =>
      intro fuel hpb hB' hf
      obtain ⟨f, rfl⟩ : ∃ f, fuel = f + 1 := ⟨fuel - 1, by omega⟩
      simp only [List.length_cons] at hB'
      have hnc := next_nil_cons T P starts stops minLen B hT h3s st n c (enumFrom (n + 1) rest) hpb (by omega) (by omega)
      have hpb' := stepP_PB h3s P stops hpb c
      simp only [emitsP, List.length_append, List.length_nil, Nat.zero_add] at hf
      cases hem : emitted P starts stops st n c with
      | nil =>
        rw [hem] at hnc hf
        simp only at hnc
        have := ih (stepP P starts stops st n c) (n + 1) [] (f + 1) hpb' (by omega) (by simpa using hf)
        rw [collect] at this ⊢
        simp only [enumFrom, emitsP, hem, List.nil_append, hnc] at this ⊢
        exact this
      | cons e em =>
        rw [hem] at hnc hf
        simp only at hnc
        simp only [List.length_cons] at hf
        have := ih (stepP P starts stops st n c) (n + 1) em f hpb' (by omega) (by omega)
        simp [collect, enumFrom, emitsP, hem, hnc, this]
    | cons e q ihq =>
      intro fuel hpb hB' hf
      obtain ⟨f, rfl⟩ : ∃ f, fuel = f + 1 := ⟨fuel - 1, by omega⟩
      simp only [List.length_cons] at hf
      have := ihq f hpb hB' (by omega)
      simp [collect, next_pop, this]

/-- **`Matches::next` as written in the source, called until `None`, = the model `findAllP`** for the test `P` its flush
loop computes: on a freshly created iterator (`State::new()`, nothing read yet) over a sequence shorter than `2^64 - 1`,
with three-symbol start codons, `collect` never panics and returns exactly the model's list of frames. -/
theorem collect_findAllP (T : Nat → Nat → Nat → Res Bool) (P : Nat → Nat → Bool) (starts stops : List (List Nat))
    (minLen : Nat) (seq : List Nat) (hT : TestIs T P minLen seq.length) (h3s : ∀ c ∈ starts, c.length = 3)
    (hlen : seq.length + 1 < 2 ^ 64) (fuel : Nat) (hf : (findAllP P starts stops seq).length < fuel) :
    collect T starts stops minLen fuel [[], [], []] [] [] (enumFrom 0 seq) = Res.ok (findAllP P starts stops seq) := by
  have h := collect_eq T P starts stops minLen seq.length hT h3s hlen seq State.init 0 [] fuel init_PB (by omega)
    (by rw [← findAllP_eq_emitsP]; simpa using hf)
  rw [← findAllP_eq_emitsP] at h
  simpa [sp3, State.init] using h

/-! ## the length test found in the source text -/

/-- the length test as written in the source (`next_lenTest`, regenerated), as a total Boolean function -/
def srcTest (minLen i s : Nat) : Bool :=
  match next_lenTest i s minLen with
  | Res.ok b => b
  | _ => false

/-- on the arguments that occur (`2 ≤ s ≤ i`, `i + 3 < 2^64`) the test of the source text does not panic, accepts every
frame longer than `minLen + 2` and only frames of length at least `minLen` (frame length = `i + 3 - s`) -/
theorem lenTest_spec (minLen i s : Nat) (hi : i + 3 < 2 ^ 64) (h2 : 2 ≤ s) (hs : s ≤ i) :
    ∃ b, next_lenTest i s minLen = Res.ok b ∧ (minLen + 2 < i + 3 - s → b = true) ∧ (b = true → minLen ≤ i + 3 - s) := by
  have a1 : Rs.add 64 i 1 = Res.ok (i + 1) := Rs.add_ok (by omega)
  have a2 : Rs.add 64 i 2 = Res.ok (i + 2) := Rs.add_ok (by omega)
  have a3 : Rs.add 64 i 3 = Res.ok (i + 3) := Rs.add_ok (by omega)
  have s0 : Rs.sub i s = Res.ok (i - s) := Rs.sub_ok hs
  have s1 : Rs.sub (i + 1) s = Res.ok (i + 1 - s) := Rs.sub_ok (by omega)
  have s2 : Rs.sub (i + 2) s = Res.ok (i + 2 - s) := Rs.sub_ok (by omega)
  have s3 : Rs.sub (i + 3) s = Res.ok (i + 3 - s) := Rs.sub_ok (by omega)
  have s4 : Rs.sub s 2 = Res.ok (s - 2) := Rs.sub_ok h2
  have s5 : Rs.sub (i + 1) (s - 2) = Res.ok (i + 1 - (s - 2)) := Rs.sub_ok (by omega)
  unfold next_lenTest
  simp only [a1, a2, a3, s0, s1, s2, s3, s4, s5, Res.ok_bind, Res.pure_eq_ok, bind_pure_comp, map_pure]
  refine ⟨_, rfl, ?_, ?_⟩ <;> simp only [decide_eq_true_eq] <;> omega

theorem srcTest_is (minLen B : Nat) (hB : B + 2 < 2 ^ 64) : TestIs next_lenTest (srcTest minLen) minLen B := by
  intro i s hi h2 hs
  obtain ⟨b, hb, _⟩ := lenTest_spec minLen i s (by omega) h2 hs
  unfold srcTest; rw [hb]

theorem srcTest_ok (minLen B : Nat) (hB : B + 2 < 2 ^ 64) : LenTestOk (srcTest minLen) minLen B := by
  constructor
  · intro i s hi h2 hs hlen
    obtain ⟨b, hb, h1, _⟩ := lenTest_spec minLen i s (by omega) h2 hs
    unfold srcTest; rw [hb]; exact h1 hlen
  · intro i s hi h2 hs hp
    obtain ⟨b, hb, _, h1⟩ := lenTest_spec minLen i s (by omega) h2 hs
    unfold srcTest at hp; rw [hb] at hp; exact h1 hp

-- the refused inputs panic: a one-symbol "start codon" makes `start_pos - 2` underflow on the first flush
example : collect next_lenTest [[65]] [[65]] 0 5 [[], [], []] [] [] (enumFrom 0 [65]) = Res.panic := by decide +kernel
-- nested starts, two frames (the example of `orf_sound_complete`), through the translated `next`
example : collect next_lenTest [[65, 84, 71]] [[84, 65, 65], [84, 65, 71]] 0 9 [[], [], []] [] []
    (enumFrom 0 [65, 84, 71, 65, 84, 71, 65, 65, 65, 84, 65, 65, 71, 65, 84, 71, 84, 65, 71])
    = Res.ok [(0, 12, 0), (3, 12, 0), (13, 19, 1)] := by decide +kernel

end RbV.Thm.GenSrcOrf
