import RbV.Spec.Interval
import RbV.Ref.AvlCheck
import RbV.Model.AvlProofs
import RbV.Model.AMapProofs
import RbV.Model.IitIndex
import RbV.Model.DumpProofs
import RbV.Thm.GenSrcIit
import RbV.Thm.GenSrcAvlFind
/-!
# C07 — interval trees and the annotation map report exactly the overlapping entries; the AVL tree stays balanced

Property theorems (statements only; the proofs of the lemmas are in `RbV/Spec/Interval.lean`,
`RbV/Ref/AvlCheck.lean`, `RbV/Model/AvlProofs.lean`, `RbV/Model/IitProofs.lean`).

Layers
* oracle: `Ivl.expected stored q` (filter by half-open overlap) compared with `Ivl.sameMultiset`;
* verified checker for the shape of the *real* AVL tree read through the hook: `checkAVL`, `checkWeak`;
* mirror model of `avl_interval_tree.rs` (`RbV/Model/Avl.lean`): all insertion histories;
* mirror model of `array_backed_interval_tree.rs` (`RbV/Model/Iit.lean`): every n.
-/
namespace RbV.Thm.C07
open RbV RbV.Ivl RbV.Avl

/-! ## the oracle -/

/-- the driver's multiset comparison is exactly `List.Perm`: an answer is accepted iff it is the expected multiset -/
theorem oracle_multiset (got exp : List Entry) : sameMultiset got exp = true ↔ got.Perm exp :=
  sameMultiset_iff got exp

/-- the expected answer consists of exactly the stored entries that overlap … -/
theorem oracle_members (stored : List Entry) (q : Query) (e : Entry) :
    e ∈ expected stored q ↔ e ∈ stored ∧ Overlaps q e :=
  mem_expected stored q e

/-- … with their multiplicities: the count of any entry in the answer is its count in the store if it overlaps,
and 0 otherwise -/
theorem oracle_counts (stored : List Entry) (q : Query) (e : Entry) :
    (expected stored q).count e = if Overlaps q e then stored.count e else 0 := by
  by_cases h : Overlaps q e
  · simp only [h, if_true]
    exact List.count_filter (by simpa using h)
  · simp only [h, if_false]
    apply List.count_eq_zero.mpr
    intro hm
    exact h ((mem_expected stored q e).mp hm).2

/-- half-open overlap of positive-width intervals = a common integer point -/
theorem overlaps_common_point (q : Query) (e : Entry) (hq : q.lo < q.hi) (he : e.lo < e.hi) :
    Overlaps q e ↔ ∃ x : Int, q.lo ≤ x ∧ x < q.hi ∧ e.lo ≤ x ∧ x < e.hi :=
  overlaps_iff_common_point q e hq he

example : expected [⟨5, 9, 0⟩, ⟨5, 7, 1⟩, ⟨5, 7, 1⟩, ⟨9, 12, 2⟩] ⟨7, 9⟩ = [⟨5, 9, 0⟩] := by decide
example : sameMultiset [⟨5, 7, 1⟩, ⟨5, 9, 0⟩, ⟨5, 7, 1⟩] [⟨5, 9, 0⟩, ⟨5, 7, 1⟩, ⟨5, 7, 1⟩] = true :=
  (oracle_multiset _ _).mpr (by decide)
example : sameMultiset [⟨5, 7, 1⟩, ⟨5, 9, 0⟩] [⟨5, 9, 0⟩, ⟨5, 7, 1⟩, ⟨5, 7, 1⟩] = false := by
  rw [Bool.eq_false_iff]
  intro h
  have := ((oracle_multiset _ _).mp h).length_eq
  simp at this

/-! ## the checker applied to the real tree (hook dump) is sound -/

/-- `checkAVL t n = true` ⇒ the tree has `n` nodes, in-order starts are non-decreasing, every `max` field is the
maximum end of its subtree, every `height` field is the true height, every node is balanced -/
theorem checkAVL_sound (t : Tree) (n : Nat) (h : checkAVL t n = true) : size t = n ∧ Inv t :=
  Avl.checkAVL_sound t n h

/-- the weak check (used to classify a strict failure): `n` nodes, balanced by *true* heights, and the two
facts the pruned search relies on -/
theorem checkWeak_sound (t : Tree) (n : Nat) (h : checkWeak t n = true) : size t = n ∧ WeakInv t :=
  Avl.checkWeak_sound t n h

/-- "height-balanced, so query cost stays logarithmic": a balanced tree of height `h` has at least
`minNodes h` nodes (`minNodes (h+2) = minNodes (h+1) + minNodes h + 1`, Fibonacci growth) -/
theorem balanced_height_logarithmic (t : Tree) (h : Balanced t) : minNodes (realHeight t) ≤ size t :=
  balanced_size_ge t h

example : checkAVL (.node (.node .nil ⟨1, 9, 0⟩ 9 1 .nil) ⟨2, 3, 0⟩ 9 2 (.node .nil ⟨4, 5, 0⟩ 5 1 .nil)) 3 = true := by
  decide
/-- a stale `max` after a rotation is caught -/
example : checkAVL (.node (.node .nil ⟨1, 9, 0⟩ 9 1 .nil) ⟨2, 3, 0⟩ 3 2 (.node .nil ⟨4, 5, 0⟩ 5 1 .nil)) 3 = false := by
  decide

/-- the driver's `rebuild` inverts the hook's pre-order dump format: the tree that `checkAVL` is applied to is the
tree that was dumped (payload data is not dumped) … -/
theorem dump_rebuild (t : Tree) (h : t ≠ .nil) :
    Drv.C07.rebuild ((Drv.C07.toDNodes t 0).length + 1) 0 (Drv.C07.toDNodes t 0) = some (Drv.C07.eraseData t, []) := by
  have hlen : ∀ (t : Tree) (d : Nat), (Drv.C07.toDNodes t d).length = size t := by
    intro t
    induction t with
    | nil => intro d; rfl
    | node l e mx hh r ihl ihr =>
      intro d; rw [Drv.C07.toDNodes_node]; simp [size, ihl, ihr]; omega
  have := Drv.C07.rebuild_dump t 0 [] ((Drv.C07.toDNodes t 0).length + 1) h (by rw [hlen]; omega)
  simpa using this

/-- … and the check does not depend on the payload data -/
theorem check_ignores_data (t : Tree) (n : Nat) : checkAVL (Drv.C07.eraseData t) n = checkAVL t n :=
  Drv.C07.checkAVL_eraseData t n

/-! ## mirror model of the AVL tree: every insertion history -/

/-- the stored multiset grows by exactly the inserted entry -/
theorem insert_perm (t : Tree) (e : Entry) : (toList (insert t e)).Perm (e :: toList t) :=
  toList_insert_perm t e

/-- in-order starts stay non-decreasing (equal starts go left) -/
theorem insert_sorted (t : Tree) (e : Entry) (h : Sorted t) : Sorted (insert t e) :=
  Avl.insert_sorted t e h

/-- the whole invariant — sorted, `max` = maximum end of the subtree at every node, `height` exact at every
node, |h_left − h_right| ≤ 1 at every node — is preserved by `insert` with all four rotation cases -/
theorem insert_inv (t : Tree) (e : Entry) (h : Inv t) : Inv (insert t e) :=
  Avl.insert_inv t e h

/-- the height grows by at most one per insertion -/
theorem insert_height (t : Tree) (e : Entry) (h : Inv t) :
    realHeight t ≤ realHeight (insert t e) ∧ realHeight (insert t e) ≤ realHeight t + 1 := by
  have g := ((inv_iff t).mp h).2
  have gi := insert_good t e g
  rw [← ht_eq_realHeight t g.1, ← ht_eq_realHeight _ gi.1.1]
  exact gi.2

/-- the `unwrap()` / `expect("Invalid tree: leaf is taller than its sibling.")` panics in `repair` and the
rotations are unreachable (`insertP` is `insert` with those panics explicit as `none`) -/
theorem insert_no_panic (t : Tree) (e : Entry) (h : Inv t) : insertP t e = some (insert t e) :=
  insertP_eq_some t e ((inv_iff t).mp h).2

/-- the pruned stack search (`IntervalTreeIterator::next` run to exhaustion) returns exactly the overlapping
entries — already under the weak invariant -/
theorem find_correct_weak (t : Tree) (q : Query) (hs : SearchInv t) (hp : PosW t) (hq : q.lo < q.hi) :
    (find t q).Perm (expected (toList t) q) :=
  find_perm t q hs hp hq

theorem find_correct (t : Tree) (q : Query) (hi : Inv t) (hp : PosW t) (hq : q.lo < q.hi) :
    (find t q).Perm (expected (toList t) q) :=
  find_perm t q hi.searchInv hp hq

/-- all histories of insertions and `find_mut` mutations, starting from the empty tree: the invariant holds at
the end, the tree holds exactly the specified multiset, and a query returns exactly the overlapping entries of
the *specified* store (so mutations made through the mutable iterator are seen by later queries) -/
theorem history_correct (ops : List HOp) (hw : ∀ o ∈ ops, o.wf) (q : Query) (hq : q.lo < q.hi) :
    Inv (runModel ops .nil) ∧ (toList (runModel ops .nil)).Perm (runSpec ops []) ∧
      (find (runModel ops .nil) q).Perm (expected (runSpec ops []) q) := by
  obtain ⟨hi, hp, hperm⟩ := run_correct ops .nil [] hw inv_nil (by intro a ha; simp [toList] at ha)
    (by simp [toList])
  refine ⟨hi, hperm, (find_perm _ q hi.searchInv hp hq).trans ?_⟩
  exact hperm.filter _

/-- in particular after every insertion history the tree is balanced and its height is logarithmic -/
theorem history_balanced (ops : List HOp) (hw : ∀ o ∈ ops, o.wf) :
    minNodes (realHeight (runModel ops .nil)) ≤ size (runModel ops .nil) :=
  balanced_size_ge _ (history_correct ops hw ⟨0, 1⟩ (by decide)).1.balanced

/-- non-vacuity: ascending insertions (rotate-left at the root), a mutation, an insertion with an equal start;
the hypotheses of `history_correct` are satisfied and the model computes the expected answer -/
example :
    let ops := [HOp.ins ⟨1, 9, 0⟩, .ins ⟨2, 3, 1⟩, .ins ⟨3, 4, 2⟩, .bump ⟨8, 9⟩ 10, .ins ⟨3, 8, 3⟩]
    Inv (runModel ops .nil) ∧ (find (runModel ops .nil) ⟨7, 9⟩).Perm [⟨3, 8, 3⟩, ⟨1, 9, 10⟩] := by
  intro ops
  have hw : ∀ o ∈ ops, o.wf := by
    intro o ho
    simp only [ops, List.mem_cons, List.not_mem_nil, or_false] at ho
    rcases ho with rfl | rfl | rfl | rfl | rfl <;> simp [HOp.wf]
  have h := history_correct ops hw ⟨7, 9⟩ (by decide)
  refine ⟨h.1, h.2.2.trans ?_⟩
  have : expected (runSpec ops []) ⟨7, 9⟩ = [⟨3, 8, 3⟩, ⟨1, 9, 10⟩] := by decide
  rw [this]

example : ht (runModel [HOp.ins ⟨1, 9, 0⟩, .ins ⟨2, 3, 1⟩, .ins ⟨3, 4, 2⟩, .ins ⟨3, 8, 3⟩] .nil) = 3 := by decide

/-! ## `AnnotMap`: one tree per reference id -/

/-- `AnnotMap::find` = the overlap filter on the entries stored under the queried reference id (nothing for an
absent id) -/
theorem amap_find_correct (m : AMap) (r : Nat) (q : Query) (hw : m.WF) (hq : q.lo < q.hi) :
    (m.find r q).Perm (expected (m.storedAt r) q) :=
  AMap.find_perm m r q hw hq

/-- `insert_at` keeps the map well-formed and adds the entry under its id only -/
theorem amap_insert (m : AMap) (r : Nat) (e : Entry) (hw : m.WF) (he : e.lo < e.hi) (r' : Nat) :
    (m.insertAt r e).WF ∧ ((m.insertAt r e).storedAt r').Perm ((if r = r' then [e] else []) ++ m.storedAt r') :=
  ⟨AMap.wf_insertAt m r e hw he, AMap.storedAt_insertAt m r e r'⟩

/-- non-vacuity of `amap_find_correct`: a well-formed two-id map built with `amap_insert` -/
example : ((AMap.insertAt (AMap.insertAt [] 1 ⟨2, 5, 7⟩) 0 ⟨2, 5, 8⟩).find 1 ⟨4, 6⟩).Perm [⟨2, 5, 7⟩] := by
  have w0 : AMap.WF [] := ⟨by simp, by intro p hp; simp at hp⟩
  have w1 := (amap_insert [] 1 ⟨2, 5, 7⟩ w0 (by decide) 0).1
  have w2 := (amap_insert _ 0 ⟨2, 5, 8⟩ w1 (by decide) 0).1
  exact (amap_find_correct _ 1 ⟨4, 6⟩ w2 (by decide)).trans (by decide)

example : AMap.storedAt (AMap.insertAt (AMap.insertAt (AMap.insertAt [] 1 ⟨2, 5, 7⟩) 0 ⟨2, 5, 8⟩) 1 ⟨4, 6, 9⟩) 1
    = [⟨2, 5, 7⟩, ⟨4, 6, 9⟩] := by decide

/-! ## mirror model of the array-backed tree: every n, every history of `insert` / `index` -/

open RbV.Iit in
/-- the explicit-stack search of `find_into` on a start-sorted array whose `max` fields bound the in-range part
of every implicit subtree returns exactly the overlapping entries, in index order — for every `n`, power of two
or not -/
theorem iit_find_correct (a : List Cell) (K : Nat) (q : Query) (hs : SortedC a) (hm : MaxUB a)
    (hK : a.length < 2 ^ (K + 1)) :
    findLoop a a.length q [⟨K, (1 <<< K) - 1, false⟩] = expected (a.map (·.e)) q :=
  find_eq a K q hs hm hK

open RbV.Iit in
/-- `index_core` (level-by-level `max` with the imaginary right spine tracked by `last_i`/`last_value`)
establishes exactly those hypotheses, for every `n` and whatever the `max` fields held before; it changes no
entry -/
theorem iit_index_establishes (a : List Cell) (ml : Nat) (hs : SortedC a) :
    (indexCore a ml).1.map (·.e) = a.map (·.e) ∧ SortedC (indexCore a ml).1 ∧ MaxUB (indexCore a ml).1 ∧
      (indexCore a ml).1.length < 2 ^ ((indexCore a ml).2 + 1) :=
  indexCore_spec a ml hs

open RbV.Iit in
/-- every history of `insert` and `index` from the empty tree: a query is refused (`none`) iff the tree is not
indexed at that point (i.e. something was inserted after the last `index`, or `index` was never called), and
otherwise returns exactly the multiset of inserted entries that overlap — after the first indexing and again
after further inserts and re-indexing -/
theorem iit_history_correct (ops : List AOp) (q : Query) :
    ∃ stored, stored.Perm (insertedOf ops) ∧
      (runArr ops {}).find q = if endsIndexed ops false then some (expected stored q) else none := by
  obtain ⟨hw, hp, hi⟩ := runArr_spec ops {} wf_empty
  refine ⟨(runArr ops {}).stored, by simpa [State.stored] using hp, ?_⟩
  rw [find_spec _ q hw, hi]

open RbV.Iit in
/-- … in particular the answer is a permutation of the expected answer over the inserted entries -/
theorem iit_history_perm (ops : List AOp) (q : Query) (l : List Entry) (h : (runArr ops {}).find q = some l) :
    l.Perm (expected (insertedOf ops) q) := by
  obtain ⟨stored, hp, hf⟩ := iit_history_correct ops q
  rw [hf] at h
  split at h
  · cases h; exact hp.filter _
  · cases h

open RbV.Iit in
/-- non-vacuity: the hypotheses of `iit_find_correct` are met by what `iit_index_establishes` delivers on a concrete
array of 5 cells (n not a power of two, stale `max` fields, the farthest-reaching interval last) -/
example :
    let a0 : List Cell := [⟨⟨0, 2, 0⟩, 0⟩, ⟨⟨1, 3, 1⟩, 99⟩, ⟨⟨2, 3, 2⟩, 0⟩, ⟨⟨2, 4, 3⟩, -5⟩, ⟨⟨3, 50, 4⟩, 0⟩]
    let r := indexCore a0 0
    findLoop r.1 r.1.length ⟨49, 50⟩ [⟨r.2, (1 <<< r.2) - 1, false⟩] = [⟨3, 50, 4⟩] := by
  intro a0 r
  have hs : SortedC a0 := by unfold SortedC; decide
  obtain ⟨h1, h2, h3, h4⟩ := iit_index_establishes a0 0 hs
  rw [iit_find_correct r.1 r.2 ⟨49, 50⟩ h2 h3 h4, h1]
  decide

open RbV.Iit in
example : endsIndexed [AOp.ins ⟨1, 2, 0⟩, .index, .ins ⟨0, 9, 1⟩] false = false ∧
    endsIndexed [AOp.ins ⟨1, 2, 0⟩, .index, .ins ⟨0, 9, 1⟩, .index] false = true := by decide

/-! ## The source text of `index_core` (translated on every run, `Gen/SrcIit.lean`)

`tools/rs2lean.py` translates `ArrayBackedIntervalTree::index_core` (the `for_each` over the even cells, the
`while (1 << k) <= n` loop with its inner `step_by` loop, `last_i` / `last_value`); `N` is read at `Int`, an
`InternalEntry` is the tuple `(data, (start, end), max)`, `GenSrcIit.cells` maps a vector of them to the model's cells. -/

open RbV.Iit in
/-- **`index_core` as written in the source = the mirror model**: for fewer than `2^62` entries the translated function
never panics (no index out of range, no shift or addition overflows, the `while` loop ends within its fuel) and computes
exactly the model's cells and `max_level` -/
theorem iit_index_source_eq_model (es : List GenSrcIit.RCell) (ml : Nat) (hn : es.length < 2 ^ 62) :
    ∃ es', Gen.SrcIit.indexCore Iit.max3 es ml = Rs.Res.ok (es', (indexCore (GenSrcIit.cells es) ml).2) ∧
      GenSrcIit.cells es' = (indexCore (GenSrcIit.cells es) ml).1 :=
  GenSrcIit.indexCore_eq_model es ml hn

open RbV.Iit in
/-- … hence the *translated* `index_core`, run on entries sorted by start, leaves every entry in place and establishes
what the search needs (`iit_find_correct`): sortedness, `max` = an upper bound of the ends in every implicit subtree,
`n < 2^(max_level+1)` — for every `n < 2^62`, power of two or not -/
theorem iit_index_source_establishes (es : List GenSrcIit.RCell) (ml : Nat) (hn : es.length < 2 ^ 62)
    (hs : SortedC (GenSrcIit.cells es)) :
    ∃ es' ml', Gen.SrcIit.indexCore Iit.max3 es ml = Rs.Res.ok (es', ml') ∧
      (GenSrcIit.cells es').map (·.e) = (GenSrcIit.cells es).map (·.e) ∧ SortedC (GenSrcIit.cells es') ∧
      MaxUB (GenSrcIit.cells es') ∧ es'.length < 2 ^ (ml' + 1) := by
  obtain ⟨es', h1, h2⟩ := iit_index_source_eq_model es ml hn
  obtain ⟨g1, g2, g3, g4⟩ := iit_index_establishes (GenSrcIit.cells es) ml hs
  refine ⟨es', _, h1, ?_, ?_, ?_, ?_⟩
  · rw [h2]; exact g1
  · rw [h2]; exact g2
  · rw [h2]; exact g3
  · have : es'.length = (GenSrcIit.cells es').length := (GenSrcIit.length_cells es').symm
    rw [this, h2]; exact g4

open RbV.Iit in
/-- **`find_into` as written in the source = the mirror model's search** (`iit_find_source_eq_model`): on an indexed tree
with `max_level ≤ 61` the translated function never panics (the 64-slot stack never overflows, no index is out of range,
no shift or addition overflows, the fuel of the `while t > 0` loop suffices), clears the buffer it is given and fills it
with exactly what the model's `findLoop` returns, in the same order; on an un-indexed tree it panics -/
theorem iit_find_source_eq_model (es : List GenSrcIit.RCell) (K : Nat) (hK : K ≤ 61) (q : Query)
    (res0 : List GenSrcIit.REntry) :
    (∃ R, Gen.SrcIit.findInto Iit.max3 es K true (q.lo, q.hi) res0 = Rs.Res.ok R ∧
      R.map GenSrcIit.toEntry = findLoop (GenSrcIit.cells es) es.length q [⟨K, (1 <<< K) - 1, false⟩]) ∧
    Gen.SrcIit.findInto Iit.max3 es K false (q.lo, q.hi) res0 = Rs.Res.panic :=
  ⟨GenSrcIit.findInto_eq_model es K hK q res0, GenSrcIit.findInto_not_indexed es K _ res0⟩

open RbV.Iit in
/-- **The translated pair answers exactly the overlapping entries, for every n**: run the *translated* `index_core` on
entries sorted by start (what `index()` hands it after `sort_by_key`), then the *translated* `find_into` with any query and
any (dirty) result buffer: neither panics, and the buffer ends up holding exactly the stored entries that overlap the
query, in index order — fewer than `2^62` entries, `max_level ≤ 61` before (0 for a new tree) -/
theorem iit_source_pair_answers_overlaps (es : List GenSrcIit.RCell) (ml : Nat) (hml : ml ≤ 61) (hn : es.length < 2 ^ 62)
    (hs : SortedC (GenSrcIit.cells es)) (q : Query) (res0 : List GenSrcIit.REntry) :
    ∃ es' ml' R, Gen.SrcIit.indexCore Iit.max3 es ml = Rs.Res.ok (es', ml') ∧
      Gen.SrcIit.findInto Iit.max3 es' ml' true (q.lo, q.hi) res0 = Rs.Res.ok R ∧
      R.map GenSrcIit.toEntry = expected ((GenSrcIit.cells es).map (·.e)) q := by
  obtain ⟨es', h1, h2⟩ := iit_index_source_eq_model es ml hn
  obtain ⟨g1, g2, g3, g4⟩ := iit_index_establishes (GenSrcIit.cells es) ml hs
  have hlev := GenSrcIit.indexCore_level_le (GenSrcIit.cells es) ml hml (by rw [GenSrcIit.length_cells]; exact hn)
  obtain ⟨R, r1, r2⟩ := GenSrcIit.findInto_eq_model es' _ hlev q res0
  refine ⟨es', _, R, h1, r1, ?_⟩
  rw [r2, ← GenSrcIit.length_cells es', h2, iit_find_correct _ _ q g2 g3 g4, g1]

open RbV.Iit in
/-- **`index` + `find_into` as written in the source answer every query with exactly the stored entries that overlap
it** (as a multiset): for any sort satisfying `SortContract` (a permutation sorted by start — the trusted meaning of
`sort_by_key(|e| e.interval.start)`), entries in any insertion order, fewer than `2^62` of them, any query and any dirty
result buffer, the translated `index` sets the `indexed` flag without panicking and the translated `find_into` then fills
the buffer with a permutation of `expected stored q`; a second `index` is a no-op -/
theorem iit_source_index_find_answers (srt : List GenSrcIit.RCell → List GenSrcIit.RCell)
    (hsrt : GenSrcIit.SortContract srt) (es : List GenSrcIit.RCell) (ml : Nat) (hml : ml ≤ 61)
    (hn : es.length < 2 ^ 62) (q : Query) (res0 : List GenSrcIit.REntry) :
    ∃ es' ml' R, Gen.SrcIit.index Iit.max3 srt es ml false = Rs.Res.ok (es', ml', true) ∧
      Gen.SrcIit.index Iit.max3 srt es' ml' true = Rs.Res.ok (es', ml', true) ∧
      Gen.SrcIit.findInto Iit.max3 es' ml' true (q.lo, q.hi) res0 = Rs.Res.ok R ∧
      (R.map GenSrcIit.toEntry).Perm (expected ((GenSrcIit.cells es).map (·.e)) q) := by
  have hl : (srt es).length < 2 ^ 62 := by rw [(hsrt es).1.length_eq]; exact hn
  obtain ⟨es', h1, h2⟩ := GenSrcIit.index_eq_model srt hsrt es ml hn
  obtain ⟨g1, g2, g3, g4⟩ := iit_index_establishes (GenSrcIit.cells (srt es)) ml (hsrt es).2
  have hlev := GenSrcIit.indexCore_level_le (GenSrcIit.cells (srt es)) ml hml (by rw [GenSrcIit.length_cells]; exact hl)
  obtain ⟨R, r1, r2⟩ := GenSrcIit.findInto_eq_model es' _ hlev q res0
  refine ⟨es', _, R, h1, GenSrcIit.index_indexed srt es' _, r1, ?_⟩
  rw [r2, ← GenSrcIit.length_cells es', h2, iit_find_correct _ _ q g2 g3 g4, g1]
  unfold expected
  exact (((hsrt es).1.map GenSrcIit.toCell).map (·.e)).filter _

-- the translated `index_core` on five cells (n not a power of two, stale `max` fields): new `max` fields and level
example : Gen.SrcIit.indexCore Iit.max3
    [((0 : Int), ((0 : Int), (2 : Int)), (0 : Int)), (1, (1, 3), 99), (2, (2, 3), 0), (3, (2, 4), -5), (4, (3, 50), 0)] 0
    = Rs.Res.ok ([(0, (0, 2), 2), (1, (1, 3), 3), (2, (2, 3), 3), (3, (2, 4), 50), (4, (3, 50), 50)], 2) := by
  decide +kernel

-- … and the translated `find_into` on the result, with a dirty buffer: the query [49, 50) meets only the last entry
example : Gen.SrcIit.findInto Iit.max3
    [((0 : Int), ((0 : Int), (2 : Int)), (2 : Int)), (1, (1, 3), 3), (2, (2, 3), 3), (3, (2, 4), 50), (4, (3, 50), 50)] 2 true
    (49, 50) [((7, 8), 9)] = Rs.Res.ok [((3, 50), 4)] := by decide +kernel
example : Gen.SrcIit.findInto Iit.max3
    [((0 : Int), ((0 : Int), (2 : Int)), (2 : Int)), (1, (1, 3), 3), (2, (2, 3), 3), (3, (2, 4), 50), (4, (3, 50), 50)] 2 true
    (2, 3) [] = Rs.Res.ok [((1, 3), 1), ((2, 3), 2), ((2, 4), 3)] := by decide +kernel

/-! ## The source text of the AVL tree (translated on every run, `Gen/SrcAvl.lean`; builder genavl)

`tools/rs2lean_genavl.py` (dialect "avl") turns `struct Node` into a recursive Lean structure and translates
`Node::{new, update_height, update_max, rotate_left, rotate_right, repair, insert}`, `swap_interval_data`,
`IntervalTree::{default, insert, find, find_mut}`, `intersect` and both `next` functions.  `GenSrcAvl.toTree` reads a
translated node as a tree of the mirror model.  `N`, `D` are read at `Int`; heights are `i64` with checked arithmetic. -/

open RbV.GenSrcAvl in
/-- **the in-place rotations of the source = the model's pointer rotations**, on the abstract tree (same shape, same
payload, `max` and `height` at every position): with stored heights of the three re-hung subtrees in `[0, B]`,
`B + 2 < 2^63`, `rotate_left` / `rotate_right` do not panic and yield `Avl.rotateLeft` / `Avl.rotateRight` of the tree;
without the child that moves up they panic (`unwrap()` on `None`; the model's `rotateLeftP` / `rotateRightP` is `none`) -/
theorem avl_rotate_source_eq_model (n : Gen.SrcAvl.Node) (B : Int) (hB : B + 2 < 2 ^ 63) (hl : HR B n.left)
    (hr : HR B n.right) (hrc : ∀ r, n.right = some r → HR B r.left ∧ HR B r.right)
    (hlc : ∀ l, n.left = some l → HR B l.left ∧ HR B l.right) :
    (match rotateLeftP (toTree n) with
      | some t => ∃ n', Gen.SrcAvl.rotateLeft n = Rs.Res.ok n' ∧ toTree n' = t ∧ t = rotateLeft (toTree n)
      | none => Gen.SrcAvl.rotateLeft n = Rs.Res.panic) ∧
    (match rotateRightP (toTree n) with
      | some t => ∃ n', Gen.SrcAvl.rotateRight n = Rs.Res.ok n' ∧ toTree n' = t ∧ t = rotateRight (toTree n)
      | none => Gen.SrcAvl.rotateRight n = Rs.Res.panic) :=
  ⟨rotateLeft_eq_model n B hB hl hrc, rotateRight_eq_model n B hB hr hlc⟩

open RbV.GenSrcAvl in
/-- **`repair` as written in the source = the model's `repair`**: on a node whose subtrees have exact `max` / `height`
fields and fewer than `2^60` nodes, the translated `repair` (balance test on `(left_h - right_h).abs()`, inner rotation
of the zig-zag cases through the `&mut` borrowed from the child slot, outer rotation) never panics — no `expect` on a
missing child, no `i64` overflow — and returns exactly `Avl.repair` of the tree -/
theorem avl_repair_source_eq_model (n : Gen.SrcAvl.Node) (fl : Fields (toTreeO n.left)) (fr : Fields (toTreeO n.right))
    (hs : size (toTree n) < 2 ^ 60) :
    ∃ n', Gen.SrcAvl.repair n = Rs.Res.ok n' ∧ toTree n' = repair (toTree n) :=
  repair_eq_model n fl fr hs

open RbV.GenSrcAvl in
/-- **`Node::insert` as written in the source = the model's insertion, for every tie-break test**: the condition of the
first `if` of `insert` is a hole `goLeft`; whenever it computes a tie-break `tb` of the model (`HoleIs`), the recursive
translated `insert` — on a tree with exact fields and balance, fewer than `2^60 - 1` nodes, fuel at least the height —
neither panics nor runs out of fuel and returns `Avl.insertG tb` of the tree -/
theorem avl_insert_source_eq_model (goLeft : (Int × Int) → Gen.SrcAvl.Node → Bool) (tb : TieBreak)
    (hh : HoleIs goLeft tb) (fuel : Nat) (n : Gen.SrcAvl.Node) (iv : Int × Int) (d : Int) (g : Good (toTree n))
    (hs : size (toTree n) + 1 < 2 ^ 60) (hf : ht (toTree n) ≤ fuel) :
    ∃ n', Gen.SrcAvl.nodeInsert goLeft fuel n iv d = Rs.Res.ok n' ∧
      toTree n' = insertG tb (toTree n) ⟨iv.1, iv.2, d⟩ :=
  nodeInsert_eq_model goLeft tb hh fuel n iv d g hs hf

open RbV.GenSrcAvl in
/-- the test found in the source is a tie-break of the model and is admissible: an interval that goes left does not start
after the visited node, one that goes right does not start before it (`TieOk`).  Holds for the pinned `<=` and for the
`<` of seeded change C07-H1; a test that sends smaller starts right does not satisfy it -/
theorem avl_tiebreak_source_admissible : HoleIs Gen.SrcAvl.nodeInsert_goLeft srcTb ∧ TieOk srcTb :=
  ⟨holeIs_src, tieOk_src⟩

/-- the mirror model with **any admissible tie-break** keeps the whole invariant, the multiset and the height bound —
the proofs of `insert_inv`, `insert_perm`, `insert_height` do not depend on where equal starts go -/
theorem avl_model_any_tiebreak_accepted (tb : TieBreak) (htb : TieOk tb) (t : Tree) (e : Entry) (h : Inv t) :
    Inv (insertG tb t e) ∧ (toList (insertG tb t e)).Perm (e :: toList t) ∧
      realHeight t ≤ realHeight (insertG tb t e) ∧ realHeight (insertG tb t e) ≤ realHeight t + 1 := by
  have g := ((inv_iff t).mp h).2
  have gi := insertG_good tb t e g
  refine ⟨insertG_inv tb htb t e h, toList_insertG_perm tb t e, ?_⟩
  rw [← ht_eq_realHeight t g.1, ← ht_eq_realHeight _ gi.1.1]
  exact gi.2

/-- with a test that behaves like the pinned one (`start <= node.start`) the generalised model is the mirror model the
driver runs next to the real tree -/
theorem avl_model_pinned_tiebreak_is_insert (tb : TieBreak) (h : ∀ e x, tb e x = decide (e.lo ≤ x.lo)) (t : Tree)
    (e : Entry) : insertG tb t e = insert t e := by
  have : tb = tbLe := by funext a b; exact h a b
  rw [this, insertG_le]

open RbV.GenSrcAvl in
/-- **`IntervalTree::insert` as written in the source preserves the invariants**: on a tree that satisfies `Inv` (order,
`max`, `height`, balance) with fewer than `2^60 - 1` nodes and fuel at least the node count, the translated `insert`
with the tie-break found in the source does not panic, the new tree satisfies `Inv` again, holds exactly the old
entries plus the new one, and is at most one level higher -/
theorem avl_insert_source_preserves_invariants (fuel : Nat) (T : Gen.SrcAvl.IntervalTree) (iv : Int × Int) (d : Int)
    (h : Inv (toTreeO T.root)) (hs : size (toTreeO T.root) + 1 < 2 ^ 60) (hf : size (toTreeO T.root) ≤ fuel) :
    ∃ T', Gen.SrcAvl.treeInsert Gen.SrcAvl.nodeInsert_goLeft fuel T iv d = Rs.Res.ok T' ∧ Inv (toTreeO T'.root) ∧
      (toList (toTreeO T'.root)).Perm (⟨iv.1, iv.2, d⟩ :: toList (toTreeO T.root)) ∧
      realHeight (toTreeO T.root) ≤ realHeight (toTreeO T'.root) ∧
      realHeight (toTreeO T'.root) ≤ realHeight (toTreeO T.root) + 1 := by
  obtain ⟨T', h1, h2⟩ := treeInsert_eq_model _ srcTb holeIs_src fuel T iv d ((inv_iff _).mp h).2 hs hf
  refine ⟨T', h1, ?_⟩
  rw [h2]
  exact avl_model_any_tiebreak_accepted srcTb tieOk_src _ _ h

open RbV.GenSrcAvl in
/-- **`find` + `IntervalTreeIterator::next` as written in the source = the model's `find`** (`avl_find_source_eq_model`):
for any tree and `fuel > 2·nodes + 1` the iterator built by the translated `find` and drained by calling the translated
`next` until `None` never panics or runs out of fuel and yields exactly the model's result list, in the model's order;
the same for `find_mut` + `IntervalTreeIteratorMut::next` -/
theorem avl_find_source_eq_model (F : Nat) (T : Gen.SrcAvl.IntervalTree) (iv : Int × Int)
    (hF : 2 * size (toTreeO T.root) + 1 < F) :
    (∃ res, srcFind F T iv = Rs.Res.ok res ∧ res.map toE = find (toTreeO T.root) ⟨iv.1, iv.2⟩) ∧
    (∃ res, srcFindMut F T iv = Rs.Res.ok res ∧ res.map toEM = find (toTreeO T.root) ⟨iv.1, iv.2⟩) :=
  ⟨find_eq_model F T iv hF, findMut_eq_model F T iv hF⟩

open RbV.GenSrcAvl in
/-- one call of either `next` from any stack: `None` exactly when the model has nothing more to report, otherwise the
model's next entry and the stack from which the model continues -/
theorem avl_next_source_eq_model (iv : Int × Int) (F : Nat) (ns : List Gen.SrcAvl.Node) (hw : W ns < F) :
    (∃ r ns', Gen.SrcAvl.iterNext F ⟨ns, iv⟩ = Rs.Res.ok (r, ⟨ns', iv⟩) ∧ W ns' ≤ W ns ∧
      ((r = none ∧ findLoop (qOf iv) (stackOf ns) = []) ∨
        ∃ c, r = some ⟨c.value, c.interval⟩ ∧
          findLoop (qOf iv) (stackOf ns) = entryOf c :: findLoop (qOf iv) (stackOf ns'))) ∧
    (∃ r ns', Gen.SrcAvl.iterMutNext F ⟨ns, iv⟩ = Rs.Res.ok (r, ⟨ns', iv⟩) ∧ W ns' ≤ W ns ∧
      ((r = none ∧ findLoop (qOf iv) (stackOf ns) = []) ∨
        ∃ c, r = some ⟨c.value, c.interval⟩ ∧
          findLoop (qOf iv) (stackOf ns) = entryOf c :: findLoop (qOf iv) (stackOf ns'))) :=
  ⟨iterNext_eq_model iv F ns hw, iterMutNext_eq_model iv F ns hw⟩

open RbV.GenSrcAvl in
/-- **End to end on the source text** (`avl_find_source_correct`): take any history of fewer than `2^60` positive-width
insertions, run it through the translated `IntervalTree::default` and `insert` (tie-break as in the source), then query
with any positive-width interval through the translated `find` + `next`: nothing panics, the fuel (`2·n + 2`) suffices,
the tree satisfies the whole invariant, and the drained iterator holds exactly the inserted entries that overlap the
query (as a multiset) -/
theorem avl_find_source_correct (es : List (Int × Int × Int)) (q : Int × Int) (hn : es.length < 2 ^ 60)
    (hw : ∀ p ∈ es, p.1 < p.2.1) (hq : q.1 < q.2) (F : Nat) (hF : 2 * es.length + 1 < F) :
    ∃ T res, (Gen.SrcAvl.treeDefault >>= srcBuild Gen.SrcAvl.nodeInsert_goLeft F es) = Rs.Res.ok T ∧
      Inv (toTreeO T.root) ∧ srcFind F T q = Rs.Res.ok res ∧
      (res.map toE).Perm (expected (entriesOf es) ⟨q.1, q.2⟩) := by
  obtain ⟨T, h1, h2⟩ := srcBuild_default F es hn (by omega)
  have hwf : ∀ e ∈ entriesOf es, e.lo < e.hi := by
    intro e he
    simp only [entriesOf, List.mem_map] at he
    obtain ⟨p, hp, rfl⟩ := he
    exact hw p hp
  obtain ⟨hi, hp, hperm⟩ := buildG_correct srcTb tieOk_src (entriesOf es) .nil hwf inv_nil
    (by intro a ha; simp [toList] at ha)
  have hsz : size (toTreeO T.root) = es.length := by
    rw [h2]; unfold buildG; rw [size_buildG]; simp [size, entriesOf]
  obtain ⟨res, r1, r2⟩ := find_eq_model F T q (by omega)
  refine ⟨T, res, h1, by rw [h2]; exact hi, r1, ?_⟩
  rw [r2, h2]
  refine (find_perm _ ⟨q.1, q.2⟩ hi.searchInv hp hq).trans ?_
  have : (toList (buildG srcTb (entriesOf es))).Perm (entriesOf es) := by
    refine hperm.trans ?_
    simp only [toList, List.append_nil]
    exact List.reverse_perm _
  exact this.filter _

open RbV.GenSrcAvl in
/-- the same through `find_mut` + `IntervalTreeIteratorMut::next` -/
theorem avl_find_mut_source_correct (es : List (Int × Int × Int)) (q : Int × Int) (hn : es.length < 2 ^ 60)
    (hw : ∀ p ∈ es, p.1 < p.2.1) (hq : q.1 < q.2) (F : Nat) (hF : 2 * es.length + 1 < F) :
    ∃ T res, (Gen.SrcAvl.treeDefault >>= srcBuild Gen.SrcAvl.nodeInsert_goLeft F es) = Rs.Res.ok T ∧
      srcFindMut F T q = Rs.Res.ok res ∧ (res.map toEM).Perm (expected (entriesOf es) ⟨q.1, q.2⟩) := by
  obtain ⟨T, res, h1, hi, r1, hp⟩ := avl_find_source_correct es q hn hw hq F hF
  have hsz : size (toTreeO T.root) = es.length := by
    obtain ⟨T', h1', h2'⟩ := srcBuild_default F es hn (by omega)
    rw [h1] at h1'
    cases h1'
    rw [h2']; unfold buildG; rw [size_buildG]; simp [size, entriesOf]
  obtain ⟨res', m1, m2⟩ := findMut_eq_model F T q (by omega)
  obtain ⟨res0, f1, f2⟩ := find_eq_model F T q (by omega)
  rw [r1] at f1
  cases f1
  refine ⟨T, res', h1, m1, ?_⟩
  rw [m2, ← f2]
  exact hp

open RbV.GenSrcAvl in
-- non-vacuity: the translated code run on a concrete history (ascending starts: a left rotation at the root; then an
-- equal start) gives the tree of the model, and the drained translated iterator the model's answer
example : ((Gen.SrcAvl.treeDefault >>= srcBuild Gen.SrcAvl.nodeInsert_goLeft 9 [(1, 9, 0), (2, 3, 1), (3, 4, 2), (3, 8, 3)]).toOption.map
    (fun T => toTreeO T.root)) = some (buildG srcTb [⟨1, 9, 0⟩, ⟨2, 3, 1⟩, ⟨3, 4, 2⟩, ⟨3, 8, 3⟩]) := by decide +kernel

open RbV.GenSrcAvl in
example : ((Gen.SrcAvl.treeDefault >>= srcBuild Gen.SrcAvl.nodeInsert_goLeft 9 [(1, 9, 0), (2, 3, 1), (3, 4, 2), (3, 8, 3)] >>=
    fun T => srcFind 10 T (7, 9)).toOption.map (fun l => l.map toE)) = some [⟨1, 9, 0⟩, ⟨3, 8, 3⟩] ∨
    ((Gen.SrcAvl.treeDefault >>= srcBuild Gen.SrcAvl.nodeInsert_goLeft 9 [(1, 9, 0), (2, 3, 1), (3, 4, 2), (3, 8, 3)] >>=
    fun T => srcFind 10 T (7, 9)).toOption.map (fun l => l.map toE)) = some [⟨3, 8, 3⟩, ⟨1, 9, 0⟩] := by decide +kernel

open RbV.GenSrcAvl in
-- `rotate_left` without a right child panics (`unwrap()` on `None`); too little fuel is reported as such
example : (Gen.SrcAvl.rotateLeft ⟨(1, 2), 0, 2, 1, none, none⟩).toOption.isNone = true ∧
    (Gen.SrcAvl.nodeInsert Gen.SrcAvl.nodeInsert_goLeft 0 ⟨(1, 2), 0, 2, 1, none, none⟩ (3, 4) 1).toOption.isNone = true := by
  decide +kernel


end RbV.Thm.C07
