import RbV.Gen.SrcBed
import RbV.Model.Tsv
/-! `bed::Writer::write` and the accessors / setters of `bed::Record` as written (`RbV/Gen/SrcBed.lean`, regenerated from
`src/io/bed.rs` on every `./check C13`) against the format model `RbV/Model/Tsv.lean`.  Builder gengff.

`csv::Writer::serialize` is the abstract operation `serialize inner fields`; its contract (trusted base, sampled by the tie of
C13 on every file) is the csv writer model: `csvSerialize` appends `recordBody fields ++ [LF]` to the sink and succeeds. -/
namespace RbV.Thm.GenSrcBed
open RbV RbV.Rs RbV.Tsv RbV.Gen.SrcBed

/-- contract of `csv::Writer::serialize` / `write_record` as configured by `bed.rs` / `gff.rs` (delimiter TAB, `QuoteStyle::Necessary`,
terminator LF) on a sink that never fails: the record as the csv writer model renders it, followed by LF, is appended -/
def csvSerialize (w : List Nat) (fs : List (List Nat)) : Except Unit Unit × List Nat :=
  (.ok (), w ++ (recordBody fs ++ [LF]))

/-- the model record of a source record -/
def toModel (r : Record) : BedRec := ⟨r.chrom, r.start, r.end', r.aux⟩

/-- **which fields in which order**: for every csv writer (`serialize` arbitrary) and decimal rendering, both branches of
`write` hand csv the fields chrom, start, end, then the auxiliary columns -/
theorem write_fields {ω ρ : Type} (serialize : ω → List (List Nat) → ρ) (dec : Nat → List Nat) (inner : ω) (self : Writer)
    (r : Record) : write serialize dec inner self r = serialize inner (r.chrom :: dec r.start :: dec r.end' :: r.aux) := by
  cases ha : r.aux <;> simp [write, Rs.csvFields, ha]

/-- `write` appends exactly `bedLine` of the record and a line feed -/
theorem write_eq_model (w : List Nat) (self : Writer) (r : Record) :
    write csvSerialize toDec w self r = (.ok (), w ++ (bedLine (toModel r) ++ [LF])) := by
  rw [write_fields]; rfl

/-- what the strand column means -/
def strandOf : Option (List Nat) → Option Rs.Strand
  | some [43] => some .Forward
  | some [45] => some .Reverse
  | _ => none

/-- `aux(i)` is the column with index `i` of the line (chrom = 0): an index lookup into the auxiliary columns; `i < 3` panics -/
theorem aux_eq_model (r : Record) (i : Nat) (h : 3 ≤ i) : aux r i = .ok ((toModel r).aux[i - 3]?) := by
  by_cases hl : i - 3 < r.aux.length
  · simp [aux, Rs.sub, h, hl, Rs.idx_ok hl, toModel]
  · simp [aux, Rs.sub, h, hl, toModel]

theorem aux_lt3_panics (r : Record) (i : Nat) (h : i < 3) : aux r i = .panic := by
  have : ¬ 3 ≤ i := by omega
  simp [aux, Rs.sub, this]

/-- `name`, `score`, `strand` are the columns 3, 4, 5 = the auxiliary columns 0, 1, 2; `strand` reads `+` / `-`; the plain
getters are the fields -/
theorem accessors_eq_model (r : Record) :
    name r = .ok ((toModel r).aux[0]?) ∧ score r = .ok ((toModel r).aux[1]?) ∧
    strand r = .ok (strandOf ((toModel r).aux[2]?)) ∧
    chrom r = (toModel r).chrom ∧ start r = (toModel r).start ∧ end' r = (toModel r).stop := by
  refine ⟨?_, ?_, ?_, rfl, rfl, rfl⟩
  · simp [name, aux_eq_model]
  · simp [score, aux_eq_model]
  · simp only [strand, aux_eq_model r 5 (by omega)]
    cases h : (toModel r).aux[5 - 3]? with
    | none => simp [strandOf]
    | some s =>
      simp only [Res.ok_bind]
      by_cases h1 : s = [43]
      · subst h1; rfl
      · by_cases h2 : s = [45]
        · subst h2; rfl
        · have : strandOf (some s) = none := by
            unfold strandOf
            split
            · next e => exact absurd (Option.some.inj e) h1
            · next e => exact absurd (Option.some.inj e) h2
            · rfl
          rw [this]
          split
          · next e => exact absurd (Option.some.inj e) h1
          · next e => exact absurd (Option.some.inj e) h2
          · rfl

/-- the setters change exactly their field; `push_aux` appends a column -/
theorem setters_eq_model (r : Record) (c : List Nat) (n : Nat) :
    toModel (setChrom r c) = { toModel r with chrom := c } ∧
    toModel (setStart r n) = { toModel r with start := n } ∧
    toModel (setEnd r n) = { toModel r with stop := n } ∧
    toModel (pushAux r c) = { toModel r with aux := (toModel r).aux ++ [c] } :=
  ⟨rfl, rfl, rfl, rfl⟩

/-- **`set_name` as written**: the name is auxiliary column 0 — pushed when there is no auxiliary column yet, overwritten otherwise;
never panics -/
theorem setName_eq_model (r : Record) (n : List Nat) :
    setName r n = .ok { r with aux := if r.aux.isEmpty then [n] else r.aux.set 0 n } := by
  obtain ⟨c, s, e, aux⟩ := r
  cases aux <;> simp [setName, Rs.setIdx]

/-- **`set_score` as written**: the score is auxiliary column 1; a missing name column is filled with the empty string first;
never panics -/
theorem setScore_eq_model (r : Record) (sc : List Nat) :
    setScore r sc = .ok { r with aux := match r.aux with
      | [] => [[], sc]
      | [a] => [a, sc]
      | a :: _ :: rest => a :: sc :: rest } := by
  obtain ⟨c, s, e, aux⟩ := r
  match aux with
  | [] => simp [setScore]
  | [a] => simp [setScore]
  | a :: b :: rest => simp [setScore, Rs.setIdx]

/-- … and the getters read back what the setters stored -/
theorem name_setName (r r' : Record) (n : List Nat) (h : setName r n = .ok r') : name r' = .ok (some n) := by
  rw [setName_eq_model] at h
  cases h
  obtain ⟨c, s, e, aux⟩ := r
  cases aux <;> simp [(accessors_eq_model _).1, toModel]

theorem score_setScore (r r' : Record) (sc : List Nat) (h : setScore r sc = .ok r') : score r' = .ok (some sc) := by
  rw [setScore_eq_model] at h
  cases h
  obtain ⟨c, s, e, aux⟩ := r
  match aux with
  | [] => simp [(accessors_eq_model _).2.1, toModel]
  | [a] => simp [(accessors_eq_model _).2.1, toModel]
  | a :: b :: rest => simp [(accessors_eq_model _).2.1, toModel]

-- c 5 7 n 0 + (one-digit coordinates: `toDec` is defined by well-founded recursion and does not evaluate by `decide`)
example : (write csvSerialize (fun n => [48 + n]) [] ⟨⟩ ⟨[99], 5, 7, [[110], [48], [43]]⟩).2
    = [99, 9, 53, 9, 55, 9, 110, 9, 48, 9, 43, 10] := by rw [write_fields]; decide
example : strand ⟨[99], 5, 50, [[110], [48], [43]]⟩ = .ok (some .Forward) := by decide
example : aux ⟨[99], 5, 50, []⟩ 2 = .panic := by decide

end RbV.Thm.GenSrcBed
