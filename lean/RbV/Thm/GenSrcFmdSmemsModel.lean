import RbV.Thm.GenSrcFmdSmems
/-!
# Soft: the translated `smems` equals `SmemModel.smems` step by step, unconditionally (every `l`, dead start included)

Not imported by any `Thm/Cxx.lean`: built by `tools/gen_tables.py` (`soft_modules`) after regenerating, a failure is a note.
The hard obligation is `GenSrcFmdSmems.smems_eq_model_of` (same statement under "the model reports nothing when `pattern[i]`
does not occur", which holds for `l ≥ 1`) and, at the level the property determines, `C06.fmd_smems_source_correct`.  This
module additionally says that on the dead start the text runs the forward and backward sweep on the empty interval exactly as
`SmemModel.smems` does — a shape the property does not ask for (a text that returns `Vec::new()` at once falsifies it for
`l = 0`, where the model reports one zero-length candidate).
-/
set_option linter.unusedSimpArgs false
set_option linter.unusedVariables false

namespace RbV.Thm.GenSrcFmdSmemsModel
open RbV RbV.Rs RbV.Gen RbV.Thm.GenSrc RbV.FMDModel RbV.SmemModel RbV.Thm.GenSrcFmdExt RbV.Thm.GenSrcFmdSmems

section
variable {lessF : Nat → Nat} {occF : Nat → Nat → Nat} {ops : Ops Bi} {S : Nat → Bi → Prop} {pat : List Nat}
  (hS : SafeOps lessF occF ops S pat)

include hS in
/-- **the translated `smems` returns the mirror model's matches (over the operations the translated extension functions
compute), up to their order** -/
theorem smems_eq_model (i l : Nat) (hi : i < pat.length) (hL : pat.length + 1 < 2 ^ 63) :
    ∃ res, SrcFmdSmems.smems lessF occF dnaCompl pat i l = Res.ok res ∧
      res.Perm ((SmemModel.smems ops pat i l).map hitT) := by
  obtain ⟨hinit, hinitS⟩ := hS.init i hi
  have hsz := hS.size
  have e0 : Rs.idx pat i = Res.ok (pat.getD i 0) := RbV.Thm.GenSrc.idx_getD pat i 0 hi
  have e1 : Rs.add 64 i 1 = Res.ok (i + 1) := Rs.add_ok (by have := two63_lt; omega)
  have e1' : Rs.add 64 1 i = Res.ok (i + 1) := by rw [Nat.add_comm i]; exact Rs.add_ok (by have := two63_lt; omega)
  have e2 : Rs.add 64 0 1 = Res.ok 1 := Rs.add_ok (by decide)
  have e2' : Rs.add 64 1 0 = Res.ok 1 := Rs.add_ok (by decide)
  have e3 : Rs.slice pat (i + 1) pat.length = Res.ok (pat.drop (i + 1)) := by
    rw [Rs.slice_ok (by omega) (Nat.le_refl _)]
    congr 1
    rw [List.take_of_length_le]
    simp
  have e4 : Rs.toSigned 64 pat.length = (pat.length : Int) := toSigned_small (by omega)
  have e5 : Rs.toSigned 64 i = (i : Int) := toSigned_small (by omega)
  generalize hml0 : (if ops.size (ops.initWith i (pat.getD i 0)) ≠ 0 then 1 else 0) = ml0
  have hml0' : (if (ops.initWith i (pat.getD i 0)).size ≠ 0 then 1 else 0) = ml0 := by rw [← hml0, hsz]
  have hml0le : ml0 ≤ 1 := by rw [← hml0]; split <;> omega
  have hdrop : (pat.drop (i + 1)).length = pat.length - (i + 1) := List.length_drop
  have hf := for1_eq hS (i + 1) (pat.drop (i + 1)) (ops.initWith i (pat.getD i 0)) ml0 []
    (fun a ha => List.mem_of_mem_drop ha) (by rw [hdrop]; have : pat.length - (i + 1) + (i + 1) = pat.length := by omega
                                              rw [this]; exact hinitS)
    (by rw [hdrop]; omega) hL (by intro p hp; simp at hp)
  simp only [List.map_nil] at hf
  obtain ⟨r2, h2, hr2⟩ := for2_eq hS l (toT (fwdLoop ops (pat.drop (i + 1)) (ops.initWith i (pat.getD i 0)) ml0 []).2.1)
    (fwdLoop ops (pat.drop (i + 1)) (ops.initWith i (pat.getD i 0)) ml0 []).2.2 hL i
    (forwardPhase ops pat i) (pat.length + 1) [] [] (by omega)
    (by
      intro p hp
      apply hf.2 p
      simp only [forwardPhase, hml0, List.mem_reverse] at hp
      exact hp)
  have hfp : (forwardPhase ops pat i).map pairT =
      (((fwdLoop ops (pat.drop (i + 1)) (ops.initWith i (pat.getD i 0)) ml0 []).1).map pairT ++
        [(toT (fwdLoop ops (pat.drop (i + 1)) (ops.initWith i (pat.getD i 0)) ml0 []).2.1,
          (fwdLoop ops (pat.drop (i + 1)) (ops.initWith i (pat.getD i 0)) ml0 []).2.2)]).reverse := by
    simp only [forwardPhase, hml0, pairT, List.map_reverse, List.map_append, List.map_cons, List.map_nil]
  have hjj : ((pat.length + 1 : Nat) : Int) - 1 = (pat.length : Int) := by omega
  rw [hfp, hjj] at h2
  simp only [List.map_nil, List.reverse_append, List.reverse_cons, List.reverse_nil, List.nil_append,
    List.singleton_append, List.cons_append] at h2
  have hrev := Rs.irange_m1_rev i
  by_cases hz : (ops.initWith i (pat.getD i 0)).size = 0
  · have hm : ml0 = 0 := by rw [← hml0', if_neg (by simpa using hz)]
    subst hm
    have hmodel : SmemModel.smems ops pat i l = outerLoop ops pat l i (forwardPhase ops pat i) (pat.length + 1) [] := rfl
    rw [hmodel, ← hr2]
    simp [-List.getD_eq_getElem?_getD, SrcFmdSmems.smems, e0, hinit, hz, e1, e1', e2, e2', e3, hf.1, e4, e5, hrev, h2,
      List.reverse_perm]
  · have hm : ml0 = 1 := by rw [← hml0', if_pos (by simpa using hz)]
    subst hm
    have hmodel : SmemModel.smems ops pat i l = outerLoop ops pat l i (forwardPhase ops pat i) (pat.length + 1) [] := rfl
    rw [hmodel, ← hr2]
    simp [-List.getD_eq_getElem?_getD, SrcFmdSmems.smems, e0, hinit, hz, e1, e1', e2, e2', e3, hf.1, e4, e5, hrev, h2,
      List.reverse_perm]

end
end RbV.Thm.GenSrcFmdSmemsModel
