import RbV.Gen.SrcGffRead
import RbV.Model.Tsv
import RbV.Lemmas.Tsv
/-! Reader-side plain code of `src/io/gff.rs` as written (`RbV/Gen/SrcGffRead.lean`, regenerated on every `./check C13`):
`Phase::validate` and `impl Deserialize for Phase` against `readPhase` of the format model.  Builder gengff.

Trusted reading: `String::deserialize(deserializer)?` hands the column over as a string (the parameter `field`); `u8::from_str` is
`Rs.parseU8` (optional `+`, digits, at most 255); the error values are erased (`Except Unit`). -/
set_option linter.unusedSimpArgs false
namespace RbV.Thm.GenSrcGffRead
open RbV RbV.Rs RbV.Tsv RbV.Gen.SrcGffRead

theorem validate_eq_model (p : Nat) : validate p = if p < 3 then some p else none := by
  -- whichever way the test is written (`p < 3`, `p <= 2`, `p >= 3` with the branches swapped, `3 > p`)
  by_cases h : p < 3
  · have h1 : p ≤ 2 := by omega
    have h2 : ¬ 3 ≤ p := by omega
    have h3 : ¬ 2 < p := by omega
    simp [validate, h, h1, h2, h3]
  · have h1 : ¬ p ≤ 2 := by omega
    have h2 : 3 ≤ p := by omega
    have h3 : 2 < p := by omega
    simp [validate, h, h1, h2, h3]

/-- `u8::from_str` in terms of the model's `parseDec` -/
theorem parseU8_eq (s : List Nat) :
    Rs.parseU8 s = match parseDec (Rs.stripPlus s) with
      | some v => if v < 256 then .ok v else .error ()
      | none => .error () := by
  have hd : (fun c => decide (48 ≤ c) && decide (c ≤ 57)) = isDigit := rfl
  unfold Rs.parseU8 parseDec digitsVal
  simp only [hd]
  by_cases hc : ((Rs.stripPlus s).isEmpty || !(Rs.stripPlus s).all isDigit) = true
  · simp only [hc, if_true]
  · simp only [hc]; rfl

theorem phaseDeserialize_dot : phaseDeserialize [46] = .ok none := rfl

theorem phaseDeserialize_other (s : List Nat) (h : s ≠ [46]) :
    phaseDeserialize s = (Rs.parseU8 s >>= fun p => match validate p with
      | some p => pure (some p)
      | none => throw ()) := by
  simp only [phaseDeserialize]
  first
    | rfl
    | (split
       · exact absurd rfl h
       · simp only [bind_assoc, pure_bind, bind_pure]
         congr 1
         funext p
         cases validate p <;> simp)

/-- a string of digits does not start with `+` -/
theorem stripPlus_digits (s : List Nat) (n : Nat) (h : parseDec s = some n) : Rs.stripPlus s = s := by
  unfold Rs.stripPlus
  cases s with
  | nil => rfl
  | cons c r =>
    by_cases hc : c = 43
    · subst hc
      simp [parseDec, isDigit] at h
    · simp [hc]

theorem stripPlus_other (s : List Nat) (h : ∀ r, s ≠ 43 :: r) : Rs.stripPlus s = s := by
  unfold Rs.stripPlus
  cases s with
  | nil => rfl
  | cons c r =>
    have : c ≠ 43 := fun e => h r (by rw [e])
    simp [this]

/-- **`impl Deserialize for Phase` as written refines the model's `readPhase`**: where the model says `ok p` the code returns
`Ok(Phase(p))`, where the model demands an error the code returns `Err` (spellings the model leaves open — `+1`, `01` — are not
constrained) -/
theorem phaseDeserialize_refines_model (s : List Nat) :
    (∀ p, readPhase s = .ok p → phaseDeserialize s = .ok p) ∧
    (∀ w, readPhase s = .err w → phaseDeserialize s = .error ()) := by
  by_cases hdot : s = [46]
  · subst hdot
    exact ⟨fun p h => by simp [readPhase] at h; subst h; rfl, fun w h => by simp [readPhase] at h⟩
  · rw [phaseDeserialize_other s hdot, parseU8_eq]
    cases hp : parseDec s with
    | some n =>
      have hM : readPhase s = if s = toDec n then (if n < 3 then .ok (some n) else .err "phase-ge3") else .unspec := by
        unfold readPhase; simp only [hdot, if_false, hp]
      rw [stripPlus_digits s n hp, hp, hM]
      by_cases hc : s = toDec n
      · by_cases h3 : n < 3
        · have h256 : n < 256 := by omega
          rw [if_pos hc, if_pos h3]
          refine ⟨fun p h => ?_, fun w h => (by cases h)⟩
          cases h
          simp [h256, validate_eq_model, h3, bind, Except.bind, pure, Except.pure]
        · rw [if_pos hc, if_neg h3]
          refine ⟨fun p h => (by cases h), fun w h => ?_⟩
          by_cases h256 : n < 256
          · simp [h256, validate_eq_model, h3, bind, Except.bind, pure, Except.pure, throw, throwThe, MonadExceptOf.throw]
          · simp [h256, bind, Except.bind]
      · rw [if_neg hc]
        exact ⟨fun p h => (by cases h), fun w h => (by cases h)⟩
    | none =>
      by_cases hplus : ∃ r, s = 43 :: r
      · obtain ⟨r, rfl⟩ := hplus
        have hs : Rs.stripPlus (43 :: r) = r := by simp [Rs.stripPlus]
        have hM : readPhase (43 :: r) = if (parseDec r).isSome then .unspec else .err "phase-bad" := by
          unfold readPhase; simp only [hdot, if_false, hp]
        rw [hs, hM]
        cases hr : parseDec r with
        | some v => exact ⟨fun p h => (by simp at h), fun w h => (by simp at h)⟩
        | none => exact ⟨fun p h => (by simp at h), fun w h => rfl⟩
      · have hne : ∀ r, s ≠ 43 :: r := fun r e => hplus ⟨r, e⟩
        rw [stripPlus_other s hne, hp]
        refine ⟨fun p h => ?_, fun w h => rfl⟩
        unfold readPhase at h
        simp only [hdot, if_false, hp] at h
        first
          | cases h
          | (split at h
             · next r => exact absurd rfl (hne r)
             · cases h)

/-- **a numeric phase of three or more is an error — from the text** (model side: `phase_ge3_is_error`) -/
theorem phaseDeserialize_ge3 (n : Nat) (h : 3 ≤ n) : phaseDeserialize (toDec n) = .error () := by
  have hm : readPhase (toDec n) = .err "phase-ge3" := by
    unfold readPhase
    have hne : toDec n ≠ [46] := by
      intro e
      have := toDec_digits n 46 (by rw [e]; simp)
      omega
    have hlt : ¬ n < 3 := by omega
    simp only [hne, if_false, parseDec_toDec, if_true, hlt]
  exact (phaseDeserialize_refines_model _).2 _ hm

/-- the written phase column is read back: `.` and 0, 1, 2 -/
theorem phaseDeserialize_phaseStr (p : Option Nat) (h : ∀ n, p = some n → n < 3) : phaseDeserialize (phaseStr p) = .ok p :=
  (phaseDeserialize_refines_model _).1 p (readPhase_phaseStr p h)

/-! ## The closure of `Records::next` that builds the record: split on the value delimiter, quote trimming, insertion -/

theorem splitByte_eq (c : Nat) (s : List Nat) : Rs.splitByte c s = splitOn c s := by
  induction s with
  | nil => rfl
  | cons x r ih =>
    simp only [Rs.splitByte, splitOn, ih]
    by_cases h : x = c
    · simp [h]
    · simp only [h, if_false]
      cases splitOn c r <;> rfl

theorem trimQuotes_eq (s : List Nat) : Rs.trimByte 34 (Rs.trimByte 39 s) = trimQuotes s := rfl

theorem foldl_snoc {α β : Type} (f : β → α) (l : List β) (acc : List α) :
    List.foldl (fun a x => a ++ [f x]) acc l = acc ++ l.map f := by
  induction l generalizing acc with
  | nil => simp
  | cons x r ih => simp [ih]

theorem foldl_app {α β : Type} (g : β → List α) (l : List β) (acc : List α) :
    List.foldl (fun a x => a ++ g x) acc l = acc ++ l.flatMap g := by
  induction l generalizing acc with
  | nil => simp
  | cons x r ih => simp [ih]

/-- the reader's record in the model's vocabulary -/
def toRead (r : Record) : GffRead :=
  ⟨r.seqname, r.source, r.feature_type, r.start, r.end', r.score, r.strand, r.phase, r.attributes⟩

/-- **the record closure of `gff::Records::next` as written = the record the model reader builds** (`parseGffFields`, ok branch):
the eight columns are handed through, the attribute column is post-processed as `parseAttrs` does — every capture of the
key/value expression (`captures` abstract; instantiated with the model's scanner `scan`, which is the trusted reading of the regular
expression) is split on the value delimiter, key and values lose their quote characters (`'` then `"`), and the pairs are inserted
in that order (the reader's `MultiMap` read as its insertion sequence) -/
theorem recordOfColumns_eq_model (d : Dialect) (hv : d.vdelim < 128) (self : Records) (hs : self.value_delim = d.vdelim)
    (a b c : List Nat) (x y : Nat) (sc st : List Nat) (p : Option Nat) (att : List Nat) :
    toRead (recordOfColumns (fun s => scan d (s.length + 1) s) self a b c x y sc st p att)
      = ⟨a, b, c, x, y, sc, st, p, parseAttrs d att⟩ := by
  have hsplit : ∀ s, Rs.splitChar d.vdelim s = splitOn d.vdelim s := by
    intro s; simp [Rs.splitChar, hv, splitByte_eq]
  simp only [toRead, recordOfColumns, hs, hsplit, foldl_snoc, foldl_app, List.nil_append, parseAttrs]
  rfl

-- `Tag="x",'y';I=z` (GFF3): three pairs, quotes trimmed
example : (recordOfColumns (fun s => scan gff3 (s.length + 1) s) ⟨(), 44⟩ [99] [46] [103] 1 2 [46] [43] none
      [84, 61, 34, 120, 34, 44, 39, 121, 39, 59, 73, 61, 122]).attributes = [([84], [120]), ([84], [121]), ([73], [122])] := by
  decide

example : phaseDeserialize [51] = .error () := rfl        -- "3"
example : phaseDeserialize [50] = .ok (some 2) := rfl      -- "2"
example : phaseDeserialize [120] = .error () := rfl       -- "x"

end RbV.Thm.GenSrcGffRead
