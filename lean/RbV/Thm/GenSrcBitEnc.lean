import RbV.Gen.SrcBitEnc
import RbV.Model.BitEnc
import RbV.Lemmas.BitEncBits
import RbV.Thm.GenSrcBasic
/-!
# The translated text of `bitenc::{mask, BitEnc::get_by_addr, set_by_addr, addr}` equals the mirror model

`RbV/Gen/SrcBitEnc.lean` is regenerated from `src/data_structures/bitenc.rs` by `tools/rs2lean.py` on every `./check C18`.
The fields `self.storage`, `self.mask`, `self.width`, `self.usable_bits_per_block` are parameters of the translated
functions; the theorems instantiate them with the values `BitEnc::new(width)` stores (`mask(width)`,
`32 - 32 % width`), which the model computes from `w`.  Made explicit by the translation: `1 << width` and the two
`<< bit` are 32-bit shifts (shift amount `≥ 32` panics, bits shifted out are dropped), `(1 << width) - 1` is a checked
subtraction, `i * self.width` a checked 64-bit multiplication, `/` and `%` panic on zero, `self.storage[block]` panics
out of bounds, `… as u8` truncates.
-/
-- the simp sets name every fact a harmless rewrite of the Rust text may need; on the pinned text some are unused
set_option linter.unusedSimpArgs false

namespace RbV.Thm.GenSrcBitEnc
open RbV RbV.Rs RbV.Thm.GenSrc
open RbV.Model.BitEnc (U32 usable rmw)

/-- `fn mask`: for every width below 32 (the constructor asserts `width ≤ 8`) -/
theorem mask_eq_model (w : Nat) (hw : w < 32) : Gen.SrcBitEnc.mask w = Res.ok (Model.BitEnc.mask w) := by
  have hlt : 1 <<< w < 2 ^ 32 := by rw [Nat.one_shiftLeft]; exact Nat.pow_lt_pow_right (by omega) hw
  have e1 : Rs.shl 32 1 w = Res.ok (1 <<< w) := by rw [Rs.shl_ok hw, Nat.mod_eq_of_lt hlt]
  have hpos : 1 ≤ 1 <<< w := by rw [Nat.one_shiftLeft]; exact Nat.one_le_two_pow
  have e2 : Rs.sub (1 <<< w) 1 = Res.ok ((1 <<< w) - 1) := Rs.sub_ok hpos
  simp only [Gen.SrcBitEnc.mask, Model.BitEnc.mask, e1, e2, Res.ok_bind, Res.pure_eq_ok]

theorem mask_le (w : Nat) (hw : w ≤ 8) : Model.BitEnc.mask w ≤ 255 := by
  unfold Model.BitEnc.mask
  rw [Nat.one_shiftLeft]
  have : 2 ^ w ≤ 2 ^ 8 := Nat.pow_le_pow_right (by omega) hw
  omega

/-- `fn get_by_addr`: in-bounds block, bit position inside the 32-bit block; the `as u8` truncation is the identity
because the value is masked with at most 8 bits -/
theorem getByAddr_eq_model (w : Nat) (hw : w ≤ 8) (st : List Nat) (block bit : Nat) (hb : block < st.length)
    (hbit : bit < 32) :
    Gen.SrcBitEnc.getByAddr st (Model.BitEnc.mask w) block bit
      = Res.ok (Model.BitEnc.getByAddr w st block bit) := by
  have e1 : Rs.idx st block = Res.ok (st.getD block 0) := idx_getD st block 0 hb
  have e2 : ∀ x, Rs.shr 32 x bit = Res.ok (x >>> bit) := fun x => Rs.shr_ok hbit
  have e3 : ∀ x, Rs.cast 8 (x &&& Model.BitEnc.mask w) = x &&& Model.BitEnc.mask w := by
    intro x
    have h1 : x &&& Model.BitEnc.mask w ≤ Model.BitEnc.mask w := Nat.and_le_right
    have h2 := mask_le w hw
    rw [Rs.cast, Nat.mod_eq_of_lt (by omega)]
  simp only [Gen.SrcBitEnc.getByAddr, Model.BitEnc.getByAddr, e1, e2, e3, Res.ok_bind, Res.pure_eq_ok]

/-- `fn set_by_addr` (the new content of `self.storage`): the three read-modify-write statements on
`self.storage[block]` are the model's `rmw` on that block -/
theorem setByAddr_eq_model (w : Nat) (st : List Nat) (block bit value : Nat) (hb : block < st.length)
    (hbit : bit < 32) :
    Gen.SrcBitEnc.setByAddr st (Model.BitEnc.mask w) block bit value
      = Res.ok (Model.BitEnc.setByAddr w st block bit value) := by
  have e1 : ∀ x, Rs.shl 32 x bit = Res.ok ((x <<< bit) % U32) := fun x => Rs.shl_ok hbit
  have e2 : Rs.idx st block = Res.ok (st.getD block 0) := idx_getD st block 0 hb
  have e3 : ∀ v, Rs.setIdx st block v = Res.ok (st.set block v) := fun v => Rs.setIdx_ok hb
  have e4 : ∀ v, Rs.idx (st.set block v) block = Res.ok v := fun v => idx_set_self st block v hb
  have e5 : ∀ v v', Rs.setIdx (st.set block v) block v' = Res.ok (st.set block v') :=
    fun v v' => setIdx_set st block v v' hb
  simp only [Gen.SrcBitEnc.setByAddr, Model.BitEnc.setByAddr, rmw, e1, e2, e3, e4, e5, Res.ok_bind, Res.pure_eq_ok]

/-- `fn addr`: with the field values stored by `BitEnc::new(w)`, as long as `i * width` fits `usize` -/
theorem addr_eq_model (w i : Nat) (hw : 1 ≤ w ∧ w ≤ 8) (hmul : i * w < 2 ^ 64) :
    Gen.SrcBitEnc.addr w (usable w) i = Res.ok (Model.BitEnc.addr w i) := by
  have hu : 0 < usable w := by
    unfold usable
    have := Nat.mod_lt 32 (show w > 0 by omega)
    omega
  have e1 : Rs.mul 64 i w = Res.ok (i * w) := Rs.mul_ok hmul
  have e2 : ∀ k, Rs.div k (usable w) = Res.ok (k / usable w) := fun k => Rs.div_ok hu
  have e3 : ∀ k, Rs.rem k (usable w) = Res.ok (k % usable w) := fun k => Rs.rem_ok hu
  simp only [Gen.SrcBitEnc.addr, Model.BitEnc.addr, e1, e2, e3, Res.ok_bind, Res.pure_eq_ok]

/-- generated code = specification for one slot: writing `value` with the translated `set_by_addr` and reading the same
address back with the translated `get_by_addr` gives `value` truncated to the width; neither panics -/
theorem get_after_set (w : Nat) (hw : 1 ≤ w ∧ w ≤ 8) (st : List Nat) (block s value : Nat) (hb : block < st.length)
    (hs : s < 32 / w) :
    ∃ st', Gen.SrcBitEnc.setByAddr st (Model.BitEnc.mask w) block (s * w) value = Res.ok st' ∧
      st'.length = st.length ∧
      Gen.SrcBitEnc.getByAddr st' (Model.BitEnc.mask w) block (s * w) = Res.ok (value % 2 ^ w) := by
  have hbnd := Lemmas.BitEncBits.slot_bound w s hs
  have hbit : s * w < 32 := by omega
  refine ⟨_, setByAddr_eq_model w st block (s * w) value hb hbit, by simp [Model.BitEnc.setByAddr], ?_⟩
  rw [getByAddr_eq_model w hw.2 _ block (s * w) (by simpa [Model.BitEnc.setByAddr] using hb) hbit]
  congr 1
  have := Lemmas.BitEncBits.slot_rmw_same w (st.getD block 0) s value hw hs
  unfold Lemmas.BitEncBits.slot at this
  simpa [Model.BitEnc.getByAddr, Model.BitEnc.setByAddr, List.getD_eq_getElem?_getD, hb] using this

end RbV.Thm.GenSrcBitEnc
