import RbV.Spec.QGram
import RbV.Spec.KChain
import RbV.Lemmas.QGram
import RbV.Lemmas.KChain
import RbV.Lemmas.QGramIter
import RbV.Lemmas.QGramExact
import RbV.Lemmas.QGramMatches
import RbV.Lemmas.QGramIndex
import RbV.Lemmas.QGramExactModel
import RbV.Thm.GenSrcQGrams
import RbV.Thm.GenSrcQGramIndex
import RbV.Thm.GenSrcAlphabet
import RbV.Lemmas.KChainFwd
import RbV.Lemmas.LcskppFinal
import RbV.Lemmas.SdpkppUnion
import RbV.Lemmas.KmerHash
import RbV.Lemmas.Expand
import RbV.Thm.GenSrcLcskpp
import RbV.Thm.GenSrcSdpkpp
import RbV.Thm.GenSrcKmerMatches
import RbV.Thm.GenSrcQGramExact
/-!
# C19 — k-mer / q-gram indexing and sparse chaining are exact

Property theorems only (helper lemmas live in `RbV/Lemmas/{QGram,KChain}.lean`, mirror models in `RbV/Model`).
The driver (`RbV/Drv/C19.lean`) evaluates `fwdCodes`, `qgramPositions`, `matchesRef`, `exactMatchesRef`,
`kmerMatches`, `validChain`, `score` and `lcskDP`; the theorems below say what these are, for all inputs.
-/
namespace RbV.Thm.C19
open RbV RbV.QGram RbV.KChain

/-! ## q-gram codes -/

/-- the width used for one symbol is `⌈log₂ |A|⌉`: large enough, and the least such -/
theorem width_is_ceil_log2 (n b : Nat) : n ≤ 2 ^ bitsFor n ∧ (n ≤ 2 ^ b → bitsFor n ≤ b) :=
  ⟨le_two_pow_bitsFor n, bitsFor_min n b⟩

/-- every rank fits into the width -/
theorem rank_fits (alpha : List Nat) (c : Nat) (hc : c ∈ alpha) : rank alpha c < 2 ^ bitsFor alpha.length :=
  Nat.lt_of_lt_of_le (rank_lt_length hc) (le_two_pow_bitsFor _)

/-- **q-gram rank codes are injective**: two q-grams (words of equal length over the alphabet) with the same
code are the same word — for every alphabet, whatever its size. -/
theorem qgram_code_injective (alpha u v : List Nat) (hu : ∀ c ∈ u, c ∈ alpha) (hv : ∀ c ∈ v, c ∈ alpha)
    (hl : u.length = v.length)
    (h : code (bitsFor alpha.length) (u.map (rank alpha)) = code (bitsFor alpha.length) (v.map (rank alpha))) :
    u = v :=
  code_rank_injective alpha u v hu hv hl h

/-- a q-gram code occupies at most `bits · q` bits -/
theorem qgram_code_bound (alpha w : List Nat) (hw : ∀ c ∈ w, c ∈ alpha) :
    code (bitsFor alpha.length) (w.map (rank alpha)) < 2 ^ (bitsFor alpha.length * w.length) := by
  have := code_lt (bitsFor alpha.length) (w.map (rank alpha))
    (by intro r hr; rcases List.mem_map.mp hr with ⟨c, hc, rfl⟩; exact rank_fits alpha c (hw c hc))
  simpa using this

example : code 2 [2, 1] = 9 ∧ code 2 [1, 2, 0] = 24 := by decide

/-- the reference code list: one code per window of length `q`, left to right -/
theorem fwdCodes_spec (alpha : List Nat) (q : Nat) (text : List Nat) :
    (fwdCodes alpha q text).length = text.length + 1 - q ∧
    ∀ i, i + q ≤ text.length → 0 < q →
      (fwdCodes alpha q text)[i]? = some (code (bitsFor alpha.length) (((text.drop i).take q).map (rank alpha))) := by
  constructor
  · simp [fwdCodes, windows]
  · intro i hi hq
    simp only [fwdCodes, windows, List.getElem?_map, List.length_map]
    rw [List.getElem?_range (by omega)]
    simp [window, List.map_take, List.map_drop]

/-- **mirror model of `QGrams`** (rolling `<<=`, `|=`, `&= mask` on 64-bit words, first `q−1` values consumed): for
every alphabet, every `q ≥ 1` with `q·bits ≤ 64` and every text over the alphabet it yields exactly the reference
codes -/
theorem qgrams_model_refines (alpha : List Nat) (q : Nat) (text : List Nat) (hq : 0 < q)
    (hqb : q * bitsFor alpha.length ≤ 64) (ht : ∀ c ∈ text, c ∈ alpha) :
    qgramsModel alpha q text = fwdCodes alpha q text :=
  qgramsModel_eq alpha q text hq hqb ht

/-- **reverse iteration mirrors forward iteration**: the model of `RevQGrams` (`>>=`, `|= a << (q−1)·bits`, symbols
taken from the back) yields the forward codes in reverse order -/
theorem rev_qgrams_mirror (alpha : List Nat) (q : Nat) (text : List Nat) (hq : 0 < q)
    (hqb : q * bitsFor alpha.length ≤ 64) (ht : ∀ c ∈ text, c ∈ alpha) :
    revQgramsModel alpha q text = (qgramsModel alpha q text).reverse := by
  rw [qgramsModel_eq alpha q text hq hqb ht, revQgramsModel_eq alpha q text hq ht]

example : qgramsModel [65, 67, 71, 84, 97, 99, 103, 116] 2 [65, 67, 71, 84] = [1, 10, 19] ∧
    revQgramsModel [65, 67, 71, 84, 97, 99, 103, 116] 2 [65, 67, 71, 84] = [19, 10, 1] := by decide

/-! ### the source text of the q-gram iterators (translated on every run, `Gen/SrcQGrams.lean`)

`tools/rs2lean.py` translates `qgram_push`, `QGrams::next`, `RankTransform::qgrams` and the reverse counterparts; abstract
parameters: `rankGet` (= `RankTransform::get`, translated and proved for C20; here any function that returns the model's
rank on the symbols of the text), `ranksLen` (= `self.ranks.len()`), `ceilLog2` (= `(n as f32).log2().ceil() as u32`: the
`f32` computation stays outside, hypothesis `ceilLog2 ranksLen = bitsFor |alpha|`).  `GenSrcQGrams.collectNext` calls the
translated `next` until it returns `None`.  `Rs.Res.ok v` = no panic, result `v`. -/

/-- `qgram_push` as written in the source is the model's `pushFwd` (`<<=`, `|=`, `&= mask` on 64-bit words) -/
theorem qgram_push_source_eq_model (rg : Nat → Rs.Res Nat) (cl : Nat → Nat) (rl qg bits mask a : Nat) (hb : bits < 64) :
    Gen.SrcQGrams.qgramPush rg cl rl qg bits mask a = Rs.Res.ok (pushFwd bits mask qg a) :=
  GenSrcQGrams.qgramPush_eq_model rg cl rl qg bits mask a hb

/-- **`RankTransform::qgrams` + `QGrams::next` as written in the source = the reference codes**: for every alphabet,
`q ≥ 1` with `q·bits ≤ 64` and every text over the alphabet, the translated constructor passes its assertions, computes
the model's mask, and the translated iterator yields exactly `qgramsModel = fwdCodes` -/
theorem qgrams_source_eq_model (alpha : List Nat) (rg : Nat → Rs.Res Nat) (cl : Nat → Nat) (rl q : Nat) (text : List Nat)
    (hq : 0 < q) (hqb : q * bitsFor alpha.length ≤ 64) (hb : bitsFor alpha.length < 64)
    (hcl : cl rl = bitsFor alpha.length) (ht : ∀ c ∈ text, c ∈ alpha) (hrg : ∀ c ∈ text, rg c = Rs.Res.ok (rank alpha c))
    (fuel : Nat) (hf : text.length < fuel) :
    (do let st ← Gen.SrcQGrams.qgrams rg cl rl q text
        GenSrcQGrams.collectNext (fun t g => Gen.SrcQGrams.next rg cl rl t st.2.2.1 st.2.2.2.1 g) fuel st.1 st.2.2.2.2)
      = Rs.Res.ok (fwdCodes alpha q text) := by
  rw [GenSrcQGrams.qgrams_collect_eq_model (rank alpha) rg cl rl q _ text hq hqb hb hcl hrg fuel hf]
  exact congrArg Rs.Res.ok (qgrams_model_refines alpha q text hq hqb ht)

/-- **`RankTransform::rev_qgrams` + `RevQGrams::next` as written in the source** yield the reference codes in reverse -/
theorem rev_qgrams_source_eq_model (alpha : List Nat) (rg : Nat → Rs.Res Nat) (cl : Nat → Nat) (rl q : Nat)
    (text : List Nat) (hq : 0 < q) (hqb : q * bitsFor alpha.length ≤ 64) (hb : bitsFor alpha.length < 64)
    (hcl : cl rl = bitsFor alpha.length) (ht : ∀ c ∈ text, c ∈ alpha) (hrg : ∀ c ∈ text, rg c = Rs.Res.ok (rank alpha c))
    (fuel : Nat) (hf : text.length < fuel) :
    (do let st ← Gen.SrcQGrams.revQgrams rg cl rl q text
        GenSrcQGrams.collectNext (fun t g => Gen.SrcQGrams.nextRev rg cl rl t st.2.2.1 st.2.2.2.1 g) fuel st.1 st.2.2.2.2)
      = Rs.Res.ok (fwdCodes alpha q text).reverse := by
  have hR : ∀ c ∈ text, rank alpha c < 2 ^ bitsFor alpha.length := fun c hc =>
    Nat.lt_of_lt_of_le (rank_lt_length (ht c hc)) (le_two_pow_bitsFor _)
  rw [GenSrcQGrams.revQgrams_collect_eq_model (rank alpha) rg cl rl q _ text hq hqb hb hcl hrg hR fuel hf]
  have h := rev_qgrams_mirror alpha q text hq hqb ht
  rw [qgrams_model_refines alpha q text hq hqb ht] at h
  exact congrArg Rs.Res.ok h

/-- the two translated units composed: with the rank map the *translated* `RankTransform::new` builds for the alphabet of
`syms` and the *translated* `RankTransform::get` as `rankGet`, the translated `qgrams` + `QGrams::next` yield the reference
codes of every text over the alphabet.  What stays abstract: `ceilLog2` (the `f32` computation `(len as f32).log2().ceil()`)
and that `ranks.len()` is the alphabet size. -/
theorem qgrams_source_with_source_ranks (syms : List Nat) (cl : Nat → Nat) (q : Nat) (hq : 0 < q)
    (hqb : q * bitsFor (alphaSet syms).length ≤ 64) (hb : bitsFor (alphaSet syms).length < 64)
    (hcl : cl (alphaSet syms).length = bitsFor (alphaSet syms).length) :
    ∃ m, Gen.SrcAlphabet.rankNew (alphaSet syms) = Rs.Res.ok m ∧
      ∀ (text : List Nat), (∀ c ∈ text, c ∈ alphaSet syms) → ∀ fuel, text.length < fuel →
        (do let st ← Gen.SrcQGrams.qgrams (Gen.SrcAlphabet.rankGet m) cl (alphaSet syms).length q text
            GenSrcQGrams.collectNext
              (fun t g => Gen.SrcQGrams.next (Gen.SrcAlphabet.rankGet m) cl (alphaSet syms).length t st.2.2.1 st.2.2.2.1 g)
              fuel st.1 st.2.2.2.2)
          = Rs.Res.ok (fwdCodes (alphaSet syms) q text) := by
  have hA : alphaSet syms = Alpha.mk syms := rfl
  have hs : (alphaSet syms).Pairwise (· < ·) := by rw [hA]; exact Alpha.mk_sorted syms
  have hl : (alphaSet syms).length ≤ 256 := by
    unfold alphaSet
    exact Nat.le_trans (List.length_filter_le _ _) (by simp)
  obtain ⟨m, h1, h2⟩ := GenSrcAlphabet.rankNew_eq_model (alphaSet syms) hs hl
  refine ⟨m, h1, ?_⟩
  intro text ht fuel hf
  refine qgrams_source_eq_model (alphaSet syms) _ cl _ q text hq hqb hb hcl ht ?_ fuel hf
  intro c hc
  rw [GenSrcAlphabet.rankGet_eq_model (alphaSet syms) m h2 c, if_pos (ht c hc),
    Alpha.rank_eq_countLt (alphaSet syms) hs c (ht c hc)]
  rfl

-- "ACGT" over the alphabet ACGTacgt with the ranks the translated `RankTransform::new` builds (documented example)
example : (do let m ← Gen.SrcAlphabet.rankNew (alphaSet [65, 67, 71, 84, 97, 99, 103, 116])
              let st ← Gen.SrcQGrams.qgrams (Gen.SrcAlphabet.rankGet m) (fun _ => 3) 8 2 [65, 67, 71, 84]
              GenSrcQGrams.collectNext (fun t g => Gen.SrcQGrams.next (Gen.SrcAlphabet.rankGet m) (fun _ => 3) 8 t
                st.2.2.1 st.2.2.2.1 g) 5 st.1 st.2.2.2.2) = Rs.Res.ok [1, 10, 19] := by decide +kernel

/-! ## q-gram index: position lists -/

/-- the reference lists exactly the positions where the q-gram occurs — provided it occurs at most `mc` times,
otherwise nothing -/
theorem positions_exact (mc : Nat) (g t : List Nat) (i : Nat) :
    i ∈ qgramPositions mc g t ↔
      (i + g.length ≤ t.length ∧ (t.drop i).take g.length = g) ∧ (occurrences g t).length ≤ mc :=
  mem_qgramPositions mc g t i

/-- … in ascending order -/
theorem positions_ascending (mc : Nat) (g t : List Nat) : (qgramPositions mc g t).Pairwise (· < ·) :=
  qgramPositions_sorted mc g t

/-- … and any ascending list with exactly these members is the reference's answer (comparison by equality is
exactly the property) -/
theorem positions_unique (mc : Nat) (g t l : List Nat) (hs : l.Pairwise (· < ·))
    (hm : ∀ i, i ∈ l ↔ OccursAt g t i ∧ (occurrences g t).length ≤ mc) : l = qgramPositions mc g t := by
  apply sorted_eq_of_mem_iff l _ hs (qgramPositions_sorted mc g t)
  intro i; rw [hm, mem_qgramPositions]

/-- **mirror model of the index construction** (`with_max_count`: count per code, mask counts above `max_count`,
exclusive prefix sums, fill `pos` through per-code offsets; `qgram_matches`: the slice between two addresses).
With `2^(bits·q)` (+1) address slots — the size the repaired code allocates — the slice for the code of any q-gram over the
alphabet is exactly `qgramPositions`, for every alphabet size, text, q and `max_count`. -/
theorem index_model_refines (alpha : List Nat) (q mc : Nat) (text gram : List Nat) (hq : 0 < q)
    (ht : ∀ c ∈ text, c ∈ alpha) (hg : ∀ c ∈ gram, c ∈ alpha) (hgl : gram.length = q) :
    qgramMatchesModel (buildIndex (2 ^ (bitsFor alpha.length * q)) mc (fwdCodes alpha q text))
        (code (bitsFor alpha.length) (gram.map (rank alpha))) = qgramPositions mc gram text :=
  indexModel_eq alpha q mc text gram hq ht hg hgl

/-- counting-sort core of the previous theorem, for any table size that exceeds every code -/
theorem index_model_counting_sort (size mc : Nat) (codes : List Nat) (hcodes : ∀ c ∈ codes, c < size) (c : Nat)
    (hc : c < size) :
    qgramMatchesModel (buildIndex size mc codes) c = if codes.count c > mc then [] else posFrom c 0 codes :=
  buildIndex_correct size mc codes hcodes c hc

/-- the guard `code < size` is what the pinned tree violated: with `|A|^q` slots and the three-letter alphabet the q-gram
`cc` (q = 2) has code 10 ≥ 9 -/
example : code (bitsFor 3) ([99, 99].map (rank [97, 98, 99])) = 10 ∧ 3 ^ 2 = 9 ∧ 2 ^ (bitsFor 3 * 2) = 16 := by decide

example : qgramMatchesModel (buildIndex 16 5 (fwdCodes [97, 98, 99] 2 [97, 98, 99, 99, 98, 99])) 6 = [1, 4] ∧
    qgramPositions 5 [98, 99] [97, 98, 99, 99, 98, 99] = [1, 4] := by decide

/-- the number of occurrences that decides masking is the number of positions at which the q-gram occurs -/
theorem occurrence_count_exact (g t : List Nat) (i : Nat) : i ∈ occurrences g t ↔ OccursAt g t i :=
  mem_occurrences g t i

example : qgramPositions 5 [1, 2] [1, 2, 0, 1, 2] = [0, 3] ∧ qgramPositions 1 [1, 2] [1, 2, 0, 1, 2] = [] := by decide

/-! ### the source text of `QGramIndex::with_max_count` (translated on every run, `Gen/SrcQGramIndex.lean`)

Abstract parameters of the translated definition: `rankNew`, `getWidth` (= `ranks.get_width()`), `qgramsOf q text` (= the
codes the q-gram iterator yields, `qgrams_source_eq_model`), `prescanAdd` (= `utils::prescan` with `|a, b| a + b`,
`prescan_source_eq_model` of C04). -/

/-- **`with_max_count` as written in the source = the counting-sort model**: when `bits·q < 64`, every code is below the
table size and there are fewer than `2^64` q-grams, the translated function never panics (no index out of range, no
overflow) and returns the model's address table and position list -/
theorem qgram_index_source_eq_model {αβ ρ τ : Type} (rankNew : αβ → ρ) (getWidth : Nat) (qgramsOf : Nat → τ → List Nat)
    (prescanAdd : List Nat → Nat → Rs.Res (List Nat)) (q : Nat) (text : τ) (alphabet : αβ) (mc : Nat)
    (hw : getWidth < 2 ^ 32) (hbq : getWidth * q < 64)
    (hcodes : ∀ c ∈ qgramsOf q text, c < 2 ^ (getWidth * q)) (hlen : (qgramsOf q text).length < 2 ^ 64)
    (hps : ∀ l : List Nat, l.sum < 2 ^ 64 → prescanAdd l 0 = Rs.Res.ok (prescan 0 l)) :
    Gen.SrcQGramIndex.withMaxCount rankNew getWidth qgramsOf prescanAdd q text alphabet mc
      = Rs.Res.ok (q, (buildIndex (2 ^ (getWidth * q)) mc (qgramsOf q text)).1,
          (buildIndex (2 ^ (getWidth * q)) mc (qgramsOf q text)).2, rankNew alphabet) :=
  GenSrcQGramIndex.withMaxCount_eq_model rankNew getWidth qgramsOf prescanAdd q text alphabet mc hw hbq hcodes hlen hps

/-- … hence the *translated* `qgram_matches` on the index the *translated* `with_max_count` builds returns, for every
q-gram over the alphabet, exactly its text positions (nothing when it occurs more than `max_count` times) — no read of
`address` and no slice of `pos` is out of range -/
theorem qgram_index_source_positions_exact {αβ ρ : Type} (rankNew : αβ → ρ) (alpha : List Nat)
    (prescanAdd : List Nat → Nat → Rs.Res (List Nat)) (q : Nat) (text : List Nat) (alphabet : αβ) (mc : Nat)
    (hq : 0 < q) (hbq : bitsFor alpha.length * q < 64) (ht : ∀ c ∈ text, c ∈ alpha) (hlen : text.length + 1 < 2 ^ 64)
    (hps : ∀ l : List Nat, l.sum < 2 ^ 64 → prescanAdd l 0 = Rs.Res.ok (prescan 0 l)) :
    ∃ address pos, Gen.SrcQGramIndex.withMaxCount rankNew (bitsFor alpha.length) (fun q t => fwdCodes alpha q t) prescanAdd
        q text alphabet mc = Rs.Res.ok (q, address, pos, rankNew alphabet) ∧
      ∀ gram, (∀ c ∈ gram, c ∈ alpha) → gram.length = q →
        Gen.SrcQGramIndex.qgramMatches rankNew (bitsFor alpha.length) (fun q t => fwdCodes alpha q t) address pos
            (code (bitsFor alpha.length) (gram.map (rank alpha)))
          = Rs.Res.ok (qgramPositions mc gram text) := by
  have hcodes := GenSrcQGramIndex.fwdCodes_lt alpha q text ht
  refine ⟨_, _, qgram_index_source_eq_model rankNew (bitsFor alpha.length) (fun q t => fwdCodes alpha q t) prescanAdd q text
    alphabet mc (by
      have : bitsFor alpha.length * 1 ≤ bitsFor alpha.length * q := Nat.mul_le_mul_left _ hq
      omega) hbq hcodes
    (by have := GenSrcQGramIndex.fwdCodes_length_le alpha q text; omega) hps, ?_⟩
  intro gram hg hgl
  have hsz : 2 ^ (bitsFor alpha.length * q) + 1 < 2 ^ 64 := by
    have : 2 ^ (bitsFor alpha.length * q) ≤ 2 ^ 63 := Nat.pow_le_pow_right (by omega) (by omega)
    omega
  have hcl : code (bitsFor alpha.length) (gram.map (rank alpha)) < 2 ^ (bitsFor alpha.length * q) := by
    have := qgram_code_bound alpha gram hg
    rw [hgl] at this; exact this
  rw [GenSrcQGramIndex.qgramMatches_eq_model rankNew (bitsFor alpha.length) (fun q t => fwdCodes alpha q t)
    (2 ^ (bitsFor alpha.length * q)) mc (fwdCodes alpha q text) hcodes hsz _ hcl]
  exact congrArg Rs.Res.ok (indexModel_eq alpha q mc text gram hq ht hg hgl)

-- the translated constructor on "abccbc" over {a, b, c}, q = 2 (codes 1, 6, 10, 9, 6): address table and positions
example : Gen.SrcQGramIndex.withMaxCount (αβ := Unit) (ρ := Unit) (fun _ => ()) 2
    (fun q t => fwdCodes [97, 98, 99] q t) (fun l s => Rs.Res.ok (prescan s l)) 2 [97, 98, 99, 99, 98, 99] () 5
    = Rs.Res.ok (2, (buildIndex 16 5 (fwdCodes [97, 98, 99] 2 [97, 98, 99, 99, 98, 99])).1,
        (buildIndex 16 5 (fwdCodes [97, 98, 99] 2 [97, 98, 99, 99, 98, 99])).2, ()) := by decide +kernel

/-! ## q-gram index: hits, `exact_matches`, `matches` -/

/-- a pair (pattern position, text position) is a hit of the reference iff the two q-grams exist, are equal, and the
q-gram is not masked (occurs at most `mc` times in the text) -/
theorem hits_exact (mc q : Nat) (pat text : List Nat) (i p : Nat) (_hq : 0 < q) :
    (i, p) ∈ hits mc q pat text ↔
      i + q ≤ pat.length ∧ p + q ≤ text.length ∧ (pat.drop i).take q = (text.drop p).take q ∧
      (occurrences ((pat.drop i).take q) text).length ≤ mc := by
  rw [mem_hits_iff]
  unfold isHit
  simp only [Bool.and_eq_true, decide_eq_true_eq, List.contains_iff_mem, mem_qgramPositions, OccursAt]
  constructor
  · rintro ⟨hi, ⟨hp, hw⟩, hc⟩
    rw [window_length hi] at hp hw
    exact ⟨hi, hp, hw.symm, hc⟩
  · rintro ⟨hi, hp, hw, hc⟩
    refine ⟨hi, ⟨?_, ?_⟩, hc⟩
    · rw [window_length hi]; exact hp
    · rw [window_length hi]; exact hw.symm

/-- symbol-wise agreement is equality of the two slices -/
theorem agree_iff_slices (pat text : List Nat) (ps ts L : Nat) :
    Agree pat text ps ts L ↔
      ps + L ≤ pat.length ∧ ts + L ≤ text.length ∧ (pat.drop ps).take L = (text.drop ts).take L := by
  unfold Agree
  constructor
  · rintro ⟨h1, h2, h3⟩; exact ⟨h1, h2, (window_eq_iff L ps ts h1 h2).mpr h3⟩
  · rintro ⟨h1, h2, h3⟩; exact ⟨h1, h2, (window_eq_iff L ps ts h1 h2).mp h3⟩

/-- **`exact_matches` = the maximal exact matches of length ≥ q.**  When no q-gram is masked (`mc` at least every
occurrence count, e.g. `QGramIndex::new`), a range pair is reported by the reference iff pattern and text agree on
it (`L ≥ q` symbols), the symbols just before differ or do not exist, and the symbols just after differ or do not
exist. -/
theorem exact_matches_are_maximal_exact_matches (mc q : Nat) (pat text : List Nat) (hq : 0 < q)
    (hmc : ∀ g, (occurrences g text).length ≤ mc) (ps pe ts te : Nat) :
    (ps, pe, ts, te) ∈ exactMatchesRef mc q pat text ↔
      ∃ L, pe = ps + L ∧ te = ts + L ∧ q ≤ L ∧ Agree pat text ps ts L ∧
        ¬ (0 < ps ∧ 0 < ts ∧ SymEq pat text (ps - 1) (ts - 1)) ∧ ¬ SymEq pat text (ps + L) (ts + L) :=
  exactMatchesRef_iff_maximal mc q hq hmc ps pe ts te

/-- **mirror model of `matches`** (hits visited by ascending pattern position; one record per diagonal in a map:
vacant ⇒ record of the hit, occupied ⇒ new stops and `count + 1`; finally `count ≥ min_count`) reports exactly the
records of the declarative reference (per diagonal: least/greatest hit position, `+ q`, number of hits) — for every
pattern, text, q, `max_count` and `min_count`, also when the pattern position is ahead of the text position. -/
theorem matches_model_refines (mc q minc : Nat) (pat text : List Nat) (r : MatchRec) :
    r ∈ matchesModel mc q minc pat text ↔ r ∈ matchesRef mc q minc pat text :=
  matchesModel_mem_iff mc q minc pat text r

/-- what a record of the reference is: the diagonal carries a hit, and the record holds its least / greatest hit
positions (+ q) and its number of hits, which is at least `minc` -/
theorem matchesRef_spec (mc q minc : Nat) (pat text : List Nat) (r : MatchRec) :
    r ∈ matchesRef mc q minc pat text ↔
      ∃ d : Int, (∃ h ∈ hits mc q pat text, diag h = d) ∧ r = diagRec q (hits mc q pat text) d ∧ minc ≤ r.2.2.2.2 := by
  unfold matchesRef
  simp only [List.mem_filter, List.mem_map, mem_dedupInt, decide_eq_true_eq]
  constructor
  · rintro ⟨⟨d, ⟨h, hh, hd⟩, rfl⟩, hc⟩
    exact ⟨d, ⟨h, hh, hd⟩, rfl, hc⟩
  · rintro ⟨d, ⟨h, hh, hd⟩, rfl, hc⟩
    exact ⟨⟨d, ⟨h, hh, hd⟩, rfl⟩, hc⟩

example : matchesModel 9 2 1 [3, 1, 2, 3] [1, 2, 3, 1, 2] = [(0, 3, 2, 5, 2), (1, 4, 0, 3, 2)] ∧
    matchesRef 9 2 1 [3, 1, 2, 3] [1, 2, 3, 1, 2] = [(0, 3, 2, 5, 2), (1, 4, 0, 3, 2)] := by decide

/-- **mirror model of `exact_matches`** (one open match per diagonal in a map; a hit with
`m.pattern.stop - q + 1 != i` pushes the open match of its diagonal and opens a new one; all open matches are pushed at the
end) reports exactly the records of the reference — for every pattern, text, `q ≥ 1` and `max_count`. -/
theorem exact_matches_model_refines (mc q : Nat) (pat text : List Nat) (hq : 0 < q) (r : ExactRec) :
    r ∈ exactMatchesModel mc q pat text ↔ r ∈ exactMatchesRef mc q pat text :=
  exactMatchesModel_mem_iff mc q pat text hq r

/-- with masking too, the reference reports exactly the maximal runs of consecutive (unmasked) hits along a diagonal -/
theorem exact_matches_are_runs_of_hits (mc q : Nat) (pat text : List Nat) (hq : 0 < q) (r : ExactRec) :
    r ∈ exactMatchesRef mc q pat text ↔
      ∃ a p n, r = (a, a + n + q, p, p + n + q) ∧
        (∀ j, j ≤ n → (a + j, p + j) ∈ hits mc q pat text) ∧
        ¬ (0 < a ∧ 0 < p ∧ (a - 1, p - 1) ∈ hits mc q pat text) ∧
        (a + n + 1, p + n + 1) ∉ hits mc q pat text :=
  exactMatchesRef_iff_run mc q pat text hq r

example : exactMatchesModel 9 2 [1, 2, 3, 9, 1, 2] [0, 1, 2, 3, 1, 2] = [(0, 3, 1, 4), (0, 2, 4, 6), (4, 6, 1, 3), (4, 6, 4, 6)] := by
  decide

/-- any text of length `n` masks nothing when `mc ≥ n + 1` -/
theorem nothing_masked (mc : Nat) (text : List Nat) (h : text.length + 1 ≤ mc) (g : List Nat) :
    (occurrences g text).length ≤ mc := by
  have hs := occurrences_sorted g text
  have hb : ∀ i ∈ occurrences g text, i < text.length + 1 := by
    intro i hi
    have := (mem_occurrences g text i).mp hi
    unfold OccursAt at this; omega
  have key : ∀ (l : List Nat) (lo hi : Nat), l.Pairwise (· < ·) → (∀ i ∈ l, lo ≤ i ∧ i < hi) → l.length ≤ hi - lo := by
    intro l
    induction l with
    | nil => intros; simp
    | cons a l ih =>
      intro lo hi hs hb
      rw [List.pairwise_cons] at hs
      have ha := hb a (by simp)
      have := ih (a + 1) hi hs.2 (fun i hi' => ⟨hs.1 i hi', (hb i (by simp [hi'])).2⟩)
      simp only [List.length_cons]
      omega
  have := key _ 0 (text.length + 1) hs (fun i hi => ⟨by omega, hb i hi⟩)
  omega

example : exactMatchesRef 9 2 [1, 2, 3, 9, 1, 2] [0, 1, 2, 3, 1, 2] = [(0, 3, 1, 4), (0, 2, 4, 6), (4, 6, 1, 3), (4, 6, 4, 6)] := by
  decide

/-! ## k-mer matches -/

/-- `kmerMatches` contains exactly the position pairs with equal k-mers -/
theorem kmerMatches_exact (x y : List Nat) (k i j : Nat) :
    (i, j) ∈ kmerMatches x y k ↔
      i + k ≤ x.length ∧ j + k ≤ y.length ∧ (x.drop i).take k = (y.drop j).take k :=
  mem_kmerMatches x y k i j

/-- … sorted lexicographically, strictly (hence a set) -/
theorem kmerMatches_sorted (x y : List Nat) (k : Nat) : (kmerMatches x y k).Pairwise lexLt :=
  QGram.kmerMatches_sorted x y k

/-- … and it is the only such list -/
theorem kmerMatches_unique (x y : List Nat) (k : Nat) (l : List (Nat × Nat)) (hs : l.Pairwise lexLt)
    (hm : ∀ i j, (i, j) ∈ l ↔ i + k ≤ x.length ∧ j + k ≤ y.length ∧ (x.drop i).take k = (y.drop j).take k) :
    l = kmerMatches x y k := by
  apply pairwise_eq_of_mem_iff lexLt lexLt_irrefl lexLt_asymm l _ hs (QGram.kmerMatches_sorted x y k)
  rintro ⟨i, j⟩; rw [hm, mem_kmerMatches]; rfl

example : kmerMatches [1, 2, 1, 2] [2, 1, 2] 2 = [(0, 1), (1, 0), (2, 1)] := by decide

/-! ### the hash-map based matcher (mirror model `RbV/Model/KmerHash.lean`) -/
section kmer_hash
open RbV.Model.KmerHash RbV.Lemmas.KmerHash

/-- **mirror model of `hash_kmers`** (hash map as a finite map: `entry(key).or_default().push(i)` / `get`): the vector
stored under a k-mer is the ascending list of exactly the positions where it occurs (nothing stored ⇒ no occurrence) -/
theorem hash_kmers_model_exact (seq : List Nat) (k : Nat) (key : List Nat) :
    (hmGet key (hashKmers seq k)).getD [] = (List.range (seq.length + 1 - k)).filter (fun i => window k seq i = key) :=
  hashKmers_get seq k key

/-- **mirror models of `find_kmer_matches`, `find_kmer_matches_seq1_hashed`, `find_kmer_matches_seq2_hashed`** (scan one
sequence, look each window up in the hash of the other, push the pairs, sort): all three return exactly the reference
`kmerMatches` — the unique strictly sorted list of all pairs with equal k-mers — for all sequences and every k -/
theorem find_kmer_matches_model_refines (x y : List Nat) (k : Nat) :
    findKmerMatches x y k = kmerMatches x y k ∧ seq1Hashed (hashKmers x k) y k = kmerMatches x y k ∧
    seq2Hashed x (hashKmers y k) k = kmerMatches x y k :=
  ⟨findKmerMatches_correct x y k, seq1Hashed_correct x y k, seq2Hashed_correct x y k⟩

example : (hmGet [1, 2] (hashKmers [1, 2, 1, 2] 2)).getD [] = [0, 2] ∧ kmerMatches [1, 2, 1, 2] [2, 1, 2] 2 = [(0, 1), (1, 0), (2, 1)] := by
  rw [hash_kmers_model_exact]; decide

end kmer_hash

/-! ## `QGramIndex::exact_matches` — the source text (`RbV/Gen/SrcQGramExact.lean`, builder gensparse)

`HashMap<i32, ExactMatch>` = `Rs.HMap` (`Entry::Vacant(v) => v.insert(..)` = `insertNew`, `Entry::Occupied(o)` with
`o.get_mut()` = the record read, updated field by field and written back with `update`); the final loop over the map runs
over `hmIter diagonals`, an abstract permutation (`hIter`).  `qgramsOf` (= `self.ranks.qgrams(self.q, pattern)`) and
`qgramMatches` (= `self.qgram_matches`) are abstract: `hM` / `hH` say that position list `P i` is what the index returns for
the i-th q-gram and that these are the model's hits — what `qgrams_source_eq_model` and `qgram_index_source_positions_exact`
establish for the translated iterator / index (not composed here); `hB`: positions `+ q` below 2³¹ (the diagonal is an `i32`). -/
section exact_matches_source
open RbV.Rs RbV.Thm.GenSrcQGramExact

/-- the translated `exact_matches` does not panic and returns a permutation of the mirror model's vector -/
theorem qgram_exact_matches_source_eq_model (qgramsOf : Nat → List Nat → List Nat) (qgramMatches : Nat → Res (List Nat))
    (hmIter : List (Int × EM) → List (Int × EM)) (hIter : ∀ m, (hmIter m).Perm m) (mc q : Nat) (pat text : List Nat) (P : Nat → List Nat)
    (hM : ∀ ci ∈ (qgramsOf q pat).zipIdx, qgramMatches ci.1 = Res.ok (P ci.2))
    (hH : hits mc q pat text = ((qgramsOf q pat).zipIdx).flatMap (fun ci => (P ci.2).map (fun p => (ci.2, p))))
    (hB : ∀ ci ∈ (qgramsOf q pat).zipIdx, ci.2 + q < 2 ^ 31 ∧ ∀ p ∈ P ci.2, p + q < 2 ^ 31) :
    ∃ res, Gen.SrcQGramExact.exactMatches qgramsOf qgramMatches hmIter q pat = Res.ok res ∧
      res.Perm ((exactMatchesModel mc q pat text).map cv) :=
  GenSrcQGramExact.exactMatches_eq_model qgramsOf qgramMatches hmIter hIter mc q pat text P hM hH hB

/-- **the matches the translated `exact_matches` returns are exactly the records of the reference** — the maximal runs of
consecutive unmasked hits along a diagonal, i.e. (without masking) the maximal exact matches of length ≥ q
(`exact_matches_are_runs_of_hits`, `exact_matches_are_maximal_exact_matches`) — whatever the iteration order of the map.
Stated on membership, as the reference theorems are; multiplicities agree with the mirror model's
(`qgram_exact_matches_source_eq_model`). -/
theorem qgram_exact_matches_source_exact (qgramsOf : Nat → List Nat → List Nat) (qgramMatches : Nat → Res (List Nat))
    (hmIter : List (Int × EM) → List (Int × EM)) (hIter : ∀ m, (hmIter m).Perm m) (mc q : Nat) (hq : 0 < q) (pat text : List Nat)
    (P : Nat → List Nat)
    (hM : ∀ ci ∈ (qgramsOf q pat).zipIdx, qgramMatches ci.1 = Res.ok (P ci.2))
    (hH : hits mc q pat text = ((qgramsOf q pat).zipIdx).flatMap (fun ci => (P ci.2).map (fun p => (ci.2, p))))
    (hB : ∀ ci ∈ (qgramsOf q pat).zipIdx, ci.2 + q < 2 ^ 31 ∧ ∀ p ∈ P ci.2, p + q < 2 ^ 31) :
    ∃ res, Gen.SrcQGramExact.exactMatches qgramsOf qgramMatches hmIter q pat = Res.ok res ∧
      ∀ r : ExactRec, cv r ∈ res ↔ r ∈ exactMatchesRef mc q pat text := by
  obtain ⟨res, h1, h2⟩ := GenSrcQGramExact.exactMatches_eq_model qgramsOf qgramMatches hmIter hIter mc q pat text P hM hH hB
  refine ⟨res, h1, fun r => ?_⟩
  rw [h2.mem_iff, ← exact_matches_model_refines mc q pat text hq r]
  constructor
  · intro h
    obtain ⟨r', hr', he⟩ := List.mem_map.mp h
    have : r' = r := by
      obtain ⟨a, b, c, d⟩ := r'; obtain ⟨a', b', c', d'⟩ := r
      simp only [cv, Prod.mk.injEq] at he
      obtain ⟨⟨rfl, rfl⟩, rfl, rfl⟩ := he; rfl
    rw [← this]; exact hr'
  · intro h; exact List.mem_map.mpr ⟨r, h, rfl⟩

/-- evaluated: pattern `abab` against text `ababab`, q = 1 (codes = symbols), reversed map iteration -/
example : Gen.SrcQGramExact.exactMatches (fun _ pat => pat)
    (fun c => Res.ok ((List.range 6).filter (fun j => [0, 1, 0, 1, 0, 1].getD j 9 == c))) List.reverse 1 [0, 1, 0, 1]
    = Res.ok [((2, 4), (0, 2)), ((0, 2), (4, 6)), ((0, 4), (2, 6)), ((0, 4), (0, 4))] := by decide

end exact_matches_source

/-! ## `hash_kmers`, `find_kmer_matches*` — the source text (`RbV/Gen/SrcKmerMatches.lean`, builder gensparse)

`HashMapFx<&[u8], Vec<u32>>` = `Rs.HMap` (only `entry(k).or_default().push(i)` and `get(k)` are used: the iteration order of
the hash map is never observed); the final `sort_unstable()` is any function meeting `Rs.SortOk` on the derived order of
`(u32, u32)`.  Sequences shorter than 2³² (positions are stored as `u32`). -/
section kmer_source
open RbV.Rs RbV.Model.KmerHash RbV.Thm.GenSrcKmerMatches

/-- `hash_kmers` as written in the source builds the model's map: under every k-mer the ascending list of its positions -/
theorem hash_kmers_source_eq_model (sortM : List (Nat × Nat) → List (Nat × Nat)) (seq : List Nat) (k : Nat) (hlen : seq.length < 2 ^ 32)
    (key : List Nat) :
    ∃ m, Gen.SrcKmerMatches.hashKmers sortM seq k = Res.ok m ∧ m = hashKmers seq k ∧
      (Rs.HMap.get m key).getD [] = (List.range (seq.length + 1 - k)).filter (fun i => window k seq i = key) :=
  ⟨_, GenSrcKmerMatches.hashKmers_eq_model sortM seq k hlen, rfl, by rw [GenSrcKmerMatches.get_eq]; exact hash_kmers_model_exact seq k key⟩

/-- the two matchers over a given map, as written in the source = their mirror models (for every map) -/
theorem find_kmer_matches_hashed_source_eq_model (sortM : List (Nat × Nat) → List (Nat × Nat)) (hsort : SortOk sortM) (m : HMap)
    (seq : List Nat) (k : Nat) (hlen : seq.length < 2 ^ 32) :
    Gen.SrcKmerMatches.seq1Hashed sortM m seq k = Res.ok (seq1Hashed m seq k) ∧
    Gen.SrcKmerMatches.seq2Hashed sortM seq m k = Res.ok (seq2Hashed seq m k) :=
  ⟨GenSrcKmerMatches.seq1Hashed_eq_model sortM hsort m seq k hlen, GenSrcKmerMatches.seq2Hashed_eq_model sortM hsort seq m k hlen⟩

/-- **the translated `find_kmer_matches` (through the translated `hash_kmers` and the translated matcher of the branch taken)
returns exactly the strictly sorted set of position pairs with equal k-mers** — no panic, for all sequences shorter than
2³², every `k`, every `sort_unstable` meeting its contract; and so do the two `_hashed` entry points on the translated hash
of the other sequence -/
theorem find_kmer_matches_source_exact (sortM : List (Nat × Nat) → List (Nat × Nat)) (hsort : SortOk sortM) (x y : List Nat) (k : Nat)
    (hx : x.length < 2 ^ 32) (hy : y.length < 2 ^ 32) :
    (∃ l, Gen.SrcKmerMatches.findKmerMatches sortM x y k = Res.ok l ∧ l = kmerMatches x y k ∧ l.Pairwise lexLt ∧
      ∀ i j, (i, j) ∈ l ↔ i + k ≤ x.length ∧ j + k ≤ y.length ∧ (x.drop i).take k = (y.drop j).take k) ∧
    (∃ hx', Gen.SrcKmerMatches.hashKmers sortM x k = Res.ok hx' ∧
      Gen.SrcKmerMatches.seq1Hashed sortM hx' y k = Res.ok (kmerMatches x y k)) ∧
    (∃ hy', Gen.SrcKmerMatches.hashKmers sortM y k = Res.ok hy' ∧
      Gen.SrcKmerMatches.seq2Hashed sortM x hy' k = Res.ok (kmerMatches x y k)) := by
  obtain ⟨h1, h2, h3⟩ := find_kmer_matches_model_refines x y k
  refine ⟨⟨_, GenSrcKmerMatches.findKmerMatches_eq_model sortM hsort x y k hx hy, h1, ?_, ?_⟩,
    ⟨_, GenSrcKmerMatches.hashKmers_eq_model sortM x k hx, ?_⟩, ⟨_, GenSrcKmerMatches.hashKmers_eq_model sortM y k hy, ?_⟩⟩
  · rw [h1]; exact kmerMatches_sorted x y k
  · intro i j; rw [h1]; exact kmerMatches_exact x y k i j
  · rw [GenSrcKmerMatches.seq1Hashed_eq_model sortM hsort _ y k hy, h2]
  · rw [GenSrcKmerMatches.seq2Hashed_eq_model sortM hsort x _ k hx, h3]

example : Gen.SrcKmerMatches.findKmerMatches stdSortM [1, 2, 1, 2] [2, 1, 2] 2 = Res.ok [(0, 1), (1, 0), (2, 1)] := by
  obtain ⟨⟨l, h1, h2, _⟩, _⟩ := find_kmer_matches_source_exact stdSortM stdSortM_ok [1, 2, 1, 2] [2, 1, 2] 2 (by decide) (by decide)
  rw [h1, h2]; decide

end kmer_source

/-! ## `expand_kmer_matches` (mirror model `RbV/Model/Expand.lean`) -/
section expand_model
open RbV.Model.Expand RbV.Model.Lcskpp RbV.Lemmas.Expand

/-- **the mirror model of `expand_kmer_matches` returns a match list the chaining routines accept**: for every strictly
sorted seed list — whatever the sequences, `k` and the mismatch budget — both walks end by their own condition (no fuel
error), the result is strictly lexicographically sorted (hence duplicate-free: a walk along a diagonal stays strictly
between the neighbouring elements of that diagonal) and contains every seed -/
theorem expand_model_sorted (seq1 seq2 : List Nat) (k : Nat) (ms : List M) (allowed : Nat) (hs : ms.Pairwise lexLt) :
    ∃ r, expandKmerMatches seq1 seq2 k ms allowed = .ok r ∧ r.Pairwise lexLt ∧ ∀ m ∈ ms, m ∈ r :=
  expand_model_ok seq1 seq2 k ms allowed hs

/-- the combinatorial core: a sweep that pushes, for each element of a list sorted along every diagonal, only positions
of its diagonal strictly between the previous element of that diagonal and itself, never pushes a position twice nor a
position of the list -/
theorem diagonal_sweep_pushes_new_positions (key : M → Int) (l : List M) (bs : List (List M))
    (hs : DiagSorted key l) (hb : BlocksOk key [] l bs) : (l ++ bs.flatten).Nodup := by
  obtain ⟨h1, h2, _⟩ := blocks_nodup key l [] bs (by simpa using hs) hb
  rw [List.nodup_append]
  refine ⟨diagSorted_nodup key hs, h1, ?_⟩
  intro a ha b hb' hab
  subst hab
  exact h2 a hb' (by simpa using ha)

example : ∃ r, expandKmerMatches [1, 2, 3, 4, 5, 6] [1, 2, 3, 9, 5, 6] 2 [(0, 0), (4, 4)] 1 = .ok r ∧ r.Pairwise lexLt ∧
    (0, 0) ∈ r ∧ (4, 4) ∈ r := by
  obtain ⟨r, h1, h2, h3⟩ := expand_model_sorted [1, 2, 3, 4, 5, 6] [1, 2, 3, 9, 5, 6] 2 [(0, 0), (4, 4)] 1 (by simp [lexLt])
  exact ⟨r, h1, h2, h3 _ (by simp), h3 _ (by simp)⟩

end expand_model

/-! ## chains -/

/-- the Boolean checker run on `lcskpp` / `sdpkpp` / union paths decides exactly: all indices are in range and
each next match continues the previous one diagonally by one or starts at least `k` later in both sequences -/
theorem validChain_iff (ms : List M) (k : Nat) (path : List Nat) :
    validChain ms k path = true ↔
      (∀ i ∈ path, i < ms.length) ∧
      ∀ t, t + 1 < path.length →
        let a := ms.getD (path.getD t 0) (0, 0)
        let b := ms.getD (path.getD (t + 1) 0) (0, 0)
        (b.1 = a.1 + 1 ∧ b.2 = a.2 + 1) ∨ (a.1 + k ≤ b.1 ∧ a.2 + k ≤ b.2) := by
  unfold validChain
  rw [Bool.and_eq_true, chainB_iff, chain_iff_adjacent]
  simp only [List.all_eq_true, decide_eq_true_eq, pathMatches, List.length_map]
  constructor
  · rintro ⟨h1, h2⟩
    refine ⟨h1, fun t ht => ?_⟩
    have := h2 t ht
    simp only [List.getD_eq_getElem?_getD, List.getElem?_map] at this ⊢
    have e1 : path[t]? = some path[t] := List.getElem?_eq_getElem (by omega)
    have e2 : path[t + 1]? = some path[t + 1] := List.getElem?_eq_getElem ht
    simpa [e1, e2, Link] using this
  · rintro ⟨h1, h2⟩
    refine ⟨h1, fun t ht => ?_⟩
    have := h2 t ht
    simp only [List.getD_eq_getElem?_getD, List.getElem?_map] at this ⊢
    have e1 : path[t]? = some path[t] := List.getElem?_eq_getElem (by omega)
    have e2 : path[t + 1]? = some path[t + 1] := List.getElem?_eq_getElem ht
    simpa [e1, e2, Link] using this

example : validChain [(0, 0), (1, 1), (5, 4), (6, 9)] 3 [0, 1, 2] = true ∧
    validChain [(0, 0), (1, 1), (5, 4), (6, 9)] 3 [0, 2, 3] = false := by decide

/-- **upper bound**: no valid chain over the given matches scores more than the reference DP.
(`ms` sorted by first coordinate — implied by the lexicographic order `lcskpp` demands — and `k ≥ 1`.) -/
theorem lcskDP_upper (ms : List M) (k : Nat) (hk : 0 < k) (hs : ms.Pairwise (fun a b => a.1 ≤ b.1))
    (c : List M) (hc : Chain k c) (hsub : ∀ e ∈ c, e ∈ ms) : score k c ≤ lcskDP ms k := by
  cases c with
  | nil => simp [score]
  | cons m c =>
    obtain ⟨v, hv⟩ := exists_entry (k := k) (hsub m (by simp))
    have h1 := table_upper hk ms hs m v hv c hc (fun e he => hsub e (by simp [he]))
    have h2 : v ≤ lcskDP ms k := le_max0_of_mem (List.mem_map.mpr ⟨(m, v), hv, rfl⟩)
    omega

/-- **attained**: some valid chain over the given matches has exactly the DP's score -/
theorem lcskDP_attained (ms : List M) (k : Nat) (hk : 0 < k) :
    ∃ c, Chain k c ∧ (∀ e ∈ c, e ∈ ms) ∧ score k c = lcskDP ms k := by
  rcases max0_zero_or_mem ((table k ms).map (·.2)) with h0 | hm
  · exact ⟨[], trivial, by simp, by simp [score, lcskDP, h0]⟩
  · rcases List.mem_map.mp hm with ⟨⟨m, v⟩, hmv, hv⟩
    obtain ⟨c, hc, hsub, hsc⟩ := table_attained hk ms m v hmv
    exact ⟨m :: c, hc, hsub, by rw [hsc]; exact hv⟩

/-- **`lcskDP` is the LCSk++ optimum**: it is the one value that is an upper bound of all valid chains' scores and
is the score of one of them -/
theorem lcskDP_eq_opt (ms : List M) (k : Nat) (hk : 0 < k) (hs : ms.Pairwise (fun a b => a.1 ≤ b.1)) (v : Nat) :
    ((∀ c, Chain k c → (∀ e ∈ c, e ∈ ms) → score k c ≤ v) ∧ ∃ c, Chain k c ∧ (∀ e ∈ c, e ∈ ms) ∧ score k c = v)
      ↔ v = lcskDP ms k := by
  constructor
  · rintro ⟨hub, c, hc, hsub, hsc⟩
    obtain ⟨c', hc', hsub', hsc'⟩ := lcskDP_attained ms k hk
    have h1 := hub c' hc' hsub'
    have h2 := lcskDP_upper ms k hk hs c hc hsub
    omega
  · rintro rfl
    exact ⟨fun c hc hsub => lcskDP_upper ms k hk hs c hc hsub, lcskDP_attained ms k hk⟩

/-- what the driver accepts for `lcskpp` is exactly "a valid chain of maximum score": an accepted path is valid and
no valid path scores more; conversely a valid path that no valid path beats is accepted. -/
theorem lcskpp_accept_iff (ms : List M) (k : Nat) (hk : 0 < k) (hs : ms.Pairwise (fun a b => a.1 ≤ b.1))
    (path : List Nat) :
    (validChain ms k path = true ∧ score k (pathMatches ms path) = lcskDP ms k) ↔
    (validChain ms k path = true ∧
      ∀ c, Chain k c → (∀ e ∈ c, e ∈ ms) → score k c ≤ score k (pathMatches ms path)) := by
  constructor
  · rintro ⟨hv, hsc⟩
    exact ⟨hv, fun c hc hsub => by rw [hsc]; exact lcskDP_upper ms k hk hs c hc hsub⟩
  · rintro ⟨hv, hmax⟩
    refine ⟨hv, ?_⟩
    obtain ⟨c', hc', hsub', hsc'⟩ := lcskDP_attained ms k hk
    have h1 := hmax c' hc' hsub'
    have hvv := hv
    unfold validChain at hvv
    rw [Bool.and_eq_true, chainB_iff] at hvv
    have h2 := lcskDP_upper ms k hk hs (pathMatches ms path) hvv.2 (by
      intro e he
      simp only [pathMatches, List.mem_map] at he
      rcases he with ⟨i, hi, rfl⟩
      have hlt : i < ms.length := by
        have := List.all_eq_true.mp hvv.1 i hi
        simpa using this
      rw [List.getD_eq_getElem?_getD, List.getElem?_eq_getElem hlt]
      exact List.getElem_mem hlt)
    omega

/-- **the recurrence behind `lcskpp`'s `dp_vector`** (`k` + best finished non-overlapping predecessor, or diagonal
predecessor + 1): evaluated in list order it gives, for every match, the best score of a valid chain *ending* at that
match — no chain ending there scores more, and one scores exactly that. -/
theorem dp_cell_is_best_chain_ending (ms : List M) (k : Nat) (hk : 0 < k) (hs : ms.Pairwise (fun a b => a.1 ≤ b.1))
    (m : M) (v : Nat) (h : (m, v) ∈ tableR k ms.reverse) :
    (∀ c, Chain k (c ++ [m]) → (∀ e ∈ c, e ∈ ms) → score k (c ++ [m]) ≤ v) ∧
    ∃ c, Chain k (c ++ [m]) ∧ (∀ e ∈ c, e ∈ ms) ∧ score k (c ++ [m]) = v := by
  have hs' : ms.reverse.Pairwise (fun a b => b.1 ≤ a.1) := List.pairwise_reverse.mpr hs
  constructor
  · intro c hc hsub
    have h1 : RChain k (m :: c.reverse) := by
      rw [rchain_iff]; simpa using hc
    have := tableR_upper hk ms.reverse hs' m v h c.reverse h1 (fun e he => by simpa using hsub e (by simpa using he))
    rw [rscore_eq] at this
    simpa using this
  · obtain ⟨rc, h1, h2, h3⟩ := tableR_attained hk ms.reverse m v h
    refine ⟨rc.reverse, ?_, ?_, ?_⟩
    · rw [rchain_iff] at h1; simpa using h1
    · intro e he
      have := h2 e (by simp at he ⊢; right; exact he)
      simpa using this
    · rw [rscore_eq] at h3; simpa using h3

/-- … and the best cell (`best_dp`) is the LCSk++ optimum -/
theorem dpScores_max_eq_opt (ms : List M) (k : Nat) (hk : 0 < k) (hs : ms.Pairwise (fun a b => a.1 ≤ b.1)) :
    max0 (dpScores ms k) = lcskDP ms k := by
  apply (lcskDP_eq_opt ms k hk hs _).mp
  have hmem : ∀ v, v ∈ dpScores ms k ↔ ∃ m, (m, v) ∈ tableR k ms.reverse := by
    intro v
    simp only [dpScores, List.mem_reverse, List.mem_map]
    constructor
    · rintro ⟨⟨m, v'⟩, hm, rfl⟩; exact ⟨m, hm⟩
    · rintro ⟨m, hm⟩; exact ⟨(m, v), hm, rfl⟩
  constructor
  · intro c hc hsub
    rcases List.eq_nil_or_concat c with rfl | ⟨c', m, rfl⟩
    · simp [score]
    · rw [List.concat_eq_append] at hc hsub ⊢
      have hm : m ∈ ms.reverse := by simpa using hsub m (by simp)
      obtain ⟨v, hv⟩ := exists_entryR (k := k) hm
      have h1 := (dp_cell_is_best_chain_ending ms k hk hs m v hv).1 c' hc (fun e he => hsub e (by simp [he]))
      have h2 : v ≤ max0 (dpScores ms k) := le_max0_of_mem ((hmem v).mpr ⟨m, hv⟩)
      omega
  · rcases max0_zero_or_mem (dpScores ms k) with h0 | hm
    · exact ⟨[], trivial, by simp, by simp [score, h0]⟩
    · obtain ⟨m, hmv⟩ := (hmem _).mp hm
      obtain ⟨c, h1, h2, h3⟩ := (dp_cell_is_best_chain_ending ms k hk hs m _ hmv).2
      refine ⟨c ++ [m], h1, ?_, h3⟩
      intro e he
      rcases List.mem_append.mp he with h' | h'
      · exact h2 e h'
      · simp at h'; rw [h']; have := entry_memR hmv; simpa using this

example : dpScores [(0, 0), (1, 1), (2, 2), (5, 5), (6, 9)] 3 = [3, 4, 5, 8, 8] := by decide

/-! ## the `lcskpp` routine itself (mirror model `RbV/Model/Lcskpp.lean`: event sort, max-Fenwick sweep, traceback) -/
section lcskpp_model
open RbV.Model.Lcskpp RbV.Lemmas.Lcskpp

/-- the model's sortedness assertion accepts exactly the strictly lexicographically sorted (hence duplicate-free) lists -/
theorem lcskpp_model_assertion (ms : List M) : sortedStrict ms = true ↔ ms.Pairwise lexLt :=
  sortedStrict_iff ms

/-- … and on any other non-empty list the model stops with the assertion message (the Rust code panics) -/
theorem lcskpp_model_refuses_unsorted (ms : List M) (k : Nat) (hne : ms ≠ []) (hs : ¬ ms.Pairwise lexLt) :
    lcskpp ms k = .error "incoming matches must be sorted." := by
  have h1 : ms.isEmpty = false := by cases ms with | nil => exact absurd rfl hne | cons _ _ => rfl
  have h2 : sortedStrict ms = false := by
    rw [Bool.eq_false_iff]; intro h; exact hs ((sortedStrict_iff ms).mp h)
  simp [lcskpp, h1, h2]

/-- **event order**: in the sorted event vector the end event of a match `q` that ends at or before the start of `p` in
both sequences comes before the start event of `p` — also when the coordinates coincide (end events carry the smaller
third component) — and the start event of a match comes before its own end event (`k ≥ 1`) -/
theorem lcskpp_event_order (ms : List M) (k : Nat) (hk : 0 < k) (p q : Nat) (hq : q < ms.length) :
    (nonov k (mAt ms q) (mAt ms p) = true → evLe (startEv ms p) (endEv ms k q) = false) ∧
    evLe (endEv ms k p) (startEv ms p) = false := by
  constructor
  · intro hn
    rw [Bool.eq_false_iff]; intro h
    rw [evLe_iff] at h
    simp only [startEv, endEv] at h
    simp only [nonov, Bool.and_eq_true, decide_eq_true_eq] at hn
    omega
  · rw [Bool.eq_false_iff]; intro h
    rw [evLe_iff] at h
    simp only [startEv, endEv] at h
    omega

/-- **the loop invariant holds at every point of the sweep**: for every split of the sorted event vector, the state
reached after the processed part satisfies `Inv` (tree = Fenwick run over exactly the published `(y+k, (score, index))` of the
finished matches; finished cells carry the recurrence's score, started cells `k` + best dominated score; every predecessor
pointer is justified; `best_dp` bounds the started cells and is attained or still `(k, 0)`) -/
theorem lcskpp_sweep_invariant (ms : List M) (k : Nat) (hk : 0 < k) (hs : ms.Pairwise lexLt) (done rest : List Ev)
    (h : sortedEvents ms k = done ++ rest) : Inv ms k done (done.foldl (stepEv ms k) (initSt ms k)) :=
  sweep_inv_prefix hk hs h

/-- **the Fenwick query of a start event = maximum over the dominated matches.**  Whenever the start event of match `p`
(`startEv ms p = (x_p, y_p, p + len)`) is the next event of the sweep, `max_col_dp.get(y_p)` on the state reached so far
returns a pair whose score bounds the final score (`dpScores`) of every match `q` that ends at or before `(x_p, y_p)` in both
coordinates (`nonov`), and either there is no such match and the score is 0, or the pair is exactly (final score of `q`, `q`)
for such a match — processing order (all dominated matches have published, nothing else with a column `≤ y_p` has) plus the
prefix-maximum semantics of the tree (C18). -/
theorem lcskpp_query_is_max_over_dominated (ms : List M) (k : Nat) (hk : 0 < k) (hs : ms.Pairwise lexLt)
    (done rest : List Ev) (p : Nat) (hp : p < ms.length)
    (hpos : sortedEvents ms k = done ++ startEv ms p :: rest) :
    let s := done.foldl (stepEv ms k) (initSt ms k)
    let b := Model.Fenwick.get maxNN (0, 0) s.tree (mAt ms p).2
    (∀ q, q < ms.length → nonov k (mAt ms q) (mAt ms p) = true → (dpScores ms k).getD q 0 ≤ b.1) ∧
    ((b.1 = 0 ∧ ∀ q, q < ms.length → nonov k (mAt ms q) (mAt ms p) = false) ∨
     ∃ q, q < ms.length ∧ nonov k (mAt ms q) (mAt ms p) = true ∧ b = ((dpScores ms k).getD q 0, q)) := by
  have hI := sweep_inv_prefix hk hs hpos
  obtain ⟨_, hbefore, hcomplete⟩ := split_facts (sortedEvents_pairwise ms k) (sortedEvents_nodup ms k) hpos
  obtain ⟨h1, h2⟩ := query_spec hk hs hI hp hbefore hcomplete
  have hub : ∀ q, q < ms.length → nonov k (mAt ms q) (mAt ms p) = true →
      (dpScores ms k).getD q 0 ≤ (Model.Fenwick.get maxNN (0, 0) (done.foldl (stepEv ms k) (initSt ms k)).tree (mAt ms p).2).1 := by
    intro q hq hn
    rw [h1]
    exact le_max0_of_mem (List.mem_map.mpr ⟨(mAt ms q, F ms k q), List.mem_filter.mpr ⟨mem_table_F hq, hn⟩, rfl⟩)
  refine ⟨hub, ?_⟩
  by_cases hpos' : 0 < (Model.Fenwick.get maxNN (0, 0) (done.foldl (stepEv ms k) (initSt ms k)).tree (mAt ms p).2).1
  · right
    obtain ⟨q, hq, hb2, _, hn, hb1⟩ := h2 hpos'
    exact ⟨q, hq, hn, Prod.ext hb1 hb2⟩
  · left
    refine ⟨by omega, ?_⟩
    intro q hq
    rw [Bool.eq_false_iff]; intro hn
    have h3 := hub q hq hn
    have h4 : k ≤ (dpScores ms k).getD q 0 := k_le_F hk hs hq
    omega

/-- the hypothesis of the previous theorem is satisfiable for every match: its start event occurs in the sorted vector -/
theorem lcskpp_start_event_occurs (ms : List M) (k : Nat) (p : Nat) (hp : p < ms.length) :
    ∃ done rest, sortedEvents ms k = done ++ startEv ms p :: rest :=
  List.append_of_mem ((mem_sortedEvents ms k _).mpr ⟨p, hp, Or.inl rfl⟩)

/-- **the sweep computes the forward recurrence**: after the loop the score of every `dp` cell is the cell of
`dpScores` (the recurrence evaluated directly, `dp_cell_is_best_chain_ending`), for every strictly sorted match list
and `k ≥ 1` -/
theorem lcskpp_model_dp_is_recurrence (ms : List M) (k : Nat) (hk : 0 < k) (hs : ms.Pairwise lexLt) (q : Nat)
    (hq : q < ms.length) : ((sweep ms k).dp.getD q (0, 0)).1 = (dpScores ms k).getD q 0 :=
  final_cell hk hs hq

/-- **the mirror model of `lcskpp` is optimal.**  For every strictly sorted (duplicate-free) match list and every
`k ≥ 1` the model — assertion, event sort with its tie-break, sweep with the max-Fenwick tree (C18 model), diagonal
lookup, `best_dp`, traceback with fuel `len + 1` — returns a result (no assertion failure, the traceback loop ends by its
own condition); the path is a valid chain over the matches; its LCSk++ score is the reported score; that score is the
reference optimum `lcskDP`; and no valid chain over the matches scores more. -/
theorem lcskpp_model_optimal (ms : List M) (k : Nat) (hk : 0 < k) (hs : ms.Pairwise lexLt) :
    ∃ r, lcskpp ms k = .ok r ∧ validChain ms k r.path = true ∧ score k (pathMatches ms r.path) = r.score ∧
      r.score = lcskDP ms k ∧ ∀ c, Chain k c → (∀ e ∈ c, e ∈ ms) → score k c ≤ r.score := by
  obtain ⟨r, h1, h2, h3, h4, _⟩ := lcskpp_model_ok hk hs
  have hx := sorted_x_of_lex hs
  have hopt := dpScores_max_eq_opt ms k hk hx
  refine ⟨r, h1, h3, by rw [h4, h2], by rw [h2, hopt], ?_⟩
  intro c hc hsub
  rw [h2, hopt]
  exact lcskDP_upper ms k hk hx c hc hsub

/-- composition with the k-mer matcher's reference: on the matches of any two sequences the model is optimal -/
theorem lcskpp_model_optimal_on_kmer_matches (x y : List Nat) (k : Nat) (hk : 0 < k) :
    ∃ r, lcskpp (kmerMatches x y k) k = .ok r ∧ validChain (kmerMatches x y k) k r.path = true ∧
      r.score = lcskDP (kmerMatches x y k) k :=
  let ⟨r, h1, h2, _, h4, _⟩ := lcskpp_model_optimal _ k hk (QGram.kmerMatches_sorted x y k)
  ⟨r, h1, h2, h4⟩

example : ∃ r, lcskpp [(0, 0), (1, 1), (2, 2), (5, 5), (6, 9)] 3 = .ok r ∧ r.score = 8 ∧
    validChain [(0, 0), (1, 1), (2, 2), (5, 5), (6, 9)] 3 r.path = true := by
  obtain ⟨r, h1, h2, _, h4, _⟩ := lcskpp_model_optimal [(0, 0), (1, 1), (2, 2), (5, 5), (6, 9)] 3 (by decide)
    (by simp [lexLt])
  exact ⟨r, h1, by rw [h4]; decide, h2⟩

/-- the chains returned by the `lcskpp` model list their indices in strictly ascending order (what
`sdpkpp_union_lcskpp_path` relies on when it binary-searches the path) -/
theorem lcskpp_model_path_ascending (ms : List M) (k : Nat) (hk : 0 < k) (hs : ms.Pairwise lexLt) :
    ∃ r, lcskpp ms k = .ok r ∧ r.path.Pairwise (· < ·) :=
  let ⟨r, h1, _, _, _, _, h6⟩ := lcskpp_model_ok hk hs
  ⟨r, h1, h6⟩

end lcskpp_model

/-! ## `sparse::lcskpp` — the source text itself (translated on every run: `RbV/Gen/SrcLcskpp.lean`, builder gensparse)

`sort_unstable` and `binary_search` are std, not rust-bio: the translated function takes them as parameters and the
theorems hold for **every** pair meeting the contracts `Rs.SortOk` (a permutation, ascending in the derived order of the
event triples the translated text builds: the sort *key* — coordinates, then `idx` / `idx + len` — is part of the text) and
`Rs.BSearchOk`.  `GenSrcLcskpp.Bnd`: fewer than 2³¹ matches, every coordinate `+ k` fits `u32`. -/
section lcskpp_source
open RbV.Rs RbV.Model.Lcskpp RbV.Lemmas.Lcskpp RbV.Thm.GenSrcLcskpp

/-- **`lcskpp` as written in the source = the mirror model**: same path, same score, same `dp_vector`, no panic (no index
out of range, no overflow, the sortedness assertion holds), the traceback loop ends by its own condition — for every
strictly sorted match list, `k ≥ 1`, and every `sort_unstable` / `binary_search` meeting the contracts of std -/
theorem lcskpp_source_eq_model (sortEv : List Ev → List Ev) (bs : List M → M → Except Nat Nat) (hsort : SortOk sortEv)
    (hbs : BSearchOk bs) (ms : List M) (k : Nat) (hk : 0 < k) (hs : ms.Pairwise lexLt) (hB : Bnd ms k) :
    ∃ r, lcskpp ms k = .ok r ∧ Gen.SrcLcskpp.lcskpp sortEv bs ms k = Res.ok (r.path, r.score, r.dp) :=
  GenSrcLcskpp.lcskpp_eq_model sortEv bs hsort hbs ms k hk hs hB

/-- **the translated `lcskpp` returns a valid chain of maximum LCSk++ score**: it does not panic; its path is a valid chain
over the matches; the LCSk++ score of that chain is the reported `score`; the score is the optimum `lcskDP`; no valid chain
over the matches scores more.  (Stated on what the property fixes — *which* optimal chain is returned is not part of the
statement.) -/
theorem lcskpp_source_valid_optimal (sortEv : List Ev → List Ev) (bs : List M → M → Except Nat Nat) (hsort : SortOk sortEv)
    (hbs : BSearchOk bs) (ms : List M) (k : Nat) (hk : 0 < k) (hs : ms.Pairwise lexLt) (hB : Bnd ms k) :
    ∃ path sc dp, Gen.SrcLcskpp.lcskpp sortEv bs ms k = Res.ok (path, sc, dp) ∧ validChain ms k path = true ∧
      score k (pathMatches ms path) = sc ∧ sc = lcskDP ms k ∧
      ∀ c, Chain k c → (∀ e ∈ c, e ∈ ms) → score k c ≤ sc := by
  obtain ⟨r, h1, h2⟩ := GenSrcLcskpp.lcskpp_eq_model sortEv bs hsort hbs ms k hk hs hB
  obtain ⟨r', h1', h3, h4, h5, h6⟩ := lcskpp_model_optimal ms k hk hs
  have : r' = r := by rw [h1] at h1'; cases h1'; rfl
  subst this
  exact ⟨r'.path, r'.score, r'.dp, h2, h3, h4, h5, h6⟩

/-- on an unsorted list the translated function panics at its assertion is *not* claimed; what is claimed for the empty
list: the empty result -/
theorem lcskpp_source_empty (sortEv : List Ev → List Ev) (bs : List M → M → Except Nat Nat) (k : Nat) :
    Gen.SrcLcskpp.lcskpp sortEv bs [] k = Res.ok ([], 0, []) := by
  simp [Gen.SrcLcskpp.lcskpp]

/-- the translated `FenwickTree::new` (`vec![T::default(); len + 1]`) is the model's `new` -/
theorem fenwick_new_source_eq_model (len : Nat) (h : len + 1 < 2 ^ 64) :
    Gen.SrcFenwickNew.new ((0, 0) : Nat × Nat) len = Res.ok (Model.Fenwick.new (0, 0) len) :=
  GenSrcLcskpp.fenwickNew_eq_model _ len h

/-- the contracts are satisfiable: merge sort by the derived order, first-position search -/
theorem lcskpp_source_contracts_satisfiable : SortOk stdSortEv ∧ BSearchOk stdBsM := ⟨stdSortEv_ok, stdBsM_ok⟩

example : ∃ path dp, Gen.SrcLcskpp.lcskpp stdSortEv stdBsM [(0, 0), (1, 1), (2, 2), (5, 5), (6, 9)] 3 = Res.ok (path, 8, dp) ∧
    validChain [(0, 0), (1, 1), (2, 2), (5, 5), (6, 9)] 3 path = true := by
  obtain ⟨path, sc, dp, h1, h2, _, h4, _⟩ := lcskpp_source_valid_optimal stdSortEv stdBsM stdSortEv_ok stdBsM_ok
    [(0, 0), (1, 1), (2, 2), (5, 5), (6, 9)] 3 (by decide) (by simp [lexLt])
    ⟨by decide, by intro m hm; simp at hm; rcases hm with rfl | rfl | rfl | rfl | rfl <;> decide⟩
  have : sc = 8 := by rw [h4]; decide
  subst this
  exact ⟨path, dp, h1, h2⟩

end lcskpp_source

/-! ## `sdpkpp` and `sdpkpp_union_lcskpp_path` (mirror models `RbV/Model/Sdpkpp.lean`) -/
section sdpkpp_model
open RbV.Model.Lcskpp RbV.Model.Sdpkpp RbV.Lemmas.Lcskpp RbV.Lemmas.Sdpkpp

/-- **the mirror model of `sdpkpp` returns a valid chain** — for every strictly sorted match list, every `k ≥ 1` and all
scoring parameters (`match_score`, magnitudes of `gap_open` / `gap_extend`): no assertion failure, the traceback ends by
its own condition, every index is in range and every step is a diagonal continuation by one or a start at least `k`
later in both sequences; the chain is non-empty when there are matches and lists its indices in ascending order.
(Validity only — the property does not fix the gap-penalised score.) -/
theorem sdpkpp_model_valid (ms : List M) (k msc gapOpen gapExtend : Nat) (hk : 0 < k) (hs : ms.Pairwise lexLt) :
    ∃ r, sdpkpp ms k msc gapOpen gapExtend = .ok r ∧ validChain ms k r.path = true ∧ (ms ≠ [] → r.path ≠ []) ∧
      r.path.Pairwise (· < ·) :=
  sdpkpp_model_ok msc gapOpen gapExtend hk hs

/-- what the Fenwick tree over `PrevPtr` records needs from C18: the record maximum is associative, commutative and has
the default record as identity (so a query is the maximum of the updates of the prefix) -/
theorem prevptr_max_is_monoid :
    (∀ a b c : PrevPtr, maxPP (maxPP a b) c = maxPP a (maxPP b c)) ∧ (∀ a b : PrevPtr, maxPP a b = maxPP b a) ∧
    (∀ a : PrevPtr, maxPP dfltPP a = a) :=
  ⟨maxPP_assoc, maxPP_comm, maxPP_id⟩

/-- **splicing is sound**: for any two valid chains, replacing the part of the first between the first and the last
match of the second (looked up in the first; nothing cut on the side where the lookup fails) by the second chain gives a
valid chain -/
theorem union_of_valid_chains_valid (ms : List M) (k : Nat) (lp sp : List Nat) (hl : validChain ms k lp = true)
    (hsp : validChain ms k sp = true) (first last : Nat) (hf : sp.head? = some first) (hla : sp.getLast? = some last) :
    validChain ms k (lp.take ((findIdx first 0 lp).getD 0) ++ sp ++
      lp.drop (match findIdx last 0 lp with | some ind => ind + 1 | none => lp.length)) = true :=
  union_valid ms k lp sp hl hsp first last hf hla

/-- **the mirror model of `sdpkpp_union_lcskpp_path` returns a valid chain** for every strictly sorted match list,
`k ≥ 1` and all scoring parameters -/
theorem union_model_valid (ms : List M) (k msc gapOpen gapExtend : Nat) (hk : 0 < k) (hs : ms.Pairwise lexLt) :
    ∃ u, unionPath ms k msc gapOpen gapExtend = .ok u ∧ validChain ms k u = true :=
  unionPath_model_ok msc gapOpen gapExtend hk hs

example : ∃ r, sdpkpp [(0, 0), (1, 1), (2, 2), (5, 5), (6, 9)] 3 1 2 1 = .ok r ∧
    validChain [(0, 0), (1, 1), (2, 2), (5, 5), (6, 9)] 3 r.path = true ∧ r.path ≠ [] := by
  obtain ⟨r, h1, h2, h3, _⟩ := sdpkpp_model_valid [(0, 0), (1, 1), (2, 2), (5, 5), (6, 9)] 3 1 2 1 (by decide) (by simp [lexLt])
  exact ⟨r, h1, h2, h3 (by simp)⟩

example : validChain [(0, 0), (1, 1), (2, 2), (5, 5), (6, 9)] 3 [0, 1, 4] = true ∧
    validChain [(0, 0), (1, 1), (2, 2), (5, 5), (6, 9)] 3 [1, 2, 3] = true ∧
    ([0, 1, 4].take ((findIdx 1 0 [0, 1, 4]).getD 0) ++ [1, 2, 3] ++
      [0, 1, 4].drop (match findIdx 3 0 [0, 1, 4] with | some ind => ind + 1 | none => 3)) = [0, 1, 2, 3] := by decide

end sdpkpp_model

/-! ## `sdpkpp_union_lcskpp_path`, `PrevPtr::new` — the source text (`RbV/Gen/SrcSdpkpp.lean`, builder gensparse) -/
section union_source
open RbV.Rs RbV.Model.Lcskpp RbV.Model.Sdpkpp RbV.Lemmas.Lcskpp RbV.Lemmas.Sdpkpp RbV.Thm.GenSrcLcskpp RbV.Thm.GenSrcSdpkpp

/-- **`sdpkpp_union_lcskpp_path` as written in the source** calls the translated `lcskpp` and `sdpkpp`; whatever they return
(`lcskpp` path ascending, `sdpkpp` path non-empty) the result is the splice `lcskpp.path[..pre] ++ sdpkpp.path ++
lcskpp.path[post..]` the mirror model computes, with `pre` / `post` decided by the two `binary_search` calls (contract
`Rs.BSearchOk`; the insertion point of an `Err` is not used); no index of the copy loops is out of range -/
theorem union_source_eq_splice (sortEv : List Ev → List Ev) (bsM : List M → M → Except Nat Nat) (bsN : List Nat → Nat → Except Nat Nat)
    (hbsN : BSearchOk bsN) (ms : List M) (k msc : Nat) (go ge : Int) (hne : ms ≠ [])
    {lp sp : List Nat} {ls ss : Nat} {ld sd : List (Nat × Int)} {first last : Nat}
    (hl : Gen.SrcLcskpp.lcskpp sortEv bsM ms k = Res.ok (lp, ls, ld))
    (hsd : Gen.SrcSdpkpp.sdpkpp sortEv bsM bsN ms k msc go ge = Res.ok (sp, ss, sd))
    (hasc : lp.Pairwise (· < ·)) (hf : sp.head? = some first) (hla : sp.getLast? = some last) (hlen : lp.length < 2 ^ 63) :
    Gen.SrcSdpkpp.unionPath sortEv bsM bsN ms k msc go ge
      = Res.ok (lp.take ((findIdx first 0 lp).getD 0) ++ sp ++
          lp.drop (match findIdx last 0 lp with | some ind => ind + 1 | none => lp.length)) :=
  GenSrcSdpkpp.unionPath_eq_splice sortEv bsM bsN hbsN ms k msc go ge hne hl hsd hasc hf hla hlen

/-- `PrevPtr::new` as written in the source = the model's record (as the tuple in field order) when the plane fits `u32` -/
theorem prevptr_new_source_eq_model (sortEv : List Ev → List Ev) (bsM : List M → M → Except Nat Nat) (bsN : List Nat → Nat → Except Nat Nat)
    (sc x y id ge : Nat) (h : sc + (x + y) * ge < 2 ^ 32) (hxy : x + y < 2 ^ 32) :
    Gen.SrcSdpkpp.prevPtrNew sortEv bsM bsN sc x y id ge = Res.ok (toT (PrevPtr.new sc x y id ge)) :=
  GenSrcSdpkpp.prevPtrNew_eq_model sortEv bsM bsN sc x y id ge h hxy

/-- **`sdpkpp` as written in the source = the mirror model** (path, score, whole `dp_vector`; gap parameters given by their
magnitudes: `gap_open = -gO`, `gap_extend = -gE`), for every strictly sorted match list, `k ≥ 1` and sizes `BndS` (those of
`lcskpp`; `gO, gE < 2³¹`; `len·k·match_score + 2·n·gE + gO < 2³²` and `2·n < 2³²` with `n = max (x + k, y + k)`): no panic —
the assertion on the gap parameters holds, `cur_x - prev_x` / `cur_y - prev_y` do not underflow, no `u32` sum or product
(`k * match_score`, `gap * _gap_extend`, `d * gap_extend` in `PrevPtr::new`) overflows — and the traceback ends by itself.
Outside `BndS` the Rust code *can* overflow (see docs/notes/C19.md). -/
theorem sdpkpp_source_eq_model (sortEv : List Ev → List Ev) (bsM : List M → M → Except Nat Nat) (bsN : List Nat → Nat → Except Nat Nat)
    (hsort : SortOk sortEv) (hbs : BSearchOk bsM) (ms : List M) (k msc gO gE : Nat) (hk : 0 < k) (hs : ms.Pairwise lexLt)
    (hS : BndS ms k msc gO gE) :
    ∃ r, sdpkpp ms k msc gO gE = .ok r ∧
      Gen.SrcSdpkpp.sdpkpp sortEv bsM bsN ms k msc (-(gO : Int)) (-(gE : Int)) = Res.ok (r.path, r.score, r.dp) :=
  GenSrcSdpkpp.sdpkpp_eq_model sortEv bsM bsN hsort hbs ms k msc gO gE hk hs hS

/-- **the translated `sdpkpp` returns a valid chain** (non-empty when there are matches, indices ascending) -/
theorem sdpkpp_source_valid (sortEv : List Ev → List Ev) (bsM : List M → M → Except Nat Nat) (bsN : List Nat → Nat → Except Nat Nat)
    (hsort : SortOk sortEv) (hbs : BSearchOk bsM) (ms : List M) (k msc gO gE : Nat) (hk : 0 < k) (hs : ms.Pairwise lexLt)
    (hS : BndS ms k msc gO gE) :
    ∃ path sc dp, Gen.SrcSdpkpp.sdpkpp sortEv bsM bsN ms k msc (-(gO : Int)) (-(gE : Int)) = Res.ok (path, sc, dp) ∧
      validChain ms k path = true ∧ (ms ≠ [] → path ≠ []) ∧ path.Pairwise (· < ·) := by
  obtain ⟨r, h1, h2⟩ := GenSrcSdpkpp.sdpkpp_eq_model sortEv bsM bsN hsort hbs ms k msc gO gE hk hs hS
  obtain ⟨r', h1', hv, hne, hasc⟩ := sdpkpp_model_ok msc gO gE hk hs
  have : r' = r := by rw [h1] at h1'; cases h1'; rfl
  subst this
  exact ⟨_, _, _, h2, hv, hne, hasc⟩

theorem ascending_length_le (n : Nat) : ∀ (l : List Nat) (b : Nat), l.Pairwise (· < ·) → (∀ x ∈ l, b ≤ x ∧ x < n) → b ≤ n →
    b + l.length ≤ n := by
  intro l
  induction l with
  | nil => intro b _ _ h; simpa using h
  | cons a t ih =>
    intro b hp hb _
    rw [List.pairwise_cons] at hp
    have ha := hb a (by simp)
    have := ih (a + 1) hp.2 (fun x hx => ⟨hp.1 x hx, (hb x (by simp [hx])).2⟩) (by omega)
    simp only [List.length_cons]; omega

/-- **the translated `sdpkpp_union_lcskpp_path` returns a valid chain** — through the translated `lcskpp` and the translated
`sdpkpp` (both proved equal to their models) and the splice; no panic -/
theorem union_source_valid (sortEv : List Ev → List Ev) (bsM : List M → M → Except Nat Nat) (bsN : List Nat → Nat → Except Nat Nat)
    (hsort : SortOk sortEv) (hbsM : BSearchOk bsM) (hbsN : BSearchOk bsN) (ms : List M) (k msc gO gE : Nat) (hk : 0 < k)
    (hs : ms.Pairwise lexLt) (hS : BndS ms k msc gO gE) :
    ∃ u, Gen.SrcSdpkpp.unionPath sortEv bsM bsN ms k msc (-(gO : Int)) (-(gE : Int)) = Res.ok u ∧ validChain ms k u = true := by
  by_cases hne : ms = []
  · subst hne
    exact ⟨[], by simp [Gen.SrcSdpkpp.unionPath], by simp [validChain, pathMatches, chainB]⟩
  · obtain ⟨rl, hl1, hl2⟩ := GenSrcLcskpp.lcskpp_eq_model sortEv bsM hsort hbsM ms k hk hs hS.base
    obtain ⟨rl', hl1', _, hlv, _, _, hlasc⟩ := lcskpp_model_ok hk hs
    have e1 : rl' = rl := by rw [hl1] at hl1'; cases hl1'; rfl
    subst e1
    obtain ⟨rs, hs1, hs2⟩ := GenSrcSdpkpp.sdpkpp_eq_model sortEv bsM bsN hsort hbsM ms k msc gO gE hk hs hS
    obtain ⟨rs', hs1', hsv, hsne, _⟩ := sdpkpp_model_ok msc gO gE hk hs
    have e2 : rs' = rs := by rw [hs1] at hs1'; cases hs1'; rfl
    subst e2
    have hpne := hsne hne
    obtain ⟨first, hf⟩ : ∃ a, rs'.path.head? = some a := by
      cases hp : rs'.path with
      | nil => exact absurd hp hpne
      | cons a t => exact ⟨a, rfl⟩
    obtain ⟨last, hla⟩ : ∃ a, rs'.path.getLast? = some a := by
      cases hp : rs'.path.getLast? with
      | none => rw [List.getLast?_eq_none_iff] at hp; exact absurd hp hpne
      | some a => exact ⟨a, rfl⟩
    have hlen : rl'.path.length < 2 ^ 63 := by
      have hall : ∀ x ∈ rl'.path, 0 ≤ x ∧ x < ms.length := by
        intro x hx
        have := ((validChain_iff' ms k rl'.path).mp hlv).1 x hx
        omega
      have := ascending_length_le ms.length rl'.path 0 hlasc hall (by omega)
      have := hS.base.len
      omega
    exact ⟨_, GenSrcSdpkpp.unionPath_eq_splice sortEv bsM bsN hbsN ms k msc _ _ hne hl2 hs2 hlasc hf hla hlen,
      union_valid ms k rl'.path rs'.path hlv hsv first last hf hla⟩

example : ∃ u, Gen.SrcSdpkpp.unionPath stdSortEv stdBsM stdBsN [(0, 0), (1, 1), (2, 2), (5, 5), (6, 9)] 3 1 (-2) (-1) = Res.ok u ∧
    validChain [(0, 0), (1, 1), (2, 2), (5, 5), (6, 9)] 3 u = true := by
  have hn : nFrom 3 0 [(0, 0), (1, 1), (2, 2), (5, 5), (6, 9)] = 12 := by decide
  exact union_source_valid stdSortEv stdBsM stdBsN stdSortEv_ok stdBsM_ok stdBsN_ok [(0, 0), (1, 1), (2, 2), (5, 5), (6, 9)] 3 1 2 1
    (by decide) (by simp [lexLt])
    ⟨⟨by decide, by intro m hm; simp at hm; rcases hm with rfl | rfl | rfl | rfl | rfl <;> decide⟩, by decide, by decide,
      by rw [hn]; decide, by rw [hn]; decide⟩

example : Gen.SrcSdpkpp.prevPtrNew stdSortEv stdBsM (fun _ _ => .error 0) 7 3 4 2 5 = Res.ok (42, 7, 7, 2, 3, 4) := by decide

end union_source

section expand_then_chain
open RbV.Model.Expand RbV.Model.Lcskpp

/-- composition: chaining the expansion with the `lcskpp` model is optimal over the expanded list -/
theorem lcskpp_on_expansion_optimal (seq1 seq2 : List Nat) (k : Nat) (ms : List M) (allowed : Nat) (hk : 0 < k)
    (hs : ms.Pairwise lexLt) :
    ∃ ex r, expandKmerMatches seq1 seq2 k ms allowed = .ok ex ∧ lcskpp ex k = .ok r ∧ validChain ex k r.path = true ∧
      r.score = lcskDP ex k :=
  let ⟨ex, h1, h2, _⟩ := expand_model_sorted seq1 seq2 k ms allowed hs
  let ⟨r, h3, h4, _, h5, _⟩ := lcskpp_model_optimal ex k hk h2
  ⟨ex, r, h1, h3, h4, h5⟩

end expand_then_chain

/-- the score counts `k` for the first match and every non-overlapping step and `1` for a diagonal continuation -/
theorem score_counts (k : Nat) (a b : M) (r : List M) :
    score k [] = 0 ∧ score k [a] = k ∧
    score k (a :: b :: r) = (if a.1 + k ≤ b.1 ∧ a.2 + k ≤ b.2 then k else 1) + score k (b :: r) := by
  refine ⟨rfl, rfl, ?_⟩
  simp only [score, step, nonov, Bool.and_eq_true, decide_eq_true_eq]

example : lcskDP [(0, 0), (1, 1), (2, 2), (5, 5), (6, 9)] 3 = 3 + 1 + 1 + 3 ∧
    score 3 (pathMatches [(0, 0), (1, 1), (2, 2), (5, 5), (6, 9)] [0, 1, 2, 3]) = 8 := by decide

end RbV.Thm.C19
