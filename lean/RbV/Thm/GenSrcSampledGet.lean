import RbV.Gen.SrcSampledGet
import RbV.Model.SampledGet
import RbV.Thm.GenSrcBasic
import RbV.Thm.GenSrcLess
/-!
# The translated text of `SampledSuffixArray::get` follows the mirror model `Sampled.getGo` step by step

`RbV/Gen/SrcSampledGet.lean` is regenerated from `src/data_structures/suffix_array.rs` by `tools/rs2lean.py` on every
`./check C03`.  The `loop` with its two `return`s is a recursive helper on fuel `len + 1` (the model's fuel);
`self.extra_rows[&pos]` is the abstract partial lookup `extraLookup pos` followed by `.unwrap()` (a missing key
panics); `self.occ.borrow().get(self.bwt.borrow(), r, c)` is the abstract `occF r c`; `self.len()` the abstract `len`.

The model answers `none` where the code panics or runs out of fuel, so the statement is: **whenever the model returns
`some v`, the translated function returns `ok (some v)`** — no panic (`pos % s`, `sample[pos / s]`, `bwt[pos]`, the
hash-map lookup, `less[c]`, `pos - 1`, the three additions) and enough fuel — provided every walk step stays inside the
BWT (`hstep`: `less[c] + occ(pos - 1, c) < n` on unsampled non-sentinel rows; true for the exact `less`/`occ`), every
BWT symbol indexes the `less` array, suffix-array entries are positions, and `n + 1 < 2^63`.
-/
-- the simp sets name every fact a harmless rewrite of the Rust text may need; on the pinned text some are unused
set_option linter.unusedSimpArgs false

namespace RbV.Thm.GenSrcSampledGet
open RbV RbV.Rs RbV.Gen.SrcSampledGet RbV.Thm.GenSrc RbV.Sampled

theorem mem_sampleVec (sa : List Nat) (s x : Nat) (h : x ∈ sampleVec sa s) : ∃ i, x = sa.getD i 0 := by
  unfold sampleVec at h
  obtain ⟨i, _, hi⟩ := List.mem_map.mp h
  exact ⟨i, hi.symm⟩

theorem extraRow_some (bwt sa : List Nat) (s sent pos x : Nat) (h : extraRow bwt sa s sent pos = some x) :
    x = sa.getD pos 0 := by
  unfold extraRow at h
  split at h
  · exact (Option.some.inj h).symm
  · exact absurd h (by simp)

variable (occF : Nat → Nat → Nat) (len : Nat)

/-- the translated `loop` follows `getGo` -/
theorem loop_eq_model (bwt sa : List Nat) (s sent : Nat) (lessA : List Nat) (hs : 0 < s)
    (hsa : ∀ p, sa.getD p 0 < bwt.length) (hsym : ∀ c ∈ bwt, c < lessA.length)
    (hstep : ∀ pos, pos < bwt.length → pos % s ≠ 0 → bwt.getD pos 0 ≠ sent →
      lessA.getD (bwt.getD pos 0) 0 + occF (pos - 1) (bwt.getD pos 0) < bwt.length)
    (hn : bwt.length < 2 ^ 63) :
    ∀ (f pos off v : Nat), pos < bwt.length → off + f < 2 ^ 63 →
      getGo bwt sa s sent lessA occF f pos off = some v →
      get_loop1 (extraRow bwt sa s sent) occF len s (sampleVec sa s) bwt sent lessA f (pos, off) = Res.ok (some v) := by
  intro f
  induction f with
  | zero => intro pos off v _ _ h; simp [getGo] at h
  | succ f ih =>
    intro pos off v hpos hoff h
    have e1 : Rs.rem pos s = Res.ok (pos % s) := Rs.rem_ok hs
    have e2 : Rs.div pos s = Res.ok (pos / s) := Rs.div_ok hs
    simp only [getGo] at h
    by_cases hmod : pos % s = 0
    · rw [if_pos hmod] at h
      obtain ⟨x, hx, hv⟩ := Option.map_eq_some_iff.mp h
      obtain ⟨i, hxi⟩ := mem_sampleVec sa s x (List.mem_of_getElem? hx)
      have hxn : x < bwt.length := hxi ▸ hsa i
      have e3 : Rs.idx (sampleVec sa s) (pos / s) = Res.ok x := Rs.idx_of_getElem? hx
      have e4 : Rs.add 64 x off = Res.ok (x + off) := Rs.add_ok (by omega)
      have e4' : Rs.add 64 off x = Res.ok (x + off) := by rw [Nat.add_comm x]; exact Rs.add_ok (by omega)
      have hm' : (0 : Nat) = pos % s := hmod.symm
      simp [get_loop1, e1, e2, e3, e4, e4', hmod, ← hv]
    · rw [if_neg hmod] at h
      have hmod' : ¬ 0 = pos % s := fun e => hmod e.symm
      have hpos1 : 1 ≤ pos := by
        rcases Nat.eq_zero_or_pos pos with h0 | h0
        · subst h0; simp at hmod
        · exact h0
      have e3 : Rs.idx bwt pos = Res.ok (bwt.getD pos 0) := idx_getD bwt pos 0 hpos
      by_cases hc : bwt.getD pos 0 = sent
      · simp only [hc, if_true] at h
        obtain ⟨x, hx, hv⟩ := Option.map_eq_some_iff.mp h
        have hxn : x < bwt.length := (extraRow_some bwt sa s sent pos x hx) ▸ hsa pos
        have e4 : Rs.expect (extraRow bwt sa s sent pos) = Res.ok x := by rw [hx]; rfl
        have e5 : Rs.add 64 x off = Res.ok (x + off) := Rs.add_ok (by omega)
        have e5' : Rs.add 64 off x = Res.ok (x + off) := by rw [Nat.add_comm x]; exact Rs.add_ok (by omega)
        simp [-List.getD_eq_getElem?_getD, get_loop1, e1, e3, e4, e5, e5', hmod, hmod', hc, ← hv]
      · simp only [hc, if_false] at h
        have hc' : ¬ sent = bwt.getD pos 0 := fun e => hc e.symm
        have hcm : bwt.getD pos 0 < lessA.length := by
          rw [getD_of_lt bwt pos 0 hpos]; exact hsym _ (List.getElem_mem hpos)
        have hst := hstep pos hpos hmod hc
        have e4 : Rs.idx lessA (bwt.getD pos 0) = Res.ok (lessA.getD (bwt.getD pos 0) 0) := idx_getD lessA _ 0 hcm
        have e5 : Rs.sub pos 1 = Res.ok (pos - 1) := Rs.sub_ok hpos1
        have e6 : Rs.add 64 (lessA.getD (bwt.getD pos 0) 0) (occF (pos - 1) (bwt.getD pos 0))
            = Res.ok (lessA.getD (bwt.getD pos 0) 0 + occF (pos - 1) (bwt.getD pos 0)) := Rs.add_ok (by omega)
        have e6' : Rs.add 64 (occF (pos - 1) (bwt.getD pos 0)) (lessA.getD (bwt.getD pos 0) 0)
            = Res.ok (lessA.getD (bwt.getD pos 0) 0 + occF (pos - 1) (bwt.getD pos 0)) := by
          rw [Nat.add_comm (lessA.getD _ _)]; exact Rs.add_ok (by omega)
        have e7 : Rs.add 64 off 1 = Res.ok (off + 1) := Rs.add_ok (by omega)
        have e7' : Rs.add 64 1 off = Res.ok (off + 1) := by rw [Nat.add_comm off]; exact Rs.add_ok (by omega)
        have := ih _ (off + 1) v hst (by omega) h
        simp [-List.getD_eq_getElem?_getD, get_loop1, e1, e3, e4, e5, e6, e6', e7, e7', hmod, hmod', hc, hc', this]

/-- **`SampledSuffixArray::get` as written in the source returns what the mirror model `sampledGet` returns**, whenever
that is `some v` (the model's `none` = failed lookup or exhausted fuel; the theorems about the model show that it does
not occur) -/
theorem get_eq_model (bwt sa : List Nat) (s sent : Nat) (lessA : List Nat) (hs : 0 < s)
    (hsa : ∀ p, sa.getD p 0 < bwt.length) (hsym : ∀ c ∈ bwt, c < lessA.length)
    (hstep : ∀ pos, pos < bwt.length → pos % s ≠ 0 → bwt.getD pos 0 ≠ sent →
      lessA.getD (bwt.getD pos 0) 0 + occF (pos - 1) (bwt.getD pos 0) < bwt.length)
    (hn : bwt.length + 1 < 2 ^ 63) (i v : Nat) (h : sampledGet bwt sa s sent lessA occF i = some v) :
    get (extraRow bwt sa s sent) occF bwt.length bwt lessA (sampleVec sa s) s sent i = Res.ok (some v) := by
  unfold sampledGet at h
  by_cases hi : i < bwt.length
  · rw [if_pos hi] at h
    have := loop_eq_model occF bwt.length bwt sa s sent lessA hs hsa hsym hstep (by omega) (bwt.length + 1) i 0 v hi
      (by omega) h
    simp [Gen.SrcSampledGet.get, hi, this]
  · rw [if_neg hi] at h; exact absurd h (by simp)

/-- a row outside the array: `None` -/
theorem get_out_of_range (extraLookup : Nat → Option Nat) (bwt lessA sample : List Nat) (s sent i : Nat) (hi : len ≤ i) :
    get extraLookup occF len bwt lessA sample s sent i = Res.ok none := by
  have : ¬ i < len := by omega
  simp [Gen.SrcSampledGet.get, this]

/-- with the exact `less` and `occ`, one LF step from an unsampled row stays inside the BWT: `less[c] + occ(pos - 1, c)`
counts the symbols smaller than `c = bwt[pos]` and the `c`s before row `pos` — row `pos` itself is not among them -/
theorem lf_step_lt (bwt : List Nat) (pos : Nat) (h1 : 1 ≤ pos) (h : pos < bwt.length) :
    lessRef bwt (bwt.getD pos 0) + occRef bwt (pos - 1) (bwt.getD pos 0) < bwt.length := by
  have hsplit : bwt = bwt.take pos ++ bwt.getD pos 0 :: bwt.drop (pos + 1) := by
    rw [getD_of_lt bwt pos 0 h]
    conv => lhs; rw [← List.take_append_drop pos bwt, List.drop_eq_getElem_cons h]
  have := GenSrcLess.slot_lt (bwt.take pos) (bwt.drop (pos + 1)) (bwt.getD pos 0)
  rw [← hsplit] at this
  unfold occRef
  have e : pos - 1 + 1 = pos := by omega
  rw [e]; exact this

end RbV.Thm.GenSrcSampledGet
