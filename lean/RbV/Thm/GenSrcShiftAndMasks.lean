import RbV.Gen.SrcShiftAndMasks
import RbV.Model.ShiftAnd
import RbV.Thm.GenSrcBasic
/-!
# The translated text of `shift_and::masks` equals the mirror model `ShiftAnd.masksLoop`

`RbV/Gen/SrcShiftAndMasks.lean` is regenerated from `src/pattern_matching/shift_and.rs` by `tools/rs2lean.py` on every
`./check C08`.  The generated function updates a 256-entry vector (`masks[c] |= bit`, out of bounds = panic) and shifts
the running bit with `Rs.shl 64` (bits shifted out are dropped, as in Rust); the model keeps the table as a function
`Nat → Nat`.  Bridge: the vector is `tab 256 f = (List.range 256).map f` for the model's `f`; symbols are bytes (`< 256`).
No bound on the pattern length is needed: `masks` itself never panics (the `m ≤ 64` assertion is in `ShiftAnd::new`).
-/
-- the simp sets name every fact a harmless rewrite of the Rust text may need; on the pinned text some are unused
set_option linter.unusedSimpArgs false

namespace RbV.Thm.GenSrcShiftAndMasks
open RbV RbV.Rs RbV.Gen.SrcShiftAndMasks RbV.Thm.GenSrc

/-- one round of `for c in pattern` is the model's `masksStep` -/
theorem for_body_eq (s : ShiftAnd.MState) (c : Nat) (hc : c < 256) :
    masks_for1 (tab 256 s.masks, s.accept, s.bit) c
      = Res.ok (tab 256 (ShiftAnd.masksStep s c).masks, (ShiftAnd.masksStep s c).accept, (ShiftAnd.masksStep s c).bit) := by
  have e1 : Rs.idx (tab 256 s.masks) c = Res.ok (s.masks c) := idx_tab _ _ _ hc
  have e2 : Rs.setIdx (tab 256 s.masks) c (s.masks c ||| s.bit) = Res.ok (tab 256 (ShiftAnd.masksStep s c).masks) := by
    rw [setIdx_tab _ _ _ _ hc]
    congr 2
    funext x
    by_cases hx : x = c
    · simp [ShiftAnd.masksStep, hx]
    · simp [ShiftAnd.masksStep, hx]
  have e3 : Rs.shl 64 s.bit 1 = Res.ok ((s.bit <<< 1) % 2 ^ 64) := Rs.shl_ok (by omega)
  have e4 : (ShiftAnd.masksStep s c).accept = s.bit := rfl
  have e5 : (ShiftAnd.masksStep s c).bit = (s.bit <<< 1) % 2 ^ 64 := rfl
  rw [e4, e5]
  simp [masks_for1, e1, e2, e3]

/-- the translated `for` loop is the model's fold -/
theorem for_eq (p : List Nat) : ∀ (s : ShiftAnd.MState), (∀ c ∈ p, c < 256) →
    p.foldlM masks_for1 (tab 256 s.masks, s.accept, s.bit)
      = Res.ok (tab 256 (p.foldl ShiftAnd.masksStep s).masks, (p.foldl ShiftAnd.masksStep s).accept,
          (p.foldl ShiftAnd.masksStep s).bit) := by
  induction p with
  | nil => intro s _; simp
  | cons c p ih =>
    intro s h
    rw [List.foldlM_cons, List.foldl_cons, for_body_eq s c (h c (by simp)), Res.ok_bind]
    exact ih _ (fun c' hc' => h c' (by simp [hc']))

/-- **`shift_and::masks` as written in the source = `ShiftAnd.masksLoop`** for every pattern of bytes: the translated
function never panics and returns the model's mask table (as the 256-entry vector) and accept mask. -/
theorem masks_eq_model (p : List Nat) (hb : ∀ c ∈ p, c < 256) :
    masks p = Res.ok (tab 256 (ShiftAnd.masksLoop p).masks, (ShiftAnd.masksLoop p).accept) := by
  have h := for_eq p { masks := fun _ => 0, bit := 1, accept := 0 } hb
  simp only [] at h
  simp [masks, tab_const, h, ShiftAnd.masksLoop, -List.reduceReplicate]

end RbV.Thm.GenSrcShiftAndMasks
