import RbV.Ref.MyersHit
import RbV.Lemmas.TracebackSound
/-!
# C10 — Myers traceback yields valid alignments

The driver accepts a reported hit `(start, end, dist, ops)` iff `EditDist.checkHit` holds.  The theorems say that
this test is *exactly* the property's demand on a hit (`HitOK`), for every equivalence relation (ambiguity map,
wildcards), pattern, text and threshold, and that an accepted hit identifies a substring whose edit distance to the
pattern equals the reported distance.  The agreement clauses of C10 (eager / lazy / find_all_end / block-based vs
single-word, refusal of unvisited positions) compare the implementation with itself and are decided in the harness;
the driver only accepts `api:same`.

Helper lemmas and proofs: `RbV/Ref/EditDist.lean`, `RbV/Ref/MyersHit.lean`.
-/
namespace RbV.Thm.C10
open RbV.EditDist

/-- the acceptance function decides the property's demand on one hit: the path consumes exactly the pattern and
`t[start..end]`, labels a column Match only over equivalent and Subst only over non-equivalent symbols, has
`dist` non-match operations, `dist` is the minimum edit distance over all substrings ending at `end-1`, `dist ≤ k` -/
theorem checkHit_iff (eqv : Nat → Nat → Bool) (p t : List Nat) (k : Nat) (h : Hit) :
    checkHit eqv p t k h = true ↔
      (h.start ≤ h.stop ∧ 1 ≤ h.stop ∧ h.stop ≤ t.length ∧
       acost eqv p ((t.take h.stop).drop h.start) h.ops = some h.dist ∧
       IsMinEdAt (unitW eqv) p t (h.stop - 1) h.dist ∧ h.dist ≤ k) :=
  checkHit_iff_HitOK eqv p t k h

/-- **soundness**: an accepted hit identifies a text substring whose edit distance to the pattern equals the
reported distance (≤ by the alignment itself, ≥ because the column value is the minimum over all starts), and no
substring ending at the same position is closer to the pattern -/
theorem checkHit_sound (eqv : Nat → Nat → Bool) (p t : List Nat) (k : Nat) (h : Hit)
    (ok : checkHit eqv p t k h = true) :
    ed (unitW eqv) p ((t.take h.stop).drop h.start) = h.dist ∧ h.dist ≤ k ∧
    (∀ s, s ≤ h.stop → h.dist ≤ ed (unitW eqv) p ((t.take h.stop).drop s)) := by
  have hok := (checkHit_iff_HitOK eqv p t k h).mp ok
  refine ⟨hitOK_ed eqv p t k h hok, hok.2.2.2.2.2, ?_⟩
  intro s hs
  have e : h.stop - 1 + 1 = h.stop := by have := hok.2.1; omega
  have := hok.2.2.2.2.1.1 s (by omega)
  rw [e] at this
  exact this

/-- the number of non-match operations of an accepted path is the reported distance, and the path is an alignment
in the weighted sense used for the optimality theorem of C09 -/
theorem accepted_path_cost (eqv : Nat → Nat → Bool) (p t : List Nat) (k : Nat) (h : Hit)
    (ok : checkHit eqv p t k h = true) :
    wcost (unitW eqv) p ((t.take h.stop).drop h.start) (h.ops.map Op.toW) = some h.dist :=
  acost_wcost eqv h.ops p _ h.dist ((checkHit_iff_HitOK eqv p t k h).mp ok).2.2.2.1

/-- the test against a precomputed column (what the compiled driver evaluates) is the same test -/
theorem checkHitRow_eq (eqv : Nat → Nat → Bool) (p t : List Nat) (k : Nat) (h : Hit) :
    checkHitRow (lastRow (unitW eqv) p t) eqv p t k h = checkHit eqv p t k h := rfl

/-- **[B] the traceback rule is sound.**  `Model.MyersTraceback.traceback` applies the decision rule of
`Traceback::_traceback_at` — test order Subst (diagonal + 1 = current), Ins (upper + 1 = current, the `pv` bit), Del (left
= diagonal − 1, the `mv` bit of the left column), else Match — to the Sellers matrix.  For every end position it yields a
start and a path that the acceptance test accepts: the path consumes exactly the pattern and `t[start..stop]`, labels
Match/Subst correctly and has exactly `D[stop−1]` non-match operations.  (The reconstruction of the three neighbouring
values from the stored `Pv/Mv` words — `adjust_dist`, `adjust_by_mask`, the ring buffer — is not modelled; that part stays
sampled.  The driver compares the model's prediction with every path the implementation returns: tag `tb-model-same`.) -/
theorem traceback_rule_sound (eqv : Nat → Nat → Bool) (p t : List Nat) (k stop : Nat) (h1 : 1 ≤ stop)
    (hs : stop ≤ t.length) (d : Nat) (hd : (lastRow (unitW eqv) p t)[stop - 1]? = some d) (hk : d ≤ k) :
    checkHit eqv p t k ⟨(RbV.Model.MyersTraceback.traceback (unitW eqv) p t stop).1, stop, d,
      (RbV.Model.MyersTraceback.traceback (unitW eqv) p t stop).2⟩ = true := by
  have hrow := RbV.Model.Ukkonen.lastRow_cell (unitW eqv) p t (stop - 1) (by omega)
  have e : stop - 1 + 1 = stop := by omega
  rw [e, hd] at hrow
  injection hrow with hrow
  subst hrow
  exact RbV.Model.MyersTraceback.traceback_checkHit eqv p t k stop h1 hs hk

-- non-vacuity
example : checkHit eqSym [1, 2, 3] [9, 1, 3, 9] 1 ⟨1, 3, 1, [.mat, .ins, .mat]⟩ = true := by decide
example : checkHit eqSym [1, 2, 3] [9, 1, 3, 9] 1 ⟨1, 3, 1, [.mat, .sub, .mat]⟩ = false := by decide
example : checkHit eqSym [1, 2, 3] [9, 1, 3, 9] 1 ⟨0, 3, 2, [.del, .mat, .ins, .mat]⟩ = false := by decide
example : RbV.Model.MyersTraceback.traceback (unitW eqSym) [1, 2, 3] [9, 1, 3, 9] 3 = (1, [.mat, .ins, .mat]) := by decide

end RbV.Thm.C10
