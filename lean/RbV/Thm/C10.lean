import RbV.Ref.MyersHit
import RbV.Lemmas.TracebackSound
import RbV.Lemmas.TracebackRing
import RbV.Lemmas.TracebackScan
/-!
# C10 — Myers traceback yields valid alignments

The driver accepts a reported hit `(start, end, dist, ops)` iff `EditDist.checkHit` holds.  The theorems say that
this test is *exactly* the property's demand on a hit (`HitOK`), for every equivalence relation (ambiguity map,
wildcards), pattern, text and threshold, and that an accepted hit identifies a substring whose edit distance to the
pattern equals the reported distance.  The agreement clauses of C10 (eager / lazy / find_all_end / block-based vs
single-word, refusal of unvisited positions) compare the implementation with itself and are decided in the harness;
the driver only accepts `api:same`.

Helper lemmas and proofs: `RbV/Ref/EditDist.lean`, `RbV/Ref/MyersHit.lean`.
-/
namespace RbV.Thm.C10
open RbV.EditDist

/-- the acceptance function decides the property's demand on one hit: the path consumes exactly the pattern and
`t[start..end]`, labels a column Match only over equivalent and Subst only over non-equivalent symbols, has
`dist` non-match operations, `dist` is the minimum edit distance over all substrings ending at `end-1`, `dist ≤ k` -/
theorem checkHit_iff (eqv : Nat → Nat → Bool) (p t : List Nat) (k : Nat) (h : Hit) :
    checkHit eqv p t k h = true ↔
      (h.start ≤ h.stop ∧ 1 ≤ h.stop ∧ h.stop ≤ t.length ∧
       acost eqv p ((t.take h.stop).drop h.start) h.ops = some h.dist ∧
       IsMinEdAt (unitW eqv) p t (h.stop - 1) h.dist ∧ h.dist ≤ k) :=
  checkHit_iff_HitOK eqv p t k h

/-- **soundness**: an accepted hit identifies a text substring whose edit distance to the pattern equals the
reported distance (≤ by the alignment itself, ≥ because the column value is the minimum over all starts), and no
substring ending at the same position is closer to the pattern -/
theorem checkHit_sound (eqv : Nat → Nat → Bool) (p t : List Nat) (k : Nat) (h : Hit)
    (ok : checkHit eqv p t k h = true) :
    ed (unitW eqv) p ((t.take h.stop).drop h.start) = h.dist ∧ h.dist ≤ k ∧
    (∀ s, s ≤ h.stop → h.dist ≤ ed (unitW eqv) p ((t.take h.stop).drop s)) := by
  have hok := (checkHit_iff_HitOK eqv p t k h).mp ok
  refine ⟨hitOK_ed eqv p t k h hok, hok.2.2.2.2.2, ?_⟩
  intro s hs
  have e : h.stop - 1 + 1 = h.stop := by have := hok.2.1; omega
  have := hok.2.2.2.2.1.1 s (by omega)
  rw [e] at this
  exact this

/-- the number of non-match operations of an accepted path is the reported distance, and the path is an alignment
in the weighted sense used for the optimality theorem of C09 -/
theorem accepted_path_cost (eqv : Nat → Nat → Bool) (p t : List Nat) (k : Nat) (h : Hit)
    (ok : checkHit eqv p t k h = true) :
    wcost (unitW eqv) p ((t.take h.stop).drop h.start) (h.ops.map Op.toW) = some h.dist :=
  acost_wcost eqv h.ops p _ h.dist ((checkHit_iff_HitOK eqv p t k h).mp ok).2.2.2.1

/-- the test against a precomputed column (what the compiled driver evaluates) is the same test -/
theorem checkHitRow_eq (eqv : Nat → Nat → Bool) (p t : List Nat) (k : Nat) (h : Hit) :
    checkHitRow (lastRow (unitW eqv) p t) eqv p t k h = checkHit eqv p t k h := rfl

/-- **[B] the traceback rule is sound.**  `Model.MyersTraceback.traceback` applies the decision rule of
`Traceback::_traceback_at` — test order Subst (diagonal + 1 = current), Ins (upper + 1 = current, the `pv` bit), Del (left
= diagonal − 1, the `mv` bit of the left column), else Match — to the Sellers matrix.  For every end position it yields a
start and a path that the acceptance test accepts: the path consumes exactly the pattern and `t[start..stop]`, labels
Match/Subst correctly and has exactly `D[stop−1]` non-match operations.  (The reconstruction of the three neighbouring
values from the stored `Pv/Mv` words — `adjust_dist`, `adjust_by_mask`, the ring buffer — is the subject of the phase-2
theorems below for the single-word version; for the block-based version it stays sampled.  The driver compares the
model's prediction with every path the implementation returns: tag `tb-model-same`.) -/
theorem traceback_rule_sound (eqv : Nat → Nat → Bool) (p t : List Nat) (k stop : Nat) (h1 : 1 ≤ stop)
    (hs : stop ≤ t.length) (d : Nat) (hd : (lastRow (unitW eqv) p t)[stop - 1]? = some d) (hk : d ≤ k) :
    checkHit eqv p t k ⟨(RbV.Model.MyersTraceback.traceback (unitW eqv) p t stop).1, stop, d,
      (RbV.Model.MyersTraceback.traceback (unitW eqv) p t stop).2⟩ = true := by
  have hrow := RbV.Model.Ukkonen.lastRow_cell (unitW eqv) p t (stop - 1) (by omega)
  have e : stop - 1 + 1 = stop := by omega
  rw [e, hd] at hrow
  injection hrow with hrow
  subst hrow
  exact RbV.Model.MyersTraceback.traceback_checkHit eqv p t k stop h1 hs hk


/-! ## Phase 2: the stored-state traceback of the single-word version

`Model.MyersTraceback` (second half) mirrors `simple.rs: ShortTracebackHandler`, `myers_impl.rs: State::{adjust_dist,
adjust_by_mask, max}` and `traceback.rs: Traceback::{new, add_state, traceback_at, _traceback_at}`: the states vector
(one `State` = `pv`, `mv`, last-row distance per text position, written cyclically into `N` slots after a sentinel and
the initial column), the handler with its two cached states, the single-bit and bit-count distance adjustments, the
reversed cyclic iterator.  `w` = word size, `dmax` = `D::max_value()` of the distance type (255). -/

open RbV.Model.MyersTraceback RbV.Model.Ukkonen in
/-- **[C] the handler reads true cells.**  Take the states the search stores for the text `t` (C09 invariant, proved in
`myers_step`: `pv`/`mv` of a column encode its vertical differences, `dist` its last entry) and run
`_traceback_at(end = stop − 1)`: `init_traceback`, `move_up_left(true)`, then `n` passes through the loop body.  The
handler is then finished (`pos_bitvec = 0`) or its cursor is at a cell (row `i + 1`, column `j`) of the Sellers matrix and
* `block.dist` is the value of that cell, `left_block.dist` the value of the diagonal cell (row `i`, column `j − 1`) — at
  column 0 the left block is the sentinel `State::max()` adjusted to `dmax − (m − i)`;
* the three tests of the loop body are the comparisons of the matrix rule: `left.dist.wrapping_add(1) == block.dist` ⇔
  diagonal + 1 = current (and `j ≥ 1`: never true against the sentinel), `block.pv & pos ≠ 0` ⇔ upper + 1 = current,
  `left.mv & pos ≠ 0` (`move_left_down_if_better`) ⇔ left + 1 = diagonal (and `j ≥ 1`).
* so far it has drawn `stop − j + 2` items from the iterator: the states of columns `stop, …, j − 1` and nothing else.
Every width `w`, pattern `1 ≤ m ≤ w`, equivalence, text, end position; `m < dmax`.  The distances of the model are
unbounded naturals with truncated subtraction: the equalities show that no `-= 1` is executed on 0 and that
`adjust_by_mask` never subtracts more than it has (`adjustByMask_spec`). -/
theorem handler_reads_true_cells (w : Nat) (eqv : Nat → Nat → Bool) (p t : List Nat) (dmax stop n : Nat)
    (hm1 : 1 ≤ p.length) (hw : p.length ≤ w) (hd : p.length < dmax) (hs : stop ≤ t.length) :
    (Handler.after dmax p.length (fun k => (seqStates w eqv p dmax t).getD (stop + 1 - k) ⟨0#w, 0#w, 0⟩) n).pos = 0#w ∨
    ∃ i j, i < p.length ∧ j ≤ stop ∧
      (Handler.after dmax p.length (fun k => (seqStates w eqv p dmax t).getD (stop + 1 - k) ⟨0#w, 0#w, 0⟩) n).pos =
        BitVec.twoPow w i ∧
      (Handler.after dmax p.length (fun k => (seqStates w eqv p dmax t).getD (stop + 1 - k) ⟨0#w, 0#w, 0⟩) n).taken =
        stop - j + 2 ∧
      (fun (h : Handler w) =>
        h.state.dist = cell (unitW eqv) p (t.take j) (i + 1) ∧
        (1 ≤ j → h.left.dist = cell (unitW eqv) p (t.take (j - 1)) i) ∧
        (j = 0 → h.left.dist + (p.length - i) = dmax) ∧
        (((h.left.dist + 1) % (dmax + 1) = h.state.dist) ↔
          (1 ≤ j ∧ cell (unitW eqv) p (t.take (j - 1)) i + 1 = cell (unitW eqv) p (t.take j) (i + 1))) ∧
        (((h.state.pv &&& h.pos) != 0#w) =
          decide (cell (unitW eqv) p (t.take j) i + 1 = cell (unitW eqv) p (t.take j) (i + 1))) ∧
        (((h.left.mv &&& h.pos) != 0#w) =
          decide (1 ≤ j ∧ cell (unitW eqv) p (t.take (j - 1)) (i + 1) + 1 = cell (unitW eqv) p (t.take (j - 1)) i)))
      (Handler.after dmax p.length (fun k => (seqStates w eqv p dmax t).getD (stop + 1 - k) ⟨0#w, 0#w, 0⟩) n) :=
  after_cells w eqv p t dmax stop n hm1 hw hd hs

open RbV.Model.MyersTraceback in
/-- **[C] ring lookup.**  `N ≥ 1` slots are filled cyclically (`positions = (0..N).cycle()`) with any sequence of items,
on top of arbitrary old contents.  The reversed, cyclic iterator of `ShortTracebackHandler::new` started at the slot of
item number `q` yields item number `q − k` at its `k`-th `next()`, for every `k ≤ q` such that fewer than `N` items were
stored from item `q − k` on — i.e. exactly as long as the slot has not been overwritten. -/
theorem ring_read_any (w N : Nat) (hN : 0 < N) (old items : List (RbV.Model.MyersSimple.St w)) (hold : old.length = N)
    (q k : Nat) (hq : q < items.length) (hk : k ≤ q) (hwin : items.length - 1 - (q - k) < N) :
    readStore (storeAll N old 0 items) (q % N) k = items.getD (q - k) ⟨0#w, 0#w, 0⟩ :=
  ring_read N hN old items hold q k hq hk hwin

open RbV.Model.MyersTraceback in
/-- **[C] the ring of `find_all` is large enough for every hit.**  `FullMatches` allocates `N = m + min(k, m) + 2` slots
and only ever starts a traceback at the hit it has just reported (`self.pos`; after an unsuccessful end every accessor
answers `None`).  For a hit ending at `stop − 1` (distance `≤ k`) the traceback reads the current column, the column to
its left and one more column per left move, `stop − start + 2` items in all; each of these reads finds the state of that
column (sequence number `stop + 1 − kk`), whatever the vector contained before the search and however often it has
wrapped around.  For ends that are not hits nothing is promised by `find_all` (and nothing is reachable through its
API); see the `example` below for such an end where the ring has already lost the column.  `find_all_lazy` allocates
`n + 2` slots, which never wrap (`traceback_model_sound_lazy`). -/
theorem ring_lookup_correct (w : Nat) (eqv : Nat → Nat → Bool) (p t : List Nat) (dmax k stop : Nat)
    (old : List (RbV.Model.MyersSimple.St w))
    (hold : old.length = p.length + min k p.length + 2) (h1 : 1 ≤ stop) (hs : stop ≤ t.length)
    (d : Nat) (hdv : (lastRow (unitW eqv) p t)[stop - 1]? = some d) (hk : d ≤ k) :
    stop - (traceback (unitW eqv) p t stop).1 ≤ p.length + min k p.length ∧
    ∀ kk, kk ≤ stop - (traceback (unitW eqv) p t stop).1 + 1 →
      readStore (storeAll (p.length + min k p.length + 2) old 0 (seqStates w eqv p dmax (t.take stop)))
        ((stop + 1) % (p.length + min k p.length + 2)) kk =
      (seqStates w eqv p dmax t).getD (stop + 1 - kk) ⟨0#w, 0#w, 0⟩ := by
  have hrow := RbV.Model.Ukkonen.lastRow_cell (unitW eqv) p t (stop - 1) (by omega)
  have e : stop - 1 + 1 = stop := by omega
  rw [e, hdv] at hrow
  injection hrow with hrow
  have hspan := traceback_span eqv p t stop hs
  rw [← hrow] at hspan
  have hle := (traceback_sound eqv p t stop hs).1
  refine ⟨by omega, ?_⟩
  intro kk hkk
  have hlen := seqStates_length w eqv p dmax (t.take stop)
  have htl : (t.take stop).length = stop := by simp; omega
  rw [ring_read _ (by omega) old _ hold (stop + 1) kk (by omega) (by omega) (by omega)]
  exact seqStates_take w eqv p dmax t stop (stop + 1 - kk) hs (by omega)

open RbV.Model.MyersTraceback in
/-- **[C] the stored-state traceback is sound (eager API).**  `tracebackStore` = search `stop` symbols with `_step`
storing every state in the ring of `N = m + min(k, m) + 2` slots (old contents arbitrary), then `_traceback_at` at the
current slot with the handler of `handler_reads_true_cells`.  For every hit (distance `≤ k`) its result — start
`stop − h_offset`, distance `block.dist`, reversed operation list — is exactly the prediction of the matrix-level rule and
therefore an accepted hit (`traceback_rule_sound`, `checkHit_sound`).  Every width, pattern `1 ≤ m ≤ w`, equivalence,
text, `k`. -/
theorem traceback_model_sound (w : Nat) (eqv : Nat → Nat → Bool) (p t : List Nat) (dmax k stop : Nat)
    (old : List (RbV.Model.MyersSimple.St w)) (hm1 : 1 ≤ p.length) (hw : p.length ≤ w) (hd : p.length < dmax)
    (hold : old.length = p.length + min k p.length + 2) (h1 : 1 ≤ stop) (hs : stop ≤ t.length)
    (d : Nat) (hdv : (lastRow (unitW eqv) p t)[stop - 1]? = some d) (hk : d ≤ k) :
    tracebackStore w eqv p dmax (p.length + min k p.length + 2) old t stop stop =
      ((traceback (unitW eqv) p t stop).1, d, (traceback (unitW eqv) p t stop).2) ∧
    checkHit eqv p t k ⟨(tracebackStore w eqv p dmax (p.length + min k p.length + 2) old t stop stop).1, stop,
      (tracebackStore w eqv p dmax (p.length + min k p.length + 2) old t stop stop).2.1,
      (tracebackStore w eqv p dmax (p.length + min k p.length + 2) old t stop stop).2.2⟩ = true := by
  have hrow := RbV.Model.Ukkonen.lastRow_cell (unitW eqv) p t (stop - 1) (by omega)
  have e : stop - 1 + 1 = stop := by omega
  rw [e, hdv] at hrow
  injection hrow with hrow
  have hspan := traceback_span eqv p t stop hs
  rw [← hrow] at hspan
  have heq := tracebackStore_eq w eqv p dmax (p.length + min k p.length + 2) old t stop stop hm1 hw hd (by omega) hold
    hs (Nat.le_refl _) (by omega)
  rw [← hrow] at heq
  refine ⟨heq, ?_⟩
  rw [heq]
  exact traceback_rule_sound eqv p t k stop h1 hs d hdv hk

open RbV.Model.MyersTraceback in
/-- **[C] … and for the lazy API at every searched end, hit or not.**  `find_all_lazy` allocates `n + 2` slots; after `c`
symbols have been consumed, `_traceback_at` for any end `stop − 1 < c` returns the prediction of the matrix-level rule,
an alignment of cost `D[stop − 1]` accepted without regard to `k` (the documented promise of the single-word version:
"will succeed even if the edit distance at the given position is greater than the maximum distance"). -/
theorem traceback_model_sound_lazy (w : Nat) (eqv : Nat → Nat → Bool) (p t : List Nat) (dmax c stop : Nat)
    (old : List (RbV.Model.MyersSimple.St w)) (hm1 : 1 ≤ p.length) (hw : p.length ≤ w) (hd : p.length < dmax)
    (hold : old.length = t.length + 2) (hc : c ≤ t.length) (h1 : 1 ≤ stop) (hs : stop ≤ c)
    (d : Nat) (hdv : (lastRow (unitW eqv) p t)[stop - 1]? = some d) :
    tracebackStore w eqv p dmax (t.length + 2) old t c stop =
      ((traceback (unitW eqv) p t stop).1, d, (traceback (unitW eqv) p t stop).2) ∧
    checkHit eqv p t d ⟨(tracebackStore w eqv p dmax (t.length + 2) old t c stop).1, stop,
      (tracebackStore w eqv p dmax (t.length + 2) old t c stop).2.1,
      (tracebackStore w eqv p dmax (t.length + 2) old t c stop).2.2⟩ = true := by
  have hrow := RbV.Model.Ukkonen.lastRow_cell (unitW eqv) p t (stop - 1) (by omega)
  have e : stop - 1 + 1 = stop := by omega
  rw [e, hdv] at hrow
  injection hrow with hrow
  have heq := tracebackStore_eq w eqv p dmax (t.length + 2) old t c stop hm1 hw hd (by omega) hold hc hs (by omega)
  rw [← hrow] at heq
  refine ⟨heq, ?_⟩
  rw [heq]
  exact traceback_rule_sound eqv p t d stop h1 (by omega) d hdv (Nat.le_refl _)

open RbV.Model.MyersTraceback in
/-- **[C] the lazy availability test refuses exactly the unsearched positions.**  `traceback_at(e)` answers iff
`e + 2 ≤ self.pos`; with the `n + 2` slots of `find_all_lazy` and `c ≤ n` symbols consumed, `self.pos = c + 1`, so the
`*_at(e)` methods answer iff `e < c`.  (`e + 2` is computed in `usize`; `e ≥ usize::MAX − 1` is outside the model.) -/
theorem lazy_available_iff (n c e : Nat) (hc : c ≤ n) : availableAt (n + 2) c e = true ↔ e < c :=
  availableAt_iff n c e hc

open RbV.Model.MyersTraceback in
/-- the single pass the compiled driver runs (`scanStore`: the vector kept in an `Array` while the text is consumed, as
`FullMatches`/`LazyMatches` do) reports for every wanted end `c` exactly `tracebackStore … t c c`, the function of
`traceback_model_sound` -/
theorem scan_is_model (w : Nat) (eqv : Nat → Nat → Bool) (p : List Nat) (dmax N : Nat)
    (old : List (RbV.Model.MyersSimple.St w)) (t : List Nat) (want : Nat → Bool) :
    scanStore w eqv p dmax N old t want =
      ((List.range (t.length + 1)).filter want).map (fun c => (c, tracebackStore w eqv p dmax N old t c c)) :=
  scanStore_eq w eqv p dmax N old t want

-- non-vacuity
example : checkHit eqSym [1, 2, 3] [9, 1, 3, 9] 1 ⟨1, 3, 1, [.mat, .ins, .mat]⟩ = true := by decide
example : checkHit eqSym [1, 2, 3] [9, 1, 3, 9] 1 ⟨1, 3, 1, [.mat, .sub, .mat]⟩ = false := by decide
example : checkHit eqSym [1, 2, 3] [9, 1, 3, 9] 1 ⟨0, 3, 2, [.del, .mat, .ins, .mat]⟩ = false := by decide
example : RbV.Model.MyersTraceback.traceback (unitW eqSym) [1, 2, 3] [9, 1, 3, 9] 3 = (1, [.mat, .ins, .mat]) := by decide

-- non-vacuity (phase 2); `old` = stale contents of `states_store`
open RbV.Model.MyersTraceback in
example : tracebackStore 8 eqSym [1, 2, 3] 255 6 (List.replicate 6 ⟨0x5a#8, 0x33#8, 7⟩) [9, 1, 3, 9] 3 3 =
    (1, 1, [.mat, .ins, .mat]) := by decide
-- the ring (6 slots) has wrapped around: 11 items stored
open RbV.Model.MyersTraceback in
example : tracebackStore 8 eqSym [1, 2, 3] 255 6 (List.replicate 6 ⟨0x5a#8, 0x33#8, 7⟩) [9, 9, 9, 9, 9, 9, 1, 2, 2, 3] 10 10 =
    (6, 1, [.mat, .mat, .del, .mat]) := by decide
-- lazy store (n + 2 slots), traceback at an end that is not a hit for any k < 3, after 5 of 6 symbols
open RbV.Model.MyersTraceback in
example : tracebackStore 8 eqSym [1, 2, 3] 255 8 (List.replicate 8 ⟨0#8, 0#8, 0⟩) [9, 9, 1, 9, 9, 9] 5 5 =
    (2, 2, [.mat, .sub, .sub]) := by decide
-- the handler after one pass (a Match): cursor at row 2 (`pos = 0b10`) of column 2, `block.dist = D[2][2] = 1`,
-- `left_block.dist = D[1][1] = 1`
open RbV.Model.MyersTraceback in
example : (fun h : Handler 8 => (h.pos, h.state.dist, h.left.dist))
    (Handler.after 255 3 (fun k => (seqStates 8 eqSym [1, 2, 3] 255 [9, 1, 3, 9]).getD (3 + 1 - k) ⟨0#8, 0#8, 0⟩) 1) =
    (0b10#8, 1, 1) := by decide
-- an end that is not a hit (k = 0, D = 3) whose alignment spans m + 3 columns: the ring of `find_all` (m + 0 + 2 = 10
-- slots) has lost the columns the walk needs and the result is not the rule's (an invalid path: Subst over equal
-- symbols).  `find_all` never asks for it; the hypothesis `d ≤ k` of `traceback_model_sound` is needed.
open RbV.Model.MyersTraceback in
example : (tracebackStore 8 eqSym [1, 2, 3, 4, 5, 6, 7, 8] 255 10 (List.replicate 10 ⟨0#8, 0#8, 0⟩)
      [7, 7, 1, 2, 3, 4, 9, 9, 9, 5, 6, 7, 8] 13 13).2.2 ≠
    (traceback (unitW eqSym) [1, 2, 3, 4, 5, 6, 7, 8] [7, 7, 1, 2, 3, 4, 9, 9, 9, 5, 6, 7, 8] 13).2 := by decide
open RbV.Model.MyersTraceback in
example : availableAt 12 5 4 = true ∧ availableAt 12 5 5 = false ∧ availableAt 12 0 0 = false := by decide

end RbV.Thm.C10
