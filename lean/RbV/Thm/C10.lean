import RbV.Ref.MyersHit
import RbV.Lemmas.TracebackSound
import RbV.Lemmas.TracebackRing
import RbV.Lemmas.TracebackScan
import RbV.Lemmas.TracebackLongSound
import RbV.Thm.GenSrcMyersSimple
import RbV.Thm.GenSrcMyersTb
import RbV.Thm.GenSrcMyersTb2
import RbV.Thm.GenSrcMyersTbSound
/-!
# C10 — Myers traceback yields valid alignments

The driver accepts a reported hit `(start, end, dist, ops)` iff `EditDist.checkHit` holds.  The theorems say that
this test is *exactly* the property's demand on a hit (`HitOK`), for every equivalence relation (ambiguity map,
wildcards), pattern, text and threshold, and that an accepted hit identifies a substring whose edit distance to the
pattern equals the reported distance.  The agreement clauses of C10 (eager / lazy / find_all_end / block-based vs
single-word, refusal of unvisited positions) compare the implementation with itself and are decided in the harness;
the driver only accepts `api:same`.

Helper lemmas and proofs: `RbV/Ref/EditDist.lean`, `RbV/Ref/MyersHit.lean`.
-/
namespace RbV.Thm.C10
open RbV.EditDist

/-- the acceptance function decides the property's demand on one hit: the path consumes exactly the pattern and
`t[start..end]`, labels a column Match only over equivalent and Subst only over non-equivalent symbols, has
`dist` non-match operations, `dist` is the minimum edit distance over all substrings ending at `end-1`, `dist ≤ k` -/
theorem checkHit_iff (eqv : Nat → Nat → Bool) (p t : List Nat) (k : Nat) (h : Hit) :
    checkHit eqv p t k h = true ↔
      (h.start ≤ h.stop ∧ 1 ≤ h.stop ∧ h.stop ≤ t.length ∧
       acost eqv p ((t.take h.stop).drop h.start) h.ops = some h.dist ∧
       IsMinEdAt (unitW eqv) p t (h.stop - 1) h.dist ∧ h.dist ≤ k) :=
  checkHit_iff_HitOK eqv p t k h

/-- **soundness**: an accepted hit identifies a text substring whose edit distance to the pattern equals the
reported distance (≤ by the alignment itself, ≥ because the column value is the minimum over all starts), and no
substring ending at the same position is closer to the pattern -/
theorem checkHit_sound (eqv : Nat → Nat → Bool) (p t : List Nat) (k : Nat) (h : Hit)
    (ok : checkHit eqv p t k h = true) :
    ed (unitW eqv) p ((t.take h.stop).drop h.start) = h.dist ∧ h.dist ≤ k ∧
    (∀ s, s ≤ h.stop → h.dist ≤ ed (unitW eqv) p ((t.take h.stop).drop s)) := by
  have hok := (checkHit_iff_HitOK eqv p t k h).mp ok
  refine ⟨hitOK_ed eqv p t k h hok, hok.2.2.2.2.2, ?_⟩
  intro s hs
  have e : h.stop - 1 + 1 = h.stop := by have := hok.2.1; omega
  have := hok.2.2.2.2.1.1 s (by omega)
  rw [e] at this
  exact this

/-- the number of non-match operations of an accepted path is the reported distance, and the path is an alignment
in the weighted sense used for the optimality theorem of C09 -/
theorem accepted_path_cost (eqv : Nat → Nat → Bool) (p t : List Nat) (k : Nat) (h : Hit)
    (ok : checkHit eqv p t k h = true) :
    wcost (unitW eqv) p ((t.take h.stop).drop h.start) (h.ops.map Op.toW) = some h.dist :=
  acost_wcost eqv h.ops p _ h.dist ((checkHit_iff_HitOK eqv p t k h).mp ok).2.2.2.1

/-- the test against a precomputed column (what the compiled driver evaluates) is the same test -/
theorem checkHitRow_eq (eqv : Nat → Nat → Bool) (p t : List Nat) (k : Nat) (h : Hit) :
    checkHitRow (lastRow (unitW eqv) p t) eqv p t k h = checkHit eqv p t k h := rfl

/-- **[B] the traceback rule is sound.**  `Model.MyersTraceback.traceback` applies the decision rule of
`Traceback::_traceback_at` — test order Subst (diagonal + 1 = current), Ins (upper + 1 = current, the `pv` bit), Del (left
= diagonal − 1, the `mv` bit of the left column), else Match — to the Sellers matrix.  For every end position it yields a
start and a path that the acceptance test accepts: the path consumes exactly the pattern and `t[start..stop]`, labels
Match/Subst correctly and has exactly `D[stop−1]` non-match operations.  (The reconstruction of the three neighbouring
values from the stored `Pv/Mv` words — `adjust_dist`, `adjust_by_mask`, the ring buffer — is the subject of the phase-2
theorems below for the single-word version and of the phase-3 theorems for the block-based version.  The driver compares
the model's prediction with every path the implementation returns: tag `tb-model-same`.) -/
theorem traceback_rule_sound (eqv : Nat → Nat → Bool) (p t : List Nat) (k stop : Nat) (h1 : 1 ≤ stop)
    (hs : stop ≤ t.length) (d : Nat) (hd : (lastRow (unitW eqv) p t)[stop - 1]? = some d) (hk : d ≤ k) :
    checkHit eqv p t k ⟨(RbV.Model.MyersTraceback.traceback (unitW eqv) p t stop).1, stop, d,
      (RbV.Model.MyersTraceback.traceback (unitW eqv) p t stop).2⟩ = true := by
  have hrow := RbV.Model.Ukkonen.lastRow_cell (unitW eqv) p t (stop - 1) (by omega)
  have e : stop - 1 + 1 = stop := by omega
  rw [e, hd] at hrow
  injection hrow with hrow
  subst hrow
  exact RbV.Model.MyersTraceback.traceback_checkHit eqv p t k stop h1 hs hk


/-! ## Phase 2: the stored-state traceback of the single-word version

`Model.MyersTraceback` (second half) mirrors `simple.rs: ShortTracebackHandler`, `myers_impl.rs: State::{adjust_dist,
adjust_by_mask, max}` and `traceback.rs: Traceback::{new, add_state, traceback_at, _traceback_at}`: the states vector
(one `State` = `pv`, `mv`, last-row distance per text position, written cyclically into `N` slots after a sentinel and
the initial column), the handler with its two cached states, the single-bit and bit-count distance adjustments, the
reversed cyclic iterator.  `w` = word size, `dmax` = `D::max_value()` of the distance type (255). -/

open RbV.Model.MyersTraceback RbV.Model.Ukkonen in
/-- **[C] the handler reads true cells.**  Take the states the search stores for the text `t` (C09 invariant, proved in
`myers_step`: `pv`/`mv` of a column encode its vertical differences, `dist` its last entry) and run
`_traceback_at(end = stop − 1)`: `init_traceback`, `move_up_left(true)`, then `n` passes through the loop body.  The
handler is then finished (`pos_bitvec = 0`) or its cursor is at a cell (row `i + 1`, column `j`) of the Sellers matrix and
* `block.dist` is the value of that cell, `left_block.dist` the value of the diagonal cell (row `i`, column `j − 1`) — at
  column 0 the left block is the sentinel `State::max()` adjusted to `dmax − (m − i)`;
* the three tests of the loop body are the comparisons of the matrix rule: `left.dist.wrapping_add(1) == block.dist` ⇔
  diagonal + 1 = current (and `j ≥ 1`: never true against the sentinel), `block.pv & pos ≠ 0` ⇔ upper + 1 = current,
  `left.mv & pos ≠ 0` (`move_left_down_if_better`) ⇔ left + 1 = diagonal (and `j ≥ 1`).
* so far it has drawn `stop − j + 2` items from the iterator: the states of columns `stop, …, j − 1` and nothing else.
Every width `w`, pattern `1 ≤ m ≤ w`, equivalence, text, end position; `m < dmax`.  The distances of the model are
unbounded naturals with truncated subtraction: the equalities show that no `-= 1` is executed on 0 and that
`adjust_by_mask` never subtracts more than it has (`adjustByMask_spec`). -/
theorem handler_reads_true_cells (w : Nat) (eqv : Nat → Nat → Bool) (p t : List Nat) (dmax stop n : Nat)
    (hm1 : 1 ≤ p.length) (hw : p.length ≤ w) (hd : p.length < dmax) (hs : stop ≤ t.length) :
    (Handler.after dmax p.length (fun k => (seqStates w eqv p dmax t).getD (stop + 1 - k) ⟨0#w, 0#w, 0⟩) n).pos = 0#w ∨
    ∃ i j, i < p.length ∧ j ≤ stop ∧
      (Handler.after dmax p.length (fun k => (seqStates w eqv p dmax t).getD (stop + 1 - k) ⟨0#w, 0#w, 0⟩) n).pos =
        BitVec.twoPow w i ∧
      (Handler.after dmax p.length (fun k => (seqStates w eqv p dmax t).getD (stop + 1 - k) ⟨0#w, 0#w, 0⟩) n).taken =
        stop - j + 2 ∧
      (fun (h : Handler w) =>
        h.state.dist = cell (unitW eqv) p (t.take j) (i + 1) ∧
        (1 ≤ j → h.left.dist = cell (unitW eqv) p (t.take (j - 1)) i) ∧
        (j = 0 → h.left.dist + (p.length - i) = dmax) ∧
        (((h.left.dist + 1) % (dmax + 1) = h.state.dist) ↔
          (1 ≤ j ∧ cell (unitW eqv) p (t.take (j - 1)) i + 1 = cell (unitW eqv) p (t.take j) (i + 1))) ∧
        (((h.state.pv &&& h.pos) != 0#w) =
          decide (cell (unitW eqv) p (t.take j) i + 1 = cell (unitW eqv) p (t.take j) (i + 1))) ∧
        (((h.left.mv &&& h.pos) != 0#w) =
          decide (1 ≤ j ∧ cell (unitW eqv) p (t.take (j - 1)) (i + 1) + 1 = cell (unitW eqv) p (t.take (j - 1)) i)))
      (Handler.after dmax p.length (fun k => (seqStates w eqv p dmax t).getD (stop + 1 - k) ⟨0#w, 0#w, 0⟩) n) :=
  after_cells w eqv p t dmax stop n hm1 hw hd hs

open RbV.Model.MyersTraceback in
/-- **[C] ring lookup.**  `N ≥ 1` slots are filled cyclically (`positions = (0..N).cycle()`) with any sequence of items,
on top of arbitrary old contents.  The reversed, cyclic iterator of `ShortTracebackHandler::new` started at the slot of
item number `q` yields item number `q − k` at its `k`-th `next()`, for every `k ≤ q` such that fewer than `N` items were
stored from item `q − k` on — i.e. exactly as long as the slot has not been overwritten. -/
theorem ring_read_any (w N : Nat) (hN : 0 < N) (old items : List (RbV.Model.MyersSimple.St w)) (hold : old.length = N)
    (q k : Nat) (hq : q < items.length) (hk : k ≤ q) (hwin : items.length - 1 - (q - k) < N) :
    readStore (storeAll N old 0 items) (q % N) k = items.getD (q - k) ⟨0#w, 0#w, 0⟩ :=
  ring_read N hN old items hold q k hq hk hwin

open RbV.Model.MyersTraceback in
/-- **[C] the ring of `find_all` is large enough for every hit.**  `FullMatches` allocates `N = m + min(k, m) + 2` slots
and only ever starts a traceback at the hit it has just reported (`self.pos`; after an unsuccessful end every accessor
answers `None`).  For a hit ending at `stop − 1` (distance `≤ k`) the traceback reads the current column, the column to
its left and one more column per left move, `stop − start + 2` items in all; each of these reads finds the state of that
column (sequence number `stop + 1 − kk`), whatever the vector contained before the search and however often it has
wrapped around.  For ends that are not hits nothing is promised by `find_all` (and nothing is reachable through its
API); see the `example` below for such an end where the ring has already lost the column.  `find_all_lazy` allocates
`n + 2` slots, which never wrap (`traceback_model_sound_lazy`). -/
theorem ring_lookup_correct (w : Nat) (eqv : Nat → Nat → Bool) (p t : List Nat) (dmax k stop : Nat)
    (old : List (RbV.Model.MyersSimple.St w))
    (hold : old.length = p.length + min k p.length + 2) (h1 : 1 ≤ stop) (hs : stop ≤ t.length)
    (d : Nat) (hdv : (lastRow (unitW eqv) p t)[stop - 1]? = some d) (hk : d ≤ k) :
    stop - (traceback (unitW eqv) p t stop).1 ≤ p.length + min k p.length ∧
    ∀ kk, kk ≤ stop - (traceback (unitW eqv) p t stop).1 + 1 →
      readStore (storeAll (p.length + min k p.length + 2) old 0 (seqStates w eqv p dmax (t.take stop)))
        ((stop + 1) % (p.length + min k p.length + 2)) kk =
      (seqStates w eqv p dmax t).getD (stop + 1 - kk) ⟨0#w, 0#w, 0⟩ := by
  have hrow := RbV.Model.Ukkonen.lastRow_cell (unitW eqv) p t (stop - 1) (by omega)
  have e : stop - 1 + 1 = stop := by omega
  rw [e, hdv] at hrow
  injection hrow with hrow
  have hspan := traceback_span eqv p t stop hs
  rw [← hrow] at hspan
  have hle := (traceback_sound eqv p t stop hs).1
  refine ⟨by omega, ?_⟩
  intro kk hkk
  have hlen := seqStates_length w eqv p dmax (t.take stop)
  have htl : (t.take stop).length = stop := by simp; omega
  rw [ring_read _ (by omega) old _ hold (stop + 1) kk (by omega) (by omega) (by omega)]
  exact seqStates_take w eqv p dmax t stop (stop + 1 - kk) hs (by omega)

open RbV.Model.MyersTraceback in
/-- **[C] the stored-state traceback is sound (eager API).**  `tracebackStore` = search `stop` symbols with `_step`
storing every state in the ring of `N = m + min(k, m) + 2` slots (old contents arbitrary), then `_traceback_at` at the
current slot with the handler of `handler_reads_true_cells`.  For every hit (distance `≤ k`) its result — start
`stop − h_offset`, distance `block.dist`, reversed operation list — is exactly the prediction of the matrix-level rule and
therefore an accepted hit (`traceback_rule_sound`, `checkHit_sound`).  Every width, pattern `1 ≤ m ≤ w`, equivalence,
text, `k`. -/
theorem traceback_model_sound (w : Nat) (eqv : Nat → Nat → Bool) (p t : List Nat) (dmax k stop : Nat)
    (old : List (RbV.Model.MyersSimple.St w)) (hm1 : 1 ≤ p.length) (hw : p.length ≤ w) (hd : p.length < dmax)
    (hold : old.length = p.length + min k p.length + 2) (h1 : 1 ≤ stop) (hs : stop ≤ t.length)
    (d : Nat) (hdv : (lastRow (unitW eqv) p t)[stop - 1]? = some d) (hk : d ≤ k) :
    tracebackStore w eqv p dmax (p.length + min k p.length + 2) old t stop stop =
      ((traceback (unitW eqv) p t stop).1, d, (traceback (unitW eqv) p t stop).2) ∧
    checkHit eqv p t k ⟨(tracebackStore w eqv p dmax (p.length + min k p.length + 2) old t stop stop).1, stop,
      (tracebackStore w eqv p dmax (p.length + min k p.length + 2) old t stop stop).2.1,
      (tracebackStore w eqv p dmax (p.length + min k p.length + 2) old t stop stop).2.2⟩ = true := by
  have hrow := RbV.Model.Ukkonen.lastRow_cell (unitW eqv) p t (stop - 1) (by omega)
  have e : stop - 1 + 1 = stop := by omega
  rw [e, hdv] at hrow
  injection hrow with hrow
  have hspan := traceback_span eqv p t stop hs
  rw [← hrow] at hspan
  have heq := tracebackStore_eq w eqv p dmax (p.length + min k p.length + 2) old t stop stop hm1 hw hd (by omega) hold
    hs (Nat.le_refl _) (by omega)
  rw [← hrow] at heq
  refine ⟨heq, ?_⟩
  rw [heq]
  exact traceback_rule_sound eqv p t k stop h1 hs d hdv hk

open RbV.Model.MyersTraceback in
/-- **[C] … and for the lazy API at every searched end, hit or not.**  `find_all_lazy` allocates `n + 2` slots; after `c`
symbols have been consumed, `_traceback_at` for any end `stop − 1 < c` returns the prediction of the matrix-level rule,
an alignment of cost `D[stop − 1]` accepted without regard to `k` (the documented promise of the single-word version:
"will succeed even if the edit distance at the given position is greater than the maximum distance"). -/
theorem traceback_model_sound_lazy (w : Nat) (eqv : Nat → Nat → Bool) (p t : List Nat) (dmax c stop : Nat)
    (old : List (RbV.Model.MyersSimple.St w)) (hm1 : 1 ≤ p.length) (hw : p.length ≤ w) (hd : p.length < dmax)
    (hold : old.length = t.length + 2) (hc : c ≤ t.length) (h1 : 1 ≤ stop) (hs : stop ≤ c)
    (d : Nat) (hdv : (lastRow (unitW eqv) p t)[stop - 1]? = some d) :
    tracebackStore w eqv p dmax (t.length + 2) old t c stop =
      ((traceback (unitW eqv) p t stop).1, d, (traceback (unitW eqv) p t stop).2) ∧
    checkHit eqv p t d ⟨(tracebackStore w eqv p dmax (t.length + 2) old t c stop).1, stop,
      (tracebackStore w eqv p dmax (t.length + 2) old t c stop).2.1,
      (tracebackStore w eqv p dmax (t.length + 2) old t c stop).2.2⟩ = true := by
  have hrow := RbV.Model.Ukkonen.lastRow_cell (unitW eqv) p t (stop - 1) (by omega)
  have e : stop - 1 + 1 = stop := by omega
  rw [e, hdv] at hrow
  injection hrow with hrow
  have heq := tracebackStore_eq w eqv p dmax (t.length + 2) old t c stop hm1 hw hd (by omega) hold hc hs (by omega)
  rw [← hrow] at heq
  refine ⟨heq, ?_⟩
  rw [heq]
  exact traceback_rule_sound eqv p t d stop h1 (by omega) d hdv (Nat.le_refl _)

open RbV.Model.MyersTraceback in
/-- **[C] the lazy availability test refuses exactly the unsearched positions.**  `traceback_at(e)` answers iff
`e + 2 ≤ self.pos`; with the `n + 2` slots of `find_all_lazy` and `c ≤ n` symbols consumed, `self.pos = c + 1`, so the
`*_at(e)` methods answer iff `e < c`.  (`e + 2` is computed in `usize`; `e ≥ usize::MAX − 1` is outside the model.) -/
theorem lazy_available_iff (n c e : Nat) (hc : c ≤ n) : availableAt (n + 2) c e = true ↔ e < c :=
  availableAt_iff n c e hc

open RbV.Model.MyersTraceback in
/-- the single pass the compiled driver runs (`scanStore`: the vector kept in an `Array` while the text is consumed, as
`FullMatches`/`LazyMatches` do) reports for every wanted end `c` exactly `tracebackStore … t c c`, the function of
`traceback_model_sound` -/
theorem scan_is_model (w : Nat) (eqv : Nat → Nat → Bool) (p : List Nat) (dmax N : Nat)
    (old : List (RbV.Model.MyersSimple.St w)) (t : List Nat) (want : Nat → Bool) :
    scanStore w eqv p dmax N old t want =
      ((List.range (t.length + 1)).filter want).map (fun c => (c, tracebackStore w eqv p dmax N old t c c)) :=
  scanStore_eq w eqv p dmax N old t want

/-! ## Phase 3: the stored-state traceback of the block-based version

`Model.MyersTracebackLong` mirrors `long.rs: LongStatesHandler::{init, set_max_state, add_state}` and
`LongTracebackHandler::{new, move_up, move_up_left, move_to_left, move_left_down_if_better, finished}` (the loop is the same
`_traceback_at`): a column of the states vector has `nb = ⌈m / w⌉` slots; `add_state` copies the blocks the band-limited
search (`States::step`, C09 model `MyersLong.stepStates`) has computed, puts the sentinel block (`dist = usize::MAX`,
`pv = mv = 0`) below them and leaves the slots further down as they were (stale); the handler keeps the index of the
block under the cursor of the current and of the left column and switches blocks in `move_up` / `move_up_left`.
`usize` distances: `Nat`, `wrapping_add` in the Subst test and the wrap-around of `adjust_by_mask` modelled with
`umax = 2^64 − 1`.  Proof route: C09's band invariant (`MyersLong.Band`: the computed blocks hold a pseudo-column ≥ the true
column, exact wherever the true value is ≤ k, every row below them is > k) holds for every stored column
(`colfacts_concrete`); the cursor of a hit's walk stays in cells of value ≤ k (values never increase along the walk), its
diagonal neighbour is ≤ k as well (diagonal monotonicity), so both cached blocks are computed blocks holding exact values,
the `pv`/`mv` bits tested lie between an exact cell ≤ k and its neighbour and tell the truth, and the slot
`left_block_pos + 1` read by `move_left_down_if_better` is a computed block or the sentinel (whose `mv = 0` correctly says
"no Del"), never a stale slot. -/

open RbV.Model.MyersTraceback RbV.Model.MyersTracebackLong RbV.Model.MyersLong RbV.Model.Ukkonen in
/-- **[C] the block-based handler reads true cells along the walk of a hit.**  Take the columns the block-based search
with threshold `k` stores for the text `t` (`colSeq … s` = the `nb` slots of sequence number `s` as `add_state` left them:
computed blocks, sentinel, stale slots) and run `_traceback_at` at an end `stop` whose distance is `≤ k`:
`init_traceback`, `move_up_left(true)`, then `n` passes through the loop body.  The handler is then finished
(`pos_bitvec = 0 ∧ block_pos = 0`) or its cursor is at a cell (row `i + 1`, column `j`) of the Sellers matrix and
* the cell has a value `≤ k`; `block_pos` is the block of row `i + 1` and `pos_bitvec` its bit;
* `block.dist` is the value of that cell, `left_block.dist` the value of the diagonal cell (`j ≥ 1`);
* the three tests of the loop body are the comparisons of the matrix rule: `left.dist.wrapping_add(1) == block.dist` ⇔
  diagonal + 1 = current (and `j ≥ 1`), `block.pv & pos ≠ 0` ⇔ upper + 1 = current, `move_left_down_if_better()` ⇔
  left + 1 = diagonal (and `j ≥ 1`) — whether the left cursor is inside a block or at its lower boundary, where the
  method reads the first bit of the next slot of the left column;
* it has drawn `stop − j + 2` columns from the iterator.
Every width `w ≥ 2`, pattern `m ≥ 1` with `m + 2w + 2 < 2^64`, equivalence, text, `k`, vector size `N ≥ 2`, old contents. -/
theorem long_handler_reads_true_cells (w : Nat) (eqv : Nat → Nat → Bool) (p t : List Nat) (k N : Nat)
    (old : List (RbV.Model.MyersSimple.St w)) (stop n : Nat)
    (hw : 2 ≤ w) (hm1 : 1 ≤ p.length) (hsmall : p.length + 2 * w + 2 ≤ umax) (hN : 2 ≤ N)
    (hold : old.length = N * (blocksOf w p).length) (hs : stop ≤ t.length)
    (hhit : cell (unitW eqv) p (t.take stop) p.length ≤ k) :
    ((LHandler.after (blocksOf w p).length p.length (fun i => colSeq w eqv p k N old t (stop + 1 - i)) n).pos = 0#w ∧
      (LHandler.after (blocksOf w p).length p.length (fun i => colSeq w eqv p k N old t (stop + 1 - i)) n).blockPos = 0) ∨
    ∃ i j, i < p.length ∧ j ≤ stop ∧
      (LHandler.after (blocksOf w p).length p.length (fun i => colSeq w eqv p k N old t (stop + 1 - i)) n).taken =
        stop - j + 2 ∧
      (fun (h : LHandler w) =>
        h.blockPos * w ≤ i ∧ i < h.blockPos * w + w ∧ h.pos = BitVec.twoPow w (i - h.blockPos * w) ∧
        cell (unitW eqv) p (t.take j) (i + 1) ≤ k ∧
        h.block.dist = cell (unitW eqv) p (t.take j) (i + 1) ∧
        (1 ≤ j → h.leftBlock.dist = cell (unitW eqv) p (t.take (j - 1)) i) ∧
        (((h.leftBlock.dist + 1) % (umax + 1) = h.block.dist) ↔
          (1 ≤ j ∧ cell (unitW eqv) p (t.take (j - 1)) i + 1 = cell (unitW eqv) p (t.take j) (i + 1))) ∧
        (((h.block.pv &&& h.pos) != 0#w) =
          decide (cell (unitW eqv) p (t.take j) i + 1 = cell (unitW eqv) p (t.take j) (i + 1))) ∧
        (h.moveLeftDownIfBetter.1 =
          decide (1 ≤ j ∧ cell (unitW eqv) p (t.take (j - 1)) (i + 1) + 1 = cell (unitW eqv) p (t.take (j - 1)) i)))
      (LHandler.after (blocksOf w p).length p.length (fun i => colSeq w eqv p k N old t (stop + 1 - i)) n) :=
  after_cellsL w eqv p k N old t hw hm1 hsmall hN hold stop n hs hhit

open RbV.Model.MyersTraceback RbV.Model.MyersTracebackLong RbV.Model.MyersLong in
/-- **[C] the stored-state traceback of the block-based version is sound (eager API).**  `tracebackStoreL` = search `stop`
symbols with the band-limited `States::step`, `add_state` of every column into the ring of `N = m + min(k, m) + 2` columns
of `nb` slots (old contents arbitrary: stale columns, stale slots below the sentinel), then `_traceback_at` at the current
column with `LongTracebackHandler`.  For every hit (distance `≤ k`; by `C09.myers_long_eq` exactly the ends the
block-based search reports) its result — start, distance, path — is the prediction of the matrix-level rule
(`Model.MyersTraceback.traceback`, the rule the single-word theorem `traceback_model_sound` is stated against) and
therefore an accepted hit (`checkHit`).  Every width `w ≥ 2`, pattern length `m ≥ 1` (any number of blocks;
`m + 2w + 2 < 2^64`), equivalence, text, `k`. -/
theorem traceback_long_model_sound (w : Nat) (eqv : Nat → Nat → Bool) (p t : List Nat) (k stop : Nat)
    (old : List (RbV.Model.MyersSimple.St w)) (hw : 2 ≤ w) (hm1 : 1 ≤ p.length) (hsmall : p.length + 2 * w + 2 ≤ umax)
    (hold : old.length = (p.length + min k p.length + 2) * (blocksOf w p).length) (h1 : 1 ≤ stop) (hs : stop ≤ t.length)
    (d : Nat) (hdv : (lastRow (unitW eqv) p t)[stop - 1]? = some d) (hk : d ≤ k) :
    tracebackStoreL w eqv p k (p.length + min k p.length + 2) old t stop =
      ((traceback (unitW eqv) p t stop).1, d, (traceback (unitW eqv) p t stop).2) ∧
    checkHit eqv p t k ⟨(tracebackStoreL w eqv p k (p.length + min k p.length + 2) old t stop).1, stop,
      (tracebackStoreL w eqv p k (p.length + min k p.length + 2) old t stop).2.1,
      (tracebackStoreL w eqv p k (p.length + min k p.length + 2) old t stop).2.2⟩ = true := by
  have hrow := RbV.Model.Ukkonen.lastRow_cell (unitW eqv) p t (stop - 1) (by omega)
  have e : stop - 1 + 1 = stop := by omega
  rw [e, hdv] at hrow
  injection hrow with hrow
  have hspan := traceback_span eqv p t stop hs
  rw [← hrow] at hspan
  have heq := tracebackStoreLAt_eq w eqv p k (p.length + min k p.length + 2) old t hw hm1 hsmall (by omega) hold stop stop
    hs (Nat.le_refl _) (by rw [← hrow]; exact hk) (by omega)
  rw [← hrow] at heq
  have heq' : tracebackStoreL w eqv p k (p.length + min k p.length + 2) old t stop =
      ((traceback (unitW eqv) p t stop).1, d, (traceback (unitW eqv) p t stop).2) := heq
  refine ⟨heq', ?_⟩
  rw [heq']
  exact traceback_rule_sound eqv p t k stop h1 hs d hdv hk

open RbV.Model.MyersTraceback RbV.Model.MyersTracebackLong RbV.Model.MyersLong in
/-- **[C] … for every end the block-based search reports.**  The same with the hypothesis in the form "the pair
`(stop − 1, d)` is in the list `find_all_end` returns" (`MyersLong.findAllEnd`, proved equal to the Sellers hits in C09). -/
theorem traceback_long_sound_reported (w : Nat) (eqv : Nat → Nat → Bool) (p t : List Nat) (k e d : Nat)
    (old : List (RbV.Model.MyersSimple.St w)) (hw : 2 ≤ w) (hm1 : 1 ≤ p.length) (hsmall : p.length + 2 * w + 2 ≤ umax)
    (hold : old.length = (p.length + min k p.length + 2) * (blocksOf w p).length)
    (hrep : (e, d) ∈ findAllEnd w eqv p t k) :
    tracebackStoreL w eqv p k (p.length + min k p.length + 2) old t (e + 1) =
      ((traceback (unitW eqv) p t (e + 1)).1, d, (traceback (unitW eqv) p t (e + 1)).2) ∧
    checkHit eqv p t k ⟨(tracebackStoreL w eqv p k (p.length + min k p.length + 2) old t (e + 1)).1, e + 1,
      (tracebackStoreL w eqv p k (p.length + min k p.length + 2) old t (e + 1)).2.1,
      (tracebackStoreL w eqv p k (p.length + min k p.length + 2) old t (e + 1)).2.2⟩ = true := by
  rw [findAllEnd_eq_hits w eqv p t k (by omega) hm1] at hrep
  obtain ⟨_, h2, h3⟩ := mem_hitsFrom k _ 0 e d hrep
  simp only [Nat.sub_zero] at h2
  have hlen : e < (lastRow (unitW eqv) p t).length := by
    apply Nat.lt_of_not_le
    intro hle
    rw [List.getElem?_eq_none hle] at h2
    cases h2
  rw [lastRow_length] at hlen
  exact traceback_long_model_sound w eqv p t k (e + 1) old hw hm1 hsmall hold (by omega) (by omega) d
    (by simpa using h2) h3

open RbV.Model.MyersTraceback RbV.Model.MyersTracebackLong RbV.Model.MyersLong in
/-- **[C] … and for the lazy API at every hit already searched.**  `find_all_lazy` allocates `n + 2` columns; after `c`
symbols have been consumed, `_traceback_at` for a hit end `stop − 1 < c` (distance `≤ k`; the block-based version documents
that it answers only for hits) returns the prediction of the matrix-level rule. -/
theorem traceback_long_model_sound_lazy (w : Nat) (eqv : Nat → Nat → Bool) (p t : List Nat) (k c stop : Nat)
    (old : List (RbV.Model.MyersSimple.St w)) (hw : 2 ≤ w) (hm1 : 1 ≤ p.length) (hsmall : p.length + 2 * w + 2 ≤ umax)
    (hold : old.length = (t.length + 2) * (blocksOf w p).length) (hc : c ≤ t.length) (h1 : 1 ≤ stop) (hs : stop ≤ c)
    (d : Nat) (hdv : (lastRow (unitW eqv) p t)[stop - 1]? = some d) (hk : d ≤ k) :
    tracebackStoreLAt w eqv p k (t.length + 2) old t c stop =
      ((traceback (unitW eqv) p t stop).1, d, (traceback (unitW eqv) p t stop).2) ∧
    checkHit eqv p t k ⟨(tracebackStoreLAt w eqv p k (t.length + 2) old t c stop).1, stop,
      (tracebackStoreLAt w eqv p k (t.length + 2) old t c stop).2.1,
      (tracebackStoreLAt w eqv p k (t.length + 2) old t c stop).2.2⟩ = true := by
  have hrow := RbV.Model.Ukkonen.lastRow_cell (unitW eqv) p t (stop - 1) (by omega)
  have e : stop - 1 + 1 = stop := by omega
  rw [e, hdv] at hrow
  injection hrow with hrow
  have heq := tracebackStoreLAt_eq w eqv p k (t.length + 2) old t hw hm1 hsmall (by omega) hold c stop hc hs
    (by rw [← hrow]; exact hk) (by omega)
  rw [← hrow] at heq
  refine ⟨heq, ?_⟩
  rw [heq]
  exact traceback_rule_sound eqv p t k stop h1 (by omega) d hdv hk

open RbV.Model.MyersTraceback RbV.Model.MyersTracebackLong RbV.Model.MyersLong in
/-- **[C] the block-based and the single-word implementation produce identical alignments.**  For a pattern that fits one
word of the single-word matcher (`m ≤ ws`; the block-based matcher may use any word width `w`, so the pattern may span
several of its blocks) and every hit, the two stored-state pipelines — `tracebackStore` (`simple.rs`, proved in
`traceback_model_sound`) and `tracebackStoreL` (`long.rs`) — return the same start, distance and path, whatever their
states vectors contained before.  For longer patterns there is no single-word object; `traceback_long_model_sound` states
the result against the matrix-level rule that the single-word theorem is stated against. -/
theorem traceback_long_eq_simple (w ws : Nat) (eqv : Nat → Nat → Bool) (p t : List Nat) (dmax k stop : Nat)
    (old : List (RbV.Model.MyersSimple.St w)) (olds : List (RbV.Model.MyersSimple.St ws))
    (hw : 2 ≤ w) (hm1 : 1 ≤ p.length) (hsmall : p.length + 2 * w + 2 ≤ umax) (hws : p.length ≤ ws) (hd : p.length < dmax)
    (hold : old.length = (p.length + min k p.length + 2) * (blocksOf w p).length)
    (holds : olds.length = p.length + min k p.length + 2) (h1 : 1 ≤ stop) (hs : stop ≤ t.length)
    (d : Nat) (hdv : (lastRow (unitW eqv) p t)[stop - 1]? = some d) (hk : d ≤ k) :
    tracebackStoreL w eqv p k (p.length + min k p.length + 2) old t stop =
      tracebackStore ws eqv p dmax (p.length + min k p.length + 2) olds t stop stop := by
  rw [(traceback_long_model_sound w eqv p t k stop old hw hm1 hsmall hold h1 hs d hdv hk).1,
    (traceback_model_sound ws eqv p t dmax k stop olds hm1 hws hd holds h1 hs d hdv hk).1]

open RbV.Model.MyersTracebackLong in
/-- the single pass the compiled driver runs for a block-based object (`scanStoreL`, tag `tb-block-model-same`) reports
for every wanted end `c` exactly `tracebackStoreL … t c`, the function of `traceback_long_model_sound` -/
theorem scanL_is_model (w : Nat) (eqv : Nat → Nat → Bool) (p : List Nat) (k N : Nat)
    (old : List (RbV.Model.MyersSimple.St w)) (t : List Nat) (want : Nat → Bool) :
    scanStoreL w eqv p k N old t want =
      ((List.range (t.length + 1)).filter want).map (fun c => (c, tracebackStoreL w eqv p k N old t c)) :=
  scanStoreL_eq w eqv p k N old t want

-- non-vacuity
example : checkHit eqSym [1, 2, 3] [9, 1, 3, 9] 1 ⟨1, 3, 1, [.mat, .ins, .mat]⟩ = true := by decide
example : checkHit eqSym [1, 2, 3] [9, 1, 3, 9] 1 ⟨1, 3, 1, [.mat, .sub, .mat]⟩ = false := by decide
example : checkHit eqSym [1, 2, 3] [9, 1, 3, 9] 1 ⟨0, 3, 2, [.del, .mat, .ins, .mat]⟩ = false := by decide
example : RbV.Model.MyersTraceback.traceback (unitW eqSym) [1, 2, 3] [9, 1, 3, 9] 3 = (1, [.mat, .ins, .mat]) := by decide

-- non-vacuity (phase 2); `old` = stale contents of `states_store`
open RbV.Model.MyersTraceback in
example : tracebackStore 8 eqSym [1, 2, 3] 255 6 (List.replicate 6 ⟨0x5a#8, 0x33#8, 7⟩) [9, 1, 3, 9] 3 3 =
    (1, 1, [.mat, .ins, .mat]) := by decide
-- the ring (6 slots) has wrapped around: 11 items stored
open RbV.Model.MyersTraceback in
example : tracebackStore 8 eqSym [1, 2, 3] 255 6 (List.replicate 6 ⟨0x5a#8, 0x33#8, 7⟩) [9, 9, 9, 9, 9, 9, 1, 2, 2, 3] 10 10 =
    (6, 1, [.mat, .mat, .del, .mat]) := by decide
-- lazy store (n + 2 slots), traceback at an end that is not a hit for any k < 3, after 5 of 6 symbols
open RbV.Model.MyersTraceback in
example : tracebackStore 8 eqSym [1, 2, 3] 255 8 (List.replicate 8 ⟨0#8, 0#8, 0⟩) [9, 9, 1, 9, 9, 9] 5 5 =
    (2, 2, [.mat, .sub, .sub]) := by decide
-- the handler after one pass (a Match): cursor at row 2 (`pos = 0b10`) of column 2, `block.dist = D[2][2] = 1`,
-- `left_block.dist = D[1][1] = 1`
open RbV.Model.MyersTraceback in
example : (fun h : Handler 8 => (h.pos, h.state.dist, h.left.dist))
    (Handler.after 255 3 (fun k => (seqStates 8 eqSym [1, 2, 3] 255 [9, 1, 3, 9]).getD (3 + 1 - k) ⟨0#8, 0#8, 0⟩) 1) =
    (0b10#8, 1, 1) := by decide
-- an end that is not a hit (k = 0, D = 3) whose alignment spans m + 3 columns: the ring of `find_all` (m + 0 + 2 = 10
-- slots) has lost the columns the walk needs and the result is not the rule's (an invalid path: Subst over equal
-- symbols).  `find_all` never asks for it; the hypothesis `d ≤ k` of `traceback_model_sound` is needed.
open RbV.Model.MyersTraceback in
example : (tracebackStore 8 eqSym [1, 2, 3, 4, 5, 6, 7, 8] 255 10 (List.replicate 10 ⟨0#8, 0#8, 0⟩)
      [7, 7, 1, 2, 3, 4, 9, 9, 9, 5, 6, 7, 8] 13 13).2.2 ≠
    (traceback (unitW eqSym) [1, 2, 3, 4, 5, 6, 7, 8] [7, 7, 1, 2, 3, 4, 9, 9, 9, 5, 6, 7, 8] 13).2 := by decide
open RbV.Model.MyersTraceback in
example : availableAt 12 5 4 = true ∧ availableAt 12 5 5 = false ∧ availableAt 12 0 0 = false := by decide

-- non-vacuity (phase 3): block-based version, words of 4 bits.  `oldL n` = stale contents of `states_store`
open RbV.Model.MyersTracebackLong in
def oldL (n : Nat) : List (RbV.Model.MyersSimple.St 4) := List.replicate n ⟨0x5#4, 0x3#4, 7⟩
-- two blocks (6 symbols), k = 1: only the first block is computed at the start (`States::new`), the second is switched
-- on by the band logic; ring of 6 + 1 + 2 = 9 columns of 2 slots
set_option maxRecDepth 20000 in
open RbV.Model.MyersTracebackLong in
example : tracebackStoreL 4 eqSym [1, 2, 3, 4, 5, 6] 1 9 (oldL 18) [9, 1, 2, 3, 5, 6, 9] 6 =
    (1, 1, [.mat, .mat, .mat, .ins, .mat, .mat]) := by decide
-- the hypotheses of `traceback_long_model_sound` are satisfiable: the same value through the theorem
open RbV.Model.MyersTracebackLong RbV.Model.MyersTraceback in
example : tracebackStoreL 4 eqSym [1, 2, 3, 4, 5, 6] 1 9 (oldL 18) [9, 1, 2, 3, 5, 6, 9] 6 =
    (1, 1, [.mat, .mat, .mat, .ins, .mat, .mat]) :=
  (traceback_long_model_sound 4 eqSym [1, 2, 3, 4, 5, 6] [9, 1, 2, 3, 5, 6, 9] 1 6 (oldL 18)
    (by decide) (by decide) (by decide) (by decide) (by decide) (by decide) 1 (by decide) (by decide)).1.trans (by decide)
-- … and of `traceback_long_sound_reported`: (5, 1) is what the block-based `find_all_end` reports
example : (5, 1) ∈ RbV.Model.MyersLong.findAllEnd 4 eqSym [1, 2, 3, 4, 5, 6] [9, 1, 2, 3, 5, 6, 9] 1 := by decide
-- … and of `traceback_long_eq_simple`: the same pattern in one 8-bit word
open RbV.Model.MyersTracebackLong RbV.Model.MyersTraceback in
example : tracebackStoreL 4 eqSym [1, 2, 3, 4, 5, 6] 1 9 (oldL 18) [9, 1, 2, 3, 5, 6, 9] 6 =
    tracebackStore 8 eqSym [1, 2, 3, 4, 5, 6] 255 9 (List.replicate 9 ⟨0x5a#8, 0x33#8, 7⟩) [9, 1, 2, 3, 5, 6, 9] 6 6 :=
  traceback_long_eq_simple 4 8 eqSym [1, 2, 3, 4, 5, 6] [9, 1, 2, 3, 5, 6, 9] 255 1 6 (oldL 18) _
    (by decide) (by decide) (by decide) (by decide) (by decide) (by decide) (by decide) (by decide) (by decide) 1
    (by decide) (by decide)
-- the ring (9 columns) has wrapped around: 17 columns stored
set_option maxRecDepth 40000 in
open RbV.Model.MyersTracebackLong in
example : tracebackStoreL 4 eqSym [1, 2, 3, 4, 5, 6] 1 9 (oldL 18) [9, 9, 9, 9, 9, 9, 9, 9, 9, 9, 1, 2, 3, 5, 6] 15 =
    (10, 1, [.mat, .mat, .mat, .ins, .mat, .mat]) := by decide
-- three blocks (9 symbols), k = 2, a path with Ins and Del that crosses both block boundaries
set_option maxRecDepth 40000 in
open RbV.Model.MyersTracebackLong in
example : tracebackStoreL 4 eqSym [1, 2, 3, 4, 5, 6, 7, 8, 9] 2 13 (oldL 39) [7, 1, 2, 4, 5, 6, 6, 7, 8, 9, 1] 10 =
    (1, 2, [.mat, .mat, .ins, .mat, .mat, .mat, .del, .mat, .mat, .mat]) := by decide
-- lazy store (n + 2 columns), traceback at the hit ending at 5 after all 8 symbols
set_option maxRecDepth 40000 in
open RbV.Model.MyersTracebackLong in
example : tracebackStoreLAt 4 eqSym [1, 2, 3, 4, 5, 6] 1 10 (oldL 20) [9, 1, 2, 3, 5, 6, 9, 9] 8 6 =
    (1, 1, [.mat, .mat, .mat, .ins, .mat, .mat]) := by decide
-- the handler after two passes (Match, Match): cursor at row 4 = last bit (`pos = 0b1000`) of block 0 of column 4,
-- `block.dist = D[4][4] = 1`, left cursor in block 0, `left_block.dist = D[3][3] = 1`, four columns drawn
set_option maxRecDepth 40000 in
open RbV.Model.MyersTracebackLong in
example : (fun h : LHandler 4 => (h.blockPos, h.pos, h.block.dist, h.leftBlockPos, h.leftBlock.dist, h.taken))
    (LHandler.after 2 6 (fun i => colSeq 4 eqSym [1, 2, 3, 4, 5, 6] 1 9 (oldL 18) [9, 1, 2, 3, 5, 6, 9] (6 + 1 - i)) 2) =
    (0, 0x8#4, 1, 0, 1, 4) := by decide
-- an end that is not a hit (k = 0, D = 1): the last block of that column was never computed, the handler starts from the
-- sentinel block and the result is not the rule's.  `find_all` never asks for it; the hypothesis `d ≤ k` is needed.
set_option maxRecDepth 40000 in
open RbV.Model.MyersTracebackLong RbV.Model.MyersTraceback in
example : (tracebackStoreL 4 eqSym [1, 2, 3, 4, 5, 6] 0 8 (oldL 16) [9, 1, 2, 3, 5, 6, 9] 5).2.2 ≠
    (traceback (unitW eqSym) [1, 2, 3, 4, 5, 6] [9, 1, 2, 3, 5, 6, 9] 5).2 := by decide

/-! ## The column step, translated from the source text (genukk; docs/notes/GEN.md, "Translated function bodies")

The columns the traceback stores and walks are the states `Myers::_step` produces.  `RbV/Gen/SrcMyersSimple.lean` is the
text of `_step` (simple.rs) translated to Lean on every `./check C10` (generic word type `T` = `Nat` below `2^w`); the
theorem is re-proved against the regenerated definition (proof: `RbV/Thm/GenSrcMyersSimple.lean`, shared with C09). -/

/-- **`Myers::_step`, as written, is the model's bit-vector step** (`MyersSimple.step`, the function the stored-state
traceback models `stateAfter` / `colSeq` apply per text symbol), for every word width `w ≥ 2` and every state on which the
`dist` update neither underflows nor leaves `DistType` (true on every state a search reaches: C09
`myers_find_all_end_source_exact`). -/
theorem myers_step_source_eq_model (w wd m : Nat) (hw : 1 < w) (peqT : List Nat) (a : Nat) (eq : BitVec w)
    (s : RbV.Model.MyersSimple.St w) (hpeq : RbV.Rs.idx peqT a = RbV.Rs.Res.ok eq.toNat)
    (hlo : ((s.pv &&& RbV.Model.MyersSimple.xhOf eq s.pv).getLsbD (m - 1)).toNat ≤
      s.dist + ((s.mv ||| ~~~(RbV.Model.MyersSimple.xhOf eq s.pv ||| s.pv)).getLsbD (m - 1)).toNat)
    (hhi : s.dist + 1 < 2 ^ 64) (hwd : (RbV.Model.MyersSimple.step m eq s).dist < 2 ^ wd) :
    RbV.Gen.SrcMyersSimple.step_ (w := w) (wd := wd) (peq := peqT) (bound := 2 ^ (m - 1)) (pv := s.pv.toNat)
        (mv := s.mv.toNat) (dist := s.dist) (a := a) =
      RbV.Rs.Res.ok ((RbV.Model.MyersSimple.step m eq s).pv.toNat, (RbV.Model.MyersSimple.step m eq s).mv.toNat,
        (RbV.Model.MyersSimple.step m eq s).dist) :=
  RbV.Thm.GenSrcMyersSimple.step__eq_model w wd m hw peqT a eq s hpeq hlo hhi hwd

example : RbV.Gen.SrcMyersSimple.step_ (w := 8) (wd := 8) (peq := [0, 0b101, 0b010, 0]) (bound := 0b100) (pv := 255) (mv := 0)
    (dist := 3) (a := 1) = RbV.Rs.Res.ok (254, 0, 2) := by decide

/-! ### The cursor moves of the single-word traceback handler, translated from the source text (genlong)

`RbV/Gen/SrcMyersTbState.lean` (`State::adjust_dist`, `State::max`), `RbV/Gen/SrcMyersTbShort.lean`
(`ShortTracebackHandler::{move_up, move_up_left, move_left_down_if_better, finished, pos_bitvec}`); proofs `Thm/GenSrcMyersTb.lean`. -/

/-- **`traceback_source_eq_model`, proved fragment**: the cursor moves of `ShortTracebackHandler` and `State::adjust_dist` /
`State::max`, as written, are the functions `Handler.moveUp`, `moveUpLeft`, `moveLeftDownIfBetter`, `finished`, `adjustDist`,
`maxSt` of the stored-state pipeline model behind `traceback_model_sound` — every word width `w ≥ 2`; side conditions: the
checked `dist -= 1` / `dist += 1` stay inside `DistType` (true along every traceback of a hit: `handler_reads_true_cells`).
`ShortTracebackHandler::new` / `move_to_left` and `State::adjust_by_mask` are the next three theorems.
`Traceback::_traceback_at` itself is translated too (`Gen/SrcMyersTbLoop.lean`) and proved equal to the model's `tracebackRd`
(`Thm/GenSrcMyersTbLoop.lean: step_eq, loop_eq, tracebackAt_eq_model`) — as a **soft** module, because the order of the Ins / Del
tests (which of several optimal paths) is not determined by C10 (seeded C10-H1 / C10-H4 change it).
**Missing for the full statement**: `Traceback::{new, add_state, traceback_at}`, `ShortStatesHandler`, the derivation of the side
conditions `RunOk` from the invariant `HInv` of `Lemmas/TracebackState.lean` (generic over the handler
traits; the loop with `break`), hence also the corollary `traceback_source_sound` and everything of `LongTracebackHandler` — these
stay tied by the mirror model + `tb-state-model-same` on every sampled search. -/
theorem traceback_source_eq_model_partial (w wd : Nat) (h : RbV.Model.MyersTraceback.Handler w) (hw : 1 < w) (adj : Bool)
    (hs : adj = true → (h.state.pv &&& h.pos) ≠ 0#w → 1 ≤ h.state.dist) (hsh : h.state.dist + 1 < 2 ^ wd)
    (hl : adj = true → (h.left.pv &&& h.pos) ≠ 0#w → 1 ≤ h.left.dist) (hlh : h.left.dist + 1 < 2 ^ wd)
    (hd : (h.left.mv &&& h.pos) ≠ 0#w → 1 ≤ h.left.dist) :
    RbV.Gen.SrcMyersTbShort.moveUp (w := w) (wd := wd) (pv := h.state.pv.toNat) (mv := h.state.mv.toNat) (dist := h.state.dist)
        (left_state_pv := h.left.pv.toNat) (left_state_mv := h.left.mv.toNat) (left_state_dist := h.left.dist)
        (max_mask := h.maxMask.toNat) (pos_bitvec := h.pos.toNat) (left_mask := h.leftMask.toNat) (adjust_dist := adj) =
      RbV.Rs.Res.ok ((h.moveUp adj).state.dist, (h.moveUp adj).pos.toNat) ∧
    RbV.Gen.SrcMyersTbShort.moveUpLeft (w := w) (wd := wd) (pv := h.state.pv.toNat) (mv := h.state.mv.toNat) (dist := h.state.dist)
        (left_state_pv := h.left.pv.toNat) (left_state_mv := h.left.mv.toNat) (left_state_dist := h.left.dist)
        (max_mask := h.maxMask.toNat) (pos_bitvec := h.pos.toNat) (left_mask := h.leftMask.toNat) (adjust_dist := adj) =
      RbV.Rs.Res.ok ((h.moveUpLeft adj).left.dist, (h.moveUpLeft adj).leftMask.toNat) ∧
    RbV.Gen.SrcMyersTbShort.moveLeftDownIfBetter (w := w) (wd := wd) (pv := h.state.pv.toNat) (mv := h.state.mv.toNat)
        (dist := h.state.dist) (left_state_pv := h.left.pv.toNat) (left_state_mv := h.left.mv.toNat)
        (left_state_dist := h.left.dist) (max_mask := h.maxMask.toNat) (pos_bitvec := h.pos.toNat) (left_mask := h.leftMask.toNat) =
      RbV.Rs.Res.ok (h.moveLeftDownIfBetter.2.left.dist, h.moveLeftDownIfBetter.1) ∧
    RbV.Gen.SrcMyersTbShort.finished (w := w) (wd := wd) (pv := h.state.pv.toNat) (mv := h.state.mv.toNat)
        (dist := h.state.dist) (left_state_pv := h.left.pv.toNat) (left_state_mv := h.left.mv.toNat)
        (left_state_dist := h.left.dist) (max_mask := h.maxMask.toNat) (pos_bitvec := h.pos.toNat) (left_mask := h.leftMask.toNat) =
      RbV.Rs.Res.ok h.finished ∧
    RbV.Gen.SrcMyersTbState.max (w := w) (wd := wd) =
      RbV.Rs.Res.ok (RbV.Thm.GenSrcMyersSimple.rep (RbV.Model.MyersTraceback.maxSt w (2 ^ wd - 1))) :=
  ⟨RbV.Thm.GenSrcMyersTb.moveUp_eq_model w wd h hw adj hs hsh, RbV.Thm.GenSrcMyersTb.moveUpLeft_eq_model w wd h hw adj hl hlh,
   RbV.Thm.GenSrcMyersTb.moveLeftDownIfBetter_eq_model w wd h hd, (RbV.Thm.GenSrcMyersTb.finished_eq_model w wd h).1,
   RbV.Thm.GenSrcMyersTb.max_eq_model w wd⟩

/-- **`State::adjust_dist(pos_mask)`, as written** = the model's `adjustDist` -/
theorem adjust_dist_source_eq_model (w wd : Nat) (s : RbV.Model.MyersSimple.St w) (pm : BitVec w)
    (hlo : (s.pv &&& pm) ≠ 0#w → 1 ≤ s.dist) (hhi : s.dist + 1 < 2 ^ wd) :
    RbV.Gen.SrcMyersTbState.adjustDist (w := w) (wd := wd) (pv := s.pv.toNat) (mv := s.mv.toNat) (dist := s.dist)
        (pos_mask := pm.toNat) = RbV.Rs.Res.ok (RbV.Model.MyersTraceback.adjustDist s pm).dist :=
  RbV.Thm.GenSrcMyersTb.adjustDist_eq_model w wd s pm hlo hhi

/-- **`State::adjust_by_mask(mask)`, as written** (`count_ones`, `u64` wrapping arithmetic, `from_u64(..).unwrap()`) = the model's
`adjustByMask` when the result neither underflows nor leaves `DistType` (`adjustByMask_spec` of `Lemmas/TracebackState.lean`
shows that along a traceback) -/
theorem adjust_by_mask_source_eq_model (w wd : Nat) (s : RbV.Model.MyersSimple.St w) (mask : BitVec w) (hwd : wd < 64)
    (hw63 : w < 2 ^ 63)
    (hlo : RbV.Model.MyersTraceback.popc (s.pv &&& mask) ≤ s.dist + RbV.Model.MyersTraceback.popc (s.mv &&& mask))
    (hd : s.dist < 2 ^ wd)
    (hhi : s.dist + RbV.Model.MyersTraceback.popc (s.mv &&& mask) - RbV.Model.MyersTraceback.popc (s.pv &&& mask) < 2 ^ wd) :
    RbV.Gen.SrcMyersTbMask.adjustByMask (w := w) (wd := wd) (pv := s.pv.toNat) (mv := s.mv.toNat) (dist := s.dist)
        (mask := mask.toNat) = RbV.Rs.Res.ok (RbV.Model.MyersTraceback.adjustByMask s mask).dist :=
  RbV.Thm.GenSrcMyersTb2.adjustByMask_eq_model w wd s mask hwd hw63 hlo hd hhi

/-- **the column reader of the handler reads the ring as the model says**: the `k`-th `next()` of
`states[..=pos].iter().rev().chain(states.iter().rev().cycle())` (semantics `Rs.RevCyc`: first part, then the second repeated)
yields slot `readSlot N pos k` — the `rd k = readStore store pos k` of `ring_read_any` / `ring_lookup_correct` -/
theorem ring_reader_source_reads_slot {α : Type} (store : List α) (pos k : Nat) (hp : pos < store.length) :
    RbV.Rs.rcNext (RbV.Thm.GenSrcMyersTb2.itOf store pos k) =
      (store[RbV.Model.MyersTraceback.readSlot store.length pos k]?, RbV.Thm.GenSrcMyersTb2.itOf store pos (k + 1)) :=
  RbV.Thm.GenSrcMyersTb2.rcNext_slot store pos k hp

/-- **`ShortTracebackHandler::new(m, pos, states)` and `move_to_left()`, as written** = `Handler.new m rd` and
`Handler.moveToLeft rd` of the pipeline model, `rd k = readStore store pos k` -/
theorem traceback_handler_new_move_to_left_source_eq_model (w wd m pos : Nat) (store : List (RbV.Model.MyersSimple.St w))
    (h : RbV.Model.MyersTraceback.Handler w) (hm1 : 1 ≤ m) (hmw : m ≤ w) (hm64 : m < 2 ^ 64) (hwd : wd < 64)
    (hw63 : w < 2 ^ 63) (hp : pos < store.length)
    (hlo : RbV.Model.MyersTraceback.popc ((RbV.Model.MyersTraceback.readStore store pos h.taken).pv &&& h.leftMask) ≤
      (RbV.Model.MyersTraceback.readStore store pos h.taken).dist +
        RbV.Model.MyersTraceback.popc ((RbV.Model.MyersTraceback.readStore store pos h.taken).mv &&& h.leftMask))
    (hd : (RbV.Model.MyersTraceback.readStore store pos h.taken).dist < 2 ^ wd)
    (hhi : (RbV.Model.MyersTraceback.readStore store pos h.taken).dist +
        RbV.Model.MyersTraceback.popc ((RbV.Model.MyersTraceback.readStore store pos h.taken).mv &&& h.leftMask) -
        RbV.Model.MyersTraceback.popc ((RbV.Model.MyersTraceback.readStore store pos h.taken).pv &&& h.leftMask) < 2 ^ wd) :
    RbV.Gen.SrcMyersTbShort2.new (w := w) (wd := wd) (m := m) (pos := pos) (states := RbV.Thm.GenSrcMyersLongStep.repS store) =
      RbV.Rs.Res.ok (RbV.Thm.GenSrcMyersSimple.rep (RbV.Model.MyersTraceback.Handler.new m (RbV.Model.MyersTraceback.readStore store pos)).state,
        RbV.Thm.GenSrcMyersSimple.rep (RbV.Model.MyersTraceback.Handler.new m (RbV.Model.MyersTraceback.readStore store pos)).left,
        RbV.Thm.GenSrcMyersTb2.itOf (RbV.Thm.GenSrcMyersLongStep.repS store) pos 2,
        (RbV.Model.MyersTraceback.Handler.new m (RbV.Model.MyersTraceback.readStore store pos)).maxMask.toNat,
        (RbV.Model.MyersTraceback.Handler.new m (RbV.Model.MyersTraceback.readStore store pos)).pos.toNat,
        (RbV.Model.MyersTraceback.Handler.new m (RbV.Model.MyersTraceback.readStore store pos)).leftMask.toNat) ∧
    RbV.Gen.SrcMyersTbShort2.moveToLeft (w := w) (wd := wd) (state := RbV.Thm.GenSrcMyersSimple.rep h.state)
        (left_state := RbV.Thm.GenSrcMyersSimple.rep h.left)
        (states_iter := RbV.Thm.GenSrcMyersTb2.itOf (RbV.Thm.GenSrcMyersLongStep.repS store) pos h.taken)
        (max_mask := h.maxMask.toNat) (pos_bitvec := h.pos.toNat) (left_mask := h.leftMask.toNat) =
      RbV.Rs.Res.ok (RbV.Thm.GenSrcMyersSimple.rep (h.moveToLeft (RbV.Model.MyersTraceback.readStore store pos)).state,
        RbV.Thm.GenSrcMyersSimple.rep (h.moveToLeft (RbV.Model.MyersTraceback.readStore store pos)).left,
        RbV.Thm.GenSrcMyersTb2.itOf (RbV.Thm.GenSrcMyersLongStep.repS store) pos
          (h.moveToLeft (RbV.Model.MyersTraceback.readStore store pos)).taken) :=
  ⟨RbV.Thm.GenSrcMyersTb2.new_eq_model w wd m pos store hm1 hmw hm64 hp,
   RbV.Thm.GenSrcMyersTb2.moveToLeft_eq_model w wd pos store h hwd hw63 hp hlo hd hhi⟩

example : RbV.Gen.SrcMyersTbMask.adjustByMask (w := 8) (wd := 8) (pv := 0b0111) (mv := 0b1000) (dist := 3) (mask := 0b1110) =
    RbV.Rs.Res.ok 2 := by decide
example : (RbV.Rs.rcNext (RbV.Thm.GenSrcMyersTb2.itOf [10, 11, 12, 13] 1 3)).1 = some 12 := by decide

-- non-vacuity: `u8` handler at row 3 of a 3-symbol pattern (`pos = 0b100`): `move_up(true)` over a set `pv` bit, and the
-- panic outside the side condition (`dist = 0`)
example : RbV.Gen.SrcMyersTbShort.moveUp (w := 8) (wd := 8) (pv := 0b111) (mv := 0) (dist := 3) (left_state_pv := 0b111)
    (left_state_mv := 0) (left_state_dist := 2) (max_mask := 0b100) (pos_bitvec := 0b100) (left_mask := 0) (adjust_dist := true) =
    RbV.Rs.Res.ok (2, 0b10) := by decide
example : RbV.Gen.SrcMyersTbShort.moveUp (w := 8) (wd := 8) (pv := 0b111) (mv := 0) (dist := 0) (left_state_pv := 0b111)
    (left_state_mv := 0) (left_state_dist := 2) (max_mask := 0b100) (pos_bitvec := 0b100) (left_mask := 0) (adjust_dist := true) =
    RbV.Rs.Res.panic := by decide

/-- **`traceback_source_sound` (hard, independent of the order of the Ins / Del tests)**: search `stop` symbols storing the columns in a
ring of `m + min(k, m) + 2` slots on top of arbitrary old contents (`storeAll`, `seqStates`: the model of `FullMatches` —
`Traceback::new` / `add_state` are not translated), then the **translated `Traceback::_traceback_at`** (`Gen/SrcMyersTbLoop.lean`,
single-word instance) at the slot of the last column, for a hit (`d ≤ k`): no panic, the loop ends within the fuel, and the returned
`(h_offset, dist)` with the pushed operations is a hit accepted by `checkHit` — start `stop − h_offset`, a valid labelled alignment of
the pattern with `t[start..stop]` of cost `dist`, `dist` minimal over all starts, `≤ k`.  The proof follows whichever order of the
tests the text has (Subst > Ins > Del as pinned, or Subst > Del > Ins as in seeded C10-H1): `step_eqG` selects it, the loop model
`Handler.loopG` / `walkG` (`Lemmas/TracebackOrder.lean`) is sound for both.  Which of several optimal paths is reported is not
part of the statement (the exact equality with the pinned-order model is the soft `tracebackAt_eq_model`). -/
theorem traceback_source_sound (w wd : Nat) (eqv : Nat → Nat → Bool) (p t : List Nat) (k stop : Nat)
    (old : List (RbV.Model.MyersSimple.St w)) (hw1 : 1 < w) (hwd : wd < 64) (hw63 : w < 2 ^ 63) (hm1 : 1 ≤ p.length)
    (hw : p.length ≤ w) (hd : p.length < 2 ^ wd - 1) (hold : old.length = p.length + min k p.length + 2) (h1 : 1 ≤ stop)
    (hs : stop ≤ t.length) (hst : stop < 2 ^ wd - p.length) (d : Nat)
    (hdv : (lastRow (unitW eqv) p t)[stop - 1]? = some d) (hk : d ≤ k) :
    ∃ (off dist : Nat) (ops : List Op),
      RbV.Gen.SrcMyersTbLoop.tracebackAt (w := w) (wd := wd) (m := p.length)
          (pos := (stop + 1) % (p.length + min k p.length + 2)) (ops := some [])
          (state_slice := RbV.Thm.GenSrcMyersLongStep.repS (RbV.Model.MyersTraceback.storeAll (p.length + min k p.length + 2) old 0
            (RbV.Model.MyersTraceback.seqStates w eqv p (2 ^ wd - 1) (t.take stop)))) (gas := p.length + stop + 1) =
        RbV.Rs.Res.ok (some (ops.map RbV.Thm.GenSrcMyersTbLoop.opCode), (off, dist)) ∧
      checkHit eqv p t k ⟨stop - off, stop, dist, ops.reverse⟩ = true :=
  RbV.Thm.GenSrcMyersTbSound.traceback_source_sound w wd eqv p t k stop old hw1 hwd hw63 hm1 hw hd hold h1 hs hst d hdv hk

end RbV.Thm.C10
