import RbV.Gen.SrcQGramExact
import RbV.Model.QGramExact
import RbV.Lemmas.QGramExactModel
/-!
# C19 — the text of `QGramIndex::exact_matches` (translated on every `./check C19`: `RbV/Gen/SrcQGramExact.lean`)

`HashMap<i32, ExactMatch>` = `Rs.HMap` (association list; `match diagonals.entry(d) { Vacant(v) => v.insert(..), Occupied(o)
=> { let m = o.get_mut(); … } }` = `get`, then `insertNew` / the updated record written back with `update`); the final
`for (_, m) in diagonals` iterates over `hmIter diagonals`, an **abstract permutation** of the entries (hash order).
`self.ranks.qgrams(self.q, pattern)` and `self.qgram_matches(qgram)` are abstract (`qgramsOf`, `qgramMatches`); what the
theorems assume of them (`hM`, `hH`) is what `qgrams_source_eq_model` / `qgram_index_source_positions_exact` establish for the
translated iterator and index (not composed here).
-/
set_option linter.unusedSimpArgs false
set_option linter.unusedVariables false
namespace RbV.Thm.GenSrcQGramExact
open RbV RbV.Rs RbV.QGram RbV.Gen.SrcQGramExact

abbrev EM := (Nat × Nat) × (Nat × Nat)

/-- `ExactMatch { pattern: Interval { start, stop }, text: Interval { start, stop } }` of a model record -/
def cv (r : ExactRec) : EM := ((r.1, r.2.1), (r.2.2.1, r.2.2.2))

def encD (T : List (Int × ExactRec)) : List (Int × EM) := T.map (fun e => (e.1, cv e.2))

theorem get_enc (T : List (Int × ExactRec)) (d : Int) : Rs.HMap.get (encD T) d = (assocGet d T).map cv := by
  induction T with
  | nil => rfl
  | cons e T ih =>
    obtain ⟨a, v⟩ := e
    simp only [encD, List.map_cons, Rs.HMap.get, assocGet] at ih ⊢
    split
    · rfl
    · exact ih

theorem update_enc (T : List (Int × ExactRec)) (d : Int) (v : ExactRec) :
    Rs.HMap.update (encD T) d (cv v) = encD (assocSet d v T) := by
  simp only [Rs.HMap.update, encD, assocSet, List.map_map]
  apply List.map_congr_left
  intro e _
  simp only [Function.comp]
  split <;> rfl

theorem insert_enc (T : List (Int × ExactRec)) (d : Int) (v : ExactRec) :
    Rs.HMap.insertNew (encD T) d (cv v) = encD (T ++ [(d, v)]) := by
  simp [Rs.HMap.insertNew, encD]

theorem assocGet_mem {β : Type} {d : Int} {T : List (Int × β)} {m : β} (h : assocGet d T = some m) : (d, m) ∈ T := by
  induction T with
  | nil => simp [assocGet] at h
  | cons e T ih =>
    simp only [assocGet] at h
    split at h
    · next he => cases h; obtain ⟨a, b⟩ := e; simp at he; subst he; simp
    · exact List.mem_cons_of_mem _ (ih h)

/-- every open match has `q ≤ pattern.stop < 2^32` (so `m.pattern.stop - q + 1` neither underflows nor overflows) -/
def Good (q : Nat) (T : List (Int × ExactRec)) : Prop := ∀ e ∈ T, q ≤ e.2.2.1 ∧ e.2.2.1 < 2 ^ 32

theorem good_step {q : Nat} {st : List (Int × ExactRec) × List ExactRec} {h : Nat × Nat} (hg : Good q st.1)
    (hb : h.1 + q < 2 ^ 31) : Good q (exactStep q st h).1 := by
  unfold exactStep
  split
  · intro e he
    rcases List.mem_append.mp he with he | he
    · exact hg e he
    · simp only [List.mem_singleton] at he; subst he; simp only; omega
  · split <;>
    · intro e he
      simp only [assocSet, List.mem_map] at he
      obtain ⟨e0, he0, rfl⟩ := he
      split
      · simp only; omega
      · exact hg e0 he0

def encS (st : List (Int × ExactRec) × List ExactRec) : List (Int × EM) × List EM := (encD st.1, st.2.map cv)

/-- one hit: the translated loop body = the model's `exactStep` -/
theorem step_eq (qgramsOf : Nat → List Nat → List Nat) (qgramMatches : Nat → Res (List Nat)) (hmIter : List (Int × EM) → List (Int × EM))
    (q i p : Nat) (st : List (Int × ExactRec) × List ExactRec) (hi : i + q < 2 ^ 31) (hp : p + q < 2 ^ 31) (hg : Good q st.1) :
    exactMatches_for2 qgramsOf qgramMatches hmIter q i (encS st) p = Res.ok (encS (exactStep q st (i, p))) := by
  have ec1 : Rs.castSigned 32 p = (p : Int) := Rs.castSigned_of_lt (by omega)
  have ec2 : Rs.castSigned 32 i = (i : Int) := Rs.castSigned_of_lt (by omega)
  have esub : Rs.isub 32 (p : Int) (i : Int) = Res.ok ((p : Int) - (i : Int)) :=
    Rs.isub_ok (by unfold Rs.InS; simp; omega)
  have ea1 : Rs.add 64 i q = Res.ok (i + q) := Rs.add_ok (by omega)
  have ea2 : Rs.add 64 p q = Res.ok (p + q) := Rs.add_ok (by omega)
  have ea1' : Rs.add 64 q i = Res.ok (i + q) := by rw [Rs.add_ok (by omega), Nat.add_comm]
  have ea2' : Rs.add 64 q p = Res.ok (p + q) := by rw [Rs.add_ok (by omega), Nat.add_comm]
  unfold exactStep encS
  simp only [exactMatches_for2, ec1, ec2, esub, Res.ok_bind, get_enc, diag]
  cases hget : assocGet ((p : Int) - (i : Int)) st.1 with
  | none =>
    simp only [Option.map_none, ea1, ea2, ea1', ea2', Res.ok_bind, Res.pure_eq_ok]
    rw [show (((i, i + q), (p, p + q)) : EM) = cv (i, i + q, p, p + q) from rfl, insert_enc]
  | some m =>
    obtain ⟨a, b, c, d⟩ := m
    have hm := hg _ (assocGet_mem hget)
    simp only at hm
    have es : Rs.sub b q = Res.ok (b - q) := Rs.sub_ok hm.1
    have ea3 : Rs.add 64 (b - q) 1 = Res.ok (b - q + 1) := Rs.add_ok (by omega)
    have ea3' : Rs.add 64 1 (b - q) = Res.ok (b - q + 1) := by rw [Rs.add_ok (by omega), Nat.add_comm]
    simp only [Option.map_some, cv, es, ea3, ea3', Res.ok_bind, Res.pure_eq_ok]
    have hsym : (i != b - q + 1) = (b - q + 1 != i) := by
      rw [Bool.eq_iff_iff, bne_iff_ne, bne_iff_ne]; exact ⟨fun h e => h e.symm, fun h e => h e.symm⟩
    by_cases hne : (b - q + 1 != i) = true
    · simp only [hsym, hne, if_true, ea1, ea2, ea1', ea2', Res.ok_bind, Res.pure_eq_ok, List.map_append, List.map_cons, List.map_nil]
      rw [show (((i, i + q), (p, p + q)) : EM) = cv (i, i + q, p, p + q) from rfl, update_enc]
      rfl
    · simp only [hsym, hne, if_false, ea1, ea2, ea1', ea2', Res.ok_bind, Res.pure_eq_ok, Bool.false_eq_true]
      rw [show (((a, i + q), (c, p + q)) : EM) = cv (a, i + q, c, p + q) from rfl, update_enc]

/-- the positions of one q-gram -/
theorem inner_fold (qgramsOf : Nat → List Nat → List Nat) (qgramMatches : Nat → Res (List Nat)) (hmIter : List (Int × EM) → List (Int × EM))
    (q i : Nat) (hi : i + q < 2 ^ 31) :
    ∀ (ps : List Nat) (st : List (Int × ExactRec) × List ExactRec), (∀ p ∈ ps, p + q < 2 ^ 31) → Good q st.1 →
      List.foldlM (exactMatches_for2 qgramsOf qgramMatches hmIter q i) (encS st) ps
        = Res.ok (encS (ps.foldl (fun st p => exactStep q st (i, p)) st)) ∧
      Good q (ps.foldl (fun st p => exactStep q st (i, p)) st).1 := by
  intro ps
  induction ps with
  | nil => intro st _ hg; exact ⟨rfl, hg⟩
  | cons p ps ih =>
    intro st hb hg
    rw [List.foldlM_cons, step_eq qgramsOf qgramMatches hmIter q i p st hi (hb p (by simp)) hg, Res.ok_bind, List.foldl_cons]
    exact ih _ (fun p' hp' => hb p' (by simp [hp'])) (good_step hg hi)

/-- all q-grams of the pattern -/
theorem outer_fold (qgramsOf : Nat → List Nat → List Nat) (qgramMatches : Nat → Res (List Nat)) (hmIter : List (Int × EM) → List (Int × EM))
    (q : Nat) (P : Nat → List Nat) :
    ∀ (L : List (Nat × Nat)) (st : List (Int × ExactRec) × List ExactRec),
      (∀ ci ∈ L, qgramMatches ci.1 = Res.ok (P ci.2) ∧ ci.2 + q < 2 ^ 31 ∧ ∀ p ∈ P ci.2, p + q < 2 ^ 31) → Good q st.1 →
      List.foldlM (exactMatches_for1 qgramsOf qgramMatches hmIter q) (encS st) L
        = Res.ok (encS (L.foldl (fun st ci => (P ci.2).foldl (fun st p => exactStep q st (ci.2, p)) st) st)) := by
  intro L
  induction L with
  | nil => intro st _ _; rfl
  | cons ci L ih =>
    intro st hL hg
    obtain ⟨h1, h2, h3⟩ := hL ci (by simp)
    obtain ⟨e1, g1⟩ := inner_fold qgramsOf qgramMatches hmIter q ci.2 h2 (P ci.2) st h3 hg
    rw [List.foldlM_cons, List.foldl_cons]
    have hstep : exactMatches_for1 qgramsOf qgramMatches hmIter q (encS st) ci
        = Res.ok (encS ((P ci.2).foldl (fun st p => exactStep q st (ci.2, p)) st)) := by
      obtain ⟨code, i⟩ := ci
      simp only [exactMatches_for1, encS] at e1 ⊢
      simp only [h1, Res.ok_bind, e1, Res.pure_eq_ok]
    rw [hstep, Res.ok_bind]
    exact ih _ (fun c hc => hL c (by simp [hc])) g1

theorem push_fold (qgramsOf : Nat → List Nat → List Nat) (qgramMatches : Nat → Res (List Nat)) (hmIter : List (Int × EM) → List (Int × EM)) :
    ∀ (l : List (Int × EM)) (acc : List EM),
      List.foldlM (exactMatches_for3 qgramsOf qgramMatches hmIter) acc l = Res.ok (acc ++ l.map (·.2)) := by
  intro l
  induction l with
  | nil => intro acc; simp
  | cons e l ih => intro acc; obtain ⟨d, m⟩ := e; rw [List.foldlM_cons]; simp [exactMatches_for3, ih]

/-- **`QGramIndex::exact_matches` as written in the source**: no panic, and the returned vector is a permutation of the mirror
model's result (the permutation is the iteration order of the hash map, which the property does not fix) -/
theorem exactMatches_eq_model (qgramsOf : Nat → List Nat → List Nat) (qgramMatches : Nat → Res (List Nat)) (hmIter : List (Int × EM) → List (Int × EM))
    (hIter : ∀ m, (hmIter m).Perm m) (mc q : Nat) (pat text : List Nat) (P : Nat → List Nat)
    (hM : ∀ ci ∈ (qgramsOf q pat).zipIdx, qgramMatches ci.1 = Res.ok (P ci.2))
    (hH : hits mc q pat text = ((qgramsOf q pat).zipIdx).flatMap (fun ci => (P ci.2).map (fun p => (ci.2, p))))
    (hB : ∀ ci ∈ (qgramsOf q pat).zipIdx, ci.2 + q < 2 ^ 31 ∧ ∀ p ∈ P ci.2, p + q < 2 ^ 31) :
    ∃ res, exactMatches qgramsOf qgramMatches hmIter q pat = Res.ok res ∧ res.Perm ((exactMatchesModel mc q pat text).map cv) := by
  have hO := outer_fold qgramsOf qgramMatches hmIter q P ((qgramsOf q pat).zipIdx) ([], [])
    (fun ci hci => ⟨hM ci hci, (hB ci hci).1, (hB ci hci).2⟩) (by intro e he; cases he)
  have hfold : ((qgramsOf q pat).zipIdx).foldl (fun st ci => (P ci.2).foldl (fun st p => exactStep q st (ci.2, p)) st) ([], [])
      = (hits mc q pat text).foldl (exactStep q) ([], []) := by
    rw [hH, List.foldl_flatMap]
    simp only [List.foldl_map]
  rw [hfold] at hO
  obtain ⟨fin, hfin⟩ : ∃ fin, fin = (hits mc q pat text).foldl (exactStep q) ([], []) := ⟨_, rfl⟩
  rw [← hfin] at hO
  have hO' : List.foldlM (exactMatches_for1 qgramsOf qgramMatches hmIter q)
      ((Rs.HMap.empty : Rs.HMap Int EM), ([] : List EM)) ((qgramsOf q pat).zipIdx) = Res.ok (encS fin) := hO
  refine ⟨fin.2.map cv ++ (hmIter (encD fin.1)).map (·.2), ?_, ?_⟩
  · unfold exactMatches
    simp only [hO', Res.ok_bind, encS, push_fold, Res.pure_eq_ok, List.nil_append]
  · have hmod : exactMatchesModel mc q pat text = fin.2 ++ fin.1.map (·.2) := by
      unfold exactMatchesModel; rw [← hfin]
    rw [hmod, List.map_append]
    apply List.Perm.append_left
    have h1 : (fin.1.map (·.2)).map cv = (encD fin.1).map (·.2) := by simp [encD, List.map_map, Function.comp]
    rw [h1]
    exact (hIter _).map _

end RbV.Thm.GenSrcQGramExact
