import RbV.Gen.SrcMyersLong
import RbV.Model.MyersLong
import RbV.Thm.GenSrcMyersSimple
/-!
# The translated text of `long.rs: advance_block` equals the mirror model `MyersLong.advanceBlock`

`RbV/Gen/SrcMyersLong.lean` is regenerated from `src/pattern_matching/myers/long.rs` by `tools/rs2lean_pm.py` on every
`./check C09`.  A block `State<T, usize>` is `(pv, mv, dist)` with the words as `Nat` below `2^w`; the horizontal
differences `hin`, `hout` ∈ {−1, 0, 1} are `i8` bit patterns (`Rs.ofInt 8`: −1 = 255).  The word-level part of the proof is
that of `_step` (`Thm/GenSrcMyersSimple.lean`), with `eq | 1` when `hin < 0` and the carry bits shifted into `ph` / `mh`.
-/
set_option linter.unusedSimpArgs false
set_option linter.unusedVariables false

namespace RbV.Thm.GenSrcMyersLong
open RbV RbV.Rs RbV.Model.MyersSimple RbV.Thm.GenSrcMyersSimple

theorem or_one_toNat {w : Nat} (hw : 1 < w) (x : BitVec w) : x.toNat ||| 1 = (x ||| 1#w).toNat := by
  rw [BitVec.toNat_or, ← one_toNat hw]
theorem one_or_toNat {w : Nat} (hw : 1 < w) (x : BitVec w) : 1 ||| x.toNat = (x ||| 1#w).toNat := by
  rw [Nat.or_comm]; exact or_one_toNat hw x

/-- the `i8` value of `(p as i8) - (q as i8)` -/
theorem hout_pattern (p q : Bool) :
    (if p then (if q then 0 else 1) else (if q then 255 else 0)) = Rs.ofInt 8 ((p.toNat : Int) - (q.toNat : Int)) := by
  cases p <;> cases q <;> decide

/-- **`advance_block` as written = the model's `advanceBlock`**, for every word width `w ≥ 2`, every block state and every
incoming difference `hin ∈ {−1, 0, 1}`: `p.peq[a]` is the word `eq`, `p.bound = 1 << bnd`; side condition: the `dist` update
`wrapping_add(hout as usize)` does not wrap. -/
theorem advanceBlock_eq_model (w bnd : Nat) (hw : 1 < w) (peqT : List Nat) (a : Nat) (eq : BitVec w) (s : St w) (hin : Int)
    (hh : -1 ≤ hin ∧ hin ≤ 1) (hpeq : Rs.idx peqT a = Res.ok eq.toNat)
    (hlo : ((s.pv &&& xhOf (if hin < 0 then eq ||| 1#w else eq) s.pv).getLsbD bnd).toNat ≤
      s.dist + ((s.mv ||| ~~~(xhOf (if hin < 0 then eq ||| 1#w else eq) s.pv ||| s.pv)).getLsbD bnd).toNat)
    (hhi : s.dist + 1 < 2 ^ 64) :
    RbV.Gen.SrcMyersLong.advanceBlock (w := w) (pv := s.pv.toNat) (mv := s.mv.toNat) (dist := s.dist) (peq := peqT)
        (bound := 2 ^ bnd) (a := a) (hin := Rs.ofInt 8 hin) =
      Res.ok ((RbV.Model.MyersLong.advanceBlock bnd eq hin s).1.pv.toNat, (RbV.Model.MyersLong.advanceBlock bnd eq hin s).1.mv.toNat,
        (RbV.Model.MyersLong.advanceBlock bnd eq hin s).1.dist, Rs.ofInt 8 (RbV.Model.MyersLong.advanceBlock bnd eq hin s).2) := by
  have i1 : Rs.ofInt 8 (-1) = 255 := by decide
  have i2 : Rs.ofInt 8 0 = 0 := by decide
  have i3 : Rs.ofInt 8 1 = 1 := by decide
  have j1 : Rs.toInt 8 255 = -1 := by decide
  have j2 : Rs.toInt 8 0 = 0 := by decide
  have j3 : Rs.toInt 8 1 = 1 := by decide
  have hupd := fun (e : BitVec w) => dist_update s.dist ((s.mv ||| ~~~(xhOf e s.pv ||| s.pv)).getLsbD bnd)
    ((s.pv &&& xhOf e s.pv).getLsbD bnd)
  have hz : ∀ x : BitVec w, x ||| 0#w = x := fun x => by simp
  rcases (by omega : hin = -1 ∨ hin = 0 ∨ hin = 1) with rfl | rfl | rfl
  all_goals
    simp only [show ((-1 : Int) < 0) = True from by decide, show ((0 : Int) < 0) = False from by decide,
      show ((1 : Int) < 0) = False from by decide, if_true, if_false] at hlo
    have hupd' := hupd _ hlo hhi
    simp only [RbV.Model.MyersLong.advanceBlock, xhOf, show ((-1 : Int) < 0) = True from by decide,
      show ((0 : Int) < 0) = False from by decide, show ((1 : Int) < 0) = False from by decide,
      show ((-1 : Int) > 0) = False from by decide, show ((0 : Int) > 0) = False from by decide,
      show ((1 : Int) > 0) = True from by decide, if_true, if_false, hz] at hupd' ⊢
    simp only [RbV.Gen.SrcMyersLong.advanceBlock, hpeq, i1, i2, i3, j1, j2, j3, Res.ok_bind, Res.pure_eq_ok,
      show ((-1 : Int) < 0) = True from by decide, show ((0 : Int) < 0) = False from by decide,
      show ((1 : Int) < 0) = False from by decide, show ((-1 : Int) > 0) = False from by decide,
      show ((0 : Int) > 0) = False from by decide, show ((1 : Int) > 0) = True from by decide,
      decide_true, decide_false, if_true, if_false, Bool.false_eq_true,
      and_toNat, or_toNat, xor_toNat, wadd_toNat, not_toNat, test_bound, test_bound', or_one_toNat hw, one_or_toNat hw,
      Rs.subI8_ofBool, shl1_toNat hw, hout_pattern]
    simp only [BitVec.and_comm, BitVec.and_assoc, bv_and_left_comm, BitVec.or_comm, BitVec.or_assoc, bv_or_left_comm,
      BitVec.xor_comm, BitVec.xor_assoc, bv_xor_left_comm, BitVec.add_comm, BitVec.add_assoc, bv_add_left_comm,
      Nat.add_comm, Nat.add_assoc, Nat.add_left_comm] at hupd' ⊢
    first
      | rfl
      | (simp only [← hout_pattern, hupd']; done)
      | (simp only [← hout_pattern, hupd', Res.ok.injEq, Prod.mk.injEq, true_and, and_true]; done)

end RbV.Thm.GenSrcMyersLong
