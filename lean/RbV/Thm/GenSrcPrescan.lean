import RbV.Gen.SrcPrescan
import RbV.Model.Occ
import RbV.Thm.GenSrcBasic
/-!
# The translated text of `utils::prescan` equals the mirror model `OccM.prescanGo`

`RbV/Gen/SrcPrescan.lean` is regenerated from `src/utils/mod.rs` by `tools/rs2lean.py` on every `./check C04`.  The Rust
function is generic in the element type and the operation and rewrites the slice in place through `iter_mut()`
(`let t = *v; *v = s; s = op(s, t)`); the translation threads the new prefix of the slice through the fold and returns
the new slice.  The model used by `less()` (`lessModel = prescanGo 0 (countArr …)`) is the instance `+` on `Nat`.
-/
-- the simp sets name every fact a harmless rewrite of the Rust text may need; on the pinned text some are unused
set_option linter.unusedSimpArgs false

namespace RbV.Thm.GenSrcPrescan
open RbV RbV.Rs RbV.Gen.SrcPrescan RbV.Thm.GenSrc

/-- the translated `for v in a.iter_mut()` loop: running sum and the rewritten prefix -/
theorem for_eq (l : List Nat) : ∀ (s : Nat) (acc : List Nat),
    l.foldlM (prescan_for1 (· + ·)) (s, acc) = Res.ok (s + l.sum, acc ++ OccM.prescanGo s l) := by
  induction l with
  | nil => intro s acc; simp [OccM.prescanGo]
  | cons v l ih =>
    intro s acc
    have hstep : prescan_for1 (· + ·) (s, acc) v = Res.ok (s + v, acc ++ [s]) := by
      simp [prescan_for1, Nat.add_comm]
    rw [List.foldlM_cons, hstep, Res.ok_bind, ih]
    simp [OccM.prescanGo, Nat.add_assoc]

/-- **`utils::prescan` as written in the source, instantiated with `+` on naturals, = `prescanGo`** (no panic is
possible: the function neither indexes nor does checked arithmetic itself; `op` is the caller's closure) -/
theorem prescan_eq_model (a : List Nat) (neutral : Nat) :
    prescan (· + ·) a neutral = Res.ok (OccM.prescanGo neutral a) := by
  simp [prescan, for_eq]

end RbV.Thm.GenSrcPrescan
