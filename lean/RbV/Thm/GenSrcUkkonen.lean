import RbV.Gen.SrcUkkonen
import RbV.Model.Ukkonen
import RbV.Lemmas.UkkonenEq
import RbV.Thm.GenSrcBasic
import RbV.Thm.GenSrcScanD
/-!
# The translated text of `Ukkonen::find_all_end` / `ukkonen::Matches::next` equals the mirror model `Ukkonen.run`

`RbV/Gen/SrcUkkonen.lean` is regenerated from `src/pattern_matching/ukkonen.rs` by `tools/rs2lean_pm.py` on every
`./check C09`.  The two DP columns `D: [Vec<usize>; 2]` are a list of two lists; which of them is the column being
written depends on the parity of the text position (`col = i % 2`).  The user's cost closure is the abstract function
`cost` (values `< 2^32`: it returns `u32`).  The translated `next` works on the explicit iterator state
`(D, text, lastk)`; `Rs.drain` calls it until `None`.

* `iter_cons`: one round of the translated `for (i, c) in &mut self.text` = one `Ukkonen.step` of the mirror model
  (inner `for j in 1..=lastk` = `newCol`, `while D[col][lastk] > k` = `cutBack`), on every state whose two columns have
  `m + 1` cells with entries `≤ B` (`B + 2^32 ≤ 2^64`: no checked addition overflows).
* `findAllEnd_init`: **whatever the two buffers held before** (any two lists: the state a previous search left behind),
  `find_all_end` resets them to `[k'+1; m+1]`, `0..=m` — the initial state of the model for the threshold `k'` it stores
  (`k' = k`, or `min k m`: clamping the threshold to the pattern length changes no result, `hits_clamp`).
* `findAllSrc_eq_model`: `find_all_end` followed by `next` until `None` = `Ukkonen.findAllEnd` of the mirror model.
-/
set_option linter.unusedSimpArgs false
set_option linter.unusedVariables false

namespace RbV.Thm.GenSrcUkkonen
open RbV RbV.Rs RbV.Gen.SrcUkkonen RbV.Model.Ukkonen RbV.Thm.GenSrc

/-! ### the two buffers -/

/-- `D` when buffer number `col` holds `cur` and the other one holds `oth` -/
def two (col : Nat) (cur oth : List Nat) : List (List Nat) := if col = 0 then [cur, oth] else [oth, cur]

theorem idx_two_col (col : Nat) (h : col < 2) (cur oth : List Nat) : Rs.idx (two col cur oth) col = Res.ok cur := by
  have : col = 0 ∨ col = 1 := by omega
  rcases this with rfl | rfl <;> simp [two, Rs.idx]

theorem idx_two_oth (col : Nat) (h : col < 2) (cur oth : List Nat) : Rs.idx (two col cur oth) (1 - col) = Res.ok oth := by
  have : col = 0 ∨ col = 1 := by omega
  rcases this with rfl | rfl <;> simp [two, Rs.idx]

theorem setIdx_two (col : Nat) (h : col < 2) (cur oth v : List Nat) :
    Rs.setIdx (two col cur oth) col v = Res.ok (two col v oth) := by
  have : col = 0 ∨ col = 1 := by omega
  rcases this with rfl | rfl <;> simp [two, Rs.setIdx]

theorem two_flip (col : Nat) (h : col < 2) (cur oth : List Nat) : two col cur oth = two (1 - col) oth cur := by
  have : col = 0 ∨ col = 1 := by omega
  rcases this with rfl | rfl <;> simp [two]

/-! ### cells -/

theorem idx_nth (l : List Nat) (j : Nat) (h : j < l.length) : Rs.idx l j = Res.ok (nth l j) := by
  rw [nth_getElem l j h]; exact Rs.idx_ok h

theorem nth_ge (l : List Nat) (j : Nat) (h : l.length ≤ j) : nth l j = 0 := by
  simp [nth, List.getElem?_eq_none h]

theorem nth_set_self (l : List Nat) (j v : Nat) (h : j < l.length) : nth (l.set j v) j = v := by
  simp [nth, h]

theorem nth_set_ne (l : List Nat) (j i v : Nat) (h : j ≠ i) : nth (l.set j v) i = nth l i := by
  simp [nth, List.getElem?_set_ne h]

theorem nth_take_append (N old : List Nat) (j i : Nat) (hi : i < j) (hj : j ≤ N.length) :
    nth (N.take j ++ old.drop j) i = nth N i := by
  unfold nth
  rw [List.getElem?_append_left (by simp; omega), List.getElem?_take_of_lt hi]

theorem take_drop_set (N old : List Nat) (j : Nat) (hN : j < N.length) (hO : j < old.length) :
    (N.take j ++ old.drop j).set j (nth N j) = N.take (j + 1) ++ old.drop (j + 1) := by
  apply List.ext_getElem?
  intro i
  rw [List.getElem?_set]
  have hl : (N.take j).length = j := by simp; omega
  have hl1 : (N.take (j + 1)).length = j + 1 := by simp; omega
  by_cases h1 : i < j
  · have e : ¬ j = i := by omega
    simp only [e, if_false]
    rw [List.getElem?_append_left (by omega), List.getElem?_append_left (by omega),
      List.getElem?_take_of_lt h1, List.getElem?_take_of_lt (by omega)]
  · by_cases h2 : i = j
    · subst h2
      have : i < (List.take i N ++ List.drop i old).length := by simp; omega
      simp only [if_true, this]
      rw [List.getElem?_append_left (by omega), List.getElem?_take_of_lt (by omega), nth_getElem N i hN,
        List.getElem?_eq_getElem hN]
    · have e : ¬ j = i := by omega
      simp only [e, if_false]
      rw [List.getElem?_append_right (by omega), List.getElem?_append_right (by omega), hl, hl1,
        List.getElem?_drop, List.getElem?_drop]
      congr 1
      omega

/-- the cells the inner loop writes are at most their row index (so no `+ 1` on them overflows) -/
theorem newCol_le (w : Nat → Nat → Nat) (p : List Nat) (c : Nat) (s : St) (pre : Nat)
    (hp : s.prev.length = p.length + 1) (hpre : pre ≤ p.length) : ∀ j, j ≤ pre → nth (newCol w p c s pre) j ≤ j := by
  intro j
  induction j with
  | zero => intro _; rw [newCol_zero]; omega
  | succ j ih =>
    intro hj
    have := ih (by omega)
    rw [newCol_low w p c s pre hp hpre j (by omega)]
    omega

theorem newCol_take (w : Nat → Nat → Nat) (p : List Nat) (c : Nat) (s : St) (pre : Nat)
    (hp : s.prev.length = p.length + 1) (hpre : pre ≤ p.length) :
    (newCol w p c s pre).take (pre + 1) ++ s.old.drop (pre + 1) = newCol w p c s pre := by
  have hlen := fill_length w c pre p s.prev.tail (s.prev.headD 0) 0 hpre (by simp [hp]; omega)
  unfold newCol
  rw [List.take_left' (by rw [List.length_cons, hlen])]

/-! ### well-formed states: two columns of `m + 1` cells, entries bounded by `B` -/

structure WF (m B : Nat) (s : St) : Prop where
  lenP : s.prev.length = m + 1
  lenO : s.old.length = m + 1
  lk : s.lastk ≤ m
  bP : ∀ j, nth s.prev j ≤ B
  bO : ∀ j, nth s.old j ≤ B

/-- closing step of the value-level goals: the same cell value up to the order of the operands of `min` / `+` -/
theorem natMin_eq (a b : Nat) : Nat.min a b = min a b := rfl

macro "ukk_close" : tactic =>
  `(tactic| first
    | done
    | omega
    | (refine congrArg (fun v => two _ (List.set _ _ v) _) ?_; (try simp only [natMin_eq]); omega)
    | (congr 1 <;> omega)
    | (congr 2 <;> omega))

section
variable (cost : Nat → Nat → Nat) (hcost : ∀ a b, cost a b < 2 ^ 32)
include hcost

/-- the body of `for j in 1..=self.lastk`: cell `j` of the current column from its three neighbours -/
theorem for1_step (col : Nat) (hcol : col < 2) (p : List Nat) (c : Nat) (cur oth : List Nat) (j : Nat)
    (hj1 : 1 ≤ j) (hjc : j < cur.length) (hjo : j < oth.length) (hjp : j ≤ p.length)
    (hb1 : nth oth j + 1 < 2 ^ 64) (hb2 : nth cur (j - 1) + 1 < 2 ^ 64) (hb3 : nth oth (j - 1) + 2 ^ 32 ≤ 2 ^ 64) :
    next_for1 (cost := cost) (col := col) (prev := 1 - col) (pattern := p) (c := c) (two col cur oth) j =
      Res.ok (two col (cur.set j (min (min (nth oth j + 1) (nth cur (j - 1) + 1))
        (nth oth (j - 1) + cost (nth p (j - 1)) c))) oth) := by
  have hc := hcost (nth p (j - 1)) c
  have e1 : Rs.idx (two col cur oth) (1 - col) = Res.ok oth := idx_two_oth col hcol cur oth
  have e2 : Rs.idx (two col cur oth) col = Res.ok cur := idx_two_col col hcol cur oth
  have e3 : Rs.idx oth j = Res.ok (nth oth j) := idx_nth oth j hjo
  have e4 : Rs.sub j 1 = Res.ok (j - 1) := Rs.sub_ok hj1
  have e5 : Rs.idx cur (j - 1) = Res.ok (nth cur (j - 1)) := idx_nth cur _ (by omega)
  have e6 : Rs.idx oth (j - 1) = Res.ok (nth oth (j - 1)) := idx_nth oth _ (by omega)
  have e7 : Rs.idx p (j - 1) = Res.ok (nth p (j - 1)) := idx_nth p _ (by omega)
  have e8 : Rs.add 64 (nth oth j) 1 = Res.ok (nth oth j + 1) := Rs.add_ok hb1
  have e8' : Rs.add 64 1 (nth oth j) = Res.ok (nth oth j + 1) := by rw [Nat.add_comm] at hb1 ⊢; exact Rs.add_ok (by omega)
  have e9 : Rs.add 64 (nth cur (j - 1)) 1 = Res.ok (nth cur (j - 1) + 1) := Rs.add_ok hb2
  have e9' : Rs.add 64 1 (nth cur (j - 1)) = Res.ok (nth cur (j - 1) + 1) := by
    rw [Nat.add_comm] at hb2 ⊢; exact Rs.add_ok (by omega)
  have e10 : Rs.add 64 (nth oth (j - 1)) (cost (nth p (j - 1)) c) = Res.ok (nth oth (j - 1) + cost (nth p (j - 1)) c) :=
    Rs.add_ok (by omega)
  have e10' : Rs.add 64 (cost (nth p (j - 1)) c) (nth oth (j - 1)) = Res.ok (nth oth (j - 1) + cost (nth p (j - 1)) c) := by
    rw [Nat.add_comm]; exact Rs.add_ok (by omega)
  have e11 : ∀ v, Rs.setIdx cur j v = Res.ok (cur.set j v) := fun v => Rs.setIdx_ok hjc
  have e12 : ∀ v, Rs.setIdx (two col cur oth) col v = Res.ok (two col v oth) := fun v => setIdx_two col hcol cur oth v
  simp [next_for1, e1, e2, e3, e4, e5, e6, e7, e8, e8', e9, e9', e10, e10', e11, e12]
  ukk_close

/-- the inner loop: the cells `1..=pre` of the current column become those of the model's `newCol` -/
theorem for1_fold (col : Nat) (hcol : col < 2) (p : List Nat) (c : Nat) (s : St) (pre B : Nat) (hB : B + 2 ^ 32 ≤ 2 ^ 64)
    (hmB : p.length ≤ B) (wf : WF p.length B s) (hpre : pre ≤ p.length) :
    ∀ n j, 1 ≤ j → j + n = pre + 1 →
      (List.range' j n).foldlM (next_for1 (cost := cost) (col := col) (prev := 1 - col) (pattern := p) (c := c))
        (two col ((newCol cost p c s pre).take j ++ s.old.drop j) s.prev) =
      Res.ok (two col (newCol cost p c s pre) s.prev) := by
  have hlenN := newCol_length cost p c s pre wf.lenP wf.lenO hpre
  intro n
  induction n with
  | zero =>
    intro j hj1 hjn
    have : j = pre + 1 := by omega
    subst this
    simp [newCol_take cost p c s pre wf.lenP hpre]
  | succ n ih =>
    intro j hj1 hjn
    have hjpre : j ≤ pre := by omega
    have hcur : ∀ i, i < j → nth ((newCol cost p c s pre).take j ++ s.old.drop j) i = nth (newCol cost p c s pre) i :=
      fun i hi => nth_take_append _ _ j i hi (by omega)
    have hle := newCol_le cost p c s pre wf.lenP hpre (j - 1) (by omega)
    have hb1 := wf.bP j
    have hb3 := wf.bP (j - 1)
    have hstep := for1_step cost hcost col hcol p c ((newCol cost p c s pre).take j ++ s.old.drop j) s.prev j hj1
      (by simp [hlenN, wf.lenO]; omega) (by rw [wf.lenP]; omega) (by omega) (by omega)
      (by rw [hcur (j - 1) (by omega)]; omega) (by omega)
    rw [hcur (j - 1) (by omega)] at hstep
    have hlow := newCol_low cost p c s pre wf.lenP hpre (j - 1) (by omega)
    have hj' : j - 1 + 1 = j := by omega
    rw [hj'] at hlow
    rw [← hlow, take_drop_set _ _ j (by omega) (by rw [wf.lenO]; omega)] at hstep
    rw [List.range'_succ, List.foldlM_cons, hstep]
    simp only [Res.ok_bind]
    exact ih (j + 1) (by omega) (by omega)

omit hcost in
/-- `while D[col][lastk] > k { lastk -= 1 }` = the model's `cutBack` (cell 0 of the column is 0, so the loop stops there) -/
theorem while1_eq (col : Nat) (hcol : col < 2) (N oth : List Nat) (k : Nat) (h0 : nth N 0 = 0) :
    ∀ l fuel, l < fuel → l < N.length →
      next_while1 (cost := cost) (D := two col N oth) (col := col) (k := k) fuel l = Res.ok (cutBack N k l) := by
  have e1 : Rs.idx (two col N oth) col = Res.ok N := idx_two_col col hcol N oth
  intro l
  induction l with
  | zero =>
    intro fuel hf hl
    cases fuel with
    | zero => omega
    | succ fuel =>
      have e2 : Rs.idx N 0 = Res.ok 0 := by rw [idx_nth N 0 hl, h0]
      rw [next_while1]
      simp [e1, e2, cutBack]
  | succ l ih =>
    intro fuel hf hl
    cases fuel with
    | zero => omega
    | succ fuel =>
      have e2 : Rs.idx N (l + 1) = Res.ok (nth N (l + 1)) := idx_nth N _ hl
      have e3 : Rs.sub (l + 1) 1 = Res.ok l := by rw [Rs.sub_ok (by omega)]; rfl
      have hg : N.getD (l + 1) 0 = nth N (l + 1) := by simp [nth, List.getD_eq_getElem?_getD]
      have hg' : N[l + 1]?.getD 0 = nth N (l + 1) := rfl
      rw [next_while1]
      by_cases hgt : nth N (l + 1) > k
      · have hgt' : k < nth N (l + 1) := hgt
        have hngt : ¬ nth N (l + 1) ≤ k := by omega
        simp [e1, e2, e3, hgt, hgt', hngt, cutBack, hg, hg', ih fuel (by omega) (by omega)]
      · have hgt' : ¬ k < nth N (l + 1) := hgt
        have hngt : nth N (l + 1) ≤ k := by omega
        simp [e1, e2, hgt, hgt', hngt, cutBack, hg, hg']

/-- the source-level state that represents the model state `s` before text position `i` -/
def Dof (i : Nat) (s : St) : List (List Nat) := two (i % 2) s.old s.prev

omit hcost in
theorem Dof_step (i : Nat) (N : List Nat) (s : St) (lk : Nat) : two (i % 2) N s.prev = Dof (i + 1) ⟨N, s.prev, lk⟩ := by
  unfold Dof
  have h : i % 2 < 2 := Nat.mod_lt _ (by omega)
  rw [two_flip (i % 2) h]
  congr 1
  omega

omit hcost in
theorem step_wf (p : List Nat) (k B : Nat) (hmB : p.length ≤ B) (s : St) (c : Nat) (wf : WF p.length B s) :
    WF p.length B (step cost p k s c).1 := by
  have hpre : min (s.lastk + 1) p.length ≤ p.length := Nat.min_le_right _ _
  refine ⟨newCol_length cost p c s _ wf.lenP wf.lenO hpre, wf.lenP, ?_, ?_, wf.bP⟩
  · have := cutBack_le (newCol cost p c s (min (s.lastk + 1) p.length)) k (min (s.lastk + 1) p.length)
    simp only [step]
    omega
  · intro j
    simp only [step]
    by_cases hj : j ≤ min (s.lastk + 1) p.length
    · have := newCol_le cost p c s _ wf.lenP hpre j hj
      omega
    · rw [newCol_high cost p c s _ wf.lenP hpre j (by omega)]
      exact wf.bO j

/-- **one round of the translated `for (i, c) in &mut self.text`** = one `step` of the mirror model -/
theorem iter_cons (p : List Nat) (k B : Nat) (hB : B + 2 ^ 32 ≤ 2 ^ 64) (hmB : p.length ≤ B) (i : Nat) (s : St) (c : Nat)
    (rest : List Nat) (wf : WF p.length B s) :
    next_iter1 (cost := cost) (m := p.length) (pattern := p) (k := k) (c :: rest) i (Dof i s, s.lastk) =
      match (step cost p k s c).2 with
      | some d => Res.ok (Dof (i + 1) (step cost p k s c).1, (step cost p k s c).1.lastk, (rest, i + 1), some (some (i, d)))
      | none => next_iter1 (cost := cost) (m := p.length) (pattern := p) (k := k) rest (i + 1)
          (Dof (i + 1) (step cost p k s c).1, (step cost p k s c).1.lastk) := by
  have hcol : i % 2 < 2 := Nat.mod_lt _ (by omega)
  have hpre : min (s.lastk + 1) p.length ≤ p.length := Nat.min_le_right _ _
  have hlenN := newCol_length cost p c s _ wf.lenP wf.lenO hpre
  have hlk := wf.lk
  have e1 : Rs.sub 1 (i % 2) = Res.ok (1 - i % 2) := Rs.sub_ok (by omega)
  have e2 : Rs.idx (Dof i s) (i % 2) = Res.ok s.old := idx_two_col _ hcol _ _
  have e3 : Rs.setIdx s.old 0 0 = Res.ok (s.old.set 0 0) := Rs.setIdx_ok (by rw [wf.lenO]; omega)
  have e4 : ∀ v, Rs.setIdx (Dof i s) (i % 2) v = Res.ok (two (i % 2) v s.prev) := fun v => setIdx_two _ hcol _ _ v
  have e5 : Rs.add 64 s.lastk 1 = Res.ok (s.lastk + 1) := Rs.add_ok (by omega)
  have e5' : Rs.add 64 1 s.lastk = Res.ok (s.lastk + 1) := by rw [Nat.add_comm]; exact Rs.add_ok (by omega)
  have hstart : s.old.set 0 0 = (newCol cost p c s (min (s.lastk + 1) p.length)).take 1 ++ s.old.drop 1 := by
    have : (newCol cost p c s (min (s.lastk + 1) p.length)).take 1 = [0] := by simp [newCol]
    rw [this]
    cases hso : s.old with
    | nil => have := wf.lenO; rw [hso] at this; simp at this
    | cons x xs => simp
  have e6 := for1_fold cost hcost (i % 2) hcol p c s (min (s.lastk + 1) p.length) B hB hmB wf hpre
    (min (s.lastk + 1) p.length) 1 (by omega) (by omega)
  rw [← hstart] at e6
  have hmin : Nat.min (s.lastk + 1) p.length = min (s.lastk + 1) p.length := rfl
  have hmin' : Nat.min p.length (s.lastk + 1) = min (s.lastk + 1) p.length := Nat.min_comm _ _
  have hsub : min (s.lastk + 1) p.length + 1 - 1 = min (s.lastk + 1) p.length := by omega
  have e7 := while1_eq cost (i % 2) hcol (newCol cost p c s (min (s.lastk + 1) p.length)) s.prev k
    (newCol_zero cost p c s _) (min (s.lastk + 1) p.length) (min (s.lastk + 1) p.length + 1) (by omega) (by omega)
  have e8 : Rs.idx (two (i % 2) (newCol cost p c s (min (s.lastk + 1) p.length)) s.prev) (i % 2)
      = Res.ok (newCol cost p c s (min (s.lastk + 1) p.length)) := idx_two_col _ hcol _ _
  have e9 : Rs.idx (newCol cost p c s (min (s.lastk + 1) p.length)) p.length
      = Res.ok ((newCol cost p c s (min (s.lastk + 1) p.length)).getD p.length 0) :=
    idx_getD _ _ 0 (by omega)
  have hD := fun lk => Dof_step i (newCol cost p c s (min (s.lastk + 1) p.length)) s lk
  rw [next_iter1]
  simp only [step]
  by_cases hm : cutBack (newCol cost p c s (min (s.lastk + 1) p.length)) k (min (s.lastk + 1) p.length) = p.length
  · have hm' : p.length = cutBack (newCol cost p c s (min (s.lastk + 1) p.length)) k (min (s.lastk + 1) p.length) := hm.symm
    simp [e1, e2, e3, e4, e5, e5', hmin, hmin', hsub, e6, e7, e8, e9, hm, ← hD]
  · have hm' : ¬ p.length = cutBack (newCol cost p c s (min (s.lastk + 1) p.length)) k (min (s.lastk + 1) p.length) :=
      fun h => hm h.symm
    simp [e1, e2, e3, e4, e5, e5', hmin, hmin', hsub, e6, e7, hm, hm', ← hD]

/-! ### `next`, driven until `None` -/

/-- the part of the iterator state of `ukkonen::Matches` that `next` modifies besides the text iterator: `(D, lastk)` -/
abbrev SrcSt := List (List Nat) × Nat

/-- the translated loop helper with its result regrouped as (matcher state, text iterator, outcome) -/
def iterS (p : List Nat) (k : Nat) (rest : List Nat) (i : Nat) (r : SrcSt) :
    Res (SrcSt × (List Nat × Nat) × Option (Option (Nat × Nat))) := do
  let (D, lastk, text, o) ← next_iter1 (cost := cost) (m := p.length) (pattern := p) (k := k) rest i r
  pure ((D, lastk), text, o)

/-- the translated `next` of the matcher for pattern `p` and threshold `k`, regrouped likewise -/
def nextR (p : List Nat) (k : Nat) (r : SrcSt) (tx : List Nat × Nat) : Res (SrcSt × (List Nat × Nat) × Option (Nat × Nat)) := do
  let (D, text, lastk, o) ← next (cost := cost) (D := r.1) (pattern := p) (text := tx) (lastk := r.2) (m := p.length) (k := k)
  pure ((D, lastk), text, o)

omit hcost in
theorem iterS_nil (p : List Nat) (k i : Nat) (r : SrcSt) : iterS cost p k [] i r = Res.ok (r, ([], i), none) := by
  obtain ⟨D, lastk⟩ := r
  simp [iterS, next_iter1]

omit hcost in
theorem nextR_of_iterS (p : List Nat) (k : Nat) (r : SrcSt) (tx : List Nat × Nat) (r' : SrcSt) (tx' : List Nat × Nat)
    (o : Option (Option (Nat × Nat))) (h : iterS cost p k tx.1 tx.2 r = Res.ok (r', tx', o)) :
    nextR cost p k r tx = Res.ok (r', tx', o.join) := by
  obtain ⟨D, lastk⟩ := r
  unfold iterS at h
  unfold nextR next
  cases hit : next_iter1 (cost := cost) (m := p.length) (pattern := p) (k := k) tx.1 tx.2 (D, lastk) with
  | panic => rw [hit] at h; simp at h
  | fuel => rw [hit] at h; simp at h
  | ok v =>
    obtain ⟨D', lastk', text', o'⟩ := v
    rw [hit] at h
    simp only [Res.ok_bind, Res.pure_eq_ok, Res.ok.injEq, Prod.mk.injEq] at h
    obtain ⟨⟨rfl, rfl⟩, rfl, rfl⟩ := h
    cases o' with
    | none => simp [hit]
    | some v => cases v <;> simp [hit]

theorem iterS_cons (p : List Nat) (k B : Nat) (hB : B + 2 ^ 32 ≤ 2 ^ 64) (hmB : p.length ≤ B) (i : Nat) (s : St) (c : Nat)
    (rest : List Nat) (wf : WF p.length B s) :
    iterS cost p k (c :: rest) i (Dof i s, s.lastk) =
      GenSrcScanD.branch (step cost p k s c).2
        (fun d => Res.ok ((Dof (i + 1) (step cost p k s c).1, (step cost p k s c).1.lastk), (rest, i + 1), some (some (i, d))))
        (iterS cost p k rest (i + 1) (Dof (i + 1) (step cost p k s c).1, (step cost p k s c).1.lastk)) := by
  unfold iterS
  rw [iter_cons cost hcost p k B hB hmB i s c rest wf]
  cases (step cost p k s c).2 <;> simp

omit hcost in
/-- the generic scanner over the model's `step` is the model's `run` -/
theorem runO_eq_run (p : List Nat) (k : Nat) : ∀ (t : List Nat) (s : St) (i : Nat),
    GenSrcScanD.runO (step cost p k) s i t = run cost p k s i t := by
  intro t
  induction t with
  | nil => intro s i; simp [GenSrcScanD.runO, run]
  | cons c t ih =>
    intro s i
    simp only [GenSrcScanD.runO, run]
    rcases h : step cost p k s c with ⟨s', _ | d⟩ <;> simp [ih]

/-- **`ukkonen::Matches::next` as written, called until `None`**, from any well-formed state = the model's `run` -/
theorem drain_eq (p : List Nat) (k B : Nat) (hB : B + 2 ^ 32 ≤ 2 ^ 64) (hmB : p.length ≤ B) (fuel : Nat) (rest : List Nat)
    (i : Nat) (s : St) (wf : WF p.length B s) (h64 : i + rest.length < 2 ^ 64) (hf : rest.length < fuel) :
    Rs.drain (GenSrcScanD.nextS (nextR cost p k)) fuel ((Dof i s, s.lastk), (rest, i)) = Res.ok (run cost p k s i rest) := by
  rw [← runO_eq_run]
  exact GenSrcScanD.drain_eq_run (step cost p k) (WF p.length B) (fun _ => True) (fun i s => (Dof i s, s.lastk))
    (iterS cost p k) (nextR cost p k) (iterS_nil cost p k)
    (fun i s c rest wf _ _ => iterS_cons cost hcost p k B hB hmB i s c rest wf)
    (nextR_of_iterS cost p k) (fun s c wf _ => step_wf cost p k B hmB s c wf) fuel rest i s wf (fun _ _ => trivial) h64 hf

/-- **one call of `ukkonen::Matches::next` as written** on a well-formed state: no panic; `None` exactly when the text is
exhausted without a further hit of the model, otherwise the model's next hit `Some((i, d))` (`GenSrcScanD.StepSpec`) -/
theorem next_eq_model (p : List Nat) (k B : Nat) (hB : B + 2 ^ 32 ≤ 2 ^ 64) (hmB : p.length ≤ B) (rest : List Nat)
    (i : Nat) (s : St) (wf : WF p.length B s) (h64 : i + rest.length < 2 ^ 64) :
    ∃ r' tx' o, nextR cost p k (Dof i s, s.lastk) (rest, i) = Res.ok (r', tx', o) ∧
      GenSrcScanD.StepSpec (step cost p k) (WF p.length B) (fun i s => (Dof i s, s.lastk)) rest i s r' tx' (o.map some) := by
  obtain ⟨r', tx', o, hrun, hspec⟩ := GenSrcScanD.iter_spec (step cost p k) (WF p.length B) (fun _ => True)
    (fun i s => (Dof i s, s.lastk)) (iterS cost p k) (iterS_nil cost p k)
    (fun i s c rest wf _ _ => iterS_cons cost hcost p k B hB hmB i s c rest wf)
    (fun s c wf _ => step_wf cost p k B hmB s c wf) rest i s wf (fun _ _ => trivial) h64
  refine ⟨r', tx', o.join, nextR_of_iterS cost p k _ (rest, i) r' tx' o hrun, ?_⟩
  rcases hspec with ⟨h1, h2, h3⟩ | ⟨v, s', h1, h2⟩
  · subst h1; exact Or.inl ⟨rfl, h2, h3⟩
  · subst h1; exact Or.inr ⟨v, s', rfl, h2⟩

end

/-! ### `find_all_end`: the buffers are reset, whatever a previous search left in them -/

/-- **`Ukkonen::find_all_end` as written**: for *any* previous contents `D` of the two buffers the iterator starts in the
initial state of the mirror model for the threshold `k'` it stores, where `k' = k` (pinned text) or `k' = min k m`
(a text that clamps the threshold first; same hits by `hits_clamp`) -/
theorem findAllEnd_init (D : List (List Nat)) (hD : D.length = 2) (p t : List Nat) (k : Nat) (hk : k + 1 < 2 ^ 64)
    (hm : p.length + 1 < 2 ^ 64) :
    ∃ k', (k' = k ∨ k' = min k p.length) ∧
      Gen.SrcUkkonen.findAllEnd D p t k =
        Res.ok (Dof 0 (init p.length k'), (p, (t, 0), (init p.length k').lastk, p.length, k')) := by
  match D, hD with
  | [d0, d1], _ =>
    have e1 : Rs.add 64 k 1 = Res.ok (k + 1) := Rs.add_ok hk
    have e1' : Rs.add 64 1 k = Res.ok (k + 1) := by rw [Nat.add_comm]; exact Rs.add_ok (by omega)
    have e2 : Rs.add 64 p.length 1 = Res.ok (p.length + 1) := Rs.add_ok hm
    have e2' : Rs.add 64 1 p.length = Res.ok (p.length + 1) := by rw [Nat.add_comm]; exact Rs.add_ok (by omega)
    have e3 : Rs.add 64 (min k p.length) 1 = Res.ok (min k p.length + 1) := Rs.add_ok (by omega)
    have e3' : Rs.add 64 1 (min k p.length) = Res.ok (min k p.length + 1) := by rw [Nat.add_comm]; exact Rs.add_ok (by omega)
    -- `k.saturating_add(1)` (proposed fix C09-ukkonen-maxk-overflow) is `k + 1` inside the hypotheses
    have e1s : Rs.saturatingAdd 64 k 1 = k + 1 := by simp only [Rs.saturatingAdd]; omega
    have e3s : Rs.saturatingAdd 64 (min k p.length) 1 = min k p.length + 1 := by simp only [Rs.saturatingAdd]; omega
    have e4 : Nat.min k p.length = min k p.length := rfl
    have e4' : Nat.min p.length k = min k p.length := Nat.min_comm _ _
    have e5 : min (min k p.length) p.length = min k p.length := by omega
    first
      | refine ⟨k, Or.inl rfl, ?_⟩
        simp [Gen.SrcUkkonen.findAllEnd, Rs.idx, Rs.setIdx, Rs.resize, e1, e1', e1s, e2, e2', e3, e3', e3s, e4, e4', e5, Dof, two, init,
          List.range_eq_range']
        done
      | refine ⟨min k p.length, Or.inr rfl, ?_⟩
        simp [Gen.SrcUkkonen.findAllEnd, Rs.idx, Rs.setIdx, Rs.resize, e1, e1', e1s, e2, e2', e3, e3', e3s, e4, e4', e5, Dof, two, init,
          List.range_eq_range']
        done

/-- the initial state of the model is well-formed (cells `≤ max (k+1) m`) -/
theorem init_wf (m k : Nat) : WF m (max (k + 1) m) (init m k) := by
  refine ⟨by simp [init], by simp [init], by simp [init]; omega, ?_, ?_⟩
  · intro j
    simp only [init]
    by_cases hj : j < m + 1
    · rw [nth_range _ _ hj]; omega
    · rw [nth_ge _ _ (by simp; omega)]; omega
  · intro j
    simp only [init]
    by_cases hj : j < m + 1
    · rw [nth_replicate _ _ _ hj]; omega
    · rw [nth_ge _ _ (by simp; omega)]; omega

/-- the translated functions put together as a caller does: `ukkonen.find_all_end(p, t, k).collect()` on a matcher object
whose buffers hold `D` (left there by `with_capacity` or by any earlier search) -/
def findAllSrc (cost : Nat → Nat → Nat) (D : List (List Nat)) (p t : List Nat) (k : Nat) : Res (List (Nat × Nat)) := do
  let (D, (pattern, text, lastk, m, k)) ← Gen.SrcUkkonen.findAllEnd D p t k
  Rs.drain (fun (st : SrcSt × (List Nat × Nat)) => do
    let (D', text', lastk', o) ← next (cost := cost) (D := st.1.1) (pattern := pattern) (text := st.2) (lastk := st.1.2)
      (m := m) (k := k)
    pure (((D', lastk'), text'), o)) (t.length + 1) ((D, lastk), text)

/-- **Ukkonen end to end, on the translated source text**: `find_all_end` and `next` (until `None`) as written in
`ukkonen.rs` never panic and return the mirror model's list for the threshold `k'` the matcher stores — for every cost
function with `u32` values, every previous content of the two buffers, pattern, text and `k` (sizes fit `usize`). -/
theorem findAllSrc_eq_model (cost : Nat → Nat → Nat) (hcost : ∀ a b, cost a b < 2 ^ 32) (D : List (List Nat))
    (hD : D.length = 2) (p t : List Nat) (k : Nat) (hk : k + 2 ^ 32 < 2 ^ 64) (hm : p.length + 2 ^ 32 < 2 ^ 64)
    (h64 : t.length < 2 ^ 64) :
    ∃ k', (k' = k ∨ k' = min k p.length) ∧
      findAllSrc cost D p t k = Res.ok (RbV.Model.Ukkonen.findAllEnd cost p t k') := by
  obtain ⟨k', hk', hinit⟩ := findAllEnd_init D hD p t k (by omega) (by omega)
  refine ⟨k', hk', ?_⟩
  have hkk : k' ≤ k := by rcases hk' with rfl | rfl <;> omega
  have := drain_eq cost hcost p k' (max (k' + 1) p.length) (by omega) (by omega) (t.length + 1) t 0 (init p.length k')
    (init_wf p.length k') (by omega) (by omega)
  have hfun : (fun (st : SrcSt × (List Nat × Nat)) => do
      let (D', text', lastk', o) ← next (cost := cost) (D := st.1.1) (pattern := p) (text := st.2) (lastk := st.1.2)
        (m := p.length) (k := k')
      pure (((D', lastk'), text'), o)) = GenSrcScanD.nextS (nextR cost p k') := by
    funext st
    simp only [GenSrcScanD.nextS, nextR]
    cases next (cost := cost) (D := st.1.1) (pattern := p) (text := st.2) (lastk := st.1.2) (m := p.length) (k := k') <;> rfl
  simp only [findAllSrc, hinit, Res.ok_bind]
  rw [hfun]
  exact this

end RbV.Thm.GenSrcUkkonen
