import RbV.Gen.SrcSdpkpp
import RbV.Model.Sdpkpp
import RbV.Lemmas.SdpkppUnion
import RbV.Thm.GenSrcLcskpp
/-!
# C19 — the text of `sparse::sdpkpp_union_lcskpp_path`, `PrevPtr::new` and `sparse::sdpkpp` (translated on every
`./check C19`: `RbV/Gen/SrcSdpkpp.lean`)

`unionPath_eq_splice`: the translated union function *calls* the translated `lcskpp` and `sdpkpp`; whatever the two return
(an ascending `lcskpp` path, a non-empty `sdpkpp` path), the result is the splice the mirror model computes:
`lcskpp.path[..pre] ++ sdpkpp.path ++ lcskpp.path[post..]` with `pre` / `post` from the two `binary_search` calls (contract
`Rs.BSearchOk`; nothing is assumed about the index an `Err` carries).  No index of the three copy loops is out of range.
-/
set_option linter.unusedSimpArgs false
set_option linter.unusedVariables false
namespace RbV.Thm.GenSrcSdpkpp
open RbV RbV.Rs RbV.KChain RbV.QGram RbV.Model.Lcskpp RbV.Model.Sdpkpp RbV.Lemmas.Lcskpp RbV.Lemmas.Sdpkpp RbV.Gen.SrcSdpkpp
open RbV.Thm.GenSrcLcskpp (idx_getD foldlM_unit olt_M sort_events fenwickNew_eq_model sortedEvents_length Bnd nFrom_lt)

/-- the tuple a `PrevPtr` is translated to (fields in declaration order = order of the derived `Ord`) -/
def toT (a : PrevPtr) : Nat × Nat × Nat × Nat × Nat × Nat := (a.plane, a.score, a.d, a.id, a.x, a.y)

/-- `PrevPtr::new` as written in the source = the model's, when `x + y`, `d * gap_extend` and the plane fit `u32` -/
theorem prevPtrNew_eq_model (sortEv : List Ev → List Ev) (bsM : List M → M → Except Nat Nat) (bsN : List Nat → Nat → Except Nat Nat)
    (score x y id ge : Nat) (h : score + (x + y) * ge < 2 ^ 32) (hxy : x + y < 2 ^ 32) :
    prevPtrNew sortEv bsM bsN score x y id ge = Res.ok (toT (PrevPtr.new score x y id ge)) := by
  have e1 : Rs.add 32 x y = Res.ok (x + y) := Rs.add_ok hxy
  have e2 : Rs.mul 32 (x + y) ge = Res.ok ((x + y) * ge) := Rs.mul_ok (by omega)
  have e2' : Rs.mul 32 ge (x + y) = Res.ok ((x + y) * ge) := by rw [Rs.mul_ok (by rw [Nat.mul_comm]; omega), Nat.mul_comm]
  have e3 : Rs.add 32 score ((x + y) * ge) = Res.ok (score + (x + y) * ge) := Rs.add_ok h
  have e3' : Rs.add 32 ((x + y) * ge) score = Res.ok (score + (x + y) * ge) := by rw [Rs.add_ok (by omega), Nat.add_comm]
  simp [prevPtrNew, toT, PrevPtr.new, e1, e2, e2', e3, e3']

/-! ### `binary_search` on the path by its contract = the model's `findIdx` -/

theorem olt_Nat (a b : Nat) : Rs.olt a b = true ↔ a < b := by
  simp [Rs.olt, ROrd.le]

theorem findIdx_none {key : Nat} {l : List Nat} {i0 : Nat} (h : findIdx key i0 l = none) : key ∉ l := by
  induction l generalizing i0 with
  | nil => simp
  | cons a r ih =>
    simp only [findIdx] at h
    by_cases ha : a = key
    · rw [if_pos ha] at h; cases h
    · rw [if_neg ha] at h
      intro hm
      rcases List.mem_cons.mp hm with rfl | hm
      · exact ha rfl
      · exact ih h hm

theorem bsN_find (bsN : List Nat → Nat → Except Nat Nat) (hbs : BSearchOk bsN) {l : List Nat} (hasc : l.Pairwise (· < ·)) (key : Nat) :
    match findIdx key 0 l with
    | some c => bsN l key = .ok c ∧ c < l.length
    | none => ∃ i, bsN l key = .error i := by
  have hpw : l.Pairwise (fun a b => Rs.olt a b = true) := hasc.imp (fun {a b} h => (olt_Nat a b).mpr h)
  obtain ⟨h1, h2⟩ := hbs l key hpw
  cases hf : findIdx key 0 l with
  | none =>
    have hnot := findIdx_none hf
    cases hb : bsN l key with
    | error i => exact ⟨i, rfl⟩
    | ok i => exact absurd (List.mem_of_getElem? (h1 i hb)) hnot
  | some c =>
    obtain ⟨j, hcj, hsplit⟩ := findIdx_split hf
    have hc : c = j := by omega
    subst hc
    have hjl : c < l.length := by
      have := congrArg List.length hsplit
      simp at this; omega
    have hlc : l[c]? = some key := by
      rw [hsplit, List.getElem?_append_right (by simp; omega)]
      simp [List.length_take, Nat.min_eq_left (Nat.le_of_lt hjl)]
    cases hb : bsN l key with
    | error i => exact absurd (List.mem_of_getElem? hlc) (h2 i hb)
    | ok i =>
      have hi := h1 i hb
      obtain ⟨hil, hie⟩ := List.getElem?_eq_some_iff.mp hi
      obtain ⟨_, hce⟩ := List.getElem?_eq_some_iff.mp hlc
      have : i = c := by
        rcases Nat.lt_trichotomy i c with h | h | h
        · have := List.pairwise_iff_getElem.mp hasc i c hil hjl h; omega
        · exact h
        · have := List.pairwise_iff_getElem.mp hasc c i hjl hil h; omega
      subst this
      exact ⟨rfl, hjl⟩

/-! ### the three copy loops -/

theorem copy_fold (f : List Nat → Nat → Res (List Nat)) (l : List Nat)
    (hf : ∀ acc i, f acc i = (do let t ← Rs.idx l i; pure (acc ++ [t]))) :
    ∀ (n a : Nat) (acc : List Nat), a + n ≤ l.length →
      List.foldlM f acc (List.range' a n) = Res.ok (acc ++ (l.drop a).take n) := by
  intro n
  induction n with
  | zero => intro a acc _; simp
  | succ n ih =>
    intro a acc h
    have ha : a < l.length := by omega
    rw [List.range'_succ, List.foldlM_cons, hf, Rs.idx_ok ha]
    simp only [Res.ok_bind, Res.pure_eq_ok]
    rw [ih (a + 1) _ (by omega)]
    congr 1
    rw [List.append_assoc]
    congr 1
    rw [List.drop_eq_getElem_cons ha, List.take_succ_cons]
    rfl

theorem take_drop_all (l : List Nat) (a : Nat) : List.take (l.length - a) (l.drop a) = l.drop a :=
  List.take_of_length_le (by simp)

/-- **`sdpkpp_union_lcskpp_path` as written in the source**: given what the translated `lcskpp` and `sdpkpp` return, the
result is the model's splice; no panic -/
theorem unionPath_eq_splice (sortEv : List Ev → List Ev) (bsM : List M → M → Except Nat Nat) (bsN : List Nat → Nat → Except Nat Nat)
    (hbsN : BSearchOk bsN) (ms : List M) (k msc : Nat) (go ge : Int) (hne : ms ≠ [])
    {lp sp : List Nat} {ls ss : Nat} {ld sd : List (Nat × Int)} {first last : Nat}
    (hl : Gen.SrcLcskpp.lcskpp sortEv bsM ms k = Res.ok (lp, ls, ld))
    (hsd : Gen.SrcSdpkpp.sdpkpp sortEv bsM bsN ms k msc go ge = Res.ok (sp, ss, sd))
    (hasc : lp.Pairwise (· < ·)) (hf : sp.head? = some first) (hla : sp.getLast? = some last) (hlen : lp.length < 2 ^ 63) :
    Gen.SrcSdpkpp.unionPath sortEv bsM bsN ms k msc go ge
      = Res.ok (lp.take ((findIdx first 0 lp).getD 0) ++ sp ++
          lp.drop (match findIdx last 0 lp with | some ind => ind + 1 | none => lp.length)) := by
  have hemp : ms.isEmpty = false := by cases ms with | nil => exact absurd rfl hne | cons _ _ => rfl
  have e0 : Rs.idx sp 0 = Res.ok first := by
    obtain ⟨t, ht⟩ := List.head?_eq_some_iff.mp hf
    rw [ht]; rfl
  have hpre := bsN_find bsN hbsN hasc first
  have hpost := bsN_find bsN hbsN hasc last
  have c1 := copy_fold (unionPath_for1 sortEv bsM bsN (lp, ls, ld)) lp (fun acc i => by simp [unionPath_for1])
  have c2 := copy_fold (unionPath_for2 sortEv bsM bsN (sp, ss, sd)) sp (fun acc i => by simp [unionPath_for2])
  have c3 := copy_fold (unionPath_for3 sortEv bsM bsN (lp, ls, ld)) lp (fun acc i => by simp [unionPath_for3])
  unfold Gen.SrcSdpkpp.unionPath
  simp only [hemp, Bool.false_eq_true, if_false, hl, hsd, e0, hla, Rs.expect_some, Res.ok_bind, Res.pure_eq_ok, Nat.sub_zero]
  cases hfi : findIdx first 0 lp with
  | none =>
    rw [hfi] at hpre
    obtain ⟨i, hi⟩ := hpre
    cases hli : findIdx last 0 lp with
    | none =>
      rw [hli] at hpost
      obtain ⟨j, hj⟩ := hpost
      simp [hi, hj, c1 0 0 [] (by omega), c2 sp.length 0 _ (by omega), c3 0 lp.length _ (by omega)]
    | some c =>
      rw [hli] at hpost
      obtain ⟨hj, hc⟩ := hpost
      have ea : Rs.add 64 c 1 = Res.ok (c + 1) := Rs.add_ok (by omega)
      have ea' : Rs.add 64 1 c = Res.ok (c + 1) := by rw [Rs.add_ok (by omega), Nat.add_comm]
      simp [hi, hj, ea, ea', c1 0 0 [] (by omega), c2 sp.length 0 _ (by omega), c3 (lp.length - (c + 1)) (c + 1) _ (by omega), take_drop_all]
  | some b =>
    rw [hfi] at hpre
    obtain ⟨hi, hb⟩ := hpre
    cases hli : findIdx last 0 lp with
    | none =>
      rw [hli] at hpost
      obtain ⟨j, hj⟩ := hpost
      simp [hi, hj, c1 b 0 [] (by omega), c2 sp.length 0 _ (by omega), c3 0 lp.length _ (by omega)]
    | some c =>
      rw [hli] at hpost
      obtain ⟨hj, hc⟩ := hpost
      have ea : Rs.add 64 c 1 = Res.ok (c + 1) := Rs.add_ok (by omega)
      have ea' : Rs.add 64 1 c = Res.ok (c + 1) := by rw [Rs.add_ok (by omega), Nat.add_comm]
      simp [hi, hj, ea, ea', c1 b 0 [] (by omega), c2 sp.length 0 _ (by omega), c3 (lp.length - (c + 1)) (c + 1) _ (by omega), take_drop_all]

/-! ### the derived order of the `PrevPtr` tuple, the Fenwick tree over the tuple representation -/

theorem ole_cons {β : Type} [ROrd β] (a1 b1 : Nat) (a2 b2 : β) :
    (ROrd.le (a1, a2) (b1, b2) : Bool) = (decide (a1 < b1) || (a1 == b1 && ROrd.le a2 b2)) := by
  show (!(decide (b1 ≤ a1)) || (decide (a1 ≤ b1) && ROrd.le a2 b2)) = _
  cases ROrd.le a2 b2
  · simp only [Bool.and_false, Bool.or_false]
    by_cases h : a1 < b1
    · have h' : ¬ b1 ≤ a1 := by omega
      simp [h, h']
    · have h' : b1 ≤ a1 := by omega
      simp [h, h']
  · simp only [Bool.and_true]
    rcases Nat.lt_trichotomy a1 b1 with h | h | h
    · have h1 : ¬ b1 ≤ a1 := by omega
      have h2 : a1 ≤ b1 := by omega
      simp [h, h1, h2]
    · subst h; simp
    · have h1 : b1 ≤ a1 := by omega
      have h2 : ¬ a1 ≤ b1 := by omega
      have h3 : ¬ a1 < b1 := by omega
      have h4 : ¬ a1 = b1 := by omega
      simp [h1, h2, h3, h4]

theorem ole_PP (a b : PrevPtr) : (ROrd.le (toT a) (toT b) : Bool) = ppLe a b := by
  simp only [toT, ppLe, ole_cons]
  rfl

theorem toT_maxPP (a b : PrevPtr) : toT (maxPP a b) = Rs.omax (toT a) (toT b) := by
  simp only [maxPP, Rs.omax, ole_PP]; split <;> rfl

open RbV.Model.Fenwick in
theorem getLoop_map {α β : Type} (f : α → β) (op : α → α → α) (op' : β → β → β) (d : α) (hop : ∀ a b, f (op a b) = op' (f a) (f b))
    (tree : List α) : ∀ fuel idx sum, getLoop op' (f d) (tree.map f) fuel idx (f sum) = f (getLoop op d tree fuel idx sum) := by
  intro fuel
  induction fuel with
  | zero => intro idx sum; rfl
  | succ n ih =>
    intro idx sum
    simp only [getLoop]
    split
    · have : (tree.map f).getD idx (f d) = f (tree.getD idx d) := by
        simp [List.getD_eq_getElem?_getD, List.getElem?_map]
      rw [this, ← hop, ih]
    · rfl

open RbV.Model.Fenwick in
theorem setLoop_map {α β : Type} (f : α → β) (op : α → α → α) (op' : β → β → β) (d : α) (hop : ∀ a b, f (op a b) = op' (f a) (f b))
    (v : α) : ∀ fuel idx (tree : List α), setLoop op' (f d) (f v) fuel idx (tree.map f) = (setLoop op d v fuel idx tree).map f := by
  intro fuel
  induction fuel with
  | zero => intro idx tree; rfl
  | succ n ih =>
    intro idx tree
    simp only [setLoop, List.length_map]
    split
    · have : (tree.map f).getD idx (f d) = f (tree.getD idx d) := by
        simp [List.getD_eq_getElem?_getD, List.getElem?_map]
      rw [this, ← hop, ← List.map_set, ih]
    · rfl

/-- the translated `get` on the tuple representation of a tree of `PrevPtr` records = the model's `get` -/
theorem src_get_PP (tree : List PrevPtr) (j : Nat) (h : j + 1 < tree.length) (hl : tree.length ≤ 2 ^ 63) :
    RbV.Gen.SrcFenwick.get (Rs.omax (α := Nat × Nat × Nat × Nat × Nat × Nat)) (0, 0, 0, 0, 0, 0) (tree.map toT) j
      = Res.ok (toT (Model.Fenwick.get maxPP dfltPP tree j)) := by
  rw [GenSrcFenwick.get_eq_model _ _ _ _ (by simpa using h) (by simpa using hl)]
  unfold Model.Fenwick.get
  exact congrArg Res.ok (getLoop_map toT maxPP Rs.omax dfltPP toT_maxPP tree _ _ dfltPP)

/-- the translated `set` on the tuple representation = the model's `set` -/
theorem src_set_PP (tree : List PrevPtr) (i : Nat) (v : PrevPtr) (h : i + 1 < 2 ^ 64) (hl : tree.length ≤ 2 ^ 63) :
    RbV.Gen.SrcFenwick.set (Rs.omax (α := Nat × Nat × Nat × Nat × Nat × Nat)) (0, 0, 0, 0, 0, 0) (tree.map toT) i (toT v)
      = Res.ok ((Model.Fenwick.set maxPP dfltPP tree i v).map toT) := by
  rw [GenSrcFenwick.set_eq_model _ _ _ _ _ h (by simpa using hl)]
  unfold Model.Fenwick.set
  rw [List.length_map]
  exact congrArg Res.ok (setLoop_map toT maxPP Rs.omax dfltPP toT_maxPP v _ _ tree)

/-! ### `sdpkpp` around its sweep (assertions, event list, sort, tree, traceback) -/

theorem sdp_for1_ok (sortEv : List Ev → List Ev) (bsM : List M → M → Except Nat Nat) (bsN : List Nat → Nat → Except Nat Nat) (ms : List M)
    (hs : ms.Pairwise lexLt) :
    List.foldlM (sdpkpp_for1 sortEv bsM bsN ms) () (List.range' 1 (ms.length - 1)) = Res.ok () := by
  apply foldlM_unit
  intro i hi
  rw [List.mem_range'_1] at hi
  have e1 : Rs.sub i 1 = Res.ok (i - 1) := Rs.sub_ok (by omega)
  have e2 : Rs.idx ms (i - 1) = Res.ok (mAt ms (i - 1)) := idx_getD ms _ _ (by omega)
  have e3 : Rs.idx ms i = Res.ok (mAt ms i) := idx_getD ms _ _ (by omega)
  have e4 : mLt (mAt ms (i - 1)) (mAt ms i) = true := (mLt_iff _ _).mpr (mAt_lexLt hs (by omega) (by omega))
  simp [sdpkpp_for1, e1, e2, e3, olt_M, e4, Rs.assert]

theorem sdp_for2_fold (sortEv : List Ev → List Ev) (bsM : List M → M → Except Nat Nat) (bsN : List Nat → Nat → Except Nat Nat) (ms : List M) (k : Nat) :
    ∀ (l : List M) (i0 : Nat) (ev : List Ev) (n : Nat), (∀ m ∈ l, m.1 + k < 2 ^ 32 ∧ m.2 + k < 2 ^ 32) →
      i0 + l.length + ms.length ≤ 2 ^ 32 →
      List.foldlM (sdpkpp_for2 sortEv bsM bsN ms k) (ev, n) (l.zipIdx i0)
        = Res.ok (ev ++ eventsFrom ms.length k i0 l, nFrom k n l) := by
  intro l
  induction l with
  | nil => intro i0 ev n _ _; simp [eventsFrom, nFrom]
  | cons m r ih =>
    intro i0 ev n hb hl
    obtain ⟨hx, hy⟩ := hb m (by simp)
    simp only [List.length_cons] at hl
    have e1 : Rs.add 64 i0 ms.length = Res.ok (i0 + ms.length) := Rs.add_ok (by omega)
    have e2 : Rs.cast 32 (i0 + ms.length) = i0 + ms.length := Nat.mod_eq_of_lt (by omega)
    have e3 : Rs.add 32 m.1 k = Res.ok (m.1 + k) := Rs.add_ok hx
    have e4 : Rs.add 32 m.2 k = Res.ok (m.2 + k) := Rs.add_ok hy
    have e5 : Rs.cast 32 i0 = i0 := Nat.mod_eq_of_lt (by omega)
    rw [List.zipIdx_cons, List.foldlM_cons]
    have hstep : sdpkpp_for2 sortEv bsM bsN ms k (ev, n) (m, i0)
        = Res.ok (ev ++ [(m.1, m.2, i0 + ms.length), (m.1 + k, m.2 + k, i0)], max (max n (m.1 + k)) (m.2 + k)) := by
      have e1' : Rs.add 64 ms.length i0 = Res.ok (i0 + ms.length) := by rw [Rs.add_ok (by omega), Nat.add_comm]
      have e3' : Rs.add 32 k m.1 = Res.ok (m.1 + k) := by rw [Rs.add_ok (by omega), Nat.add_comm]
      have e4' : Rs.add 32 k m.2 = Res.ok (m.2 + k) := by rw [Rs.add_ok (by omega), Nat.add_comm]
      simp [sdpkpp_for2, e1, e2, e3, e4, e5, e1', e3', e4'] <;> omega
    rw [hstep, Res.ok_bind, ih (i0 + 1) _ _ (fun m' hm' => hb m' (by simp [hm'])) (by omega)]
    simp [eventsFrom, nFrom]

theorem sdp_while_eq (sortEv : List Ev → List Ev) (bsM : List M → M → Except Nat Nat) (bsN : List Nat → Nat → Except Nat Nat)
    (dp : List (Nat × Int)) (hdp : dp.length < 2 ^ 63) :
    ∀ (fuel : Nat) (prev : Int) (tb l : List Nat), traceLoop dp fuel prev = some l → (∀ i ∈ l, i < dp.length) →
      ∃ pm, sdpkpp_while1 sortEv bsM bsN dp fuel (tb, prev) = Res.ok (tb ++ l, pm) := by
  intro fuel
  induction fuel with
  | zero => intro prev tb l h; simp [traceLoop] at h
  | succ f ih =>
    intro prev tb l h hall
    rw [traceLoop] at h
    by_cases hge : prev ≥ 0
    · rw [if_pos hge] at h
      cases hrec : traceLoop dp f (dp.getD prev.toNat (0, 0)).2 with
      | none => rw [hrec] at h; cases h
      | some l' =>
        rw [hrec] at h
        simp only [Option.map_some, Option.some.injEq] at h
        subst h
        have hi : prev.toNat < dp.length := hall _ (by simp)
        have ecu : Rs.castUnsigned 64 prev = prev.toNat := by
          have e : prev = ((prev.toNat : Nat) : Int) := by omega
          rw [e, Rs.castUnsigned_natCast (by omega)]; omega
        have eidx : Rs.idx dp prev.toNat = Res.ok (dp.getD prev.toNat (0, 0)) := idx_getD _ _ _ hi
        obtain ⟨pm, hpm⟩ := ih (dp.getD prev.toNat (0, 0)).2 (tb ++ [prev.toNat]) l' hrec (fun i hi' => hall i (by simp [hi']))
        refine ⟨pm, ?_⟩
        rw [List.getD_eq_getElem?_getD] at hpm
        rw [sdpkpp_while1]
        simp [hge, ecu, eidx, hpm]
    · rw [if_neg hge] at h
      simp only [Option.some.injEq] at h
      subst h
      refine ⟨prev, ?_⟩
      rw [sdpkpp_while1]
      simp [hge]

/-- the state `sdpkpp` enters its sweep with, as the translated text builds it -/
def initT (ms : List M) (k : Nat) : List (Nat × Nat × Nat × Nat × Nat × Nat) × List (Nat × Int) × (Nat × Int) :=
  ((Model.Fenwick.new dfltPP (nFrom k 0 ms)).map toT, List.replicate (2 * ms.length) (0, 0), (k, 0))

/-- the state the model's sweep ends in, in the representation of the translated text -/
def finalT (ms : List M) (k msc gO gE : Nat) : List (Nat × Nat × Nat × Nat × Nat × Nat) × List (Nat × Int) × (Nat × Int) :=
  ((Model.Sdpkpp.sweep ms k msc gO gE).tree.map toT, (Model.Sdpkpp.sweep ms k msc gO gE).dp, (Model.Sdpkpp.sweep ms k msc gO gE).best)

/-- **`sdpkpp` as written in the source = the mirror model, given that its sweep loop is** (`hsw`: the translated loop
`sdpkpp_for3` over the sorted events computes the model's sweep — the part that is *not* proved yet): the assertion on the
gap parameters, `(-gap_open) as u32`, the sortedness assertion, the event list, the sort (by contract), `MaxBitTree::new`,
`dp.resize`, the traceback loop and the result struct are as in the model; no panic outside the sweep. -/
theorem sdpkpp_eq_model_of_sweep (sortEv : List Ev → List Ev) (bsM : List M → M → Except Nat Nat) (bsN : List Nat → Nat → Except Nat Nat)
    (hsort : SortOk sortEv) (ms : List M) (k msc gO gE : Nat) (hk : 0 < k) (hs : ms.Pairwise lexLt) (hB : Bnd ms k)
    (hgo : gO < 2 ^ 31) (hge : gE < 2 ^ 31)
    (hsw : List.foldlM (sdpkpp_for3 sortEv bsM bsN ms k msc gO gE) (initT ms k) (sortedEvents ms k) = Res.ok (finalT ms k msc gO gE)) :
    ∃ r, Model.Sdpkpp.sdpkpp ms k msc gO gE = .ok r ∧
      Gen.SrcSdpkpp.sdpkpp sortEv bsM bsN ms k msc (-(gO : Int)) (-(gE : Int)) = Res.ok (r.path, r.score, r.dp) := by
  cases hms : ms with
  | nil => exact ⟨{ path := [], score := 0, dp := [] }, by simp [Model.Sdpkpp.sdpkpp], by simp [Gen.SrcSdpkpp.sdpkpp]⟩
  | cons m0 rest0 =>
    rw [← hms]
    have hne : 0 < ms.length := by rw [hms]; simp
    have hemp : ms.isEmpty = false := by rw [hms]; rfl
    have hsorted : sortedStrict ms = true := (sortedStrict_iff ms).mpr hs
    have hlen := hB.len
    obtain ⟨p, hp, hb2⟩ := (sweepS_inv (msc := msc) (go := gO) (ge := gE) hk hne).best
    obtain ⟨tb, ht, hall, -, -⟩ := traceS_spec (msc := msc) (go := gO) (ge := gE) hk hs hne p hp (ms.length + 1) (by omega)
    refine ⟨{ path := (p :: tb).reverse, score := (Model.Sdpkpp.sweep ms k msc gO gE).best.1,
              dp := (Model.Sdpkpp.sweep ms k msc gO gE).dp }, ?_, ?_⟩
    · unfold Model.Sdpkpp.sdpkpp
      simp only [hemp, hsorted, Bool.false_eq_true, if_false, Bool.not_true, hb2, ht]
    · have hk32 : k < 2 ^ 32 := by have := (hB.xy m0 (by rw [hms]; simp)).1; omega
      have ek : Rs.cast 32 k = k := Nat.mod_eq_of_lt hk32
      have eas : (decide (-(gO : Int) ≤ 0) && decide (-(gE : Int) ≤ 0)) = true := by simp
      have en1 : Rs.ineg 32 (-(gO : Int)) = Res.ok (gO : Int) := by
        rw [Rs.ineg_ok (by unfold Rs.InS; simp; omega)]; simp
      have en2 : Rs.ineg 32 (-(gE : Int)) = Res.ok (gE : Int) := by
        rw [Rs.ineg_ok (by unfold Rs.InS; simp; omega)]; simp
      have ec1 : Rs.castUnsigned 32 (gO : Int) = gO := Rs.castUnsigned_natCast (by omega)
      have ec2 : Rs.castUnsigned 32 (gE : Int) = gE := Rs.castUnsigned_natCast (by omega)
      have e1 := sdp_for1_ok sortEv bsM bsN ms hs
      have e2 := sdp_for2_fold sortEv bsM bsN ms k ms 0 [] 0 hB.xy (by omega)
      rw [List.nil_append] at e2
      have e3 := sort_events sortEv hsort ms k
      have e4 : RbV.Gen.SrcFenwickNew.new ((0, 0, 0, 0, 0, 0) : Nat × Nat × Nat × Nat × Nat × Nat) (nFrom k 0 ms)
          = Res.ok ((Model.Fenwick.new dfltPP (nFrom k 0 ms)).map toT) := by
        rw [fenwickNew_eq_model _ _ (by have := nFrom_lt hB; omega)]
        simp [Model.Fenwick.new, toT, dfltPP]
      have e5 : Rs.resize ([] : List (Nat × Int)) (sortedEvents ms k).length (0, (0 : Int)) = List.replicate (2 * ms.length) (0, 0) := by
        simp [Rs.resize, sortedEvents_length]
      have hdpl : (Model.Sdpkpp.sweep ms k msc gO gE).dp.length = 2 * ms.length :=
        (sweepS_inv (msc := msc) (go := gO) (ge := gE) hk hne).len_dp
      obtain ⟨pm, e7⟩ := sdp_while_eq sortEv bsM bsN (Model.Sdpkpp.sweep ms k msc gO gE).dp (by omega) (ms.length + 1) (p : Int) []
        (p :: tb) ht (fun i hi => by have := hall i hi; omega)
      have hbest : (Model.Sdpkpp.sweep ms k msc gO gE).best = ((Model.Sdpkpp.sweep ms k msc gO gE).best.1, (p : Int)) := by rw [← hb2]
      unfold initT at hsw
      unfold finalT at hsw
      unfold Gen.SrcSdpkpp.sdpkpp
      simp only [hemp, Bool.false_eq_true, if_false, ek, eas, Rs.assert, if_true, en1, en2, ec1, ec2, e1, e2, e3, e4, e5, hsw,
        Res.ok_bind, Res.pure_eq_ok, bind_pure_comp]
      rw [hbest]
      simp only [e7, Res.ok_bind, List.nil_append, Functor.map, Res.bind]

end RbV.Thm.GenSrcSdpkpp
