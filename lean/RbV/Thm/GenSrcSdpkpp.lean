import RbV.Gen.SrcSdpkpp
import RbV.Model.Sdpkpp
import RbV.Lemmas.SdpkppUnion
import RbV.Thm.GenSrcLcskpp
/-!
# C19 — the text of `sparse::sdpkpp_union_lcskpp_path`, `PrevPtr::new` and `sparse::sdpkpp` (translated on every
`./check C19`: `RbV/Gen/SrcSdpkpp.lean`)

`unionPath_eq_splice`: the translated union function *calls* the translated `lcskpp` and `sdpkpp`; whatever the two return
(an ascending `lcskpp` path, a non-empty `sdpkpp` path), the result is the splice the mirror model computes:
`lcskpp.path[..pre] ++ sdpkpp.path ++ lcskpp.path[post..]` with `pre` / `post` from the two `binary_search` calls (contract
`Rs.BSearchOk`; nothing is assumed about the index an `Err` carries).  No index of the three copy loops is out of range.
-/
set_option linter.unusedSimpArgs false
set_option linter.unusedVariables false
namespace RbV.Thm.GenSrcSdpkpp
open RbV RbV.Rs RbV.KChain RbV.QGram RbV.Model.Lcskpp RbV.Model.Sdpkpp RbV.Lemmas.Lcskpp RbV.Lemmas.Sdpkpp RbV.Gen.SrcSdpkpp
open RbV.Thm.GenSrcLcskpp (idx_getD)

/-- the tuple a `PrevPtr` is translated to (fields in declaration order = order of the derived `Ord`) -/
def toT (a : PrevPtr) : Nat × Nat × Nat × Nat × Nat × Nat := (a.plane, a.score, a.d, a.id, a.x, a.y)

/-- `PrevPtr::new` as written in the source = the model's, when `x + y`, `d * gap_extend` and the plane fit `u32` -/
theorem prevPtrNew_eq_model (sortEv : List Ev → List Ev) (bsM : List M → M → Except Nat Nat) (bsN : List Nat → Nat → Except Nat Nat)
    (score x y id ge : Nat) (h : score + (x + y) * ge < 2 ^ 32) (hxy : x + y < 2 ^ 32) :
    prevPtrNew sortEv bsM bsN score x y id ge = Res.ok (toT (PrevPtr.new score x y id ge)) := by
  have e1 : Rs.add 32 x y = Res.ok (x + y) := Rs.add_ok hxy
  have e2 : Rs.mul 32 (x + y) ge = Res.ok ((x + y) * ge) := Rs.mul_ok (by omega)
  have e2' : Rs.mul 32 ge (x + y) = Res.ok ((x + y) * ge) := by rw [Rs.mul_ok (by rw [Nat.mul_comm]; omega), Nat.mul_comm]
  have e3 : Rs.add 32 score ((x + y) * ge) = Res.ok (score + (x + y) * ge) := Rs.add_ok h
  have e3' : Rs.add 32 ((x + y) * ge) score = Res.ok (score + (x + y) * ge) := by rw [Rs.add_ok (by omega), Nat.add_comm]
  simp [prevPtrNew, toT, PrevPtr.new, e1, e2, e2', e3, e3']

/-! ### `binary_search` on the path by its contract = the model's `findIdx` -/

theorem olt_Nat (a b : Nat) : Rs.olt a b = true ↔ a < b := by
  simp [Rs.olt, ROrd.le]

theorem findIdx_none {key : Nat} {l : List Nat} {i0 : Nat} (h : findIdx key i0 l = none) : key ∉ l := by
  induction l generalizing i0 with
  | nil => simp
  | cons a r ih =>
    simp only [findIdx] at h
    by_cases ha : a = key
    · rw [if_pos ha] at h; cases h
    · rw [if_neg ha] at h
      intro hm
      rcases List.mem_cons.mp hm with rfl | hm
      · exact ha rfl
      · exact ih h hm

theorem bsN_find (bsN : List Nat → Nat → Except Nat Nat) (hbs : BSearchOk bsN) {l : List Nat} (hasc : l.Pairwise (· < ·)) (key : Nat) :
    match findIdx key 0 l with
    | some c => bsN l key = .ok c ∧ c < l.length
    | none => ∃ i, bsN l key = .error i := by
  have hpw : l.Pairwise (fun a b => Rs.olt a b = true) := hasc.imp (fun {a b} h => (olt_Nat a b).mpr h)
  obtain ⟨h1, h2⟩ := hbs l key hpw
  cases hf : findIdx key 0 l with
  | none =>
    have hnot := findIdx_none hf
    cases hb : bsN l key with
    | error i => exact ⟨i, rfl⟩
    | ok i => exact absurd (List.mem_of_getElem? (h1 i hb)) hnot
  | some c =>
    obtain ⟨j, hcj, hsplit⟩ := findIdx_split hf
    have hc : c = j := by omega
    subst hc
    have hjl : c < l.length := by
      have := congrArg List.length hsplit
      simp at this; omega
    have hlc : l[c]? = some key := by
      rw [hsplit, List.getElem?_append_right (by simp; omega)]
      simp [List.length_take, Nat.min_eq_left (Nat.le_of_lt hjl)]
    cases hb : bsN l key with
    | error i => exact absurd (List.mem_of_getElem? hlc) (h2 i hb)
    | ok i =>
      have hi := h1 i hb
      obtain ⟨hil, hie⟩ := List.getElem?_eq_some_iff.mp hi
      obtain ⟨_, hce⟩ := List.getElem?_eq_some_iff.mp hlc
      have : i = c := by
        rcases Nat.lt_trichotomy i c with h | h | h
        · have := List.pairwise_iff_getElem.mp hasc i c hil hjl h; omega
        · exact h
        · have := List.pairwise_iff_getElem.mp hasc c i hjl hil h; omega
      subst this
      exact ⟨rfl, hjl⟩

/-! ### the three copy loops -/

theorem copy_fold (f : List Nat → Nat → Res (List Nat)) (l : List Nat)
    (hf : ∀ acc i, f acc i = (do let t ← Rs.idx l i; pure (acc ++ [t]))) :
    ∀ (n a : Nat) (acc : List Nat), a + n ≤ l.length →
      List.foldlM f acc (List.range' a n) = Res.ok (acc ++ (l.drop a).take n) := by
  intro n
  induction n with
  | zero => intro a acc _; simp
  | succ n ih =>
    intro a acc h
    have ha : a < l.length := by omega
    rw [List.range'_succ, List.foldlM_cons, hf, Rs.idx_ok ha]
    simp only [Res.ok_bind, Res.pure_eq_ok]
    rw [ih (a + 1) _ (by omega)]
    congr 1
    rw [List.append_assoc]
    congr 1
    rw [List.drop_eq_getElem_cons ha, List.take_succ_cons]
    rfl

theorem take_drop_all (l : List Nat) (a : Nat) : List.take (l.length - a) (l.drop a) = l.drop a :=
  List.take_of_length_le (by simp)

/-- **`sdpkpp_union_lcskpp_path` as written in the source**: given what the translated `lcskpp` and `sdpkpp` return, the
result is the model's splice; no panic -/
theorem unionPath_eq_splice (sortEv : List Ev → List Ev) (bsM : List M → M → Except Nat Nat) (bsN : List Nat → Nat → Except Nat Nat)
    (hbsN : BSearchOk bsN) (ms : List M) (k msc : Nat) (go ge : Int) (hne : ms ≠ [])
    {lp sp : List Nat} {ls ss : Nat} {ld sd : List (Nat × Int)} {first last : Nat}
    (hl : Gen.SrcLcskpp.lcskpp sortEv bsM ms k = Res.ok (lp, ls, ld))
    (hsd : Gen.SrcSdpkpp.sdpkpp sortEv bsM bsN ms k msc go ge = Res.ok (sp, ss, sd))
    (hasc : lp.Pairwise (· < ·)) (hf : sp.head? = some first) (hla : sp.getLast? = some last) (hlen : lp.length < 2 ^ 63) :
    Gen.SrcSdpkpp.unionPath sortEv bsM bsN ms k msc go ge
      = Res.ok (lp.take ((findIdx first 0 lp).getD 0) ++ sp ++
          lp.drop (match findIdx last 0 lp with | some ind => ind + 1 | none => lp.length)) := by
  have hemp : ms.isEmpty = false := by cases ms with | nil => exact absurd rfl hne | cons _ _ => rfl
  have e0 : Rs.idx sp 0 = Res.ok first := by
    obtain ⟨t, ht⟩ := List.head?_eq_some_iff.mp hf
    rw [ht]; rfl
  have hpre := bsN_find bsN hbsN hasc first
  have hpost := bsN_find bsN hbsN hasc last
  have c1 := copy_fold (unionPath_for1 sortEv bsM bsN (lp, ls, ld)) lp (fun acc i => by simp [unionPath_for1])
  have c2 := copy_fold (unionPath_for2 sortEv bsM bsN (sp, ss, sd)) sp (fun acc i => by simp [unionPath_for2])
  have c3 := copy_fold (unionPath_for3 sortEv bsM bsN (lp, ls, ld)) lp (fun acc i => by simp [unionPath_for3])
  unfold Gen.SrcSdpkpp.unionPath
  simp only [hemp, Bool.false_eq_true, if_false, hl, hsd, e0, hla, Rs.expect_some, Res.ok_bind, Res.pure_eq_ok, Nat.sub_zero]
  cases hfi : findIdx first 0 lp with
  | none =>
    rw [hfi] at hpre
    obtain ⟨i, hi⟩ := hpre
    cases hli : findIdx last 0 lp with
    | none =>
      rw [hli] at hpost
      obtain ⟨j, hj⟩ := hpost
      simp [hi, hj, c1 0 0 [] (by omega), c2 sp.length 0 _ (by omega), c3 0 lp.length _ (by omega)]
    | some c =>
      rw [hli] at hpost
      obtain ⟨hj, hc⟩ := hpost
      have ea : Rs.add 64 c 1 = Res.ok (c + 1) := Rs.add_ok (by omega)
      have ea' : Rs.add 64 1 c = Res.ok (c + 1) := by rw [Rs.add_ok (by omega), Nat.add_comm]
      simp [hi, hj, ea, ea', c1 0 0 [] (by omega), c2 sp.length 0 _ (by omega), c3 (lp.length - (c + 1)) (c + 1) _ (by omega), take_drop_all]
  | some b =>
    rw [hfi] at hpre
    obtain ⟨hi, hb⟩ := hpre
    cases hli : findIdx last 0 lp with
    | none =>
      rw [hli] at hpost
      obtain ⟨j, hj⟩ := hpost
      simp [hi, hj, c1 b 0 [] (by omega), c2 sp.length 0 _ (by omega), c3 0 lp.length _ (by omega)]
    | some c =>
      rw [hli] at hpost
      obtain ⟨hj, hc⟩ := hpost
      have ea : Rs.add 64 c 1 = Res.ok (c + 1) := Rs.add_ok (by omega)
      have ea' : Rs.add 64 1 c = Res.ok (c + 1) := by rw [Rs.add_ok (by omega), Nat.add_comm]
      simp [hi, hj, ea, ea', c1 b 0 [] (by omega), c2 sp.length 0 _ (by omega), c3 (lp.length - (c + 1)) (c + 1) _ (by omega), take_drop_all]

end RbV.Thm.GenSrcSdpkpp
