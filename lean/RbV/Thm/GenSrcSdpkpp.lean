import RbV.Gen.SrcSdpkpp
import RbV.Model.Sdpkpp
import RbV.Lemmas.SdpkppUnion
import RbV.Thm.GenSrcLcskpp
/-!
# C19 — the text of `sparse::sdpkpp_union_lcskpp_path`, `PrevPtr::new` and `sparse::sdpkpp` (translated on every
`./check C19`: `RbV/Gen/SrcSdpkpp.lean`)

`unionPath_eq_splice`: the translated union function *calls* the translated `lcskpp` and `sdpkpp`; whatever the two return
(an ascending `lcskpp` path, a non-empty `sdpkpp` path), the result is the splice the mirror model computes:
`lcskpp.path[..pre] ++ sdpkpp.path ++ lcskpp.path[post..]` with `pre` / `post` from the two `binary_search` calls (contract
`Rs.BSearchOk`; nothing is assumed about the index an `Err` carries).  No index of the three copy loops is out of range.
-/
set_option linter.unusedSimpArgs false
set_option linter.unusedVariables false
namespace RbV.Thm.GenSrcSdpkpp
open RbV RbV.Rs RbV.KChain RbV.QGram RbV.Model.Lcskpp RbV.Model.Sdpkpp RbV.Lemmas.Lcskpp RbV.Lemmas.Sdpkpp RbV.Gen.SrcSdpkpp
open RbV.Thm.GenSrcLcskpp (idx_getD foldlM_unit olt_M sort_events fenwickNew_eq_model sortedEvents_length Bnd nFrom_lt omax_NI bs_find getD_set_self)
open RbV.Lemmas.Fenwick (getD_set)

/-- the tuple a `PrevPtr` is translated to (fields in declaration order = order of the derived `Ord`) -/
def toT (a : PrevPtr) : Nat × Nat × Nat × Nat × Nat × Nat := (a.plane, a.score, a.d, a.id, a.x, a.y)

/-- `PrevPtr::new` as written in the source = the model's, when `x + y`, `d * gap_extend` and the plane fit `u32` -/
theorem prevPtrNew_eq_model (sortEv : List Ev → List Ev) (bsM : List M → M → Except Nat Nat) (bsN : List Nat → Nat → Except Nat Nat)
    (score x y id ge : Nat) (h : score + (x + y) * ge < 2 ^ 32) (hxy : x + y < 2 ^ 32) :
    prevPtrNew sortEv bsM bsN score x y id ge = Res.ok (toT (PrevPtr.new score x y id ge)) := by
  have e1 : Rs.add 32 x y = Res.ok (x + y) := Rs.add_ok hxy
  have e2 : Rs.mul 32 (x + y) ge = Res.ok ((x + y) * ge) := Rs.mul_ok (by omega)
  have e2' : Rs.mul 32 ge (x + y) = Res.ok ((x + y) * ge) := by rw [Rs.mul_ok (by rw [Nat.mul_comm]; omega), Nat.mul_comm]
  have e3 : Rs.add 32 score ((x + y) * ge) = Res.ok (score + (x + y) * ge) := Rs.add_ok h
  have e3' : Rs.add 32 ((x + y) * ge) score = Res.ok (score + (x + y) * ge) := by rw [Rs.add_ok (by omega), Nat.add_comm]
  simp [prevPtrNew, toT, PrevPtr.new, e1, e2, e2', e3, e3']

/-! ### `binary_search` on the path by its contract = the model's `findIdx` -/

theorem olt_Nat (a b : Nat) : Rs.olt a b = true ↔ a < b := by
  simp [Rs.olt, ROrd.le]

theorem findIdx_none {key : Nat} {l : List Nat} {i0 : Nat} (h : findIdx key i0 l = none) : key ∉ l := by
  induction l generalizing i0 with
  | nil => simp
  | cons a r ih =>
    simp only [findIdx] at h
    by_cases ha : a = key
    · rw [if_pos ha] at h; cases h
    · rw [if_neg ha] at h
      intro hm
      rcases List.mem_cons.mp hm with rfl | hm
      · exact ha rfl
      · exact ih h hm

theorem bsN_find (bsN : List Nat → Nat → Except Nat Nat) (hbs : BSearchOk bsN) {l : List Nat} (hasc : l.Pairwise (· < ·)) (key : Nat) :
    match findIdx key 0 l with
    | some c => bsN l key = .ok c ∧ c < l.length
    | none => ∃ i, bsN l key = .error i := by
  have hpw : l.Pairwise (fun a b => Rs.olt a b = true) := hasc.imp (fun {a b} h => (olt_Nat a b).mpr h)
  obtain ⟨h1, h2⟩ := hbs l key hpw
  cases hf : findIdx key 0 l with
  | none =>
    have hnot := findIdx_none hf
    cases hb : bsN l key with
    | error i => exact ⟨i, rfl⟩
    | ok i => exact absurd (List.mem_of_getElem? (h1 i hb)) hnot
  | some c =>
    obtain ⟨j, hcj, hsplit⟩ := findIdx_split hf
    have hc : c = j := by omega
    subst hc
    have hjl : c < l.length := by
      have := congrArg List.length hsplit
      simp at this; omega
    have hlc : l[c]? = some key := by
      rw [hsplit, List.getElem?_append_right (by simp; omega)]
      simp [List.length_take, Nat.min_eq_left (Nat.le_of_lt hjl)]
    cases hb : bsN l key with
    | error i => exact absurd (List.mem_of_getElem? hlc) (h2 i hb)
    | ok i =>
      have hi := h1 i hb
      obtain ⟨hil, hie⟩ := List.getElem?_eq_some_iff.mp hi
      obtain ⟨_, hce⟩ := List.getElem?_eq_some_iff.mp hlc
      have : i = c := by
        rcases Nat.lt_trichotomy i c with h | h | h
        · have := List.pairwise_iff_getElem.mp hasc i c hil hjl h; omega
        · exact h
        · have := List.pairwise_iff_getElem.mp hasc c i hjl hil h; omega
      subst this
      exact ⟨rfl, hjl⟩

/-- a `binary_search` on index paths meeting `BSearchOk` (non-vacuity) -/
def stdBsN (l : List Nat) (key : Nat) : Except Nat Nat :=
  match findIdx key 0 l with
  | some i => .ok i
  | none => .error 0

theorem stdBsN_ok : BSearchOk stdBsN := by
  intro l key _
  unfold stdBsN
  constructor
  · intro i h
    cases hf : findIdx key 0 l with
    | none => rw [hf] at h; cases h
    | some c =>
      rw [hf] at h
      obtain ⟨j, hcj, hsplit⟩ := findIdx_split hf
      have hij : i = j := by cases h; omega
      subst hij
      have hjl : i < l.length := by
        have := congrArg List.length hsplit
        simp at this; omega
      rw [hsplit, List.getElem?_append_right (by simp; omega)]
      simp [List.length_take, Nat.min_eq_left (Nat.le_of_lt hjl)]
  · intro i h
    cases hf : findIdx key 0 l with
    | none => exact findIdx_none hf
    | some c => rw [hf] at h; cases h

/-! ### the three copy loops -/

theorem copy_fold (f : List Nat → Nat → Res (List Nat)) (l : List Nat)
    (hf : ∀ acc i, f acc i = (do let t ← Rs.idx l i; pure (acc ++ [t]))) :
    ∀ (n a : Nat) (acc : List Nat), a + n ≤ l.length →
      List.foldlM f acc (List.range' a n) = Res.ok (acc ++ (l.drop a).take n) := by
  intro n
  induction n with
  | zero => intro a acc _; simp
  | succ n ih =>
    intro a acc h
    have ha : a < l.length := by omega
    rw [List.range'_succ, List.foldlM_cons, hf, Rs.idx_ok ha]
    simp only [Res.ok_bind, Res.pure_eq_ok]
    rw [ih (a + 1) _ (by omega)]
    congr 1
    rw [List.append_assoc]
    congr 1
    rw [List.drop_eq_getElem_cons ha, List.take_succ_cons]
    rfl

theorem take_drop_all (l : List Nat) (a : Nat) : List.take (l.length - a) (l.drop a) = l.drop a :=
  List.take_of_length_le (by simp)

/-- **`sdpkpp_union_lcskpp_path` as written in the source**: given what the translated `lcskpp` and `sdpkpp` return, the
result is the model's splice; no panic -/
theorem unionPath_eq_splice (sortEv : List Ev → List Ev) (bsM : List M → M → Except Nat Nat) (bsN : List Nat → Nat → Except Nat Nat)
    (hbsN : BSearchOk bsN) (ms : List M) (k msc : Nat) (go ge : Int) (hne : ms ≠ [])
    {lp sp : List Nat} {ls ss : Nat} {ld sd : List (Nat × Int)} {first last : Nat}
    (hl : Gen.SrcLcskpp.lcskpp sortEv bsM ms k = Res.ok (lp, ls, ld))
    (hsd : Gen.SrcSdpkpp.sdpkpp sortEv bsM bsN ms k msc go ge = Res.ok (sp, ss, sd))
    (hasc : lp.Pairwise (· < ·)) (hf : sp.head? = some first) (hla : sp.getLast? = some last) (hlen : lp.length < 2 ^ 63) :
    Gen.SrcSdpkpp.unionPath sortEv bsM bsN ms k msc go ge
      = Res.ok (lp.take ((findIdx first 0 lp).getD 0) ++ sp ++
          lp.drop (match findIdx last 0 lp with | some ind => ind + 1 | none => lp.length)) := by
  have hemp : ms.isEmpty = false := by cases ms with | nil => exact absurd rfl hne | cons _ _ => rfl
  have e0 : Rs.idx sp 0 = Res.ok first := by
    obtain ⟨t, ht⟩ := List.head?_eq_some_iff.mp hf
    rw [ht]; rfl
  have hpre := bsN_find bsN hbsN hasc first
  have hpost := bsN_find bsN hbsN hasc last
  have c1 := copy_fold (unionPath_for1 sortEv bsM bsN (lp, ls, ld)) lp (fun acc i => by simp [unionPath_for1])
  have c2 := copy_fold (unionPath_for2 sortEv bsM bsN (sp, ss, sd)) sp (fun acc i => by simp [unionPath_for2])
  have c3 := copy_fold (unionPath_for3 sortEv bsM bsN (lp, ls, ld)) lp (fun acc i => by simp [unionPath_for3])
  unfold Gen.SrcSdpkpp.unionPath
  simp only [hemp, Bool.false_eq_true, if_false, hl, hsd, e0, hla, Rs.expect_some, Res.ok_bind, Res.pure_eq_ok, Nat.sub_zero]
  cases hfi : findIdx first 0 lp with
  | none =>
    rw [hfi] at hpre
    obtain ⟨i, hi⟩ := hpre
    cases hli : findIdx last 0 lp with
    | none =>
      rw [hli] at hpost
      obtain ⟨j, hj⟩ := hpost
      simp [hi, hj, c1 0 0 [] (by omega), c2 sp.length 0 _ (by omega), c3 0 lp.length _ (by omega)]
    | some c =>
      rw [hli] at hpost
      obtain ⟨hj, hc⟩ := hpost
      have ea : Rs.add 64 c 1 = Res.ok (c + 1) := Rs.add_ok (by omega)
      have ea' : Rs.add 64 1 c = Res.ok (c + 1) := by rw [Rs.add_ok (by omega), Nat.add_comm]
      simp [hi, hj, ea, ea', c1 0 0 [] (by omega), c2 sp.length 0 _ (by omega), c3 (lp.length - (c + 1)) (c + 1) _ (by omega), take_drop_all]
  | some b =>
    rw [hfi] at hpre
    obtain ⟨hi, hb⟩ := hpre
    cases hli : findIdx last 0 lp with
    | none =>
      rw [hli] at hpost
      obtain ⟨j, hj⟩ := hpost
      simp [hi, hj, c1 b 0 [] (by omega), c2 sp.length 0 _ (by omega), c3 0 lp.length _ (by omega)]
    | some c =>
      rw [hli] at hpost
      obtain ⟨hj, hc⟩ := hpost
      have ea : Rs.add 64 c 1 = Res.ok (c + 1) := Rs.add_ok (by omega)
      have ea' : Rs.add 64 1 c = Res.ok (c + 1) := by rw [Rs.add_ok (by omega), Nat.add_comm]
      simp [hi, hj, ea, ea', c1 b 0 [] (by omega), c2 sp.length 0 _ (by omega), c3 (lp.length - (c + 1)) (c + 1) _ (by omega), take_drop_all]

/-! ### the derived order of the `PrevPtr` tuple, the Fenwick tree over the tuple representation -/

theorem ole_cons {β : Type} [ROrd β] (a1 b1 : Nat) (a2 b2 : β) :
    (ROrd.le (a1, a2) (b1, b2) : Bool) = (decide (a1 < b1) || (a1 == b1 && ROrd.le a2 b2)) := by
  show (!(decide (b1 ≤ a1)) || (decide (a1 ≤ b1) && ROrd.le a2 b2)) = _
  cases ROrd.le a2 b2
  · simp only [Bool.and_false, Bool.or_false]
    by_cases h : a1 < b1
    · have h' : ¬ b1 ≤ a1 := by omega
      simp [h, h']
    · have h' : b1 ≤ a1 := by omega
      simp [h, h']
  · simp only [Bool.and_true]
    rcases Nat.lt_trichotomy a1 b1 with h | h | h
    · have h1 : ¬ b1 ≤ a1 := by omega
      have h2 : a1 ≤ b1 := by omega
      simp [h, h1, h2]
    · subst h; simp
    · have h1 : b1 ≤ a1 := by omega
      have h2 : ¬ a1 ≤ b1 := by omega
      have h3 : ¬ a1 < b1 := by omega
      have h4 : ¬ a1 = b1 := by omega
      simp [h1, h2, h3, h4]

theorem ole_PP (a b : PrevPtr) : (ROrd.le (toT a) (toT b) : Bool) = ppLe a b := by
  simp only [toT, ppLe, ole_cons]
  rfl

theorem toT_maxPP (a b : PrevPtr) : toT (maxPP a b) = Rs.omax (toT a) (toT b) := by
  simp only [maxPP, Rs.omax, ole_PP]; split <;> rfl

open RbV.Model.Fenwick in
theorem getLoop_map {α β : Type} (f : α → β) (op : α → α → α) (op' : β → β → β) (d : α) (hop : ∀ a b, f (op a b) = op' (f a) (f b))
    (tree : List α) : ∀ fuel idx sum, getLoop op' (f d) (tree.map f) fuel idx (f sum) = f (getLoop op d tree fuel idx sum) := by
  intro fuel
  induction fuel with
  | zero => intro idx sum; rfl
  | succ n ih =>
    intro idx sum
    simp only [getLoop]
    split
    · have : (tree.map f).getD idx (f d) = f (tree.getD idx d) := by
        simp [List.getD_eq_getElem?_getD, List.getElem?_map]
      rw [this, ← hop, ih]
    · rfl

open RbV.Model.Fenwick in
theorem setLoop_map {α β : Type} (f : α → β) (op : α → α → α) (op' : β → β → β) (d : α) (hop : ∀ a b, f (op a b) = op' (f a) (f b))
    (v : α) : ∀ fuel idx (tree : List α), setLoop op' (f d) (f v) fuel idx (tree.map f) = (setLoop op d v fuel idx tree).map f := by
  intro fuel
  induction fuel with
  | zero => intro idx tree; rfl
  | succ n ih =>
    intro idx tree
    simp only [setLoop, List.length_map]
    split
    · have : (tree.map f).getD idx (f d) = f (tree.getD idx d) := by
        simp [List.getD_eq_getElem?_getD, List.getElem?_map]
      rw [this, ← hop, ← List.map_set, ih]
    · rfl

/-- the translated `get` on the tuple representation of a tree of `PrevPtr` records = the model's `get` -/
theorem src_get_PP (tree : List PrevPtr) (j : Nat) (h : j + 1 < tree.length) (hl : tree.length ≤ 2 ^ 63) :
    RbV.Gen.SrcFenwick.get (Rs.omax (α := Nat × Nat × Nat × Nat × Nat × Nat)) (0, 0, 0, 0, 0, 0) (tree.map toT) j
      = Res.ok (toT (Model.Fenwick.get maxPP dfltPP tree j)) := by
  rw [GenSrcFenwick.get_eq_model _ _ _ _ (by simpa using h) (by simpa using hl)]
  unfold Model.Fenwick.get
  exact congrArg Res.ok (getLoop_map toT maxPP Rs.omax dfltPP toT_maxPP tree _ _ dfltPP)

/-- the translated `set` on the tuple representation = the model's `set` -/
theorem src_set_PP (tree : List PrevPtr) (i : Nat) (v : PrevPtr) (h : i + 1 < 2 ^ 64) (hl : tree.length ≤ 2 ^ 63) :
    RbV.Gen.SrcFenwick.set (Rs.omax (α := Nat × Nat × Nat × Nat × Nat × Nat)) (0, 0, 0, 0, 0, 0) (tree.map toT) i (toT v)
      = Res.ok ((Model.Fenwick.set maxPP dfltPP tree i v).map toT) := by
  rw [GenSrcFenwick.set_eq_model _ _ _ _ _ h (by simpa using hl)]
  unfold Model.Fenwick.set
  rw [List.length_map]
  exact congrArg Res.ok (setLoop_map toT maxPP Rs.omax dfltPP toT_maxPP v _ _ tree)

/-! ### the model's loop body on a start / end event, computed -/

/-- gap-penalised candidate score of a start event at `(x, y)` over the record `bp` -/
def newScore (k msc gO gE x y : Nat) (bp : PrevPtr) : Nat :=
  bp.score + k * msc - (if max (x - bp.x) (y - bp.y) > 0 then gO + max (x - bp.x) (y - bp.y) * gE else 0)

theorem stepS_start (ms : List M) (k msc gO gE : Nat) (s : Model.Sdpkpp.St) (p : Nat) (hp : p < ms.length)
    (hl : s.dp.length = 2 * ms.length) :
    Model.Sdpkpp.stepEv ms k msc gO gE s (startEv ms p) =
      if 0 < (Model.Fenwick.get maxPP dfltPP s.tree (mAt ms p).2).score then
        { tree := s.tree
          dp := s.dp.set p (maxNI (k * msc, -1) (newScore k msc gO gE (mAt ms p).1 (mAt ms p).2
                  (Model.Fenwick.get maxPP dfltPP s.tree (mAt ms p).2),
                ((Model.Fenwick.get maxPP dfltPP s.tree (mAt ms p).2).id : Int)))
          best := maxNI s.best ((maxNI (k * msc, -1) (newScore k msc gO gE (mAt ms p).1 (mAt ms p).2
                  (Model.Fenwick.get maxPP dfltPP s.tree (mAt ms p).2),
                ((Model.Fenwick.get maxPP dfltPP s.tree (mAt ms p).2).id : Int))).1, (p : Int)) }
      else { tree := s.tree, dp := s.dp.set p (k * msc, -1), best := s.best } := by
  have hmod : (p + ms.length) % ms.length = p := by rw [Nat.add_mod_right, Nat.mod_eq_of_lt hp]
  have hge : p + ms.length ≥ ms.length := by omega
  have hlt : p < s.dp.length := by omega
  unfold Model.Sdpkpp.stepEv
  dsimp only [startEv]
  simp only [hmod, hge, if_true, List.set_set, getD_set _ _ _ _ _ hlt, gt_iff_lt, newScore]

theorem stepS_end_some (ms : List M) (k msc gO gE : Nat) (s : Model.Sdpkpp.St) (p c : Nat) (hp : p < ms.length)
    (hl : s.dp.length = 2 * ms.length) (h : contLookup ms k p = some c) :
    Model.Sdpkpp.stepEv ms k msc gO gE s (endEv ms k p) =
      { tree := Model.Fenwick.set maxPP dfltPP s.tree ((mAt ms p).2 + k)
          (PrevPtr.new (maxNI (s.dp.getD p (0, 0)) ((s.dp.getD c (0, 0)).1 + msc, (c : Int))).1 ((mAt ms p).1 + k) ((mAt ms p).2 + k) p gE)
        dp := s.dp.set p (maxNI (s.dp.getD p (0, 0)) ((s.dp.getD c (0, 0)).1 + msc, (c : Int)))
        best := maxNI s.best ((maxNI (s.dp.getD p (0, 0)) ((s.dp.getD c (0, 0)).1 + msc, (c : Int))).1, (p : Int)) } := by
  have hmod : p % ms.length = p := Nat.mod_eq_of_lt hp
  have hge : ¬ (p ≥ ms.length) := by omega
  have hlt : p < s.dp.length := by omega
  unfold contLookup at h
  unfold Model.Sdpkpp.stepEv
  dsimp only [endEv]
  simp only [hmod, hge, if_false]
  split at h
  · next hc =>
    split
    · simp only [h, getD_set _ _ _ _ _ hlt, if_true]
    · next hg => exact absurd hc hg
  · cases h

theorem stepS_end_none (ms : List M) (k msc gO gE : Nat) (s : Model.Sdpkpp.St) (p : Nat) (hp : p < ms.length)
    (h : contLookup ms k p = none) :
    Model.Sdpkpp.stepEv ms k msc gO gE s (endEv ms k p) =
      { s with tree := (Model.Fenwick.set maxPP dfltPP s.tree ((mAt ms p).2 + k)
          (PrevPtr.new (s.dp.getD p (0, 0)).1 ((mAt ms p).1 + k) ((mAt ms p).2 + k) p gE)) } := by
  have hmod : p % ms.length = p := Nat.mod_eq_of_lt hp
  have hge : ¬ (p ≥ ms.length) := by omega
  unfold contLookup at h
  unfold Model.Sdpkpp.stepEv
  dsimp only [endEv]
  simp only [hmod, hge, if_false]
  split at h
  · next hc =>
    split
    · simp only [h]
    · rfl
  · next hc =>
    split
    · next hg => exact absurd hg hc
    · rfl

/-! ### the stronger sweep invariant: what the machine arithmetic of `sdpkpp` needs -/

theorem bump (q p R : Nat) (h : q < p) : (q + 1) * R + R ≤ (p + 1) * R := by
  have : (q + 1 + 1) * R ≤ (p + 1) * R := Nat.mul_le_mul_right R (by omega)
  rw [Nat.add_mul (q + 1) 1 R, Nat.one_mul] at this
  exact this

theorem le_succ_mul (p R : Nat) : R ≤ (p + 1) * R := by
  rw [Nat.add_mul, Nat.one_mul]; omega

/-- every record published in the tree is `PrevPtr::new(score, x_q + k, y_q + k, q, gap_extend)` of a finished match `q`
with `score ≤ (q + 1)·k·match_score`; every cell of match `q` is at most `(q + 1)·k·match_score` -/
structure InvB (ms : List M) (k msc gE : Nat) (done : List Ev) (s : Model.Sdpkpp.St) : Prop where
  len_dp : s.dp.length = 2 * ms.length
  tree : ∃ ups, s.tree = Lemmas.Fenwick.run maxPP dfltPP (nFrom k 0 ms) ups ∧
    ∀ u ∈ ups, ∃ q sc, q < ms.length ∧ endEv ms k q ∈ done ∧ u.1 = (mAt ms q).2 + k ∧
      u.2 = PrevPtr.new sc ((mAt ms q).1 + k) ((mAt ms q).2 + k) q gE ∧ sc ≤ (q + 1) * (k * msc)
  cells : ∀ q, q < ms.length → (cellAtS s q).1 ≤ (q + 1) * (k * msc)

theorem invB_init (ms : List M) (k msc gE : Nat) : InvB ms k msc gE [] (Model.Sdpkpp.initSt ms k) := by
  refine ⟨by simp [Model.Sdpkpp.initSt], ⟨[], by simp [Model.Sdpkpp.initSt, Lemmas.Fenwick.run], by simp⟩, ?_⟩
  intro q hq
  have : cellAtS (Model.Sdpkpp.initSt ms k) q = (0, 0) := by
    have hq2 : q < 2 * ms.length := by omega
    simp [cellAtS, Model.Sdpkpp.initSt, List.getD_eq_getElem?_getD, List.getElem?_replicate, hq2]
  rw [this]; exact Nat.zero_le _

/-- what the Fenwick query of a start event returns when its score is positive -/
theorem queryB {ms : List M} {k msc gE : Nat} {done : List Ev} {s : Model.Sdpkpp.St} {p : Nat} (hk : 0 < k) (hs : ms.Pairwise lexLt)
    (hI : InvB ms k msc gE done s) (hp : p < ms.length) (hbefore : ∀ d ∈ done, evLe d (startEv ms p) = true)
    (hpos : 0 < (Model.Fenwick.get maxPP dfltPP s.tree (mAt ms p).2).score) :
    ∃ q sc, q < p ∧ q < ms.length ∧
      Model.Fenwick.get maxPP dfltPP s.tree (mAt ms p).2 = PrevPtr.new sc ((mAt ms q).1 + k) ((mAt ms q).2 + k) q gE ∧
      sc ≤ (q + 1) * (k * msc) ∧ (mAt ms q).1 + k ≤ (mAt ms p).1 ∧ (mAt ms q).2 + k ≤ (mAt ms p).2 := by
  obtain ⟨ups, ht, hm⟩ := hI.tree
  have hy : (mAt ms p).2 < nFrom k 0 ms := by
    have := (nFrom_ge k ms 0 (mAt ms p) (mAt_mem hp)).2; omega
  rw [ht, get_run_maxPP _ ups _ hy] at hpos ⊢
  rcases agg_maxPP_mem (fun i => decide (i ≤ (mAt ms p).2)) ups with hd | ⟨u, hu, hP, hv⟩
  · rw [hd] at hpos; simp [dfltPP] at hpos
  · obtain ⟨q, sc, hq, he, hu1, hu2, hsc⟩ := hm u hu
    have hb := hbefore _ he
    rw [evLe_iff] at hb
    simp only [startEv, endEv] at hb
    simp only [decide_eq_true_eq] at hP
    have hx : (mAt ms q).1 + k ≤ (mAt ms p).1 := by omega
    have hqp : q < p := idx_lt_of_x_lt hs hq hp (by omega)
    exact ⟨q, sc, hqp, hq, by rw [← hv, hu2], hsc, hx, by omega⟩

theorem cellAtS_set (s : Model.Sdpkpp.St) (p q : Nat) (c : Nat × Int) (t : List PrevPtr) (b : Nat × Int) (hlt : p < s.dp.length) :
    cellAtS { tree := t, dp := s.dp.set p c, best := b } q = if q = p then c else cellAtS s q := by
  unfold cellAtS; exact getD_set _ _ _ _ _ hlt

theorem invB_step_start {ms : List M} {k msc gO gE : Nat} {done : List Ev} {s : Model.Sdpkpp.St} {p : Nat} (hk : 0 < k)
    (hs : ms.Pairwise lexLt) (hI : InvB ms k msc gE done s) (hp : p < ms.length)
    (hbefore : ∀ d ∈ done, evLe d (startEv ms p) = true) :
    InvB ms k msc gE (done ++ [startEv ms p]) (Model.Sdpkpp.stepEv ms k msc gO gE s (startEv ms p)) := by
  have hlt : p < s.dp.length := by rw [hI.len_dp]; omega
  have hq := queryB hk hs hI hp hbefore
  rw [stepS_start ms k msc gO gE s p hp hI.len_dp]
  generalize Model.Fenwick.get maxPP dfltPP s.tree (mAt ms p).2 = bp at hq
  have htree : ∃ ups, s.tree = Lemmas.Fenwick.run maxPP dfltPP (nFrom k 0 ms) ups ∧
      ∀ u ∈ ups, ∃ q sc, q < ms.length ∧ endEv ms k q ∈ done ++ [startEv ms p] ∧ u.1 = (mAt ms q).2 + k ∧
        u.2 = PrevPtr.new sc ((mAt ms q).1 + k) ((mAt ms q).2 + k) q gE ∧ sc ≤ (q + 1) * (k * msc) := by
    obtain ⟨ups, ht, hm⟩ := hI.tree
    refine ⟨ups, ht, fun u hu => ?_⟩
    obtain ⟨q, sc, h1, h2, h3⟩ := hm u hu
    exact ⟨q, sc, h1, List.mem_append_left _ h2, h3⟩
  by_cases hpos : 0 < bp.score
  · rw [if_pos hpos]
    obtain ⟨q, sc, hqp, _, hbp, hsc, _, _⟩ := hq hpos
    refine ⟨by simp [List.length_set, hI.len_dp], htree, ?_⟩
    intro q' hq'
    rw [cellAtS_set _ _ _ _ _ _ hlt]
    split
    · next h =>
      subst h
      rw [maxNI_fst]
      have h1 := le_succ_mul q' (k * msc)
      have h2 := bump q q' (k * msc) hqp
      have h3 : bp.score = sc := by rw [hbp]; rfl
      have h4 : newScore k msc gO gE (mAt ms q').1 (mAt ms q').2 bp ≤ bp.score + k * msc := by unfold newScore; omega
      simp only; omega
    · exact hI.cells q' hq'
  · rw [if_neg hpos]
    refine ⟨by simp [List.length_set, hI.len_dp], htree, ?_⟩
    intro q' hq'
    rw [cellAtS_set _ _ _ _ _ _ hlt]
    split
    · next h => subst h; exact le_succ_mul q' (k * msc)
    · exact hI.cells q' hq'

theorem invB_step_end {ms : List M} {k msc gO gE : Nat} {done : List Ev} {s : Model.Sdpkpp.St} {p : Nat} (hk : 0 < k)
    (hs : ms.Pairwise lexLt) (hI : InvB ms k msc gE done s) (hp : p < ms.length) :
    InvB ms k msc gE (done ++ [endEv ms k p]) (Model.Sdpkpp.stepEv ms k msc gO gE s (endEv ms k p)) := by
  have hlt : p < s.dp.length := by rw [hI.len_dp]; omega
  have hmsc : msc ≤ k * msc := Nat.le_mul_of_pos_left msc hk
  have htree : ∀ (sc : Nat) (t' : List PrevPtr), sc ≤ (p + 1) * (k * msc) →
      t' = Model.Fenwick.set maxPP dfltPP s.tree ((mAt ms p).2 + k) (PrevPtr.new sc ((mAt ms p).1 + k) ((mAt ms p).2 + k) p gE) →
      ∃ ups, t' = Lemmas.Fenwick.run maxPP dfltPP (nFrom k 0 ms) ups ∧
      ∀ u ∈ ups, ∃ q sc, q < ms.length ∧ endEv ms k q ∈ done ++ [endEv ms k p] ∧ u.1 = (mAt ms q).2 + k ∧
        u.2 = PrevPtr.new sc ((mAt ms q).1 + k) ((mAt ms q).2 + k) q gE ∧ sc ≤ (q + 1) * (k * msc) := by
    intro sc t' hsc ht'
    obtain ⟨ups, ht, hm⟩ := hI.tree
    refine ⟨ups ++ [((mAt ms p).2 + k, PrevPtr.new sc ((mAt ms p).1 + k) ((mAt ms p).2 + k) p gE)], by rw [run_snocPP, ht', ht], ?_⟩
    intro u hu
    rcases List.mem_append.mp hu with hu | hu
    · obtain ⟨q, sc', h1, h2, h3⟩ := hm u hu
      exact ⟨q, sc', h1, List.mem_append_left _ h2, h3⟩
    · rw [List.mem_singleton.mp hu]
      exact ⟨p, sc, hp, by simp, rfl, rfl, hsc⟩
  cases hlook : contLookup ms k p with
  | none =>
    rw [stepS_end_none ms k msc gO gE s p hp hlook]
    exact ⟨hI.len_dp, htree _ _ (hI.cells p hp) rfl, hI.cells⟩
  | some c =>
    rw [stepS_end_some ms k msc gO gE s p c hp hI.len_dp hlook]
    obtain ⟨hc, hcont⟩ := contLookup_some hlook
    simp only [cont, Bool.and_eq_true, beq_iff_eq] at hcont
    have hcp : c < p := idx_lt_of_x_lt hs hc hp (by omega)
    have hnew : (maxNI (s.dp.getD p (0, 0)) ((s.dp.getD c (0, 0)).1 + msc, (c : Int))).1 ≤ (p + 1) * (k * msc) := by
      rw [maxNI_fst]
      have h1 := hI.cells p hp
      have h2 := hI.cells c hc
      have h3 := bump c p (k * msc) hcp
      unfold cellAtS at h1 h2
      simp only; omega
    refine ⟨by simp [List.length_set, hI.len_dp], htree _ _ hnew rfl, ?_⟩
    intro q' hq'
    rw [cellAtS_set _ _ _ _ _ _ hlt]
    split
    · next h => subst h; exact hnew
    · exact hI.cells q' hq'

/-! ### the translated sweep loop follows the model event by event -/

/-- size hypotheses under which the `u32` arithmetic of `sdpkpp` cannot overflow: those of `lcskpp`, gap magnitudes below
2³¹ (`-gap_open` fits `i32`), and `len·k·match_score + 2·n·|gap_extend| + |gap_open| < 2³²` with `n = max (x + k, y + k)`
(scores, gap penalties and the `plane` of `PrevPtr::new` fit), `2·n < 2³²` (`x + y` in `PrevPtr::new`) -/
structure BndS (ms : List M) (k msc gO gE : Nat) : Prop where
  base : Bnd ms k
  hgO : gO < 2 ^ 31
  hgE : gE < 2 ^ 31
  n2 : 2 * nFrom k 0 ms < 2 ^ 32
  sz : ms.length * (k * msc) + 2 * (nFrom k 0 ms * gE) + gO < 2 ^ 32

theorem treeB_length {ms : List M} {k msc gE : Nat} {done : List Ev} {s : Model.Sdpkpp.St} (hI : InvB ms k msc gE done s) :
    s.tree.length = nFrom k 0 ms + 1 := by
  obtain ⟨ups, ht, _⟩ := hI.tree
  rw [ht, Lemmas.Fenwick.run, GenSrcFenwick.run_length]
  simp [Model.Fenwick.new]

/-- the encoding of a model state in the representation of the translated text -/
def enc (s : Model.Sdpkpp.St) : List (Nat × Nat × Nat × Nat × Nat × Nat) × List (Nat × Int) × (Nat × Int) :=
  (s.tree.map toT, s.dp, s.best)

theorem sdp_for3_start (sortEv : List Ev → List Ev) (bsM : List M → M → Except Nat Nat) (bsN : List Nat → Nat → Except Nat Nat)
    {ms : List M} {k msc gO gE : Nat} (hS : BndS ms k msc gO gE) (hk : 0 < k) (hs : ms.Pairwise lexLt) {done : List Ev}
    {s : Model.Sdpkpp.St} {p : Nat} (hI : InvB ms k msc gE done s) (hp : p < ms.length)
    (hbefore : ∀ d ∈ done, evLe d (startEv ms p) = true) :
    sdpkpp_for3 sortEv bsM bsN ms k msc gO gE (enc s) (startEv ms p)
      = Res.ok (enc (Model.Sdpkpp.stepEv ms k msc gO gE s (startEv ms p))) := by
  have hlen := hS.base.len
  have hlt : p < s.dp.length := by rw [hI.len_dp]; omega
  have hTl := treeB_length hI
  have hxyN := nFrom_ge k ms 0 _ (mAt_mem hp)
  have hn2 := hS.n2
  have hsz := hS.sz
  have hgO := hS.hgO
  have eget := src_get_PP s.tree (mAt ms p).2 (by omega) (by omega)
  have hq := queryB hk hs hI hp hbefore
  have hR1 : k * msc ≤ ms.length * (k * msc) := Nat.le_mul_of_pos_left _ (by omega)
  have hpR : (p + 1) * (k * msc) ≤ ms.length * (k * msc) := Nat.mul_le_mul_right _ (by omega)
  unfold enc
  rw [stepS_start ms k msc gO gE s p hp hI.len_dp]
  generalize Model.Fenwick.get maxPP dfltPP s.tree (mAt ms p).2 = bp at hq eget
  generalize hNG : nFrom k 0 ms * gE = NG at hsz
  generalize hLR : ms.length * (k * msc) = LR at hsz hR1 hpR
  have ecast : Rs.cast 32 ms.length = ms.length := Nat.mod_eq_of_lt (by omega)
  have erem : Rs.rem (p + ms.length) ms.length = Res.ok p := by
    rw [Rs.rem_ok (by omega), Nat.add_mod_right, Nat.mod_eq_of_lt hp]
  have ege : ms.length ≤ p + ms.length := by omega
  have emulR : Rs.mul 32 k msc = Res.ok (k * msc) := Rs.mul_ok (by omega)
  have emulR' : Rs.mul 32 msc k = Res.ok (k * msc) := by rw [Rs.mul_ok (by rw [Nat.mul_comm]; omega), Nat.mul_comm]
  have eset1 : ∀ v, Rs.setIdx s.dp p v = Res.ok (s.dp.set p v) := fun v => Rs.setIdx_ok hlt
  have eset2 : ∀ v w, Rs.setIdx (s.dp.set p v) p w = Res.ok (s.dp.set p w) := fun v w => by
    rw [Rs.setIdx_ok (by simpa using hlt), List.set_set]
  have eidx : ∀ v, Rs.idx (s.dp.set p v) p = Res.ok v := fun v => by
    rw [idx_getD _ _ (0, 0) (by simpa using hlt), getD_set_self _ _ _ _ hlt]
  have ecs : Rs.castSigned 32 p = (p : Int) := Rs.castSigned_of_lt (by omega)
  by_cases hpos : 0 < bp.score
  · rw [if_pos hpos]
    obtain ⟨q, sc, hqp, hql, hbp, hsc, hx, hy⟩ := hq hpos
    generalize (mAt ms q).1 + k = X at hbp hx
    generalize (mAt ms q).2 + k = Y at hbp hy
    subst hbp
    have hsc0 : 0 < sc := hpos
    have hbump := bump q p (k * msc) hqp
    have esubx : Rs.sub (mAt ms p).1 X = Res.ok ((mAt ms p).1 - X) := Rs.sub_ok hx
    have esuby : Rs.sub (mAt ms p).2 Y = Res.ok ((mAt ms p).2 - Y) := Rs.sub_ok hy
    have eaddS : Rs.add 32 sc (k * msc) = Res.ok (sc + k * msc) := Rs.add_ok (by omega)
    have eaddS' : Rs.add 32 (k * msc) sc = Res.ok (sc + k * msc) := by rw [Rs.add_ok (by omega), Nat.add_comm]
    have ecq : Rs.castSigned 32 q = (q : Int) := Rs.castSigned_of_lt (by omega)
    have hgN : max ((mAt ms p).1 - X) ((mAt ms p).2 - Y) ≤ nFrom k 0 ms := by omega
    have hgG : max ((mAt ms p).1 - X) ((mAt ms p).2 - Y) * gE ≤ NG := by rw [← hNG]; exact Nat.mul_le_mul_right _ hgN
    have emulG : Rs.mul 32 (max ((mAt ms p).1 - X) ((mAt ms p).2 - Y)) gE
        = Res.ok (max ((mAt ms p).1 - X) ((mAt ms p).2 - Y) * gE) := Rs.mul_ok (by omega)
    have eaddG : Rs.add 32 gO (max ((mAt ms p).1 - X) ((mAt ms p).2 - Y) * gE)
        = Res.ok (gO + max ((mAt ms p).1 - X) ((mAt ms p).2 - Y) * gE) := Rs.add_ok (by omega)
    by_cases hgap : 0 < max ((mAt ms p).1 - X) ((mAt ms p).2 - Y)
    · simp [sdpkpp_for3, startEv, ecast, erem, ege, emulR, emulR', eset1, eget, toT, PrevPtr.new, hsc0, esubx, esuby, hgap,
        emulG, eaddG, eaddS, eaddS', ecq, ecs, eset2, eidx, omax_NI, newScore, Rs.satSub]
    · simp [sdpkpp_for3, startEv, ecast, erem, ege, emulR, emulR', eset1, eget, toT, PrevPtr.new, hsc0, esubx, esuby, hgap,
        eaddS, eaddS', ecq, ecs, eset2, eidx, omax_NI, newScore, Rs.satSub]
  · rw [if_neg hpos]
    have hpos' : ¬ 0 < (toT bp).2.1 := hpos
    simp [sdpkpp_for3, startEv, ecast, erem, ege, emulR, emulR', eset1, eget, hpos', ecs, eset2, eidx]

theorem sdp_for3_end (sortEv : List Ev → List Ev) (bsM : List M → M → Except Nat Nat) (bsN : List Nat → Nat → Except Nat Nat)
    (hbs : BSearchOk bsM) {ms : List M} {k msc gO gE : Nat} (hS : BndS ms k msc gO gE) (hk : 0 < k) (hs : ms.Pairwise lexLt)
    {done : List Ev} {s : Model.Sdpkpp.St} {p : Nat} (hI : InvB ms k msc gE done s) (hp : p < ms.length) :
    sdpkpp_for3 sortEv bsM bsN ms k msc gO gE (enc s) (endEv ms k p)
      = Res.ok (enc (Model.Sdpkpp.stepEv ms k msc gO gE s (endEv ms k p))) := by
  have hlen := hS.base.len
  have hlt : p < s.dp.length := by rw [hI.len_dp]; omega
  have hTl := treeB_length hI
  have hxyN := nFrom_ge k ms 0 _ (mAt_mem hp)
  have hxy := hS.base.xy _ (mAt_mem hp)
  have hn2 := hS.n2
  have hsz := hS.sz
  have hmsc : msc ≤ k * msc := Nat.le_mul_of_pos_left msc hk
  have hpR : (p + 1) * (k * msc) ≤ ms.length * (k * msc) := Nat.mul_le_mul_right _ (by omega)
  have hsum : ((mAt ms p).1 + k + ((mAt ms p).2 + k)) * gE ≤ 2 * (nFrom k 0 ms * gE) := by
    rw [← Nat.mul_assoc]; exact Nat.mul_le_mul_right _ (by omega)
  have enew : ∀ sc, sc ≤ (p + 1) * (k * msc) → prevPtrNew sortEv bsM bsN sc ((mAt ms p).1 + k) ((mAt ms p).2 + k) p gE
      = Res.ok (toT (PrevPtr.new sc ((mAt ms p).1 + k) ((mAt ms p).2 + k) p gE)) := fun sc hsc =>
    prevPtrNew_eq_model sortEv bsM bsN sc _ _ p gE (by omega) (by omega)
  have esetF : ∀ v, RbV.Gen.SrcFenwick.set (Rs.omax (α := Nat × Nat × Nat × Nat × Nat × Nat)) (0, 0, 0, 0, 0, 0) (s.tree.map toT)
      ((mAt ms p).2 + k) (toT v) = Res.ok ((Model.Fenwick.set maxPP dfltPP s.tree ((mAt ms p).2 + k) v).map toT) := fun v =>
    src_set_PP s.tree _ v (by omega) (by omega)
  have ecast : Rs.cast 32 ms.length = ms.length := Nat.mod_eq_of_lt (by omega)
  have erem : Rs.rem p ms.length = Res.ok p := by rw [Rs.rem_ok (by omega), Nat.mod_eq_of_lt hp]
  have ege : ¬ ms.length ≤ p := by omega
  have ecs : Rs.castSigned 32 p = (p : Int) := Rs.castSigned_of_lt (by omega)
  have eidxp : Rs.idx s.dp p = Res.ok (s.dp.getD p (0, 0)) := idx_getD _ _ _ hlt
  have esub1 : Rs.sub ((mAt ms p).1 + k) k = Res.ok (mAt ms p).1 := by rw [Rs.sub_ok (by omega), Nat.add_sub_cancel]
  have esub2 : Rs.sub ((mAt ms p).2 + k) k = Res.ok (mAt ms p).2 := by rw [Rs.sub_ok (by omega), Nat.add_sub_cancel]
  unfold enc
  cases hlook : contLookup ms k p with
  | none =>
    rw [stepS_end_none ms k msc gO gE s p hp hlook]
    have enew0 := enew (s.dp.getD p (0, 0)).1 (hI.cells p hp)
    rw [List.getD_eq_getElem?_getD] at enew0
    unfold contLookup at hlook
    split at hlook
    · next hc =>
      simp only [Bool.and_eq_true, decide_eq_true_eq] at hc
      have esub3 : Rs.sub (mAt ms p).1 1 = Res.ok ((mAt ms p).1 - 1) := Rs.sub_ok (by omega)
      have esub4 : Rs.sub (mAt ms p).2 1 = Res.ok ((mAt ms p).2 - 1) := Rs.sub_ok (by omega)
      have hb := bs_find bsM hbs hs ((mAt ms p).1 + k - k - 1, (mAt ms p).2 + k - k - 1)
      rw [hlook] at hb
      simp only [Nat.add_sub_cancel] at hb
      obtain ⟨i, hbi⟩ := hb
      simp [sdpkpp_for3, endEv, ecast, erem, ege, hc.1, hc.2, esub1, esub2, esub3, esub4, hbi, eidxp, enew0, esetF]
    · next hc =>
      have hc' : ¬ (k < (mAt ms p).1 + k ∧ k < (mAt ms p).2 + k) := by
        simpa only [Bool.and_eq_true, decide_eq_true_eq, gt_iff_lt] using hc
      have hc'' : ((mAt ms p).1 = 0) ∨ ((mAt ms p).2 = 0) := by omega
      rcases hc'' with h0 | h0
      · simp only [h0, Nat.zero_add] at enew0 esetF
        simp [sdpkpp_for3, endEv, ecast, erem, ege, h0, eidxp, enew0, esetF]
      · simp only [h0, Nat.zero_add] at enew0 esetF
        simp [sdpkpp_for3, endEv, ecast, erem, ege, h0, eidxp, enew0, esetF]
  | some c =>
    rw [stepS_end_some ms k msc gO gE s p c hp hI.len_dp hlook]
    obtain ⟨hc, hcont⟩ := contLookup_some hlook
    simp only [cont, Bool.and_eq_true, beq_iff_eq] at hcont
    have hcp : c < p := idx_lt_of_x_lt hs hc hp (by omega)
    have hcell := hI.cells c hc
    have hcellp := hI.cells p hp
    have hbump := bump c p (k * msc) hcp
    unfold cellAtS at hcell hcellp
    have hnew : (maxNI (s.dp.getD p (0, 0)) ((s.dp.getD c (0, 0)).1 + msc, (c : Int))).1 ≤ (p + 1) * (k * msc) := by
      rw [maxNI_fst]; simp only; omega
    have enew1 := enew _ hnew
    rw [List.getD_eq_getElem?_getD, List.getD_eq_getElem?_getD] at enew1
    unfold contLookup at hlook
    split at hlook
    · next hcd =>
      simp only [Bool.and_eq_true, decide_eq_true_eq] at hcd
      have esub3 : Rs.sub (mAt ms p).1 1 = Res.ok ((mAt ms p).1 - 1) := Rs.sub_ok (by omega)
      have esub4 : Rs.sub (mAt ms p).2 1 = Res.ok ((mAt ms p).2 - 1) := Rs.sub_ok (by omega)
      have hb := bs_find bsM hbs hs ((mAt ms p).1 + k - k - 1, (mAt ms p).2 + k - k - 1)
      rw [hlook] at hb
      simp only [Nat.add_sub_cancel] at hb
      have hb' : bsM ms ((mAt ms p).1 - 1, (mAt ms p).2 - 1) = .ok c := hb
      have eidxc : Rs.idx s.dp c = Res.ok (s.dp.getD c (0, 0)) := idx_getD _ _ _ (by rw [hI.len_dp]; omega)
      have eadd : Rs.add 32 (s.dp[c]?.getD (0, 0)).1 msc = Res.ok ((s.dp[c]?.getD (0, 0)).1 + msc) := by
        rw [← List.getD_eq_getElem?_getD]; exact Rs.add_ok (by omega)
      have eadd' : Rs.add 32 msc (s.dp[c]?.getD (0, 0)).1 = Res.ok ((s.dp[c]?.getD (0, 0)).1 + msc) := by
        rw [← List.getD_eq_getElem?_getD, Rs.add_ok (by omega), Nat.add_comm]
      have ecsc : Rs.castSigned 32 c = (c : Int) := Rs.castSigned_of_lt (by omega)
      have eset1 : ∀ v, Rs.setIdx s.dp p v = Res.ok (s.dp.set p v) := fun v => Rs.setIdx_ok hlt
      have eidx : ∀ v, Rs.idx (s.dp.set p v) p = Res.ok v := fun v => by
        rw [idx_getD _ _ (0, 0) (by simpa using hlt), getD_set_self _ _ _ _ hlt]
      simp [sdpkpp_for3, endEv, ecast, erem, ege, hcd.1, hcd.2, esub1, esub2, esub3, esub4, hb', eidxp, eidxc, eadd, eadd',
        ecsc, ecs, eset1, eidx, omax_NI, enew1, esetF]
    · cases hlook

theorem sdp_for3_fold (sortEv : List Ev → List Ev) (bsM : List M → M → Except Nat Nat) (bsN : List Nat → Nat → Except Nat Nat)
    (hbs : BSearchOk bsM) {ms : List M} {k msc gO gE : Nat} (hS : BndS ms k msc gO gE) (hk : 0 < k) (hs : ms.Pairwise lexLt) :
    ∀ (rest done : List Ev) (s : Model.Sdpkpp.St), sortedEvents ms k = done ++ rest → InvB ms k msc gE done s →
      List.foldlM (sdpkpp_for3 sortEv bsM bsN ms k msc gO gE) (enc s) rest
        = Res.ok (enc (rest.foldl (Model.Sdpkpp.stepEv ms k msc gO gE) s)) := by
  intro rest
  induction rest with
  | nil => intro done s _ _; rfl
  | cons e rest ih =>
    intro done s h hI
    obtain ⟨hnot, hbefore, hcomplete⟩ := split_facts (sortedEvents_pairwise ms k) (sortedEvents_nodup ms k) h
    have hmem : e ∈ sortedEvents ms k := by rw [h]; simp
    rw [List.foldlM_cons, List.foldl_cons]
    obtain ⟨p, hp, rfl | rfl⟩ := (mem_sortedEvents ms k e).mp hmem
    · rw [sdp_for3_start sortEv bsM bsN hS hk hs hI hp hbefore, Res.ok_bind]
      exact ih (done ++ [startEv ms p]) _ (by simpa using h) (invB_step_start hk hs hI hp hbefore)
    · rw [sdp_for3_end sortEv bsM bsN hbs hS hk hs hI hp, Res.ok_bind]
      exact ih (done ++ [endEv ms k p]) _ (by simpa using h) (invB_step_end hk hs hI hp)

/-! ### `sdpkpp` around its sweep (assertions, event list, sort, tree, traceback) -/

theorem sdp_for1_ok (sortEv : List Ev → List Ev) (bsM : List M → M → Except Nat Nat) (bsN : List Nat → Nat → Except Nat Nat) (ms : List M)
    (hs : ms.Pairwise lexLt) :
    List.foldlM (sdpkpp_for1 sortEv bsM bsN ms) () (List.range' 1 (ms.length - 1)) = Res.ok () := by
  apply foldlM_unit
  intro i hi
  rw [List.mem_range'_1] at hi
  have e1 : Rs.sub i 1 = Res.ok (i - 1) := Rs.sub_ok (by omega)
  have e2 : Rs.idx ms (i - 1) = Res.ok (mAt ms (i - 1)) := idx_getD ms _ _ (by omega)
  have e3 : Rs.idx ms i = Res.ok (mAt ms i) := idx_getD ms _ _ (by omega)
  have e4 : mLt (mAt ms (i - 1)) (mAt ms i) = true := (mLt_iff _ _).mpr (mAt_lexLt hs (by omega) (by omega))
  simp [sdpkpp_for1, e1, e2, e3, olt_M, e4, Rs.assert]

theorem sdp_for2_fold (sortEv : List Ev → List Ev) (bsM : List M → M → Except Nat Nat) (bsN : List Nat → Nat → Except Nat Nat) (ms : List M) (k : Nat) :
    ∀ (l : List M) (i0 : Nat) (ev : List Ev) (n : Nat), (∀ m ∈ l, m.1 + k < 2 ^ 32 ∧ m.2 + k < 2 ^ 32) →
      i0 + l.length + ms.length ≤ 2 ^ 32 →
      List.foldlM (sdpkpp_for2 sortEv bsM bsN ms k) (ev, n) (l.zipIdx i0)
        = Res.ok (ev ++ eventsFrom ms.length k i0 l, nFrom k n l) := by
  intro l
  induction l with
  | nil => intro i0 ev n _ _; simp [eventsFrom, nFrom]
  | cons m r ih =>
    intro i0 ev n hb hl
    obtain ⟨hx, hy⟩ := hb m (by simp)
    simp only [List.length_cons] at hl
    have e1 : Rs.add 64 i0 ms.length = Res.ok (i0 + ms.length) := Rs.add_ok (by omega)
    have e2 : Rs.cast 32 (i0 + ms.length) = i0 + ms.length := Nat.mod_eq_of_lt (by omega)
    have e3 : Rs.add 32 m.1 k = Res.ok (m.1 + k) := Rs.add_ok hx
    have e4 : Rs.add 32 m.2 k = Res.ok (m.2 + k) := Rs.add_ok hy
    have e5 : Rs.cast 32 i0 = i0 := Nat.mod_eq_of_lt (by omega)
    rw [List.zipIdx_cons, List.foldlM_cons]
    have hstep : sdpkpp_for2 sortEv bsM bsN ms k (ev, n) (m, i0)
        = Res.ok (ev ++ [(m.1, m.2, i0 + ms.length), (m.1 + k, m.2 + k, i0)], max (max n (m.1 + k)) (m.2 + k)) := by
      have e1' : Rs.add 64 ms.length i0 = Res.ok (i0 + ms.length) := by rw [Rs.add_ok (by omega), Nat.add_comm]
      have e3' : Rs.add 32 k m.1 = Res.ok (m.1 + k) := by rw [Rs.add_ok (by omega), Nat.add_comm]
      have e4' : Rs.add 32 k m.2 = Res.ok (m.2 + k) := by rw [Rs.add_ok (by omega), Nat.add_comm]
      simp [sdpkpp_for2, e1, e2, e3, e4, e5, e1', e3', e4'] <;> omega
    rw [hstep, Res.ok_bind, ih (i0 + 1) _ _ (fun m' hm' => hb m' (by simp [hm'])) (by omega)]
    simp [eventsFrom, nFrom]

theorem sdp_while_eq (sortEv : List Ev → List Ev) (bsM : List M → M → Except Nat Nat) (bsN : List Nat → Nat → Except Nat Nat)
    (dp : List (Nat × Int)) (hdp : dp.length < 2 ^ 63) :
    ∀ (fuel : Nat) (prev : Int) (tb l : List Nat), traceLoop dp fuel prev = some l → (∀ i ∈ l, i < dp.length) →
      ∃ pm, sdpkpp_while1 sortEv bsM bsN dp fuel (tb, prev) = Res.ok (tb ++ l, pm) := by
  intro fuel
  induction fuel with
  | zero => intro prev tb l h; simp [traceLoop] at h
  | succ f ih =>
    intro prev tb l h hall
    rw [traceLoop] at h
    by_cases hge : prev ≥ 0
    · rw [if_pos hge] at h
      cases hrec : traceLoop dp f (dp.getD prev.toNat (0, 0)).2 with
      | none => rw [hrec] at h; cases h
      | some l' =>
        rw [hrec] at h
        simp only [Option.map_some, Option.some.injEq] at h
        subst h
        have hi : prev.toNat < dp.length := hall _ (by simp)
        have ecu : Rs.castUnsigned 64 prev = prev.toNat := by
          have e : prev = ((prev.toNat : Nat) : Int) := by omega
          rw [e, Rs.castUnsigned_natCast (by omega)]; omega
        have eidx : Rs.idx dp prev.toNat = Res.ok (dp.getD prev.toNat (0, 0)) := idx_getD _ _ _ hi
        obtain ⟨pm, hpm⟩ := ih (dp.getD prev.toNat (0, 0)).2 (tb ++ [prev.toNat]) l' hrec (fun i hi' => hall i (by simp [hi']))
        refine ⟨pm, ?_⟩
        rw [List.getD_eq_getElem?_getD] at hpm
        rw [sdpkpp_while1]
        simp [hge, ecu, eidx, hpm]
    · rw [if_neg hge] at h
      simp only [Option.some.injEq] at h
      subst h
      refine ⟨prev, ?_⟩
      rw [sdpkpp_while1]
      simp [hge]

/-- the state `sdpkpp` enters its sweep with, as the translated text builds it -/
def initT (ms : List M) (k : Nat) : List (Nat × Nat × Nat × Nat × Nat × Nat) × List (Nat × Int) × (Nat × Int) :=
  ((Model.Fenwick.new dfltPP (nFrom k 0 ms)).map toT, List.replicate (2 * ms.length) (0, 0), (k, 0))

/-- the state the model's sweep ends in, in the representation of the translated text -/
def finalT (ms : List M) (k msc gO gE : Nat) : List (Nat × Nat × Nat × Nat × Nat × Nat) × List (Nat × Int) × (Nat × Int) :=
  ((Model.Sdpkpp.sweep ms k msc gO gE).tree.map toT, (Model.Sdpkpp.sweep ms k msc gO gE).dp, (Model.Sdpkpp.sweep ms k msc gO gE).best)

/-- **`sdpkpp` as written in the source = the mirror model, given that its sweep loop is** (`hsw`: the translated loop
`sdpkpp_for3` over the sorted events computes the model's sweep — the part that is *not* proved yet): the assertion on the
gap parameters, `(-gap_open) as u32`, the sortedness assertion, the event list, the sort (by contract), `MaxBitTree::new`,
`dp.resize`, the traceback loop and the result struct are as in the model; no panic outside the sweep. -/
theorem sdpkpp_eq_model_of_sweep (sortEv : List Ev → List Ev) (bsM : List M → M → Except Nat Nat) (bsN : List Nat → Nat → Except Nat Nat)
    (hsort : SortOk sortEv) (ms : List M) (k msc gO gE : Nat) (hk : 0 < k) (hs : ms.Pairwise lexLt) (hB : Bnd ms k)
    (hgo : gO < 2 ^ 31) (hge : gE < 2 ^ 31)
    (hsw : List.foldlM (sdpkpp_for3 sortEv bsM bsN ms k msc gO gE) (initT ms k) (sortedEvents ms k) = Res.ok (finalT ms k msc gO gE)) :
    ∃ r, Model.Sdpkpp.sdpkpp ms k msc gO gE = .ok r ∧
      Gen.SrcSdpkpp.sdpkpp sortEv bsM bsN ms k msc (-(gO : Int)) (-(gE : Int)) = Res.ok (r.path, r.score, r.dp) := by
  cases hms : ms with
  | nil => exact ⟨{ path := [], score := 0, dp := [] }, by simp [Model.Sdpkpp.sdpkpp], by simp [Gen.SrcSdpkpp.sdpkpp]⟩
  | cons m0 rest0 =>
    rw [← hms]
    have hne : 0 < ms.length := by rw [hms]; simp
    have hemp : ms.isEmpty = false := by rw [hms]; rfl
    have hsorted : sortedStrict ms = true := (sortedStrict_iff ms).mpr hs
    have hlen := hB.len
    obtain ⟨p, hp, hb2⟩ := (sweepS_inv (msc := msc) (go := gO) (ge := gE) hk hne).best
    obtain ⟨tb, ht, hall, -, -⟩ := traceS_spec (msc := msc) (go := gO) (ge := gE) hk hs hne p hp (ms.length + 1) (by omega)
    refine ⟨{ path := (p :: tb).reverse, score := (Model.Sdpkpp.sweep ms k msc gO gE).best.1,
              dp := (Model.Sdpkpp.sweep ms k msc gO gE).dp }, ?_, ?_⟩
    · unfold Model.Sdpkpp.sdpkpp
      simp only [hemp, hsorted, Bool.false_eq_true, if_false, Bool.not_true, hb2, ht]
    · have hk32 : k < 2 ^ 32 := by have := (hB.xy m0 (by rw [hms]; simp)).1; omega
      have ek : Rs.cast 32 k = k := Nat.mod_eq_of_lt hk32
      have eas : (decide (-(gO : Int) ≤ 0) && decide (-(gE : Int) ≤ 0)) = true := by simp
      have en1 : Rs.ineg 32 (-(gO : Int)) = Res.ok (gO : Int) := by
        rw [Rs.ineg_ok (by unfold Rs.InS; simp; omega)]; simp
      have en2 : Rs.ineg 32 (-(gE : Int)) = Res.ok (gE : Int) := by
        rw [Rs.ineg_ok (by unfold Rs.InS; simp; omega)]; simp
      have ec1 : Rs.castUnsigned 32 (gO : Int) = gO := Rs.castUnsigned_natCast (by omega)
      have ec2 : Rs.castUnsigned 32 (gE : Int) = gE := Rs.castUnsigned_natCast (by omega)
      have e1 := sdp_for1_ok sortEv bsM bsN ms hs
      have e2 := sdp_for2_fold sortEv bsM bsN ms k ms 0 [] 0 hB.xy (by omega)
      rw [List.nil_append] at e2
      have e3 := sort_events sortEv hsort ms k
      have e4 : RbV.Gen.SrcFenwickNew.new ((0, 0, 0, 0, 0, 0) : Nat × Nat × Nat × Nat × Nat × Nat) (nFrom k 0 ms)
          = Res.ok ((Model.Fenwick.new dfltPP (nFrom k 0 ms)).map toT) := by
        rw [fenwickNew_eq_model _ _ (by have := nFrom_lt hB; omega)]
        simp [Model.Fenwick.new, toT, dfltPP]
      have e5 : Rs.resize ([] : List (Nat × Int)) (sortedEvents ms k).length (0, (0 : Int)) = List.replicate (2 * ms.length) (0, 0) := by
        simp [Rs.resize, sortedEvents_length]
      have hdpl : (Model.Sdpkpp.sweep ms k msc gO gE).dp.length = 2 * ms.length :=
        (sweepS_inv (msc := msc) (go := gO) (ge := gE) hk hne).len_dp
      obtain ⟨pm, e7⟩ := sdp_while_eq sortEv bsM bsN (Model.Sdpkpp.sweep ms k msc gO gE).dp (by omega) (ms.length + 1) (p : Int) []
        (p :: tb) ht (fun i hi => by have := hall i hi; omega)
      have hbest : (Model.Sdpkpp.sweep ms k msc gO gE).best = ((Model.Sdpkpp.sweep ms k msc gO gE).best.1, (p : Int)) := by rw [← hb2]
      unfold initT at hsw
      unfold finalT at hsw
      unfold Gen.SrcSdpkpp.sdpkpp
      simp only [hemp, Bool.false_eq_true, if_false, ek, eas, Rs.assert, if_true, en1, en2, ec1, ec2, e1, e2, e3, e4, e5, hsw,
        Res.ok_bind, Res.pure_eq_ok, bind_pure_comp]
      rw [hbest]
      simp only [e7, Res.ok_bind, List.nil_append, Functor.map, Res.bind]

/-- **`sparse::sdpkpp` as written in the source = the mirror model** (path, score, the whole `dp_vector`), for every strictly
sorted match list, `k ≥ 1`, gap parameters `-gO`, `-gE` and sizes `BndS`: no panic — in particular `cur_x - prev_x` /
`cur_y - prev_y` never underflow (a record read from the tree belongs to a match that ended at or before the start in both
coordinates), no `u32` product or sum overflows — and the traceback ends by its own condition. -/
theorem sdpkpp_eq_model (sortEv : List Ev → List Ev) (bsM : List M → M → Except Nat Nat) (bsN : List Nat → Nat → Except Nat Nat)
    (hsort : SortOk sortEv) (hbs : BSearchOk bsM) (ms : List M) (k msc gO gE : Nat) (hk : 0 < k) (hs : ms.Pairwise lexLt)
    (hS : BndS ms k msc gO gE) :
    ∃ r, Model.Sdpkpp.sdpkpp ms k msc gO gE = .ok r ∧
      Gen.SrcSdpkpp.sdpkpp sortEv bsM bsN ms k msc (-(gO : Int)) (-(gE : Int)) = Res.ok (r.path, r.score, r.dp) :=
  sdpkpp_eq_model_of_sweep sortEv bsM bsN hsort ms k msc gO gE hk hs hS.base hS.hgO hS.hgE
    (sdp_for3_fold sortEv bsM bsN hbs hS hk hs (sortedEvents ms k) [] (Model.Sdpkpp.initSt ms k) (by simp)
      (invB_init ms k msc gE))

end RbV.Thm.GenSrcSdpkpp
