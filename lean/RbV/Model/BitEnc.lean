import RbV.Spec.Containers
/-
C18 [A] — mirror model of `bio::data_structures::bitenc::BitEnc` (src/data_structures/bitenc.rs).

`storage : Vec<u32>` is a `List Nat` (every block `< 2^32`; the `u32` truncation of `<<` is written out
as `% 2^32`), `len` the number of symbols.  `width`, `mask`, `usable_bits_per_block` are functions of `w`.
Every function follows the Rust body statement by statement.  `push_values` follows the code **with the
two corrections of `proposed_fixes/C18-push-values.patch`** (fill-up loop bounded by the usable bits,
value masked before it is replicated); on the unchanged tree the Rust `push_values` deviates from this
model exactly on the histories recorded in `known/C18.json`.
Core Lean only.
-/
namespace RbV.Model.BitEnc
open RbV.Spec.BitEnc (Op)

def U32 : Nat := 2 ^ 32

structure St where
  storage : List Nat
  len : Nat
  deriving Repr, DecidableEq

/-- `fn mask(width) -> u32 { (1 << width) - 1 }` -/
def mask (w : Nat) : Nat := (1 <<< w) - 1

/-- `usable_bits_per_block: 32 - 32 % width` -/
def usable (w : Nat) : Nat := 32 - 32 % w

/-- `BitEnc::new(width)` -/
def new : St := { storage := [], len := 0 }

/-- `fn addr(&self, i) -> (block, bit)` -/
def addr (w i : Nat) : Nat × Nat :=
  let k := i * w
  (k / usable w, k % usable w)

/-- `fn get_by_addr`: `((self.storage[block] >> bit) & self.mask) as u8` -/
def getByAddr (w : Nat) (st : List Nat) (block bit : Nat) : Nat :=
  ((st.getD block 0) >>> bit) &&& mask w

/-- the three read-modify-write statements of `set_by_addr` on one block -/
def rmw (w x bit value : Nat) : Nat :=
  let m := (mask w <<< bit) % U32          -- let mask = self.mask << bit;
  let x1 := x ||| m                        -- self.storage[block] |= mask;
  let x2 := x1 ^^^ m                       -- self.storage[block] ^= mask;
  x2 ||| (((value &&& mask w) <<< bit) % U32)   -- … |= (u32::from(value) & self.mask) << bit;

/-- `fn set_by_addr(&mut self, block, bit, value)` (Rust panics when `block` is out of bounds; here the
list is returned unchanged and the theorems carry the bound) -/
def setByAddr (w : Nat) (st : List Nat) (block bit value : Nat) : List Nat :=
  st.set block (rmw w (st.getD block 0) bit value)

/-- `pub fn push(&mut self, value)` -/
def push (w : Nat) (s : St) (value : Nat) : St :=
  let (block, bit) := addr w s.len
  let st := if bit = 0 then s.storage ++ [0] else s.storage
  { storage := setByAddr w st block bit value, len := s.len + 1 }

/-- the fill-up loop `for bit in (bit..usable).step_by(width).take(n) { set_by_addr; n -= 1; len += 1 }`;
returns the state and the remaining `n` -/
def fillLoop (w block value : Nat) : Nat → Nat → St → St × Nat
  | _, 0, s => (s, 0)
  | bit, n + 1, s =>
    if bit < usable w then
      fillLoop w block value (bit + w) n
        { storage := setByAddr w s.storage block bit value, len := s.len + 1 }
    else (s, n + 1)

/-- `for _ in 0..32 / width { value_block |= v; v <<= width; }` -/
def valueBlockLoop (w : Nat) : Nat → Nat → Nat → Nat
  | 0, _, acc => acc
  | k + 1, v, acc => valueBlockLoop w k ((v <<< w) % U32) (acc ||| v)

def valueBlock (w value : Nat) : Nat := valueBlockLoop w (32 / w) (value &&& mask w) 0

/-- `Vec::resize(new_len, x)` -/
def resize (st : List Nat) (n x : Nat) : List Nat := st.take n ++ List.replicate (n - st.length) x

/-- `pub fn push_values(&mut self, n, value)` (corrected version, see the header) -/
def pushValues (w : Nat) (s : St) (n value : Nat) : St :=
  let (block, bit) := addr w s.len
  let (s1, n1) := if bit > 0 then fillLoop w block value bit n s else (s, n)
  if n1 > 0 then
    let vb := valueBlock w value
    let i := s1.len + n1
    let (block, bit) := addr w i
    let st := resize s1.storage block vb
    let st := if bit > 0 then st ++ [vb >>> (usable w - bit)] else st
    { storage := st, len := i }
  else s1

/-- `pub fn set(&mut self, i, value)` -/
def set (w : Nat) (s : St) (i value : Nat) : St :=
  let (block, bit) := addr w i
  { s with storage := setByAddr w s.storage block bit value }

/-- `pub fn get(&self, i) -> Option<u8>` -/
def get (w : Nat) (s : St) (i : Nat) : Option Nat :=
  if i ≥ s.len then none
  else
    let (block, bit) := addr w i
    some (getByAddr w s.storage block bit)

/-- `pub fn clear(&mut self)` -/
def clear (_s : St) : St := { storage := [], len := 0 }

/-- `nr_blocks` -/
def nrBlocks (s : St) : Nat := s.storage.length

/-- one operation of a history -/
def step (w : Nat) (s : St) : Op → St
  | .push v => push w s v
  | .pushValues n v => pushValues w s n v
  | .set i v => set w s i v
  | .get _ => s
  | .iter => s
  | .clear => clear s

/-- `iter()`: `get(0), get(1), …` until `None` -/
def toList (w : Nat) (s : St) : List Nat :=
  (List.range s.len).map (fun i => getByAddr w s.storage (addr w i).1 (addr w i).2)

end RbV.Model.BitEnc
