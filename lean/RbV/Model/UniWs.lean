import RbV.Model.Fasta
import RbV.Model.Fastq
/-!
# `char::is_whitespace` / `str::trim_end` / `splitn(2, char::is_whitespace)` on UTF-8 bytes  (C11)

Core Lean only.  Rust's `char::is_whitespace` is the Unicode `White_Space` property: U+0009…U+000D, U+0020, U+0085,
U+00A0, U+1680, U+2000…U+200A, U+2028, U+2029, U+202F, U+205F, U+3000.  On a *valid UTF-8* string the encodings of
these characters can only begin at a character boundary (they start with an ASCII byte or a lead byte), so scanning
the bytes is scanning the characters.  `Txt` bundles the text functions the reader mirrors use; `Txt.ascii` are the
ones of the list models (`Fasta.lean`), `Txt.unicode` the ones of the Rust code.
-/
namespace RbV.Fastx

/-- `b0 b1` encodes U+0085 (NEL) or U+00A0 (NBSP) -/
def uws2 (b0 b1 : Nat) : Bool := b0 == 0xC2 && (b1 == 0x85 || b1 == 0xA0)

/-- `b0 b1 b2` encodes U+1680, U+2000…U+200A, U+2028, U+2029, U+202F, U+205F or U+3000 -/
def uws3 (b0 b1 b2 : Nat) : Bool :=
  (b0 == 0xE1 && b1 == 0x9A && b2 == 0x80) ||
  (b0 == 0xE2 && b1 == 0x80 && ((0x80 ≤ b2 && b2 ≤ 0x8A) || b2 == 0xA8 || b2 == 0xA9 || b2 == 0xAF)) ||
  (b0 == 0xE2 && b1 == 0x81 && b2 == 0x9F) ||
  (b0 == 0xE3 && b1 == 0x80 && b2 == 0x80)

/-- byte length of the `char::is_whitespace` character encoded at the head of the string (0: none) -/
def wsLenU : Bytes → Nat
  | [] => 0
  | b0 :: r =>
    if isWs b0 then 1
    else match r with
      | [] => 0
      | b1 :: r1 =>
        if uws2 b0 b1 then 2
        else match r1 with
          | [] => 0
          | b2 :: _ => if uws3 b0 b1 b2 then 3 else 0

/-- the string consists of white-space characters only -/
def allWsU : Bytes → Bool
  | [] => true
  | b0 :: r =>
    if isWs b0 then allWsU r
    else match r with
      | [] => false
      | b1 :: r1 =>
        if uws2 b0 b1 then allWsU r1
        else match r1 with
          | [] => false
          | b2 :: r2 => if uws3 b0 b1 b2 then allWsU r2 else false

/-- `str::trim_end` on valid UTF-8: cut where the rest is white space only (a white-space encoding starts with an
ASCII byte or a lead byte, so it can only begin at a character boundary) -/
def trimEndU : Bytes → Bytes
  | [] => []
  | b :: r => if allWsU (b :: r) then [] else b :: trimEndU r

/-- `s.splitn(2, char::is_whitespace)` on valid UTF-8 -/
def splitWsU : Bytes → Bytes × Option Bytes
  | [] => ([], none)
  | b :: r =>
    if wsLenU (b :: r) = 0 then ((b :: (splitWsU r).1), (splitWsU r).2)
    else ([], some ((b :: r).drop (wsLenU (b :: r))))

def faHeaderU (l : Bytes) : Bytes × Option Bytes := splitWsU (trimEndU l.tail)
def fqHeaderU (l : Bytes) : Bytes × Option Bytes := splitn2 (· == 32) (trimEndU l.tail)

/-- lead bytes of the non-ASCII white-space characters -/
def isUwsLead (b : Nat) : Bool := b == 0xC2 || b == 0xE1 || b == 0xE2 || b == 0xE3

/-- no byte that could start a non-ASCII white-space character -/
def NoUws (l : Bytes) : Prop := ∀ b ∈ l, isUwsLead b = false

instance (l : Bytes) : Decidable (NoUws l) := by unfold NoUws; infer_instance

/-- the text functions of the readers: `trim_end`, the FASTA and the FASTQ header-line parser -/
structure Txt where
  trim : Bytes → Bytes
  faHdr : Bytes → Bytes × Option Bytes
  fqHdr : Bytes → Bytes × Option Bytes
  trim_nil : trim [] = []

/-- ASCII white space only (the list models of `Fasta.lean` / `Fastq.lean`) -/
def Txt.ascii : Txt := { trim := trimEnd, faHdr := faHeader, fqHdr := fqHeader, trim_nil := rfl }

/-- Unicode white space (the Rust code) -/
def Txt.unicode : Txt := { trim := trimEndU, faHdr := faHeaderU, fqHdr := fqHeaderU, trim_nil := rfl }

end RbV.Fastx
