import RbV.Model.LFMapping
/-!
# A decidable (and cheap) sufficient condition for `LF.Sorted` (C05 [B])

`sortedAllB t sa` looks at adjacent rows only (plus one permutation test); `sortedAllB_sound` lifts it to
`LF.Sorted t sa a` for every symbol `a` different from the last text symbol (the sentinel).  The driver evaluates it
on the suffix array the implementation printed, so that on each such case `RbV.Thm.C05.backward_search_correct`
applies to the mirror model.
-/
namespace RbV.LF
open RbV

/-- first symbol of the suffix in row `i` -/
def firstSym (t sa : List Nat) (i : Nat) : Nat := t.getD (sa.getD i 0) 0

/-- row of the text position following the one in row `i` -/
def nextRow (sa : List Nat) (i : Nat) : Nat := sa.idxOf (sa.getD i 0 + 1)

/-- the condition on rows `i`, `i+1` -/
def adjOk (t sa : List Nat) (i : Nat) : Bool :=
  decide (firstSym t sa i ≤ firstSym t sa (i + 1)) &&
  (firstSym t sa i != firstSym t sa (i + 1) || firstSym t sa i == t.getD (t.length - 1) 0 ||
    decide (nextRow sa i < nextRow sa (i + 1)))

def sortedAllB (t sa : List Nat) : Bool :=
  sa.isPerm (List.range t.length) && (List.range (sa.length - 1)).all (adjOk t sa)

theorem sortedAllB_sound (t sa : List Nat) (h : sortedAllB t sa = true) (a : Nat)
    (ha : t.getD (t.length - 1) 0 ≠ a) : Sorted t sa a := by
  simp only [sortedAllB, Bool.and_eq_true, List.all_eq_true, List.mem_range] at h
  obtain ⟨hperm, hadj⟩ := h
  have hperm : sa.Perm (List.range t.length) := List.isPerm_iff.mp hperm
  have hnd := sa_nodup hperm
  -- adjacent facts
  have hadj1 : ∀ m, m + 1 < sa.length → firstSym t sa m ≤ firstSym t sa (m + 1) := by
    intro m hm
    have := hadj m (by omega)
    simp only [adjOk, Bool.and_eq_true, decide_eq_true_eq] at this
    exact this.1
  have hadj2 : ∀ m, m + 1 < sa.length → firstSym t sa m = a → firstSym t sa (m + 1) = a →
      nextRow sa m < nextRow sa (m + 1) := by
    intro m hm h1 h2
    have := hadj m (by omega)
    simp only [adjOk, Bool.and_eq_true, Bool.or_eq_true, decide_eq_true_eq, bne_iff_ne, beq_iff_eq] at this
    rcases this.2 with (h3 | h3) | h3
    · exact absurd (h1.trans h2.symm) h3
    · exact absurd (h3.symm.trans h1) ha
    · exact h3
  have hmono : ∀ j i, i < j → j < sa.length → firstSym t sa i ≤ firstSym t sa j := by
    intro j
    induction j with
    | zero => intro i hi; omega
    | succ j ih =>
      intro i hi hj
      by_cases hij : i = j
      · subst hij; exact hadj1 i hj
      · exact Nat.le_trans (ih i (by omega) (by omega)) (hadj1 j hj)
  have hchain : ∀ j i, i < j → j < sa.length → firstSym t sa i = a → firstSym t sa j = a →
      nextRow sa i < nextRow sa j := by
    intro j
    induction j with
    | zero => intro i hi; omega
    | succ j ih =>
      intro i hi hj h1 h2
      by_cases hij : i = j
      · subst hij; exact hadj2 i hj h1 h2
      · have hja : firstSym t sa j = a := by
          have l1 := hmono j i (by omega) (by omega)
          have l2 := hadj1 j hj
          omega
        exact Nat.lt_trans (ih i (by omega) (by omega) h1 hja) (hadj2 j hj hja h2)
  have hrow : ∀ i i', i' < sa.length → sa.getD i' 0 = sa.getD i 0 + 1 → nextRow sa i = i' := by
    intro i i' hi' he
    unfold nextRow
    rw [← he]
    simp only [List.getD_eq_getElem?_getD, List.getElem?_eq_getElem hi', Option.getD_some]
    exact hnd.idxOf_getElem i' hi'
  refine ⟨hperm, fun i j hij hj => hmono j i hij hj, ?_, ha⟩
  intro i j i' j' hij hj hi' hj' h1 h2 e1 e2
  have := hchain j i hij hj h1 h2
  rw [hrow i i' hi' e1, hrow j j' hj' e2] at this
  exact this

/-- non-vacuity: the suffix array of `GATTACA$` (`$`=0 A=1 C=2 G=3 T=4) passes, a wrong array does not -/
example : sortedAllB [3, 1, 4, 4, 1, 2, 1, 0] [7, 6, 4, 1, 5, 0, 3, 2] = true := by decide
example : sortedAllB [3, 1, 4, 4, 1, 2, 1, 0] [7, 4, 6, 1, 5, 0, 3, 2] = false := by decide
/-- two sentinels (`A$A$`): both orders of the sentinel rows are accepted -/
example : sortedAllB [1, 0, 1, 0] [3, 1, 2, 0] = true := by decide
example : sortedAllB [1, 0, 1, 0] [1, 3, 0, 2] = true := by decide

end RbV.LF
