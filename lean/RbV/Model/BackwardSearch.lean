import RbV.Ref.BS
/-!
# Mirror model of `FMIndexable::backward_search` (C05 [B])

`loop` / `backwardSearch` follow the Rust code line by line over an abstract `less : symbol → Nat` and
`occ : row → symbol → Nat` (`occ r a` = number of `a` in `bwt[0..=r]`), exactly the two trait methods the Rust
function uses.  `usize` is modelled by `Nat`; the only subtraction that could underflow is `less + occ(r,a) - 1`,
which is safe under the property's precondition (the sentinel is smaller than every pattern symbol, so `less a ≥ 1`).

```rust
let (mut l, mut r) = (0, self.bwt().len() - 1);
let (mut pl, mut pr) = (l, r);
let mut matched_len = 0;
let mut complete_match = true;
for &a in pattern.rev() {
    let less = self.less(a);
    pl = l; pr = r;
    l = less + if l > 0 { self.occ(l - 1, a) } else { 0 };
    r = less + self.occ(r, a) - 1;
    if l > r { complete_match = false; break; }
    matched_len += 1;
}
if matched_len > 0 { if complete_match { Complete(l, r+1) } else { Partial(pl, pr+1, matched_len) } } else { Absent }
```
-/
namespace RbV.BSModel
open RbV

structure St where
  l : Nat
  r : Nat
  pl : Nat
  pr : Nat
  matched : Nat
  complete : Bool
  deriving Repr, DecidableEq

/-- the `for` loop over the reversed pattern (`rev` = the symbols still to be processed, last pattern symbol first) -/
def loop (less : Nat → Nat) (occ : Nat → Nat → Nat) : List Nat → St → St
  | [], s => s
  | a :: rest, s =>
    let l' := less a + (if s.l > 0 then occ (s.l - 1) a else 0)
    let r' := less a + occ s.r a - 1
    if l' > r' then
      { l := l', r := r', pl := s.l, pr := s.r, matched := s.matched, complete := false }
    else
      loop less occ rest { l := l', r := r', pl := s.l, pr := s.r, matched := s.matched + 1, complete := s.complete }

theorem loop_cons (less : Nat → Nat) (occ : Nat → Nat → Nat) (a : Nat) (rest : List Nat) (s : St) :
    loop less occ (a :: rest) s =
      if less a + (if s.l > 0 then occ (s.l - 1) a else 0) > less a + occ s.r a - 1 then
        { l := less a + (if s.l > 0 then occ (s.l - 1) a else 0), r := less a + occ s.r a - 1,
          pl := s.l, pr := s.r, matched := s.matched, complete := false }
      else
        loop less occ rest
          { l := less a + (if s.l > 0 then occ (s.l - 1) a else 0), r := less a + occ s.r a - 1,
            pl := s.l, pr := s.r, matched := s.matched + 1, complete := s.complete } := rfl

def finish (s : St) : BSRes :=
  if s.matched > 0 then
    if s.complete then .complete s.l (s.r + 1) else .part s.pl (s.pr + 1) s.matched
  else .absent

/-- `backward_search` on an index of `n` rows -/
def backwardSearch (less : Nat → Nat) (occ : Nat → Nat → Nat) (n : Nat) (pat : List Nat) : BSRes :=
  finish (loop less occ pat.reverse ⟨0, n - 1, 0, n - 1, 0, true⟩)

/-! ### what the index has to provide: the LF-mapping step

`IvOf t sa P lo hi`: the rows `lo ≤ row < hi` are exactly the rows whose suffix starts with `P`. -/

def IvOf (t sa P : List Nat) (lo hi : Nat) : Prop :=
  lo ≤ hi ∧ hi ≤ sa.length ∧ ∀ row, row < sa.length → ((lo ≤ row ∧ row < hi) ↔ OccursAt P t (sa.getD row 0))

/-- every text position is held by some row -/
def Surj (t sa : List Nat) : Prop := ∀ i, i < t.length → ∃ row, row < sa.length ∧ sa.getD row 0 = i

/-- the LF-mapping step for symbol `a`: from the (non-empty) row interval of `P` to the row interval of `a·P` -/
def LFStep (t sa : List Nat) (less : Nat → Nat) (occ : Nat → Nat → Nat) (a : Nat) : Prop :=
  ∀ P lo hi, IvOf t sa P lo hi → lo < hi →
    less a + (if lo > 0 then occ (lo - 1) a else 0) ≤ less a + occ (hi - 1) a ∧
    IvOf t sa (a :: P) (less a + (if lo > 0 then occ (lo - 1) a else 0)) (less a + occ (hi - 1) a)

theorem ivOf_nil (t sa : List Nat) (hperm : ∀ row, row < sa.length → sa.getD row 0 ≤ t.length) :
    IvOf t sa [] 0 sa.length := by
  refine ⟨Nat.zero_le _, Nat.le_refl _, fun row hrow => ?_⟩
  simp only [OccursAt, List.length_nil, Nat.add_zero, List.take_zero, and_true, Nat.zero_le, true_and]
  exact ⟨fun _ => hperm row hrow, fun _ => hrow⟩

theorem ivOf_occurs (t sa P : List Nat) (lo hi : Nat) (h : IvOf t sa P lo hi) (hne : lo < hi) : Occurs P t := by
  obtain ⟨_, h2, h3⟩ := h
  exact ⟨sa.getD lo 0, (h3 lo (by omega)).mp ⟨Nat.le_refl _, hne⟩⟩

theorem ivOf_empty_not_occurs (t sa P : List Nat) (lo : Nat) (hs : Surj t sa) (hP : P ≠ [])
    (h : IvOf t sa P lo lo) : ¬ Occurs P t := by
  rintro ⟨i, hi⟩
  have hlt : i < t.length := by
    have := hi.1
    cases P with
    | nil => exact absurd rfl hP
    | cons a q => simp only [List.length_cons] at this; omega
  obtain ⟨row, hrow, he⟩ := hs i hlt
  have := (h.2.2 row hrow).mpr (he ▸ hi)
  omega

theorem ivOf_mapsTo (t sa P : List Nat) (lo hi : Nat) (hs : Surj t sa) (hP : P ≠ [])
    (h : IvOf t sa P lo hi) : MapsTo sa lo hi P t := by
  obtain ⟨h1, h2, h3⟩ := h
  refine ⟨h1, h2, fun i => ⟨fun hm => ?_, fun ho => ?_⟩⟩
  · obtain ⟨row, hr1, hr2, hr3⟩ := row_of_mem_ivMap sa lo hi i hm
    rw [← hr3]; exact (h3 row (by omega)).mp ⟨hr1, hr2⟩
  · have hlt : i < t.length := by
      have := ho.1
      cases P with
      | nil => exact absurd rfl hP
      | cons a q => simp only [List.length_cons] at this; omega
    obtain ⟨row, hrow, he⟩ := hs i hlt
    have := (h3 row hrow).mpr (he ▸ ho)
    rw [← he]; exact mem_ivMap_of_row sa lo hi row this.1 this.2 hrow

/-! ### the loop invariant -/

/-- outcome of the loop, in terms of the pattern -/
def Final (t sa pat : List Nat) (s : St) : Prop :=
  (s.complete = true ∧ s.matched = pat.length ∧ s.l ≤ s.r ∧ IvOf t sa pat s.l (s.r + 1)) ∨
  (s.complete = false ∧ s.matched < pat.length ∧ s.pl ≤ s.pr ∧
    IvOf t sa (suffix pat s.matched) s.pl (s.pr + 1) ∧ ¬ Occurs (suffix pat (s.matched + 1)) t)

theorem suffix_of_append (rest P : List Nat) : suffix (rest ++ P) P.length = P := by
  simp [suffix]

theorem loop_spec (t sa pat : List Nat) (less : Nat → Nat) (occ : Nat → Nat → Nat)
    (hs : Surj t sa) (hless : ∀ a ∈ pat, 1 ≤ less a) (hLF : ∀ a ∈ pat, LFStep t sa less occ a) :
    ∀ (rev P : List Nat) (s : St), rev.reverse ++ P = pat →
      s.matched = P.length → s.complete = true → s.l ≤ s.r → IvOf t sa P s.l (s.r + 1) →
      Final t sa pat (loop less occ rev s) := by
  intro rev
  induction rev with
  | nil =>
    intro P s hpat hm hc hle hiv
    simp only [List.reverse_nil, List.nil_append] at hpat
    subst hpat
    exact Or.inl ⟨hc, hm, hle, hiv⟩
  | cons a rest ih =>
    intro P s hpat hm hc hle hiv
    have hpat' : rest.reverse ++ (a :: P) = pat := by
      rw [← hpat]; simp
    have ha : a ∈ pat := by rw [← hpat']; simp
    have hstep := hLF a ha P s.l (s.r + 1) hiv (by omega)
    simp only [Nat.add_sub_cancel] at hstep
    obtain ⟨hle', hiv'⟩ := hstep
    have hl1 := hless a ha
    rw [loop_cons]
    generalize (less a + if s.l > 0 then occ (s.l - 1) a else 0) = L at hle' hiv' ⊢
    by_cases hgt : L > less a + occ s.r a - 1
    · -- empty interval: break
      rw [if_pos hgt]
      right
      have hsufP : suffix pat P.length = P := by rw [← hpat]; exact suffix_of_append _ _
      have hsufaP : suffix pat (P.length + 1) = a :: P := by
        rw [← hpat']; exact suffix_of_append rest.reverse (a :: P)
      have hlen : P.length < pat.length := by rw [← hpat']; simp; omega
      refine ⟨rfl, by simpa [hm] using hlen, hle, ?_, ?_⟩
      · simp only [hm, hsufP]; exact hiv
      · simp only [hm, hsufaP]
        have heq : L = less a + occ s.r a := by omega
        rw [heq] at hiv'
        exact ivOf_empty_not_occurs t sa (a :: P) _ hs (by simp) hiv'
    · rw [if_neg hgt]
      have hr1 : less a + occ s.r a - 1 + 1 = less a + occ s.r a := by omega
      exact ih (a :: P)
        { l := L, r := less a + occ s.r a - 1, pl := s.l, pr := s.r, matched := s.matched + 1, complete := s.complete }
        hpat' (by simp [hm]) hc (by simp only; omega) (by simp only; rw [hr1]; exact hiv')

/-- **Backward search is correct whenever the index provides the LF-mapping step** (loop-invariant part of the
classical argument: the remembered last non-empty interval, the matched length, the completeness flag). -/
theorem backwardSearch_correct_of_LF (t sa pat : List Nat) (less : Nat → Nat) (occ : Nat → Nat → Nat)
    (hp : pat ≠ []) (hn : 0 < sa.length)
    (hrange : ∀ row, row < sa.length → sa.getD row 0 ≤ t.length)
    (hs : Surj t sa) (hless : ∀ a ∈ pat, 1 ≤ less a) (hLF : ∀ a ∈ pat, LFStep t sa less occ a) :
    BSProp t sa pat (backwardSearch less occ sa.length pat) := by
  have h0 : IvOf t sa [] 0 (sa.length - 1 + 1) := by
    have : sa.length - 1 + 1 = sa.length := by omega
    rw [this]; exact ivOf_nil t sa hrange
  have hfin := loop_spec t sa pat less occ hs hless hLF pat.reverse [] ⟨0, sa.length - 1, 0, sa.length - 1, 0, true⟩
    (by simp) rfl rfl (Nat.zero_le _) h0
  have hlen : 0 < pat.length := by
    cases pat with
    | nil => exact absurd rfl hp
    | cons a q => simp
  unfold backwardSearch finish
  rcases hfin with ⟨hc, hm, hle, hiv⟩ | ⟨hc, hm, hle, hiv, hno⟩
  · rw [if_pos (by omega), if_pos hc]
    exact ⟨ivOf_occurs t sa pat _ _ hiv (by omega), ivOf_mapsTo t sa pat _ _ hs hp hiv⟩
  · split
    · rename_i hpos
      rw [if_neg (by simp [hc])]
      refine ⟨hpos, hm, ⟨by omega, ivOf_occurs t sa _ _ _ hiv (by omega), fun l' h1 h2 hocc => ?_⟩, ?_⟩
      · exact hno (occurs_suffix_mono pat t _ l' (by omega) hocc)
      · apply ivOf_mapsTo t sa _ _ _ hs _ hiv
        intro he
        have : (suffix pat (loop less occ pat.reverse ⟨0, sa.length - 1, 0, sa.length - 1, 0, true⟩).matched).length = 0 := by
          rw [he]; rfl
        simp only [suffix, List.length_drop] at this
        omega
    · rename_i hz
      have hz' : (loop less occ pat.reverse ⟨0, sa.length - 1, 0, sa.length - 1, 0, true⟩).matched = 0 := by omega
      rw [hz'] at hno
      exact hno

end RbV.BSModel
