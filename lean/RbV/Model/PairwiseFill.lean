import RbV.Spec.Align
/-!
Functional mirror of `bio::alignment::pairwise::Aligner::custom` (src/alignment/pairwise/mod.rs): matrix fill,
the two loops over the last column, traceback.  Core Lean only, no `Id.run do`, no arrays: every loop of the Rust text
is a recursion on its index and every `&mut` a returned value, so that the column invariant can be proved by
induction over `j` and, inside a column, over `i` (`RbV/Lemmas/Fill*.lean`; theorems `fill_score_eq_opt` — the score
is the optimum — and `custom_model_accepted` — the traceback terminates and its output passes `accept` — in
`RbV/Thm/C01.lean`).  The driver runs `custom` on every call next to the implementation (`fill-model=impl`,
`fill-path=impl`; a difference is a `drift-*` tag).

Correspondence with the Rust text (same comparisons, same strictness `>`, same order of the candidates):

* `S[k][..]`, `I[k][..]`, `D[k][..]` (rolling, `k = j % 2`): one `List Row` per column `j`; the row `i` holds
  `S[j%2][i]`, `I[j%2][i]`, `D[j%2][i]` as they stand at the end of iteration `j` of the outer loop, together with
  `Sn[i]` as it stands after that iteration.  `colAt j` is column `j`; `colAt 0` is the initialisation loop
  (`for k in 0..2`: both iterations write the same values; the `k = 1` copy is overwritten by column 1 before it is read,
  and the second pass over `Sn` finds nothing to improve, so one column is kept).
* `S[curr][m]` doubles as the x-suffix-clip tracker ("Track the score if we do a suffix clip (x) after this
  character"): the register `xm` threaded through the rows is that storage location.  For `i < m` it is distinct from
  the cell `S[curr][i]` being computed; for `i = m` the cell *is* the register (the `if i == m` selections below are
  exactly this aliasing; with `m = 0` cell 0 is the register).
* `upd cand cur` is `if cand > cur { cur = cand }`.
* the two loops after the outer loop ("Handle suffix clipping in the j=n case", "recompute the last column of I") are
  `post1`, `post2` over the last column; the reported score `S[n % 2][m]` is the register after `post2`.

* traceback: every row also carries its `TracebackCell` (`RowT.ts/ti/td` = S, I, D fields; the move codes are the
  inductive type `Tb` — that the nine `TB_*` constants are distinct values that fit the disjoint 4-bit fields is
  `tb_codes_wellformed` / `tb_get_after_set` of `Thm/C01.lean`), `Ly[i]` and the register `Lx[j]`, written under exactly
  the conditions of the Rust text; `tbStep`/`tbLoop` are the traceback `loop` (with fuel) and `custom` the whole
  function.  `i32` is `Int`.
-/
namespace RbV.Model.PairwiseFill
open RbV.Align

/-- `if cand > cur { cur = cand }`: the new content of `cur` -/
def upd (cand cur : Int) : Int := if cand > cur then cand else cur

/-- the move codes `TB_START … TB_YCLIP_SUFFIX` -/
inductive Tb | start | ins | del | subst | mat | xpre | xsuf | ypre | ysuf
deriving Repr, Inhabited, DecidableEq

/-- traceback part of a row: the three fields of `traceback[i][j]`, `Ly[i]` after this row, `Lx[j]` after this row -/
structure RowT where
  ts : Tb
  ti : Tb
  td : Tb
  ly : Nat
  lx : Nat
deriving Repr, Inhabited, DecidableEq

/-- row `i` of a column, with the registers as they stand when the row is finished -/
@[ext] structure Row where
  /-- `S[curr][i]` -/
  s : Int
  /-- `I[curr][i]` -/
  i : Int
  /-- `D[curr][i]` -/
  d : Int
  /-- `Sn[i]` after this row -/
  sn : Int
  /-- `S[curr][m]` after this row (the x-suffix-clip tracker; for `i = m` equal to `s`) -/
  xm : Int
  t : RowT
deriving Repr, Inhabited, DecidableEq

/-- `[r, step (i+1) r, step (i+2) (step (i+1) r), …]` (`k + 1` entries): one pass `for i in i+1 ..= i+k` that keeps
every intermediate state -/
def iter {α : Type} (step : Nat → α → α) : Nat → Nat → α → List α
  | 0, _, r => [r]
  | k + 1, i, r => r :: iter step k (i + 1) (step (i + 1) r)

section
variable (sc : Sc) (cl : Clip) (x y : List Nat)

/-! ### Column 0: `for k in 0..2 { … for i in 1..=m { … } }` -/

/-- `S[k][0] = 0`, `I[k][0] = D[k][0] = MIN_SCORE`, `Sn[0] = yclip_suffix`, `Ly[0] = n`; the register `S[k][m]` is
`MIN_SCORE` unless it is cell 0; `traceback[0][0]` all `TB_START` -/
def row00 : Row :=
  ⟨0, minScore, minScore, cl.ys, if x.length = 0 then 0 else minScore, ⟨.start, .start, .start, y.length, 0⟩⟩

/-- body of `for i in 1..=m` of the initialisation -/
def step0 (i : Nat) (r : Row) : Row :=
  let m := x.length
  let i_score := sc.go + sc.ge * (i : Int)
  let c_score := cl.xp + sc.go + sc.ge
  let iv : Int := if i = 1 then sc.go + sc.ge else if i_score > c_score then i_score else c_score
  let ti : Tb := if i = 1 then .start else if i_score > c_score then .ins else .xpre
  -- `if i == m { tb.set_s_bits(TB_XCLIP_SUFFIX) } else { S[k][i] = MIN_SCORE }`: for `i = m` the cell keeps what the
  -- tracker accumulated
  let base := if i = m then r.xm else minScore
  let ts0 : Tb := if i = m then .xsuf else .start
  let s1 := upd iv base
  let ts1 : Tb := if iv > base then .ins else ts0
  let s2 := upd cl.xp s1
  let ts2 : Tb := if cl.xp > s1 then .xpre else ts1
  -- `if i != m && S[k][i] + xclip_suffix > S[k][m] { S[k][m] = …; Lx[0] = m - i }`
  let xm := if i = m then s2 else upd (s2 + cl.xs) r.xm
  let lx := if i ≠ m ∧ s2 + cl.xs > r.xm then m - i else r.t.lx
  -- `if S[k][i] + yclip_suffix > Sn[i] { Sn[i] = …; Ly[i] = n }` (`Sn[i]` is still `MIN_SCORE`, `Ly[i]` still 0)
  let ly := if s2 + cl.ys > minScore then y.length else 0
  ⟨s2, iv, minScore, upd (s2 + cl.ys) minScore, xm, ⟨ts2, ti, .start, ly, lx⟩⟩

def col0 : List Row := iter (step0 sc cl x y) x.length 0 (row00 cl x y)

/-! ### Column `j ≥ 1`: body of `for j in 1..=n` -/

/-- the block "Handle i = 0 case" (`prev0` = row 0 of the previous column, for `Sn[0]`, `Ly[0]`), followed by
`for i in 1..=m { S[curr][i] = MIN_SCORE }` (which resets the register unless `m = 0`); `Lx[j]` is still 0 -/
def rowJ0 (j : Nat) (prev0 : Row) : Row :=
  let n := y.length
  let d_score := sc.go + sc.ge * (j : Int)
  let c_score := cl.yp + sc.go + sc.ge
  let d0 : Int := if j = 1 then sc.go + sc.ge else if d_score > c_score then d_score else c_score
  let td : Tb := if j = 1 then .start else if d_score > c_score then .del else .ypre
  let s0 := if d0 > cl.yp then d0 else cl.yp
  let ts0 : Tb := if d0 > cl.yp then .del else .ypre
  let sn0 := prev0.sn
  let s0' := if j = n ∧ sn0 > s0 then sn0 else s0
  let ts0' : Tb := if j = n ∧ sn0 > s0 then .ysuf else ts0
  let sn0' := if j = n ∧ sn0 > s0 then sn0 else upd (s0 + cl.ys) sn0
  let ly := if j = n ∧ sn0 > s0 then prev0.t.ly else if s0 + cl.ys > sn0 then n - j else prev0.t.ly
  ⟨s0', minScore, d0, sn0', if x.length = 0 then s0' else minScore, ⟨ts0', .start, td, ly, 0⟩⟩

/-- body of `for i in 1..m + 1` (`prev` = previous column, `r` = row `i − 1` of the current one) -/
def stepJ (j : Nat) (prev : List Row) (i : Nat) (r : Row) : Row :=
  let m := x.length
  let q := y.getD (j - 1) 0
  let p := x.getD (i - 1) 0
  let pr1 := prev.getD (i - 1) default
  let pr := prev.getD i default
  let xclip_score := cl.xp + max cl.yp (sc.go + sc.ge * (j : Int))
  let m_score := pr1.s + sc.w p q
  let i_score := r.i + sc.ge
  let s_score := r.s + sc.go + sc.ge
  let best_i_score := if i_score > s_score then i_score else s_score
  -- `tb.set_i_bits(TB_INS)` / `tb.set_i_bits(self.traceback.get(i - 1, j).get_s_bits())`
  let ti : Tb := if i_score > s_score then .ins else r.t.ts
  let d_score := pr.d + sc.ge
  let s_score2 := pr.s + sc.go + sc.ge
  let best_d_score := if d_score > s_score2 then d_score else s_score2
  let td : Tb := if d_score > s_score2 then .del else pr.t.ts
  -- `tb.set_s_bits(TB_XCLIP_SUFFIX); let mut best_s_score = self.S[curr][i]`: `MIN_SCORE` after the reset, the
  -- tracker for `i = m`
  let b0 := if i = m then r.xm else minScore
  let b1 := upd m_score b0
  let c1 : Tb := if m_score > b0 then (if p = q then .mat else .subst) else .xsuf
  let b2 := upd best_i_score b1
  let c2 : Tb := if best_i_score > b1 then .ins else c1
  let b3 := upd best_d_score b2
  let c3 : Tb := if best_d_score > b2 then .del else c2
  let b4 := upd xclip_score b3
  let c4 : Tb := if xclip_score > b3 then .xpre else c3
  let yclip_score := cl.yp + sc.go + sc.ge * (i : Int)
  let b5 := upd yclip_score b4
  let c5 : Tb := if yclip_score > b4 then .ypre else c4
  -- `S[curr][i] = best_s_score; if S[curr][i] + xclip_suffix > S[curr][m] { S[curr][m] = …; Lx[j] = m - i }`
  let xm1 := if i = m then b5 else r.xm
  let xm2 := upd (b5 + cl.xs) xm1
  let lx := if b5 + cl.xs > xm1 then m - i else r.t.lx
  let s := if i = m then xm2 else b5
  -- `if S[curr][i] + yclip_suffix > Sn[i] { Sn[i] = …; Ly[i] = n - j }`
  let ly := if s + cl.ys > pr.sn then y.length - j else pr.t.ly
  ⟨s, best_i_score, best_d_score, upd (s + cl.ys) pr.sn, xm2, ⟨c5, ti, td, ly, lx⟩⟩

def colStep (j : Nat) (prev : List Row) : List Row :=
  iter (stepJ sc cl x y j prev) x.length 0 (rowJ0 sc cl x y j (prev.getD 0 default))

/-- column `j` at the end of iteration `j` of the outer loop -/
def colAt : Nat → List Row
  | 0 => col0 sc cl x y
  | j + 1 => colStep sc cl x y (j + 1) (colAt j)

/-- all columns `0 ..= n` in one pass (what the run keeps of the matrix: the traceback cells) -/
def allCols : List (List Row) := iter (colStep sc cl x y) y.length 0 (col0 sc cl x y)

/-! ### The two loops over the last column -/

/-- state of the loops over the last column: the cell just written (`S`, `I` and the S/I fields of its traceback
cell) and the registers `S[curr][m]`, S field of `traceback[m][n]`, `Lx[n]` -/
@[ext] structure PSt where
  s : Int
  xm : Int
  iv : Int
  ts : Tb
  ti : Tb
  sm : Tb
  lx : Nat
deriving Repr, Inhabited, DecidableEq

/-- body of `for i in 0..=m` ("Handle suffix clipping in the j=n case"); `p` = state on entry (registers only) -/
def post1Step (col : List Row) (i : Nat) (p : PSt) : PSt :=
  let m := x.length
  let r := col.getD i default
  let cur := if i = m then p.xm else r.s
  let curT : Tb := if i = m then p.sm else r.t.ts
  -- `if Sn[i] > S[curr][i] { S[curr][i] = Sn[i]; traceback[i][j].set_s_bits(TB_YCLIP_SUFFIX) }`
  let s1 := upd r.sn cur
  let t1 : Tb := if r.sn > cur then .ysuf else curT
  let xm1 := if i = m then s1 else p.xm
  let sm1 : Tb := if i = m then t1 else p.sm
  -- `if S[curr][i] + xclip_suffix > S[curr][m] { S[curr][m] = …; Lx[j] = m - i; traceback[m][j].set_s_bits(…) }`
  let xm2 := upd (s1 + cl.xs) xm1
  let sm2 : Tb := if s1 + cl.xs > xm1 then .xsuf else sm1
  let lx := if s1 + cl.xs > xm1 then m - i else p.lx
  ⟨if i = m then xm2 else s1, xm2, r.i, if i = m then sm2 else t1, r.t.ti, sm2, lx⟩

/-- the registers on entry of the first post-loop: `S[curr][m]`, S field of `traceback[m][n]`, `Lx[n]` as the outer loop
left them (the other components are not read) -/
def p1init (col : List Row) : PSt :=
  let rm := col.getD x.length default
  ⟨0, rm.xm, 0, .start, .start, rm.t.ts, rm.t.lx⟩

def post1 (col : List Row) : List PSt :=
  iter (post1Step cl x col) x.length 0 (post1Step cl x col 0 (p1init x col))

/-- body of `for i in 1..=m` ("recompute the last column of I"); `p` = state after row `i − 1`,
`s1` = the column after `post1` -/
def post2Step (s1 : List PSt) (i : Nat) (p : PSt) : PSt :=
  let m := x.length
  let q := s1.getD i default
  let s_score := p.s + sc.go + sc.ge
  -- `if s_score > I[curr][i] { I[curr][i] = s_score; traceback[i][j].set_i_bits(traceback[i-1][j].get_s_bits()) }`
  let iv := if s_score > q.iv then s_score else q.iv
  let ti : Tb := if s_score > q.iv then p.ts else q.ti
  let cur := if i = m then p.xm else q.s
  let curT : Tb := if i = m then p.sm else q.ts
  if s_score > cur then
    let xm1 := if i = m then s_score else p.xm
    let sm1 : Tb := if i = m then .ins else p.sm
    let xm2 := upd (s_score + cl.xs) xm1
    let sm2 : Tb := if s_score + cl.xs > xm1 then .xsuf else sm1
    let lx := if s_score + cl.xs > xm1 then m - i else p.lx
    ⟨if i = m then xm2 else s_score, xm2, iv, if i = m then sm2 else .ins, ti, sm2, lx⟩
  else ⟨cur, p.xm, iv, curT, ti, p.sm, p.lx⟩

/-- row 0 is not touched by the second post-loop; the registers are those the first one left -/
def p2init (s1 : List PSt) : PSt :=
  let q0 := s1.getD 0 default
  let qm := s1.getD x.length default
  ⟨q0.s, qm.xm, q0.iv, q0.ts, q0.ti, qm.sm, qm.lx⟩

def post2 (s1 : List PSt) : List PSt :=
  iter (post2Step sc cl x s1) x.length 0 (p2init x s1)

/-- what the fill leaves behind -/
structure Filled where
  /-- columns `0 ..= n` at the end of the outer loop -/
  cols : List (List Row)
  /-- `S[n % 2][..]`, the last column of the traceback matrix and the registers after the first post-loop -/
  p1 : List PSt
  /-- … and after the second -/
  p2 : List PSt
  /-- `S[n % 2][m]`, the reported score -/
  score : Int

def fill : Filled :=
  let cols := allCols sc cl x y
  let p1 := post1 cl x (cols.getD y.length [])
  let p2 := post2 sc cl x p1
  ⟨cols, p1, p2, (p2.getD x.length default).xm⟩

end

/-! ### The traceback -/

/-- the matrix of traceback cells, `Lx` and `Ly` as the traceback loop finds them -/
structure Table where
  m : Nat
  n : Nat
  /-- `traceback.get(i, j).get_s_bits()` -/
  tS : Nat → Nat → Tb
  tI : Nat → Nat → Tb
  tD : Nat → Nat → Tb
  lx : Nat → Nat
  ly : Nat → Nat

def Filled.table (f : Filled) (m n : Nat) : Table :=
  let cellT (j i : Nat) : RowT := ((f.cols.getD j []).getD i default).t
  { m := m, n := n
    tS := fun i j => if j = n then (f.p2.getD i default).ts else (cellT j i).ts
    tI := fun i j => if j = n then (f.p2.getD i default).ti else (cellT j i).ti
    tD := fun i j => (cellT j i).td
    lx := fun j => if j = n then (f.p2.getD m default).lx else (cellT j m).lx
    ly := fun i => (cellT n i).ly }

structure TbState where
  i : Nat
  j : Nat
  layer : Tb
  /-- operations emitted so far, already in forward order (the code pushes and reverses at the end) -/
  ops : List AOp
  xstart : Nat
  ystart : Nat
  xend : Nat
  yend : Nat
deriving Repr, DecidableEq

/-- one iteration of the traceback `loop`; `none` = `TB_START => break` -/
def tbStep (T : Table) (st : TbState) : Option TbState :=
  match st.layer with
  | .start => none
  | .ins => some { st with ops := .core .ins :: st.ops, layer := T.tI st.i st.j, i := st.i - 1 }
  | .del => some { st with ops := .core .del :: st.ops, layer := T.tD st.i st.j, j := st.j - 1 }
  | .mat => some { st with ops := .core .mat :: st.ops, layer := T.tS (st.i - 1) (st.j - 1), i := st.i - 1, j := st.j - 1 }
  | .subst => some { st with ops := .core .sub :: st.ops, layer := T.tS (st.i - 1) (st.j - 1), i := st.i - 1, j := st.j - 1 }
  | .xpre => some { st with ops := .xclip st.i :: st.ops, xstart := st.i, i := 0, layer := T.tS 0 st.j }
  | .xsuf =>
    let i' := st.i - T.lx st.j
    some { st with ops := .xclip (T.lx st.j) :: st.ops, i := i', xend := i', layer := T.tS i' st.j }
  | .ypre => some { st with ops := .yclip st.j :: st.ops, ystart := st.j, j := 0, layer := T.tS st.i 0 }
  | .ysuf =>
    let j' := st.j - T.ly st.i
    some { st with ops := .yclip (T.ly st.i) :: st.ops, j := j', yend := j', layer := T.tS st.i j' }

/-- the `loop` with fuel (`none` = fuel exhausted: the real loop would not have terminated within that many
iterations) -/
def tbLoop (T : Table) : Nat → TbState → Option TbState
  | 0, _ => none
  | fuel + 1, st =>
    match tbStep T st with
    | none => some st
    | some st' => tbLoop T fuel st'

/-- the whole of `Aligner::custom`: the reported `Alignment` (mode omitted) -/
def custom (sc : Sc) (cl : Clip) (x y : List Nat) : Option Out :=
  let m := x.length
  let n := y.length
  let f := fill sc cl x y
  let T := f.table m n
  -- every iteration consumes a symbol or is one of at most four clips
  match tbLoop T (2 * (m + n) + 16) ⟨m, n, T.tS m n, [], 0, 0, m, n⟩ with
  | none => none
  | some st => some ⟨f.score, st.xstart, st.xend, st.ystart, st.yend, m, n, st.ops⟩

/-! ### The envelope in which `MIN_SCORE` acts as minus infinity -/

/-- largest substitution score of a symbol pair that occurs (at least 0) -/
def wMax (sc : Sc) (x y : List Nat) : Int :=
  x.foldl (fun acc a => y.foldl (fun acc b => max acc (sc.w a b)) acc) 0

/-- `Sane sc x y W`: `W ≥ 0` bounds the substitution scores of the symbol pairs that occur, and `MIN_SCORE` raised by
`W` once per matrix step stays below the score of the worst global alignment (insert all of `x`, delete all of `y`):
a value derived from the sentinel can never win the final comparison.  Decidable; the driver evaluates it with
`W = wMax sc x y` on every call (tag `fill-thm-hyp`). -/
def Sane (sc : Sc) (x y : List Nat) (W : Int) : Prop :=
  0 ≤ W ∧ (∀ a ∈ x, ∀ b ∈ y, sc.w a b ≤ W) ∧
    minScore + ((x.length : Int) + y.length) * W < 2 * sc.go + sc.ge * ((x.length : Int) + y.length)

instance (sc : Sc) (x y : List Nat) (W : Int) : Decidable (Sane sc x y W) := by unfold Sane; infer_instance

/-- all hypotheses of `fill_score_eq_opt`, as the driver evaluates them -/
def thmHyp (sc : Sc) (cl : Clip) (x y : List Nat) : Bool :=
  decide (sc.go ≤ 0) && decide (sc.ge ≤ 0) && decide (cl.xp ≤ 0) && decide (cl.xs ≤ 0) && decide (cl.yp ≤ 0) &&
    decide (cl.ys ≤ 0) && decide (Sane sc x y (wMax sc x y))

end RbV.Model.PairwiseFill
