import RbV.Spec.Align
/-!
Functional mirror of the matrix fill of `bio::alignment::pairwise::Aligner::custom`
(src/alignment/pairwise/mod.rs) — score part.  Core Lean only, no `Id.run do`, no arrays: every loop of the Rust text
is a recursion on its index and every `&mut` a returned value, so that the column invariant can be proved by
induction over `j` and, inside a column, over `i` (`RbV/Lemmas/Fill*.lean`, theorem `fill_score_eq_opt` in
`RbV/Thm/C01.lean`).

Correspondence with the Rust text (same comparisons, same strictness `>`, same order of the candidates):

* `S[k][..]`, `I[k][..]`, `D[k][..]` (rolling, `k = j % 2`): one `List Row` per column `j`; the row `i` holds
  `S[j%2][i]`, `I[j%2][i]`, `D[j%2][i]` as they stand at the end of iteration `j` of the outer loop, together with
  `Sn[i]` as it stands after that iteration.  `colAt j` is column `j`; `colAt 0` is the initialisation loop
  (`for k in 0..2`: both iterations write the same values; the `k = 1` copy is overwritten by column 1 before it is read,
  and the second pass over `Sn` finds nothing to improve, so one column is kept).
* `S[curr][m]` doubles as the x-suffix-clip tracker ("Track the score if we do a suffix clip (x) after this
  character"): the register `xm` threaded through the rows is that storage location.  For `i < m` it is distinct from
  the cell `S[curr][i]` being computed; for `i = m` the cell *is* the register (the `if i == m` selections below are
  exactly this aliasing; with `m = 0` cell 0 is the register).
* `upd cand cur` is `if cand > cur { cur = cand }`.
* the two loops after the outer loop ("Handle suffix clipping in the j=n case", "recompute the last column of I") are
  `post1`, `post2` over the last column; the reported score `S[n % 2][m]` is the register after `post2`.

Not modelled here: `Lx`, `Ly`, the traceback cells and the traceback loop (they do not influence the score; the
imperative model `RbV/Model/PairwiseCustom.lean` has them), and the `I` update of the second post-loop (dead for the
score).  `i32` is `Int`.
-/
namespace RbV.Model.PairwiseFill
open RbV.Align

/-- `if cand > cur { cur = cand }`: the new content of `cur` -/
def upd (cand cur : Int) : Int := if cand > cur then cand else cur

/-- row `i` of a column, with the registers as they stand when the row is finished -/
structure Row where
  /-- `S[curr][i]` -/
  s : Int
  /-- `I[curr][i]` -/
  i : Int
  /-- `D[curr][i]` -/
  d : Int
  /-- `Sn[i]` after this row -/
  sn : Int
  /-- `S[curr][m]` after this row (the x-suffix-clip tracker; for `i = m` equal to `s`) -/
  xm : Int
deriving Repr, Inhabited, DecidableEq

/-- `[r, step (i+1) r, step (i+2) (step (i+1) r), …]` (`k + 1` entries): one pass `for i in i+1 ..= i+k` that keeps
every intermediate state -/
def iter {α : Type} (step : Nat → α → α) : Nat → Nat → α → List α
  | 0, _, r => [r]
  | k + 1, i, r => r :: iter step k (i + 1) (step (i + 1) r)

section
variable (sc : Sc) (cl : Clip) (x y : List Nat)

/-! ### Column 0: `for k in 0..2 { … for i in 1..=m { … } }` -/

/-- `S[k][0] = 0`, `I[k][0] = D[k][0] = MIN_SCORE`, `Sn[0] = yclip_suffix`; the register `S[k][m]` is `MIN_SCORE`
unless it is cell 0 -/
def row00 : Row := ⟨0, minScore, minScore, cl.ys, if x.length = 0 then 0 else minScore⟩

/-- body of `for i in 1..=m` of the initialisation -/
def step0 (i : Nat) (r : Row) : Row :=
  let m := x.length
  let iv : Int :=
    if i = 1 then sc.go + sc.ge
    else
      let i_score := sc.go + sc.ge * (i : Int)
      let c_score := cl.xp + sc.go + sc.ge
      if i_score > c_score then i_score else c_score
  -- `if i == m { … } else { S[k][i] = MIN_SCORE }`: for `i = m` the cell keeps what the tracker accumulated
  let base := if i = m then r.xm else minScore
  let s1 := upd iv base
  let s2 := upd cl.xp s1
  -- `if i != m && S[k][i] + xclip_suffix > S[k][m] { S[k][m] = … }`
  let xm := if i = m then s2 else upd (s2 + cl.xs) r.xm
  -- `if S[k][i] + yclip_suffix > Sn[i] { Sn[i] = … }` (`Sn[i]` is still `MIN_SCORE`)
  ⟨s2, iv, minScore, upd (s2 + cl.ys) minScore, xm⟩

def col0 : List Row := iter (step0 sc cl x) x.length 0 (row00 cl x)

/-! ### Column `j ≥ 1`: body of `for j in 1..=n` -/

/-- the block "Handle i = 0 case" (`prev0` = row 0 of the previous column, for `Sn[0]`), followed by
`for i in 1..=m { S[curr][i] = MIN_SCORE }` (which resets the register unless `m = 0`) -/
def rowJ0 (j : Nat) (prev0 : Row) : Row :=
  let n := y.length
  let d0 : Int :=
    if j = 1 then sc.go + sc.ge
    else
      let d_score := sc.go + sc.ge * (j : Int)
      let c_score := cl.yp + sc.go + sc.ge
      if d_score > c_score then d_score else c_score
  let s0 := if d0 > cl.yp then d0 else cl.yp
  let sn0 := prev0.sn
  let s0' := if j = n ∧ sn0 > s0 then sn0 else s0
  let sn0' := if j = n ∧ sn0 > s0 then sn0 else upd (s0 + cl.ys) sn0
  ⟨s0', minScore, d0, sn0', if x.length = 0 then s0' else minScore⟩

/-- body of `for i in 1..m + 1` (`prev` = previous column, `r` = row `i − 1` of the current one) -/
def stepJ (j : Nat) (prev : List Row) (i : Nat) (r : Row) : Row :=
  let m := x.length
  let q := y.getD (j - 1) 0
  let p := x.getD (i - 1) 0
  let pr1 := prev.getD (i - 1) default
  let pr := prev.getD i default
  let xclip_score := cl.xp + max cl.yp (sc.go + sc.ge * (j : Int))
  let m_score := pr1.s + sc.w p q
  let i_score := r.i + sc.ge
  let s_score := r.s + sc.go + sc.ge
  let best_i_score := if i_score > s_score then i_score else s_score
  let d_score := pr.d + sc.ge
  let s_score2 := pr.s + sc.go + sc.ge
  let best_d_score := if d_score > s_score2 then d_score else s_score2
  -- `let mut best_s_score = self.S[curr][i]`: `MIN_SCORE` after the reset, the tracker for `i = m`
  let b0 := if i = m then r.xm else minScore
  let b1 := upd m_score b0
  let b2 := upd best_i_score b1
  let b3 := upd best_d_score b2
  let b4 := upd xclip_score b3
  let yclip_score := cl.yp + sc.go + sc.ge * (i : Int)
  let b5 := upd yclip_score b4
  -- `S[curr][i] = best_s_score; if S[curr][i] + xclip_suffix > S[curr][m] { S[curr][m] = … }`
  let xm1 := if i = m then b5 else r.xm
  let xm2 := upd (b5 + cl.xs) xm1
  let s := if i = m then xm2 else b5
  -- `if S[curr][i] + yclip_suffix > Sn[i] { Sn[i] = … }`
  ⟨s, best_i_score, best_d_score, upd (s + cl.ys) pr.sn, xm2⟩

def colStep (j : Nat) (prev : List Row) : List Row :=
  iter (stepJ sc cl x y j prev) x.length 0 (rowJ0 sc cl x y j (prev.getD 0 default))

/-- column `j` at the end of iteration `j` of the outer loop -/
def colAt : Nat → List Row
  | 0 => col0 sc cl x
  | j + 1 => colStep sc cl x y (j + 1) (colAt j)

/-! ### The two loops over the last column -/

/-- state of the loops over the last column: the cell just written and the register `S[curr][m]` -/
structure PSt where
  s : Int
  xm : Int
deriving Repr, Inhabited, DecidableEq

/-- body of `for i in 0..=m` ("Handle suffix clipping in the j=n case"); `xm` = the register on entry -/
def post1Step (col : List Row) (i : Nat) (xm : Int) : PSt :=
  let m := x.length
  let r := col.getD i default
  let cur := if i = m then xm else r.s
  let s1 := upd r.sn cur
  let xm1 := if i = m then s1 else xm
  let xm2 := upd (s1 + cl.xs) xm1
  ⟨if i = m then xm2 else s1, xm2⟩

def post1 (col : List Row) : List PSt :=
  iter (fun i p => post1Step cl x col i p.xm) x.length 0 (post1Step cl x col 0 (col.getD x.length default).xm)

/-- body of `for i in 1..=m` ("recompute the last column of I"), score part; `p` = state after row `i − 1`,
`s1` = the column after `post1` -/
def post2Step (s1 : List PSt) (i : Nat) (p : PSt) : PSt :=
  let m := x.length
  let s_score := p.s + sc.go + sc.ge
  let cur := if i = m then p.xm else (s1.getD i default).s
  if s_score > cur then
    let xm1 := if i = m then s_score else p.xm
    let xm2 := upd (s_score + cl.xs) xm1
    ⟨if i = m then xm2 else s_score, xm2⟩
  else ⟨cur, p.xm⟩

def post2 (s1 : List PSt) : List PSt :=
  iter (post2Step sc cl x s1) x.length 0 ⟨(s1.getD 0 default).s, (s1.getD x.length default).xm⟩

/-- what the fill leaves behind (score part) -/
structure Filled where
  /-- column `n` at the end of the outer loop -/
  last : List Row
  /-- `S[n % 2][..]` after the first post-loop -/
  p1 : List PSt
  /-- … and after the second -/
  p2 : List PSt
  /-- `S[n % 2][m]`, the reported score -/
  score : Int

def fill : Filled :=
  let last := colAt sc cl x y y.length
  let p1 := post1 cl x last
  let p2 := post2 sc cl x p1
  ⟨last, p1, p2, (p2.getD x.length default).xm⟩

end

/-! ### The envelope in which `MIN_SCORE` acts as minus infinity -/

/-- largest substitution score of a symbol pair that occurs (at least 0) -/
def wMax (sc : Sc) (x y : List Nat) : Int :=
  x.foldl (fun acc a => y.foldl (fun acc b => max acc (sc.w a b)) acc) 0

/-- `Sane sc x y W`: `W ≥ 0` bounds the substitution scores of the symbol pairs that occur, and `MIN_SCORE` raised by
`W` once per matrix step stays below the score of the worst global alignment (insert all of `x`, delete all of `y`):
a value derived from the sentinel can never win the final comparison.  Decidable; the driver evaluates it with
`W = wMax sc x y` on every call (tag `fill-thm-hyp`). -/
def Sane (sc : Sc) (x y : List Nat) (W : Int) : Prop :=
  0 ≤ W ∧ (∀ a ∈ x, ∀ b ∈ y, sc.w a b ≤ W) ∧
    minScore + ((x.length : Int) + y.length) * W < 2 * sc.go + sc.ge * ((x.length : Int) + y.length)

instance (sc : Sc) (x y : List Nat) (W : Int) : Decidable (Sane sc x y W) := by unfold Sane; infer_instance

/-- all hypotheses of `fill_score_eq_opt`, as the driver evaluates them -/
def thmHyp (sc : Sc) (cl : Clip) (x y : List Nat) : Bool :=
  decide (sc.go ≤ 0) && decide (sc.ge ≤ 0) && decide (cl.xp ≤ 0) && decide (cl.xs ≤ 0) && decide (cl.yp ≤ 0) &&
    decide (cl.ys ≤ 0) && decide (Sane sc x y (wMax sc x y))

end RbV.Model.PairwiseFill
