import RbV.Model.PoaBanded
/-!
# Mirror model of `Poa::custom` with clip penalties, and of `Traceback::alignment` on any table

`Poa::custom` is what `Aligner::global` (all four clip penalties at `MIN_SCORE`), `semiglobal`
(`yclip_prefix = yclip_suffix = 0`), `local` (all four 0) and `custom` (as configured) run.  Unlike
`dpRows` (`RbV/Model/Poa.lean`, the clip-free reading used for the optimality theorem) this model keeps every
`MIN_SCORE` start cell and every clip candidate of the Rust text:

* row 0: `max(Ins(None) j·gap, Yclip(0, j) yclip_prefix)`, `(0,0) = Match(None) 0`;
* row of a node: first cell `max(Del(None), Xclip(0) xclip_prefix)`; per column the fold over the predecessors
  starting from `max((MIN_SCORE, Match(None)), (xclip_prefix, Xclip(0)))`, or `Match(None)` from row 0 for a node
  without predecessor; then the insertion candidate; `max_in_column` (initially `(0, 0)`, strict `<`);
* after the last row: X suffix clipping column by column (`Xclip(col_max_row)`, skipped where the maximum is
  in the last row itself, `max_in_row` initially `(0, 0)`), then Y suffix clipping of cell `(last+1, n)`.

`traceF` is `Traceback::alignment` over an arbitrary cell-operation function, so that the tables of `custom`
and of `global_banded` (with its out-of-band answers) share one traceback and one theorem
(`RbV/Lemmas/PoaTraceAll.lean`).  The driver compares score and operation list with the real output on
every step of every mode (`drift-custom-score`, `drift-custom-ops`, `drift-banded-ops`).
-/
namespace RbV.Poa.Model
open RbV.NW RbV.Poa

/-- `Traceback::alignment` over the operation stored in cell `(i, j)`; operations in forward order -/
def traceF (opAt : Nat → Nat → POp) : Nat → Nat → Nat → List POp → List POp
  | 0, _, _, acc => acc
  | f + 1, i, j, acc =>
    if i = 0 && j = 0 then acc else
    let op := opAt i j
    match op with
    | .m (some (p, _)) => traceF opAt f (p + 1) (j - 1) (op :: acc)
    | .d (some (p, _)) => traceF opAt f (p + 1) j (op :: acc)
    | .i (some p) => traceF opAt f (p + 1) (j - 1) (op :: acc)
    | .m none => traceF opAt f 0 (j - 1) (op :: acc)
    | .d none => traceF opAt f (i - 1) j (op :: acc)
    | .i none => traceF opAt f i (j - 1) (op :: acc)
    | .x r => traceF opAt f r j (op :: acc)
    | .y r _ => traceF opAt f i r (op :: acc)

/-- a table of `BRow`s: row 0 and one row per node -/
structure BTable where
  r0 : BRow
  rows : Array BRow
  last : Nat
  n : Nat

def BTable.cell (t : BTable) (i j : Nat) : Cell :=
  if i = 0 then t.r0.get j else (t.rows.getD (i - 1) (emptyRow t.n)).get j

def BTable.score (t : BTable) : Int := (t.cell (t.last + 1) t.n).score

/-- loop bound of the model (the Rust loop is unbounded): every step lowers `j`, or the row's rank, or walks
down column 0, except for at most two clip jumps -/
def BTable.ops (t : BTable) (m : Nat) : List POp :=
  traceF (fun i j => (t.cell i j).op) ((m + 3) * (t.n + 3)) (t.last + 1) t.n []

/-! ## `global_banded` as a table -/

def bandedTable (sc : Sc) (xclip yclip : Int) (labels : List Nat) (es : WEdges) (query : List Nat) (bw : Nat) : BTable :=
  { r0 := bRow0 sc.gap yclip query.length, rows := (bandedRows sc xclip yclip labels es query bw).rows,
    last := (topo labels.length es).getLastD 0, n := query.length }

/-! ## `custom` -/

/-- `max_cell` of column `j ≥ 1` for node `v`; `init` = the start cell of the fold over the predecessors -/
def cCand (sc : Sc) (init : Cell) (query : List Nat) (r0 : BRow) (v r : Nat) (preds : List (Nat × BRow)) (j : Nat) : Cell :=
  let b := query.getD (j - 1) 0
  match preds with
  | [] => ⟨(r0.get (j - 1)).score + sc.w r b, .m none⟩
  | _ => preds.foldl (fun acc (pp : Nat × BRow) =>
      cmax acc (cmax ⟨(pp.2.get (j - 1)).score + sc.w r b, .m (some (pp.1, v))⟩
                     ⟨(pp.2.get j).score + sc.gap, .d (some (pp.1, v + 1))⟩)) init

def cNodeRow (sc : Sc) (xp : Int) (query : List Nat) (r0 : BRow) (v r : Nat) (preds : List (Nat × BRow)) : BRow :=
  let c0 : Cell := cmax ⟨((v : Int) + 1) * sc.gap, .d none⟩ ⟨xp, .x 0⟩
  let init : Cell := cmax mcell ⟨xp, .x 0⟩
  let cands := (List.range' 1 query.length).map (cCand sc init query r0 v r preds)
  { cells := c0 :: insScan sc.gap (.i (some v)) c0 cands, start := 0, stop := query.length + 1 }

/-- `if max_in_column[j].0 < score.score { max_in_column[j] = (score.score, i) }` for `j = 1..` -/
def colUpdate (i : Nat) : List (Int × Nat) → List Cell → List (Int × Nat)
  | mc :: mcs, c :: cs => (if mc.1 < c.score then (c.score, i) else mc) :: colUpdate i mcs cs
  | mcs, _ => mcs

structure CState where
  rows : Array BRow
  maxcol : List (Int × Nat)       -- columns 0..n

def cStep (sc : Sc) (xp : Int) (labels : List Nat) (es : WEdges) (query : List Nat) (r0 : BRow)
    (st : CState) (v : Nat) : CState :=
  let preds := (inN es v).map fun p => (p, st.rows.getD p (emptyRow query.length))
  let row := cNodeRow sc xp query r0 v (labels.getD v 0) preds
  { rows := st.rows.setIfInBounds v row,
    maxcol := match st.maxcol with
      | [] => []
      | m0 :: rest => m0 :: colUpdate (v + 1) rest row.cells.tail }

/-- X suffix clipping of the last row, column by column from `col`; returns the new cells and `max_in_row` -/
def xSuffix (xs : Int) (lastI : Nat) : Nat → List (Int × Nat) → List Cell → Int × Nat → List Cell × (Int × Nat)
  | col, mc :: mcs, c :: cs, mir =>
    if mc.2 = lastI then
      let (rest, mir') := xSuffix xs lastI (col + 1) mcs cs mir
      (c :: rest, mir')
    else
      let maxcell := cmax c ⟨mc.1 + xs, .x mc.2⟩
      let mir1 := if mir.1 < maxcell.score then (maxcell.score, col) else mir
      let (rest, mir') := xSuffix xs lastI (col + 1) mcs cs mir1
      (maxcell :: rest, mir')
  | _, _, cs, mir => (cs, mir)

def setAt (l : List Cell) (k : Nat) (c : Cell) : List Cell := l.set k c

def customTable (sc : Sc) (xp xs yp ys : Int) (labels : List Nat) (es : WEdges) (query : List Nat) : BTable :=
  let n := query.length
  let r0 := bRow0 sc.gap yp n
  let order := topo labels.length es
  let st := order.foldl (cStep sc xp labels es query r0)
    { rows := Array.replicate labels.length (emptyRow n), maxcol := List.replicate (n + 1) ((0 : Int), 0) }
  let last := order.getLastD 0
  let lastRow := st.rows.getD last (emptyRow n)
  -- `get(last+1, col)` on the finished row: all columns 0..n are in range
  let cells := (List.range (n + 1)).map lastRow.get
  let (cells1, mir) := xSuffix xs (last + 1) 0 st.maxcol cells (0, 0)
  let ycell := cmax (cells1.getD n mcell) ⟨mir.1 + ys, .y mir.2 n⟩
  let cells2 := if mir.2 ≠ n then setAt cells1 n ycell else cells1
  { r0 := r0, rows := st.rows.setIfInBounds last { cells := cells2, start := 0, stop := n + 1 }, last := last, n := n }

/-- score and operations of `custom(query).alignment()` under clip penalties `xp xs yp ys` -/
def customAlign (sc : Sc) (xp xs yp ys : Int) (labels : List Nat) (es : WEdges) (query : List Nat) : Int × List POp :=
  let t := customTable sc xp xs yp ys labels es query
  (t.score, t.ops labels.length)

end RbV.Poa.Model
