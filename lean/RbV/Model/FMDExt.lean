import RbV.Spec.FMD
import RbV.Model.LFMapping
/-!
# Mirror model of the FMD-index bi-interval operations (C06)

`backwardExt`, `forwardExt`, `initIntervalWith`, `initInterval` follow `FMDIndex::{backward_ext, forward_ext,
init_interval_with, init_interval}` line by line over abstract `less`/`occ`.

```rust
let mut s = 0; let mut o = 0; let mut l = interval.lower_rev;
for &b in b"$TGCNAtgcna" {
    l += s;
    o = if interval.lower == 0 { 0 } else { self.fmindex.occ(interval.lower - 1, b) };
    s = self.fmindex.occ(interval.lower + interval.size - 1, b) - o;
    if b == a { break; }
}
let k = self.fmindex.less(a) + o;
BiInterval { lower: k, lower_rev: l, size: s, match_size: interval.match_size + 1 }
```
-/
namespace RbV.FMDModel
open RbV RbV.BSModel

structure Bi where
  lower : Nat
  lowerRev : Nat
  size : Nat
  matchSize : Nat
  deriving Repr, DecidableEq

/-- `$TGCNAtgcna` -/
def order : List Nat := [36, 84, 71, 67, 78, 65, 116, 103, 99, 110, 97]

/-- the `for` loop; state = (l, s, o) -/
def extLoop (occ : Nat → Nat → Nat) (iv : Bi) (a : Nat) : List Nat → Nat × Nat × Nat → Nat × Nat × Nat
  | [], st => st
  | b :: rest, (l, s, _) =>
    let o' := if iv.lower = 0 then 0 else occ (iv.lower - 1) b
    let s' := occ (iv.lower + iv.size - 1) b - o'
    if b = a then (l + s, s', o') else extLoop occ iv a rest (l + s, s', o')

def backwardExt (less : Nat → Nat) (occ : Nat → Nat → Nat) (iv : Bi) (a : Nat) : Bi :=
  let r := extLoop occ iv a order (iv.lowerRev, 0, 0)
  { lower := less a + r.2.2, lowerRev := r.1, size := r.2.1, matchSize := iv.matchSize + 1 }

def swapped (iv : Bi) : Bi := { lower := iv.lowerRev, lowerRev := iv.lower, size := iv.size, matchSize := iv.matchSize }

def forwardExt (less : Nat → Nat) (occ : Nat → Nat → Nat) (iv : Bi) (a : Nat) : Bi :=
  swapped (backwardExt less occ (swapped iv) (dnaCompl a))

def initIntervalWith (less : Nat → Nat) (a : Nat) : Bi :=
  { lower := less a, lowerRev := less (dnaCompl a), size := less (a + 1) - less a, matchSize := 1 }

def initInterval (n : Nat) : Bi := { lower := 0, lowerRev := 0, size := n, matchSize := 0 }

/-- `forward()` and `revcomp()` as (lo, hi) pairs -/
def fwd (iv : Bi) : Nat × Nat := (iv.lower, iv.lower + iv.size)
def rev (iv : Bi) : Nat × Nat := (iv.lowerRev, iv.lowerRev + iv.size)

/-! ### the forward half of `backward_ext` is the LF step -/

theorem extLoop_spec (occ : Nat → Nat → Nat) (iv : Bi) (a : Nat) :
    ∀ (ord : List Nat) (st : Nat × Nat × Nat), a ∈ ord →
      (extLoop occ iv a ord st).2 =
        (occ (iv.lower + iv.size - 1) a - (if iv.lower = 0 then 0 else occ (iv.lower - 1) a),
         if iv.lower = 0 then 0 else occ (iv.lower - 1) a) := by
  intro ord
  induction ord with
  | nil => intro st h; simp at h
  | cons b rest ih =>
    intro st h
    obtain ⟨l, s, o⟩ := st
    simp only [extLoop]
    by_cases hb : b = a
    · subst hb; simp
    · simp only [hb, if_false]
      apply ih
      simp only [List.mem_cons] at h
      rcases h with h | h
      · exact absurd h.symm hb
      · exact h

/-- For every symbol of the loop's order string, the forward interval and the size computed by `backward_ext` are
those of the LF step: if `[lower, lower+size)` are exactly the rows whose suffix starts with `P` (non-empty), the
new `[lower, lower+size)` are exactly the rows whose suffix starts with `a·P`. -/
theorem backwardExt_forward (t sa : List Nat) (less : Nat → Nat) (occ : Nat → Nat → Nat) (a : Nat) (P : List Nat)
    (iv : Bi) (ha : a ∈ order) (hLF : LFStep t sa less occ a)
    (hiv : IvOf t sa P iv.lower (iv.lower + iv.size)) (hne : 0 < iv.size) :
    IvOf t sa (a :: P) (backwardExt less occ iv a).lower
      ((backwardExt less occ iv a).lower + (backwardExt less occ iv a).size) := by
  have hspec := extLoop_spec occ iv a order (iv.lowerRev, 0, 0) ha
  obtain ⟨hle, hstep⟩ := hLF P iv.lower (iv.lower + iv.size) hiv (by omega)
  have e0 : (if iv.lower > 0 then occ (iv.lower - 1) a else 0) = (if iv.lower = 0 then 0 else occ (iv.lower - 1) a) := by
    by_cases h : iv.lower = 0
    · simp [h]
    · have : iv.lower > 0 := by omega
      simp [h, this]
  rw [e0] at hle hstep
  have hs : (backwardExt less occ iv a).size =
      occ (iv.lower + iv.size - 1) a - (if iv.lower = 0 then 0 else occ (iv.lower - 1) a) := by
    simp only [backwardExt]; rw [hspec]
  have hl : (backwardExt less occ iv a).lower = less a + (if iv.lower = 0 then 0 else occ (iv.lower - 1) a) := by
    simp only [backwardExt]; rw [hspec]
  rw [hs, hl]
  have : less a + (if iv.lower = 0 then 0 else occ (iv.lower - 1) a) +
      (occ (iv.lower + iv.size - 1) a - (if iv.lower = 0 then 0 else occ (iv.lower - 1) a)) =
      less a + occ (iv.lower + iv.size - 1) a := by omega
  rw [this]
  exact hstep

end RbV.FMDModel
