import RbV.Spec.QGram
/-!
# C19 — mirror model of `QGramIndex::exact_matches` (core Lean only)

The Rust loop visits the hits (pattern position ascending) and keeps one open match per diagonal in a hash map; a hit that
does not continue the open match of its diagonal (`m.pattern.stop - q + 1 != i`) pushes that match to the result vector and
opens a new one; at the end all open matches are pushed.  The map is an association list in insertion order.
-/
namespace RbV.QGram

def assocGet {β : Type} (d : Int) : List (Int × β) → Option β
  | [] => none
  | e :: T => if e.1 = d then some e.2 else assocGet d T

/-- overwrite the value of an existing key -/
def assocSet {β : Type} (d : Int) (v : β) (T : List (Int × β)) : List (Int × β) :=
  T.map fun e => if e.1 = d then (e.1, v) else e

def exactStep (q : Nat) (st : List (Int × ExactRec) × List ExactRec) (h : Nat × Nat) :
    List (Int × ExactRec) × List ExactRec :=
  match assocGet (diag h) st.1 with
  | none => (st.1 ++ [(diag h, (h.1, h.1 + q, h.2, h.2 + q))], st.2)
  | some m =>
    if m.2.1 - q + 1 != h.1 then
      -- discontinue match, start new match
      (assocSet (diag h) (h.1, h.1 + q, h.2, h.2 + q) st.1, st.2 ++ [m])
    else
      (assocSet (diag h) (m.1, h.1 + q, m.2.2.1, h.2 + q) st.1, st.2)

/-- `exact_matches(pattern)` -/
def exactMatchesModel (mc q : Nat) (pat text : List Nat) : List ExactRec :=
  let st := (hits mc q pat text).foldl (exactStep q) ([], [])
  st.2 ++ st.1.map (·.2)

end RbV.QGram
