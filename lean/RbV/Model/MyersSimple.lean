import RbV.Ref.EditDist
/-!
Mirror model of the single-word Myers matcher (`pattern_matching::myers::simple`, `Myers::_step`, `Matches::next`)
(C09 [C]).  Core Lean only.  Machine words are `BitVec w` (w = 8, 16, 32, 64): `wrapping_add` = `+`, `!` = `~~~`,
`<<= 1` = `<<< 1`, all truncated to `w` bits exactly as in Rust.
-/
namespace RbV.Model.MyersSimple
open RbV.EditDist

structure St (w : Nat) where
  pv : BitVec w
  mv : BitVec w
  dist : Nat

/-- `peq[a]` for text symbol `a`: bit `i` set iff pattern symbol `i` matches `a` (`new_ambig`) -/
def peq (w : Nat) (eqv : Nat → Nat → Bool) (p : List Nat) (a : Nat) : BitVec w :=
  BitVec.ofBoolListLE' w (p.map (fun x => eqv x a))
where
  /-- little-endian bit list to a word of width `w` (bits beyond `w` dropped, missing bits 0) -/
  BitVec.ofBoolListLE' (w : Nat) : List Bool → BitVec w
    | [] => 0#w
    | b :: bs => (BitVec.ofBoolListLE' w bs <<< 1) ||| (if b then 1#w else 0#w)

/-- `State::init(m)`: `pv = !0`, `mv = 0`, `dist = m` -/
def init (w m : Nat) : St w := ⟨BitVec.allOnes w, 0#w, m⟩

/-- `xh = ((eq & pv).wrapping_add(pv) ^ pv) | eq` -/
def xhOf {w : Nat} (eq pv : BitVec w) : BitVec w := (((eq &&& pv) + pv) ^^^ pv) ||| eq

/-- `Myers::_step`; `m` = pattern length (`bound = 1 << (m-1)`) -/
def step {w : Nat} (m : Nat) (eq : BitVec w) (s : St w) : St w :=
  let xv := eq ||| s.mv
  let xh := xhOf eq s.pv
  let ph := s.mv ||| ~~~(xh ||| s.pv)
  let mh := s.pv &&& xh
  let dist := s.dist + (ph.getLsbD (m - 1)).toNat - (mh.getLsbD (m - 1)).toNat
  let ph := ph <<< 1
  let mh := mh <<< 1
  ⟨mh ||| ~~~(xv ||| ph), ph &&& xv, dist⟩

/-- `find_all_end(text, k).collect()` -/
def run {w : Nat} (eqv : Nat → Nat → Bool) (p : List Nat) (k : Nat) : St w → Nat → List Nat → List (Nat × Nat)
  | _, _, [] => []
  | s, i, a :: t =>
    let s' := step p.length (peq w eqv p a) s
    if s'.dist ≤ k then (i, s'.dist) :: run eqv p k s' (i + 1) t else run eqv p k s' (i + 1) t

def findAllEnd (w : Nat) (eqv : Nat → Nat → Bool) (p t : List Nat) (k : Nat) : List (Nat × Nat) :=
  run eqv p k (init w p.length) 0 t

end RbV.Model.MyersSimple
