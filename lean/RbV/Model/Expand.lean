import RbV.Model.Lcskpp
import RbV.Model.KmerHash
/-!
# C19 — mirror model of `bio::alignment::sparse::expand_kmer_matches` (core Lean only)

Left phase: for every seed (in sorted order) walk down its diagonal towards the previous seed of that diagonal
(`last_match_along_diagonal`, default: just outside the sequences) while the mismatch budget lasts, pushing the positions;
sort; right phase: the same upwards over the reversed vector, towards the next element of the diagonal
(`next_match_along_diagonal`, default `this + max_inc`); sort.
`HashMapFx<i32, _>` is an association list (only `get` / `insert`), `i32` is `Int`, `u32` / `usize` are `Nat`;
`seq[i]` is `getD` (an out-of-range index would panic — excluded by the domain: seeds inside the sequences);
`curr_pos.0 as u32` is `Int.toNat` (the walked positions are proved non-negative).  The two `loop`s get fuel; running out is
an error of its own, proved not to happen.
-/
namespace RbV.Model.Expand
open RbV.KChain RbV.Model.Lcskpp

abbrev IMap (β : Type) := List (Int × β)

/-- `map.insert(d, v)` -/
def imInsert {β : Type} (d : Int) (v : β) : IMap β → IMap β
  | [] => [(d, v)]
  | (d', v') :: r => if d' = d then (d, v) :: r else (d', v') :: imInsert d v r

/-- `map.get(&d)` -/
def imGet {β : Type} (d : Int) : IMap β → Option β
  | [] => none
  | (d', v') :: r => if d' = d then some v' else imGet d r

/-- `a >= b` on `(i32, i32)` -/
def iGe (a b : Int × Int) : Bool := a.1 > b.1 || (a.1 == b.1 && a.2 ≥ b.2)

/-- `a >= b` on `(u32, u32)` -/
def mGe (a b : M) : Bool := a.1 > b.1 || (a.1 == b.1 && a.2 ≥ b.2)

/-- the left `loop`; returns the pushed positions in push order -/
def leftLoop (seq1 seq2 : List Nat) (allowed : Nat) (last : Int × Int) : Nat → Int × Int → Nat → Option (List M)
  | 0, _, _ => none
  | fuel + 1, curr, nmm =>
    if iGe last curr then some []
    else
      let nmm' := nmm + (if seq1.getD curr.1.toNat 0 = seq2.getD curr.2.toNat 0 then 0 else 1)
      if nmm' > allowed then some []
      else (leftLoop seq1 seq2 allowed last fuel (curr.1 - 1, curr.2 - 1) nmm').map ((curr.1.toNat, curr.2.toNat) :: ·)

/-- one round of a `for &this_match in …` loop that pushes to the vector: `core` computes the new map and the pushed
positions from the map and the match; `none` = a `loop` ran out of fuel -/
def pushStep {β : Type} (core : IMap β → M → Option (IMap β × List M)) (st : Option (IMap β × List M)) (m : M) :
    Option (IMap β × List M) :=
  match st with
  | none => none
  | some (map, vec) =>
    match core map m with
    | none => none
    | some (map', block) => some (map', vec ++ block)

/-- body of the first `for &this_match in sorted_matches.iter()` -/
def leftCore (seq1 seq2 : List Nat) (allowed : Nat) (map : IMap (Int × Int)) (m : M) : Option (IMap (Int × Int) × List M) :=
  let diag : Int := (m.1 : Int) - (m.2 : Int)
  let minXY : Int := ((min m.1 m.2 : Nat) : Int)
  let dflt : Int × Int := ((m.1 : Int) - minXY - 1, (m.2 : Int) - minXY - 1)
  let last := (imGet diag map).getD dflt
  match leftLoop seq1 seq2 allowed last (m.1 + 2) ((m.1 : Int) - 1, (m.2 : Int) - 1) 0 with
  | none => none
  | some block => some (imInsert diag ((m.1 : Int), (m.2 : Int)) map, block)

/-- the right `loop` -/
def rightLoop (seq1 seq2 : List Nat) (k allowed : Nat) (next : M) : Nat → M → Nat → Option (List M)
  | 0, _, _ => none
  | fuel + 1, curr, nmm =>
    if mGe curr next then some []
    else
      let nmm' := nmm + (if seq1.getD (curr.1 + k - 1) 0 = seq2.getD (curr.2 + k - 1) 0 then 0 else 1)
      if nmm' > allowed then some []
      else (rightLoop seq1 seq2 k allowed next fuel (curr.1 + 1, curr.2 + 1) nmm').map (curr :: ·)

/-- body of `for &this_match in &left_expanded_matches` (reversed) -/
def rightCore (seq1 seq2 : List Nat) (k allowed : Nat) (map : IMap M) (m : M) : Option (IMap M × List M) :=
  let diag : Int := (m.1 : Int) - (m.2 : Int)
  let maxInc := min (seq1.length - m.1) (seq2.length - m.2) - (k - 1)
  let next := (imGet diag map).getD (m.1 + maxInc, m.2 + maxInc)
  match rightLoop seq1 seq2 k allowed next (next.1 + 2 - m.1) (m.1 + 1, m.2 + 1) 0 with
  | none => none
  | some block => some (imInsert diag m map, block)

/-- `expand_kmer_matches(seq1, seq2, k, sorted_matches, allowed_mismatches)` -/
def expandKmerMatches (seq1 seq2 : List Nat) (k : Nat) (ms : List M) (allowed : Nat) : Except String (List M) :=
  if !sortedStrict ms then .error "incoming matches must be sorted"
  else
    match ms.foldl (pushStep (leftCore seq1 seq2 allowed)) (some ([], ms)) with
    | none => .error "left loop out of fuel"
    | some (_, leftVec) =>
      let leftExpanded := leftVec.mergeSort KmerHash.pairLe
      match leftExpanded.reverse.foldl (pushStep (rightCore seq1 seq2 k allowed)) (some ([], leftExpanded)) with
      | none => .error "right loop out of fuel"
      | some (_, vec) => .ok (vec.mergeSort KmerHash.pairLe)

end RbV.Model.Expand
