import RbV.Model.Poa
import RbV.Gen.Limits
/-!
# Mirror model of `Poa::global_banded` (any bandwidth)

Follows `src/alignment/poa.rs` statement by statement:

* a row of the traceback matrix is `(cells, start, stop)` (`matrix[i] = (Vec, usize, usize)`); `BRow.get` is
  `Traceback::get` with its three out-of-band answers (`Del(None)` in column 0, `Ins(None)` in front of the
  band, `Match(None)` behind it, all with `MIN_SCORE`);
* row 0 = `initialize_scores(gap, yclip_prefix)`; `global_banded` does **not** override the configured clip
  penalties, so `xclip`/`yclip` are parameters here;
* the row of a node: band `[start, end]` around `max_scoring_j` of the rows before
  (`start = 0` if `bandwidth > max_scoring_j` else `max_scoring_j - bandwidth`, `end = max_scoring_j + bandwidth`),
  first cell `max(Del(None), Xclip(0))` or `MIN_SCORE`, per column the fold over the predecessors that starts
  from `(MIN_SCORE, Match(None))`, then the insertion candidate; `max_scoring_j`/`max_score_for_row` are
  carried over all rows (the Rust code never resets them);
* reported score = `get(last + 1, n).score`.

`MIN_SCORE` is a plain integer here (no `i32` wrap-around: `MIN_SCORE + gap` stays far above `i32::MIN`).
The driver compares `bandedScore` with the score the real `global_banded` reports on every `b` step and on
the extra banded run of `g` steps (tag `drift-banded-score`).
-/
namespace RbV.Poa.Model
open RbV.NW RbV.Poa

def minScore : Int := RbV.Gen.Limits.minScorePoa

/-- `TracebackCell { score: MIN_SCORE, op: Match(None) }` -/
def mcell : Cell := ⟨minScore, .m none⟩

structure BRow where
  cells : List Cell
  start : Nat
  stop : Nat

/-- `Traceback::get` on one row -/
def BRow.get (r : BRow) (j : Nat) : Cell :=
  if decide (r.start ≤ j) && decide (j < r.stop) && !r.cells.isEmpty then r.cells.getD (j - r.start) mcell
  else if j = 0 then ⟨minScore, .d none⟩
  else if r.stop ≤ j then ⟨minScore, .i none⟩
  else mcell

/-- `with_capacity`: a row not (yet) computed -/
def emptyRow (n : Nat) : BRow := { cells := [], start := 0, stop := n + 1 }

/-- `initialize_scores` -/
def bRow0 (gap yclip : Int) (n : Nat) : BRow :=
  { cells := ⟨0, .m none⟩ :: (List.range' 1 n).map (fun (j : Nat) => cmax ⟨(j : Int) * gap, .i none⟩ ⟨yclip, .y 0 j⟩),
    start := 0, stop := n + 1 }

/-- `max_cell` of column `j ≥ 1` for node `v` (label `r`) -/
def bCand (sc : Sc) (query : List Nat) (r0 : BRow) (v r : Nat) (preds : List (Nat × BRow)) (j : Nat) : Cell :=
  let b := query.getD (j - 1) 0
  match preds with
  | [] => ⟨(r0.get (j - 1)).score + sc.w r b, .m none⟩
  | _ => preds.foldl (fun acc (pp : Nat × BRow) =>
      cmax acc (cmax ⟨(pp.2.get (j - 1)).score + sc.w r b, .m (some (pp.1, v))⟩
                     ⟨(pp.2.get j).score + sc.gap, .d (some (pp.1, v + 1))⟩)) mcell

/-- `new_row` + the column loop for node `v` with band `[start, end_]` -/
def bNodeRow (sc : Sc) (xclip : Int) (query : List Nat) (r0 : BRow) (v r : Nat) (preds : List (Nat × BRow))
    (start end_ : Nat) : BRow :=
  let c0 : Cell := if start = 0 then cmax ⟨((v : Int) + 1) * sc.gap, .d none⟩ ⟨xclip, .x 0⟩ else mcell
  let hi := min query.length end_
  let cands := (List.range' (start + 1) (hi - start)).map (bCand sc query r0 v r preds)
  { cells := c0 :: insScan sc.gap (.i (some v)) c0 cands, start := start, stop := end_ + 1 }

/-- `if score.score > max_score_for_row { max_scoring_j = j; max_score_for_row = score.score }` over the
computed cells of a row (columns `j0, j0+1, …`) -/
def bUpdate (cells : List Cell) (j0 : Nat) (st : Nat × Int) : Nat × Int :=
  (cells.zipIdx j0).foldl (fun (st : Nat × Int) (cj : Cell × Nat) => if cj.1.score > st.2 then (cj.2, cj.1.score) else st) st

structure BState where
  rows : Array BRow
  msj : Nat
  msr : Int

def bStep (sc : Sc) (xclip : Int) (labels : List Nat) (es : WEdges) (query : List Nat) (bw : Nat) (r0 : BRow)
    (st : BState) (v : Nat) : BState :=
  let start := if bw > st.msj then 0 else st.msj - bw
  let end_ := st.msj + bw
  let preds := (inN es v).map fun p => (p, st.rows.getD p (emptyRow query.length))
  let row := bNodeRow sc xclip query r0 v (labels.getD v 0) preds start end_
  let upd := bUpdate row.cells.tail (start + 1) (st.msj, st.msr)
  { rows := st.rows.setIfInBounds v row, msj := upd.1, msr := upd.2 }

def bandedRows (sc : Sc) (xclip yclip : Int) (labels : List Nat) (es : WEdges) (query : List Nat) (bw : Nat) : BState :=
  (topo labels.length es).foldl (bStep sc xclip labels es query bw (bRow0 sc.gap yclip query.length))
    { rows := Array.replicate labels.length (emptyRow query.length), msj := 0, msr := minScore }

/-- the score `Aligner::global_banded(query, bw).alignment()` reports -/
def bandedScore (sc : Sc) (xclip yclip : Int) (labels : List Nat) (es : WEdges) (query : List Nat) (bw : Nat) : Int :=
  let st := bandedRows sc xclip yclip labels es query bw
  let last := (topo labels.length es).getLastD 0
  ((st.rows.getD last (emptyRow query.length)).get query.length).score

end RbV.Poa.Model
