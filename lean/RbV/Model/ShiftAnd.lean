import RbV.Spec.Occ
import RbV.Basic.Sorted
/-!
Mirror model of `pattern_matching::shift_and` (after the m = 64 repair).

Rust:
```
masks:  bit = 1; accept = 0; for c in pattern { masks[c] |= bit; accept = bit; bit <<= 1 }      (u64)
next:   active = ((active << 1) | 1) & masks[c];  if active & accept > 0 { yield i + 1 - m }     (u64)
```
`u64` values are `Nat`s reduced modulo 2^64 where the Rust operation truncates (`<<`).
-/
namespace RbV.ShiftAnd

def W : Nat := 2 ^ 64

/-- state of the `masks` loop: the table (as a function), the running bit, the accept mask -/
structure MState where
  masks : Nat → Nat
  bit : Nat
  accept : Nat

def masksStep (s : MState) (c : Nat) : MState :=
  { masks := fun x => if x = c then s.masks x ||| s.bit else s.masks x
    accept := s.bit
    bit := (s.bit <<< 1) % W }

def masksLoop (p : List Nat) : MState :=
  p.foldl masksStep { masks := fun _ => 0, bit := 1, accept := 0 }

/-- one text symbol -/
def step (ms : MState) (active c : Nat) : Nat :=
  (((active <<< 1) % W) ||| 1) &&& ms.masks c

/-- the iterator: `i` is the index of the head of the remaining text -/
def run (ms : MState) (m : Nat) : List Nat → Nat → Nat → List Nat
  | [], _, _ => []
  | c :: t, i, active =>
    let a := step ms active c
    if a &&& ms.accept > 0 then (i + 1 - m) :: run ms m t (i + 1) a else run ms m t (i + 1) a

def findAll (p t : List Nat) : List Nat := run (masksLoop p) p.length t 0 0

/-! ### the mask table -/

theorem foldl_masks_spec (p : List Nat) (s : MState) (j₀ : Nat) (hb : s.bit = 2 ^ j₀ % W)
    (hlen : j₀ + p.length ≤ 64) :
    let r := p.foldl masksStep s
    (∀ c j, (r.masks c).testBit j = ((s.masks c).testBit j || (decide (j₀ ≤ j) && p[j - j₀]? == some c)))
    ∧ (p ≠ [] → r.accept = 2 ^ (j₀ + p.length - 1)) := by
  induction p generalizing s j₀ with
  | nil => simp
  | cons a p ih =>
    have hj0 : j₀ < 64 := by simp at hlen; omega
    have hbit : s.bit = 2 ^ j₀ := by
      rw [hb]; apply Nat.mod_eq_of_lt; unfold W; exact Nat.pow_lt_pow_right (by omega) hj0
    have hnb : (masksStep s a).bit = 2 ^ (j₀ + 1) % W := by
      simp [masksStep, hbit, Nat.shiftLeft_eq, Nat.pow_succ]
    have := ih (masksStep s a) (j₀ + 1) hnb (by simp at hlen ⊢; omega)
    simp only [List.foldl_cons]
    obtain ⟨h1, h2⟩ := this
    refine ⟨?_, ?_⟩
    · intro c j
      rw [h1 c j]
      simp only [masksStep]
      by_cases hca : c = a
      · subst hca
        simp only [if_true, Nat.testBit_or, hbit, Nat.testBit_two_pow]
        by_cases hj : j = j₀
        · subst hj; simp
        · by_cases hlt : j₀ + 1 ≤ j
          · have : j - j₀ = (j - (j₀ + 1)) + 1 := by omega
            have hne : ¬ j₀ = j := by omega
            simp [this, hlt, hne, show j₀ ≤ j by omega]
          · have hne : ¬ j₀ = j := by omega
            simp [hlt, hne, show ¬ j₀ ≤ j by omega]
      · simp only [hca, if_false]
        by_cases hlt : j₀ + 1 ≤ j
        · have : j - j₀ = (j - (j₀ + 1)) + 1 := by omega
          simp [this, hlt, show j₀ ≤ j by omega]
        · by_cases hj : j = j₀
          · subst hj
            have hac : (a == c) = false := beq_false_of_ne (fun h => hca h.symm)
            simp [hac]; intro h; omega
          · simp [hlt, show ¬ j₀ ≤ j by omega]
    · intro _
      by_cases hp : p = []
      · subst hp; simp [masksStep, hbit]
      · rw [h2 hp]; simp

/-- bit `j` of `masks[c]` is set iff `p[j] = c` -/
theorem masks_testBit (p : List Nat) (hm : p.length ≤ 64) (c j : Nat) :
    ((masksLoop p).masks c).testBit j = (p[j]? == some c) := by
  have := (foldl_masks_spec p { masks := fun _ => 0, bit := 1, accept := 0 } 0 (by simp [W]) (by omega)).1 c j
  simpa [masksLoop] using this

theorem accept_eq (p : List Nat) (hm : p.length ≤ 64) (hp : 0 < p.length) :
    (masksLoop p).accept = 2 ^ (p.length - 1) := by
  have hne : p ≠ [] := by intro h; subst h; simp at hp
  have := (foldl_masks_spec p { masks := fun _ => 0, bit := 1, accept := 0 } 0 (by simp [W]) (by omega)).2 hne
  simpa [masksLoop] using this

/-! ### the automaton invariant -/

/-- the prefix of `p` of length `j+1` is a suffix of the processed text `pre` -/
def SufMatch (p pre : List Nat) (j : Nat) : Prop :=
  j < p.length ∧ j < pre.length ∧ ∀ k, k ≤ j → p[k]? = pre[pre.length - 1 - j + k]?

def Inv (p pre : List Nat) (a : Nat) : Prop := ∀ j, a.testBit j = true ↔ SufMatch p pre j

theorem inv_nil (p : List Nat) : Inv p [] 0 := by
  intro j; simp [SufMatch]

theorem sufMatch_zero (p pre : List Nat) (c : Nat) :
    SufMatch p (pre ++ [c]) 0 ↔ p[0]? = some c := by
  unfold SufMatch
  constructor
  · rintro ⟨_, _, h⟩
    have := h 0 (Nat.le_refl 0)
    simpa using this
  · intro h
    refine ⟨?_, by simp, ?_⟩
    · cases p with
      | nil => simp at h
      | cons a p => simp
    · intro k hk
      have : k = 0 := by omega
      subst this; simpa using h

theorem sufMatch_succ (p pre : List Nat) (c j : Nat) :
    SufMatch p (pre ++ [c]) (j + 1) ↔ SufMatch p pre j ∧ p[j + 1]? = some c := by
  unfold SufMatch
  simp only [List.length_append, List.length_singleton]
  constructor
  · rintro ⟨h1, h2, h3⟩
    refine ⟨⟨by omega, by omega, ?_⟩, ?_⟩
    · intro k hk
      have := h3 k (by omega)
      rw [this, List.getElem?_append_left (by omega)]
      congr 1; omega
    · have := h3 (j + 1) (Nat.le_refl _)
      rw [this, List.getElem?_append_right (by omega)]
      have e : pre.length - (j + 1) + (j + 1) - pre.length = 0 := by omega
      simp [e]
  · rintro ⟨⟨h1, h2, h3⟩, h4⟩
    refine ⟨?_, by omega, ?_⟩
    · cases hh : p[j + 1]? with
      | none => simp [hh] at h4
      | some v => exact (List.getElem?_eq_some_iff.mp hh).1
    · intro k hk
      by_cases hkj : k ≤ j
      · rw [h3 k hkj, List.getElem?_append_left (by omega)]
        congr 1; omega
      · have : k = j + 1 := by omega
        subst this
        rw [h4, List.getElem?_append_right (by omega)]
        have e : pre.length - (j + 1) + (j + 1) - pre.length = 0 := by omega
        simp [e]

theorem step_inv (p pre : List Nat) (a c : Nat) (hm : p.length ≤ 64) (h : Inv p pre a) :
    Inv p (pre ++ [c]) (step (masksLoop p) a c) := by
  intro j
  unfold step
  rw [Nat.testBit_and, masks_testBit p hm]
  cases j with
  | zero =>
    rw [sufMatch_zero]
    simp [Nat.testBit_zero]
  | succ j =>
    rw [sufMatch_succ, ← h j]
    simp only [Nat.testBit_or, W, Nat.testBit_mod_two_pow, Nat.testBit_shiftLeft]
    have h1 : (1 : Nat).testBit (j + 1) = false := by
      rw [Nat.testBit_succ]; simp
    by_cases hj : j + 1 < 64
    · simp [hj, h1]
    · have : p[j + 1]? = none := by
        apply List.getElem?_eq_none; omega
      simp [hj, h1, this]

/-! ### the iterator -/

theorem accept_test (p pre : List Nat) (a : Nat) (hm : p.length ≤ 64) (hp : 0 < p.length) (h : Inv p pre a) :
    (a &&& (masksLoop p).accept > 0) ↔ SufMatch p pre (p.length - 1) := by
  rw [accept_eq p hm hp, ← h]
  constructor
  · intro hpos
    have hne : a &&& 2 ^ (p.length - 1) ≠ 0 := by omega
    obtain ⟨i, hi⟩ := Nat.exists_testBit_of_ne_zero hne
    rw [Nat.testBit_and, Nat.testBit_two_pow] at hi
    simp at hi
    obtain ⟨h1, h2⟩ := hi
    subst h2; exact h1
  · intro hb
    have : (a &&& 2 ^ (p.length - 1)).testBit (p.length - 1) = true := by
      rw [Nat.testBit_and, Nat.testBit_two_pow]; simp [hb]
    have hne : a &&& 2 ^ (p.length - 1) ≠ 0 := by
      intro h0; rw [h0] at this; simp at this
    omega

/-- a full-length suffix match at the end of `pre` is an occurrence starting at `|pre| - m` -/
theorem sufMatch_full_iff (p pre : List Nat) (hp : 0 < p.length) :
    SufMatch p pre (p.length - 1) ↔ p.length ≤ pre.length ∧ pre.drop (pre.length - p.length) = p := by
  unfold SufMatch
  constructor
  · rintro ⟨_, h2, h3⟩
    refine ⟨by omega, ?_⟩
    apply List.ext_getElem?
    intro k
    rw [List.getElem?_drop]
    by_cases hk : k ≤ p.length - 1
    · rw [h3 k hk]; congr 1; omega
    · rw [List.getElem?_eq_none (by omega), List.getElem?_eq_none (by omega)]
  · rintro ⟨h1, h2⟩
    refine ⟨by omega, by omega, ?_⟩
    intro k _
    have : p[k]? = (pre.drop (pre.length - p.length))[k]? := by rw [h2]
    rw [this, List.getElem?_drop]; congr 1; omega

theorem occursAt_append_iff (p pre rest : List Nat) (s : Nat) (hs : s + p.length ≤ pre.length) :
    OccursAt p (pre ++ rest) s ↔ OccursAt p pre s := by
  unfold OccursAt
  have h1 : ((pre ++ rest).drop s).take p.length = (pre.drop s).take p.length := by
    rw [List.drop_append_of_le_length (by omega), List.take_append_of_le_length]
    simp; omega
  rw [h1]; simp; omega

theorem occursAt_end_iff (p pre : List Nat) (hp : 0 < p.length) (h : p.length ≤ pre.length) :
    OccursAt p pre (pre.length - p.length) ↔ pre.drop (pre.length - p.length) = p := by
  unfold OccursAt
  constructor
  · rintro ⟨_, h2⟩
    have hl : (pre.drop (pre.length - p.length)).length ≤ p.length := by simp; omega
    rw [List.take_of_length_le hl] at h2; exact h2
  · intro h2
    refine ⟨by omega, ?_⟩
    rw [h2, List.take_of_length_le]; omega

/-- members of the iterator's output: start positions `s` of occurrences that *end* inside the remaining text -/
theorem mem_run (p : List Nat) (hm : p.length ≤ 64) (hp : 0 < p.length) :
    ∀ (rest pre : List Nat) (a : Nat), Inv p pre a → ∀ s,
      s ∈ run (masksLoop p) p.length rest pre.length a ↔
        (pre.length < s + p.length ∧ OccursAt p (pre ++ rest) s) := by
  intro rest
  induction rest with
  | nil =>
    intro pre a _ s
    simp only [run, List.not_mem_nil, List.append_nil, false_iff]
    rintro ⟨h1, h2, _⟩; omega
  | cons c rest ih =>
    intro pre a hinv s
    have hinv' := step_inv p pre a c hm hinv
    have ih' := ih (pre ++ [c]) _ hinv' s
    simp only [List.length_append, List.length_singleton, List.append_assoc, List.singleton_append] at ih'
    have hacc := accept_test p (pre ++ [c]) _ hm hp hinv'
    rw [sufMatch_full_iff p _ hp] at hacc
    simp only [List.length_append, List.length_singleton] at hacc
    -- occurrence ending exactly at the new symbol
    have hend : (p.length ≤ pre.length + 1 ∧ (pre ++ [c]).drop (pre.length + 1 - p.length) = p) ↔
        (p.length ≤ pre.length + 1 ∧ OccursAt p (pre ++ c :: rest) (pre.length + 1 - p.length)) := by
      constructor
      · rintro ⟨h1, h2⟩
        refine ⟨h1, ?_⟩
        have e : pre ++ c :: rest = (pre ++ [c]) ++ rest := by simp
        rw [e, occursAt_append_iff _ _ _ _ (by simp; omega)]
        have := (occursAt_end_iff p (pre ++ [c]) hp (by simp; omega)).mpr (by simpa using h2)
        simpa using this
      · rintro ⟨h1, h2⟩
        refine ⟨h1, ?_⟩
        have e : pre ++ c :: rest = (pre ++ [c]) ++ rest := by simp
        rw [e, occursAt_append_iff _ _ _ _ (by simp; omega)] at h2
        have := (occursAt_end_iff p (pre ++ [c]) hp (by simp; omega)).mp (by simpa using h2)
        simpa using this
    simp only [run]
    split
    · rename_i hpos
      have hocc := hend.mp (hacc.mp hpos)
      simp only [List.mem_cons, ih']
      constructor
      · rintro (rfl | ⟨h1, h2⟩)
        · exact ⟨by omega, hocc.2⟩
        · exact ⟨by omega, h2⟩
      · rintro ⟨h1, h2⟩
        by_cases hs : s = pre.length + 1 - p.length
        · left; exact hs
        · right
          refine ⟨?_, h2⟩
          have := h2.1
          omega
    · rename_i hpos
      rw [ih']
      constructor
      · rintro ⟨h1, h2⟩; exact ⟨by omega, h2⟩
      · rintro ⟨h1, h2⟩
        refine ⟨?_, h2⟩
        by_cases hs : s + p.length = pre.length + 1
        · exfalso
          apply hpos
          apply hacc.mpr
          apply hend.mpr
          refine ⟨by omega, ?_⟩
          have : pre.length + 1 - p.length = s := by omega
          rw [this]; exact h2
        · omega

theorem run_sorted (p : List Nat) (hm : p.length ≤ 64) (hp : 0 < p.length) :
    ∀ (rest pre : List Nat) (a : Nat), Inv p pre a →
      (run (masksLoop p) p.length rest pre.length a).Pairwise (· < ·) := by
  intro rest
  induction rest with
  | nil => intro pre a _; simp [run]
  | cons c rest ih =>
    intro pre a hinv
    have hinv' := step_inv p pre a c hm hinv
    have ih' := ih (pre ++ [c]) _ hinv'
    have hmem := mem_run p hm hp rest (pre ++ [c]) _ hinv'
    simp only [List.length_append, List.length_singleton] at ih' hmem
    have hacc := accept_test p (pre ++ [c]) _ hm hp hinv'
    rw [sufMatch_full_iff p _ hp] at hacc
    simp only [List.length_append, List.length_singleton] at hacc
    simp only [run]
    split
    · rename_i hpos
      have hle := (hacc.mp hpos).1
      rw [List.pairwise_cons]
      refine ⟨?_, ih'⟩
      intro s hs
      have := ((hmem s).mp hs).1
      omega
    · exact ih'

/-- **ShiftAnd is exact**: for every pattern of 1..64 symbols and every text the iterator yields exactly the
ascending list of all occurrence positions. -/
theorem findAll_eq_occurrences (p t : List Nat) (hp : 0 < p.length) (hm : p.length ≤ 64) :
    findAll p t = occurrences p t := by
  apply sorted_eq_of_mem_iff _ _ _ (occurrences_sorted p t)
  · intro s
    have := mem_run p hm hp t [] 0 (inv_nil p) s
    simp only [List.length_nil, List.nil_append] at this
    unfold findAll
    rw [this, mem_occurrences]
    constructor
    · exact fun h => h.2
    · exact fun h => ⟨by omega, h⟩
  · exact run_sorted p hm hp t [] 0 (inv_nil p)

end RbV.ShiftAnd
