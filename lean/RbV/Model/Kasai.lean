import RbV.Ref.SA
import RbV.Ref.SAComplete
/-
Mirror model of `suffix_array::lcp` (Kasai et al.) and its refinement theorem (C03 [B]).

```
for (p, &r) in rank.iter().enumerate().take(n - 1) {
    let pred = pos[r - 1];
    while pred + l < n && p + l < n && text[p + l] == text[pred + l] { l += 1; }
    lcp.set(r, l as isize);
    l = if l > 0 { l - 1 } else { 0 };
}
```
`rank[p]` is modelled by its defining function `sa.idxOf p`.
`kasai_eq_lcpRef`: for a permutation `sa` of all positions that is sorted in (plain) suffix order and starts with
`n-1`, the loop computes `lcpRef t sa`.  The invariant is the classical one: the value of `l` carried into the
iteration for `p` never exceeds the true LCP of suffix `p` with its predecessor (it drops by at most one).
-/
namespace RbV.Kasai
open RbV

/-- the `while` loop (fuel `f`) -/
def extend (t : List Nat) (p pred : Nat) : Nat → Nat → Nat
  | 0, l => l
  | f + 1, l =>
    if pred + l < t.length ∧ p + l < t.length ∧ t.getD (p + l) 0 = t.getD (pred + l) 0 then
      extend t p pred f (l + 1)
    else l

def kasaiGo (t sa : List Nat) : List Nat → Nat → List Int → List Int
  | [], _, lcp => lcp
  | p :: ps, l, lcp =>
    let r := sa.idxOf p
    let pred := sa.getD (r - 1) 0
    let l' := extend t p pred t.length l
    kasaiGo t sa ps (l' - 1) (lcp.set r (l' : Int))

def kasai (t sa : List Nat) : List Int :=
  kasaiGo t sa (List.range (t.length - 1)) 0 (List.replicate (t.length + 1) (-1))

/-! ### the while loop -/

theorem cpl_cons_drop (t : List Nat) (a b : Nat) (ha : a < t.length) (hb : b < t.length) :
    cpl (t.drop a) (t.drop b) =
      if t.getD a 0 = t.getD b 0 then cpl (t.drop (a + 1)) (t.drop (b + 1)) + 1 else 0 := by
  rw [List.drop_eq_getElem_cons ha, List.drop_eq_getElem_cons hb]
  simp only [cpl, List.getD_eq_getElem?_getD, List.getElem?_eq_getElem ha, List.getElem?_eq_getElem hb,
    Option.getD_some]

theorem extend_eq (t : List Nat) (p pred f l : Nat) (hf : t.length ≤ p + l + f) :
    extend t p pred f l = l + cpl (t.drop (p + l)) (t.drop (pred + l)) := by
  induction f generalizing l with
  | zero =>
    have : t.drop (p + l) = [] := List.drop_eq_nil_of_le (by omega)
    simp [extend, this, cpl]
  | succ f ih =>
    simp only [extend]
    split
    · rename_i h
      rw [ih (l + 1) (by omega), cpl_cons_drop t (p + l) (pred + l) h.2.1 h.1, if_pos h.2.2]
      have e1 : p + (l + 1) = p + l + 1 := by omega
      have e2 : pred + (l + 1) = pred + l + 1 := by omega
      rw [e1, e2]; omega
    · rename_i h
      by_cases h1 : p + l < t.length
      · by_cases h2 : pred + l < t.length
        · rw [cpl_cons_drop t (p + l) (pred + l) h1 h2]
          have : ¬ t.getD (p + l) 0 = t.getD (pred + l) 0 := fun e => h ⟨h2, h1, e⟩
          rw [if_neg this]; rfl
        · have : t.drop (pred + l) = [] := List.drop_eq_nil_of_le (by omega)
          rw [this]; cases t.drop (p + l) <;> simp [cpl]
      · have : t.drop (p + l) = [] := List.drop_eq_nil_of_le (by omega)
        rw [this]; simp [cpl]

/-! ### facts about common prefixes and the lexicographic order -/

theorem cpl_add (a b : List Nat) (l : Nat) (h : l ≤ cpl a b) :
    cpl a b = l + cpl (a.drop l) (b.drop l) := by
  induction l generalizing a b with
  | zero => simp
  | succ l ih =>
    cases a with
    | nil => simp [cpl] at h
    | cons x xs =>
      cases b with
      | nil => simp [cpl] at h
      | cons y ys =>
        simp only [cpl] at h ⊢
        split at h
        · rename_i hxy
          simp only [hxy, if_true, List.drop_succ_cons]
          rw [ih xs ys (by omega)]; omega
        · omega

/-- in lexicographic order, an element between two others shares at least as long a prefix with the larger one -/
theorem cpl_sandwich (x y z : List Nat) (h1 : lexLt x y ∨ x = y) (h2 : lexLt y z) : cpl x z ≤ cpl y z := by
  rcases h1 with h1 | h1
  · induction x generalizing y z with
    | nil => simp [cpl]
    | cons a xs ih =>
      cases y with
      | nil => simp [lexLt] at h1
      | cons b ys =>
        cases z with
        | nil => simp [lexLt] at h2
        | cons c zs =>
          simp only [lexLt] at h1 h2
          simp only [cpl]
          by_cases hac : a = c
          · subst hac
            have hb : b = a := by
              rcases h1 with h | ⟨h, _⟩ <;> rcases h2 with h' | ⟨h', _⟩ <;> omega
            subst hb
            simp only [if_true]
            have h1' : lexLt xs ys := by rcases h1 with h | ⟨_, h⟩; · omega
                                         · exact h
            have h2' : lexLt ys zs := by rcases h2 with h | ⟨_, h⟩; · omega
                                         · exact h
            have := ih ys zs h2' h1'
            omega
          · simp [hac]
  · subst h1; exact Nat.le_refl _

/-! ### facts about a sorted permutation -/

structure Sorted (t sa : List Nat) : Prop where
  perm : sa.Perm (List.range t.length)
  sorted : sa.Pairwise (fun i j => lexLt (t.drop i) (t.drop j))
  head : sa.head? = some (t.length - 1)

theorem Sorted.length {t sa : List Nat} (h : Sorted t sa) : sa.length = t.length := by
  have := h.perm.length_eq; simpa using this

theorem Sorted.nodup {t sa : List Nat} (h : Sorted t sa) : sa.Nodup :=
  (h.perm.nodup_iff).mpr List.nodup_range

theorem Sorted.rank_lt {t sa : List Nat} (h : Sorted t sa) (p : Nat) (hp : p < t.length) :
    sa.idxOf p < sa.length := by
  apply List.idxOf_lt_length_iff.mpr
  rw [h.perm.mem_iff, List.mem_range]; exact hp

theorem Sorted.getD_rank {t sa : List Nat} (h : Sorted t sa) (p : Nat) (hp : p < t.length) :
    sa.getD (sa.idxOf p) 0 = p := by
  have hl := h.rank_lt p hp
  rw [List.getD_eq_getElem?_getD, List.getElem?_eq_getElem hl, Option.getD_some]
  exact List.getElem_idxOf hl

theorem Sorted.getD_lt {t sa : List Nat} (h : Sorted t sa) (r : Nat) (hr : r < t.length) :
    sa.getD r 0 < t.length := by
  have hl : r < sa.length := by rw [h.length]; exact hr
  rw [List.getD_eq_getElem?_getD, List.getElem?_eq_getElem hl, Option.getD_some]
  have : sa[r] ∈ List.range t.length := h.perm.mem_iff.mp (List.getElem_mem hl)
  exact List.mem_range.mp this

theorem Sorted.rank_getD {t sa : List Nat} (h : Sorted t sa) (r : Nat) (hr : r < t.length) :
    sa.idxOf (sa.getD r 0) = r := by
  have hl : r < sa.length := by rw [h.length]; exact hr
  rw [List.getD_eq_getElem?_getD, List.getElem?_eq_getElem hl, Option.getD_some]
  exact h.nodup.idxOf_getElem r hl

/-- rows are ordered like their suffixes -/
theorem Sorted.lt_of_rank_lt {t sa : List Nat} (h : Sorted t sa) (i j : Nat) (hij : i < j) (hj : j < t.length) :
    lexLt (t.drop (sa.getD i 0)) (t.drop (sa.getD j 0)) := by
  have hi' : i < sa.length := by rw [h.length]; omega
  have hj' : j < sa.length := by rw [h.length]; omega
  have := List.pairwise_iff_getElem.mp h.sorted i j hi' hj' hij
  simpa [List.getD_eq_getElem?_getD, List.getElem?_eq_getElem hi', List.getElem?_eq_getElem hj'] using this

theorem Sorted.rank_lt_of_lt {t sa : List Nat} (h : Sorted t sa) (x y : Nat) (hx : x < t.length)
    (hy : y < t.length) (hlt : lexLt (t.drop x) (t.drop y)) : sa.idxOf x < sa.idxOf y := by
  have rx := h.rank_lt x hx
  have ry := h.rank_lt y hy
  rw [h.length] at rx ry
  rcases Nat.lt_trichotomy (sa.idxOf x) (sa.idxOf y) with h1 | h1 | h1
  · exact h1
  · have : x = y := by rw [← h.getD_rank x hx, ← h.getD_rank y hy, h1]
    subst this; exact absurd hlt (lexLt_irrefl _)
  · have := h.lt_of_rank_lt _ _ h1 rx
    rw [h.getD_rank x hx, h.getD_rank y hy] at this
    exact absurd hlt (lexLt_asymm this)

theorem Sorted.rank_last {t sa : List Nat} (h : Sorted t sa) (_hn : 0 < t.length) :
    sa.idxOf (t.length - 1) = 0 := by
  have hh := h.head
  cases sa with
  | nil => simp at hh
  | cons a l => simp at hh; subst hh; simp

/-- LCP of suffix `p` with its predecessor in the array -/
def lcpOf (t sa : List Nat) (p : Nat) : Nat :=
  cpl (t.drop p) (t.drop (sa.getD (sa.idxOf p - 1) 0))

/-- **Kasai's inequality**: the LCP with the predecessor drops by at most one from position `p` to `p+1` -/
theorem kasai_ineq (t sa : List Nat) (h : Sorted t sa) (p : Nat) (hp : p + 1 < t.length)
    (hr : 0 < sa.idxOf p) : lcpOf t sa p - 1 ≤ lcpOf t sa (p + 1) := by
  by_cases hl : lcpOf t sa p ≤ 1
  · omega
  · have hl2 : 2 ≤ lcpOf t sa p := by omega
    have hpn : p < t.length := by omega
    have rp := h.rank_lt p hpn
    rw [h.length] at rp
    -- predecessor q of p
    have hqn : sa.getD (sa.idxOf p - 1) 0 < t.length := h.getD_lt _ (by omega)
    have hqp : lexLt (t.drop (sa.getD (sa.idxOf p - 1) 0)) (t.drop p) := by
      have := h.lt_of_rank_lt (sa.idxOf p - 1) (sa.idxOf p) (by omega) rp
      rwa [h.getD_rank p hpn] at this
    generalize hq : sa.getD (sa.idxOf p - 1) 0 = q at hqn hqp
    have hLq : lcpOf t sa p = cpl (t.drop p) (t.drop q) := by unfold lcpOf; rw [hq]
    rw [hLq] at hl2 ⊢
    -- first symbols agree, q + 1 is a position
    have hq1 : q + 1 < t.length := by
      have := cpl_le_right (t.drop p) (t.drop q)
      rw [List.length_drop] at this; omega
    have hc := cpl_cons_drop t p q hpn hqn
    have hhead : t.getD p 0 = t.getD q 0 := by
      apply Classical.byContradiction; intro hne; rw [if_neg hne] at hc; omega
    rw [if_pos hhead] at hc
    -- suffix q+1 < suffix p+1
    have hlt1 : lexLt (t.drop (q + 1)) (t.drop (p + 1)) := by
      rw [List.drop_eq_getElem_cons hqn, List.drop_eq_getElem_cons hpn] at hqp
      simp only [lexLt] at hqp
      have e : t[q] = t[p] := by
        simpa [List.getD_eq_getElem?_getD, List.getElem?_eq_getElem hpn, List.getElem?_eq_getElem hqn]
          using hhead.symm
      rcases hqp with h' | ⟨_, h'⟩
      · omega
      · exact h'
    have hrk := h.rank_lt_of_lt (q + 1) (p + 1) hq1 hp hlt1
    have rp1 := h.rank_lt (p + 1) hp
    rw [h.length] at rp1
    -- the predecessor z of p+1 lies between q+1 and p+1
    have hzle : lexLt (t.drop (q + 1)) (t.drop (sa.getD (sa.idxOf (p + 1) - 1) 0)) ∨
        t.drop (q + 1) = t.drop (sa.getD (sa.idxOf (p + 1) - 1) 0) := by
      by_cases he : sa.idxOf (q + 1) = sa.idxOf (p + 1) - 1
      · right; rw [← he, h.getD_rank (q + 1) hq1]
      · left
        have := h.lt_of_rank_lt (sa.idxOf (q + 1)) (sa.idxOf (p + 1) - 1) (by omega) (by omega)
        rwa [h.getD_rank (q + 1) hq1] at this
    have hzlt : lexLt (t.drop (sa.getD (sa.idxOf (p + 1) - 1) 0)) (t.drop (p + 1)) := by
      have := h.lt_of_rank_lt (sa.idxOf (p + 1) - 1) (sa.idxOf (p + 1)) (by omega) rp1
      rwa [h.getD_rank (p + 1) hp] at this
    have hs := cpl_sandwich _ _ _ hzle hzlt
    unfold lcpOf
    rw [cpl_comm (t.drop (p + 1)) _]
    rw [cpl_comm (t.drop (q + 1)) (t.drop (p + 1))] at hs
    omega

/-! ### the loop -/

/-- expected content of the LCP array when the positions `< p` have been processed -/
def expectAt (t sa : List Nat) (p r : Nat) : Int :=
  if 1 ≤ r ∧ r < t.length ∧ sa.getD r 0 < p then (lcpOf t sa (sa.getD r 0) : Int) else -1

theorem kasaiGo_spec (t sa : List Nat) (h : Sorted t sa) (hn : 0 < t.length) :
    ∀ (d p l : Nat) (lcp : List Int), p + d = t.length - 1 → (d = 0 ∨ l ≤ lcpOf t sa p) →
      lcp.length = t.length + 1 →
      (∀ r, r ≤ t.length → lcp[r]? = some (expectAt t sa p r)) →
      ∀ r, r ≤ t.length →
        (kasaiGo t sa (List.range' p d) l lcp)[r]? = some (expectAt t sa (t.length - 1) r) := by
  intro d
  induction d with
  | zero =>
    intro p l lcp hpd _ _ hinv r hr
    have : p = t.length - 1 := by omega
    subst this
    simpa [kasaiGo] using hinv r hr
  | succ d ih =>
    intro p l lcp hpd hl hlen hinv r hr
    have hl' : l ≤ lcpOf t sa p := by rcases hl with h0 | h0; · omega
                                      · exact h0
    have hpn : p < t.length - 1 := by omega
    have hpn' : p < t.length := by omega
    rw [List.range'_succ]
    simp only [kasaiGo]
    -- rank of p is at least 1 (rank 0 belongs to n-1)
    have rp := h.rank_lt p hpn'
    rw [h.length] at rp
    have rpos : 0 < sa.idxOf p := by
      apply Nat.pos_of_ne_zero
      intro hz
      have e1 := h.getD_rank p hpn'
      have e2 := h.getD_rank (t.length - 1) (by omega)
      rw [h.rank_last hn] at e2
      rw [hz, e2] at e1
      omega
    -- the while loop reaches the true LCP
    have hext : extend t p (sa.getD (sa.idxOf p - 1) 0) t.length l = lcpOf t sa p := by
      rw [extend_eq t p _ t.length l (by omega)]
      unfold lcpOf at hl' ⊢
      have := cpl_add _ _ l hl'
      rw [List.drop_drop, List.drop_drop] at this
      omega
    rw [hext]
    apply ih (p + 1) (lcpOf t sa p - 1) _ (by omega) ?_ (by rw [List.length_set]; exact hlen) ?_ r hr
    · by_cases hd : d = 0
      · left; exact hd
      · right; exact kasai_ineq t sa h p (by omega) rpos
    · intro r' hr'
      rw [List.getElem?_set]
      by_cases he : sa.idxOf p = r'
      · subst he
        rw [if_pos rfl, if_pos (by omega)]
        unfold expectAt
        rw [if_pos ⟨rpos, rp, by rw [h.getD_rank p hpn']; omega⟩, h.getD_rank p hpn']
      · rw [if_neg he, hinv r' hr']
        unfold expectAt
        by_cases hc : 1 ≤ r' ∧ r' < t.length
        · have hne : sa.getD r' 0 ≠ p := by
            intro e
            have := h.rank_getD r' hc.2
            rw [e] at this
            exact he this
          by_cases hlt : sa.getD r' 0 < p
          · rw [if_pos ⟨hc.1, hc.2, hlt⟩, if_pos ⟨hc.1, hc.2, by omega⟩]
          · rw [if_neg (fun hh => hlt hh.2.2), if_neg (fun hh => hlt (by have := hh.2.2; omega))]
        · rw [if_neg (fun hh => hc ⟨hh.1, hh.2.1⟩), if_neg (fun hh => hc ⟨hh.1, hh.2.1⟩)]

/-- **The Kasai loop computes the LCP array** of every sorted suffix permutation that starts with `n-1`. -/
theorem kasai_eq_lcpRef (t sa : List Nat) (h : Sorted t sa) (hn : 0 < t.length) :
    kasai t sa = lcpRef t sa := by
  have hlen := h.length
  have hsa : sa ≠ [] := by intro e; rw [e] at hlen; simp at hlen; omega
  have hspec := kasaiGo_spec t sa h hn (t.length - 1) 0 0 (List.replicate (t.length + 1) (-1))
    (by omega) (by
      by_cases hd : t.length - 1 = 0
      · left; exact hd
      · right; omega) (by simp)
    (by
      intro r hr
      rw [List.getElem?_replicate, if_pos (by omega)]
      unfold expectAt
      rw [if_neg (by omega)])
  apply List.ext_getElem?
  intro r
  by_cases hr : r ≤ t.length
  · have e : List.range' 0 (t.length - 1) = List.range (t.length - 1) := by
      rw [List.range_eq_range']
    unfold kasai
    rw [← e, hspec r hr]
    unfold expectAt
    by_cases h0 : r = 0
    · subst h0; rw [if_neg (by omega), (lcpRef_ends t sa).1]
    · by_cases hnn : r = t.length
      · subst hnn
        rw [if_neg (by omega)]
        have hl := length_lcpRef t sa hsa
        have := (lcpRef_ends t sa).2
        rw [List.getLast?_eq_getElem?, hl, hlen] at this
        simpa using this.symm
      · have hr1 : r - 1 + 1 = r := by omega
        have hin := lcpRef_inner t sa (r - 1) (by rw [hlen]; omega)
        rw [hr1] at hin
        rw [hin]
        have hne : sa.getD r 0 ≠ t.length - 1 := by
          intro e'
          have := h.rank_getD r (by omega)
          rw [e', h.rank_last hn] at this
          omega
        have hlt := h.getD_lt r (by omega)
        rw [if_pos ⟨by omega, by omega, by omega⟩]
        unfold lcpOf
        rw [h.rank_getD r (by omega), cpl_comm]
  · have l1 : (kasai t sa).length = t.length + 1 := by
      -- length is preserved by `set`
      have : ∀ (ps : List Nat) (l : Nat) (lcp : List Int), (kasaiGo t sa ps l lcp).length = lcp.length := by
        intro ps
        induction ps with
        | nil => intro l lcp; rfl
        | cons p ps ih => intro l lcp; simp only [kasaiGo]; rw [ih]; simp
      unfold kasai; rw [this]; simp
    have l2 := length_lcpRef t sa hsa
    rw [List.getElem?_eq_none (by omega), List.getElem?_eq_none (by omega)]

end RbV.Kasai

namespace RbV.Kasai
open RbV

/-- for a text whose only sentinel is the final symbol (and smallest), an accepted suffix array is sorted in the
plain byte order of the suffixes — the hypothesis of `kasai_eq_lcpRef` -/
theorem sorted_of_checkSA_single (t sa : List Nat) (hc : checkSA t sa = true)
    (hsingle : ∀ p, IsSentPos t p → p = t.length - 1)
    (hmin : ∀ p, p < t.length → sentinelOf t ≤ t.getD p 0) : Sorted t sa := by
  have hc' := hc
  unfold checkSA at hc'
  simp only [Bool.and_eq_true, beq_iff_eq, Bool.not_eq_true', List.isEmpty_eq_false_iff] at hc'
  obtain ⟨⟨hh, hne⟩, _⟩ := hc'
  obtain ⟨B, rk, ho, hp, hpw⟩ := checkSA_isSA t sa hc
  rw [length_keyText] at hp
  refine ⟨hp, ?_, hh⟩
  have hiso : ∀ p q, p < (keyText t B rk).length → q < (keyText t B rk).length →
      ((keyText t B rk).getD p 0 < (keyText t B rk).getD q 0 ↔ t.getD p 0 < t.getD q 0) := by
    intro p q hp' hq'
    rw [length_keyText] at hp' hq'
    rw [getD_keyText t B rk p hp', getD_keyText t B rk q hq', keyAt_lt_iff t B rk ho]
    have hval : ∀ x, x < t.length → (IsSentPos t x ↔ t.getD x 0 = sentinelOf t) := by
      intro x hx
      unfold IsSentPos
      rw [List.getD_eq_getElem?_getD, List.getElem?_eq_getElem hx]
      simp
    by_cases hsp : IsSentPos t p <;> by_cases hsq : IsSentPos t q
    · have e1 := hsingle p hsp
      have e2 := hsingle q hsq
      have : p = q := by omega
      subst this
      simp [hsp]
    · have e1 := (hval p hp').mp hsp
      have e2 : t.getD q 0 ≠ sentinelOf t := fun e => hsq ((hval q hq').mpr e)
      have := hmin q hq'
      simp only [hsp, hsq, not_true_eq_false, not_false_eq_true, true_and, false_and, and_false, and_true,
        or_false, true_iff, or_true]
      omega
    · have e1 := (hval q hq').mp hsq
      have := hmin p hp'
      simp only [hsp, hsq, not_true_eq_false, not_false_eq_true, true_and, false_and, and_false,
        or_false, false_iff]
      omega
    · simp [hsp, hsq]
  refine hpw.imp ?_
  intro a b hab
  unfold sufLt at hab
  exact (lexLt_drop_congr (keyText t B rk) t (length_keyText t B rk) hiso _ a b rfl).mp hab

end RbV.Kasai
