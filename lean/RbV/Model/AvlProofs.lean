import RbV.Ref.AvlCheck
/-!
# Proofs about the AVL mirror model (`RbV/Model/Avl.lean`) — for every insertion history

* `toList_insert_perm`   the multiset of payloads grows by exactly the inserted entry
* `insert_ordered`       in-order starts stay non-decreasing
* `insert_good`          fields (`max`, `height`) stay exact, every node stays balanced, height grows by ≤ 1
* `findLoop_perm`        the pruned stack search reports exactly the overlapping entries (under `SearchInv`)
* `insertP_eq_some`      the `unwrap`/`expect` panics of `repair`/`rotate_*` are never reached
Core Lean only.
-/
namespace RbV.Avl
open RbV.Ivl

/-! ## rotations and `repair` keep the in-order sequence -/

@[simp] theorem toList_mk (l : Tree) (e : Entry) (r : Tree) : toList (mk l e r) = toList l ++ e :: toList r := rfl

@[simp] theorem ht_node (l : Tree) (e : Entry) (mx : Int) (h : Nat) (r : Tree) : ht (.node l e mx h r) = h := rfl

@[simp] theorem ht_nil : ht .nil = 0 := rfl

@[simp] theorem ht_mk (l : Tree) (e : Entry) (r : Tree) : ht (mk l e r) = 1 + max (ht l) (ht r) := rfl

theorem toList_rotateLeft (t : Tree) : toList (rotateLeft t) = toList t := by
  unfold rotateLeft
  split
  · simp [toList]
  · rfl

theorem toList_rotateRight (t : Tree) : toList (rotateRight t) = toList t := by
  unfold rotateRight
  split
  · simp [toList]
  · rfl

theorem toList_repair (t : Tree) : toList (repair t) = toList t := by
  unfold repair
  split
  · rfl
  · rename_i l x mx h r
    simp only
    split
    · rfl
    · split
      · rw [toList_rotateLeft]
        simp only [toList]
        congr 2
        split
        · split
          · rw [toList_rotateRight]
          · rfl
        · rfl
      · rw [toList_rotateRight]
        simp only [toList]
        congr 1
        split
        · split
          · rw [toList_rotateLeft]
          · rfl
        · rfl

theorem toList_insert_perm : ∀ (t : Tree) (e : Entry), (toList (insert t e)).Perm (e :: toList t)
  | .nil, e => by simp [insert, leaf, toList]
  | .node l x mx h r, e => by
    unfold insert
    split
    · rw [toList_repair]
      simp only [toList]
      have ih := toList_insert_perm l e
      exact (List.Perm.append_right _ ih)
    · rw [toList_repair]
      simp only [toList]
      have ih := toList_insert_perm r e
      have : (toList l ++ x :: toList (insert r e)).Perm (toList l ++ x :: e :: toList r) :=
        List.Perm.append_left _ (List.Perm.cons _ ih)
      refine this.trans ?_
      have h1 : (toList l ++ x :: e :: toList r).Perm (toList l ++ e :: x :: toList r) :=
        List.Perm.append_left _ (List.Perm.swap _ _ _)
      refine h1.trans ?_
      exact List.perm_middle

theorem size_eq_length : ∀ t, size t = (toList t).length
  | .nil => rfl
  | .node l e mx h r => by simp [size, toList, size_eq_length l, size_eq_length r]; omega

theorem size_insert (t : Tree) (e : Entry) : size (insert t e) = size t + 1 := by
  rw [size_eq_length, size_eq_length, (toList_insert_perm t e).length_eq]; rfl

/-! ## order -/

theorem insert_sorted (t : Tree) (e : Entry) (hs : Sorted t) : Sorted (insert t e) := by
  induction t with
  | nil => simp [Sorted, insert, leaf, toList]
  | node l x mx h r ihl ihr =>
    have ho := ordered_of_sorted _ hs
    obtain ⟨ol, or', h1, h2⟩ := ho
    have sl := sorted_of_ordered l ol
    have sr := sorted_of_ordered r or'
    unfold insert
    split
    · rename_i hle
      unfold Sorted
      rw [toList_repair]
      simp only [toList]
      rw [List.pairwise_append, List.pairwise_cons]
      refine ⟨ihl sl, ⟨h2, sr⟩, ?_⟩
      intro a ha b hb
      have ha' : a = e ∨ a ∈ toList l := by
        have := (toList_insert_perm l e).subset ha
        simpa using this
      have hax : a.lo ≤ x.lo := by
        rcases ha' with ha' | ha'
        · subst ha'; exact hle
        · exact h1 a ha'
      simp only [List.mem_cons] at hb
      rcases hb with hb | hb
      · subst hb; exact hax
      · have := h2 b hb; omega
    · rename_i hle
      unfold Sorted
      rw [toList_repair]
      simp only [toList]
      rw [List.pairwise_append, List.pairwise_cons]
      have hmem : ∀ b ∈ toList (insert r e), x.lo ≤ b.lo := by
        intro b hb
        have := (toList_insert_perm r e).subset hb
        simp only [List.mem_cons] at this
        rcases this with hb' | hb'
        · subst hb'; omega
        · exact h2 b hb'
      refine ⟨sl, ⟨hmem, ihr sr⟩, ?_⟩
      intro a ha b hb
      simp only [List.mem_cons] at hb
      rcases hb with hb | hb
      · subst hb; exact h1 a ha
      · have := h1 a ha; have := hmem b hb; omega

/-! ## fields and balance -/

/-- fields exact and balanced (on the stored heights, which are then the true ones) -/
def Good (t : Tree) : Prop := Fields t ∧ BalF t

theorem good_nil : Good .nil := ⟨trivial, trivial⟩

theorem good_node_iff (l : Tree) (e : Entry) (mx : Int) (h : Nat) (r : Tree) :
    Good (.node l e mx h r) ↔
      Good l ∧ Good r ∧ mx = updMax l e r ∧ h = updHeight l r ∧ ht l ≤ ht r + 1 ∧ ht r ≤ ht l + 1 := by
  simp only [Good, Fields, BalF]
  constructor
  · intro ⟨⟨a, b, c, d⟩, ⟨e', f, g, i⟩⟩; exact ⟨⟨a, e'⟩, ⟨b, f⟩, c, d, g, i⟩
  · intro ⟨⟨a, e'⟩, ⟨b, f⟩, c, d, g, i⟩; exact ⟨⟨a, b, c, d⟩, ⟨e', f, g, i⟩⟩

theorem good_mk (l : Tree) (e : Entry) (r : Tree) (gl : Good l) (gr : Good r) (h1 : ht l ≤ ht r + 1)
    (h2 : ht r ≤ ht l + 1) : Good (mk l e r) := by
  unfold mk
  rw [good_node_iff]
  exact ⟨gl, gr, rfl, rfl, h1, h2⟩

theorem good_leaf (e : Entry) : Good (leaf e) := by
  unfold leaf
  rw [good_node_iff]
  exact ⟨good_nil, good_nil, rfl, rfl, by simp, by simp⟩

/-- a tree with exact fields and positive stored height is a node whose height is determined by its children -/
theorem good_ht_pos (t : Tree) (g : Good t) (hp : 0 < ht t) :
    ∃ l e mx h r, t = .node l e mx h r ∧ Good l ∧ Good r ∧ h = 1 + max (ht l) (ht r) ∧ ht l ≤ ht r + 1 ∧
      ht r ≤ ht l + 1 := by
  cases t with
  | nil => simp at hp
  | node l e mx h r =>
    rw [good_node_iff] at g
    obtain ⟨gl, gr, _, hh, b1, b2⟩ := g
    exact ⟨l, e, mx, h, r, rfl, gl, gr, hh, b1, b2⟩

/-- `repair` on a node whose children are good and differ by at most 2 in height -/
theorem repair_good (l : Tree) (x : Entry) (mx : Int) (h : Nat) (r : Tree) (gl : Good l) (gr : Good r)
    (h1 : ht l ≤ ht r + 2) (h2 : ht r ≤ ht l + 2) :
    Good (repair (.node l x mx h r)) ∧ max (ht l) (ht r) ≤ ht (repair (.node l x mx h r)) ∧
      ht (repair (.node l x mx h r)) ≤ 1 + max (ht l) (ht r) := by
  by_cases hb : ht l ≤ ht r + 1 ∧ ht r ≤ ht l + 1
  · have : repair (.node l x mx h r) = mk l x r := by simp [repair, hb]
    rw [this]
    exact ⟨good_mk l x r gl gr hb.1 hb.2, by simp only [ht_mk]; omega, by simp only [ht_mk]; omega⟩
  · by_cases hgt : ht r > ht l
    · -- right-heavy by exactly 2
      obtain ⟨rl, y, rmx, rh, rr, rfl, grl, grr, hrh, b1, b2⟩ := good_ht_pos r gr (by omega)
      simp only [ht_node] at h1 h2 hb hgt
      by_cases hd : ht rl > ht rr
      · obtain ⟨a, z, amx, ah, b, rfl, ga, gb, hah, c1, c2⟩ := good_ht_pos rl grl (by omega)
        simp only [ht_node] at hd b1 b2 hrh
        have : repair (.node l x mx h (.node (.node a z amx ah b) y rmx rh rr)) =
            mk (mk l x a) z (mk b y rr) := by
          simp [repair, ht_node, hb, hgt, hd, rotateLeft, rotateRight, mk]
        rw [this]
        refine ⟨good_mk _ _ _ (good_mk _ _ _ gl ga (by omega) (by omega)) (good_mk _ _ _ gb grr (by omega) (by omega))
          (by simp only [ht_mk]; omega) (by simp only [ht_mk]; omega), ?_, ?_⟩ <;>
          simp only [ht_mk, ht_node] <;> omega
      · have : repair (.node l x mx h (.node rl y rmx rh rr)) = mk (mk l x rl) y rr := by
          simp [repair, ht_node, hb, hgt, hd, rotateLeft]
        rw [this]
        refine ⟨good_mk _ _ _ (good_mk _ _ _ gl grl (by omega) (by omega)) grr
          (by simp only [ht_mk]; omega) (by simp only [ht_mk]; omega), ?_, ?_⟩ <;>
          simp only [ht_mk, ht_node] <;> omega
    · -- left-heavy by exactly 2
      obtain ⟨ll, y, lmx, lh, lr, rfl, gll, glr, hlh, b1, b2⟩ := good_ht_pos l gl (by omega)
      simp only [ht_node] at h1 h2 hb hgt
      by_cases hd : ht lr > ht ll
      · obtain ⟨a, z, amx, ah, b, rfl, ga, gb, hah, c1, c2⟩ := good_ht_pos lr glr (by omega)
        simp only [ht_node] at hd b1 b2 hlh
        have : repair (.node (.node ll y lmx lh (.node a z amx ah b)) x mx h r) =
            mk (mk ll y a) z (mk b x r) := by
          simp [repair, ht_node, hb, hgt, hd, rotateLeft, rotateRight, mk]
        rw [this]
        refine ⟨good_mk _ _ _ (good_mk _ _ _ gll ga (by omega) (by omega)) (good_mk _ _ _ gb gr (by omega) (by omega))
          (by simp only [ht_mk]; omega) (by simp only [ht_mk]; omega), ?_, ?_⟩ <;>
          simp only [ht_mk, ht_node] <;> omega
      · have : repair (.node (.node ll y lmx lh lr) x mx h r) = mk ll y (mk lr x r) := by
          simp [repair, ht_node, hb, hgt, hd, rotateRight]
        rw [this]
        refine ⟨good_mk _ _ _ gll (good_mk _ _ _ glr gr (by omega) (by omega))
          (by simp only [ht_mk]; omega) (by simp only [ht_mk]; omega), ?_, ?_⟩ <;>
          simp only [ht_mk, ht_node] <;> omega

/-- insertion keeps fields exact and the tree balanced; the height grows by at most one -/
theorem insert_good : ∀ (t : Tree) (e : Entry), Good t →
    Good (insert t e) ∧ ht t ≤ ht (insert t e) ∧ ht (insert t e) ≤ ht t + 1
  | .nil, e, _ => by
    simp only [insert]
    exact ⟨good_leaf e, by simp [leaf], by simp [leaf]⟩
  | .node l x mx h r, e, g => by
    rw [good_node_iff] at g
    obtain ⟨gl, gr, _, hh, b1, b2⟩ := g
    simp only [updHeight] at hh
    unfold insert
    split
    · obtain ⟨gi, i1, i2⟩ := insert_good l e gl
      obtain ⟨gres, r1, r2⟩ := repair_good (insert l e) x mx h r gi gr (by omega) (by omega)
      refine ⟨gres, ?_, ?_⟩
      · simp only [ht_node]
        by_cases hbal : ht (insert l e) ≤ ht r + 1 ∧ ht r ≤ ht (insert l e) + 1
        · have : repair (.node (insert l e) x mx h r) = mk (insert l e) x r := by simp [repair, hbal]
          rw [this, ht_mk]; omega
        · omega
      · simp only [ht_node]
        by_cases hbal : ht (insert l e) ≤ ht r + 1 ∧ ht r ≤ ht (insert l e) + 1
        · have : repair (.node (insert l e) x mx h r) = mk (insert l e) x r := by simp [repair, hbal]
          rw [this, ht_mk]; omega
        · omega
    · obtain ⟨gi, i1, i2⟩ := insert_good r e gr
      obtain ⟨gres, r1, r2⟩ := repair_good l x mx h (insert r e) gl gi (by omega) (by omega)
      refine ⟨gres, ?_, ?_⟩
      · simp only [ht_node]
        by_cases hbal : ht l ≤ ht (insert r e) + 1 ∧ ht (insert r e) ≤ ht l + 1
        · have : repair (.node l x mx h (insert r e)) = mk l x (insert r e) := by simp [repair, hbal]
          rw [this, ht_mk]; omega
        · omega
      · simp only [ht_node]
        by_cases hbal : ht l ≤ ht (insert r e) + 1 ∧ ht (insert r e) ≤ ht l + 1
        · have : repair (.node l x mx h (insert r e)) = mk l x (insert r e) := by simp [repair, hbal]
          rw [this, ht_mk]; omega
        · omega

/-! ## the pruned search -/

/-- every stored interval has positive width -/
def PosW (t : Tree) : Prop := ∀ e ∈ toList t, e.lo < e.hi

/-- what one tree on the stack still has to contribute -/
def answer (q : Query) (t : Tree) : List Entry := expected (toList t) q

theorem answer_nil (q : Query) : answer q .nil = [] := rfl

theorem flatMap_push (q : Query) (t : Tree) (s : List Tree) :
    (push t s).flatMap (answer q) = answer q t ++ s.flatMap (answer q) := by
  cases t <;> simp [push, answer_nil]

theorem mem_push {t' t : Tree} {s : List Tree} (h : t' ∈ push t s) : t' = t ∨ t' ∈ s := by
  cases t with
  | nil => exact Or.inr h
  | node l e mx hh r => simpa [push] using h

theorem intersect_iff (q : Query) (e : Entry) (hq : q.lo < q.hi) (he : e.lo < e.hi) :
    intersect q e = true ↔ Overlaps q e := by
  simp only [intersect, Overlaps, Bool.and_eq_true, decide_eq_true_eq]
  omega

theorem answer_node (q : Query) (l : Tree) (e : Entry) (mx : Int) (h : Nat) (r : Tree) :
    answer q (.node l e mx h r) =
      answer q l ++ (if Overlaps q e then [e] else []) ++ answer q r := by
  simp only [answer, expected, toList, List.filter_append, List.filter_cons]
  split <;> simp_all

theorem answer_eq_nil (q : Query) (t : Tree) (h : ∀ a ∈ toList t, ¬ Overlaps q a) : answer q t = [] := by
  simp only [answer, expected, List.filter_eq_nil_iff, decide_eq_true_eq]
  exact h

theorem findLoop_perm (q : Query) (hq : q.lo < q.hi) : ∀ (s : List Tree),
    (∀ t ∈ s, SearchInv t ∧ PosW t) → (findLoop q s).Perm (s.flatMap (answer q)) := by
  intro s
  fun_induction findLoop q s with
  | case1 => intro _; simp
  | case2 s ih =>
    intro hs
    simp only [List.flatMap_cons, answer_nil, List.nil_append]
    exact ih (fun t hmem => hs t (List.mem_cons_of_mem _ hmem))
  | case3 l e mx h r s h1 h2 h3 ih =>
    -- visited, both children pushed, node reported
    intro hs
    obtain ⟨hsi, hpw⟩ := hs (.node l e mx h r) (by simp)
    obtain ⟨sl, sr, hmx, hord⟩ := hsi
    have pl : PosW l := fun a ha => hpw a (by simp [toList, ha])
    have pr : PosW r := fun a ha => hpw a (by simp [toList, ha])
    have he : e.lo < e.hi := hpw e (by simp [toList])
    have hov : Overlaps q e := (intersect_iff q e hq he).mp h3
    have hs' : ∀ t ∈ push r (push l s), SearchInv t ∧ PosW t := by
      intro t hmem
      rcases mem_push hmem with rfl | hmem
      · exact ⟨sr, pr⟩
      · rcases mem_push hmem with rfl | hmem
        · exact ⟨sl, pl⟩
        · exact hs t (List.mem_cons_of_mem _ hmem)
    have ih' := ih hs'
    rw [flatMap_push, flatMap_push] at ih'
    simp only [List.flatMap_cons, answer_node, hov, if_true]
    refine (List.Perm.cons e ih').trans ?_
    -- e :: (R ++ (L ++ S)) ~ (L ++ [e] ++ R) ++ S
    have : (e :: (answer q r ++ (answer q l ++ s.flatMap (answer q)))).Perm
        ((answer q l ++ [e] ++ answer q r) ++ s.flatMap (answer q)) := by
      rw [← List.append_assoc, ← List.cons_append]
      apply List.Perm.append_right
      have h1 : (e :: (answer q r ++ answer q l)).Perm (e :: (answer q l ++ answer q r)) :=
        List.Perm.cons _ List.perm_append_comm
      refine h1.trans ?_
      simp only [List.append_assoc, List.singleton_append]
      exact List.perm_middle.symm
    exact this
  | case4 l e mx h r s h1 h2 h3 ih =>
    -- visited, both children pushed, node itself does not intersect
    intro hs
    obtain ⟨hsi, hpw⟩ := hs (.node l e mx h r) (by simp)
    obtain ⟨sl, sr, hmx, hord⟩ := hsi
    have pl : PosW l := fun a ha => hpw a (by simp [toList, ha])
    have pr : PosW r := fun a ha => hpw a (by simp [toList, ha])
    have he : e.lo < e.hi := hpw e (by simp [toList])
    have hov : ¬ Overlaps q e := fun hc => h3 ((intersect_iff q e hq he).mpr hc)
    have hs' : ∀ t ∈ push r (push l s), SearchInv t ∧ PosW t := by
      intro t hmem
      rcases mem_push hmem with rfl | hmem
      · exact ⟨sr, pr⟩
      · rcases mem_push hmem with rfl | hmem
        · exact ⟨sl, pl⟩
        · exact hs t (List.mem_cons_of_mem _ hmem)
    have ih' := ih hs'
    rw [flatMap_push, flatMap_push] at ih'
    simp only [List.flatMap_cons, answer_node, hov, if_false, List.append_nil]
    refine ih'.trans ?_
    rw [← List.append_assoc]
    exact List.Perm.append_right _ List.perm_append_comm
  | case5 l e mx h r s h1 h2 ih =>
    -- query ends before this node starts: nothing here or to the right
    intro hs
    obtain ⟨hsi, hpw⟩ := hs (.node l e mx h r) (by simp)
    obtain ⟨sl, sr, hmx, hord⟩ := hsi
    have pl : PosW l := fun a ha => hpw a (by simp [toList, ha])
    have hov : ¬ Overlaps q e := by unfold Overlaps; omega
    have hr : answer q r = [] := by
      apply answer_eq_nil
      intro a ha
      have := hord a ha
      unfold Overlaps; omega
    have hs' : ∀ t ∈ push l s, SearchInv t ∧ PosW t := by
      intro t hmem
      rcases mem_push hmem with rfl | hmem
      · exact ⟨sl, pl⟩
      · exact hs t (List.mem_cons_of_mem _ hmem)
    have ih' := ih hs'
    rw [flatMap_push] at ih'
    simp only [List.flatMap_cons, answer_node, hov, if_false, List.append_nil, hr]
    exact ih'
  | case6 l e mx h r s h1 ih =>
    -- query starts at or after the largest end below this node: prune
    intro hs
    obtain ⟨hsi, hpw⟩ := hs (.node l e mx h r) (by simp)
    obtain ⟨sl, sr, hmx, hord⟩ := hsi
    have hnil : answer q (.node l e mx h r) = [] := by
      apply answer_eq_nil
      intro a ha
      have := hmx a (by simpa [toList] using ha)
      unfold Overlaps; omega
    simp only [List.flatMap_cons, hnil, List.nil_append]
    exact ih (fun t hmem => hs t (List.mem_cons_of_mem _ hmem))

/-! ## `find_mut` + payload mutation -/

theorem toList_bumpTree (q : Query) (delta : Int) : ∀ t, toList (bumpTree q delta t) =
    (toList t).map (fun e => if intersect q e then { e with data := e.data + delta } else e)
  | .nil => rfl
  | .node l e mx h r => by
    simp only [bumpTree, toList, List.map_append, List.map_cons, toList_bumpTree q delta l,
      toList_bumpTree q delta r]

theorem ht_bumpTree (q : Query) (delta : Int) : ∀ t, ht (bumpTree q delta t) = ht t
  | .nil => rfl
  | .node _ _ _ _ _ => rfl

theorem updMax_bumpTree (q : Query) (delta : Int) (l : Tree) (e e' : Entry) (r : Tree) (he : e'.hi = e.hi) :
    updMax (bumpTree q delta l) e' (bumpTree q delta r) = updMax l e r := by
  cases l <;> cases r <;> simp [updMax, bumpTree, he]

theorem good_bumpTree (q : Query) (delta : Int) : ∀ t, Good t → Good (bumpTree q delta t)
  | .nil, _ => good_nil
  | .node l e mx h r, g => by
    rw [good_node_iff] at g
    obtain ⟨gl, gr, hm, hh, b1, b2⟩ := g
    simp only [bumpTree]
    rw [good_node_iff]
    refine ⟨good_bumpTree q delta l gl, good_bumpTree q delta r gr, ?_, ?_, ?_, ?_⟩
    · rw [updMax_bumpTree q delta l e _ r (by split <;> rfl)]; exact hm
    · simp only [updHeight, ht_bumpTree]; exact hh
    · simp only [ht_bumpTree]; exact b1
    · simp only [ht_bumpTree]; exact b2

theorem sorted_bumpTree (q : Query) (delta : Int) (t : Tree) (hs : Sorted t) : Sorted (bumpTree q delta t) := by
  unfold Sorted at *
  rw [toList_bumpTree, List.pairwise_map]
  refine hs.imp ?_
  intro a b hab
  split <;> split <;> exact hab

/-! ## the panicking branches are unreachable -/

/-- `rotate_left` with its `unwrap()` made explicit -/
def rotateLeftP : Tree → Option Tree
  | .node t1 x _ _ (.node t2 y _ _ t3) => some (mk (mk t1 x t2) y t3)
  | _ => none

def rotateRightP : Tree → Option Tree
  | .node (.node t1 y _ _ t2) x _ _ t3 => some (mk t1 y (mk t2 x t3))
  | _ => none

/-- `repair` with `expect("Invalid tree: leaf is taller than its sibling.")` and the `unwrap()`s explicit:
`none` = the Rust code would panic -/
def repairP : Tree → Option Tree
  | .nil => some .nil
  | .node l x mx h r =>
    let lh := ht l
    let rh := ht r
    if lh ≤ rh + 1 ∧ rh ≤ lh + 1 then some (mk l x r)
    else if rh > lh then
      match r with
      | .node rl _ _ _ rr =>
        if ht rl > ht rr then (rotateRightP r).bind (fun r' => rotateLeftP (.node l x mx h r'))
        else rotateLeftP (.node l x mx h r)
      | .nil => none
    else
      match l with
      | .node ll _ _ _ lr =>
        if ht lr > ht ll then (rotateLeftP l).bind (fun l' => rotateRightP (.node l' x mx h r))
        else rotateRightP (.node l x mx h r)
      | .nil => none

def insertP : Tree → Entry → Option Tree
  | .nil, e => some (leaf e)
  | .node l x mx h r, e =>
    if e.lo ≤ x.lo then (insertP l e).bind (fun l' => repairP (.node l' x mx h r))
    else (insertP r e).bind (fun r' => repairP (.node l x mx h r'))

theorem repairP_eq_some (l : Tree) (x : Entry) (mx : Int) (h : Nat) (r : Tree) (gl : Good l) (gr : Good r)
    (h1 : ht l ≤ ht r + 2) (h2 : ht r ≤ ht l + 2) :
    repairP (.node l x mx h r) = some (repair (.node l x mx h r)) := by
  by_cases hb : ht l ≤ ht r + 1 ∧ ht r ≤ ht l + 1
  · simp [repairP, repair, hb]
  · by_cases hgt : ht r > ht l
    · obtain ⟨rl, y, rmx, rh, rr, rfl, grl, grr, hrh, b1, b2⟩ := good_ht_pos r gr (by omega)
      simp only [ht_node] at h1 h2 hb hgt
      by_cases hd : ht rl > ht rr
      · obtain ⟨a, z, amx, ah, b, rfl, ga, gb, hah, c1, c2⟩ := good_ht_pos rl grl (by omega)
        simp only [ht_node] at hd
        simp [repairP, repair, ht_node, hb, hgt, hd, rotateLeft, rotateRight, rotateLeftP, rotateRightP, mk]
      · simp [repairP, repair, ht_node, hb, hgt, hd, rotateLeft, rotateLeftP]
    · obtain ⟨ll, y, lmx, lh, lr, rfl, gll, glr, hlh, b1, b2⟩ := good_ht_pos l gl (by omega)
      simp only [ht_node] at h1 h2 hb hgt
      by_cases hd : ht lr > ht ll
      · obtain ⟨a, z, amx, ah, b, rfl, ga, gb, hah, c1, c2⟩ := good_ht_pos lr glr (by omega)
        simp only [ht_node] at hd
        simp [repairP, repair, ht_node, hb, hgt, hd, rotateLeft, rotateRight, rotateLeftP, rotateRightP, mk]
      · simp [repairP, repair, ht_node, hb, hgt, hd, rotateRight, rotateRightP]

theorem insertP_eq_some : ∀ (t : Tree) (e : Entry), Good t → insertP t e = some (insert t e)
  | .nil, e, _ => rfl
  | .node l x mx h r, e, g => by
    rw [good_node_iff] at g
    obtain ⟨gl, gr, _, hh, b1, b2⟩ := g
    unfold insertP insert
    split
    · obtain ⟨gi, i1, i2⟩ := insert_good l e gl
      rw [insertP_eq_some l e gl]
      simp only [Option.bind_some]
      exact repairP_eq_some _ _ _ _ _ gi gr (by omega) (by omega)
    · obtain ⟨gi, i1, i2⟩ := insert_good r e gr
      rw [insertP_eq_some r e gr]
      simp only [Option.bind_some]
      exact repairP_eq_some _ _ _ _ _ gl gi (by omega) (by omega)

end RbV.Avl

namespace RbV.Avl
open RbV.Ivl

/-! ## the declarative invariant `Inv` and the field-level form are the same thing -/

theorem isMaxEnd_unique (es : List Entry) (m1 m2 : Int) (h1 : IsMaxEnd es m1) (h2 : IsMaxEnd es m2) : m1 = m2 := by
  obtain ⟨a1, e1, he1, hm1⟩ := h1
  obtain ⟨a2, e2, he2, hm2⟩ := h2
  have := a1 e2 he2
  have := a2 e1 he1
  omega

theorem fields_of_ok : ∀ t, MaxOk t → HeightOk t → Fields t
  | .nil, _, _ => trivial
  | .node l e mx h r, hm, hh => by
    obtain ⟨ml, mr, hmax⟩ := hm
    obtain ⟨hl, hr, hht⟩ := hh
    have fl := fields_of_ok l ml hl
    have fr := fields_of_ok r mr hr
    have f' : Fields (.node l e (updMax l e r) (updHeight l r) r) := ⟨fl, fr, rfl, rfl⟩
    have hmx := fields_isMaxEnd l e _ _ r f'
    refine ⟨fl, fr, isMaxEnd_unique _ _ _ hmax hmx, ?_⟩
    rw [hht]
    simp only [realHeight, updHeight, ht_eq_realHeight l fl, ht_eq_realHeight r fr]

theorem balF_of_balanced : ∀ t, Fields t → Balanced t → BalF t
  | .nil, _, _ => trivial
  | .node l e mx h r, hf, hb => by
    obtain ⟨fl, fr, _, _⟩ := hf
    obtain ⟨bl, br, h1, h2⟩ := hb
    refine ⟨balF_of_balanced l fl bl, balF_of_balanced r fr br, ?_, ?_⟩
    · rw [ht_eq_realHeight l fl, ht_eq_realHeight r fr]; exact h1
    · rw [ht_eq_realHeight l fl, ht_eq_realHeight r fr]; exact h2

theorem inv_iff (t : Tree) : Inv t ↔ Sorted t ∧ Good t := by
  constructor
  · intro h
    have hf := fields_of_ok t h.maxOk h.heightOk
    exact ⟨h.sorted, hf, balF_of_balanced t hf h.balanced⟩
  · intro ⟨hs, hf, hb⟩
    exact inv_of_fields t hs hf hb

theorem insert_inv (t : Tree) (e : Entry) (h : Inv t) : Inv (insert t e) := by
  rw [inv_iff] at h ⊢
  exact ⟨insert_sorted t e h.1, (insert_good t e h.2).1⟩

theorem inv_nil : Inv .nil := (inv_iff .nil).mpr ⟨by simp [Sorted, toList], good_nil⟩

theorem posW_insert (t : Tree) (e : Entry) (hp : PosW t) (he : e.lo < e.hi) : PosW (insert t e) := by
  intro a ha
  have := (toList_insert_perm t e).subset ha
  simp only [List.mem_cons] at this
  rcases this with rfl | h
  · exact he
  · exact hp a h

theorem find_perm (t : Tree) (q : Query) (hs : SearchInv t) (hp : PosW t) (hq : q.lo < q.hi) :
    (find t q).Perm (expected (toList t) q) := by
  unfold find
  have := findLoop_perm q hq (push t []) (by
    intro t' ht'
    rcases mem_push ht' with rfl | h
    · exact ⟨hs, hp⟩
    · simp at h)
  rw [flatMap_push] at this
  simpa [answer] using this

/-! ## whole histories of `insert` and `find_mut`-mutations -/

inductive HOp where
  | ins (e : Entry)
  | bump (q : Query) (delta : Int)

/-- the model after a history -/
def runModel : List HOp → Tree → Tree
  | [], t => t
  | .ins e :: ops, t => runModel ops (insert t e)
  | .bump q d :: ops, t => runModel ops (bumpTree q d t)

/-- the stored multiset after a history (specification level) -/
def runSpec : List HOp → List Entry → List Entry
  | [], s => s
  | .ins e :: ops, s => runSpec ops (e :: s)
  | .bump q d :: ops, s => runSpec ops (bump s q d)

def HOp.wf : HOp → Prop
  | .ins e => e.lo < e.hi
  | .bump q _ => q.lo < q.hi

theorem posW_bumpTree (q : Query) (d : Int) (t : Tree) (hp : PosW t) : PosW (bumpTree q d t) := by
  intro a ha
  rw [toList_bumpTree, List.mem_map] at ha
  obtain ⟨b, hb, rfl⟩ := ha
  have := hp b hb
  split <;> exact this

theorem bumpTree_perm (q : Query) (d : Int) (t : Tree) (s : List Entry) (hp : PosW t) (hq : q.lo < q.hi)
    (h : (toList t).Perm s) : (toList (bumpTree q d t)).Perm (bump s q d) := by
  rw [toList_bumpTree]
  unfold bump
  have : (toList t).map (fun e => if intersect q e then { e with data := e.data + d } else e) =
      (toList t).map (fun e => if Overlaps q e then { e with data := e.data + d } else e) := by
    apply List.map_congr_left
    intro a ha
    have := intersect_iff q a hq (hp a ha)
    by_cases hc : Overlaps q a
    · simp [hc, this.mpr hc]
    · have : intersect q a = false := by
        cases hi : intersect q a
        · rfl
        · exact absurd (this.mp hi) hc
      simp [hc, this]
  rw [this]
  exact h.map _

theorem run_correct : ∀ (ops : List HOp) (t : Tree) (s : List Entry), (∀ o ∈ ops, o.wf) → Inv t → PosW t →
    (toList t).Perm s →
    Inv (runModel ops t) ∧ PosW (runModel ops t) ∧ (toList (runModel ops t)).Perm (runSpec ops s)
  | [], t, s, _, hi, hp, hperm => ⟨hi, hp, hperm⟩
  | .ins e :: ops, t, s, hw, hi, hp, hperm => by
    have he : e.lo < e.hi := hw (.ins e) (by simp)
    exact run_correct ops (insert t e) (e :: s) (fun o ho => hw o (by simp [ho])) (insert_inv t e hi)
      (posW_insert t e hp he) ((toList_insert_perm t e).trans (List.Perm.cons e hperm))
  | .bump q d :: ops, t, s, hw, hi, hp, hperm => by
    have hq : q.lo < q.hi := hw (.bump q d) (by simp)
    have hi' : Inv (bumpTree q d t) := by
      rw [inv_iff] at hi ⊢
      exact ⟨sorted_bumpTree q d t hi.1, good_bumpTree q d t hi.2⟩
    exact run_correct ops (bumpTree q d t) (bump s q d) (fun o ho => hw o (by simp [ho])) hi'
      (posW_bumpTree q d t hp) (bumpTree_perm q d t s hp hq hperm)

end RbV.Avl
