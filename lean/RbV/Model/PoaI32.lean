import RbV.Model.PoaCustom
import RbV.Basic.I32
/-!
Checked-`i32` version of the mirror models of `bio::alignment::poa::Poa::custom` (`Model/PoaCustom.lean`, what
`Aligner::global`/`semiglobal`/`local`/`custom` run) and `Poa::global_banded` (`Model/PoaBanded.lean`).

Every `+` and `*` the Rust text performs on `i32` scores is `I32.add` / `I32.mul` (`none` = the overflow panic of a build
with `overflow-checks`): `(j as i32) * gap_open` of `initialize_scores` (for `j = 0 ..= n`, the value of column 0 is then
overwritten), `(row as i32) * gap_open` of `new_row` (only when the row starts at the edge), per column
`get(0, j-1).score + score(r, q)` or, per predecessor, `get(i_p, j-1).score + score(r, q)` and
`get(i_p, j).score + gap_open`, then `get(i, j-1).score + gap_open`; in `custom` the suffix clipping
`score + xclip_suffix` (not evaluated for a column skipped by `continue`) and `max_in_row.0 + yclip_suffix`.
(The products are written `gap_open * (j as i32)`: checked `i32` multiplication is commutative, and with the cast first
Lean's `whnf` would try to evaluate the cast's `% 2³²` on a symbolic `usize`.)  Comparisons, `max` and the band arithmetic (on `usize`, modelled on `Nat` as in the unbounded mirror) are exact.
Everything else is literally the unbounded mirror.  Theorems `poa_i32_no_overflow`, `poa_banded_i32_no_overflow`
(`Thm/C16.lean`): inside `PoaEnv` no checked operation fails and the tables are those of the unbounded mirrors.
Core Lean only.
-/
namespace RbV.Poa.Model
open RbV.NW RbV.Poa RbV.I32

/-- `l.foldl f init` for a body that can panic -/
def foldlC {α β : Type} (f : β → α → Option β) : β → List α → Option β
  | b, [] => some b
  | b, a :: as =>
    match f b a with
    | none => none
    | some b' => foldlC f b' as

/-- `l.map f` for a body that can panic -/
def mapC {α β : Type} (f : α → Option β) : List α → Option (List β)
  | [] => some []
  | a :: as =>
    match f a with
    | none => none
    | some b =>
      match mapC f as with
      | none => none
      | some bs => some (b :: bs)

/-- `initialize_scores` -/
def bRow0C (gap yclip : Int) (n : Nat) : Option BRow :=
  -- `j = 0`: `(0 as i32) * gap_open`, overwritten by `Match(None)` with score 0
  match mul gap (ofUsize 0) with
  | none => none
  | some _ =>
    match mapC (fun (j : Nat) =>
        match mul gap (ofUsize j) with
        | none => none
        | some g => some (cmax ⟨g, .i none⟩ ⟨yclip, .y 0 j⟩)) (List.range' 1 n) with
    | none => none
    | some cs => some { cells := ⟨0, .m none⟩ :: cs, start := 0, stop := n + 1 }

/-- one predecessor's contribution to `max_cell` -/
def predC (sc : Sc) (v r b j : Nat) (acc : Cell) (pp : Nat × BRow) : Option Cell :=
  match add (pp.2.get (j - 1)).score (sc.w r b) with
  | none => none
  | some ms =>
    match add (pp.2.get j).score sc.gap with
    | none => none
    | some ds => some (cmax acc (cmax ⟨ms, .m (some (pp.1, v))⟩ ⟨ds, .d (some (pp.1, v + 1))⟩))

/-- `max_cell` of column `j` (`cCand` / `bCand`; `init` = the start cell of the fold) -/
def candC (sc : Sc) (init : Cell) (query : List Nat) (r0 : BRow) (v r : Nat) (preds : List (Nat × BRow)) (j : Nat) :
    Option Cell :=
  let b := query.getD (j - 1) 0
  match preds with
  | [] =>
    match add (r0.get (j - 1)).score (sc.w r b) with
    | none => none
    | some s => some ⟨s, .m none⟩
  | _ => foldlC (predC sc v r b j) init preds

/-- `max(max_cell, Ins)` left to right (`insScan`) -/
def insScanC (gap : Int) (iOp : POp) : Cell → List Cell → Option (List Cell)
  | _, [] => some []
  | left, c :: cs =>
    match add left.score gap with
    | none => none
    | some s =>
      let cell := cmax c ⟨s, iOp⟩
      match insScanC gap iOp cell cs with
      | none => none
      | some rest => some (cell :: rest)

/-- first cell of a row that starts at the edge: `max(Del(None) (row as i32) * gap_open, Xclip(0) xclip)` -/
def edgeCellC (sc : Sc) (xp : Int) (v : Nat) : Option Cell :=
  match mul sc.gap (ofUsize (v + 1)) with
  | none => none
  | some g => some (cmax ⟨g, .d none⟩ ⟨xp, .x 0⟩)

def cNodeRowC (sc : Sc) (xp : Int) (query : List Nat) (r0 : BRow) (v r : Nat) (preds : List (Nat × BRow)) : Option BRow :=
  match edgeCellC sc xp v with
  | none => none
  | some c0 =>
    let init : Cell := cmax mcell ⟨xp, .x 0⟩
    match mapC (candC sc init query r0 v r preds) (List.range' 1 query.length) with
    | none => none
    | some cands =>
      -- the Rust loop interleaves `max_cell` and the insertion candidate column by column; the sums are the same
      match insScanC sc.gap (.i (some v)) c0 cands with
      | none => none
      | some cells => some { cells := c0 :: cells, start := 0, stop := query.length + 1 }

def cStepC (sc : Sc) (xp : Int) (labels : List Nat) (es : WEdges) (query : List Nat) (r0 : BRow)
    (st : CState) (v : Nat) : Option CState :=
  let preds := (inN es v).map fun p => (p, st.rows.getD p (emptyRow query.length))
  match cNodeRowC sc xp query r0 v (labels.getD v 0) preds with
  | none => none
  | some row =>
    some { rows := st.rows.setIfInBounds v row,
           maxcol := match st.maxcol with
             | [] => []
             | m0 :: rest => m0 :: colUpdate (v + 1) rest row.cells.tail }

/-- X suffix clipping (`xSuffix`): `score + xclip_suffix` is not evaluated for a skipped column -/
def xSuffixC (xs : Int) (lastI : Nat) : Nat → List (Int × Nat) → List Cell → Int × Nat → Option (List Cell × (Int × Nat))
  | col, mc :: mcs, c :: cs, mir =>
    if mc.2 = lastI then
      match xSuffixC xs lastI (col + 1) mcs cs mir with
      | none => none
      | some (rest, mir') => some (c :: rest, mir')
    else
      match add mc.1 xs with
      | none => none
      | some s =>
        let maxcell := cmax c ⟨s, .x mc.2⟩
        let mir1 := if mir.1 < maxcell.score then (maxcell.score, col) else mir
        match xSuffixC xs lastI (col + 1) mcs cs mir1 with
        | none => none
        | some (rest, mir') => some (maxcell :: rest, mir')
  | _, _, cs, mir => some (cs, mir)

/-- `Poa::custom` with `i32` scores: `none` = an overflow panic -/
def customTableC (sc : Sc) (xp xs yp ys : Int) (labels : List Nat) (es : WEdges) (query : List Nat) : Option BTable :=
  let n := query.length
  match bRow0C sc.gap yp n with
  | none => none
  | some r0 =>
    let order := topo labels.length es
    match foldlC (cStepC sc xp labels es query r0)
        { rows := Array.replicate labels.length (emptyRow n), maxcol := List.replicate (n + 1) ((0 : Int), 0) } order with
    | none => none
    | some st =>
      let last := order.getLastD 0
      let lastRow := st.rows.getD last (emptyRow n)
      let cells := (List.range (n + 1)).map lastRow.get
      match xSuffixC xs (last + 1) 0 st.maxcol cells (0, 0) with
      | none => none
      | some (cells1, mir) =>
        match add mir.1 ys with
        | none => none
        | some s =>
          let ycell := cmax (cells1.getD n mcell) ⟨s, .y mir.2 n⟩
          let cells2 := if mir.2 ≠ n then setAt cells1 n ycell else cells1
          some { r0 := r0, rows := st.rows.setIfInBounds last { cells := cells2, start := 0, stop := n + 1 },
                 last := last, n := n }

/-! ### `global_banded` -/

def bNodeRowC (sc : Sc) (xclip : Int) (query : List Nat) (r0 : BRow) (v r : Nat) (preds : List (Nat × BRow))
    (start end_ : Nat) : Option BRow :=
  match (if start = 0 then edgeCellC sc xclip v else some mcell) with
  | none => none
  | some c0 =>
    let hi := min query.length end_
    match mapC (candC sc mcell query r0 v r preds) (List.range' (start + 1) (hi - start)) with
    | none => none
    | some cands =>
      match insScanC sc.gap (.i (some v)) c0 cands with
      | none => none
      | some cells => some { cells := c0 :: cells, start := start, stop := end_ + 1 }

def bStepC (sc : Sc) (xclip : Int) (labels : List Nat) (es : WEdges) (query : List Nat) (bw : Nat) (r0 : BRow)
    (st : BState) (v : Nat) : Option BState :=
  let start := if bw > st.msj then 0 else st.msj - bw
  let end_ := st.msj + bw
  let preds := (inN es v).map fun p => (p, st.rows.getD p (emptyRow query.length))
  match bNodeRowC sc xclip query r0 v (labels.getD v 0) preds start end_ with
  | none => none
  | some row =>
    let upd := bUpdate row.cells.tail (start + 1) (st.msj, st.msr)
    some { rows := st.rows.setIfInBounds v row, msj := upd.1, msr := upd.2 }

/-- `Poa::global_banded` with `i32` scores (row 0 and the rows of the nodes) -/
def bandedRowsC (sc : Sc) (xclip yclip : Int) (labels : List Nat) (es : WEdges) (query : List Nat) (bw : Nat) :
    Option (BRow × BState) :=
  match bRow0C sc.gap yclip query.length with
  | none => none
  | some r0 =>
    match foldlC (bStepC sc xclip labels es query bw r0)
        { rows := Array.replicate labels.length (emptyRow query.length), msj := 0, msr := minScore }
        (topo labels.length es) with
    | none => none
    | some st => some (r0, st)

/-! ### The envelope -/

/-- `PoaEnv sc xp xs yp ys labels query B`: `B ≥ 1` bounds `|score(r, q)|` for the node labels `r` and query symbols `q`
and `|gap_open|`; `gap_open ≤ 0`; the four clip penalties lie in `[MIN_SCORE, 0]`; `n·B < 2³¹`, `m·B < 2³¹`
(`m` nodes, `n` query symbols), `2·B ≤ 2³¹ + MIN_SCORE`. -/
structure PoaEnv (sc : Sc) (xp xs yp ys : Int) (labels query : List Nat) (B : Int) : Prop where
  B1 : 1 ≤ B
  wlo : ∀ r ∈ labels, ∀ q ∈ query, -B ≤ sc.w r q
  whi : ∀ r ∈ labels, ∀ q ∈ query, sc.w r q ≤ B
  gap : -B ≤ sc.gap ∧ sc.gap ≤ 0
  xp : minScore ≤ xp ∧ xp ≤ 0
  xs : minScore ≤ xs ∧ xs ≤ 0
  yp : minScore ≤ yp ∧ yp ≤ 0
  ys : minScore ≤ ys ∧ ys ≤ 0
  nB : (query.length : Int) * B ≤ 2147483647
  mB : (labels.length : Int) * B ≤ 2147483647
  twoB : 2 * B ≤ 2147483648 + minScore

/-- largest absolute value of `score(r, q)` over node labels × query symbols and of `gap_open` (at least 1): the least
`B` for `PoaEnv` -/
def poaBound (sc : Sc) (labels query : List Nat) : Int :=
  labels.foldl (fun acc r => query.foldl (fun acc q => max acc (max (sc.w r q) (-(sc.w r q)))) acc) (max 1 (-sc.gap))

/-- `PoaEnv`, as the driver evaluates it (with `B = poaBound`) -/
def poaEnvB (sc : Sc) (xp xs yp ys : Int) (labels query : List Nat) : Bool :=
  let B := poaBound sc labels query
  decide (sc.gap ≤ 0) && decide (minScore ≤ xp ∧ xp ≤ 0) && decide (minScore ≤ xs ∧ xs ≤ 0) &&
    decide (minScore ≤ yp ∧ yp ≤ 0) && decide (minScore ≤ ys ∧ ys ≤ 0) &&
    decide ((query.length : Int) * B ≤ 2147483647) && decide ((labels.length : Int) * B ≤ 2147483647) &&
    decide (2 * B ≤ 2147483648 + minScore)

/-- score and operations of the `i32` run of `custom` (`none` = overflow) -/
def customAlignC (sc : Sc) (xp xs yp ys : Int) (labels : List Nat) (es : WEdges) (query : List Nat) : Option (Int × List POp) :=
  (customTableC sc xp xs yp ys labels es query).map fun t => (t.score, t.ops labels.length)

/-- the score the `i32` run of `global_banded` reports (`none` = overflow) -/
def bandedScoreC (sc : Sc) (xclip yclip : Int) (labels : List Nat) (es : WEdges) (query : List Nat) (bw : Nat) : Option Int :=
  (bandedRowsC sc xclip yclip labels es query bw).map fun p =>
    let last := (topo labels.length es).getLastD 0
    ((p.2.rows.getD last (emptyRow query.length)).get query.length).score

end RbV.Poa.Model
