import RbV.Ref.BWT
import RbV.Basic.Sorted
import RbV.Gen.Occ
/-
Mirror models for C04 (src/data_structures/bwt.rs).

* `bwtModel`      the loop of `bwt()`                         `bwtModel_eq`
* `occNew`        the checkpoint table as a function          (entry i = occRef bwt (i*k) c)
* `occNewLoop`    the incremental loop of `Occ::new`          `occNewLoop_eq : occNewLoop = occNew`
* `occGet`        `Occ::get` with its three branches          `occ_get_eq : occGet (occNew …) = occRef`
* `lessModel`     `less()`: count array + `utils::prescan`    `less_eq`
-/
namespace RbV.OccM
open RbV

/-! ### `bwt()` -/

/-- `bwt[r] = if p > 0 { text[p - 1] } else { text[n - 1] }` with `p = pos[r]` -/
def bwtModel (t sa : List Nat) : List Nat :=
  sa.map (fun p => if p > 0 then t.getD (p - 1) 0 else t.getD (t.length - 1) 0)

theorem bwtModel_eq (t sa : List Nat) (h : ∀ p ∈ sa, p < t.length) : bwtModel t sa = bwtRef t sa := by
  unfold bwtModel bwtRef
  apply List.map_congr_left
  intro p hp
  have hlt := h p hp
  by_cases h0 : p > 0
  · have : (p + t.length - 1) % t.length = p - 1 := by
      have e : p + t.length - 1 = (p - 1) + t.length := by omega
      rw [e, Nat.add_mod_right, Nat.mod_eq_of_lt (by omega)]
    simp [h0, this]
  · have hp0 : p = 0 := by omega
    subst hp0
    have : (0 + t.length - 1) % t.length = t.length - 1 := by
      rw [Nat.zero_add]; exact Nat.mod_eq_of_lt (by omega)
    simp

/-! ### `Occ::new` as a function, `Occ::get` -/

/-- checkpoints: entry i = occRef bwt (i*k) c, for every i with i*k < n  (Occ::new pushes at rows i % k == 0) -/
def occNew (bwt : List Nat) (k c : Nat) : List Nat :=
  (List.range ((bwt.length + k - 1) / k)).map (fun i => occRef bwt (i * k) c)

/-- count of c in bwt[lo..=hi] (bytecount::count(&bwt[lo..=hi], a)) -/
def cnt (bwt : List Nat) (lo hi c : Nat) : Nat := ((bwt.drop lo).take (hi + 1 - lo)).count c

/-- `Occ::get(bwt, r, c)` on the checkpoint column `cp` of symbol `c`.  The sampling-rate threshold of the look-ahead
shortcut (`if self.k > 64`) is **not copied**: `Gen.Occ.hiCheckpointThreshold` is extracted from the source text on
every run (tools/gen_tables.py); `occ_get_eq` below does not depend on its value. -/
def occGet (cp : List Nat) (bwt : List Nat) (k r c : Nat) : Nat :=
  let lo := r / k
  let loOcc := cp.getD lo 0
  let fwd := cnt bwt (lo * k + 1) r c + loOcc
  if k > Gen.Occ.hiCheckpointThreshold then
    match cp[lo + 1]? with
    | some hiOcc =>
      if loOcc = hiOcc then loOcc
      else
        let hiIdx := (lo + 1) * k
        if hiIdx - r < k / 2 then hiOcc - cnt bwt (r + 1) hiIdx c else fwd
    | none => fwd
  else fwd

/-- which branch of `Occ::get` answers the query (for the evidence tags) -/
def occBranch (cp : List Nat) (k r : Nat) : String :=
  let lo := r / k
  if k > Gen.Occ.hiCheckpointThreshold then
    match cp[lo + 1]? with
    | some hiOcc =>
      if cp.getD lo 0 = hiOcc then "early-exit"
      else if (lo + 1) * k - r < k / 2 then "backward" else "forward-hi"
    | none => "forward-last"
  else "forward"

theorem count_take_split (l : List Nat) (a b c : Nat) (h : a ≤ b) :
    (l.take b).count c = (l.take a).count c + ((l.drop a).take (b - a)).count c := by
  have : l.take b = l.take a ++ (l.drop a).take (b - a) := by
    rw [← List.take_append_drop a (l.take b)]
    congr 1
    · rw [List.take_take]; congr 1; omega
    · rw [List.drop_take]
  rw [this, List.count_append]

theorem occRef_split (bwt : List Nat) (a r c : Nat) (h : a ≤ r) :
    occRef bwt r c = occRef bwt a c + cnt bwt (a + 1) r c := by
  unfold occRef cnt
  rw [count_take_split bwt (a+1) (r+1) c (by omega)]

theorem getD_occNew (bwt : List Nat) (k c i : Nat) (hk : 0 < k) (hi : i * k < bwt.length) :
    (occNew bwt k c).getD i 0 = occRef bwt (i*k) c := by
  unfold occNew
  have hlt : i < (bwt.length + k - 1) / k := by
    rw [Nat.lt_div_iff_mul_lt hk]
    have : i * k + 1 ≤ bwt.length := hi
    omega
  simp [List.getD, hlt]

theorem getElem?_occNew (bwt : List Nat) (k c i v : Nat) (h : (occNew bwt k c)[i]? = some v) :
    v = occRef bwt (i*k) c := by
  unfold occNew at h
  rw [List.getElem?_map] at h
  cases hh : (List.range ((bwt.length + k - 1) / k))[i]? with
  | none => simp [hh] at h
  | some j =>
    have hj := List.getElem?_eq_some_iff.mp hh
    obtain ⟨hlt, hje⟩ := hj
    simp at hje
    subst hje
    simp [hh] at h
    exact h.symm

theorem occ_get_eq (bwt : List Nat) (k r c : Nat) (hk : 0 < k) (hr : r < bwt.length) :
    occGet (occNew bwt k c) bwt k r c = occRef bwt r c := by
  have hlo : r / k * k ≤ r := Nat.div_mul_le_self r k
  have hlo' : r / k * k < bwt.length := by omega
  have hfwd : cnt bwt (r / k * k + 1) r c + (occNew bwt k c).getD (r / k) 0 = occRef bwt r c := by
    rw [getD_occNew bwt k c (r/k) hk hlo', occRef_split bwt (r / k * k) r c hlo]; omega
  unfold occGet
  simp only
  split
  · split
    · rename_i hiOcc hh
      have hhi := getElem?_occNew bwt k c (r/k+1) hiOcc hh
      have hr2 : r < (r / k + 1) * k := by
        have := Nat.lt_mul_div_succ r hk
        rw [Nat.mul_comm]; exact this
      have hmono : occRef bwt ((r/k+1)*k) c = occRef bwt r c + cnt bwt (r+1) ((r/k+1)*k) c :=
        occRef_split bwt r _ c (by omega)
      have hlow : (occNew bwt k c).getD (r / k) 0 = occRef bwt (r/k*k) c :=
        getD_occNew bwt k c (r/k) hk hlo'
      have hmono2 : occRef bwt r c = occRef bwt (r/k*k) c + cnt bwt (r/k*k+1) r c :=
        occRef_split bwt (r/k*k) r c hlo
      split
      · rename_i heq
        rw [hlow] at heq ⊢
        omega
      · split
        · omega
        · exact hfwd
    · exact hfwd
  · exact hfwd

/-! ### the loop of `Occ::new`, projected on one tracked symbol `c`

```
for (i, &ch) in bwt.iter().enumerate() {
    curr_occ[ch] += 1;
    if i % k == 0 { for &a in &alpha { occ[a].push(curr_occ[a]); } }
}
```
-/

/-- remaining symbols, row index `i`, running counter `cur` of symbol `c`; returns the values pushed -/
def occLoop (k c : Nat) : List Nat → Nat → Nat → List Nat
  | [], _, _ => []
  | x :: xs, i, cur =>
    let cur' := if x = c then cur + 1 else cur
    if i % k = 0 then cur' :: occLoop k c xs (i + 1) cur' else occLoop k c xs (i + 1) cur'

def occNewLoop (bwt : List Nat) (k c : Nat) : List Nat := occLoop k c bwt 0 0

theorem occLoop_eq (k c : Nat) (xs pre : List Nat) :
    occLoop k c xs pre.length (pre.count c) =
      ((List.range' pre.length xs.length).filter (fun r => r % k = 0)).map (fun r => occRef (pre ++ xs) r c) := by
  induction xs generalizing pre with
  | nil => simp [occLoop]
  | cons x xs ih =>
    have hcur : (if x = c then pre.count c + 1 else pre.count c) = (pre ++ [x]).count c := by
      by_cases h : x = c <;> simp [h, List.count_append]
    have hlen : pre.length + 1 = (pre ++ [x]).length := by simp
    have happ : pre ++ x :: xs = (pre ++ [x]) ++ xs := by simp
    have hocc : occRef (pre ++ x :: xs) pre.length c = (pre ++ [x]).count c := by
      unfold occRef
      rw [happ, hlen, List.take_left']
      rfl
    simp only [occLoop, List.length_cons, List.range'_succ, List.filter_cons]
    rw [hcur, hlen, ih (pre ++ [x]), ← happ, ← hlen]
    by_cases hm : pre.length % k = 0
    · simp [hm, hocc]
    · simp [hm]

/-- rows with a checkpoint = multiples of k below n -/
theorem filter_range_mod (n k : Nat) (hk : 0 < k) :
    (List.range n).filter (fun r => r % k = 0) = (List.range ((n + k - 1) / k)).map (fun i => i * k) := by
  apply sorted_eq_of_mem_iff
  · exact List.Pairwise.filter _ List.pairwise_lt_range
  · rw [List.pairwise_map]
    exact List.pairwise_lt_range.imp (fun h => Nat.mul_lt_mul_of_lt_of_le h (Nat.le_refl k) hk)
  · intro r
    simp only [List.mem_filter, List.mem_range, List.mem_map, decide_eq_true_eq]
    constructor
    · rintro ⟨h1, h2⟩
      refine ⟨r / k, ?_, Nat.div_mul_cancel (Nat.dvd_of_mod_eq_zero h2)⟩
      rw [Nat.lt_div_iff_mul_lt hk, Nat.div_mul_cancel (Nat.dvd_of_mod_eq_zero h2)]
      omega
    · rintro ⟨i, h1, rfl⟩
      rw [Nat.lt_div_iff_mul_lt hk] at h1
      exact ⟨by omega, Nat.mul_mod_left i k⟩

/-- the incremental loop of `Occ::new` builds exactly the checkpoint table `occNew` -/
theorem occNewLoop_eq (bwt : List Nat) (k c : Nat) (hk : 0 < k) : occNewLoop bwt k c = occNew bwt k c := by
  have := occLoop_eq k c bwt []
  simp only [List.length_nil, List.count_nil, List.nil_append] at this
  unfold occNewLoop occNew
  rw [this, List.range'_eq_map_range]
  have e : List.map (fun x => 0 + x) (List.range bwt.length) = List.range bwt.length := by simp
  rw [e, filter_range_mod _ _ hk, List.map_map]
  rfl

/-! ### `less()`: count array, then `utils::prescan` -/

/-- `less[c] += 1` -/
def bump (arr : List Nat) (c : Nat) : List Nat := arr.modify c (· + 1)

/-- the count loop over the BWT, on an array of `m` zeros -/
def countArr (bwt : List Nat) (m : Nat) : List Nat := bwt.foldl bump (List.replicate m 0)

/-- `utils::prescan(a, neutral = s, +)`: every entry is replaced by the sum of the entries before it -/
def prescanGo : Nat → List Nat → List Nat
  | _, [] => []
  | s, v :: l => s :: prescanGo (s + v) l

def lessModel (bwt : List Nat) (m : Nat) : List Nat := prescanGo 0 (countArr bwt m)

theorem foldl_bump_getElem? (bwt acc : List Nat) (c : Nat) :
    (bwt.foldl bump acc)[c]? = (acc[c]?).map (· + bwt.count c) := by
  induction bwt generalizing acc with
  | nil => simp
  | cons x xs ih =>
    rw [List.foldl_cons, ih, bump, List.getElem?_modify, List.count_cons]
    cases acc[c]? with
    | none => simp
    | some v =>
      by_cases h : x = c
      · subst h; simp; omega
      · have h' : ¬ (x == c) = true := by simpa using h
        simp [h, h']

theorem countArr_getElem? (bwt : List Nat) (m c : Nat) (h : c < m) :
    (countArr bwt m)[c]? = some (bwt.count c) := by
  unfold countArr
  rw [foldl_bump_getElem?]
  simp [h]

theorem length_countArr (bwt : List Nat) (m : Nat) : (countArr bwt m).length = m := by
  unfold countArr
  generalize hacc : List.replicate m 0 = acc
  have : acc.length = m := by rw [← hacc]; simp
  clear hacc
  induction bwt generalizing acc with
  | nil => simpa
  | cons x xs ih => rw [List.foldl_cons]; apply ih; simp [bump, this]

theorem prescanGo_getElem? (s : Nat) (l : List Nat) (i : Nat) (h : i < l.length) :
    (prescanGo s l)[i]? = some (s + (l.take i).sum) := by
  induction l generalizing s i with
  | nil => simp at h
  | cons v l ih =>
    cases i with
    | zero => simp [prescanGo]
    | succ i =>
      simp only [prescanGo, List.getElem?_cons_succ, List.take_succ_cons, List.sum_cons]
      rw [ih (s + v) i (by simpa using h)]
      simp; omega

/-- Σ_{x<c} count x = number of symbols smaller than c -/
theorem sum_counts (bwt : List Nat) (c : Nat) :
    ((List.range c).map (fun x => bwt.count x)).sum = lessRef bwt c := by
  unfold lessRef
  induction c with
  | zero => simp
  | succ c ih =>
    rw [List.range_succ, List.map_append, List.sum_append, ih]
    simp only [List.map_cons, List.map_nil, List.sum_cons, List.sum_nil, Nat.add_zero]
    clear ih
    induction bwt with
    | nil => simp
    | cons x xs ih2 =>
      simp only [List.countP_cons, List.count_cons]
      by_cases h1 : x < c
      · have h2 : x < c + 1 := by omega
        have h3 : ¬ (x == c) = true := by simp; omega
        simp [h1, h2, h3]; omega
      · by_cases h4 : x = c
        · subst h4; simp; omega
        · have h2 : ¬ x < c + 1 := by omega
          have h3 : ¬ (x == c) = true := by simpa using h4
          simp [h1, h2, h3]; omega

theorem take_countArr (bwt : List Nat) (m c : Nat) (h : c ≤ m) :
    (countArr bwt m).take c = (List.range c).map (fun x => bwt.count x) := by
  apply List.ext_getElem?
  intro i
  rw [List.getElem?_take, List.getElem?_map]
  by_cases hi : i < c
  · rw [if_pos hi, countArr_getElem? bwt m i (by omega), List.getElem?_range hi]; rfl
  · rw [if_neg hi, List.getElem?_eq_none (by simp; omega)]; rfl

/-- `less()` (array of size m = max_symbol + 2) holds, for every index, the number of smaller symbols -/
theorem less_eq (bwt : List Nat) (m c : Nat) (h : c < m) :
    (lessModel bwt m)[c]? = some (lessRef bwt c) := by
  unfold lessModel
  rw [prescanGo_getElem? 0 _ c (by rw [length_countArr]; exact h), take_countArr bwt m c (by omega),
    sum_counts, Nat.zero_add]

end RbV.OccM
