/-!
# Mirror model of `bio::seq_analysis::orf::Matches::next` (C20)

The Rust iterator slides a three-symbol window over the sequence.  For every index it
* updates the window (`codon`), computes `offset = (index + 1) % 3`,
* pushes `index` on `start_pos[offset]` when the window is a start codon,
* when `start_pos[offset]` is non-empty and the window is a stop codon: emits, for the pending starts in order and
  as long as `index + 1 - start_pos > min_len`, `Orf { start: start_pos - 2, end: index + 1, offset }`
  (it `break`s at the first pending start that is too short) and clears `start_pos[offset]`.
The `found` queue only buffers the emitted ORFs; the iterator yields them in emission order.  `findAll` is the list
of everything the iterator yields.
-/
namespace RbV.Model.OrfScan

structure State where
  /-- `start_pos[0]`, `start_pos[1]`, `start_pos[2]` -/
  p0 : List Nat
  p1 : List Nat
  p2 : List Nat
  /-- the sliding window (`VecDeque<u8>` of at most three symbols) -/
  codon : List Nat
  /-- everything pushed on `found` so far, in order -/
  out : List (Nat × Nat × Nat)

def State.init : State := ⟨[], [], [], [], []⟩

def State.get (st : State) (off : Nat) : List Nat :=
  if off = 0 then st.p0 else if off = 1 then st.p1 else st.p2

def State.set (st : State) (off : Nat) (l : List Nat) : State :=
  if off = 0 then { st with p0 := l } else if off = 1 then { st with p1 := l } else { st with p2 := l }

/-- one iteration of the `for (index, nuc)` loop -/
def step (starts stops : List (List Nat)) (minLen : Nat) (st : State) (index nuc : Nat) : State :=
  let codon := (if st.codon.length ≥ 3 then st.codon.drop 1 else st.codon) ++ [nuc]
  let off := (index + 1) % 3
  let st := { st with codon := codon }
  let sp := if starts.contains codon then st.get off ++ [index] else st.get off
  if !sp.isEmpty && stops.contains codon then
    let emitted := (sp.takeWhile fun s => decide (index + 1 - s > minLen)).map fun s => (s - 2, index + 1, off)
    { (st.set off []) with out := st.out ++ emitted }
  else st.set off sp

def run (starts stops : List (List Nat)) (minLen : Nat) : State → Nat → List Nat → State
  | st, _, [] => st
  | st, i, c :: rest => run starts stops minLen (step starts stops minLen st i c) (i + 1) rest

/-- all ORFs the iterator yields, in order -/
def findAll (starts stops : List (List Nat)) (minLen : Nat) (seq : List Nat) : List (Nat × Nat × Nat) :=
  (run starts stops minLen State.init 0 seq).out

end RbV.Model.OrfScan
