import RbV.Model.Fasta
/-!
# Mirror model of `std::io::BufReader` + `BufRead::read_until(b'\n')` / `read_line`  (property C11)

Core Lean only.  The FASTA/FASTQ reader models (`RbV/Model/Fasta.lean`, `Fastq.lean`) work on `splitLines file`, the
list of pieces that successive `read_line` calls hand out.  This file models *how* `read_line` produces those pieces:

```text
BufReader::fill_buf:   if pos >= filled { filled = inner.read(&mut buf[..cap])?; pos = 0 }   Ok(&buf[pos..filled])
BufReader::consume(n): pos = min(pos + n, filled)
read_until(r, b'\n', out):
    loop {
        let (done, used) = {
            let available = r.fill_buf()?;
            match memchr(b'\n', available) {
                Some(i) => { out.extend_from_slice(&available[..=i]); (true, i + 1) }
                None    => { out.extend_from_slice(available);        (false, available.len()) }
            }
        };
        r.consume(used);
        if done || used == 0 { return Ok(read) }
    }
read_line(r, s: &mut String) = read_until(r, b'\n', s.as_mut_vec()), then UTF-8 validation of the appended bytes
```

* `St.buf` = `&buf[pos..filled]` (the buffered bytes that have not been consumed), `St.src` = the bytes the underlying
  reader has not handed out yet, `St.k` = the number of `read` calls made on the underlying reader so far.
* `c` is the buffer capacity (`BufReader::with_capacity(c, _)`): one `read` is asked for at most `c` bytes.
* `sched : Nat → Nat` is the **read schedule**: the `k`-th `read` call on the underlying reader returns
  `min (sched k) (min c available)` bytes.  A reader that returns between 1 and `min(requested, available)` bytes per
  call, and 0 only at end of input, is exactly such a function with `1 ≤ sched k` (`Admissible`).
  (`Fragmenting` of `harness/src/fragio.rs` is the cyclic schedule given on the case line.)

The loops are defined by well-founded recursion on the number of bytes not yet delivered: a round of `read_until`
either returns (`done`, or `used == 0`) or has consumed a non-empty buffer.  So the *model* terminates for every `c`
and every schedule; what `1 ≤ c` and admissibility buy is **correctness**: an empty `fill_buf` then really means end
of input (otherwise a zero-length read would be taken for end of file and the line cut short).
-/
namespace RbV.BufLines
open RbV.Fastx

/-- the `BufReader` seen from outside -/
structure St where
  buf : Bytes
  src : Bytes
  k : Nat
deriving DecidableEq, Repr, Inhabited

/-- a fresh `BufReader` over a source holding `file` -/
def init (file : Bytes) : St := { buf := [], src := file, k := 0 }

/-- the bytes that have not been delivered yet -/
def St.pending (s : St) : Bytes := s.buf ++ s.src

/-- every `read` before the end of input returns at least one byte -/
def Admissible (sched : Nat → Nat) : Prop := ∀ k, 1 ≤ sched k

/-- `BufReader::fill_buf`: one `read` of at most `c` bytes on the underlying reader, only when nothing is buffered -/
def fillBuf (c : Nat) (sched : Nat → Nat) (s : St) : St :=
  if s.buf.isEmpty then
    let n := min (sched s.k) c                       -- (`take` hands out fewer when fewer are available)
    { buf := s.src.take n, src := s.src.drop n, k := s.k + 1 }
  else s

/-- `BufReader::consume` -/
def consume (s : St) (n : Nat) : St := { s with buf := s.buf.drop n }

/-- `memchr(d, l)`: index of the first `d` -/
def memchr (d : Nat) : Bytes → Option Nat
  | [] => none
  | b :: r => if b = d then some 0 else (memchr d r).map (· + 1)

theorem fillBuf_pending (c : Nat) (sched : Nat → Nat) (s : St) : (fillBuf c sched s).pending = s.pending := by
  unfold fillBuf St.pending
  split
  · rename_i h
    have : s.buf = [] := by simpa using h
    simp [this]
  · rfl

/-- `read_until(b'\n', out)`: the extended output and the new reader state -/
def readUntil (c : Nat) (sched : Nat → Nat) (s : St) (out : Bytes) : Bytes × St :=
  let s1 := fillBuf c sched s
  match memchr 10 s1.buf with
  | some i => (out ++ s1.buf.take (i + 1), consume s1 (i + 1))
  | none =>
    if s1.buf.isEmpty then (out, s1)                                          -- `used == 0`
    else readUntil c sched (consume s1 s1.buf.length) (out ++ s1.buf)
termination_by s.pending.length
decreasing_by
  rename_i hne
  have hne' : ¬ (fillBuf c sched s).buf.isEmpty = true := hne
  have h1 := congrArg List.length (fillBuf_pending c sched s)
  have h2 : 0 < (fillBuf c sched s).buf.length := by
    cases hb : (fillBuf c sched s).buf with
    | nil => simp [hb] at hne'
    | cons => simp
  simp only [St.pending, consume, List.length_append, List.length_drop] at h1 ⊢
  omega

/-- `read_line` into an empty (cleared) string, before UTF-8 validation -/
def readLine (c : Nat) (sched : Nat → Nat) (s : St) : Bytes × St := readUntil c sched s []

/-- no byte is lost or invented: what is appended to the output is taken off the pending bytes -/
theorem readUntil_length (c : Nat) (sched : Nat → Nat) (s : St) (out : Bytes) :
    (readUntil c sched s out).1.length + (readUntil c sched s out).2.pending.length
      = out.length + s.pending.length := by
  fun_induction readUntil c sched s out with
  | case1 s out s1 i hm =>
    have hs1 : s1 = fillBuf c sched s := rfl
    clear_value s1
    have h1 := congrArg List.length (fillBuf_pending c sched s)
    rw [← hs1] at h1
    simp only [St.pending, consume, List.length_append, List.length_drop, List.length_take] at h1 ⊢
    omega
  | case2 s out s1 hm he =>
    have hs1 : s1 = fillBuf c sched s := rfl
    clear_value s1
    have h1 := congrArg List.length (fillBuf_pending c sched s)
    rw [← hs1] at h1
    simp only [St.pending, List.length_append] at h1 ⊢
    omega
  | case3 s out s1 hm hne ih =>
    have hs1 : s1 = fillBuf c sched s := rfl
    clear_value s1
    have h1 := congrArg List.length (fillBuf_pending c sched s)
    rw [← hs1] at h1
    simp only [St.pending, consume, List.length_append, List.length_drop] at h1 ih ⊢
    omega

/-- the lines handed out by repeated `read_line` calls, up to the first empty one (= end of input) -/
def readLines (c : Nat) (sched : Nat → Nat) (s : St) : List Bytes :=
  if (readLine c sched s).1.isEmpty then []
  else (readLine c sched s).1 :: readLines c sched (readLine c sched s).2
termination_by s.pending.length
decreasing_by
  rename_i hne
  have h := readUntil_length c sched s []
  have h2 : 0 < (readLine c sched s).1.length := by
    cases hb : (readLine c sched s).1 with
    | nil => simp [hb] at hne
    | cons => simp
  simp only [readLine, List.length_nil] at h h2 ⊢
  omega

/-- the final state after all lines were read (used for the observable number of `read` calls) -/
def readLinesSt (c : Nat) (sched : Nat → Nat) (s : St) : St :=
  if (readLine c sched s).1.isEmpty then (readLine c sched s).2
  else readLinesSt c sched (readLine c sched s).2
termination_by s.pending.length
decreasing_by
  rename_i hne
  have h := readUntil_length c sched s []
  have h2 : 0 < (readLine c sched s).1.length := by
    cases hb : (readLine c sched s).1 with
    | nil => simp [hb] at hne
    | cons => simp
  simp only [readLine, List.length_nil] at h h2 ⊢
  omega

/-- all lines of a file read through a fresh `BufReader` of capacity `c` over a source with read schedule `sched` -/
def linesVia (c : Nat) (sched : Nat → Nat) (file : Bytes) : List Bytes := readLines c sched (init file)

/-- the cyclic schedule of `Fragmenting` (`harness/src/fragio.rs`) -/
def cyclic (l : List Nat) (k : Nat) : Nat := max 1 (l.getD (k % l.length) 1)

/-- `fastx::get_kind(source)`: `read_exact` of one byte (the source's read number 0, asked for 1 byte), then
`Cursor([b]).chain(source)`: seen by a `BufReader` put on top, read number 0 returns that one byte and read number
`k ≥ 1` is the source's read number `k` — one more admissible schedule over the same byte string. -/
def chainSched (sched : Nat → Nat) (k : Nat) : Nat := if k = 0 then 1 else sched k

/-! ## Specification side: the first line of a byte string -/

/-- the first line (up to and including the first LF, or everything) and what follows it -/
def firstLine : Bytes → Bytes × Bytes
  | [] => ([], [])
  | b :: r => if b = 10 then ([10], r) else ((b :: (firstLine r).1), (firstLine r).2)

end RbV.BufLines
