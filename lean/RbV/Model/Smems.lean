import RbV.Model.FMDExt
/-!
# Mirror model of Li's SMEM sweep: `FMDIndex::smems` and `FMDIndex::all_smems` (C06)

The sweep is written once, over an abstract interval type `ι` with the four operations the Rust code uses
(`size`, `init_interval_with`, `forward_ext`, `backward_ext`): `Ops ι`.  Two instances:

* `biOps less occ`   — the bi-interval operations of `RbV/Model/FMDExt.lean` (what the implementation computes);
* `strOps c`         — the *string-level* model: an interval is the pair `(b, e)` of the substring `pattern[b..e)` it
                       stands for, its size is the occurrence count `c b e` of that substring.

```rust
let mut match_len = 0;
let mut interval = self.init_interval_with(pattern[i]);
if interval.size != 0 { match_len += 1; }
for &a in &pattern[i + 1..] {
    let forward_interval = self.forward_ext(&interval, a);
    if interval.size != forward_interval.size { curr.push((interval, match_len)); }
    if forward_interval.size == 0 { break; }
    interval = forward_interval; match_len += 1;
}
curr.push((interval, match_len)); curr.reverse();
swap(curr, prev);
let mut j = pattern.len() as isize;
for k in (-1..i as isize).rev() {
    let a = if k == -1 { b'$' } else { pattern[k as usize] };
    curr.clear();
    let mut last_size = -1;
    for (interval, match_len) in prev.iter() {
        let forward_interval = self.backward_ext(interval, a);
        if (forward_interval.size == 0 || k == -1) && curr.is_empty() && k < j && match_len >= &l {
            j = k; matches.push((*interval, (k + 1) as usize, *match_len));
        }
        if forward_interval.size != 0 && forward_interval.size as isize != last_size {
            last_size = forward_interval.size as isize; curr.push((forward_interval, match_len + 1));
        }
    }
    if curr.is_empty() { break; }
    swap(curr, prev);
}
matches
```

The signed loop variables `k` (from `i-1` down to `-1`) and `j` are kept shifted by one as naturals: `kk = k + 1`,
`jj = j + 1` (so `k == -1` is `kk = 0`, `k < j` is `kk < jj`, `pattern[k]` is `pattern[kk-1]`, the reported position
`k + 1` is `kk`); `last_size` is an `Int` starting at `-1` as in the code.
-/
namespace RbV.SmemModel
open RbV

structure Ops (ι : Type) where
  size : ι → Nat
  /-- `init_interval_with(pattern[i])`; the position `i` is passed along for the string-level instance -/
  initWith : Nat → Nat → ι
  fwd : ι → Nat → ι
  bwd : ι → Nat → ι

/-- one reported match: (interval, position in the pattern, length) -/
structure Hit (ι : Type) where
  iv : ι
  pos : Nat
  len : Nat

variable {ι : Type}

/-- the forward `for` loop; state = (`curr`, `interval`, `match_len`) -/
def fwdLoop (ops : Ops ι) : List Nat → ι → Nat → List (ι × Nat) → List (ι × Nat) × ι × Nat
  | [], iv, ml, curr => (curr, iv, ml)
  | a :: rest, iv, ml, curr =>
    let f := ops.fwd iv a
    let curr' := if ops.size iv ≠ ops.size f then curr ++ [(iv, ml)] else curr
    if ops.size f = 0 then (curr', iv, ml) else fwdLoop ops rest f (ml + 1) curr'

/-- everything up to `swap(curr, prev)`: the list `prev` the backward sweep starts from (longest first) -/
def forwardPhase (ops : Ops ι) (pat : List Nat) (i : Nat) : List (ι × Nat) :=
  let iv0 := ops.initWith i (pat.getD i 0)
  let ml0 := if ops.size iv0 ≠ 0 then 1 else 0
  let r := fwdLoop ops (pat.drop (i + 1)) iv0 ml0 []
  (r.1 ++ [(r.2.1, r.2.2)]).reverse

/-- state of the inner loop of the backward sweep -/
structure InnerSt (ι : Type) where
  curr : List (ι × Nat)
  last : Int
  jj : Nat
  ms : List (Hit ι)

/-- the inner `for (interval, match_len) in prev.iter()` loop of iteration `k = kk - 1` -/
def innerLoop (ops : Ops ι) (a kk l : Nat) : List (ι × Nat) → InnerSt ι → InnerSt ι
  | [], st => st
  | (iv, ml) :: rest, st =>
    let f := ops.bwd iv a
    let hit : Bool := (ops.size f == 0 || kk == 0) && st.curr.isEmpty && decide (kk < st.jj) && decide (l ≤ ml)
    let jj' := if hit then kk else st.jj
    let ms' := if hit then st.ms ++ [⟨iv, kk, ml⟩] else st.ms
    let push : Bool := ops.size f != 0 && (ops.size f : Int) != st.last
    let last' := if push then (ops.size f : Int) else st.last
    let curr' := if push then st.curr ++ [(f, ml + 1)] else st.curr
    innerLoop ops a kk l rest ⟨curr', last', jj', ms'⟩

/-- the outer `for k in (-1..i).rev()` loop, from `kk = k + 1` downwards -/
def outerLoop (ops : Ops ι) (pat : List Nat) (l : Nat) : Nat → List (ι × Nat) → Nat → List (Hit ι) → List (Hit ι)
  | 0, prev, jj, ms => (innerLoop ops 36 0 l prev ⟨[], -1, jj, ms⟩).ms
  | kk + 1, prev, jj, ms =>
    let r := innerLoop ops (pat.getD kk 0) (kk + 1) l prev ⟨[], -1, jj, ms⟩
    if r.curr.isEmpty then r.ms else outerLoop ops pat l kk r.curr r.jj r.ms

/-- `smems(pattern, i, l)` -/
def smems (ops : Ops ι) (pat : List Nat) (i l : Nat) : List (Hit ι) :=
  outerLoop ops pat l i (forwardPhase ops pat i) (pat.length + 1) []

/-!
```rust
let mut smems = Vec::new(); let mut i0 = 0;
while i0 < pattern.len() {
    let mut curr_smems = self.smems(pattern, i0, l);
    let mut next_i0 = i0 + 1;
    for (_, p, l) in curr_smems.iter() { if p + l > next_i0 { next_i0 = p + l; } }
    i0 = next_i0; smems.append(&mut curr_smems);
}
```
-/

def nextI0 (cs : List (Hit ι)) (i0 : Nat) : Nat :=
  cs.foldl (fun nx h => if h.pos + h.len > nx then h.pos + h.len else nx) (i0 + 1)

/-- the `while` loop with fuel (`i0` grows by at least one per round, so `pattern.len()` rounds suffice) -/
def allLoop (ops : Ops ι) (pat : List Nat) (l : Nat) : Nat → Nat → List (Hit ι) → List (Hit ι)
  | 0, _, acc => acc
  | fuel + 1, i0, acc =>
    if i0 < pat.length then
      let cs := smems ops pat i0 l
      allLoop ops pat l fuel (nextI0 cs i0) (acc ++ cs)
    else acc

/-- `all_smems(pattern, l)` -/
def allSmems (ops : Ops ι) (pat : List Nat) (l : Nat) : List (Hit ι) :=
  allLoop ops pat l pat.length 0 []

/-! ### the two instances -/

/-- the implementation's operations: bi-intervals over `less` / `occ` -/
def biOps (less : Nat → Nat) (occ : Nat → Nat → Nat) : Ops FMDModel.Bi where
  size := fun iv => iv.size
  initWith := fun _ a => FMDModel.initIntervalWith less a
  fwd := FMDModel.forwardExt less occ
  bwd := FMDModel.backwardExt less occ

/-- the string-level operations: the interval `(b, e)` stands for `pattern[b..e)`, its size is the occurrence count
`c b e`; forward extension appends the next pattern symbol, backward extension prepends the previous one (the symbol
argument is the one the sweep passes anyway) -/
def strOps (c : Nat → Nat → Nat) : Ops (Nat × Nat) where
  size := fun p => c p.1 p.2
  initWith := fun i _ => (i, i + 1)
  fwd := fun p _ => (p.1, p.2 + 1)
  bwd := fun p _ => (p.1 - 1, p.2)

/-- what the harness prints for a reported match: position, length, `forward()` and `revcomp()` intervals -/
def hitObs (h : Hit FMDModel.Bi) : SmemObs :=
  ⟨h.pos, h.len, h.iv.lower, h.iv.lower + h.iv.size, h.iv.lowerRev, h.iv.lowerRev + h.iv.size⟩

/-- number of occurrences of `pattern[b..e)` in the text -/
def cnt (T pat : List Nat) (b e : Nat) : Nat := (occurrences (sub pat b (e - b)) T).length

/-- string-level `smems` / `all_smems`: (position, length) pairs -/
def smemsStr (T pat : List Nat) (i l : Nat) : List (Nat × Nat) :=
  (smems (strOps (cnt T pat)) pat i l).map (fun h => (h.pos, h.len))

def allSmemsStr (T pat : List Nat) (l : Nat) : List (Nat × Nat) :=
  (allSmems (strOps (cnt T pat)) pat l).map (fun h => (h.pos, h.len))

end RbV.SmemModel
