import RbV.Model.MyersSimple
/-!
Mirror model of the block-based Myers matcher (`pattern_matching::myers::long`: `new_ambig`, `advance_block`,
`States::{new, add_state, step, known_dist}`, `Matches::next`) (C09 [C]).  Core Lean only.
A block is a `MyersSimple.St w` (`pv`, `mv`, `dist` = value of the block's last row).  `usize` arithmetic on `dist` is
modelled with `Nat` (truncated subtraction where Rust wraps; the wrap is never reached from a valid state) and
`max_dist + w` saturates as in the repaired code.
-/
namespace RbV.Model.MyersLong
open RbV.EditDist RbV.Model.MyersSimple

/-- `advance_block(state, p, a, hin) -> hout`; `bnd` = bit index of `p.bound` -/
def advanceBlock {w : Nat} (bnd : Nat) (eq : BitVec w) (hin : Int) (s : St w) : St w × Int :=
  let xv := eq ||| s.mv
  let eq' := if hin < 0 then eq ||| 1#w else eq
  let xh := xhOf eq' s.pv
  let ph := s.mv ||| ~~~(xh ||| s.pv)
  let mh := s.pv &&& xh
  let hout : Int := ((ph.getLsbD bnd).toNat : Int) - ((mh.getLsbD bnd).toNat : Int)
  let dist := s.dist + (ph.getLsbD bnd).toNat - (mh.getLsbD bnd).toNat
  let ph := (ph <<< 1) ||| (if hin > 0 then 1#w else 0#w)
  let mh := (mh <<< 1) ||| (if hin < 0 then 1#w else 0#w)
  (⟨mh ||| ~~~(xv ||| ph), ph &&& xv, dist⟩, hout)

/-- the per-block pattern data: symbols of the block (`chunks(w)`); `bound = 1 << (len - 1)` -/
def chunks (w : Nat) : Nat → List Nat → List (List Nat)
  | 0, _ => []
  | fuel + 1, p => if p.length ≤ w then [p] else p.take w :: chunks w fuel (p.drop w)

def blocksOf (w : Nat) (p : List Nat) : List (List Nat) := chunks w p.length p

/-- advance all active blocks from top to bottom, threading the carry -/
def advanceAll {w : Nat} (eqv : Nat → Nat → Bool) (a : Nat) : List (List Nat) → List (St w) → Int → List (St w) × Int
  | blk :: blks, s :: ss, hin =>
    let (s', hout) := advanceBlock (blk.length - 1) (peq w eqv blk a) hin s
    let (rest, c) := advanceAll eqv a blks ss hout
    (s' :: rest, c)
  | _, _, hin => ([], hin)

/-- `while last_block > 0 && states[last_block].dist >= max_dist + w { last_block -= 1 }; truncate`, on the
reversed list (last block first) -/
def cutRev {w : Nat} (k ww : Nat) : List (St w) → List (St w)
  | [] => []
  | [s] => [s]
  | s :: s2 :: ss => if s.dist ≥ k + ww then cutRev k ww (s2 :: ss) else s :: s2 :: ss

/-- `States::step(a, peq, max_dist)` -/
def stepStates {w : Nat} (eqv : Nat → Nat → Bool) (blks : List (List Nat)) (k : Nat) (a : Nat)
    (sts : List (St w)) : List (St w) :=
  let r := advanceAll eqv a blks sts 0
  let sts' : List (St w) := r.1
  let carry : Int := r.2
  let lastBlock : Nat := sts.length - 1
  let maxBlock : Nat := blks.length - 1
  let lastDist : Int := (((sts'.getLast?.map (·.dist)).getD 0 : Nat) : Int)
  let nextEq : Bool := match blks[lastBlock + 1]? with
    | some blk => (peq w eqv blk a).getLsbD 0
    | none => false
  if decide (0 ≤ lastDist - carry) && decide (lastDist - carry ≤ (k : Int)) && decide (lastBlock < maxBlock)
      && (nextEq || decide (carry < 0)) then
    -- add_state(-carry): dist = prev_dist + delta - carry, then advance the new block with hin = carry
    match blks[lastBlock + 1]? with
    | some blk =>
      let d : Int := lastDist + (blk.length : Int) - carry
      let fresh : St w := ⟨BitVec.allOnes w, 0#w, d.toNat⟩
      sts' ++ [(advanceBlock (blk.length - 1) (peq w eqv blk a) carry fresh).1]
    | none => sts'
  else (cutRev k w sts'.reverse).reverse

/-- `States::new(m, max_dist)`: `max(1, ceil(min(max_dist, m) / w))` blocks, `dist` = rows covered so far -/
def initStates (w : Nat) (blks : List (List Nat)) (m k : Nat) : List (St w) :=
  let minBlocks := max 1 ((min k m + w - 1) / w)
  let rec go : Nat → List (List Nat) → Nat → List (St w)
    | 0, _, _ => []
    | _, [], _ => []
    | n + 1, blk :: rest, acc => ⟨BitVec.allOnes w, 0#w, acc + blk.length⟩ :: go n rest (acc + blk.length)
  go minBlocks blks 0

/-- `known_dist()`: the last block's distance if all blocks are computed -/
def knownDist {w : Nat} (nblocks : Nat) (sts : List (St w)) : Option Nat :=
  if sts.length = nblocks then sts.getLast?.map (·.dist) else none

def run {w : Nat} (eqv : Nat → Nat → Bool) (blks : List (List Nat)) (k : Nat) :
    List (St w) → Nat → List Nat → List (Nat × Nat)
  | _, _, [] => []
  | sts, i, a :: t =>
    let sts' := stepStates eqv blks k a sts
    match knownDist blks.length sts' with
    | some d => if d ≤ k then (i, d) :: run eqv blks k sts' (i + 1) t else run eqv blks k sts' (i + 1) t
    | none => run eqv blks k sts' (i + 1) t

/-- `long::Myers<T>::find_all_end(text, k).collect()` -/
def findAllEnd (w : Nat) (eqv : Nat → Nat → Bool) (p t : List Nat) (k : Nat) : List (Nat × Nat) :=
  let blks := blocksOf w p
  run eqv blks k (initStates w blks p.length k) 0 t

end RbV.Model.MyersLong
