import RbV.Spec.Containers
/-
C18 [B] — mirror model of `bio::data_structures::bit_tree::FenwickTree<T, Op>`.

`tree : Vec<T>` of length `len + 1` (slot 0 unused) is a `List α`; the operation `Op::operation` and
`T::default()` are parameters.  `idx & -idx` (lowest set bit) is `lowbit`.  The two `while` loops are
written with fuel (`idx` strictly decreases in `get`, strictly increases towards `tree.len()` in `set`;
the fuel passed by `get`/`set` is sufficient, which is part of the theorems).
Core Lean only.
-/
namespace RbV.Model.Fenwick

/-- `(idx as isize & -(idx as isize)) as usize` : the lowest set bit of `idx` (`0` for `0`) -/
def lowbit (i : Nat) : Nat :=
  if i = 0 then 0 else if i % 2 = 1 then 1 else 2 * lowbit (i / 2)
termination_by i
decreasing_by omega

variable {α : Type}

/-- `FenwickTree::new(len)`: `vec![T::default(); len + 1]` -/
def new (dflt : α) (len : Nat) : List α := List.replicate (len + 1) dflt

/-- `while idx > 0 { sum = op(sum, tree[idx]); idx -= lowbit(idx) }` -/
def getLoop (op : α → α → α) (dflt : α) (tree : List α) : Nat → Nat → α → α
  | 0, _, sum => sum
  | fuel + 1, idx, sum =>
    if idx > 0 then getLoop op dflt tree fuel (idx - lowbit idx) (op sum (tree.getD idx dflt)) else sum

/-- `pub fn get(&self, idx)` -/
def get (op : α → α → α) (dflt : α) (tree : List α) (idx : Nat) : α :=
  getLoop op dflt tree (idx + 1) (idx + 1) dflt

/-- `while idx < tree.len() { tree[idx] = op(tree[idx], val); idx += lowbit(idx) }` -/
def setLoop (op : α → α → α) (dflt : α) (val : α) : Nat → Nat → List α → List α
  | 0, _, tree => tree
  | fuel + 1, idx, tree =>
    if idx < tree.length then
      setLoop op dflt val fuel (idx + lowbit idx) (tree.set idx (op (tree.getD idx dflt) val))
    else tree

/-- `pub fn set(&mut self, idx, val)` -/
def set (op : α → α → α) (dflt : α) (tree : List α) (idx : Nat) (val : α) : List α :=
  setLoop op dflt val tree.length (idx + 1) tree

end RbV.Model.Fenwick
