import RbV.Model.BackwardSearch
/-!
# The LF-mapping lemma (C05 [B])

For a text `t` and an array `sa` that is a permutation of the positions and is *LF-sorted* for the symbol `a`
(rows ordered by first symbol; two rows starting with `a` are ordered like the rows of the positions that follow
them — both are consequences of suffix-sortedness under any consistent order of the sentinels), the concrete
`less` / `occ` computed from the BWT of `(t, sa)` provide the LF step `LFStep` of `RbV/Model/BackwardSearch.lean`.
All hypotheses are decidable predicates on `(t, sa, a)`.
-/
namespace RbV.LF
open RbV RbV.BSModel

/-- the BWT symbol of the row that holds position `p`: the symbol before `p`, cyclically -/
def bwSym (t : List Nat) (p : Nat) : Nat := if p > 0 then t.getD (p - 1) 0 else t.getD (t.length - 1) 0

def bwtOf (t sa : List Nat) : List Nat := sa.map (bwSym t)

/-- `less(a)` = number of BWT symbols smaller than `a` (the Rust code builds it by counting + exclusive prefix sums) -/
def lessRef (bwt : List Nat) (a : Nat) : Nat := bwt.countP (· < a)

/-- `occ(r, a)` = number of `a` in `bwt[0..=r]` -/
def occRef (bwt : List Nat) (r a : Nat) : Nat := (bwt.take (r + 1)).count a

/-- number of `a` in `bwt[0..z)` -/
def occLt (bwt : List Nat) (z a : Nat) : Nat := (bwt.take z).count a

/-- the hypotheses on `(t, sa)` for symbol `a` -/
structure Sorted (t sa : List Nat) (a : Nat) : Prop where
  perm : sa.Perm (List.range t.length)
  /-- rows are ordered by their first symbol -/
  mono : ∀ i j, i < j → j < sa.length → t.getD (sa.getD i 0) 0 ≤ t.getD (sa.getD j 0) 0
  /-- two rows that start with `a` are ordered like the rows of the following positions -/
  step : ∀ i j i' j', i < j → j < sa.length → i' < sa.length → j' < sa.length →
    t.getD (sa.getD i 0) 0 = a → t.getD (sa.getD j 0) 0 = a →
    sa.getD i' 0 = sa.getD i 0 + 1 → sa.getD j' 0 = sa.getD j 0 + 1 → i' < j'
  /-- the text ends with a symbol different from `a` (the sentinel) -/
  last : t.getD (t.length - 1) 0 ≠ a

/-! ### facts about a permutation of the positions -/

section perm
variable {t sa : List Nat} (hp : sa.Perm (List.range t.length))
include hp

theorem sa_length : sa.length = t.length := by simpa using hp.length_eq

theorem sa_nodup : sa.Nodup := hp.nodup_iff.mpr List.nodup_range

theorem sa_lt (row : Nat) (h : row < sa.length) : sa.getD row 0 < t.length := by
  have : sa.getD row 0 ∈ sa := by
    simp only [List.getD_eq_getElem?_getD, List.getElem?_eq_getElem h, Option.getD_some]
    exact List.getElem_mem h
  simpa using (hp.mem_iff).mp this

theorem sa_mem_lt (p : Nat) (h : p ∈ sa) : p < t.length := by simpa using (hp.mem_iff).mp h

theorem sa_surj (p : Nat) (h : p < t.length) : ∃ row, row < sa.length ∧ sa.getD row 0 = p := by
  have : p ∈ sa := (hp.mem_iff).mpr (by simpa using h)
  obtain ⟨row, hrow, he⟩ := List.mem_iff_getElem.mp this
  exact ⟨row, hrow, by simp [List.getD_eq_getElem?_getD, List.getElem?_eq_getElem hrow, he]⟩

theorem sa_inj (i j : Nat) (hi : i < sa.length) (hj : j < sa.length) (h : sa.getD i 0 = sa.getD j 0) : i = j := by
  simp only [List.getD_eq_getElem?_getD, List.getElem?_eq_getElem hi, List.getElem?_eq_getElem hj,
    Option.getD_some] at h
  have h1 := (sa_nodup hp).idxOf_getElem i hi
  have h2 := (sa_nodup hp).idxOf_getElem j hj
  rw [h] at h1; omega

omit hp in
theorem mem_take_of_lt (y x : Nat) (hy : y < x) (hx : x ≤ sa.length) : sa.getD y 0 ∈ sa.take x := by
  rw [List.mem_take_iff_getElem]
  have hy' : y < sa.length := by omega
  exact ⟨y, by omega, by simp [List.getD_eq_getElem?_getD, List.getElem?_eq_getElem hy']⟩

omit hp in
theorem lt_of_mem_take (p x : Nat) (h : p ∈ sa.take x) : ∃ y, y < x ∧ y < sa.length ∧ sa.getD y 0 = p := by
  rw [List.mem_take_iff_getElem] at h
  obtain ⟨y, hy, he⟩ := h
  have hy' : y < sa.length := by omega
  exact ⟨y, by omega, hy', by simp [List.getD_eq_getElem?_getD, List.getElem?_eq_getElem hy', he]⟩

theorem surj_of_perm : Surj t sa := fun i hi => sa_surj hp i hi

end perm

/-! ### the crux: rows before `x` that start with `a`  ↔  rows before `z` whose BWT symbol is `a` -/

section crux
variable {t sa : List Nat} {a : Nat} (hs : Sorted t sa a)
include hs

theorem succ_lt (p : Nat) (hp : p < t.length) (ha : t.getD p 0 = a) : p + 1 < t.length := by
  have hl := hs.last
  by_cases h : p = t.length - 1
  · subst h; exact absurd ha hl
  · omega

omit hs in
theorem bwSym_succ (t : List Nat) (p : Nat) : bwSym t (p + 1) = t.getD p 0 := by simp [bwSym]

theorem bwSym_eq_a (q : Nat) (h : bwSym t q = a) : ∃ p, q = p + 1 ∧ t.getD p 0 = a := by
  cases q with
  | zero => simp only [bwSym, Nat.lt_irrefl, if_false] at h; exact absurd h hs.last
  | succ p => exact ⟨p, rfl, by simpa [bwSym] using h⟩

theorem mem_take_succ_iff (x z p : Nat) (hx : x < sa.length) (hz : z < sa.length)
    (hxa : t.getD (sa.getD x 0) 0 = a) (hzx : sa.getD z 0 = sa.getD x 0 + 1)
    (hp : p < t.length) (hpa : t.getD p 0 = a) : p ∈ sa.take x ↔ p + 1 ∈ sa.take z := by
  have hperm := hs.perm
  constructor
  · intro hm
    obtain ⟨y, hyx, hy, hey⟩ := lt_of_mem_take p x hm
    obtain ⟨y', hy', hey'⟩ := sa_surj hperm (p + 1) (succ_lt hs p hp hpa)
    have := hs.step y x y' z hyx hx hy' hz (by rw [hey]; exact hpa) hxa (by rw [hey', hey]) hzx
    rw [← hey']; exact mem_take_of_lt y' z this (by omega)
  · intro hm
    obtain ⟨y', hy'z, hy', hey'⟩ := lt_of_mem_take (p + 1) z hm
    obtain ⟨y, hy, hey⟩ := sa_surj hperm p hp
    by_cases h1 : y < x
    · rw [← hey]; exact mem_take_of_lt y x h1 (by omega)
    · exfalso
      by_cases h2 : y = x
      · subst h2
        have : y' = z := sa_inj hperm y' z hy' hz (by rw [hey', hzx, hey])
        omega
      · have := hs.step x y z y' (by omega) hy hz hy' hxa (by rw [hey]; exact hpa) hzx (by rw [hey', hey])
        omega

/-- number of rows before `x` starting with `a` = number of rows before `z` with BWT symbol `a` -/
theorem count_first_eq_occLt (x z : Nat) (hx : x < sa.length) (hz : z < sa.length)
    (hxa : t.getD (sa.getD x 0) 0 = a) (hzx : sa.getD z 0 = sa.getD x 0 + 1) :
    (sa.take x).countP (fun p => t.getD p 0 == a) = occLt (bwtOf t sa) z a := by
  have hperm := hs.perm
  have hnd := sa_nodup hperm
  unfold occLt bwtOf
  rw [← List.map_take, List.count_eq_countP, List.countP_map]
  simp only [List.countP_eq_length_filter]
  have hU : ((sa.take x).filter (fun p => t.getD p 0 == a)).Nodup :=
    (hnd.sublist (List.take_sublist x sa)).sublist List.filter_sublist
  have hV : ((sa.take z).filter ((fun x => x == a) ∘ bwSym t)).Nodup :=
    (hnd.sublist (List.take_sublist z sa)).sublist List.filter_sublist
  have hU' : (((sa.take x).filter (fun p => t.getD p 0 == a)).map (· + 1)).Nodup := by
    rw [List.nodup_iff_pairwise_ne, List.pairwise_map]
    exact (List.nodup_iff_pairwise_ne.mp hU).imp (fun h => by omega)
  have hperm2 : (((sa.take x).filter (fun p => t.getD p 0 == a)).map (· + 1)).Perm
      ((sa.take z).filter ((fun x => x == a) ∘ bwSym t)) := by
    rw [List.perm_ext_iff_of_nodup hU' hV]
    intro q
    simp only [List.mem_map, List.mem_filter, beq_iff_eq, Function.comp]
    constructor
    · rintro ⟨p, ⟨hpm, hpa⟩, rfl⟩
      have hpl : p < t.length := sa_mem_lt hperm p ((List.take_sublist x sa).subset hpm)
      exact ⟨(mem_take_succ_iff hs x z p hx hz hxa hzx hpl hpa).mp hpm, by rw [bwSym_succ]; exact hpa⟩
    · rintro ⟨hqm, hqa⟩
      obtain ⟨p, rfl, hpa⟩ := bwSym_eq_a hs q hqa
      have hql : p + 1 < t.length := sa_mem_lt hperm (p + 1) ((List.take_sublist z sa).subset hqm)
      exact ⟨p, ⟨(mem_take_succ_iff hs x z p hx hz hxa hzx (by omega) hpa).mpr hqm, hpa⟩, rfl⟩
  have := hperm2.length_eq
  simpa using this

end crux

/-! ### `less`: rows are grouped by first symbol -/

/-- the BWT is a cyclic shift of the text: counting over all positions gives the same result -/
theorem countP_bwSym (t : List Nat) (q : Nat → Bool) :
    (List.range t.length).countP (fun p => q (bwSym t p)) = (List.range t.length).countP (fun p => q (t.getD p 0)) := by
  cases hn : t.length with
  | zero => simp
  | succ m =>
    conv => lhs; rw [List.range_succ_eq_map]
    conv => rhs; rw [List.range_succ]
    simp only [List.countP_cons, List.countP_map, List.countP_append, Function.comp_def,
      bwSym_succ]
    simp [bwSym, hn]

theorem length_eq_three_counts (f : Nat → Nat) (a : Nat) (l : List Nat) :
    l.length = l.countP (fun p => f p < a) + l.countP (fun p => f p == a) + l.countP (fun p => a < f p) := by
  induction l with
  | nil => simp
  | cons b l ih =>
    simp only [List.length_cons, List.countP_cons, decide_eq_true_eq, beq_iff_eq]
    split <;> split <;> split <;> omega

section less
variable {t sa : List Nat} {a : Nat} (hs : Sorted t sa a)
include hs

theorem lessRef_eq : lessRef (bwtOf t sa) a = sa.countP (fun p => t.getD p 0 < a) := by
  unfold lessRef bwtOf
  rw [List.countP_map]
  have h1 := hs.perm.countP_eq (fun p => decide (bwSym t p < a))
  have h2 := hs.perm.countP_eq (fun p => decide (t.getD p 0 < a))
  have h3 := countP_bwSym t (fun c => decide (c < a))
  simp only [Function.comp_def] at *
  rw [h1, h2, h3]

/-- rows from `x` on do not start with a smaller symbol, rows before `x` not with a larger one -/
theorem countP_lt_take (x : Nat) (hx : x < sa.length) (hxa : t.getD (sa.getD x 0) 0 = a) :
    (sa.take x).countP (fun p => t.getD p 0 < a) = lessRef (bwtOf t sa) a := by
  rw [lessRef_eq hs]
  conv => rhs; rw [← List.take_append_drop x sa]
  rw [List.countP_append]
  have : (sa.drop x).countP (fun p => decide (t.getD p 0 < a)) = 0 := by
    rw [List.countP_eq_zero]
    intro p hp
    obtain ⟨k, hk, he⟩ := List.mem_iff_getElem.mp hp
    simp only [List.length_drop] at hk
    simp only [List.getElem_drop] at he
    have hxk : x + k < sa.length := by omega
    have hget : sa.getD (x + k) 0 = p := by simp [List.getD_eq_getElem?_getD, List.getElem?_eq_getElem hxk, he]
    simp only [decide_eq_true_eq, Nat.not_lt]
    by_cases hk0 : k = 0
    · subst hk0; rw [← hget, Nat.add_zero, hxa]; exact Nat.le_refl _
    · have := hs.mono x (x + k) (by omega) hxk
      rw [hxa, hget] at this; exact this
  omega

theorem countP_gt_take (x : Nat) (hx : x < sa.length) (hxa : t.getD (sa.getD x 0) 0 = a) :
    (sa.take x).countP (fun p => a < t.getD p 0) = 0 := by
  rw [List.countP_eq_zero]
  intro p hp
  obtain ⟨y, hyx, hy, he⟩ := lt_of_mem_take p x hp
  have := hs.mono y x hyx hx
  rw [hxa, he] at this
  simp only [decide_eq_true_eq]; omega

/-- **LF-mapping lemma.**  If row `x` starts with `a` and row `z` holds the next position, then
`x = less(a) + #{rows before z whose BWT symbol is a}` — i.e. `LF(z) = x`. -/
theorem lf_mapping (x z : Nat) (hx : x < sa.length) (hz : z < sa.length)
    (hxa : t.getD (sa.getD x 0) 0 = a) (hzx : sa.getD z 0 = sa.getD x 0 + 1) :
    x = lessRef (bwtOf t sa) a + occLt (bwtOf t sa) z a := by
  have h0 := length_eq_three_counts (fun p => t.getD p 0) a (sa.take x)
  rw [countP_lt_take hs x hx hxa, countP_gt_take hs x hx hxa, count_first_eq_occLt hs x z hx hz hxa hzx] at h0
  simp only [List.length_take] at h0
  omega

end less

/-! ### counting `a` in prefixes of the BWT -/

theorem occLt_mono (bwt : List Nat) (a z z' : Nat) (h : z ≤ z') : occLt bwt z a ≤ occLt bwt z' a := by
  unfold occLt
  have : bwt.take z = (bwt.take z').take z := by rw [List.take_take]; congr 1; omega
  rw [this]
  exact (List.take_sublist z (bwt.take z')).count_le a

theorem occLt_succ (bwt : List Nat) (a z : Nat) (hz : z < bwt.length) :
    occLt bwt (z + 1) a = occLt bwt z a + (if bwt.getD z 0 = a then 1 else 0) := by
  unfold occLt
  rw [List.take_succ_eq_append_getElem hz, List.count_append]
  simp [List.getD_eq_getElem?_getD, List.getElem?_eq_getElem hz, List.count_singleton]

theorem occLt_le_length (bwt : List Nat) (a z : Nat) : occLt bwt z a ≤ bwt.count a := by
  unfold occLt; exact (List.take_sublist z bwt).count_le a

/-- intermediate value: every count between `occLt lo` and `occLt hi` is attained at a row holding `a` -/
theorem occLt_ivt (bwt : List Nat) (a lo k : Nat) : ∀ hi, hi ≤ bwt.length → occLt bwt lo a ≤ k → k < occLt bwt hi a →
    ∃ z, lo ≤ z ∧ z < hi ∧ bwt.getD z 0 = a ∧ occLt bwt z a = k := by
  intro hi
  induction hi with
  | zero =>
    intro _ h1 h2
    simp [occLt] at h2
  | succ hi ih =>
    intro hle h1 h2
    rw [occLt_succ bwt a hi (by omega)] at h2
    by_cases hk : k < occLt bwt hi a
    · obtain ⟨z, hz1, hz2, hz3, hz4⟩ := ih (by omega) h1 hk
      exact ⟨z, hz1, by omega, hz3, hz4⟩
    · split at h2
      · rename_i ha
        refine ⟨hi, ?_, by omega, ha, by omega⟩
        -- lo ≤ hi: otherwise occLt lo ≥ occLt (hi+1) > k
        by_cases hlo : lo ≤ hi
        · exact hlo
        · have := occLt_mono bwt a (hi + 1) lo (by omega)
          rw [occLt_succ bwt a hi (by omega), if_pos ha] at this
          omega
      · omega

theorem less_add_count_le (bwt : List Nat) (a : Nat) : lessRef bwt a + bwt.count a ≤ bwt.length := by
  have := length_eq_three_counts id a bwt
  unfold lessRef
  rw [List.count_eq_countP]
  simp only [id] at this
  omega

theorem occursAt_cons_iff (a : Nat) (P t : List Nat) (i : Nat) :
    OccursAt (a :: P) t i ↔ i < t.length ∧ t.getD i 0 = a ∧ OccursAt P t (i + 1) := by
  unfold OccursAt
  simp only [List.length_cons]
  constructor
  · rintro ⟨h1, h2⟩
    have hi : i < t.length := by omega
    rw [List.drop_eq_getElem_cons hi, List.take_succ_cons] at h2
    simp only [List.cons.injEq] at h2
    exact ⟨hi, by simp [List.getD_eq_getElem?_getD, List.getElem?_eq_getElem hi, h2.1], by omega, h2.2⟩
  · rintro ⟨hi, h2, h3, h4⟩
    refine ⟨by omega, ?_⟩
    rw [List.drop_eq_getElem_cons hi, List.take_succ_cons, h4]
    simp [List.getD_eq_getElem?_getD, List.getElem?_eq_getElem hi] at h2
    rw [h2]

/-! ### the LF step from sortedness -/

section step
variable {t sa : List Nat} {a : Nat} (hs : Sorted t sa a)
include hs

omit hs in
theorem bwt_getD (z : Nat) (hz : z < sa.length) : (bwtOf t sa).getD z 0 = bwSym t (sa.getD z 0) := by
  unfold bwtOf
  simp [List.getD_eq_getElem?_getD, List.getElem?_eq_getElem hz]

theorem ivOf_step (P : List Nat) (lo hi : Nat) (hiv : IvOf t sa P lo hi) :
    IvOf t sa (a :: P) (lessRef (bwtOf t sa) a + occLt (bwtOf t sa) lo a)
      (lessRef (bwtOf t sa) a + occLt (bwtOf t sa) hi a) := by
  have hperm := hs.perm
  have hlen : (bwtOf t sa).length = sa.length := by simp [bwtOf]
  obtain ⟨h1, h2, h3⟩ := hiv
  refine ⟨?_, ?_, ?_⟩
  · have := occLt_mono (bwtOf t sa) a lo hi h1; omega
  · have := occLt_le_length (bwtOf t sa) a hi
    have := less_add_count_le (bwtOf t sa) a
    omega
  · intro x hx
    constructor
    · rintro ⟨hx1, hx2⟩
      obtain ⟨z, hz1, hz2, hz3, hz4⟩ := occLt_ivt (bwtOf t sa) a lo (x - lessRef (bwtOf t sa) a) hi (by omega)
        (by omega) (by omega)
      have hz : z < sa.length := by omega
      rw [bwt_getD z hz] at hz3
      obtain ⟨p, hpz, hpa⟩ := bwSym_eq_a hs _ hz3
      have hpl : p < t.length := by have := sa_lt hperm z hz; omega
      obtain ⟨x', hx', hex'⟩ := sa_surj hperm p hpl
      have hlf := lf_mapping hs x' z hx' hz (by rw [hex']; exact hpa) (by rw [hex']; exact hpz)
      have hxx : x' = x := by omega
      subst hxx
      rw [hex', occursAt_cons_iff]
      refine ⟨hpl, hpa, ?_⟩
      rw [← hpz]
      exact (h3 z hz).mp ⟨hz1, hz2⟩
    · intro ho
      rw [occursAt_cons_iff] at ho
      obtain ⟨hpl, hpa, hoP⟩ := ho
      obtain ⟨z, hz, hez⟩ := sa_surj hperm (sa.getD x 0 + 1) (succ_lt hs _ hpl hpa)
      have hzin := (h3 z hz).mpr (by rw [hez]; exact hoP)
      have hlf := lf_mapping hs x z hx hz hpa hez
      have hbz : (bwtOf t sa).getD z 0 = a := by rw [bwt_getD z hz, hez, bwSym_succ]; exact hpa
      have hsucc := occLt_succ (bwtOf t sa) a z (by omega)
      rw [if_pos hbz] at hsucc
      have hm1 := occLt_mono (bwtOf t sa) a lo z hzin.1
      have hm2 := occLt_mono (bwtOf t sa) a (z + 1) hi (by omega)
      omega

/-- the concrete `less` / `occ` of the BWT of a sorted array provide the LF step of the mirror model -/
theorem lfStep_of_sorted : LFStep t sa (lessRef (bwtOf t sa)) (occRef (bwtOf t sa)) a := by
  intro P lo hi hiv hne
  have key := ivOf_step hs P lo hi hiv
  have e1 : (if lo > 0 then occRef (bwtOf t sa) (lo - 1) a else 0) = occLt (bwtOf t sa) lo a := by
    split
    · unfold occRef occLt; congr 2; omega
    · have : lo = 0 := by omega
      subst this; simp [occLt]
  have e2 : occRef (bwtOf t sa) (hi - 1) a = occLt (bwtOf t sa) hi a := by
    unfold occRef occLt; congr 2; omega
  rw [e1, e2]
  exact ⟨key.1, key⟩

end step

/-! ### backward search on a sorted array is correct -/

theorem less_pos {t sa : List Nat} {a : Nat} (hs : Sorted t sa a) (hn : 0 < t.length)
    (hlt : t.getD (t.length - 1) 0 < a) : 1 ≤ lessRef (bwtOf t sa) a := by
  rw [lessRef_eq hs, hs.perm.countP_eq]
  apply List.countP_pos_iff.mpr
  exact ⟨t.length - 1, List.mem_range.mpr (by omega), by simpa using hlt⟩

/-- **`backward_search` is correct on every LF-sorted index** (multi-sentinel texts included: nothing is assumed
about the order of the rows that start with the sentinel).  For every text `t` ending in a symbol smaller than all
pattern symbols, every array `sa` that is `Sorted` for the pattern symbols, and every non-empty pattern, the result
of the mirror model — run with `less`/`occ` computed from the BWT of `(t, sa)` — satisfies the property statement
`BSProp`. -/
theorem backwardSearch_correct (t sa pat : List Nat) (hp : pat ≠ []) (hn : 0 < t.length)
    (hsent : ∀ a ∈ pat, t.getD (t.length - 1) 0 < a)
    (hsorted : ∀ a ∈ pat, Sorted t sa a) :
    BSProp t sa pat (backwardSearch (lessRef (bwtOf t sa)) (occRef (bwtOf t sa)) sa.length pat) := by
  obtain ⟨a0, ha0⟩ : ∃ a, a ∈ pat := by
    cases pat with
    | nil => exact absurd rfl hp
    | cons a q => exact ⟨a, by simp⟩
  have hperm := (hsorted a0 ha0).perm
  apply backwardSearch_correct_of_LF t sa pat _ _ hp
  · rw [sa_length hperm]; exact hn
  · intro row hrow; exact Nat.le_of_lt (sa_lt hperm row hrow)
  · exact surj_of_perm hperm
  · intro a ha; exact less_pos (hsorted a ha) hn (hsent a ha)
  · intro a ha; exact lfStep_of_sorted (hsorted a ha)

end RbV.LF
